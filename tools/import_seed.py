#!/usr/bin/env python3
"""tools/import_seed.py <src dir (patch.diff, demo.py, meta.json)> <seed id> <caught-by ...>
copies a confirmed seeded change into seeded/<id>/ and records what was run"""
import sys, os, json, shutil
src, sid = sys.argv[1], sys.argv[2]; caught = sys.argv[3:]
dst = os.path.join(os.path.dirname(os.path.dirname(os.path.abspath(__file__))), 'seeded', sid)
os.makedirs(dst, exist_ok=True)
for f in ('patch.diff', 'demo.py'):
    shutil.copy(os.path.join(src, f), os.path.join(dst, f))
m = json.load(open(os.path.join(src, 'meta.json')))
m.update({'origin': 'independent sub-agent given only the property text and a scratch worktree',
          'confirmed': 'tools/verify_seed.sh: demo exits 0 on HEAD and 1 with the patch; the 97-test suite passes with the patch',
          'checks_run': 'quick tier of the listed checks against a scratch worktree with the patch applied (tools/verify_seed.sh)',
          'reported_by': caught})
json.dump(m, open(os.path.join(dst, 'meta.json'), 'w'), indent=1)
print(sid, caught)
