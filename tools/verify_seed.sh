#!/bin/sh
# tools/verify_seed.sh <dir with patch.diff demo.py> <prop> [<prop>...]
# 1. confirms the seeded change independently: demo passes on HEAD, fails with the patch, test suite passes with the patch
# 2. runs the named checks (quick) against the patched scratch worktree and prints what they report
set -e
D=$(readlink -f "$1"); shift
S=/var/tmp/bu-seed.$$
mkdir -p $S
trap 'git -C /repo worktree remove --force $S/repo 2>/dev/null; rm -rf $S' EXIT
git -C /repo worktree add -q --detach $S/repo HEAD
cd $S/repo
mkdir -p $S/repo/out/X && cp $D/demo.py $S/repo/out/X/demo.py     # demos locate the library relative to themselves (../..) or via BU_ROOT
R0=0; BU_ROOT=$S/repo PYTHONDONTWRITEBYTECODE=1 PYTHONPATH=$S/repo /venv/bin/python $S/repo/out/X/demo.py >$S/demo0.txt 2>&1 || R0=$?
git apply "$D/patch.diff"
R1=0; BU_ROOT=$S/repo PYTHONDONTWRITEBYTECODE=1 PYTHONPATH=$S/repo /venv/bin/python $S/repo/out/X/demo.py >$S/demo1.txt 2>&1 || R1=$?
T=skipped
if [ -z "$SKIPTESTS" ]; then
  if /venv/bin/python -m pytest -q -p no:cacheprovider -x >$S/pytest.txt 2>&1; then T=pass; else T=FAIL; fi
fi
echo "demo without change: exit $R0; demo with change: exit $R1 ($(tail -1 $S/demo1.txt | cut -c1-160)); test suite with change: $T"
rm -rf $S/repo/out
rsync -a --exclude .git --exclude evidence ${VERIF_SRC:-/verif}/ $S/verif/ || [ $? -eq 24 ]   # 24: files vanished during a concurrent build
for p in "$@"; do
  (cd $S/verif && BU_REPO=$S/repo ./check $p ${TIER:-quick} > $S/out.txt 2>&1) || true
  echo "  check $p: $(grep -m1 VIOLATION $S/out.txt || echo 'no violation reported') | $(tail -1 $S/out.txt | cut -c1-120)"
  if [ -n "$SHOWREPLAY" ]; then head -${SHOWREPLAY} $S/verif/evidence/replay/$p-*.json 2>/dev/null | cut -c1-300; fi
done
