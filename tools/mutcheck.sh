#!/bin/sh
# tools/mutcheck.sh <patch.diff> <tier> <prop> [<prop>...]
# Runs checks against a *scratch* worktree of /repo with the patch applied and a scratch copy of /verif,
# so that neither /repo nor /verif/lean (where proofs may be in progress) is disturbed.
set -e
PATCH=$(readlink -f "$1"); TIER=$2; shift 2
S=/var/tmp/bu-mut.$$
mkdir -p $S
trap 'git -C /repo worktree remove --force $S/repo 2>/dev/null; rm -rf $S' EXIT
git -C /repo worktree add -q --detach $S/repo HEAD
git -C $S/repo apply "$PATCH"
rsync -a --exclude .git --exclude evidence ${VERIF_SRC:-/verif}/ $S/verif/ || [ $? -eq 24 ]   # 24: files vanished during a concurrent build
for p in "$@"; do
  echo "== $p on $(basename $(dirname $PATCH))"
  (cd $S/verif && BU_REPO=$S/repo BU_DEV=${BU_DEV:-0} ./check $p $TIER 2>&1 | tail -${TAIL:-4}) || true
  if [ -n "$SHOWREPLAY" ]; then cat $S/verif/evidence/replay/$p-*.json 2>/dev/null | head -${SHOWREPLAY}; fi
done
