#!/usr/bin/env python3
"""tools/seedtable.py — regenerates the table of seeded changes in DESIGN.md (between the SEEDTABLE markers)
from seeded/*/meta.json."""
import os, json, re
V = os.path.dirname(os.path.dirname(os.path.abspath(__file__)))
rows = ['| seeded change | property | what it does | reported by |', '|---|---|---|---|']
for sid in sorted(os.listdir(os.path.join(V, 'seeded'))):
    m = json.load(open(os.path.join(V, 'seeded', sid, 'meta.json')))
    summ = re.sub(r'\s+', ' ', m.get('summary', '')).replace('|', '/')[:150]
    rb = m.get('reported_by'); rb = ' '.join(rb) if isinstance(rb, list) else str(rb)
    rows.append(f"| `{sid}` | {m.get('property', '')} | {summ} | {rb} |")
p = os.path.join(V, 'DESIGN.md')
s = open(p).read()
a, b = '<!-- SEEDTABLE:BEGIN -->', '<!-- SEEDTABLE:END -->'
assert a in s and b in s
s = s[:s.index(a) + len(a)] + '\n' + '\n'.join(rows) + '\n' + s[s.index(b):]
open(p, 'w').write(s)
print(len(rows) - 2, 'rows')
