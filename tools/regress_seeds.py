#!/usr/bin/env python3
"""tools/regress_seeds.py [-j N] [seed-id ...]
Re-runs, for every seeded change under seeded/ (or the named ones), the quick tier of each check listed in its
meta.json `reported_by` against a scratch worktree of /repo with the change applied (tools/mutcheck.sh), and reports
which are still reported.  Nothing is applied to /repo itself.  Exit 0 iff every listed check still reports."""
import sys, os, json, subprocess, re
from concurrent.futures import ThreadPoolExecutor
V = os.path.dirname(os.path.dirname(os.path.abspath(__file__)))
args = sys.argv[1:]; jobs = 4
if args[:1] == ['-j']: jobs = int(args[1]); args = args[2:]
seeds = args or sorted(os.listdir(os.path.join(V, 'seeded')))
def run(sid):
    d = os.path.join(V, 'seeded', sid)
    meta = json.load(open(os.path.join(d, 'meta.json')))
    props = meta.get('reported_by') or []
    if isinstance(props, str): props = props.split()
    env = dict(os.environ, TAIL='3')
    if os.environ.get('DEV_PROPS'): env['BU_DEV'] = '1' if any(p in os.environ['DEV_PROPS'].split() for p in props) else '0'
    p = subprocess.run([os.path.join(V, 'tools', 'mutcheck.sh'), os.path.join(d, 'patch.diff'), 'quick'] + props,
                       capture_output=True, text=True, env=env)
    res = {}
    cur = None
    for l in p.stdout.split('\n'):
        m = re.match(r'== (\S+) on', l)
        if m: cur = m.group(1); res[cur] = 'no violation'
        elif cur and 'VIOLATION property=' + cur in l:
            res[cur] = 'reported' + (' (no-failing-input-found)' if 'no-failing-input-found' in l else '')
        elif cur and '-> exit 2' in l: res[cur] = 'MACHINERY FAULT'
    return sid, props, res, p.stderr[-300:]
bad = 0
with ThreadPoolExecutor(jobs) as ex:
    for sid, props, res, err in ex.map(run, seeds):
        line = ' '.join(f'{p}:{res.get(p, "not run")}' for p in props)
        ok = all(res.get(p, '').startswith('reported') for p in props) and props
        if not ok: bad += 1
        print(('ok   ' if ok else 'MISS ') + sid + '  ' + line + ('' if ok else '  ' + err.replace('\n', ' ')[:200]), flush=True)
print(f'{len(seeds)} seeded changes, {bad} not (fully) reported')
sys.exit(1 if bad else 0)
