#!/bin/sh
# tools/pyrt_fuzz/run.sh [N] [seed] — validation of PyRT's string functions (not a check of a property): N random short strings over
# hex digits, x/X, _, +, -, the ASCII whitespace characters, \x1c, \x1f, g and NUL go through CPython's int(s, 16), bytes.fromhex(s),
# s.strip() and through Py.intBase16 / Py.bytesFromhex / Py.strStrip (interpreted); prints the differences (none expected).
N=${1:-30000}; SEED=${2:-7}
D=$(mktemp -d /var/tmp/pyrtfz.XXXXXX); trap 'rm -rf $D' EXIT
/venv/bin/python - "$N" "$SEED" "$D" <<'PY'
import random, sys
n_, seed, d = int(sys.argv[1]), int(sys.argv[2]), sys.argv[3]
rng = random.Random(seed)
A = "0123456789abcdefABCDEFxX_+- \t\n\x0b\x0c\r\x1c\x1fg\x00"
def t(f, *a):
    try: return f(*a)
    except ValueError: return 'VE'
lines = []; exp = []
for _ in range(n_):
    s = ''.join(rng.choice(A) for _ in range(rng.choice([0, 1, 2, 3, 4, 5, 6, 8, 10])))
    lines.append(s.encode().hex() or '-')
    i = t(int, s, 16); b = t(bytes.fromhex, s)
    exp.append(f"{i} {b if b == 'VE' else (b.hex() or '-')} {s.strip().encode().hex() or '-'}")
open(d + '/in.txt', 'w').write('\n'.join(lines) + '\n'); open(d + '/exp.txt', 'w').write('\n'.join(exp) + '\n')
PY
(cd "$(dirname "$0")/../../lean" && lake env lean --run ../tools/pyrt_fuzz/fz.lean < $D/in.txt > $D/out.txt)
if diff $D/exp.txt $D/out.txt > $D/diff.txt; then echo "pyrt string fuzz: $N strings, no difference"; else head -20 $D/diff.txt; exit 1; fi
