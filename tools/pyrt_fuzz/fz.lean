import BU.PyList
open Py
def unhex (s : String) : List Char :=
  if s == "-" then [] else
  let cs := s.toList
  let rec go : List Char → List Char
    | a :: b :: r => Char.ofNat ((hexVal a).getD 0 * 16 + (hexVal b).getD 0) :: go r
    | _ => []
  go cs
def hx (cs : List Char) : String := if cs.isEmpty then "-" else String.join (cs.map fun c => String.ofList [hexChar (c.toNat / 16), hexChar (c.toNat % 16)])
def hxb (b : Bytes) : String := if b.isEmpty then "-" else String.join (b.map fun u => String.ofList [hexChar (u.toNat / 16), hexChar (u.toNat % 16)])
partial def loop (h : IO.FS.Stream) : IO Unit := do
  let line ← h.getLine
  if line.isEmpty then return ()
  let s := unhex (line.trimAscii.toString)
  let i := match intBase16 s with | .ok v => toString v | .error _ => "VE"
  let b := match bytesFromhex s with | .ok v => hxb v | .error _ => "VE"
  let st := match strStrip s with | .ok v => hx v | .error _ => "UNS"
  IO.println s!"{i} {b} {st}"
  loop h
def main : IO Unit := do loop (← IO.getStdin)
