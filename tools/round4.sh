#!/bin/sh
# tools/round3.sh <Cnn> [<extra prop>...]   verify both changes a sub-agent left in /tmp/seed4/<Cnn>/out/{G,H}
P=$1; shift
for X in G H; do
  D=/tmp/seed4/$P/out/$X
  [ -f $D/patch.diff ] || { echo "$P-$X: no patch"; continue; }
  echo "### $P-$X"
  /verif/tools/verify_seed.sh $D $P "$@" 2>&1 | tail -4
done
