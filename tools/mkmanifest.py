#!/usr/bin/env python3
"""Regenerates MANIFEST.json from the table below (claimed checks) + properties.jsonl (everything else is not_applicable
with its reason)."""
import json, os
V = os.path.dirname(os.path.dirname(os.path.abspath(__file__)))
props = [json.loads(l)['id'] for l in open(os.path.join(V, 'properties.jsonl'))]

NOTE_COMMON = ('Trusted: Lean 4.33 kernel (axioms propext, Classical.choice, Quot.sound only; no sorry/native_decide/own axioms), '
               'the translator gen/py2lean.py + BU/Py.lean semantics for tier-T code, and for hand-modelled (tier-M) code the '
               'correspondence run (sampling) that ties the model to the working tree. ')

CLAIMED = {
 # id: (text, note, technique, design_ref)
 'C17': ('Kernel-checked theorems over all n: the *generated* (re-translated from /repo on every run) encode_varint / parse_compact_size / '
         'vi_to_int / prepend_compact_size equal the CompactSize Spec (canonical, shortest, decoders invert, refusal outside 0..2^64-1); '
         'Decimal/int amounts with <= 8 decimals convert exactly; float amounts up to 21e6 BTC convert exactly under the standard model of '
         'binary64 rounding (hypothesis StdModel, proved error bound 0.4663 < 1/2) and by correspondence against native binary64.',
         NOTE_COMMON + 'CPython Decimal context (28 digits); IEEE-754 round-to-nearest standard model for the float branch.',
         'Lean 4 proof over translated source + differential correspondence', '6/C17'),
 'C18': ('Kernel-checked theorems over all values: generated Sequence/Locktime helpers and _push_integer equal the BIP68/BIP112/BIP65 Spec '
         '(value in low 16 bits, bit 22 for 512 s units, bit 31 clear, same number in input and script, CSV satisfied in a v2 tx, range '
         'rejection, non-final sequences, le32 locktime, script numbers decode back minimally for every k).',
         NOTE_COMMON, 'Lean 4 proof over translated source + differential correspondence', '6/C18'),
 'C02': ('Kernel-checked theorems for token lists of any length: the generated opcode dictionaries are sound w.r.t. the consensus numbering and '
         'mutually inverse (evaluated over the whole table), the generated _op_push_data/_push_integer equal the minimal-push / script-number Spec '
         'for every length, and for the hand model of Script.to_bytes / from_raw: assembly = consensus encoding, disassembly renders every token, '
         're-assembly reproduces the bytes (both has_segwit values). Script.to_bytes and Script.from_raw themselves are re-translated on every run and proved equal to the model '
         'on every token list / byte string (tier T), so assembly = consensus encoding and the assemble-disassemble-assemble round trip are theorems about the translated source; the correspondence run additionally executes model and generated code against the implementation.',
         NOTE_COMMON + 'A token is an opcode name, a hex string (modelled by the bytes it denotes) or an int.', 'Lean 4 proof over translated source + differential correspondence', '6/C02'),
 'C01': ('Kernel-checked theorems for all well-formed transactions (any counts, coinbase/legacy/segwit/mixed, empty stacks anywhere): '
         'Model.Tx.toBytes = the BIP144/legacy wire Spec, parse(encode t) renders t field for field, re-encoding the parse gives the same bytes, '
         'txid/wtxid are the reversed double-SHA256 of the stripped/full encoding (SHA-256 a parameter). The four serialisers (TxWitnessInput/TxOutput/TxInput/'
         'Transaction.to_bytes) are re-translated on every run and proved equal to the model whenever the prefixed lengths are below 2^64 (tier T), so '
         'serialisation = wire format is a theorem about the translated source. The parsers (TxOutput/TxInput/Transaction.from_raw: cursor arithmetic, '
         'struct.unpack_from, clamping slices, four loops whose counts come from the data) are likewise re-translated on every run and proved to '
         'simulate the model parser: where the model returns a transaction the translated code returns the same one, where the model fails the '
         'translated code raises (buffers < 2^63 bytes; the kind of exception is not compared); hence parse(encode t) and re-encoding hold of the translated '
         'pair. get_txid / get_wtxid are translated too and proved equal to the model ids (reversed double-SHA256 of the stripped / full encoding). The object '
         'plumbing is tied by the correspondence run incl. the mainnet fixture transactions.',
         NOTE_COMMON + 'SHA-256 is a parameter (driver instance checked against hashlib each run); translator semantics trusted.', 'Lean 4 proof over translated source (serialisation and parsing) + differential correspondence', '6/C01'),
 'C16': ('Kernel-checked theorems: size = length of the full serialisation, vsize = ceil((3*stripped + full)/4) for any witness structure, '
         'legacy vsize = size; model in integer arithmetic. Tier T: get_size and get_vsize are re-translated from the working tree on every run (the '
         'witness re-serialisation loop, the true division kept as an exact fraction, math.ceil) and proved to return what the model returns for every '
         'transaction whose prefixed lengths are below 2^64; so size = length of the full serialisation and vsize = ceil((3*stripped + full)/4) are theorems '
         'about the translated code. The generated functions are also run against the implementation (stacks of 0..300 items).',
         NOTE_COMMON + 'binary64 quarter arithmetic exact below 2^51 (assumed in the translation of `/`, exercised).', 'Lean 4 proof over translated source + differential correspondence', '6/C16'),
 'C03': ('Kernel-checked theorem for every one-byte hash type, input index and transaction shape: the hand model of get_transaction_digest '
         '(with its temporaries: copy, blanked scriptSigs, NONE/SINGLE/ANYONECANPAY surgery) equals double-SHA256 of the Bitcoin Core '
         'SignatureHash preimage Spec; SINGLE without matching output is refused; the digest ignores existing scriptSigs. Tier T: '
         'get_transaction_digest is re-translated from the working tree on every run — the record lists of tmp_tx = Transaction.copy(self) become '
         'mutable values (element-wise field assignment = map, indexed field assignment = get + set, append, re-binding), after the translator has '
         'checked structurally that Transaction/TxInput/TxOutput/TxWitnessInput/Script.copy hand every field to the constructor field of the same name — '
         'and proved to return, results and exceptions, what the model returns for every transaction, index, script code and hash type (counts and '
         'scripts < 2^64); so the SignatureHash theorem and the SINGLE refusal are about the translated code. The generated function is also run '
         'against the implementation.', NOTE_COMMON + 'SHA-256 is a parameter; translator semantics trusted, incl. value semantics for the deep copy (no '
         'object of the copy escapes — checked; freshness of the copy is C13).', 'Lean 4 proof over translated source + differential correspondence', '6/C03'),
 'C04': ('Kernel-checked theorem for every hash type without the undefined 0x70 bits, any index, any script/amount: the hand model of '
         'get_transaction_segwit_digest equals double-SHA256 of the BIP143 preimage Spec (CompactSize prefixes everywhere, zero hashOutputs for '
         'SINGLE out of range); independent of scriptSigs/witnesses. Tier T: get_transaction_segwit_digest is re-translated from the working tree on '
         'every run and proved to return, results and exceptions, what the model returns for every transaction, index, script code, amount and hash '
         'type (scripts < 2^64 bytes), so the BIP143 theorem is about the translated code; the generated function is also run against the implementation.',
         NOTE_COMMON + 'SHA-256 is a parameter; translator semantics (gen/py2lean.py, BU/Py.lean) trusted.', 'Lean 4 proof over translated source + differential correspondence', '6/C04'),
 'C05': ('Kernel-checked theorem for the seven valid hash types, key path and script path, any index/shape/script length: the hand model of '
         'get_transaction_taproot_digest equals the BIP341 SigMsg / BIP342 extension Spec under the TapSighash tagged hash; independent of '
         'scriptSigs/witnesses. Tier T: get_transaction_taproot_digest is re-translated from the working tree on every run (five loops, the '
         'ANYONECANPAY/NONE/SINGLE analysis, the indexing of inputs/amounts/script_pubkeys/outputs, the script-path extension; the read-only '
         'Transaction.copy(self) denotes self, rejected by the translator if ever written to) and proved to return, results and exceptions, what the '
         'model returns for every transaction, index, spent scripts and amounts, extension flag, leaf, leaf_ver and hash type (scripts < 2^64 bytes), '
         'so the BIP341 theorem is about the translated code; the generated function is also run against the implementation.',
         NOTE_COMMON + 'SHA-256 is a parameter; translator semantics (gen/py2lean.py, BU/Py.lean) trusted.', 'Lean 4 proof over translated source + differential correspondence', '6/C05'),
 'C15': ('Kernel-checked theorems: 80-byte header parse/serialise round trip with little-endian fields and reversed hashes, block hash = reversed '
         'double-SHA256, compact target expansion, the independent length scanner agrees with the serialiser on every well-formed transaction, and '
         'parsing a framed block yields exactly the parses of the slices (any number of transactions). get_transaction_length is re-translated on every run and proved to agree with the model scanner on every byte string, and BlockHeader.from_raw / serialize_header / '
         'get_block_hash are translated and proved equal to the model (round trip and block-hash formula for the translated code) (tier T). Block.from_raw itself — framing, '
         'transaction count, per-transaction slicing by get_transaction_length, Transaction.from_raw on each slice, and the except-Exception-break handler around the loop body, '
         'translated statement by statement — is re-translated on every run and proved to succeed exactly when the model does, with the same block (every byte string), so the '
         'framed-block theorem is about the translated code. The correspondence run covers the three mainnet blocks in full (merkle root, witness commitment, '
         'per-transaction re-serialisation).',
         NOTE_COMMON + 'SHA-256 is a parameter.', 'Lean 4 proof over translated source (headers, length scanner, block framing and loop) + differential correspondence', '6/C15'),
 'C08': ('Kernel-checked theorems for every tree shape, depth and leaf index (no bound): the merkle root is BIP341\'s (TapLeaf 0xc0 / sorted '
         'TapBranch), folding TapBranch over the generated path from the target leaf gives the root (through the code\'s global leaf counter), the '
         'address program/parity are lift_x(P) + H_TapTweak(P||root)*G, and the BIP341 script-path verifier recomputes exactly that program and '
         'parity from every generated control block. Curve facts enter as explicit hypotheses (lift_x of the key, tweak < n). The tagged-hash '
         'leaves (utils.tagged_hash, tapleaf_tagged_hash, tapbranch_tagged_hash incl. the lexicographic ordering of the children) are re-translated on '
         'every run and proved equal to the Spec hashes, and tweak_taproot_pubkey (internal key + tweak -> output key and parity) and PublicKey.to_taproot_hex / get_taproot_address (the P2TR object: witness version 1, the output key x, the parity flag) are translated and proved equal to the model, so "program and parity are BIP341\'s output key" is about the translated method (tier T); '
         'get_tag_hashed_merkle_root, calculate_tweak, _generate_merkle_path (its nested traverse_level with the nonlocal leaf counter threaded through) and '
         'ControlBlock.to_bytes are translated and proved equal to the model: the BIP341 root, and the control block built by the translated code makes the script-path '
         'verifier recompute the address (program and parity). PublicKey.to_taproot_hex / the address classes are tied by the correspondence run.', NOTE_COMMON + 'SHA-256 parameter; lift_x(internal key) and tweak < n are hypotheses of the curve-dependent theorems.',
         'Lean 4 proof over translated source (tagged hashes, tree, path, control block, tweak) + differential correspondence', '6/C08'),
 'C07': ('Kernel-checked theorems (the secp256k1 group-law facts CurveLaws are themselves proved: primes by Pratt certificates, Mathlib Weierstrass group law, n*G = 0 by kernel evaluation): for every secret in [1,n-1], every tweak and both parities of '
         'the internal and of the tweaked key, the secret derived by tweak_taproot_privkey is the discrete log of the point whose x coordinate the '
         'address commits to; a key-path signature verifies (BIP340) under exactly that output key, a script-path signature under the x-only '
         'internal key; 64/65-byte length rule. Tier T: full_pubkey_gen, negate_privkey, tweak_taproot_privkey and tweak_taproot_pubkey are re-translated on '
         'every run (curve arithmetic of schnorr.py, 64-digit hex formatting) and proved equal to the models, so "the derived secret is the discrete log of the committed '
         'key" is a theorem about the translated code (no curve hypothesis); so are get_tag_hashed_merkle_root (recursion under a depth bound proved never exhausted), '
         'calculate_tweak and PrivateKey._sign_taproot_input itself (key objects as their bytes), hence "the key-path signature verifies under the output key" holds of the '
         'translated signer. The public sign_taproot_input is translated as well and proved to be the C05 model digest (key path: extension 0, no leaf; script path: extension 1, the '
         'given leaf, leaf version 0xc0 — the digest method\'s own defaults read from its definition) followed by the translated signer. PrivateKey / PublicKey object plumbing is tied by the correspondence run, in which every '
         'implementation signature is also verified by the Spec verifier under the Spec BIP341 digest.',
         NOTE_COMMON + 'SHA-256 parameter. CurveLaws is discharged (no curve hypothesis in the _unconditional theorems).',
         'Lean 4 proof over translated source (signer, tweaks, tree; curve group law proved via Mathlib) + differential correspondence', '6/C07'),
 'C20': ('Kernel-checked theorems: generated RIPEMD-160 tables and curve constants equal the specification\'s; the hand model of ripemd160.py '
         'equals Merkle-Damgard padding + fold of the specification\'s compression function for messages of every length; tagged hash definition; '
         'schnorr_verify equals BIP340 verification on all inputs (length, range and off-curve rejection), schnorr_sign returns exactly the BIP340 '
         'signature, which verifies; signing never fails (group law proved). Tier T (source re-translated on every run): the whole of ripemd160.py '
         '(rol, fi, compress, ripemd160) is proved equal to the word-level model and hence to the specification for every message < 2^61 bytes, and '
         'the curve arithmetic of schnorr.py (point_add, point_mul, lift_x, has_even_y) is proved equal to the executable secp256k1 functions the '
         'group law is proved about; schnorr_sign / schnorr_verify (and their helpers) are likewise translated and proved equal to the BIP340 model on every '
         'input, so sign-then-verify and verify = BIP340 hold of the translated code (libsecp256k1 remains a cross-oracle in the correspondence run).',
         NOTE_COMMON + 'SHA-256 parameter.',
         'Lean 4 proof over translated source (RIPEMD-160, curve arithmetic, BIP340 sign/verify) + differential correspondence', '6/C20'),
 'C06': ('Kernel-checked theorems for every (r, s) in range (all byte-length classes): the hand model of the repository\'s own logic in _sign_input '
         '(low-R grinding on byte 3, decode, low-S, re-encode, hash-type byte) yields a strictly DER (BIP66) signature with r < 2^255, the low '
         'representative of s and exactly the hash-type byte; replacing s by n-s preserves validity (secp256k1 group law proved, no hypothesis). Tier T: _sign_input is '
         're-translated on every run (signer and DER codec of python-ecdsa as parameters, the unbounded grinding loop under a bound parameter) and proved to return a signature exactly '
         'when the model does, the same one, so the theorem is about the translated code; the public methods sign_input and sign_segwit_input are translated too and proved to be '
         'the C03 / C04 model digest of that input, script code, amount and hash type followed by the translated signer on exactly that digest (the signer a function of the digest it is handed). python-ecdsa (RFC6979 signing, DER '
         'codec) is a parameter whose per-attempt output is logged from the real library and replayed through the model each run; the Spec predicate '
         '(strict DER, low S, low R, valid for d*G under the library digest) is evaluated on every implementation signature; determinism observed.',
         NOTE_COMMON + 'python-ecdsa signing is a parameter (validity of its signatures is checked on samples, not proved). CurveLaws is proved (BU/Proofs/CurveLawsFinal.lean), the _unconditional corollary carries no curve hypothesis.',
         'Lean 4 proof over translated source (third-party signer and DER codec as parameters) + differential correspondence', '6/C06'),
 'C09': ('Kernel-checked theorems: WIF export/import round trip for every secret in [1,n-1] and one-byte prefix (generated per-network prefixes), '
         'standard form, rejection of bad checksum / other version byte / non-alphabet characters, an explicit secret is held exactly or construction '
         'fails (only the argument-less call is random), public key = d*G, SEC standard forms, and parsing the compressed, uncompressed '
         'and x-only encodings of d*G returns the identical point (curve facts proved); off-curve x rejected. Tier T: PrivateKey._from_wif and to_wif are re-translated on every run '
         '(base58check and SigningKey.from_string as parameters, the network prefix a parameter) and proved equal to the model, so the WIF round trip and the rejections are about the '
         'translated code. PublicKey.__init__ called with a hex string (strip, 0x prefix, bytes.fromhex, int(.,16) on the real string; sympy sqrt_mod and '
         'VerifyingKey.from_string as parameters), to_hex, to_x_only_hex, is_y_even and _to_hash160 are re-translated as well: the translated constructor accepts b.hex() exactly '
         'when the model accepts b, with the same point, the renderings are the SEC standard forms, so the SEC round trip (translated to_hex parsed back by the translated '
         'constructor gives the identical point; x-only gives the even-y representative) and the off-curve rejection are about the translated code; the string glue '
         '(case, 0x, whitespace, signs, underscores, odd lengths) is run against the implementation. PrivateKey.__init__ (which argument wins; random only when all three are None) '
         'and _from_bytes are translated too (python-ecdsa constructors as parameters with their range checks) and proved equal to the model, so "an explicit secret is held '
         'exactly or construction fails" is about the translated constructor; get_public_key (d*G inside python-ecdsa) stays a parameter checked against the Lean curve.',
         NOTE_COMMON + 'base58check, python-ecdsa constructors and sympy sqrt_mod modelled by their specifications.',
         'Lean 4 proof over translated source (WIF, key construction, SEC public-key parsing / rendering; third-party constructors as parameters) + differential correspondence', '6/C09'),
 'C10': ('Kernel-checked theorems: address string = Base58Check(version || hash) with the generated per-network version bytes; an address object '
         'accepts a string only if it is Base58Check-valid with that version byte and a 20-byte payload and then holds exactly that payload; '
         'round trip for every 20-byte hash (26..35-character window as hypothesis); pubkey addresses commit to HASH160 of the SEC encoding. '
         'Rests on the proved Base58 decode/encode round trip. Tier T: Address._is_address_valid (the alphabet regular expression, length window, version byte per class and '
         'network, checksum), _address_to_hash160 and to_string are re-translated on every run (base58check as parameters) and proved equal to the model, so soundness of '
         'acceptance and the round trip are about the translated code. PublicKey.get_address -> P2pkhAddress(hash160=...) -> Address.__init__ -> _is_hash160_valid (a real string: '
         'length and int(., 16) under try/except ValueError) is translated too: for every point and both encodings the address object stores the hex of HASH160(SEC encoding) with the '
         'translated RIPEMD-160, and the translated to_string renders Base58Check(version || that hash) — the last sentence of C10 about the translated code. The address= and '
         'script= constructor branches are translated as well (validate-then-decode; HASH160 of the script bytes); the rejection stream runs against all of them.',
         NOTE_COMMON + 'base58check package modelled as Spec.B58.', 'Lean 4 proof over translated source (validation, decoding, rendering) + differential correspondence', '6/C10'),
 'C11': ('Kernel-checked theorems: generated charset/generator/constant and prefixes are BIP173/BIP350\'s; for v0/20, v0/32, v1/32 programs and every '
         'network prefix the address decodes back to the same program (general convertbits and checksum round trips proved for the model of '
         'bech32.py), objects re-created from string or program hold the identical program, whatever is accepted has the right prefix, single '
         'case, charset, version and checksum variant, the predicate is true on every valid address and false on mixed case / bad checksum. '
         'Substitutions: the checksum is proved GF(2)-linear and every 1- or 2-character substitution in the data part is proved rejected (1829 '
         'single-error syndromes evaluated in the kernel); 3 and 4 substitutions are checked exhaustively by the compiled driver on every run (not a proof). The leaves of bech32.py (polymod, hrp_expand, '
         'verify/create checksum, convertbits) and now the rest of it (bech32_encode, bech32_decode, decode, encode: strings as character lists, possibly-None values '
         'as Options whose use raises TypeError) are re-translated on every run and proved equal to the hand model on all inputs (tier T), so round trip, soundness of '
         'acceptance and rejection are theorems about the translated bech32.py. SegwitAddress._address_to_hash and to_string (the two methods every P2WPKH / P2WSH / P2TR object '
         'goes through; the network prefix a parameter) are translated too: to_string is the BIP173/350 encoding of the object\'s version and program, _address_to_hash is '
         'decode with the object\'s version demanded, their round trip returns the identical program for every valid program and generated prefix, and whatever is accepted has the '
         'prefix, one case and the checksum variant of its version. SegwitAddress.__init__ (class string to numeric version; witness_program wins over address; TypeError '
         'otherwise) and PublicKey.get_segwit_address are translated as well: objects re-created from their own address string or program hold the identical program '
         '(translated constructor and to_string), and the P2WPKH object of a key holds version 0 and HASH160 of the compressed key. is_address_bech32 is translated and equals the model predicate on every string; so is the script= '
         'constructor branch (SHA-256 of the script bytes under the class version).',
         NOTE_COMMON + 'partial: detection of 3-4 substituted characters rests on an exhaustive compiled computation, not on a theorem.',
         'Lean 4 proof over translated source (all of bech32.py) + differential correspondence', '6/C11'),
 'C12': ('Kernel-checked theorems: the five locking-script templates evaluate, through the generated opcode dictionaries and the push-form tie, to the '
         'standard bytes for every 20/32-byte hash; script-hash commitments are RIPEMD160(SHA256(bytes)) / SHA256(bytes) of the exact script '
         'encoding (uses the RIPEMD-160 theorem of C20); helper output = locking script of the address from the same script. Tier T: the five '
         'to_script_pub_key methods and Script.to_p2sh_script_pub_key / to_p2wsh_script_pub_key are re-translated on every run and proved to return the '
         'model templates / commitments (and through Script.to_bytes, also translated, the standard bytes); the address classes that supply the hash are '
         'tied by the correspondence run.', NOTE_COMMON + 'SHA-256 parameter.', 'Lean 4 proof over translated source (templates, commitments) + differential correspondence', '6/C12'),
 'C19': ('Kernel-checked theorems about the wrapper over a parameter model {root, current} of the third-party hdwallet object: after any sequence '
         'of from_path calls the key is the BIP32 private child derivation of the ROOT along the last path (the reset cannot be lost), construction '
         'from mnemonic / extended key holds the BIP39-seed master / the given key chain, on every generated network the WIF prefix used for the '
         'hand-over is the one PrivateKey expects, and the key handed back is exactly the derived key (via the WIF round trip of C09). That the real '
         'library behaves like the parameter model and like BIP32/BIP39 (HMAC-SHA512 chain, PBKDF2 seed) is translation-validated each run against '
         'a full Lean BIP32/BIP39 and by driving the library with and without clean_derivation. Tier T: hdwallet.py itself is re-translated on every run with the '
         'third-party object as an abstract state and each library method as a parameter (nothing else is accepted in these methods): from_path is clean-then-derive '
         'for every library, the constructor loads a non-empty mnemonic, and an extended key with its path only when both are given, on the library network chosen from is_mainnet(); '
         'get_private_key hands the exported WIF to the translated PrivateKey constructor; instantiated with the parameter model these give the reset theorem and the exact hand-over '
         'for the translated wrapper.',
         NOTE_COMMON + 'third-party hdwallet derivation itself: correspondence only (partial); HMAC-SHA512/PBKDF2 parameters.',
         'Lean 4 proof over translated source (wrapper; third-party wallet object as abstract state and parameters) + differential correspondence against a Lean BIP32/BIP39', '6/C19'),
 'C13': ('Kernel-checked theorems on two models. Heap model (Python object identity as references): every object reachable from a copy made by '
         'Transaction/TxInput/TxOutput/TxWitnessInput/Script.copy, and from an input built with the defaulted script_sig, is freshly allocated and '
         'denotes the same value; a write to an object not reachable from a transaction does not change it (frame); mutating anything reachable from '
         'a copy never changes the original and vice versa; get_transaction_digest (modelled with its copy-and-mutate steps) leaves every '
         'pre-existing object unchanged and computes exactly the pure digest of C03. Pure model: the three digests depend only on the '
         'transaction skeleton, hence any permutation of sign-and-attach operations on distinct slots gives the same final transaction (any number '
         'of inputs); the same skeleton-only dependence is proved for the three digest functions as RE-TRANSLATED from the working tree on every run (C13Gen.gen_digests_depend_on_skeleton, via the tier-T equalities of C03/C04/C05). The heap model is tied to the code after EVERY operation of random object histories (serialisations + sharing partition by '
         'id()); order independence additionally by all permutations on real signing.',
         NOTE_COMMON + 'Python object identity modelled by heap indices; signers deterministic (observed).',
         'Lean 4 proof (heap model + pure model) + differential correspondence on operation histories', '6/C13'),
 'C14': ('Kernel-checked theorems: the digest signed is double-SHA256 of Bitcoin Core\'s magic prefix (generated constant, tied by kernel evaluation), '
         'the CompactSize of the UTF-8 byte length and the message, for every message; sign-then-verify for every key in [1,n-1], nonce, message and '
         'both compressions: the header search returns the compact signature whose header names R\'s parity (27/28 or 31/32), it verifies against the '
         'signer\'s address and message, and key recovery returns d*G (secp256k1 group law proved, no curve hypothesis in the _unconditional form; '
         'hypotheses x(R) < n, r, s != 0, distinct addresses for distinct keys, and 2z + r d != 0 mod n when R has odd y - at that point the code raises, '
         'as a kernel-evaluated witness and a forced-digest run on the real code show); soundness of verification for every triple: success implies '
         'a 65-byte signature with header 27..35 whose (r, s) is ECDSA-valid for this message\'s digest under a key whose P2PKH address is the given '
         'one; anything else is false or raises. Agreement of acceptance with a libsecp256k1-based recovery on forged triples (both directions) is by the '
         'correspondence run (Spec recovery in Lean + coincurve as cross-oracle). Tier T: add_magic_prefix is re-translated on every run and proved equal to '
         'the model prefix for every message; PublicKey.verify and the recovery branch of PublicKey.__init__ (empty-message and length checks, header window 27..34, '
         'recovery id (h-27)%4, the digest handed to python-ecdsa, the pick among the recovered keys) are translated as well (python-ecdsa recovery / verify_digest and base64 as '
         'parameters): the digest is the standard one over the signature without its header, everything outside the window or not 65 bytes long is refused, and under the stated '
         'assumption on python-ecdsa\'s recovery the key held is the Spec\'s recovered key. sign_message / verify_message themselves are a hand model tied by the correspondence run.',
         NOTE_COMMON + 'python-ecdsa signing (its (r, s) is an input of the model), verify_digest and sympy sqrt_mod are parameters modelled by their '
         'specification; completeness of verification (every libsecp256k1-accepted triple is accepted) is correspondence only (partial).',
         'Lean 4 proof (hand model of sign/verify_message; prefix, verify and key recovery over translated source; third-party ECDSA as parameter) + differential correspondence', '6/C14'),
}
REASONS_PENDING = 'check under construction in this session (DESIGN.md section 9 build order); will be claimed once its Lean theorems are proved and its correspondence run exists'

m = {"version": 1, "setup_cmd": "./setup.sh",
     "hooks": {"guard": "BITCOINUTILS_VERIF",
               "enable": "no hooks are needed: every observation point is public API; checks run /repo's working tree in-process (PYTHONPATH=/repo)",
               "baseline_off_cmd": "cd /repo && /venv/bin/python -m pytest -ra -q -p no:cacheprovider --timeout=900 --continue-on-collection-errors",
               "source_commits": [], "add_only": True},
     "engines": [{"name": "lean-proof+correspondence", "path": "check",
                  "serves_properties": sorted(CLAIMED), "kind_free_text":
                  "Lean 4 theorems about a model of the library (translated leaves + hand models) with a per-run translator / differential correspondence tie to /repo"}],
     "checks": [], "not_applicable": [],
     "notes": "Lean 4 proofs about a model tied to /repo by a translator (tier T) and a differential correspondence run (tier M); see DESIGN.md"}
for p in props:
    if p in CLAIMED:
        text, note, tech, ref = CLAIMED[p]
        m['checks'].append({"property_id": p, "quick_cmd": f"./check {p} quick", "thorough_cmd": f"./check {p} thorough",
                            "evidence_file": f"evidence/{p}.json", "replay_cmd_template": f"./check {p} --replay {{path}}",
                            "engine": "lean-proof+correspondence",
                            "level_claimed": {"category": "proof", "text": text, "design_ref": ref},
                            "level_note": note, "technique": tech})
    else:
        m['not_applicable'].append({"property_id": p, "reason": REASONS_PENDING})
json.dump(m, open(os.path.join(V, 'MANIFEST.json'), 'w'), indent=1)
print('claimed', sorted(CLAIMED))
