#!/usr/bin/env python3
"""Translator (tier T): re-reads /repo's working tree and regenerates

    lean/BU/Gen/Tables.lean   every constant / table the proofs talk about (taken by *evaluating* the modules,
                              so Python's own semantics decide e.g. duplicate dict keys)
    lean/BU/Gen/Codec.lean    a whitelisted set of leaf functions as Lean `do`-blocks in `Except PyErr`
                              (taken from the *AST* of the source)

Deterministic; files are rewritten only when their content changes.  Anything outside the supported
subset raises Unsupported with the source location: the tie is then *broken*, never approximated.

usage: py2lean.py [REPO] [OUTDIR]     exit 0 ok, exit 3 unsupported/failed (message on stderr)
"""
import ast
import re as _re, sys, os, importlib, hashlib, json

REPO = sys.argv[1] if len(sys.argv) > 1 else '/repo'
OUT = sys.argv[2] if len(sys.argv) > 2 else os.path.join(os.path.dirname(os.path.abspath(__file__)), '..', 'lean', 'BU', 'Gen')


class Unsupported(Exception):
    pass


# name -> (file, qualname, params [(name, leanType)], return lean type)
SIG = {
    'encode_varint': ('utils.py', 'encode_varint', [('i', 'Int')], 'Bytes'),
    'prepend_compact_size': ('utils.py', 'prepend_compact_size', [('data', 'Bytes')], 'Bytes'),
    'parse_compact_size': ('utils.py', 'parse_compact_size', [('data', 'Bytes')], 'Int × Int'),
    'vi_to_int': ('utils.py', 'vi_to_int', [('byteint', 'Bytes')], 'Int × Int'),
    'op_push_data': ('script.py', 'Script._op_push_data', [('data', 'Bytes')], 'Bytes'),
    'push_integer': ('script.py', 'Script._push_integer', [('integer', 'Int')], 'Bytes'),
    'locktime_for_transaction': ('transactions.py', 'Locktime.for_transaction', [('self_value', 'Int')], 'Bytes'),
    'sequence_init': ('transactions.py', 'Sequence.__init__',
                      [('seq_type', 'Int'), ('value', 'Int'), ('is_type_block', 'Bool')], 'Unit'),
    'sequence_for_input': ('transactions.py', 'Sequence.for_input_sequence',
                           [('self_seq_type', 'Int'), ('self_value', 'Int'), ('self_is_type_block', 'Bool')],
                           'Option Bytes'),
    'sequence_for_script': ('transactions.py', 'Sequence.for_script',
                            [('self_seq_type', 'Int'), ('self_value', 'Int'), ('self_is_type_block', 'Bool')], 'Int'),
    'rmd_fi': ('ripemd160.py', 'fi', [('x', 'Int'), ('y', 'Int'), ('z', 'Int'), ('i', 'Int')], 'Int'),
    'rmd_rol': ('ripemd160.py', 'rol', [('x', 'Int'), ('i', 'Int')], 'Int'),
    'get_transaction_length': ('utils.py', 'get_transaction_length', [('data', 'Bytes')], 'Int'),
    'bech32_polymod': ('bech32.py', 'bech32_polymod', [('values', 'List Int')], 'Int'),
    'bech32_hrp_expand': ('bech32.py', 'bech32_hrp_expand', [('hrp', 'List Char')], 'List Int'),
    'bech32_verify_checksum': ('bech32.py', 'bech32_verify_checksum', [('hrp', 'List Char'), ('data', 'List Int')],
                               'Option Int'),
    'bech32_create_checksum': ('bech32.py', 'bech32_create_checksum',
                               [('hrp', 'List Char'), ('data', 'List Int'), ('spec', 'Int')], 'List Int'),
    'convertbits': ('bech32.py', 'convertbits',
                    [('data', 'List Int'), ('frombits', 'Int'), ('tobits', 'Int'), ('pad', 'Bool')], 'Option (List Int)'),
    # the rest of bech32.py: strings as lists of characters; a value that may be None as an Option (a use that needs the value raises
    # TypeError on None, like Python); tuples of possibly-None values as tuples of Options
    'bech32_encode': ('bech32.py', 'bech32_encode', [('hrp', 'List Char'), ('data', 'List Int'), ('spec', 'Int')], 'List Char'),
    'bech32_decode': ('bech32.py', 'bech32_decode', [('bech', 'List Char')], 'Option (List Char) × Option (List Int) × Option Int'),
    'segwit_decode': ('bech32.py', 'decode', [('hrp', 'List Char'), ('addr', 'List Char')], 'Option Int × Option (List Int)'),
    'segwit_encode': ('bech32.py', 'encode', [('hrp', 'List Char'), ('witver', 'Int'), ('witprog', 'List Int')], 'Option (List Char)'),
    # script assembly: a token is an opcode name / a hex string (modelled by the bytes it denotes) / an int
    'script_to_bytes': ('script.py', 'Script.to_bytes', [('OPS', 'List (String × Bytes)'), ('self_script', 'List Py.PyTok')], 'Bytes'),
    # tagged hashes of utils.py and the message-signing prefix (str arguments are modelled by their UTF-8 bytes)
    'utils_tagged_hash': ('utils.py', 'tagged_hash', [('hashlib_sha256', 'Bytes → Bytes'), ('data', 'Bytes'), ('tag', 'Bytes')], 'Bytes'),
    'tapbranch_tagged_hash': ('utils.py', 'tapbranch_tagged_hash',
                              [('hashlib_sha256', 'Bytes → Bytes'), ('thashed_a', 'Bytes'), ('thashed_b', 'Bytes')], 'Bytes'),
    'add_magic_prefix': ('utils.py', 'add_magic_prefix', [('message', 'Bytes')], 'Bytes'),
    # script disassembly (works on the bytes the hex string denotes)
    'script_from_raw': ('script.py', 'Script.from_raw',
                        [('CODEOPS', 'List (Bytes × String)'), ('scriptrawhex', 'Bytes'), ('has_segwit', 'Bool')], 'List Py.PyTok'),
    'tapleaf_tagged_hash': ('utils.py', 'tapleaf_tagged_hash',
                            [('hashlib_sha256', 'Bytes → Bytes'), ('OPS', 'List (String × Bytes)'), ('script', 'List Py.PyTok')], 'Bytes'),
    # the script tree: a Script / a nested list of one- and two-element lists (Py.PyTree); recursion under a depth bound
    'tag_hashed_merkle_root': ('utils.py', 'get_tag_hashed_merkle_root',
                    [('hashlib_sha256', 'Bytes → Bytes'), ('OPS', 'List (String × Bytes)'), ('scripts', 'Option Py.PyTree')], 'Bytes'),
    # the merkle path: a nested function that counts leaves in a `nonlocal` of the enclosing call — the counter is threaded through
    # (extra parameter, extra component of every returned value); the captured target index is a parameter
    'traverse_level': ('utils.py', '_generate_merkle_path.traverse_level',
                       [('hashlib_sha256', 'Bytes → Bytes'), ('OPS', 'List (String × Bytes)'), ('target_leaf_index', 'Int'),
                        ('level', 'Option Py.PyTree'), ('traversed', 'Int')], '(Bytes × Bool) × Int'),
    'generate_merkle_path': ('utils.py', '_generate_merkle_path',
                             [('hashlib_sha256', 'Bytes → Bytes'), ('OPS', 'List (String × Bytes)'), ('all_leafs', 'Option Py.PyTree'),
                              ('target_leaf_index', 'Int')], 'Bytes'),
    'control_block_to_bytes': ('utils.py', 'ControlBlock.to_bytes',
                               [('self_is_odd', 'Bool'), ('self_pubkey_xonly', 'Bytes'), ('self_merkle_path', 'Bytes')], 'Bytes'),
    'calculate_tweak': ('utils.py', 'calculate_tweak',
                        [('hashlib_sha256', 'Bytes → Bytes'), ('OPS', 'List (String × Bytes)'), ('pubkey_bytes', 'Bytes'),
                         ('scripts', 'Py.PyScripts')], 'Int'),
    # locking-script templates (a method that only returns a stored hex string is that field) and script-hash commitments
    'p2pkh_script_pub_key': ('keys.py', 'P2pkhAddress.to_script_pub_key', [('self_hash160', 'Bytes')], 'List Py.PyTok'),
    'p2sh_script_pub_key': ('keys.py', 'P2shAddress.to_script_pub_key', [('self_hash160', 'Bytes')], 'List Py.PyTok'),
    'p2wpkh_script_pub_key': ('keys.py', 'P2wpkhAddress.to_script_pub_key', [('self_witness_program', 'Bytes')], 'List Py.PyTok'),
    'p2wsh_script_pub_key': ('keys.py', 'P2wshAddress.to_script_pub_key', [('self_witness_program', 'Bytes')], 'List Py.PyTok'),
    'p2tr_script_pub_key': ('keys.py', 'P2trAddress.to_script_pub_key', [('self_witness_program', 'Bytes')], 'List Py.PyTok'),
    # transaction serialisation: objects are records of their fields (PyTxIn, PyTxOut, PyWit)
    'txwitness_to_bytes': ('transactions.py', 'TxWitnessInput.to_bytes', [('self_stack', 'List Bytes')], 'Bytes'),
    'txoutput_to_bytes': ('transactions.py', 'TxOutput.to_bytes',
                          [('OPS', 'List (String × Bytes)'), ('self_amount', 'Int'), ('self_script_pubkey', 'List Py.PyTok')], 'Bytes'),
    'txinput_to_bytes': ('transactions.py', 'TxInput.to_bytes',
                         [('OPS', 'List (String × Bytes)'), ('self_txid', 'Bytes'), ('self_txout_index', 'Int'),
                          ('self_script_sig', 'List Py.PyTok'), ('self_sequence', 'Bytes')], 'Bytes'),
    'transaction_to_bytes': ('transactions.py', 'Transaction.to_bytes',
                             [('OPS', 'List (String × Bytes)'), ('self_version', 'Bytes'), ('self_inputs', 'List Py.PyTxIn'),
                              ('self_outputs', 'List Py.PyTxOut'), ('self_witnesses', 'List Py.PyWit'), ('self_locktime', 'Bytes'),
                              ('has_segwit', 'Bool')], 'Bytes'),
    # BIP143 digest
    'segwit_digest': ('transactions.py', 'Transaction.get_transaction_segwit_digest',
                      [('hashlib_sha256', 'Bytes → Bytes'), ('OPS', 'List (String × Bytes)'), ('self_version', 'Bytes'),
                       ('self_inputs', 'List Py.PyTxIn'), ('self_outputs', 'List Py.PyTxOut'), ('self_locktime', 'Bytes'),
                       ('txin_index', 'Int'), ('script', 'List Py.PyTok'), ('amount', 'Int'), ('sighash', 'Int')], 'Bytes'),
    # sizes and ids
    'transaction_get_size': ('transactions.py', 'Transaction.get_size', [('OPS', 'List (String × Bytes)'), ('self_version', 'Bytes'), ('self_inputs', 'List Py.PyTxIn'), ('self_outputs', 'List Py.PyTxOut'), ('self_witnesses', 'List Py.PyWit'), ('self_locktime', 'Bytes'), ('self_has_segwit', 'Bool')], 'Int'),
    'transaction_get_vsize': ('transactions.py', 'Transaction.get_vsize', [('OPS', 'List (String × Bytes)'), ('self_version', 'Bytes'), ('self_inputs', 'List Py.PyTxIn'), ('self_outputs', 'List Py.PyTxOut'), ('self_witnesses', 'List Py.PyWit'), ('self_locktime', 'Bytes'), ('self_has_segwit', 'Bool')], 'Int'),
    'transaction_get_txid': ('transactions.py', 'Transaction.get_txid', [('hashlib_sha256', 'Bytes → Bytes')] + [('OPS', 'List (String × Bytes)'), ('self_version', 'Bytes'), ('self_inputs', 'List Py.PyTxIn'), ('self_outputs', 'List Py.PyTxOut'), ('self_witnesses', 'List Py.PyWit'), ('self_locktime', 'Bytes'), ('self_has_segwit', 'Bool')], 'Bytes'),
    'transaction_get_hash': ('transactions.py', 'Transaction._get_hash', [('hashlib_sha256', 'Bytes → Bytes')] + [('OPS', 'List (String × Bytes)'), ('self_version', 'Bytes'), ('self_inputs', 'List Py.PyTxIn'), ('self_outputs', 'List Py.PyTxOut'), ('self_witnesses', 'List Py.PyWit'), ('self_locktime', 'Bytes'), ('self_has_segwit', 'Bool')], 'Bytes'),
    'transaction_get_wtxid': ('transactions.py', 'Transaction.get_wtxid', [('hashlib_sha256', 'Bytes → Bytes')] + [('OPS', 'List (String × Bytes)'), ('self_version', 'Bytes'), ('self_inputs', 'List Py.PyTxIn'), ('self_outputs', 'List Py.PyTxOut'), ('self_witnesses', 'List Py.PyWit'), ('self_locktime', 'Bytes'), ('self_has_segwit', 'Bool')], 'Bytes'),
    # parsing: cursor arithmetic over the whole buffer (hex strings that denote data are modelled as the bytes they denote)
    'txoutput_from_raw': ('transactions.py', 'TxOutput.from_raw',
                          [('CODEOPS', 'List (Bytes × String)'), ('txoutputrawhex', 'Bytes'), ('cursor', 'Int'), ('has_segwit', 'Bool')],
                          'Py.PyTxOut × Int'),
    'txinput_from_raw': ('transactions.py', 'TxInput.from_raw',
                         [('CODEOPS', 'List (Bytes × String)'), ('txinputrawhex', 'Bytes'), ('cursor', 'Int'), ('has_segwit', 'Bool')],
                         'Py.PyTxIn × Int'),
    'transaction_from_raw': ('transactions.py', 'Transaction.from_raw',
                             [('CODEOPS', 'List (Bytes × String)'), ('rawtxhex', 'Bytes')], 'Py.PyTx'),
    # block headers
    'blockheader_from_raw': ('block.py', 'BlockHeader.from_raw', [('rawhexdata', 'Bytes')], 'Py.PyHeader'),
    # the whole block: framing, the transaction count, the per-transaction slicing by get_transaction_length, the handler that ends the loop
    'block_from_raw': ('block.py', 'Block.from_raw', [('CODEOPS', 'List (Bytes × String)'), ('rawhexdata', 'Bytes')], 'Py.PyBlock'),
    'blockheader_serialize': ('block.py', 'BlockHeader.serialize_header', [('self_version', 'Int'), ('self_previous_block_hash', 'Bytes'), ('self_merkle_root', 'Bytes'), ('self_timestamp', 'Int'), ('self_target_bits', 'Int'), ('self_nonce', 'Int')], 'Bytes'),
    'blockheader_hash': ('block.py', 'BlockHeader.get_block_hash', [('hashlib_sha256', 'Bytes → Bytes')] + [('self_version', 'Int'), ('self_previous_block_hash', 'Bytes'), ('self_merkle_root', 'Bytes'), ('self_timestamp', 'Int'), ('self_target_bits', 'Int'), ('self_nonce', 'Int')], 'Bytes'),
    'blockheader_target': ('block.py', 'BlockHeader.get_target_bits', [('self_target_bits', 'Int')], 'Bytes'),
    # the original SignatureHash: works on a deep copy of self that it mutates
    'legacy_digest': ('transactions.py', 'Transaction.get_transaction_digest',
                      [('hashlib_sha256', 'Bytes → Bytes'), ('OPS', 'List (String × Bytes)'), ('self_version', 'Bytes'),
                       ('self_inputs', 'List Py.PyTxIn'), ('self_outputs', 'List Py.PyTxOut'), ('self_witnesses', 'List Py.PyWit'),
                       ('self_locktime', 'Bytes'), ('txin_index', 'Int'), ('script', 'List Py.PyTok'), ('sighash', 'Int')], 'Bytes'),
    # BIP341 / BIP342 signature message
    'taproot_digest': ('transactions.py', 'Transaction.get_transaction_taproot_digest',
                       [('hashlib_sha256', 'Bytes → Bytes'), ('OPS', 'List (String × Bytes)'), ('self_version', 'Bytes'),
                        ('self_inputs', 'List Py.PyTxIn'), ('self_outputs', 'List Py.PyTxOut'), ('self_locktime', 'Bytes'),
                        ('txin_index', 'Int'), ('script_pubkeys', 'List (List Py.PyTok)'), ('amounts', 'List Int'),
                        ('ext_flag', 'Int'), ('script', 'List Py.PyTok'), ('leaf_ver', 'Int'), ('sighash', 'Int')], 'Bytes'),
    # the rest of the bundled RIPEMD-160
    'rmd_compress': ('ripemd160.py', 'compress',
                     [('h0', 'Int'), ('h1', 'Int'), ('h2', 'Int'), ('h3', 'Int'), ('h4', 'Int'), ('block', 'Bytes')],
                     'Int × Int × Int × Int × Int'),
    'rmd_ripemd160': ('ripemd160.py', 'ripemd160', [('data', 'Bytes')], 'Bytes'),
    'script_to_p2sh_spk': ('script.py', 'Script.to_p2sh_script_pub_key',
                           [('hashlib_sha256', 'Bytes → Bytes'), ('OPS', 'List (String × Bytes)'), ('self_script', 'List Py.PyTok')], 'List Py.PyTok'),
    'script_to_p2wsh_spk': ('script.py', 'Script.to_p2wsh_script_pub_key',
                            [('hashlib_sha256', 'Bytes → Bytes'), ('OPS', 'List (String × Bytes)'), ('self_script', 'List Py.PyTok')], 'List Py.PyTok'),
    # the curve arithmetic of the bundled BIP340 reference code (points: None | (x, y))
    'schnorr_point_add': ('schnorr.py', 'point_add', [('P1', 'Point'), ('P2', 'Point')], 'Point'),
    'schnorr_point_mul': ('schnorr.py', 'point_mul', [('P', 'Point'), ('n', 'Int')], 'Point'),
    'schnorr_lift_x': ('schnorr.py', 'lift_x', [('x', 'Int')], 'Point'),
    'schnorr_has_even_y': ('schnorr.py', 'has_even_y', [('P', 'Point')], 'Bool'),
    # BIP340 signing / verification of the bundled reference code; SHA-256 (hashlib) is a parameter
    'schnorr_tagged_hash': ('schnorr.py', 'tagged_hash', [('hashlib_sha256', 'Bytes → Bytes'), ('tag', 'Bytes'), ('msg', 'Bytes')], 'Bytes'),
    'schnorr_bytes_from_int': ('schnorr.py', 'bytes_from_int', [('x', 'Int')], 'Bytes'),
    'schnorr_bytes_from_point': ('schnorr.py', 'bytes_from_point', [('P', 'Point')], 'Bytes'),
    'schnorr_xor_bytes': ('schnorr.py', 'xor_bytes', [('b0', 'Bytes'), ('b1', 'Bytes')], 'Bytes'),
    'schnorr_int_from_bytes': ('schnorr.py', 'int_from_bytes', [('b', 'Bytes')], 'Int'),
    'schnorr_verify': ('schnorr.py', 'schnorr_verify',
                       [('hashlib_sha256', 'Bytes → Bytes'), ('msg', 'Bytes'), ('pubkey', 'Bytes'), ('sig', 'Bytes')], 'Bool'),
    'schnorr_sign': ('schnorr.py', 'schnorr_sign',
                     [('hashlib_sha256', 'Bytes → Bytes'), ('msg', 'Bytes'), ('seckey', 'Bytes'), ('aux_rand', 'Bytes')], 'Bytes'),
    'schnorr_full_pubkey_gen': ('schnorr.py', 'full_pubkey_gen', [('seckey', 'Bytes')], 'Bytes'),
    # utils.py: the taproot key tweaks (curve arithmetic imported from schnorr.py; 64-digit hex formatting)
    'negate_privkey': ('utils.py', 'negate_privkey', [('key', 'Bytes')], 'Bytes'),
    'tweak_taproot_pubkey': ('utils.py', 'tweak_taproot_pubkey', [('internal_pubkey', 'Bytes'), ('tweak', 'Int')], 'Bytes × Bool'),
    'tweak_taproot_privkey': ('utils.py', 'tweak_taproot_privkey', [('privkey', 'Bytes'), ('tweak', 'Int')], 'Bytes'),
    'i_to_b32': ('utils.py', 'i_to_b32', [('i', 'Int')], 'Bytes'),
    # ECDSA input signing: python-ecdsa's deterministic signer and DER codec are parameters (the signer as a function of the digest and
    # the extra entropy: None for the first attempt); the grinding loop is unbounded in Python — the translation carries a bound as a parameter
    'sign_input': ('keys.py', 'PrivateKey._sign_input',
                   [('ecdsa_sign', 'Bytes → Option Bytes → Bytes'), ('sigdecode_der', 'Bytes → Int → Except PyErr (Int × Int)'),
                    ('sigencode_der', 'Int → Int → Int → Bytes'), ('grind_bound', 'Nat'), ('tx_digest', 'Bytes'), ('sighash', 'Int')],
                   'Bytes'),
    # WIF: base58check (third party) and python-ecdsa's SigningKey.from_string as parameters; the configured network's prefix a
    # parameter; a `str` handed to b58decode is that parameter's argument as it is
    'from_wif': ('keys.py', 'PrivateKey._from_wif',
                 [('hashlib_sha256', 'Bytes → Bytes'), ('b58decode', 'String → Except PyErr Bytes'),
                  ('signingkey_from_string', 'Bytes → Except PyErr Int'), ('wif_prefix', 'Bytes'), ('wif', 'String')], 'Int'),
    'to_wif': ('keys.py', 'PrivateKey.to_wif',
               [('hashlib_sha256', 'Bytes → Bytes'), ('b58encode', 'Bytes → String'), ('wif_prefix', 'Bytes'),
                ('self_key_bytes', 'Bytes'), ('compressed', 'Bool')], 'String'),
    # script-hash addresses: what the address object commits to
    'address_script_to_hash160': ('keys.py', 'Address._script_to_hash160',
                                  [('hashlib_sha256', 'Bytes → Bytes'), ('OPS', 'List (String × Bytes)'), ('script', 'List Py.PyTok')], 'Bytes'),
    'segwit_script_to_hash': ('keys.py', 'SegwitAddress._script_to_hash',
                              [('hashlib_sha256', 'Bytes → Bytes'), ('OPS', 'List (String × Bytes)'), ('script', 'List Py.PyTok')], 'Bytes'),
    # Base58Check addresses: base58check as parameters, the two version bytes of the configured network as parameters, the address
    # class (get_type()) as the string it returns
    'is_address_valid': ('keys.py', 'Address._is_address_valid',
                         [('hashlib_sha256', 'Bytes → Bytes'), ('b58decode', 'String → Except PyErr Bytes'), ('self_type', 'String'),
                          ('p2pkh_prefix', 'Bytes'), ('p2sh_prefix', 'Bytes'), ('address', 'String')], 'Bool'),
    'address_to_hash160': ('keys.py', 'Address._address_to_hash160',
                           [('b58decode', 'String → Except PyErr Bytes'), ('address', 'String')], 'Bytes'),
    'address_to_string': ('keys.py', 'Address.to_string',
                          [('hashlib_sha256', 'Bytes → Bytes'), ('b58encode', 'Bytes → String'), ('self_type', 'String'),
                           ('p2pkh_prefix', 'Bytes'), ('p2sh_prefix', 'Bytes'), ('self_hash160', 'Bytes')], 'String'),
    # public-key renderings: the VerifyingKey (third party) is the 64 bytes x || y its to_string() returns; hex strings are the bytes
    # they denote
    'pubkey_to_hex': ('keys.py', 'PublicKey.to_hex', [('self_key_string', 'Bytes'), ('compressed', 'Bool')], 'Bytes'),
    'pubkey_to_x_only_hex': ('keys.py', 'PublicKey.to_x_only_hex', [('self_key_string', 'Bytes')], 'Bytes'),
    'pubkey_is_y_even': ('keys.py', 'PublicKey.is_y_even', [('self_key_string', 'Bytes')], 'Bool'),
    'pubkey_to_hash160': ('keys.py', 'PublicKey._to_hash160',
                          [('hashlib_sha256', 'Bytes → Bytes'), ('self_key_string', 'Bytes'), ('compressed', 'Bool')], 'Bytes'),
    # PublicKey(hex_str) — the constructor called with a string and neither message nor signature: sympy's sqrt_mod(a, p, True) and
    # python-ecdsa's VerifyingKey.from_string are parameters; the result is what `self.key` is set to; hex_str is a real string
    'pubkey_from_hex': ('keys.py', 'PublicKey.__init__',
                        [('sqrt_mod', 'Int → Int → List Int'), ('verifyingkey_from_string', 'Bytes → Except PyErr (Nat × Nat)'),
                         ('hex_str', 'List Char')], 'Nat × Nat'),
    # the taproot output key of a public key: (x-only hex, parity) — the hex string as the bytes it denotes
    'pubkey_to_taproot_hex': ('keys.py', 'PublicKey.to_taproot_hex',
                              [('hashlib_sha256', 'Bytes → Bytes'), ('OPS', 'List (String × Bytes)'), ('self_key_string', 'Bytes'),
                               ('scripts', 'Py.PyScripts')], 'Bytes × Bool'),
    # taproot signing: the key object is its 32 secret bytes, the public-key object its 64 bytes x || y
    'sign_taproot_input': ('keys.py', 'PrivateKey._sign_taproot_input',
                           [('hashlib_sha256', 'Bytes → Bytes'), ('OPS', 'List (String × Bytes)'), ('self_key_bytes', 'Bytes'),
                            ('pubkey_bytes', 'Bytes'), ('tx_digest', 'Bytes'), ('sighash', 'Int'), ('scripts', 'Py.PyScripts'),
                            ('tweak', 'Bool')], 'Bytes'),
    # PrivateKey construction: which argument wins, the 32-byte check; python-ecdsa's constructors are parameters; `none` = a random key
    # was generated (SigningKey.generate)
    'privkey_from_bytes': ('keys.py', 'PrivateKey._from_bytes', [('signingkey_from_string', 'Bytes → Except PyErr Int'), ('b', 'Bytes')], 'Int'),
    'privkey_init': ('keys.py', 'PrivateKey.__init__',
                     [('hashlib_sha256', 'Bytes → Bytes'), ('b58decode', 'String → Except PyErr Bytes'),
                      ('signingkey_from_string', 'Bytes → Except PyErr Int'), ('signingkey_from_secret_exponent', 'Int → Except PyErr Int'),
                      ('wif_prefix', 'Bytes'), ('wif', 'Option String'), ('secret_exponent', 'Option Int'), ('b', 'Option Bytes')], 'Option Int'),
    # signed messages: PublicKey(message=, signature=) — the recovery branch of the constructor (python-ecdsa's
    # from_public_key_recovery_with_digest a parameter; the message as its UTF-8 bytes) — and PublicKey.verify (base64 and verify_digest parameters)
    'pubkey_recover': ('keys.py', 'PublicKey.__init__',
                       [('hashlib_sha256', 'Bytes → Bytes'), ('recover_keys', 'Bytes → Bytes → Except PyErr (List (Nat × Nat))'),
                        ('message', 'Bytes'), ('signature', 'Bytes')], 'Nat × Nat'),
    'pubkey_verify': ('keys.py', 'PublicKey.verify',
                      [('hashlib_sha256', 'Bytes → Bytes'), ('b64decode', 'Bytes → Except PyErr Bytes'),
                       ('verify_digest', 'Bytes → Bytes → Except PyErr Bool'), ('signature', 'Bytes'), ('message', 'Bytes')], 'Bool'),
    # utils.is_address_bech32: bech32.py's bech32_decode (translated) finds a human-readable part
    'is_address_bech32': ('utils.py', 'is_address_bech32', [('address', 'List Char')], 'Bool'),
    # segwit address objects: bech32.py's decode / encode (translated above) under the configured network's prefix (a parameter)
    'segwit_address_to_hash': ('keys.py', 'SegwitAddress._address_to_hash',
                               [('segwit_hrp', 'List Char'), ('self_segwit_num_version', 'Int'), ('address', 'List Char')], 'Bytes'),
    'segwit_to_string': ('keys.py', 'SegwitAddress.to_string',
                         [('segwit_hrp', 'List Char'), ('self_segwit_num_version', 'Int'), ('self_witness_program', 'Bytes')], 'Option (List Char)'),
    # SegwitAddress.__init__ called with address= and/or witness_program= (script keeps its default None): the numeric witness version of
    # the class string and the program stored; PublicKey.get_segwit_address (the P2WPKH object: version 0 and HASH160 of the compressed key)
    'segwit_init': ('keys.py', 'SegwitAddress.__init__',
                    [('segwit_hrp', 'List Char'), ('address', 'Option (List Char)'), ('witness_program', 'Option Bytes'), ('version', 'String')],
                    'Int × Bytes'),
    'segwit_init_script': ('keys.py', 'SegwitAddress.__init__',
                           [('hashlib_sha256', 'Bytes → Bytes'), ('OPS', 'List (String × Bytes)'), ('script', 'List Py.PyTok'), ('version', 'String')],
                           'Int × Bytes'),
    'pubkey_get_segwit_address': ('keys.py', 'PublicKey.get_segwit_address',
                                  [('segwit_hrp', 'List Char'), ('hashlib_sha256', 'Bytes → Bytes'), ('self_key_string', 'Bytes')], 'Int × Bytes'),
    # PublicKey.get_taproot_address: the P2TR object — (witness version, output key x) and the parity flag it stores
    'pubkey_get_taproot_address': ('keys.py', 'PublicKey.get_taproot_address',
                                   [('segwit_hrp', 'List Char'), ('hashlib_sha256', 'Bytes → Bytes'), ('OPS', 'List (String × Bytes)'),
                                    ('self_key_string', 'Bytes'), ('scripts', 'Py.PyScripts')], '(Int × Bytes) × Bool'),
    # addresses derived from a public key: the hash160 check (a real string: len, int(., 16) under try/except), the constructor called
    # with hash160 only (what self.hash160 is set to), PublicKey.get_address (the stored hex string of the P2PKH address object)
    'is_hash160_valid': ('keys.py', 'Address._is_hash160_valid', [('hash160', 'List Char')], 'Bool'),
    'address_init_hash160': ('keys.py', 'Address.__init__', [('hash160', 'List Char')], 'List Char'),
    'address_init_address': ('keys.py', 'Address.__init__',
                             [('hashlib_sha256', 'Bytes → Bytes'), ('b58decode', 'String → Except PyErr Bytes'), ('self_type', 'String'),
                              ('p2pkh_prefix', 'Bytes'), ('p2sh_prefix', 'Bytes'), ('address', 'String')], 'Bytes'),
    'address_init_script': ('keys.py', 'Address.__init__',
                            [('hashlib_sha256', 'Bytes → Bytes'), ('OPS', 'List (String × Bytes)'), ('script', 'List Py.PyTok')], 'Bytes'),
    'pubkey_get_address': ('keys.py', 'PublicKey.get_address',
                           [('hashlib_sha256', 'Bytes → Bytes'), ('self_key_string', 'Bytes'), ('compressed', 'Bool')], 'List Char'),
    # the public signing methods: digest of the transaction object (its fields as parameters tx_*), then the private signer
    'pk_sign_input': ('keys.py', 'PrivateKey.sign_input',
                      [('hashlib_sha256', 'Bytes → Bytes'), ('OPS', 'List (String × Bytes)'),
                       ('ecdsa_sign', 'Bytes → Option Bytes → Bytes'), ('sigdecode_der', 'Bytes → Int → Except PyErr (Int × Int)'),
                       ('sigencode_der', 'Int → Int → Int → Bytes'), ('grind_bound', 'Nat'),
                       ('tx_version', 'Bytes'), ('tx_inputs', 'List Py.PyTxIn'), ('tx_outputs', 'List Py.PyTxOut'), ('tx_witnesses', 'List Py.PyWit'),
                       ('tx_locktime', 'Bytes'), ('txin_index', 'Int'), ('script', 'List Py.PyTok'), ('sighash', 'Int')], 'Bytes'),
    'pk_sign_segwit_input': ('keys.py', 'PrivateKey.sign_segwit_input',
                             [('hashlib_sha256', 'Bytes → Bytes'), ('OPS', 'List (String × Bytes)'),
                              ('ecdsa_sign', 'Bytes → Option Bytes → Bytes'), ('sigdecode_der', 'Bytes → Int → Except PyErr (Int × Int)'),
                              ('sigencode_der', 'Int → Int → Int → Bytes'), ('grind_bound', 'Nat'),
                              ('tx_version', 'Bytes'), ('tx_inputs', 'List Py.PyTxIn'), ('tx_outputs', 'List Py.PyTxOut'),
                              ('tx_locktime', 'Bytes'), ('txin_index', 'Int'), ('script', 'List Py.PyTok'), ('amount', 'Int'), ('sighash', 'Int')],
                             'Bytes'),
    'pk_sign_taproot_input': ('keys.py', 'PrivateKey.sign_taproot_input',
                              [('hashlib_sha256', 'Bytes → Bytes'), ('OPS', 'List (String × Bytes)'), ('self_key_bytes', 'Bytes'),
                               ('pubkey_bytes', 'Bytes'), ('tx_version', 'Bytes'), ('tx_inputs', 'List Py.PyTxIn'),
                               ('tx_outputs', 'List Py.PyTxOut'), ('tx_locktime', 'Bytes'), ('txin_index', 'Int'),
                               ('utxo_scripts', 'List (List Py.PyTok)'), ('amounts', 'List Int'), ('script_path', 'Bool'),
                               ('tapleaf_script', 'List Py.PyTok'), ('tapleaf_scripts', 'Py.PyScripts'), ('sighash', 'Int'), ('tweak', 'Bool')],
                              'Bytes'),
    # hdwallet.py — the wrapper around the third-party hdwallet object: the object is an abstract state `S`, each library method a
    # parameter that returns the new state; the wrapper's own logic is which methods it calls, in which order, with what
    'hd_init': ('hdwallet.py', 'HDWallet.__init__',
                [('S', 'Type'), ('new_wallet', 'Bool → S'), ('lib_from_mnemonic', 'S → String → Except PyErr S'),
                 ('lib_from_xprivate_key', 'S → String → Except PyErr S'), ('lib_from_derivation', 'S → String → Except PyErr S'),
                 ('is_mainnet', 'Bool'), ('xprivate_key', 'Option String'), ('path', 'Option String'), ('mnemonic', 'Option String')], 'S'),
    'hd_from_path': ('hdwallet.py', 'HDWallet.from_path',
                     [('S', 'Type'), ('lib_clean_derivation', 'S → S'), ('lib_from_derivation', 'S → String → Except PyErr S'),
                      ('hdw', 'S'), ('path', 'String')], 'S'),
    'hd_get_private_key': ('hdwallet.py', 'HDWallet.get_private_key',
                           [('S', 'Type'), ('lib_wif', 'S → String'), ('hashlib_sha256', 'Bytes → Bytes'),
                            ('b58decode', 'String → Except PyErr Bytes'), ('signingkey_from_string', 'Bytes → Except PyErr Int'),
                            ('signingkey_from_secret_exponent', 'Int → Except PyErr Int'), ('wif_prefix', 'Bytes'), ('hdw', 'S')], 'Option Int'),
}
HDFUNS = {'hd_init', 'hd_from_path', 'hd_get_private_key'}
# the public signing wrappers: methods called on the transaction object / on self -> generated functions
MSGFUNS = {'pubkey_recover', 'pubkey_verify'}
WRAPFUNS = {'pk_sign_input', 'pk_sign_segwit_input', 'pk_sign_taproot_input'}
TX_METHODS = {'get_transaction_digest': 'legacy_digest', 'get_transaction_segwit_digest': 'segwit_digest',
              'get_transaction_taproot_digest': 'taproot_digest'}
SELF_SIGNERS = {'_sign_input': 'sign_input', '_sign_taproot_input': 'sign_taproot_input'}
# callees of schnorr.py that take the SHA-256 parameter first / return bytes / return bool
SCH_CALLS = {'tagged_hash': ('schnorr_tagged_hash', True), 'bytes_from_int': ('schnorr_bytes_from_int', False),
             'bytes_from_point': ('schnorr_bytes_from_point', False), 'xor_bytes': ('schnorr_xor_bytes', False),
             'int_from_bytes': ('schnorr_int_from_bytes', False), 'schnorr_verify': ('schnorr_verify', True),
             'has_even_y': ('schnorr_has_even_y', False)}
SCH_BYTES = {'tagged_hash', 'bytes_from_int', 'bytes_from_point', 'xor_bytes'}
POINT = 'Option (Int × Int)'
PUBFUNS = {'pubkey_to_hex', 'pubkey_to_x_only_hex', 'pubkey_is_y_even', 'pubkey_to_hash160', 'pubkey_get_address', 'pubkey_get_segwit_address'}
# record types: field order of the call `<obj>.to_bytes()` on a loop variable
REC_TYPE = {'txinput_to_bytes': 'Py.PyTxIn', 'txoutput_to_bytes': 'Py.PyTxOut', 'txwitness_to_bytes': 'Py.PyWit'}
TOK_FIELDS = {'script_pubkey', 'script_sig'}
RECORDS = {'List Py.PyTxIn': ('txinput_to_bytes', True, ['txid', 'txout_index', 'script_sig', 'sequence']),
           'List Py.PyTxOut': ('txoutput_to_bytes', True, ['amount', 'script_pubkey']),
           'List Py.PyWit': ('txwitness_to_bytes', False, ['stack'])}
# methods of Transaction called on self from another method of Transaction: the callee gets the caller's parameters of the same names
SELF_CALLS = {'get_size': 'transaction_get_size', '_get_hash': 'transaction_get_hash', 'serialize_header': 'blockheader_serialize'}
# string functions of bech32.py: types of the locals (a table, like SIG for the parameters)
STRFUNS = {'bech32_encode': {'combined': 'List Int'},
           'bech32_decode': {'pos': 'Int', 'hrp': 'List Char', 'data': 'List Int', 'spec': 'Option Int'},
           'segwit_decode': {'hrpgot': 'Option (List Char)', 'data': 'Option (List Int)', 'spec': 'Option Int', 'decoded': 'Option (List Int)'},
           'segwit_encode': {'spec': 'Int', 'ret': 'List Char'},
           'pubkey_from_hex': {'first_byte_in_hex': 'List Char', 'y_values': 'List Int'},
           'is_hash160_valid': {}, 'address_init_hash160': {}, 'pubkey_get_address': {'addr_string_hex': 'List Char'},
           'is_address_bech32': {'hrp': 'Option (List Char)'},
           'segwit_address_to_hash': {'witness_version': 'Option Int', 'witness_int_array': 'Option (List Int)'},
           'segwit_to_string': {'witness_int_array': 'List Int'}, 'segwit_init': {'segwit_num_version': 'Int'}, 'segwit_init_script': {'segwit_num_version': 'Int'},
           'pubkey_get_segwit_address': {}}
STR_DEFAULT = {'Int': '(0 : Int)', 'List Char': '([] : List Char)', 'List Int': '([] : List Int)'}
# callees by Python name inside bech32.py: (generated name, returns an Option?)
STR_CALLS = {'bech32_create_checksum': ('bech32_create_checksum', False), 'bech32_verify_checksum': ('bech32_verify_checksum', True),
             'convertbits': ('convertbits', True), 'bech32_decode': ('bech32_decode', False), 'bech32_encode': ('bech32_encode', False),
             'decode': ('segwit_decode', False)}
# functions over the script tree; recursive ones get a fuel parameter (the depth of the tree + 1: proved never exhausted)
TREEFUNS = {'tag_hashed_merkle_root': ('get_tag_hashed_merkle_root', '(Py.treeDepth scripts + 1)'), 'calculate_tweak': (None, None),
            'sign_taproot_input': (None, None), 'pubkey_to_taproot_hex': (None, None), 'pk_sign_taproot_input': (None, None),
            'pubkey_get_taproot_address': (None, None), 'traverse_level': ('traverse_level', '(Py.treeDepth level + 1)'),
            'generate_merkle_path': (None, None), 'control_block_to_bytes': (None, None)}
# a nested function's `nonlocal` counter, threaded: parameter in, extra result component out
NONLOCAL_STATE = {'traverse_level': 'traversed'}
# utils.py's tweak functions: which locals are curve points; hex strings (of an even number of digits) are modelled as the bytes they denote
TWEAKFUNS = {'negate_privkey': set(), 'tweak_taproot_pubkey': {'P', 'Q'}, 'tweak_taproot_privkey': set(), 'blockheader_target': set(),
             'pubkey_to_hex': set(), 'pubkey_to_x_only_hex': set(), 'pubkey_is_y_even': set(), 'pubkey_to_hash160': set(),
             'pubkey_from_hex': set(), 'pubkey_get_address': set(), 'pubkey_get_segwit_address': set()}
TWEAK_CALLS = {'point_add': 'schnorr_point_add', 'point_mul': 'schnorr_point_mul', 'full_pubkey_gen': 'schnorr_full_pubkey_gen',
               'negate_privkey': 'negate_privkey'}
# parsers: `x.hex()` of bytes is the same data (hex strings are modelled as the bytes they denote), struct.unpack_from
PARSERS = {'txoutput_from_raw', 'txinput_from_raw', 'transaction_from_raw', 'blockheader_from_raw', 'blockheader_serialize', 'blockheader_hash',
           'block_from_raw'}
# struct format characters: size in bytes (little-endian / no alignment only), unsigned
FMT_INT = {'B': 1, 'H': 2, 'I': 4, 'Q': 8}
# functions allowed to mutate `tmp = Transaction.copy(self)`: the copy's record lists become mutable *values* (lists of records).
# Sound because the copy is deep — every record of the copy is a fresh object distinct from every other (C13's heap theorems and
# history runs are about exactly that) — and because the function hands none of those objects out.
MUTCOPY = {'legacy_digest'}
# constructor argument order of the record classes (checked against the class's __init__ when used)
REC_CTOR = {'TxOutput': ('Py.PyTxOut', ['amount', 'script_pubkey']), 'TxInput': ('Py.PyTxIn', ['txid', 'txout_index', 'script_sig', 'sequence']),
            'TxWitnessInput': ('Py.PyWit', ['stack']),
            'BlockHeader': ('Py.PyHeader', ['version', 'previous_block_hash', 'merkle_root', 'timestamp', 'target_bits', 'nonce']),
            'Transaction': ('Py.PyTx', ['inputs', 'outputs', 'locktime', 'version', 'has_segwit', 'witnesses']),
            'Block': ('Py.PyBlock', ['magic', 'block_size', 'header', 'transaction_count', 'transactions'])}
# element types of the lists a function builds with `x = []` ... `x.append(e)` (each append is checked against it)
LOCAL_LISTS = {'transaction_from_raw': {'inputs': 'List Py.PyTxIn', 'outputs': 'List Py.PyTxOut', 'witnesses': 'List Py.PyWit',
                                        'witnesses_tmp': 'List Bytes'},
               'block_from_raw': {'transactions': 'List Py.PyTx'}}
# module-level names visible to the functions of one file only (filled from the evaluated module)
FILE_CONSTS = {}
# `while` loops are translated with an explicit iteration bound (a Lean term over the variables in scope at loop
# entry); running out of it raises PyErr.fellThrough, which no Python exception maps to - so a bound that is too
# small shows up as a disagreement with the implementation and as an unprovable equivalence, never silently.
WHILE_FUEL = {'convertbits': '(Int.toNat bits + 1)',
              # every iteration of Script.from_raw advances the index by at least one byte
              'script_from_raw': '(List.length scriptraw + 1)',
              # low-R grinding: no bound exists in the source (each retry succeeds with probability 1/2); the caller supplies one
              'sign_input': 'grind_bound'}
# return types of translated callees that are lists (for `+` -> `++`)
LIST_RET = {'bech32_hrp_expand', 'bech32_create_checksum'}
STR_UTF8 = {'utils_tagged_hash', 'tapbranch_tagged_hash', 'tapleaf_tagged_hash', 'add_magic_prefix', 'taproot_digest', 'calculate_tweak'}
POINT_RET = {'point_add': 'schnorr_point_add', 'point_mul': 'schnorr_point_mul', 'lift_x': 'schnorr_lift_x'}
CALLS = {'ripemd160': 'rmd_ripemd160', 'rol': 'rmd_rol', 'fi': 'rmd_fi', '_push_integer': 'push_integer', 'vi_to_int': 'vi_to_int',
         'encode_varint': 'encode_varint', 'prepend_compact_size': 'prepend_compact_size',
         '_op_push_data': 'op_push_data', 'parse_compact_size': 'parse_compact_size', 'get_transaction_length': 'get_transaction_length',
         'bech32_polymod': 'bech32_polymod', 'bech32_hrp_expand': 'bech32_hrp_expand'}
IDENT = {'h_to_b', 'b_to_h'}  # hex strings that denote data are modelled as the bytes they denote
MAY_UNSUPPORTED = set()          # generated functions that can answer `unsupported` (stubs, their callers, users of partial PyRT string functions)
CONSTS = {}                   # filled from the evaluated constants module
CONST_STRS = {}               # string constants (as Python strings)


def find(tree, qual):
    body = tree.body
    node = None
    for p in qual.split('.'):
        cands = [n for n in body if isinstance(n, (ast.FunctionDef, ast.ClassDef)) and n.name == p]
        if not cands:
            raise Unsupported(f'{qual}: definition not found')
        node = cands[-1]     # Python semantics: the last definition wins
        body = node.body
    return node


def blit(b):
    if not b: return '([] : Bytes)'
    return '[' + ', '.join(f'0x{x:02x}' for x in b) + ']'


# ---- `X.copy(obj)` as a value identity -----------------------------------------------------------------------------------------
# The digest functions work on `Transaction.copy(self)`.  The translation reads (and, for MUTCOPY functions, updates) the copy as a
# value with the same fields as self.  That the copy *has* the same field values is checked here, structurally, on every run: the
# constructor stores each parameter in the field of the same name (default / type guards aside), and `copy` passes, for every field,
# that field of its argument — itself, `list(...)`, `copy.deepcopy(...)`, `K.copy(...)` or `[K.copy(e) for e in ...]` of it, with
# K.copy checked the same way.  (That the copy shares no object with the original is C13's subject.)
COPY_FIELDS = {'Transaction': ['inputs', 'outputs', 'locktime', 'version', 'witnesses'],
               'TxInput': ['txid', 'txout_index', 'script_sig', 'sequence'], 'TxOutput': ['amount', 'script_pubkey'],
               'TxWitnessInput': ['stack'], 'Script': ['script']}
COPY_FILES = {'Transaction': 'transactions.py', 'TxInput': 'transactions.py', 'TxOutput': 'transactions.py',
              'TxWitnessInput': 'transactions.py', 'Script': 'script.py'}
_TREES = {}
_COPY_OK = {}


def get_tree(file):
    if file not in _TREES: _TREES[file] = ast.parse(open(f'{REPO}/bitcoinutils/{file}').read())
    return _TREES[file]


def _cls(name):
    if name not in COPY_FILES: raise Unsupported(f'copy of unknown class {name}')
    cands = [n for n in get_tree(COPY_FILES[name]).body if isinstance(n, ast.ClassDef) and n.name == name]
    if not cands: raise Unsupported(f'class {name} not found')
    return cands[-1]


def _method(c, name):
    cands = [n for n in c.body if isinstance(n, ast.FunctionDef) and n.name == name]
    if not cands: raise Unsupported(f'{c.name}.{name} not found')
    return cands[-1]


def ctor_map(cname):
    """parameter -> the field it is stored in unchanged (for arguments of the modelled types: non-None, bytes not str)"""
    m = _method(_cls(cname), '__init__')
    params = [a.arg for a in m.args.args[1:]]
    if m.args.vararg or m.args.kwarg or m.args.kwonlyargs: raise Unsupported(f'{cname}.__init__: signature')
    out = {}
    def is_self_attr(t): return isinstance(t, ast.Attribute) and isinstance(t.value, ast.Name) and t.value.id == 'self'
    for st in m.body:
        if isinstance(st, ast.Expr) and isinstance(st.value, ast.Constant): continue
        if (isinstance(st, ast.If) and isinstance(st.test, ast.Compare) and len(st.test.ops) == 1 and isinstance(st.test.ops[0], ast.Is)
                and isinstance(st.test.left, ast.Name) and isinstance(st.test.comparators[0], ast.Constant) and st.test.comparators[0].value is None
                and not st.orelse and len(st.body) == 1 and isinstance(st.body[0], ast.Assign) and len(st.body[0].targets) == 1
                and isinstance(st.body[0].targets[0], ast.Name) and st.body[0].targets[0].id == st.test.left.id):
            continue                                               # if p is None: p = <default>
        if (isinstance(st, ast.If) and isinstance(st.test, ast.UnaryOp) and isinstance(st.test.op, ast.Not)
                and isinstance(st.test.operand, ast.Call) and getattr(st.test.operand.func, 'id', '') == 'isinstance'
                and not st.orelse and all(isinstance(b, ast.Raise) for b in st.body)):
            continue                                               # if not isinstance(p, T): raise
        tg = val = None
        if isinstance(st, ast.Assign) and len(st.targets) == 1: tg, val = st.targets[0], st.value
        if isinstance(st, ast.AnnAssign) and st.value is not None: tg, val = st.target, st.value
        if tg is not None and is_self_attr(tg) and isinstance(val, ast.Name) and val.id in params:
            out[val.id] = tg.attr; continue                        # self.g = p
        if (isinstance(st, ast.If) and isinstance(st.test, ast.Call) and getattr(st.test.func, 'id', '') == 'isinstance'
                and len(st.test.args) == 2 and isinstance(st.test.args[0], ast.Name) and getattr(st.test.args[1], 'id', '') == 'str'
                and len(st.body) == 1 and len(st.orelse) == 1 and isinstance(st.orelse[0], ast.Assign)
                and len(st.orelse[0].targets) == 1 and is_self_attr(st.orelse[0].targets[0])
                and isinstance(st.orelse[0].value, ast.Name) and st.orelse[0].value.id == st.test.args[0].id
                and isinstance(st.body[0], ast.Assign) and len(st.body[0].targets) == 1 and is_self_attr(st.body[0].targets[0])
                and st.body[0].targets[0].attr == st.orelse[0].targets[0].attr):
            out[st.test.args[0].id] = st.orelse[0].targets[0].attr; continue     # str -> h_to_b(str), bytes stored as given
        raise Unsupported(f'{cname}.__init__: line {st.lineno}: not a plain field store')
    # a field must not be stored twice
    if len(set(out.values())) != len(out): raise Unsupported(f'{cname}.__init__: a field is stored twice')
    return params, out


def check_value_copy(cname):
    """`cname.copy(x)` has, in every field of COPY_FIELDS[cname], the value of that field of x"""
    if cname in _COPY_OK: return
    _COPY_OK[cname] = True           # (no recursion through the class itself in this library)
    m = _method(_cls(cname), 'copy')
    if len(m.args.args) != 2: raise Unsupported(f'{cname}.copy: signature')
    clsname, x = m.args.args[0].arg, m.args.args[1].arg
    env = {}
    def src(e):
        if isinstance(e, ast.Name) and e.id in env: return env[e.id]
        if isinstance(e, ast.Attribute) and isinstance(e.value, ast.Name) and e.value.id == x: return e.attr
        if isinstance(e, ast.Call) and isinstance(e.func, ast.Name) and e.func.id == 'list' and len(e.args) == 1 and not e.keywords:
            return src(e.args[0])
        if (isinstance(e, ast.Call) and isinstance(e.func, ast.Attribute) and isinstance(e.func.value, ast.Name)
                and e.func.value.id == 'copy' and e.func.attr == 'deepcopy' and len(e.args) == 1 and not e.keywords):
            return src(e.args[0])
        if (isinstance(e, ast.Call) and isinstance(e.func, ast.Attribute) and e.func.attr == 'copy' and isinstance(e.func.value, ast.Name)
                and e.func.value.id in COPY_FIELDS and len(e.args) == 1 and not e.keywords):
            check_value_copy(e.func.value.id); return src(e.args[0])
        if (isinstance(e, ast.ListComp) and len(e.generators) == 1 and not e.generators[0].ifs and isinstance(e.generators[0].target, ast.Name)
                and isinstance(e.elt, ast.Call) and isinstance(e.elt.func, ast.Attribute) and e.elt.func.attr == 'copy'
                and isinstance(e.elt.func.value, ast.Name) and e.elt.func.value.id in COPY_FIELDS and len(e.elt.args) == 1
                and isinstance(e.elt.args[0], ast.Name) and e.elt.args[0].id == e.generators[0].target.id and not e.elt.keywords):
            check_value_copy(e.elt.func.value.id); return src(e.generators[0].iter)
        return None
    ret = None
    for st in m.body:
        if isinstance(st, ast.Expr) and isinstance(st.value, ast.Constant): continue
        if isinstance(st, ast.Assign) and len(st.targets) == 1 and isinstance(st.targets[0], ast.Name):
            env[st.targets[0].id] = src(st.value); continue
        if isinstance(st, ast.Return) and st is m.body[-1]: ret = st.value; continue
        raise Unsupported(f'{cname}.copy: line {st.lineno}: unsupported statement')
    if not (isinstance(ret, ast.Call) and isinstance(ret.func, ast.Name) and ret.func.id == clsname):
        raise Unsupported(f'{cname}.copy does not return cls(...)')
    params, stored = ctor_map(cname)
    got = {}
    if len(ret.args) > len(params): raise Unsupported(f'{cname}.copy: too many constructor arguments')
    for p_, a in list(zip(params, ret.args)) + [(k.arg, k.value) for k in ret.keywords]:
        if p_ is None or p_ not in params: raise Unsupported(f'{cname}.copy: constructor argument {p_}')
        if p_ in stored: got[stored[p_]] = src(a)
    for f in COPY_FIELDS[cname]:
        if got.get(f) != f: raise Unsupported(f'{cname}.copy does not hand field {f} of its argument to the constructor field {f}')


class Tr:
    def __init__(s, name, file=None):
        s.name = name; s.tmp = 0; s.pre = []; s.declared = set(); s.points = set(); s.tuple5 = set()
        s.toklists = set(); s.tokvars = set(); s.optables = set(); s.byteslists = set(); s.reclists = {}; s.recvars = {}; s.revtables = set()
        s.hoisted = set(); s.selfcopies = set(); s.scriptlists = set(); s.fmtvars = {}; s.fmtpre = {}; s.hoisting = False; s.ratvars = set(); s.optvars = set(); s.charvars = set(); s.hexvars = set(); s.tweak_point_ctx = False; s.treevars = {}; s.pairvars = set(); s.strvars = set(); s.revars = {}
        s.fconsts = FILE_CONSTS.get(file, {}); s.file = file

    def fail(s, n, why):
        raise Unsupported(f'{s.name}: line {getattr(n, "lineno", "?")}: unsupported {why}: {ast.dump(n)[:100]}')

    def eff(s, term):
        s.tmp += 1; v = f't{s.tmp}'; s.pre.append(f'let {v} ← {term}'); return v

    # ---- bech32.py's string functions --------------------------------------------------------------------------------
    def str_type(s, n):
        """'chars' | 'ints' | 'opt' | None for an expression of a string function"""
        if isinstance(n, ast.Name):
            if n.id in s.optvars: return 'opt'
            if n.id in s.charlists or n.id == 'CHARSET': return 'chars'
            if n.id in s.intlists: return 'ints'
            return None
        if isinstance(n, ast.Constant) and isinstance(n.value, str): return 'chars'
        if isinstance(n, ast.Subscript) and isinstance(n.slice, ast.Slice):
            t = s.str_type(n.value); return 'ints' if t == 'opt' else t
        if isinstance(n, ast.BinOp) and isinstance(n.op, ast.Add): return s.str_type(n.left) or s.str_type(n.right)
        if isinstance(n, ast.List): return 'ints'
        if isinstance(n, ast.ListComp): return 'ints'
        if isinstance(n, ast.Call) and isinstance(n.func, ast.Attribute) and n.func.attr in ('lower', 'upper', 'join', 'strip'): return 'chars'
        if isinstance(n, ast.IfExp):
            a_, b_ = s.str_type(n.body), s.str_type(n.orelse)
            return a_ if a_ == b_ else None
        if isinstance(n, ast.Call) and isinstance(n.func, ast.Name) and n.func.id in STR_CALLS:
            return {'bech32_create_checksum': 'ints', 'convertbits': 'ints', 'bech32_encode': 'chars'}.get(n.func.id)
        return None

    def e_raw_opt(s, n):
        """an expression whose value may be None, as an Option (no unwrapping)"""
        if isinstance(n, ast.Constant) and n.value is None: return 'none'
        if isinstance(n, ast.Name) and n.id in s.optvars: return n.id
        if isinstance(n, ast.Call) and isinstance(n.func, ast.Name) and n.func.id in STR_CALLS and STR_CALLS[n.func.id][1]:
            return s.eff(f'{STR_CALLS[n.func.id][0]} ' + ' '.join(s.str_args(n)))
        return None

    def str_args(s, n):
        """positional arguments of a call to a sibling function, the callee's constant defaults filled in"""
        if n.keywords: s.fail(n, 'keyword arguments')
        d = [x for x in s.tree.body if isinstance(x, ast.FunctionDef) and x.name == n.func.id]
        if not d: s.fail(n, 'callee not found')
        d = d[-1]
        params = d.args.args; defaults = d.args.defaults
        out = [s.e(a) for a in n.args]
        for k in range(len(n.args), len(params)):
            j = k - (len(params) - len(defaults))
            if j < 0: s.fail(n, 'missing argument')
            out.append(s.e(defaults[j]))
        return out

    def e_str(s, n):
        if (isinstance(n, ast.Subscript) and isinstance(n.value, ast.Name) and n.value.id == 'NETWORK_SEGWIT_PREFIXES'
                and isinstance(n.slice, ast.Call) and getattr(n.slice.func, 'id', '') == 'get_network' and not n.slice.args
                and 'segwit_hrp' in s.params):
            return 'segwit_hrp'          # the configured network's prefix: a parameter
        if (isinstance(n, ast.Attribute) and isinstance(n.value, ast.Name) and n.value.id == 'self' and 'self_' + n.attr in s.params
                and s.name in ('segwit_address_to_hash', 'segwit_to_string')):
            return 'self_' + n.attr
        if s.name == 'segwit_init_script':
            if (isinstance(n, ast.Call) and isinstance(n.func, ast.Name) and n.func.id == '_script_to_hash' and len(n.args) == 1 and not n.keywords
                    and isinstance(n.args[0], ast.Name) and n.args[0].id in s.toklists):
                return s.eff(f'segwit_script_to_hash hashlib_sha256 OPS {n.args[0].id}')
            if isinstance(n, ast.Call) and isinstance(n.func, ast.Name) and n.func.id == 'isinstance': return 'true'
        if s.name in ('segwit_init', 'segwit_init_script'):
            if isinstance(n, ast.Name) and n.id in ('P2WPKH_ADDRESS_V0', 'P2WSH_ADDRESS_V0', 'P2TR_ADDRESS_V1') and n.id not in s.declared:
                return lean_str(CONST_STRS[n.id])
            if isinstance(n, ast.Name) and n.id == 'version': return 'version'
            if isinstance(n, ast.Name) and n.id in ('address', 'witness_program'): return s.eff(f'Py.unwrap {n.id}')
            if (isinstance(n, ast.Call) and isinstance(n.func, ast.Name) and n.func.id == '_address_to_hash' and len(n.args) == 1
                    and not n.keywords):       # (self.… inside __init__ is rewritten to a plain name)
                return s.eff(f'segwit_address_to_hash segwit_hrp segwit_num_version {s.e(n.args[0])}')
            if isinstance(n, ast.Tuple) and len(n.elts) == 2: return f'({s.e(n.elts[0])}, {s.e(n.elts[1])})'
        if s.name == 'pubkey_get_segwit_address':
            if (isinstance(n, ast.Call) and isinstance(n.func, ast.Name) and n.func.id == 'P2wpkhAddress' and not n.args
                    and len(n.keywords) == 1 and n.keywords[0].arg == 'witness_program' and s.isbytes(n.keywords[0].value)):
                ver = s.check_subclass_ctor('P2wpkhAddress', ['address', 'witness_program', 'version'], base='SegwitAddress', fixed={'version'})
                return s.eff(f'segwit_init segwit_hrp none (some {s.e(n.keywords[0].value)}) {lean_str(CONST_STRS[ver["version"]])}')
            if (isinstance(n, ast.Call) and isinstance(n.func, ast.Attribute) and n.func.attr == '_to_hash160' and isinstance(n.func.value, ast.Name)
                    and n.func.value.id == 'self' and len(n.args) == 1 and not n.keywords):
                return s.eff(f'pubkey_to_hash160 hashlib_sha256 self_key_string {s.cond(n.args[0])}')
        if isinstance(n, ast.Constant) and isinstance(n.value, str):
            return f'({lean_str(n.value)}.toList : List Char)'
        if isinstance(n, ast.Name) and n.id in s.optvars:
            return s.eff(f'Py.unwrap {n.id}')                      # a use of a possibly-None value: TypeError on None
        if isinstance(n, ast.Call) and isinstance(n.func, ast.Name):
            f = n.func.id; a = n.args
            if f in ('any', 'all') and len(a) == 1 and isinstance(a[0], ast.GeneratorExp) and len(a[0].generators) == 1 \
                    and not a[0].generators[0].ifs and isinstance(a[0].generators[0].target, ast.Name):
                g = a[0].generators[0]; v = g.target.id
                it = s.e(g.iter)
                saved = s.pre; s.pre = []
                s.charvars.add(v); c = s.cond(a[0].elt); s.charvars.discard(v)
                if s.pre: s.fail(n, 'effects inside any()/all()')
                s.pre = saved
                return f'(List.{f} {it} (fun {v} => {c}))'
            if f == 'bech32_decode' and s.name == 'is_address_bech32' and len(a) == 1 and not n.keywords:
                return s.eff(f'bech32_decode {s.e(a[0])}')
            if f in STR_CALLS:
                nm, opt = STR_CALLS[f]
                t = s.eff(f'{nm} ' + ' '.join(s.str_args(n)))
                return s.eff(f'Py.unwrap {t}') if opt else t
            if f == 'len' and len(a) == 1 and s.str_type(a[0]) in ('chars', 'ints', 'opt'):
                return f'((List.length {s.e(a[0])} : Nat) : Int)'
            if (f == 'bytes' and len(a) == 1 and not n.keywords and s.name == 'segwit_address_to_hash' and s.str_type(a[0]) in ('ints', 'opt')):
                return s.eff(f'Py.bytesOfInts {s.e(a[0])}')          # bytes(list of ints): ValueError outside 0..255
            if (f == '_is_hash160_valid' and len(a) == 1 and not n.keywords and s.name == 'address_init_hash160'
                    and s.str_type(a[0]) == 'chars'):
                return s.eff(f'is_hash160_valid {s.e(a[0])}')        # (self.… inside __init__ was rewritten to a plain name)
            if (f == 'b_to_h' and len(a) == 1 and not n.keywords and s.name == 'pubkey_get_address' and s.isbytes(a[0])):
                return f'(Py.hexOf {s.e(a[0])})'            # the hex string itself (it is handed to code that inspects its characters)
            if (f == 'P2pkhAddress' and s.name == 'pubkey_get_address' and not a and len(n.keywords) == 1 and n.keywords[0].arg == 'hash160'
                    and s.str_type(n.keywords[0].value) == 'chars'):
                s.check_subclass_ctor('P2pkhAddress', ['address', 'hash160'])
                return s.eff(f'address_init_hash160 {s.e(n.keywords[0].value)}')
            if f == 'h_to_b' and len(a) == 1 and not n.keywords and s.str_type(a[0]) == 'chars':
                return s.eff(f'Py.bytesFromhex {s.e(a[0])}')            # bytes.fromhex of a real string
            if (f == 'int' and len(a) == 2 and not n.keywords and isinstance(a[1], ast.Constant) and a[1].value == 16
                    and not isinstance(a[1].value, bool) and s.str_type(a[0]) == 'chars'):
                return s.eff(f'Py.intBase16 {s.e(a[0])}')
            if (f == 'sqrt_mod' and 'sqrt_mod' in s.params and len(a) == 3 and not n.keywords and isinstance(a[2], ast.Constant)
                    and a[2].value is True):
                return f'(sqrt_mod {s.e(a[0])} {s.e(a[1])})'           # all_roots=True: the sorted list of all roots
        if isinstance(n, ast.Call) and isinstance(n.func, ast.Attribute):
            f = n.func
            def is_b32(fn, nm):
                return (isinstance(fn, ast.Attribute) and fn.attr == nm and isinstance(fn.value, ast.Attribute) and fn.value.attr == 'bech32'
                        and isinstance(fn.value.value, ast.Name) and fn.value.value.id == 'bitcoinutils')
            if s.name == 'segwit_address_to_hash' and is_b32(f, 'decode') and len(n.args) == 2 and not n.keywords:
                return s.eff(f'segwit_decode {s.e(n.args[0])} {s.e(n.args[1])}')
            if s.name == 'segwit_to_string' and is_b32(f, 'encode') and len(n.args) == 3 and not n.keywords:
                return s.eff(f'segwit_encode {s.e(n.args[0])} {s.e(n.args[1])} {s.e(n.args[2])}')
            if (s.name == 'segwit_to_string' and f.attr == 'tolist' and not n.args and not n.keywords and isinstance(f.value, ast.Call)
                    and getattr(f.value.func, 'id', '') == 'memoryview' and len(f.value.args) == 1 and s.isbytes(f.value.args[0])):
                return f'(Py.intsOfBytes {s.e(f.value.args[0])})'          # memoryview(b).tolist(): the bytes as ints
            if (f.attr == '_is_hash160_valid' and isinstance(f.value, ast.Name) and f.value.id == 'self' and len(n.args) == 1 and not n.keywords
                    and s.name == 'address_init_hash160' and s.str_type(n.args[0]) == 'chars'):
                return s.eff(f'is_hash160_valid {s.e(n.args[0])}')
            if (f.attr == '_to_hash160' and isinstance(f.value, ast.Name) and f.value.id == 'self' and len(n.args) == 1 and not n.keywords
                    and s.name == 'pubkey_get_address'):
                return s.eff(f'pubkey_to_hash160 hashlib_sha256 self_key_string {s.cond(n.args[0])}')
            if f.attr in ('lower', 'upper', 'strip') and not n.args and not n.keywords and s.str_type(f.value) == 'chars':
                return s.eff(f'Py.str{f.attr.capitalize()} {s.e(f.value)}')
            if (f.attr == 'startswith' and len(n.args) == 1 and not n.keywords and isinstance(n.args[0], ast.Constant)
                    and isinstance(n.args[0].value, str) and s.str_type(f.value) == 'chars'):
                return f'(Py.strStartswith {s.e(f.value)} {s.e_str(n.args[0])})'
            if (f.attr == 'from_string' and isinstance(f.value, ast.Name) and f.value.id == 'VerifyingKey' and 'verifyingkey_from_string' in s.params
                    and len(n.args) == 1 and len(n.keywords) == 1 and n.keywords[0].arg == 'curve'
                    and isinstance(n.keywords[0].value, ast.Name) and n.keywords[0].value.id == 'SECP256k1'):
                return s.eff(f'verifyingkey_from_string {s.e(n.args[0])}')
            if (f.attr == 'rfind' and len(n.args) == 1 and isinstance(n.args[0], ast.Constant) and isinstance(n.args[0].value, str)
                    and len(n.args[0].value) == 1 and s.str_type(f.value) == 'chars'):
                return f'(Py.strRfind {s.e(f.value)} {lean_char(n.args[0].value)})'
            if (f.attr == 'find' and len(n.args) == 1 and isinstance(n.args[0], ast.Name) and n.args[0].id in s.charvars
                    and s.str_type(f.value) == 'chars'):
                return f'(Py.strFind {s.e(f.value)} {n.args[0].id})'
            if (f.attr == 'join' and isinstance(f.value, ast.Constant) and f.value.value == '' and len(n.args) == 1
                    and isinstance(n.args[0], ast.ListComp)):
                return s.e_str(n.args[0])
        if isinstance(n, ast.ListComp) and len(n.generators) == 1 and not n.generators[0].ifs and isinstance(n.generators[0].target, ast.Name):
            g = n.generators[0]; v = g.target.id
            it = s.e(g.iter)
            ischar = s.str_type(g.iter) == 'chars'
            saved = s.pre; s.pre = []
            if ischar: s.charvars.add(v)
            body = s.e(n.elt); inner = s.pre; s.pre = saved
            if ischar: s.charvars.discard(v)
            lam = f'(fun ({v} : _) => do ' + ''.join(p_ + '; ' for p_ in inner) + f'pure {body})'
            return s.eff(f'List.mapM {lam} {it}')
        if isinstance(n, ast.Subscript) and isinstance(n.slice, ast.Slice) and s.str_type(n.value) in ('chars', 'ints', 'opt'):
            if n.slice.step is not None: s.fail(n, 'slice step')
            lo = s.e(n.slice.lower) if n.slice.lower else '(0 : Int)'
            hi = s.e(n.slice.upper) if n.slice.upper else 'Py.slEnd'
            return f'(Py.sliceL {s.e(n.value)} {lo} {hi})'
        if isinstance(n, ast.Subscript) and not isinstance(n.slice, ast.Slice):
            if isinstance(n.value, ast.Name) and n.value.id == 'CHARSET': return s.eff(f'Py.listGet {s.e(n.value)} {s.e(n.slice)}')
            if s.str_type(n.value) in ('ints', 'opt'): return s.eff(f'Py.indexL {s.e(n.value)} {s.e(n.slice)}')
        if isinstance(n, ast.Compare) and len(n.ops) == 1:
            l, r, op = n.left, n.comparators[0], n.ops[0]
            if isinstance(op, (ast.Is, ast.IsNot)) and isinstance(r, ast.Constant) and r.value is None:
                if isinstance(l, ast.Name) and (l.id in s.intlists or l.id in s.charlists) and l.id not in s.optvars:
                    return 'false' if isinstance(op, ast.Is) else 'true'        # a list is not None
                o = s.e_raw_opt(l)
                if o is None: s.fail(n, 'is None on a value that cannot be None')
                return f'(Option.isNone {o})' if isinstance(op, ast.Is) else f'(Option.isSome {o})'
            if isinstance(op, ast.In) and isinstance(l, ast.Name) and l.id in s.charvars and s.str_type(r) == 'chars':
                return f'(List.contains {s.e(r)} {l.id})'
            if isinstance(op, (ast.Eq, ast.NotEq)):
                sym = '==' if isinstance(op, ast.Eq) else '!='
                lo, ro = s.e_raw_opt(l), s.e_raw_opt(r)
                if lo is not None or ro is not None:
                    # == / != never raise on None: compare as Options
                    a_ = lo if lo is not None else f'(some {s.e(l)})'
                    b_ = ro if ro is not None else f'(some {s.e(r)})'
                    return f'({a_} {sym} {b_})'
                if isinstance(r, ast.Tuple) and all(isinstance(x, ast.Constant) and x.value is None for x in r.elts):
                    return f'({s.e(l)} {sym} (' + ', '.join('none' for _ in r.elts) + '))'
        return None

    def hexfmt(s, n):
        """f"{a:064x}{b:064x}..." -> the list of formatted values, or None"""
        if not isinstance(n, ast.JoinedStr) or not n.values: return None
        out = []
        for v in n.values:
            if not (isinstance(v, ast.FormattedValue) and v.conversion == -1 and isinstance(v.format_spec, ast.JoinedStr)
                    and len(v.format_spec.values) == 1 and isinstance(v.format_spec.values[0], ast.Constant)
                    and v.format_spec.values[0].value == '064x'):
                return None
            out.append(v.value)
        return out

    def hexbytes(s, n):
        """a hex string whose data is known as bytes: <bytes>.hex(), a hex variable, such a variable sliced at an even offset"""
        if isinstance(n, ast.Name) and n.id in s.hexvars: return n.id
        if (isinstance(n, ast.Call) and isinstance(n.func, ast.Attribute) and n.func.attr == 'hex' and not n.args and not n.keywords
                and s.isbytes(n.func.value)):
            return s.e(n.func.value)
        if (isinstance(n, ast.Subscript) and isinstance(n.slice, ast.Slice) and n.slice.step is None and n.slice.upper is None
                and isinstance(n.slice.lower, ast.Constant) and isinstance(n.slice.lower.value, int) and n.slice.lower.value >= 0
                and n.slice.lower.value % 2 == 0 and s.hexbytes(n.value) is not None):
            return f'(Py.slice {s.hexbytes(n.value)} ({n.slice.lower.value // 2} : Int) Py.slEnd)'
        if isinstance(n, ast.Call) and isinstance(n.func, ast.Name) and n.func.id == 'negate_privkey' and len(n.args) == 1:
            return s.eff(f'negate_privkey {s.e(n.args[0])}')
        if (isinstance(n, ast.Call) and isinstance(n.func, ast.Name) and n.func.id == 'b_to_h' and len(n.args) == 1 and not n.keywords
                and s.isbytes(n.args[0]) and s.name != 'pubkey_get_address'):
            return s.e(n.args[0])           # b_to_h(<bytes>): the hex string that denotes them
        if (isinstance(n, ast.Subscript) and isinstance(n.slice, ast.Slice) and n.slice.step is None and s.hexbytes(n.value) is not None):
            lo, up = n.slice.lower, n.slice.upper
            def even(x):
                if isinstance(x, ast.UnaryOp) and isinstance(x.op, ast.USub) and isinstance(x.operand, ast.Constant): v = -x.operand.value
                elif isinstance(x, ast.Constant): v = x.value
                else: return None
                return v // 2 if isinstance(v, int) and not isinstance(v, bool) and v % 2 == 0 else None
            # [-2k:] and [:2k] / [2j:2k] of a hex string of an even number of digits: the same slice of the bytes, halved
            if lo is not None and up is None and even(lo) is not None:
                return f'(Py.sliceFromL {s.hexbytes(n.value)} ({even(lo)} : Int))'        # negative bounds count from the end
            if up is not None and even(up) is not None and (lo is None or even(lo) is not None):
                return f'(Py.sliceL {s.hexbytes(n.value)} ({0 if lo is None else even(lo)} : Int) ({even(up)} : Int))'
        if (isinstance(n, ast.BinOp) and isinstance(n.op, ast.Add) and isinstance(n.left, ast.Constant) and isinstance(n.left.value, str)
                and _re.fullmatch(r'([0-9a-f]{2})+', n.left.value) and s.hexbytes(n.right) is not None):
            return f'({blit(bytes.fromhex(n.left.value))} ++ {s.hexbytes(n.right)})'      # "02" + <hex>: hex digits in front
        if (s.name in PUBFUNS and isinstance(n, ast.Call) and isinstance(n.func, ast.Attribute) and n.func.attr == 'to_hex'
                and isinstance(n.func.value, ast.Name) and n.func.value.id == 'self' and len(n.args) == 1 and not n.keywords):
            return s.eff(f'pubkey_to_hex self_key_string {s.e(n.args[0])}')
        return None

    def e_tweak(s, n):
        if (s.name in PUBFUNS and isinstance(n, ast.Call) and isinstance(n.func, ast.Attribute) and n.func.attr == 'to_string'
                and not n.args and not n.keywords and isinstance(n.func.value, ast.Attribute) and n.func.value.attr == 'key'
                and isinstance(n.func.value.value, ast.Name) and n.func.value.value.id == 'self'):
            return 'self_key_string'        # self.key.to_string(): the 64 bytes x || y
        if isinstance(n, ast.Attribute) and isinstance(n.value, ast.Name) and n.value.id == 'Secp256k1Params' and n.attr in ('_order', '_field', '_p'):
            return CONSTS['Secp256k1Params.' + n.attr]
        if isinstance(n, ast.Name) and n.id == 'G' and n.id not in s.declared: return FILE_CONSTS['schnorr.py']['G']
        if isinstance(n, ast.Call) and isinstance(n.func, ast.Name):
            f = n.func.id; a = n.args
            if f == 'h_to_i' and len(a) == 1 and s.hexbytes(a[0]) is not None: return s.eff(f'Py.hToI {s.hexbytes(a[0])}')
            if (f == 'int' and len(a) == 2 and isinstance(a[1], ast.Constant) and a[1].value == 16 and s.hexbytes(a[0]) is not None):
                return s.eff(f'Py.hToI {s.hexbytes(a[0])}')
            if f in TWEAK_CALLS and f != 'negate_privkey':
                return s.eff(f'{TWEAK_CALLS[f]} ' + ' '.join(s.e(x) for x in a))
        if (isinstance(n, ast.Call) and isinstance(n.func, ast.Attribute) and n.func.attr == 'fromhex' and isinstance(n.func.value, ast.Name)
                and n.func.value.id == 'bytes' and len(n.args) == 1 and s.hexfmt(n.args[0]) is not None):
            return s.eff('Py.fromhexFmt64 [' + ', '.join(s.e(v) for v in s.hexfmt(n.args[0])) + ']')
        if s.hexfmt(n) is not None:
            return s.eff('Py.hexStrFmt64 [' + ', '.join(s.e(v) for v in s.hexfmt(n)) + ']')
        hb = s.hexbytes(n)
        if hb is not None and not isinstance(n, ast.Name): return hb
        if (isinstance(n, ast.Subscript) and isinstance(n.value, ast.Name) and n.value.id in s.points and isinstance(n.slice, ast.Constant)
                and n.slice.value in (0, 1)):
            return s.eff(f'Py.ptIdx {n.value.id} {n.slice.value}')
        if isinstance(n, ast.Tuple) and len(n.elts) == 2 and s.tweak_point_ctx:
            return f'(some ({s.e(n.elts[0])}, {s.e(n.elts[1])}) : {POINT})'
        return None

    def e_tree(s, n):
        tv = s.treevars
        def istree(x): return isinstance(x, ast.Name) and x.id in tv
        if isinstance(n, ast.UnaryOp) and isinstance(n.op, ast.Not) and istree(n.operand):
            return f'(Py.{tv[n.operand.id]}Falsy {n.operand.id})'
        if isinstance(n, ast.Call) and isinstance(n.func, ast.Name):
            f = n.func.id; a = n.args
            if f == 'isinstance' and len(a) == 2 and istree(a[0]) and isinstance(a[1], ast.Name) and a[1].id in ('list', 'bytes'):
                return f'(Py.{tv[a[0].id]}Is{a[1].id.capitalize()} {a[0].id})'
            if f == 'len' and len(a) == 1 and istree(a[0]) and tv[a[0].id] == 'tree': return s.eff(f'Py.treeLen {a[0].id}')
            if f == 'tapleaf_tagged_hash' and len(a) == 1 and istree(a[0]) and tv[a[0].id] == 'tree':
                t = s.eff(f'Py.treeLeafToks {a[0].id}')
                return s.eff(f'tapleaf_tagged_hash hashlib_sha256 OPS {t}')
            if f == 'tapbranch_tagged_hash' and len(a) == 2:
                return s.eff(f'tapbranch_tagged_hash hashlib_sha256 {s.e(a[0])} {s.e(a[1])}')
            if f == 'get_tag_hashed_merkle_root' and len(a) == 1:
                if s.name == 'tag_hashed_merkle_root':
                    if not (isinstance(a[0], ast.Subscript) and istree(a[0].value)): s.fail(n, 'recursive call argument')
                    return s.eff(f'tag_hashed_merkle_root_fuel fuel hashlib_sha256 OPS {s.e(a[0])}')
                if istree(a[0]) and tv[a[0].id] == 'scripts':
                    return s.eff(f'tag_hashed_merkle_root hashlib_sha256 OPS (Py.scriptsTree {a[0].id})')
            if f == 'b_to_i' and len(a) == 1: return f'(Py.fromBytes {s.e(a[0])} Py.Order.big)'
            if f == 'traverse_level' and len(a) == 1:
                st = NONLOCAL_STATE['traverse_level']
                if s.name == 'traverse_level':
                    if not (isinstance(a[0], ast.Subscript) and istree(a[0].value)): s.fail(n, 'recursive call argument')
                    t = s.eff(f'traverse_level_fuel fuel hashlib_sha256 OPS target_leaf_index {s.e(a[0])} {st}')
                else:
                    if not istree(a[0]): s.fail(n, 'traverse_level argument')
                    t = s.eff(f'traverse_level hashlib_sha256 OPS target_leaf_index {a[0].id} {st}')
                s.pre.append(f'{st} := {t}.2')          # the callee's writes to the shared counter
                return f'{t}.1'
            def is_self_key(x):
                return (isinstance(x, ast.Call) and isinstance(x.func, ast.Attribute) and x.func.attr == 'to_string' and not x.args
                        and isinstance(x.func.value, ast.Attribute) and x.func.value.attr == 'key'
                        and isinstance(x.func.value.value, ast.Name) and x.func.value.value.id == 'self')
            def is_self_pub(x):
                return (isinstance(x, ast.Call) and isinstance(x.func, ast.Attribute) and x.func.attr == 'get_public_key' and not x.args
                        and isinstance(x.func.value, ast.Name) and x.func.value.id == 'self')
            if s.name == 'pubkey_get_taproot_address':
                if (isinstance(n.func, ast.Name) and f == 'P2trAddress' and not a and sorted(k.arg for k in n.keywords) == ['is_odd', 'witness_program']):
                    kw_ = {k.arg: k.value for k in n.keywords}
                    ver = s.check_subclass_ctor('P2trAddress', ['address', 'witness_program', 'version'], base='SegwitAddress', fixed={'version'},
                                                extra=('is_odd',))
                    t = s.eff(f'segwit_init segwit_hrp none (some {s.e(kw_["witness_program"])}) {lean_str(CONST_STRS[ver["version"]])}')
                    return f'({t}, {s.cond(kw_["is_odd"])})'
            if s.name == 'pubkey_to_taproot_hex':
                if (f == 'calculate_tweak' and len(a) == 2 and isinstance(a[0], ast.Name) and a[0].id == 'self' and istree(a[1])
                        and not n.keywords):
                    return s.eff(f'calculate_tweak hashlib_sha256 OPS self_key_string {a[1].id}')      # the key object is its 64 bytes
                if f == 'tweak_taproot_pubkey' and len(a) == 2 and is_self_key(a[0]) and not n.keywords:
                    return s.eff(f'tweak_taproot_pubkey self_key_string {s.e(a[1])}')
            if s.name == 'sign_taproot_input':
                if f == 'calculate_tweak' and len(a) == 2 and is_self_pub(a[0]) and istree(a[1]):
                    return s.eff(f'calculate_tweak hashlib_sha256 OPS pubkey_bytes {a[1].id}')
                if f == 'tweak_taproot_privkey' and len(a) == 2 and is_self_key(a[0]):
                    return s.eff(f'tweak_taproot_privkey self_key_bytes {s.e(a[1])}')
                if f == 'schnorr_sign' and len(a) == 3:
                    return s.eff('schnorr_sign hashlib_sha256 ' + ' '.join(s.e(x) for x in a))
        if (s.name == 'pubkey_get_taproot_address' and isinstance(n, ast.Call) and isinstance(n.func, ast.Attribute) and n.func.attr == 'to_taproot_hex'
                and isinstance(n.func.value, ast.Name) and n.func.value.id == 'self' and len(n.args) == 1 and not n.keywords
                and isinstance(n.args[0], ast.Name) and n.args[0].id in s.treevars):
            return s.eff(f'pubkey_to_taproot_hex hashlib_sha256 OPS self_key_string {n.args[0].id}')       # (hex string as its bytes, parity)
        if (s.name == 'sign_taproot_input' and isinstance(n, ast.Call) and isinstance(n.func, ast.Attribute) and n.func.attr == 'to_string'
                and not n.args and isinstance(n.func.value, ast.Attribute) and n.func.value.attr == 'key'
                and isinstance(n.func.value.value, ast.Name) and n.func.value.value.id == 'self'):
            return 'self_key_bytes'
        if (isinstance(n, ast.Subscript) and isinstance(n.value, ast.Name) and n.value.id in s.pairvars and isinstance(n.slice, ast.Constant)
                and n.slice.value in (0, 1)):
            return f'{n.value.id}.{n.slice.value + 1}'
        if (s.name == 'control_block_to_bytes' and isinstance(n, ast.Call) and isinstance(n.func, ast.Attribute) and n.func.attr == 'fromhex'
                and len(n.args) == 1 and isinstance(n.args[0], ast.Call) and isinstance(n.args[0].func, ast.Attribute)
                and n.args[0].func.attr == 'to_x_only_hex' and isinstance(n.args[0].func.value, ast.Attribute)
                and n.args[0].func.value.attr == 'pubkey'):
            return 'self_pubkey_xonly'          # bytes.fromhex(self.pubkey.to_x_only_hex()): the x-only key as bytes
        if isinstance(n, ast.Subscript) and istree(n.value) and tv[n.value.id] == 'tree' and not isinstance(n.slice, ast.Slice):
            return s.eff(f'Py.treeChild {n.value.id} {s.e(n.slice)}')
        if isinstance(n, ast.BinOp) and isinstance(n.op, ast.Add) and istree(n.right) and tv[n.right.id] == 'scripts':
            return f'({s.e(n.left)} ++ {s.eff("Py.scriptsBytes " + n.right.id)})'
        if (isinstance(n, ast.Subscript) and isinstance(n.value, ast.Call) and isinstance(n.value.func, ast.Attribute)
                and n.value.func.attr == 'to_bytes' and isinstance(n.value.func.value, ast.Name) and n.value.func.value.id == 'pubkey'
                and 'pubkey_bytes' in s.params and isinstance(n.slice, ast.Slice)):
            lo = s.e(n.slice.lower) if n.slice.lower else '(0 : Int)'
            hi = s.e(n.slice.upper) if n.slice.upper else 'Py.slEnd'
            return f'(Py.slice pubkey_bytes {lo} {hi})'
        return None

    def e_wif(s, n):
        if s.name == 'privkey_init':
            opts = ('wif', 'secret_exponent', 'b')
            if (isinstance(n, ast.Compare) and len(n.ops) == 1 and isinstance(n.ops[0], (ast.Is, ast.IsNot)) and isinstance(n.left, ast.Name)
                    and n.left.id in opts and isinstance(n.comparators[0], ast.Constant) and n.comparators[0].value is None):
                return f'(Option.is{"None" if isinstance(n.ops[0], ast.Is) else "Some"} {n.left.id})'
            if isinstance(n, ast.Name) and n.id in opts: return s.eff(f'Py.unwrap {n.id}')       # a use of the value: TypeError on None
            if isinstance(n, ast.Call) and isinstance(n.func, ast.Name) and n.func.id in ('_from_wif', '_from_bytes') and len(n.args) == 1 \
                    and not n.keywords:
                if n.func.id == '_from_wif':
                    return s.eff(f'from_wif hashlib_sha256 b58decode signingkey_from_string wif_prefix {s.e(n.args[0])}')
                return s.eff(f'privkey_from_bytes signingkey_from_string {s.e(n.args[0])}')
            if isinstance(n, ast.Call) and isinstance(n.func, ast.Attribute) and isinstance(n.func.value, ast.Name):
                f = n.func
                if f.value.id == 'self' and f.attr == '_from_wif' and len(n.args) == 1 and not n.keywords:
                    return s.eff(f'from_wif hashlib_sha256 b58decode signingkey_from_string wif_prefix {s.e(n.args[0])}')
                if f.value.id == 'self' and f.attr == '_from_bytes' and len(n.args) == 1 and not n.keywords:
                    return s.eff(f'privkey_from_bytes signingkey_from_string {s.e(n.args[0])}')
                if (f.value.id == 'SigningKey' and f.attr == 'from_secret_exponent' and len(n.args) == 1
                        and {k.arg for k in n.keywords} <= {'curve'}):
                    return s.eff(f'signingkey_from_secret_exponent {s.e(n.args[0])}')
        if (isinstance(n, ast.Subscript) and isinstance(n.value, ast.Name) and n.value.id in ('NETWORK_P2PKH_PREFIXES', 'NETWORK_P2SH_PREFIXES')
                and isinstance(n.slice, ast.Call) and getattr(n.slice.func, 'id', '') == 'get_network' and not n.slice.args):
            return 'p2pkh_prefix' if 'P2PKH' in n.value.id else 'p2sh_prefix'
        if (isinstance(n, ast.Call) and isinstance(n.func, ast.Attribute) and n.func.attr == 'get_type' and not n.args
                and isinstance(n.func.value, ast.Name) and n.func.value.id == 'self' and 'self_type' in s.params):
            return 'self_type'
        if isinstance(n, ast.Name) and n.id in ('P2PKH_ADDRESS', 'P2SH_ADDRESS') and n.id not in s.declared:
            return lean_str(CONST_STRS[n.id])
        if (isinstance(n, ast.Call) and isinstance(n.func, ast.Attribute) and n.func.attr == 'search' and isinstance(n.func.value, ast.Name)
                and n.func.value.id == 're' and len(n.args) == 2 and isinstance(n.args[0], ast.Name) and n.args[0].id in s.revars
                and isinstance(n.args[1], ast.Name) and n.args[1].id == 'address'):
            # re.search(r"[^ABC…]", s): is there a character outside the set
            return f'(List.any (String.toList address) (fun c => !(List.contains ({lean_str(s.revars[n.args[0].id])}.toList) c)))'
        if (isinstance(n, ast.Call) and isinstance(n.func, ast.Name) and n.func.id == 'len' and len(n.args) == 1
                and isinstance(n.args[0], ast.Name) and n.args[0].id == 'address'):
            return '((List.length (String.toList address) : Nat) : Int)'
        if (isinstance(n, ast.Call) and isinstance(n.func, ast.Attribute) and n.func.attr == 'encode' and isinstance(n.func.value, ast.Name)
                and n.func.value.id == 'address' and 'address' in s.params):
            return 'address'
        if isinstance(n, ast.Attribute) and isinstance(n.value, ast.Name) and n.value.id == 'self' and n.attr == 'hash160' and 'self_hash160' in s.params:
            return 'self_hash160'
        # NETWORK_WIF_PREFIXES[get_network()]
        if (isinstance(n, ast.Subscript) and isinstance(n.value, ast.Name) and n.value.id == 'NETWORK_WIF_PREFIXES'
                and isinstance(n.slice, ast.Call) and getattr(n.slice.func, 'id', '') == 'get_network' and not n.slice.args):
            return 'wif_prefix'
        if isinstance(n, ast.Call) and isinstance(n.func, ast.Attribute):
            f = n.func
            if f.attr == 'encode' and isinstance(f.value, ast.Name) and f.value.id == 'wif' and s.name == 'from_wif': return 'wif'
            if f.attr == 'decode' and isinstance(f.value, ast.Name) and f.value.id in s.strvars: return f.value.id
            if (f.attr == 'to_bytes' and not n.args and isinstance(f.value, ast.Name) and f.value.id == 'self' and 'self_key_bytes' in s.params):
                return 'self_key_bytes'
            if (f.attr == 'from_string' and isinstance(f.value, ast.Name) and f.value.id == 'SigningKey' and len(n.args) == 1
                    and {k.arg for k in n.keywords} <= {'curve'}):
                return s.eff(f'signingkey_from_string {s.e(n.args[0])}')
        if isinstance(n, ast.Call) and isinstance(n.func, ast.Name):
            if n.func.id == 'b58decode' and len(n.args) == 1: return s.eff(f'b58decode {s.e(n.args[0])}')
            if n.func.id == 'b58encode' and len(n.args) == 1: return f'(b58encode {s.e(n.args[0])})'
        if isinstance(n, ast.Subscript) and isinstance(n.slice, ast.Slice) and n.slice.step is None and s.isbytes(n.value):
            def neg(x): return (isinstance(x, ast.UnaryOp) and isinstance(x.op, ast.USub)) or (isinstance(x, ast.Constant) and isinstance(x.value, int) and x.value < 0)
            if (n.slice.lower is not None and neg(n.slice.lower)) or (n.slice.upper is not None and neg(n.slice.upper)):
                lo = s.e(n.slice.lower) if n.slice.lower else '(0 : Int)'
                if n.slice.upper is None: return f'(Py.sliceFromL {s.e(n.value)} {lo})'
                return f'(Py.sliceL {s.e(n.value)} {lo} {s.e(n.slice.upper)})'
        if (isinstance(n, ast.Compare) and len(n.ops) == 1 and isinstance(n.ops[0], ast.Is) and isinstance(n.comparators[0], ast.Constant)
                and n.comparators[0].value is True and isinstance(n.left, ast.Name) and n.left.id in s.boolvars):
            return f'({n.left.id} == true)'
        return None

    def e_sign(s, n):
        if isinstance(n, ast.Attribute) and isinstance(n.value, ast.Name) and n.value.id == 'Secp256k1Params' and n.attr == '_order':
            return CONSTS['Secp256k1Params._order']
        if (isinstance(n, ast.Call) and isinstance(n.func, ast.Attribute) and n.func.attr == 'sign_digest_deterministic'
                and isinstance(n.func.value, ast.Attribute) and n.func.value.attr == 'key' and isinstance(n.func.value.value, ast.Name)
                and n.func.value.value.id == 'self' and len(n.args) == 1 and s.isbytes(n.args[0])):
            kw = {k.arg: k.value for k in n.keywords}
            if not (set(kw) <= {'sigencode', 'hashfunc', 'extra_entropy'} and isinstance(kw.get('sigencode'), ast.Name)
                    and kw['sigencode'].id == 'sigencode_der' and isinstance(kw.get('hashfunc'), ast.Attribute)
                    and kw['hashfunc'].attr == 'sha256' and getattr(kw['hashfunc'].value, 'id', '') == 'hashlib'):
                s.fail(n, 'sign_digest_deterministic arguments')
            ent = f'(some {s.e(kw["extra_entropy"])})' if 'extra_entropy' in kw else 'none'
            return f'(ecdsa_sign {s.e(n.args[0])} {ent})'          # the signer is a function of the digest and the extra entropy
        if isinstance(n, ast.Call) and isinstance(n.func, ast.Name):
            if n.func.id == 'i_to_b32' and len(n.args) == 1: return s.eff(f'i_to_b32 {s.e(n.args[0])}')
            if n.func.id == 'sigdecode_der' and len(n.args) == 2: return s.eff(f'sigdecode_der {s.e(n.args[0])} {s.e(n.args[1])}')
            if n.func.id == 'sigencode_der' and len(n.args) == 3: return f'(sigencode_der {s.e(n.args[0])} {s.e(n.args[1])} {s.e(n.args[2])})'
        return None

    def e_wrap(s, n):
        """tx.<digest method>(...) and self.<private signer>(...) inside the public signing methods"""
        if not (isinstance(n, ast.Call) and isinstance(n.func, ast.Attribute) and isinstance(n.func.value, ast.Name)): return None
        obj, meth = n.func.value.id, n.func.attr
        if obj == 'tx' and meth in TX_METHODS: gen = TX_METHODS[meth]; pre = 'tx_'
        elif obj == 'self' and meth in SELF_SIGNERS: gen = SELF_SIGNERS[meth]; pre = None
        else: return None
        file, qual, gparams, _ = SIG[gen]
        tree = s.tree if file == s.file else ast.parse(open(f'{REPO}/bitcoinutils/{file}').read())
        d = find(tree, qual)
        pyparams = [a.arg for a in d.args.args[1:]]
        defaults = dict(zip(pyparams[len(pyparams) - len(d.args.defaults):], d.args.defaults)) if d.args.defaults else {}
        if d.args.vararg or d.args.kwarg or d.args.kwonlyargs: s.fail(n, 'callee with * parameters')
        given = {}
        if len(n.args) > len(pyparams): s.fail(n, 'too many arguments')
        for k_, a_ in zip(pyparams, n.args): given[k_] = a_
        for kw_ in n.keywords:
            if kw_.arg is None or kw_.arg not in pyparams or kw_.arg in given: s.fail(n, 'keyword argument')
            given[kw_.arg] = kw_.value
        out = []
        for gp, gt in gparams:
            if gp in pyparams:
                if gp in given: a_ = given[gp]
                elif gp in defaults: a_ = defaults[gp]
                else: s.fail(n, f'missing argument {gp}')
                if gt == 'Bool': out.append(s.cond(a_))
                elif gt == 'Py.PyScripts':
                    if not (isinstance(a_, ast.Name) and a_.id in s.treevars): s.fail(n, 'script-tree argument')
                    out.append(a_.id)
                else: out.append(s.e(a_))
            elif gp.startswith('self_') and pre is not None and (pre + gp[5:]) in s.params: out.append(pre + gp[5:])
            elif gp in s.params: out.append(gp)          # hashlib_sha256, OPS, the third-party signer parameters, self_key_bytes, pubkey_bytes
            else: s.fail(n, f'no value for the parameter {gp} of {gen}')
        if set(given) - {gp for gp, _ in gparams}: s.fail(n, 'argument that the generated callee does not take')
        return s.eff(f'{gen} ' + ' '.join(out))

    def e_msg(s, n):
        if isinstance(n, ast.Call) and isinstance(n.func, ast.Name):
            f = n.func.id; a = n.args
            if f == 'add_magic_prefix' and len(a) == 1 and not n.keywords and s.isbytes(a[0]): return s.eff(f'add_magic_prefix {s.e(a[0])}')
            if f == 'b64decode' and 'b64decode' in s.params and len(a) == 1 and not n.keywords: return s.eff(f'b64decode {s.e(a[0])}')
        if isinstance(n, ast.Call) and isinstance(n.func, ast.Attribute):
            f = n.func; kw = {k.arg: k.value for k in n.keywords}
            if (f.attr == 'encode' and len(n.args) == 1 and isinstance(n.args[0], ast.Constant) and n.args[0].value == 'utf-8' and not kw
                    and isinstance(f.value, ast.Name) and f.value.id in s.params and s.isbytes(f.value)):
                return f.value.id            # a str parameter is its UTF-8 bytes
            if (f.attr == 'from_public_key_recovery_with_digest' and isinstance(f.value, ast.Name) and f.value.id == 'VerifyingKey'
                    and 'recover_keys' in s.params and len(n.args) == 2 and set(kw) == {'curve', 'hashfunc', 'sigdecode'}
                    and getattr(kw['curve'], 'id', '') == 'SECP256k1' and getattr(kw['sigdecode'], 'id', '') == 'sigdecode_string'
                    and isinstance(kw['hashfunc'], ast.Attribute) and kw['hashfunc'].attr == 'sha256'):
                return s.eff(f'recover_keys {s.e(n.args[0])} {s.e(n.args[1])}')
            if (f.attr == 'verify_digest' and isinstance(f.value, ast.Attribute) and f.value.attr == 'key' and isinstance(f.value.value, ast.Name)
                    and f.value.value.id == 'self' and 'verify_digest' in s.params and len(n.args) == 2 and set(kw) == {'sigdecode'}
                    and getattr(kw['sigdecode'], 'id', '') == 'sigdecode_string'):
                return s.eff(f'verify_digest {s.e(n.args[0])} {s.e(n.args[1])}')
        if (isinstance(n, ast.Subscript) and isinstance(n.value, ast.Name) and n.value.id == 'recovered_keys' and s.name == 'pubkey_recover'
                and not isinstance(n.slice, ast.Slice)):
            return s.eff(f'Py.listGet recovered_keys {s.e(n.slice)}')
        return None

    def e(s, n):
        if s.name in MSGFUNS:
            r = s.e_msg(n)
            if r is not None: return r
        if s.name in WRAPFUNS:
            r = s.e_wrap(n)
            if r is not None: return r
        if s.name in ('from_wif', 'to_wif', 'is_address_valid', 'address_to_hash160', 'address_to_string', 'privkey_from_bytes', 'privkey_init'):
            r = s.e_wif(n)
            if r is not None: return r
        if s.name == 'sign_input':
            r = s.e_sign(n)
            if r is not None: return r
        if s.name in TREEFUNS:
            r = s.e_tree(n)
            if r is not None: return r
        if s.name in TWEAKFUNS:
            r = s.e_tweak(n)
            if r is not None: return r
        if s.name in STRFUNS:
            r = s.e_str(n)
            if r is not None: return r
        if isinstance(n, ast.Constant):
            if isinstance(n.value, bool): return 'true' if n.value else 'false'
            if isinstance(n.value, int): return f'({n.value} : Int)'
            if isinstance(n.value, bytes): return blit(n.value)
            if n.value is None: return 'none'
            if isinstance(n.value, str) and ('p' in s.fconsts or s.name in STR_UTF8): return blit(n.value.encode())     # a str that only flows into .encode()
            s.fail(n, 'constant')
        if isinstance(n, ast.Name) and n.id in s.tokvars: return f'(Py.tokInt {n.id})'      # a token used as a number (under isinstance(token, int))
        if isinstance(n, ast.Name) and n.id == 'OP_CODES' and 'OPS' in s.optables: return 'OPS'
        if isinstance(n, ast.Name) and n.id in s.fmtvars: s.fail(n, 'a struct format used as a value')
        if isinstance(n, ast.Name):
            if n.id in s.fconsts and n.id not in s.declared: return s.fconsts[n.id]
            if n.id in CONSTS and n.id not in s.declared: return CONSTS[n.id]
            if n.id == 'self': s.fail(n, 'bare self')
            return n.id
        if isinstance(n, ast.Attribute) and isinstance(n.value, ast.Name) and n.value.id == 'self':
            return 'self_' + n.attr
        if isinstance(n, ast.Attribute) and isinstance(n.value, ast.Name) and n.value.id in s.recvars and n.attr in s.recvars[n.value.id][2]:
            return f'{n.value.id}.{n.attr}'
        if isinstance(n, ast.Attribute) and isinstance(n.value, ast.Name) and f'{n.value.id}.{n.attr}' in CONSTS:
            return CONSTS[f'{n.value.id}.{n.attr}']
        if isinstance(n, ast.List):
            if not n.elts: return '([] : List Int)'
            return '[' + ', '.join(s.e(x) for x in n.elts) + ']'
        if isinstance(n, ast.ListComp):
            if len(n.generators) != 1 or n.generators[0].ifs or not isinstance(n.generators[0].target, ast.Name):
                s.fail(n, 'comprehension')
            g = n.generators[0]; v = g.target.id
            it = s.iter(g.iter)
            saved = s.pre; s.pre = []
            body = s.e(n.elt); inner = s.pre; s.pre = saved
            lam = f'(fun ({v} : _) => do ' + ''.join(p + '; ' for p in inner) + f'pure {body})'
            return s.eff(f'List.mapM {lam} {it}')
        if (isinstance(n, ast.IfExp) and isinstance(n.test, ast.Call) and getattr(n.test.func, 'id', '') == 'isinstance'
                and len(n.test.args) == 2 and getattr(n.test.args[1], 'id', '') == 'bytes' and s.isbytes(n.test.args[0])):
            return s.e(n.body)       # the signature table fixes the type: the other branch is never evaluated
        if isinstance(n, ast.IfExp):
            c = s.cond(n.test)
            saved = s.pre
            s.pre = []; a = s.e(n.body); pa = s.pre
            s.pre = []; b = s.e(n.orelse); pb = s.pre
            s.pre = saved
            if not pa and not pb: return f'(if {c} then {a} else {b})'
            da = '(do ' + ''.join(p + '; ' for p in pa) + f'pure {a})'
            db = '(do ' + ''.join(p + '; ' for p in pb) + f'pure {b})'
            return s.eff(f'(if {c} then {da} else {db})')
        if isinstance(n, ast.UnaryOp) and isinstance(n.op, ast.USub):
            return f'(- {s.e(n.operand)})'
        if isinstance(n, ast.UnaryOp) and isinstance(n.op, ast.Invert):
            return f'(Py.lnot {s.e(n.operand)})'
        if (isinstance(n, ast.BinOp) and isinstance(n.op, ast.Mult) and isinstance(n.left, ast.Constant) and isinstance(n.left.value, int)
                and n.left.value % 2 == 0 and isinstance(n.right, ast.Constant) and n.right.value == '0'):
            return f'(Py.bytesRepeat [0x00] ({n.left.value // 2} : Int))'       # an even number of "0" hex digits
        if (isinstance(n, ast.BinOp) and isinstance(n.op, ast.Pow) and isinstance(n.right, ast.Constant) and isinstance(n.right.value, int)
                and not isinstance(n.right.value, bool) and 0 <= n.right.value <= 16 and not s.isbytes(n.left)):
            return f'({s.e(n.left)} ^ ({n.right.value} : Nat))'          # int ** small literal
        if isinstance(n, ast.BinOp):
            a, b = s.e(n.left), s.e(n.right)
            op = {ast.Add: '+', ast.Sub: '-', ast.Mult: '*', ast.FloorDiv: '/', ast.Mod: '%'}.get(type(n.op))
            if (op == '*' and isinstance(n.left, ast.Constant) and isinstance(n.left.value, int) and n.left.value % 2 == 0
                    and isinstance(n.right, ast.Constant) and n.right.value == '0'):
                return f'(Py.bytesRepeat [0x00] ({n.left.value // 2} : Int))'       # an even number of "0" hex digits
            if op == '*' and isinstance(n.left, ast.Constant) and isinstance(n.left.value, bytes):
                return f'(Py.bytesRepeat {a} {b})'
            if op == '+' and (s.isbytes(n.left) or s.isbytes(n.right)): return f'({a} ++ {b})'
            if op: return f'({a} {op} {b})'
            if isinstance(n.op, ast.LShift): return s.eff(f'Py.shl {a} {b}')
            if isinstance(n.op, ast.RShift): return s.eff(f'Py.shr {a} {b}')
            if isinstance(n.op, ast.BitAnd): return f'(Py.land {a} {b})'
            if isinstance(n.op, ast.BitOr): return f'(Py.lor {a} {b})'
            if isinstance(n.op, ast.BitXor): return f'(Py.lxor {a} {b})'
            s.fail(n, 'binop')
        if isinstance(n, ast.Compare) and len(n.ops) == 2 and all(isinstance(o, (ast.Lt, ast.LtE)) for o in n.ops):
            # a <= b <= c (b is a variable or constant here: evaluated once either way)
            a, b, c = s.e(n.left), s.e(n.comparators[0]), s.e(n.comparators[1])
            sym = {ast.Lt: '<', ast.LtE: '≤'}
            return f'((decide ({a} {sym[type(n.ops[0])]} {b})) && (decide ({b} {sym[type(n.ops[1])]} {c})))'
        if (isinstance(n, ast.Compare) and len(n.ops) == 1 and isinstance(n.ops[0], ast.In) and isinstance(n.left, ast.Name)
                and n.left.id in s.tokvars and isinstance(n.comparators[0], ast.Name) and n.comparators[0].id == 'OP_CODES'):
            return f'(Py.tokInTable OPS {n.left.id})'
        if (isinstance(n, ast.Compare) and len(n.ops) == 1 and isinstance(n.ops[0], ast.In) and isinstance(n.comparators[0], ast.Name)
                and n.comparators[0].id == 'CODE_OPS' and 'CODEOPS' in s.revtables):
            return f'(Py.inTableB CODEOPS {s.e(n.left)})'
        if (isinstance(n, ast.Compare) and len(n.ops) == 1 and isinstance(n.ops[0], (ast.Eq, ast.NotEq)) and s.name in PARSERS
                and isinstance(n.left, ast.Call) and isinstance(n.left.func, ast.Attribute) and n.left.func.attr == 'hex'
                and not n.left.args and s.isbytes(n.left.func.value)):
            # <bytes>.hex() == <lower-case hex literal, possibly repeated>: hex() is injective, so this compares the data
            r = n.comparators[0]; lit = None
            if isinstance(r, ast.Constant) and isinstance(r.value, str): lit = r.value
            if (isinstance(r, ast.BinOp) and isinstance(r.op, ast.Mult) and isinstance(r.left, ast.Constant) and isinstance(r.left.value, str)
                    and isinstance(r.right, ast.Constant) and isinstance(r.right.value, int) and not isinstance(r.right.value, bool)):
                lit = r.left.value * r.right.value
            if lit is None or not _re.fullmatch(r'([0-9a-f]{2})*', lit): s.fail(n, 'comparison of hex() with a non-literal')
            op = '==' if isinstance(n.ops[0], ast.Eq) else '!='
            return f'({s.e(n.left.func.value)} {op} ({blit(bytes.fromhex(lit))} : Bytes))'
        if isinstance(n, ast.Compare) and len(n.ops) == 1:
            a, b = s.e(n.left), s.e(n.comparators[0])
            if isinstance(n.ops[0], ast.Lt) and s.isbytes(n.left) and s.isbytes(n.comparators[0]):
                return f'(Py.bytesLt {a} {b})'                   # Python compares bytes lexicographically
            op = {ast.Lt: '<', ast.LtE: '≤', ast.Gt: '>', ast.GtE: '≥', ast.Eq: '==', ast.NotEq: '!='}.get(type(n.ops[0]))
            if isinstance(n.ops[0], ast.Is) and b == 'none' and s.ispoint(n.left): return f'(Option.isNone {a})'
            if isinstance(n.ops[0], ast.IsNot) and b == 'none' and s.ispoint(n.left): return f'(Option.isSome {a})'
            if isinstance(n.ops[0], ast.IsNot) and b == 'none': return 'true'
            if op in ('==', '!='): return f'({a} {op} {b})'
            if op: return f'(decide ({a} {op} {b}))'
            s.fail(n, 'compare')
        if isinstance(n, ast.BoolOp):
            # Python evaluates operands left to right and stops early: an operand with effects (something that can
            # raise) is only evaluated when the operands before it did not decide the result
            isand = isinstance(n.op, ast.And)
            j = ' && ' if isand else ' || '
            acc = None
            for v in n.values:
                saved = s.pre; s.pre = []
                c = s.cond(v); pv = s.pre; s.pre = saved
                if acc is None:
                    s.pre += pv; acc = c
                elif not pv:
                    acc = f'({acc}{j}{c})'
                else:
                    rhs = '(do ' + ''.join(p + '; ' for p in pv) + f'pure {c})'
                    acc = s.eff(f'(if {acc} then {rhs} else pure false)' if isand
                                else f'(if {acc} then pure true else {rhs})')
            return acc if acc.startswith('(') or acc.startswith('t') else f'({acc})'
        if isinstance(n, ast.UnaryOp) and isinstance(n.op, ast.Not): return f'(!{s.cond(n.operand)})'
        if (isinstance(n, ast.Subscript) and isinstance(n.value, ast.Attribute) and n.value.attr == 'script'
                and isinstance(n.value.value, ast.Attribute) and isinstance(n.value.value.value, ast.Name) and n.value.value.value.id == 'self'
                and 'self_' + n.value.value.attr in s.toklists and isinstance(n.slice, ast.Constant) and isinstance(n.slice.value, int)):
            # self.script_sig.script[k] as hex data (it only flows into h_to_b)
            t = s.eff(f'Py.tokIndex self_{n.value.value.attr} ({n.slice.value} : Int)')
            return s.eff(f'Py.tokData {t}')
        if (isinstance(n, ast.Subscript) and isinstance(n.value, ast.Attribute) and isinstance(n.value.value, ast.Name)
                and n.value.value.id == 'self' and 'self_' + n.value.attr in s.reclists and not isinstance(n.slice, ast.Slice)):
            return s.eff(f'Py.listGet self_{n.value.attr} {s.e(n.slice)}')
        if isinstance(n, ast.Subscript) and isinstance(n.value, ast.Name) and n.value.id in s.mutlists and not isinstance(n.slice, ast.Slice):
            return s.eff(f'Py.listGet {n.value.id} {s.e(n.slice)}')
        if isinstance(n, ast.Subscript) and isinstance(n.value, ast.Name) and n.value.id == 'OP_CODES' and 'OPS' in s.optables:
            k = n.slice
            if isinstance(k, ast.Name) and k.id in s.tokvars: return s.eff(f'Py.tokLookup OPS {k.id}')
            if (isinstance(k, ast.BinOp) and isinstance(k.op, ast.Add) and isinstance(k.left, ast.Constant) and isinstance(k.left.value, str)
                    and isinstance(k.right, ast.Call) and getattr(k.right.func, 'id', '') == 'str' and len(k.right.args) == 1):
                return s.eff(f'Py.lookupS OPS ({lean_str(k.left.value)} ++ Py.strInt {s.e(k.right.args[0])})')
            s.fail(n, 'OP_CODES key')
        if isinstance(n, ast.Subscript) and s.is_unpack_from(n.value) and isinstance(n.slice, ast.Constant) and isinstance(n.slice.value, int):
            parts, _ = s.unpack_from(n.value)
            if not 0 <= n.slice.value < len(parts): s.fail(n, 'unpack_from index')
            return parts[n.slice.value]
        if isinstance(n, ast.Subscript):
            v = s.e(n.value)
            if isinstance(n.slice, ast.Slice):
                if n.slice.step is not None:
                    st = n.slice.step
                    if (isinstance(st, ast.UnaryOp) and isinstance(st.op, ast.USub) and isinstance(st.operand, ast.Constant)
                            and st.operand.value == 1 and n.slice.lower is None and n.slice.upper is None):
                        return f'(List.reverse {v})'
                    s.fail(n, 'slice step')
                lo = s.e(n.slice.lower) if n.slice.lower else '(0 : Int)'
                hi = s.e(n.slice.upper) if n.slice.upper else 'Py.slEnd'
                return f'(Py.slice {v} {lo} {hi})'
            if isinstance(n.value, ast.Call) and isinstance(n.slice, ast.Constant) and n.slice.value == 0:
                return v     # struct.unpack(...)[0]
            if isinstance(n.value, ast.Name) and (n.value.id in s.intlists or
                                                   (n.value.id not in s.declared and s.fconsts.get(n.value.id, '').startswith('(['))):
                return s.eff(f'Py.indexL {v} {s.e(n.slice)}')
            return s.eff(f'Py.index {v} {s.e(n.slice)}')
        if isinstance(n, ast.Tuple): return '(' + ', '.join(s.e(x) for x in n.elts) + ')'
        if isinstance(n, ast.Call): return s.call(n)
        s.fail(n, 'expr')

    def iter(s, n):
        """the iterable of a for loop / comprehension as a Lean list"""
        if isinstance(n, ast.Call) and isinstance(n.func, ast.Name) and n.func.id == 'range' and len(n.args) == 1:
            return f'(Py.range {s.e(n.args[0])})'
        if isinstance(n, ast.Attribute) and isinstance(n.value, ast.Name) and n.value.id == 'self' and \
                ('self_' + n.attr in s.toklists or 'self_' + n.attr in s.byteslists or 'self_' + n.attr in s.reclists):
            return 'self_' + n.attr
        if isinstance(n, ast.Name) and (n.id in s.intlists or n.id in s.bytesvars or n.id in s.charlists or n.id in s.scriptlists):
            if n.id in s.bytesvars: s.fail(n, 'iteration over bytes')
            return n.id
        s.fail(n, 'iterable')

    def rational(s, n):
        """`a + b / k` or `b / k` with int operands and a positive power-of-two literal k -> (numerator, denominator) as Lean terms"""
        def isdiv(x):
            return (isinstance(x, ast.BinOp) and isinstance(x.op, ast.Div) and isinstance(x.right, ast.Constant)
                    and isinstance(x.right.value, int) and not isinstance(x.right.value, bool) and x.right.value > 0
                    and x.right.value & (x.right.value - 1) == 0)
        if isdiv(n): return (s.e(n.left), f'({n.right.value} : Int)')
        if isinstance(n, ast.BinOp) and isinstance(n.op, ast.Add) and isdiv(n.right) and not s.isbytes(n.left):
            k = n.right.right.value
            return (f'({s.e(n.left)} * ({k} : Int) + {s.e(n.right.left)})', f'({k} : Int)')
        return None

    def fmt_items(s, n, fmt):
        """'<32sI' -> [('s', 32), ('I', 4)]; the format must be little-endian, or consist of `s` items only (no alignment either way)"""
        body = fmt[1:] if fmt[:1] == '<' else fmt
        items = _re.findall(r'(\d*)([a-zA-Z?])', body)
        if ''.join(c + k for c, k in items) != body: s.fail(n, f'struct format {fmt!r}')
        out = []
        for c, k in items:
            if k == 's': out.append(('s', int(c) if c else 1))
            elif k in FMT_INT and not c: out.append((k, FMT_INT[k]))
            else: s.fail(n, f'struct format item {c}{k}')
        if fmt[:1] != '<' and any(k != 's' for k, _ in out): s.fail(n, f'native-mode struct format {fmt!r}')
        return out

    def fmt_of(s, n):
        """the format argument of a struct call: a literal, a variable bound once to a literal, or f'{n}s'"""
        if isinstance(n, ast.Name) and n.id in s.fmtvars: n = s.fmtvars[n.id]
        elif isinstance(n, ast.Name) and n.id in s.fmtpre and s.hoisting: n = s.fmtpre[n.id]
        if isinstance(n, ast.Constant) and isinstance(n.value, str): return ('const', n.value)
        if (isinstance(n, ast.JoinedStr) and len(n.values) == 2 and isinstance(n.values[0], ast.FormattedValue)
                and n.values[0].conversion == -1 and n.values[0].format_spec is None
                and isinstance(n.values[1], ast.Constant) and n.values[1].value == 's'):
            return ('dyn_s', n.values[0].value)
        return None

    def unpack_from(s, n):
        """struct.unpack_from(fmt, buf, offset) -> (lean tuple expression, kinds)"""
        a = n.args
        exact = n.func.attr == 'unpack'          # struct.unpack: the buffer must have exactly the size of the format
        if (len(a) != (2 if exact else 3)) or n.keywords: s.fail(n, 'unpack_from arguments')
        f = s.fmt_of(a[0])
        if f is None: s.fail(n, 'unpack_from format')
        buf, off = s.e(a[1]), (s.e(a[2]) if not exact else '(0 : Int)')
        if f[0] == 'dyn_s':
            return [s.eff(f'Py.unpackFromS {s.e(f[1])} {buf} {off}')], ['bytes']
        items = s.fmt_items(n, f[1])
        total = sum(z for _, z in items)
        t = s.eff(f'Py.bufExact {buf} {total}' if exact else f'Py.bufAt {buf} {off} {total}')
        parts, kinds, pos = [], [], 0
        for k, z in items:
            sl = f'(List.take {z} (List.drop {pos} {t}))'
            if k == 's': parts.append(sl); kinds.append('bytes')
            else: parts.append(f'((Py.ofLE {sl} : Nat) : Int)'); kinds.append('int')
            pos += z
        return parts, kinds

    def is_unpack_from(s, n):
        return (isinstance(n, ast.Call) and isinstance(n.func, ast.Attribute) and n.func.attr == 'unpack_from'
                and isinstance(n.func.value, ast.Name) and n.func.value.id == 'struct') or (
                s.name in PARSERS and isinstance(n, ast.Call) and isinstance(n.func, ast.Attribute) and n.func.attr == 'unpack'
                and isinstance(n.func.value, ast.Name) and n.func.value.id == 'struct' and len(n.args) == 2
                and s.fmt_of(n.args[0]) is not None and s.fmt_of(n.args[0])[0] == 'const' and len(s.fmt_items(n, s.fmt_of(n.args[0])[1])) > 1)

    def tuple_kinds(s, v, k):
        """kinds of the components of a tuple-valued right-hand side (for the declaration of tuple targets)"""
        if isinstance(v, ast.Call) and getattr(v.func, 'id', '') == 'traverse_level': return ['bytes', 'bool']
        if s.is_unpack_from(v):
            f = s.fmt_of(v.args[0])
            if f is None: return None
            if f[0] == 'dyn_s': return ['bytes']
            return ['bytes' if kk == 's' else 'int' for kk, _ in s.fmt_items(v, f[1])]
        if (isinstance(v, ast.Call) and isinstance(v.func, ast.Attribute) and v.func.attr == 'from_raw'
                and isinstance(v.func.value, ast.Name) and v.func.value.id in ('TxInput', 'TxOutput')):
            return ['rec:' + REC_CTOR[v.func.value.id][0], 'int']
        return None

    def check_ctor(s, n, cls):
        """positional arguments of a record constructor are in the order of the record's fields"""
        if cls in COPY_FILES:
            params, stored = ctor_map(cls)          # raises Unsupported unless __init__ only stores its parameters
            want = REC_CTOR[cls][1]
            if params[:len(want)] != want: s.fail(n, f'{cls}.__init__ parameters {params} are not {want}')
            if any(stored.get(p_) != p_ for p_ in want): s.fail(n, f'{cls}.__init__ does not store {want} as given')
            return
        for c in s.tree.body:
            if isinstance(c, ast.ClassDef) and c.name == cls:
                for m in c.body:
                    if isinstance(m, ast.FunctionDef) and m.name == '__init__':
                        names = [a.arg for a in m.args.args[1:]]
                        want = REC_CTOR[cls][1]
                        if names[:len(want)] != want: s.fail(n, f'{cls}.__init__ parameters {names} are not {want}')
                        # and stores them under the same names
                        stored = {t.attr for x in ast.walk(m) if isinstance(x, ast.Assign) for t in x.targets
                                  if isinstance(t, ast.Attribute) and isinstance(t.value, ast.Name) and t.value.id == 'self'
                                  and isinstance(x.value, ast.Name) and x.value.id == t.attr}
                        if not set(want) <= stored: s.fail(n, f'{cls}.__init__ does not store {want} as given')
                        return
        s.fail(n, f'class {cls} not found')

    def check_subclass_ctor(s, cls, params, base='Address', fixed=(), extra=()):
        """`cls.__init__(self, p1=None, …)` only forwards its parameters to the base constructor under the same names; the parameters in
        `fixed` are replaced by a module constant (returned by name)"""
        for c in s.tree.body:
            if isinstance(c, ast.ClassDef) and c.name == cls:
                for m in c.body:
                    if isinstance(m, ast.FunctionDef) and m.name == '__init__':
                        names = [a.arg for a in m.args.args[1:]]
                        body = [st for st in m.body if not (isinstance(st, ast.Expr) and isinstance(st.value, ast.Constant))]
                        dflt = dict(zip(names[len(names) - len(m.args.defaults):], m.args.defaults))
                        stores = {}
                        while body and isinstance(body[0], ast.Assign) and len(body[0].targets) == 1 and isinstance(body[0].targets[0], ast.Attribute) \
                                and getattr(body[0].targets[0].value, 'id', '') == 'self' and isinstance(body[0].value, ast.Name) \
                                and body[0].value.id in extra:
                            stores[body[0].targets[0].attr] = body[0].value.id; body = body[1:]
                        if sorted(stores.values()) != sorted(extra): s.fail(m, f'{cls}.__init__ does not store {list(extra)} as given')
                        names = [n_ for n_ in names if n_ not in extra]
                        ok = (names == params and all((p_ in fixed) or (isinstance(dflt.get(p_), ast.Constant) and dflt[p_].value is None) for p_ in params)
                              and len(body) == 1 and isinstance(body[0], ast.Expr) and isinstance(body[0].value, ast.Call))
                        consts = {}
                        if ok:
                            c_ = body[0].value
                            ok = (isinstance(c_.func, ast.Attribute) and c_.func.attr == '__init__' and isinstance(c_.func.value, ast.Call)
                                  and getattr(c_.func.value.func, 'id', '') == 'super' and not c_.func.value.args and not c_.args
                                  and sorted(k.arg for k in c_.keywords) == sorted(params))
                            for k in (c_.keywords if ok else []):
                                if k.arg in fixed:
                                    if isinstance(k.value, ast.Name) and k.value.id in CONST_STRS: consts[k.arg] = k.value.id
                                    else: ok = False
                                elif not (isinstance(k.value, ast.Name) and k.value.id == k.arg): ok = False
                        if not ok: s.fail(m, f'{cls}.__init__ does more than forward {params} to the base constructor')
                        if [b_.id for b_ in c.bases if isinstance(b_, ast.Name)] != [base]: s.fail(c, f'{cls} base class')
                        return consts
        s.fail(s.fnode, f'class {cls} not found')

    def recsub(s, n):
        """`self.<record list>[i]` -> the name of the record-list parameter"""
        if (isinstance(n, ast.Subscript) and isinstance(n.value, ast.Attribute) and isinstance(n.value.value, ast.Name)
                and n.value.value.id == 'self' and 'self_' + n.value.attr in s.reclists and not isinstance(n.slice, ast.Slice)):
            return 'self_' + n.value.attr
        if (isinstance(n, ast.Subscript) and isinstance(n.value, ast.Name) and n.value.id in s.mutlists and not isinstance(n.slice, ast.Slice)):
            return n.value.id
        return None

    def ispoint(s, n):
        if isinstance(n, ast.Name): return n.id in s.points or (n.id not in s.declared and s.fconsts.get(n.id, '').startswith('(some'))
        if isinstance(n, ast.Call) and isinstance(n.func, ast.Name): return n.func.id in POINT_RET
        return False

    def isbool(s, n):
        if (s.name in ('pubkey_to_taproot_hex', 'pubkey_get_taproot_address') and isinstance(n, ast.Subscript) and isinstance(n.value, ast.Name) and n.value.id in s.pairvars
                and isinstance(n.slice, ast.Constant) and n.slice.value == 1): return True        # (bytes, bool)[1]
        return (isinstance(n, (ast.Compare, ast.BoolOp)) or (isinstance(n, ast.UnaryOp) and isinstance(n.op, ast.Not))
                or (isinstance(n, ast.Constant) and isinstance(n.value, bool)))

    def kind(s, n):
        """'bytes' | 'ints' | 'chars' | None for the value of an expression"""
        if isinstance(n, ast.Constant): return 'bytes' if isinstance(n.value, bytes) else None
        if isinstance(n, (ast.List, ast.ListComp)): return 'ints'
        if isinstance(n, ast.Attribute) and isinstance(n.value, ast.Name) and n.value.id == 'self' and 'self_' + n.attr in s.bytesvars: return 'bytes'
        if isinstance(n, ast.Name):
            if n.id in s.intlists: return 'ints'
            if n.id in s.charlists: return 'chars'
            if n.id in s.bytesvars: return 'bytes'
            if n.id not in s.declared and CONSTS.get(n.id, '').startswith('['): return 'bytes'
            return None
        if isinstance(n, ast.BinOp) and isinstance(n.op, ast.Add): return s.kind(n.left) or s.kind(n.right)
        if isinstance(n, ast.BinOp) and isinstance(n.op, ast.Mult) and isinstance(n.left, ast.Constant) and isinstance(n.left.value, bytes): return 'bytes'
        if isinstance(n, ast.Call):
            f = n.func
            nm = f.attr if isinstance(f, ast.Attribute) else getattr(f, 'id', '')
            if nm in LIST_RET: return 'ints'
            return 'bytes' if s.isbytes(n) else None
        if isinstance(n, ast.Subscript) and isinstance(n.slice, ast.Slice): return s.kind(n.value)
        if isinstance(n, ast.Subscript) and s.is_unpack_from(n.value): return 'bytes' if s.isbytes(n) else None
        if s.name in ('pubkey_to_taproot_hex', 'pubkey_get_taproot_address') and isinstance(n, ast.Subscript) and s.isbytes(n): return 'bytes'
        return None

    def isbytes(s, n):
        """is the value a sequence (bytes or list), i.e. does `+` mean concatenation"""
        if (s.name in ('pubkey_to_taproot_hex', 'pubkey_get_taproot_address') and isinstance(n, ast.Subscript) and isinstance(n.value, ast.Name) and n.value.id in s.pairvars
                and isinstance(n.slice, ast.Constant) and n.slice.value == 0): return True        # (bytes, bool)[0]
        if s.name in ('pubkey_to_taproot_hex', 'pubkey_get_taproot_address') and isinstance(n, ast.Subscript) and isinstance(n.slice, ast.Slice): return s.isbytes(n.value)
        if isinstance(n, ast.Constant): return isinstance(n.value, bytes)
        if isinstance(n, (ast.List, ast.ListComp)): return True
        if isinstance(n, ast.Attribute) and isinstance(n.value, ast.Name) and n.value.id == 'self': return 'self_' + n.attr in s.bytesvars
        if isinstance(n, ast.Name):
            return (n.id in s.bytesvars or n.id in s.intlists or n.id in s.charlists
                    or (n.id not in s.declared and CONSTS.get(n.id, '').startswith('[')))
        if isinstance(n, ast.BinOp) and isinstance(n.op, ast.Add): return s.isbytes(n.left) or s.isbytes(n.right)
        if isinstance(n, ast.BinOp) and isinstance(n.op, ast.Mult): return isinstance(n.left, ast.Constant) and isinstance(n.left.value, bytes)
        if isinstance(n, ast.Call):
            f = n.func
            nm = f.attr if isinstance(f, ast.Attribute) else getattr(f, 'id', '')
            if nm == 'hex' and s.name in PARSERS and isinstance(f, ast.Attribute): return s.isbytes(f.value)
            if nm == 'full_pubkey_gen' and s.name in TWEAKFUNS: return True
            if s.name in PUBFUNS and nm in ('to_string', 'to_hex', '_to_hash160'): return True
            if s.name in WRAPFUNS and (nm in TX_METHODS or nm in SELF_SIGNERS): return True
            if s.name in MSGFUNS and nm in ('add_magic_prefix', 'b64decode'): return True
            if s.name == 'sign_input' and nm in ('sign_digest_deterministic', 'sigencode_der'): return True
            if s.name in ('from_wif', 'to_wif', 'is_address_valid', 'address_to_hash160') and nm in ('b58decode',): return True
            if s.name == 'to_wif' and nm == 'to_bytes' and isinstance(f, ast.Attribute) and getattr(f.value, 'id', '') == 'self': return True
            if s.name in TREEFUNS and nm in ('get_tag_hashed_merkle_root', 'tapleaf_tagged_hash', 'tapbranch_tagged_hash', 'tagged_hash',
                                             'tweak_taproot_privkey', 'schnorr_sign', 'to_string'): return True
            return nm in ('to_bytes', 'pack', 'bytes', 'encode_varint', 'h_to_b', 'b_to_h', '_op_push_data',
                          'prepend_compact_size', 'digest', 'encode', 'ripemd160') or nm in LIST_RET or nm in SCH_BYTES
        if isinstance(n, ast.Subscript) and s.is_unpack_from(n.value) and isinstance(n.slice, ast.Constant):
            k = s.tuple_kinds(n.value, 0)
            return bool(k) and isinstance(n.slice.value, int) and 0 <= n.slice.value < len(k) and k[n.slice.value] == 'bytes'
        if isinstance(n, ast.Subscript): return isinstance(n.slice, ast.Slice) and s.isbytes(n.value)
        return False

    def cond(s, n):
        if s.name == 'address_init_address' and isinstance(n, ast.Name) and n.id == 'address': return '(!(String.isEmpty address))'
        if s.name == 'address_init_address' and isinstance(n, ast.Call) and getattr(n.func, 'id', '') == '_is_address_valid': return s.e(n)
        if s.name == 'segwit_init' and isinstance(n, ast.Name) and n.id in ('address', 'witness_program'):
            return f'(match {n.id} with | some v_ => !(List.isEmpty v_) | none => false)'        # truthiness of None / a str
        t = s.e(n)
        if isinstance(n, (ast.Compare, ast.BoolOp)) or (isinstance(n, ast.UnaryOp) and isinstance(n.op, ast.Not)):
            return t
        if isinstance(n, ast.Constant) and isinstance(n.value, bool): return t
        if s.name in STRFUNS and isinstance(n, ast.Call) and isinstance(n.func, ast.Name) and n.func.id in ('any', 'all'): return t
        if isinstance(n, ast.Call) and isinstance(n.func, ast.Name) and n.func.id in ('isinstance', 'is_infinite', 'has_even_y', 'schnorr_verify', '_is_hash160_valid'): return t
        if t.startswith('(Py.tokInTable') or t.startswith('(Py.inTableB') or t.startswith('(Py.bytesLt') or t.startswith('(Py.strStartswith') or t.startswith('(List.any (String.toList'): return t
        if isinstance(n, ast.Name) and n.id in s.boolvars: return t
        if isinstance(n, ast.Attribute) and 'self_' + n.attr in s.boolvars: return t
        if s.isbytes(n): return f'(!({t}).isEmpty)'
        return f'({t} != 0)'       # Python truthiness of ints

    def call(s, n):
        f = n.func; args = [*n.args]; kw = {k.arg: k.value for k in n.keywords}
        if isinstance(f, ast.Name):
            if f.id in IDENT: return s.e(args[0])
            if f.id in ('x', 'y') and f.id not in s.declared and len(args) == 1 and s.ispoint(args[0]) and 'p' in s.fconsts:
                # schnorr.py's accessors: `assert not is_infinite(P); return P[0]` / `P[1]`
                return s.eff(f'Py.pt{f.id.upper()} {s.e(args[0])}')
            if f.id == 'is_infinite' and len(args) == 1 and s.ispoint(args[0]): return f'(Option.isNone {s.e(args[0])})'
            if f.id == 'pow' and len(args) == 3: return s.eff(f'Py.powMod {s.e(args[0])} {s.e(args[1])} {s.e(args[2])}')
            if f.id == 'tagged_hash' and s.name in STR_UTF8 and 'hashlib_sha256' in s.params and len(args) == 2:
                return s.eff(f'utils_tagged_hash hashlib_sha256 {s.e(args[0])} {s.e(args[1])}')
            if f.id in SCH_CALLS and 'p' in s.fconsts:
                nm, sha = SCH_CALLS[f.id]
                return s.eff(f'{nm} ' + ('hashlib_sha256 ' if sha else '') + ' '.join(s.e(a) for a in args))
            if f.id == 'bytes' and len(args) == 1 and isinstance(args[0], ast.GeneratorExp) and 'p' in s.fconsts:
                g = args[0]
                # bytes(x ^ y for (x, y) in zip(b0, b1))
                if (len(g.generators) == 1 and isinstance(g.generators[0].iter, ast.Call) and getattr(g.generators[0].iter.func, 'id', '') == 'zip'
                        and isinstance(g.elt, ast.BinOp) and isinstance(g.elt.op, ast.BitXor) and len(g.generators[0].iter.args) == 2):
                    za, zb = g.generators[0].iter.args
                    return f'(Py.xorBytes {s.e(za)} {s.e(zb)})'
                s.fail(n, 'bytes(generator)')
            if f.id in POINT_RET and 'p' in s.fconsts: return s.eff(f'{POINT_RET[f.id]} ' + ' '.join(s.e(a) for a in args))
            if f.id == 'Script' and len(args) == 1 and not kw and isinstance(args[0], ast.List) and not args[0].elts:
                return '([] : List Py.PyTok)'
            if (f.id == 'Script' and s.name in PARSERS and len(args) == 1 and not kw and isinstance(args[0], ast.List)
                    and all(isinstance(x, ast.Call) and isinstance(x.func, ast.Attribute) and x.func.attr == 'hex' and not x.args
                            and s.isbytes(x.func.value) for x in args[0].elts)):
                return '[' + ', '.join(f'Py.PyTok.data {s.e(x.func.value)}' for x in args[0].elts) + ']'       # Script([data.hex()])
            if f.id in REC_CTOR and s.name in PARSERS and not args and set(kw) == set(REC_CTOR[f.id][1]):
                s.check_ctor(n, f.id)
                return '(⟨' + ', '.join(s.e(kw[x]) for x in REC_CTOR[f.id][1]) + f'⟩ : {REC_CTOR[f.id][0]})'
            if f.id in REC_CTOR and (s.mutcopy is not None or s.name == 'block_from_raw') and not kw and len(args) == len(REC_CTOR[f.id][1]):
                s.check_ctor(n, f.id)
                return f'(⟨' + ', '.join(s.e(a) for a in args) + f'⟩ : {REC_CTOR[f.id][0]})'
            if f.id == 'len' and isinstance(args[0], ast.Name) and args[0].id in s.mutlists:
                return f'((List.length {args[0].id} : Nat) : Int)'
            if f.id == 'len':
                a0 = args[0]
                if isinstance(a0, ast.Attribute) and isinstance(a0.value, ast.Name) and (
                        (a0.value.id == 'self' and ('self_' + a0.attr in s.reclists or 'self_' + a0.attr in s.byteslists))
                        or (a0.value.id in s.recvars and a0.attr == 'stack')):
                    return f'((List.length {s.e(a0)} : Nat) : Int)'
                if s.kind(args[0]) in ('ints', 'chars'): return f'((List.length {s.e(args[0])} : Nat) : Int)'
                return f'(Py.len {s.e(args[0])})'
            if f.id == 'ord' and len(args) == 1: return f'(Py.ord {s.e(args[0])})'
            if f.id == 'int' and len(args) == 1: return s.e(args[0])
            if f.id == 'bytes' and isinstance(args[0], ast.List):
                return s.eff('Py.bytesOfInts [' + ', '.join(s.e(x) for x in args[0].elts) + ']')
            if f.id == 'compress' and 'ML' in s.fconsts and len(args) == 2 and isinstance(args[0], ast.Starred) \
                    and isinstance(args[0].value, ast.Name) and args[0].value.id in s.tuple5:
                t = args[0].value.id
                comps = f'{t}.1 {t}.2.1 {t}.2.2.1 {t}.2.2.2.1 {t}.2.2.2.2'
                return s.eff(f'rmd_compress {comps} {s.e(args[1])}')
            if s.name == 'address_init_address' and len(args) == 1 and not kw and isinstance(args[0], ast.Name) and args[0].id == 'address':
                if f.id == '_is_address_valid':
                    return s.eff('is_address_valid hashlib_sha256 b58decode self_type p2pkh_prefix p2sh_prefix address')
                if f.id == '_address_to_hash160': return s.eff('address_to_hash160 b58decode address')
            if (f.id == '_script_to_hash160' and s.name == 'address_init_script' and len(args) == 1 and not kw and isinstance(args[0], ast.Name)
                    and args[0].id in s.toklists):       # (self.… inside __init__ is rewritten to a plain name)
                return s.eff(f'address_script_to_hash160 hashlib_sha256 OPS {args[0].id}')
            if f.id in CALLS: return s.eff(f'{CALLS[f.id]} ' + ' '.join(s.e(a) for a in args))
            if f.id == 'isinstance' and len(args) == 2 and isinstance(args[0], ast.Name) and args[0].id in s.tokvars \
                    and isinstance(args[1], ast.Name) and args[1].id == 'int':
                return f'(Py.tokIsInt {args[0].id})'
            if f.id == 'isinstance': return 'true'     # argument types are fixed by the signature table
        if isinstance(f, ast.Attribute) and s.name in PARSERS:
            if f.attr == 'hex' and not args and not kw and s.isbytes(f.value):
                return s.e(f.value)           # bytes.hex(): the hex string that denotes the same data
            if (f.attr == 'from_raw' and isinstance(f.value, ast.Name) and f.value.id == 'Script' and len(args) == 1
                    and set(kw) <= {'has_segwit'} and 'CODEOPS' in s.revtables):
                seg = s.cond(kw['has_segwit']) if 'has_segwit' in kw else 'false'
                return s.eff(f'script_from_raw CODEOPS {s.e(args[0])} {seg}')
            if (f.attr == 'from_raw' and isinstance(f.value, ast.Name) and f.value.id in ('TxInput', 'TxOutput') and len(args) == 3
                    and not kw and 'CODEOPS' in s.revtables):
                fn_ = 'txinput_from_raw' if f.value.id == 'TxInput' else 'txoutput_from_raw'
                return s.eff(f'{fn_} CODEOPS {s.e(args[0])} {s.e(args[1])} {s.cond(args[2])}')
            if (f.attr == 'from_raw' and isinstance(f.value, ast.Name) and f.value.id == 'BlockHeader' and len(args) == 1 and not kw
                    and s.name == 'block_from_raw' and s.isbytes(args[0])):
                return s.eff(f'blockheader_from_raw {s.e(args[0])}')
            if (f.attr == 'from_raw' and isinstance(f.value, ast.Name) and f.value.id == 'Transaction' and len(args) == 1 and not kw
                    and s.name == 'block_from_raw' and 'CODEOPS' in s.revtables and isinstance(args[0], ast.Call)
                    and isinstance(args[0].func, ast.Attribute) and args[0].func.attr == 'hex' and not args[0].args
                    and s.isbytes(args[0].func.value)):
                return s.eff(f'transaction_from_raw CODEOPS {s.e(args[0].func.value)}')       # the hex string denotes the same bytes
            if f.attr == 'calcsize' and isinstance(f.value, ast.Name) and f.value.id == 'struct' and len(args) == 1:
                fm = s.fmt_of(args[0])
                if fm is None or fm[0] != 'const': s.fail(n, 'calcsize format')
                return f'({sum(z for _, z in s.fmt_items(n, fm[1]))} : Int)'
        if isinstance(f, ast.Attribute):
            if (f.attr == 'digest' and not args and isinstance(f.value, ast.Call) and isinstance(f.value.func, ast.Attribute)
                    and f.value.func.attr == 'sha256' and isinstance(f.value.func.value, ast.Name) and f.value.func.value.id == 'hashlib'
                    and len(f.value.args) == 1 and 'hashlib_sha256' in s.params):
                return f'(hashlib_sha256 {s.e(f.value.args[0])})'
            if f.attr == 'encode' and not args and isinstance(f.value, ast.Name) and f.value.id in s.bytesvars:
                return f.value.id       # str.encode() of a str modelled by its UTF-8 bytes
            if (f.attr == 'join' and isinstance(f.value, ast.Constant) and f.value.value == b'' and len(args) == 1
                    and isinstance(args[0], ast.GeneratorExp) and len(args[0].generators) == 1
                    and isinstance(args[0].generators[0].iter, ast.Name) and args[0].generators[0].iter.id in s.tuple5
                    and isinstance(args[0].generators[0].target, ast.Name) and not args[0].generators[0].ifs):
                # b"".join(f(h) for h in <5-tuple>): the five values in order
                g = args[0].generators[0]; t = g.iter.id; v = g.target.id
                parts = []
                for comp in ('.1', '.2.1', '.2.2.1', '.2.2.2.1', '.2.2.2.2'):
                    class Sub(ast.NodeTransformer):
                        def visit_Name(self, n):
                            return ast.copy_location(ast.Name(id=f'{t}{comp}', ctx=ast.Load()), n) if n.id == v else n
                    import copy
                    parts.append(s.e(Sub().visit(copy.deepcopy(args[0].elt))))
                return '(' + ' ++ '.join(parts) + ')'
            if (f.attr == 'to_bytes' and s.mutcopy is not None and isinstance(f.value, ast.Name) and f.value.id == s.mutcopy[0]
                    and len(args) == 1 and not kw):
                tmp, rf = s.mutcopy
                fld = lambda x: f'{tmp}__{x}' if x in rf else f'self_{x}'
                for x in ('version', 'inputs', 'outputs', 'witnesses', 'locktime'):
                    if fld(x) not in s.declared: s.fail(n, f'to_bytes of the copy needs field {x}')
                return s.eff(f'transaction_to_bytes OPS {fld("version")} {fld("inputs")} {fld("outputs")} {fld("witnesses")} '
                             f'{fld("locktime")} {s.cond(args[0])}')
            if f.attr == 'to_bytes' and not args and isinstance(f.value, ast.Attribute) and isinstance(f.value.value, ast.Name) \
                    and f.value.value.id == 'self' and 'self_' + f.value.attr in s.toklists:
                return s.eff(f'script_to_bytes OPS self_{f.value.attr}')            # self.script_sig.to_bytes()
            if f.attr == 'to_bytes' and not args and isinstance(f.value, ast.Name) and f.value.id == 'self' and 'self_script' in s.toklists:
                return s.eff('script_to_bytes OPS self_script')                       # self.to_bytes() inside a Script method
            if (f.attr == 'to_bytes' and not args and isinstance(f.value, ast.Subscript) and isinstance(f.value.value, ast.Name)
                    and f.value.value.id in s.scriptlists and not isinstance(f.value.slice, ast.Slice) and 'OPS' in s.optables):
                sc = s.eff(f'Py.listGet {f.value.value.id} {s.e(f.value.slice)}')      # script_pubkeys[i].to_bytes()
                return s.eff(f'script_to_bytes OPS {sc}')
            if f.attr == 'to_bytes' and not args and isinstance(f.value, ast.Name) and f.value.id in s.toklists and 'OPS' in s.optables:
                return s.eff(f'script_to_bytes OPS {f.value.id}')                  # script.to_bytes() on a Script argument
            if f.attr == 'encode' and isinstance(f.value, ast.Name) and f.value.id in s.bytesvars and len(args) <= 1:
                return f.value.id       # str.encode("utf-8") of a str modelled by its UTF-8 bytes
            if (f.attr == 'to_bytes' and not args and isinstance(f.value, ast.Attribute) and isinstance(f.value.value, ast.Name)
                    and f.value.value.id in s.recvars and f.value.attr in TOK_FIELDS and f.value.attr in s.recvars[f.value.value.id][2]):
                return s.eff(f'script_to_bytes OPS {f.value.value.id}.{f.value.attr}')     # txout.script_pubkey.to_bytes()
            if f.attr == 'to_bytes' and not args and isinstance(f.value, ast.Name) and f.value.id in s.recvars:
                fn_, ops, fields = s.recvars[f.value.id]
                return s.eff(f'{fn_} ' + ('OPS ' if ops else '') + ' '.join(f'{f.value.id}.{x}' for x in fields))
            if (isinstance(f.value, ast.Name) and f.value.id == 'self' and f.attr == '_op_push_data' and len(args) == 1
                    and isinstance(args[0], ast.Name) and args[0].id in s.tokvars):
                d = s.eff(f'Py.tokData {args[0].id}')        # h_to_b(token): raises for a string that is not hex
                return s.eff(f'op_push_data {d}')
            if (isinstance(f.value, ast.Name) and f.value.id == 'self' and f.attr == 'to_bytes' and len(args) == 1 and not kw
                    and all(x in s.params for x in ('OPS', 'self_version', 'self_inputs', 'self_outputs', 'self_witnesses', 'self_locktime'))):
                return s.eff(f'transaction_to_bytes OPS self_version self_inputs self_outputs self_witnesses self_locktime {s.cond(args[0])}')
            if isinstance(f.value, ast.Name) and f.value.id == 'self' and f.attr in SELF_CALLS and not args and not kw:
                callee = SELF_CALLS[f.attr]
                need = [p_ for p_, _ in SIG[callee][2]]
                if not all(p_ in s.params for p_ in need): s.fail(n, f'self.{f.attr}(): missing parameters')
                return s.eff(f'{callee} ' + ' '.join(need))
            if (isinstance(f.value, ast.Name) and f.value.id == 'math' and f.attr == 'ceil' and len(args) == 1
                    and isinstance(args[0], ast.Name) and args[0].id in s.ratvars):
                nm = args[0].id
                return f'(Py.ceilDiv {nm}_num {nm}_den)'
            if isinstance(f.value, ast.Name) and f.value.id == 'self' and f.attr in CALLS:
                return s.eff(f'{CALLS[f.attr]} ' + ' '.join(s.e(a) for a in args))
            if f.attr == 'to_bytes':
                order = kw.get('byteorder', args[1] if len(args) > 1 else None)
                if not isinstance(order, ast.Constant) or order.value not in ('little', 'big'): s.fail(n, 'to_bytes order')
                return s.eff(f'Py.toBytes {s.e(f.value)} {s.e(args[0])} Py.Order.{order.value}')
            if f.attr == 'from_bytes':
                order = kw.get('byteorder', args[1] if len(args) > 1 else None)
                if not isinstance(order, ast.Constant) or order.value not in ('little', 'big'): s.fail(n, 'from_bytes order')
                return f'(Py.fromBytes {s.e(args[0])} Py.Order.{order.value})'
            if f.attr == 'bit_length': return f'(Py.bitLength {s.e(f.value)})'
            if isinstance(f.value, ast.Name) and f.value.id == 'struct' and f.attr == 'pack' and len(args) == 2 \
                    and isinstance(args[0], ast.Constant):
                return s.eff(f'Py.pack "{args[0].value}" {s.e(args[1])}')
            if isinstance(f.value, ast.Name) and f.value.id == 'struct' and f.attr == 'unpack' and len(args) == 2 \
                    and isinstance(args[0], ast.Constant):
                return s.eff(f'Py.unpack1 "{args[0].value}" {s.e(args[1])}')
        s.fail(n, 'call')

    # ---- statements
    def block(s, stmts, ind):
        out = []
        for st in stmts: out += s.stmt(st, ind)
        return out or [ind + 'pure ()']

    def flush(s, ind):
        r = [ind + p for p in s.pre]; s.pre = []; return r

    def stmt(s, st, ind):
        if s.name in ('privkey_init', 'privkey_from_bytes'):
            def last_in_branch_(stmts):
                if not stmts: return False
                l = stmts[-1]
                if l is st: return True
                if isinstance(l, ast.If): return last_in_branch_(l.body) or last_in_branch_(l.orelse)
                return False
            is_store = (isinstance(st, ast.Assign) and len(st.targets) == 1 and isinstance(st.targets[0], ast.Attribute)
                        and isinstance(st.targets[0].value, ast.Name) and st.targets[0].value.id == 'self' and st.targets[0].attr == 'key')
            is_setter = (isinstance(st, ast.Expr) and isinstance(st.value, ast.Call) and (
                (isinstance(st.value.func, ast.Attribute) and getattr(st.value.func.value, 'id', '') == 'self'
                 and st.value.func.attr in ('_from_wif', '_from_bytes'))
                or (isinstance(st.value.func, ast.Name) and st.value.func.id in ('_from_wif', '_from_bytes'))))   # (self.… inside __init__ is rewritten to a plain name)
            if is_store or is_setter:
                # the constructor's effect is the key it installs (nothing follows on any path — checked)
                if not last_in_branch_(s.fnode.body): s.fail(st, 'the key is installed before the end of the constructor')
                wrap = (lambda v: f'(some {v})') if s.name == 'privkey_init' else (lambda v: v)
                if (is_store and isinstance(st.value, ast.Call) and isinstance(st.value.func, ast.Attribute) and st.value.func.attr == 'generate'
                        and getattr(st.value.func.value, 'id', '') == 'SigningKey' and not st.value.args and s.name == 'privkey_init'):
                    return s.flush(ind) + [f'{ind}return none']          # a fresh random key
                v = s.e(st.value)
                return s.flush(ind) + [f'{ind}return {wrap(v)}']
        if s.name == 'from_wif' and isinstance(st, ast.Assign) and len(st.targets) == 1:
            tg = st.targets[0]
            if isinstance(tg, ast.Attribute) and isinstance(tg.value, ast.Name) and tg.value.id == 'self' and tg.attr == 'key':
                # the method's effect is the key it installs (nothing follows the assignment on either branch — checked)
                body = s.fnode.body
                def last_in_branch(stmts):
                    if not stmts: return False
                    l = stmts[-1]
                    if l is st: return True
                    if isinstance(l, ast.If): return last_in_branch(l.body) or last_in_branch(l.orelse)
                    return False
                if not last_in_branch(body): s.fail(st, 'self.key assigned before the end of the method')
                v = s.e(st.value)
                return s.flush(ind) + [f'{ind}return {v}']
            if isinstance(tg, ast.Name) and tg.id == 'wif_utf':
                v = s.e(st.value); s.declared.add('wif_utf'); s.strvars.add('wif_utf')
                return s.flush(ind) + [f'{ind}let wif_utf := {v}']
        if s.name in ('is_address_valid', 'address_to_hash160') and isinstance(st, ast.Assign) and len(st.targets) == 1 \
                and isinstance(st.targets[0], ast.Name):
            nm = st.targets[0].id
            if isinstance(st.value, ast.Constant) and isinstance(st.value.value, str):
                m_ = _re.fullmatch(r'\[\^([0-9A-Za-z]+)\]', st.value.value)
                if not m_: s.fail(st, 'regular expression other than a negated set of alphanumerics')
                s.revars[nm] = m_.group(1)
                return []
            if (isinstance(st.value, ast.Call) and isinstance(st.value.func, ast.Attribute) and st.value.func.attr == 'encode'
                    and getattr(st.value.func.value, 'id', '') == 'address'):
                s.declared.add(nm); s.strvars.add(nm)
                return [f'{ind}let {nm} := address']
        if s.name in ('to_wif', 'address_to_string') and isinstance(st, ast.Assign) and len(st.targets) == 1 and isinstance(st.targets[0], ast.Name) \
                and isinstance(st.value, ast.Call) and getattr(st.value.func, 'id', '') == 'b58encode':
            nm = st.targets[0].id
            v = s.e(st.value); s.declared.add(nm); s.strvars.add(nm)
            return s.flush(ind) + [f'{ind}let {nm} := {v}']
        if s.name in TREEFUNS:
            if isinstance(st, ast.Nonlocal):
                if st.names != [NONLOCAL_STATE.get(s.name)]: s.fail(st, 'nonlocal')
                return []
            if isinstance(st, ast.FunctionDef) and st.name in NONLOCAL_STATE: return []      # translated on its own
            if s.name in NONLOCAL_STATE and isinstance(st, ast.Return):
                v = s.e(st.value)
                return s.flush(ind) + [f'{ind}return ({v}, {NONLOCAL_STATE[s.name]})']
            if (s.name == 'pubkey_to_taproot_hex' and isinstance(st, ast.Return) and isinstance(st.value, ast.Tuple) and len(st.value.elts) == 2):
                a_, b_ = st.value.elts
                if not (isinstance(a_, ast.Call) and isinstance(a_.func, ast.Attribute) and a_.func.attr == 'hex' and not a_.args
                        and s.isbytes(a_.func.value)): s.fail(st, 'first component is not <bytes>.hex()')
                return s.flush(ind) + [f'{ind}return ({s.e(a_.func.value)}, {s.cond(b_)})']
            if (isinstance(st, ast.Assign) and len(st.targets) == 1 and isinstance(st.targets[0], ast.Name)
                    and isinstance(st.value, ast.Call) and (getattr(st.value.func, 'id', '') in (
                        ('traverse_level', 'tweak_taproot_pubkey') if s.name == 'pubkey_to_taproot_hex' else ('traverse_level',))
                        or (s.name == 'pubkey_get_taproot_address' and isinstance(st.value.func, ast.Attribute)
                            and st.value.func.attr == 'to_taproot_hex'))):
                nm = st.targets[0].id
                v = s.e(st.value)
                kw_ = '' if nm in s.declared else 'let mut '
                s.declared.add(nm); s.pairvars.add(nm)
                return s.flush(ind) + [f'{ind}{kw_}{nm} := {v}']
        if (s.name in TWEAKFUNS and isinstance(st, ast.Assign) and len(st.targets) == 1 and isinstance(st.targets[0], ast.Name)):
            nm = st.targets[0].id
            if nm in TWEAKFUNS[s.name]:
                s.tweak_point_ctx = True
                try: v = s.e(st.value)
                finally: s.tweak_point_ctx = False
                kw_ = '' if nm in s.declared else 'let mut '
                s.declared.add(nm); s.points.add(nm)
                return s.flush(ind) + [f'{ind}{kw_}{nm} := {v}']
            hb = s.hexbytes(st.value) if not isinstance(st.value, ast.Name) else None
            if hb is None and s.hexfmt(st.value) is not None: hb = s.e(st.value)
            if hb is not None:
                kw_ = '' if nm in s.declared else 'let mut '
                s.declared.add(nm); s.hexvars.add(nm); s.bytesvars.add(nm)
                return s.flush(ind) + [f'{ind}{kw_}{nm} := {hb}']
        if s.name in ('segwit_init', 'segwit_init_script') and isinstance(st, ast.Return) and isinstance(st.value, ast.Tuple) and len(st.value.elts) == 2:
            a_ = s.e(st.value.elts[0]); b_ = s.e(st.value.elts[1])
            return s.flush(ind) + [f'{ind}return ({a_}, {b_})']
        if s.name == 'segwit_to_string' and isinstance(st, ast.Return) and isinstance(st.value, ast.Call):
            v = s.e(st.value)          # bech32.encode returns the address or None: the Option is handed on as it is
            return s.flush(ind) + [f'{ind}return {v}']
        if s.name in STRFUNS:
            if isinstance(st, ast.Return) and isinstance(st.value, ast.Tuple) and '×' in s.ret:
                comps = [c.strip() for c in s.ret.split('×')]
                if len(comps) != len(st.value.elts): s.fail(st, 'tuple return arity')
                parts = []
                for c, x in zip(comps, st.value.elts):
                    if not c.startswith('Option'): s.fail(st, 'tuple return component type')
                    o = s.e_raw_opt(x)
                    parts.append(o if o is not None else f'(some {s.e(x)})')
                return s.flush(ind) + [f'{ind}return (' + ', '.join(parts) + ')']
            if (isinstance(st, ast.Assign) and len(st.targets) == 1 and isinstance(st.targets[0], ast.Name)
                    and st.targets[0].id in s.optvars):
                o = s.e_raw_opt(st.value)
                v = o if o is not None else f'(some {s.e(st.value)})'
                return s.flush(ind) + [f'{ind}{st.targets[0].id} := {v}']
        if isinstance(st, ast.Expr) and isinstance(st.value, ast.Constant): return []      # docstring
        if isinstance(st, ast.Pass): return []
        if (isinstance(st, ast.Expr) and isinstance(st.value, ast.Call) and getattr(st.value.func, 'id', '') == 'debug_print_vars'
                and 'p' in s.fconsts):
            return []      # prints only when schnorr.DEBUG is set (checked to be False at generation time)
        if (isinstance(st, ast.Return) and isinstance(st.value, ast.Call) and getattr(st.value.func, 'id', '') == 'Script'
                and s.ret == 'List Py.PyTok' and len(st.value.args) == 1 and isinstance(st.value.args[0], ast.List)):
            elts = []
            for x in st.value.args[0].elts:
                if isinstance(x, ast.Constant) and isinstance(x.value, str) and x.value.startswith('OP_'):
                    elts.append(f'Py.PyTok.name {lean_str(x.value)}')
                elif (isinstance(x, ast.Call) and isinstance(x.func, ast.Attribute) and isinstance(x.func.value, ast.Name)
                      and x.func.value.id == 'self' and x.func.attr in ('to_hash160', 'to_witness_program') and not x.args):
                    elts.append(f'Py.PyTok.data self_{x.func.attr[3:]}')       # the stored hex string, as the bytes it denotes
                elif isinstance(x, ast.Call) and getattr(x.func, 'id', '') == 'b_to_h' and len(x.args) == 1:
                    elts.append(f'Py.PyTok.data {s.e(x.args[0])}')
                elif isinstance(x, ast.Name) and x.id in s.bytesvars:
                    elts.append(f'Py.PyTok.data {x.id}')
                else: s.fail(st, 'Script([...]) element')
            return s.flush(ind) + [f'{ind}return [' + ', '.join(elts) + ']']
        if (isinstance(st, ast.Return) and isinstance(st.value, ast.Call) and getattr(st.value.func, 'id', '') == 'Script'
                and s.ret == 'List Py.PyTok' and len(st.value.keywords) == 1 and st.value.keywords[0].arg == 'script'
                and isinstance(st.value.keywords[0].value, ast.Name) and st.value.keywords[0].value.id in s.toklists):
            return s.flush(ind) + [f'{ind}return {st.value.keywords[0].value.id}']
        if isinstance(st, ast.Return):
            t = s.e(st.value) if st.value else '()'
            if s.ret == POINT:
                if isinstance(st.value, ast.Tuple): t = f'(some {t})'
                elif t != 'none' and not s.ispoint(st.value): s.fail(st, 'return of a non-point in a point function')
            elif s.ret.startswith('Option') and t != 'none': t = f'(some {t})'
            return s.flush(ind) + [f'{ind}return {t}']
        if isinstance(st, ast.Raise): return [f'{ind}throw PyErr.{s.exc(st.exc)}']
        if isinstance(st, ast.Assert):
            c = s.cond(st.test); return s.flush(ind) + [f'{ind}if !{c} then throw PyErr.assertion']
        LL = LOCAL_LISTS.get(s.name, {})
        if (isinstance(st, ast.Assign) and len(st.targets) == 1 and isinstance(st.targets[0], ast.Name) and st.targets[0].id in LL):
            nm = st.targets[0].id
            if not (isinstance(st.value, ast.List) and not st.value.elts): s.fail(st, 'a typed local list is only ever reset to []')
            kw_ = '' if nm in s.declared else 'let mut '
            s.declared.add(nm)
            if LL[nm] in RECORDS: s.reclists[nm] = RECORDS[LL[nm]]
            if LL[nm] == 'List Bytes': s.byteslists.add(nm)
            return [f'{ind}{kw_}{nm} : {LL[nm]} := []'] if kw_ else [f'{ind}{nm} := ([] : {LL[nm]})']
        if (isinstance(st, ast.Expr) and isinstance(st.value, ast.Call) and isinstance(st.value.func, ast.Attribute)
                and st.value.func.attr == 'append' and isinstance(st.value.func.value, ast.Name)
                and st.value.func.value.id in LL and len(st.value.args) == 1 and not st.value.keywords):
            nm = st.value.func.value.id; a = st.value.args[0]; T_ = LL[nm]
            if T_ == 'List Bytes':
                if not s.isbytes(a): s.fail(st, 'append of a non-bytes value to a list of bytes')
                v = s.e(a)
            elif isinstance(a, ast.Name) and a.id in s.recvars and s.recvars[a.id] == RECORDS[T_]: v = a.id
            elif (isinstance(a, ast.Call) and isinstance(a.func, ast.Name) and a.func.id in REC_CTOR
                  and 'List ' + REC_CTOR[a.func.id][0] == T_): v = s.e(a)
            elif (isinstance(a, ast.Call) and isinstance(a.func, ast.Attribute) and a.func.attr == 'from_raw'
                  and isinstance(a.func.value, ast.Name) and a.func.value.id in REC_CTOR
                  and 'List ' + REC_CTOR[a.func.value.id][0] == T_): v = s.e(a)       # K.from_raw(…) returns a K
            else: s.fail(st, 'append to a typed local list')
            return s.flush(ind) + [f'{ind}{nm} := {nm} ++ [{v}]']
        if isinstance(st, ast.Assign) and len(st.targets) == 1 and s.mutlists:
            tg = st.targets[0]
            # L[i].field = e   on a list of the mutable copy
            if (isinstance(tg, ast.Attribute) and isinstance(tg.value, ast.Subscript) and isinstance(tg.value.value, ast.Name)
                    and tg.value.value.id in s.mutlists and not isinstance(tg.value.slice, ast.Slice)
                    and tg.attr in s.reclists[tg.value.value.id][2]):
                L = tg.value.value.id
                v = s.e(st.value)                # Python evaluates the right-hand side first
                i = s.e(tg.value.slice)
                r = s.eff(f'Py.listGet {L} {i}')
                return s.flush(ind) + [f'{ind}{L} := Py.listSet {L} {i} {{ {r} with {tg.attr} := {v} }}']
            # L = [] / L = [L[i]]
            if isinstance(tg, ast.Name) and tg.id in s.mutlists and isinstance(st.value, ast.List):
                elts = []
                for x in st.value.elts:
                    if s.recsub(x) is not None and s.reclists[s.recsub(x)] == s.reclists[tg.id]: elts.append(s.e(x))
                    elif isinstance(x, ast.Name) and x.id in s.recvars and s.recvars[x.id] == s.reclists[tg.id]: elts.append(x.id)
                    else: s.fail(st, 'element of a record list')
                return s.flush(ind) + [f'{ind}{tg.id} := ([' + ', '.join(elts) + f'] : {s.mutlists[tg.id]})']
            if isinstance(tg, ast.Name) and tg.id in s.mutlists: s.fail(st, 'assignment to a list of the copy')
        if (isinstance(st, ast.Expr) and isinstance(st.value, ast.Call) and isinstance(st.value.func, ast.Attribute)
                and st.value.func.attr == 'append' and isinstance(st.value.func.value, ast.Name)
                and st.value.func.value.id in s.mutlists and len(st.value.args) == 1):
            L = st.value.func.value.id; a = st.value.args[0]
            if isinstance(a, ast.Name) and a.id in s.recvars and s.recvars[a.id] == s.reclists[L]: v = a.id
            elif (isinstance(a, ast.Call) and isinstance(a.func, ast.Name) and a.func.id in REC_CTOR
                  and 'List ' + REC_CTOR[a.func.id][0] == s.mutlists[L]): v = s.e(a)
            else: s.fail(st, 'append to a record list')
            return s.flush(ind) + [f'{ind}{L} := {L} ++ [{v}]']
        if (isinstance(st, ast.For) and not st.orelse and isinstance(st.target, ast.Name) and isinstance(st.iter, ast.Name)
                and st.iter.id in s.mutlists):
            # for v in L: v.f = e  — every record of the list is updated in place; on values: a map
            L = st.iter.id; v = st.target.id; flds = s.reclists[L][2]
            s.recvars[v] = s.reclists[L]
            steps = []
            for b in st.body:
                if not (isinstance(b, ast.Assign) and len(b.targets) == 1 and isinstance(b.targets[0], ast.Attribute)
                        and isinstance(b.targets[0].value, ast.Name) and b.targets[0].value.id == v and b.targets[0].attr in flds):
                    s.fail(b, 'loop over a list of the copy: only field assignments to the loop variable')
                saved = s.pre; s.pre = []
                val = s.e(b.value)
                if s.pre: s.fail(b, 'effectful right-hand side in an element update')
                s.pre = saved
                steps.append(f'let {v} := {{ {v} with {b.targets[0].attr} := {val} }}; ')
            del s.recvars[v]
            return s.flush(ind) + [f'{ind}{L} := {L}.map (fun {v} => ' + ''.join(steps) + f'{v})']
        if isinstance(st, ast.Assign) and len(st.targets) == 1:
            tg = st.targets[0]
            if isinstance(tg, ast.Attribute):
                # `self.x = x` in __init__: the fields *are* the parameters; anything else is not a plain field copy
                if (isinstance(tg.value, ast.Name) and tg.value.id == 'self' and isinstance(st.value, ast.Name)
                        and st.value.id == tg.attr):
                    s.selfalias.add(tg.attr)
                    return []
                s.fail(st, 'attribute assignment')
            if isinstance(tg, ast.Tuple) and all(isinstance(x, ast.Name) for x in tg.elts) and s.is_unpack_from(st.value):
                parts, kinds = s.unpack_from(st.value)
                if len(parts) != len(tg.elts): s.fail(st, 'unpack_from: number of targets')
                out = s.flush(ind)
                for x, pt in zip(tg.elts, parts): out.append(f'{ind}{x.id} := {pt}')
                return out
            if (isinstance(tg, ast.Tuple) and all(isinstance(x, ast.Name) for x in tg.elts) and any(x.id == '_' for x in tg.elts)
                    and s.name == 'is_address_bech32'):
                # `a, _, _ = f(x)`: the named components only
                v = s.e(st.value)
                k = len(tg.elts)
                proj = lambda i: ('.2' * i) + ('.1' if i < k - 1 else '')
                return s.flush(ind) + [f'{ind}{x.id} := {v}{proj(i)}' for i, x in enumerate(tg.elts) if x.id != '_']
            if isinstance(tg, ast.Tuple) and all(isinstance(x, ast.Name) for x in tg.elts):
                # all targets were declared up front by hoist()
                v = s.e(st.value)
                return s.flush(ind) + [f'{ind}({", ".join(x.id for x in tg.elts)}) := {v}']
            if not isinstance(tg, ast.Name): s.fail(st, 'assignment target')
            rq = s.rational(st.value)
            if rq is not None:
                # true division: the exact quotient num/den (den a positive literal), kept as a pair; Python computes it in binary64,
                # which is exact for |values| < 2^51 when den is a power of two (C16's recorded assumption)
                if tg.id in s.declared or tg.id in s.ratvars: s.fail(st, 'rational variable re-bound')
                s.ratvars.add(tg.id); s.declared.add(tg.id + '_num'); s.declared.add(tg.id + '_den')
                return s.flush(ind) + [f'{ind}let {tg.id}_num : Int := {rq[0]}', f'{ind}let {tg.id}_den : Int := {rq[1]}']
            if s.name in PARSERS and s.fmt_of(st.value) is not None and not isinstance(st.value, ast.Name):
                # a struct format bound to a name: used only as a format (checked: every other use of the name is rejected by e())
                if tg.id in s.fmtvars or tg.id in s.declared: s.fail(st, 'format variable re-bound')
                if s.fmt_of(st.value)[0] == 'dyn_s':
                    # f'{n}s' is evaluated here: freeze n
                    s.tmp += 1; fz = f'fmt{s.tmp}'
                    pre = [f'{ind}let {fz} : Int := {s.e(s.fmt_of(st.value)[1])}']
                    s.declared.add(fz)
                    s.fmtvars[tg.id] = ast.JoinedStr(values=[ast.FormattedValue(value=ast.Name(id=fz, ctx=ast.Load()), conversion=-1, format_spec=None),
                                                             ast.Constant(value='s')])
                    return s.flush(ind) + pre
                s.fmtvars[tg.id] = st.value
                return []
            if s.ret == 'List Py.PyTok' and isinstance(st.value, ast.List) and not st.value.elts:
                s.toklists.add(tg.id)
                kw = '' if tg.id in s.declared else 'let mut '
                s.declared.add(tg.id)
                return [f'{ind}{kw}{tg.id} := ([] : List Py.PyTok)']
            k = s.kind(st.value)
            v = s.e(st.value); name = tg.id
            rl = s.recsub(st.value)
            if rl is not None: s.recvars[name] = s.reclists[rl]
            if (isinstance(st.value, ast.Tuple) and len(st.value.elts) == 5) or \
                    (isinstance(st.value, ast.Call) and isinstance(st.value.func, ast.Name) and st.value.func.id == 'compress'):
                s.tuple5.add(name)
            if s.ispoint(st.value) or (v == 'none' and s.ret == POINT):
                s.points.add(name)
                if v == 'none': v = f'(none : {POINT})'
            if k == 'bytes': s.bytesvars.add(name)
            if k == 'ints': s.intlists.add(name)
            if s.isbool(st.value): s.boolvars.add(name)
            kw = '' if name in s.declared else 'let mut '
            s.declared.add(name)
            return s.flush(ind) + [f'{ind}{kw}{name} := {v}']
        if (isinstance(st, ast.AugAssign) and isinstance(st.target, ast.Name) and st.target.id in s.fmtvars
                and isinstance(st.op, ast.Add) and isinstance(st.value, ast.Constant) and isinstance(st.value.value, str)
                and isinstance(s.fmtvars[st.target.id], ast.Constant)):
            s.fmtvars[st.target.id] = ast.Constant(value=s.fmtvars[st.target.id].value + st.value.value)
            return []
        if isinstance(st, ast.AugAssign) and isinstance(st.target, ast.Name):
            v = s.e(ast.BinOp(left=st.target, op=st.op, right=st.value))
            return s.flush(ind) + [f'{ind}{st.target.id} := {v}']
        if (isinstance(st, ast.Expr) and isinstance(st.value, ast.Call) and isinstance(st.value.func, ast.Attribute)
                and st.value.func.attr == 'append' and isinstance(st.value.func.value, ast.Name)
                and st.value.func.value.id in s.toklists and len(st.value.args) == 1):
            nm = st.value.func.value.id; a = st.value.args[0]
            if isinstance(a, ast.Call) and isinstance(a.func, ast.Attribute) and a.func.attr == 'hex' and not a.args:
                v = f'Py.PyTok.data {s.e(a.func.value)}'              # <bytes>.hex(): a hex-data token
            elif isinstance(a, ast.Subscript) and isinstance(a.value, ast.Name) and a.value.id == 'CODE_OPS' and 'CODEOPS' in s.revtables:
                v = 'Py.PyTok.name ' + s.eff(f'Py.lookupB CODEOPS {s.e(a.slice)}')
            else: s.fail(st, 'append to a token list')
            return s.flush(ind) + [f'{ind}{nm} := {nm} ++ [{v}]']
        if (isinstance(st, ast.Expr) and isinstance(st.value, ast.Call) and isinstance(st.value.func, ast.Attribute)
                and st.value.func.attr == 'append' and isinstance(st.value.func.value, ast.Name)
                and st.value.func.value.id in s.intlists and len(st.value.args) == 1):
            nm = st.value.func.value.id
            v = s.e(st.value.args[0])
            return s.flush(ind) + [f'{ind}{nm} := {nm} ++ [{v}]']
        if isinstance(st, ast.For) and not st.orelse and isinstance(st.target, ast.Name):
            v = st.target.id
            s.declared.add(v)
            r = st.iter
            if isinstance(r, ast.Call) and isinstance(r.func, ast.Name) and r.func.id == 'range' and len(r.args) == 1:
                # a lazy counting loop (the bound may be an attacker-chosen 64-bit count: never materialised)
                hi = s.e(r.args[0]); pre = s.flush(ind)
                used = any(isinstance(x, ast.Name) and x.id == v and isinstance(x.ctx, ast.Load) for b in st.body for x in ast.walk(b))
                head = [f'{ind}for {v}_ in [0:(Int.toNat {hi})] do']
                if used: head.append(f'{ind}  let {v} : Int := Int.ofNat {v}_')
                s.loopdepth = getattr(s, 'loopdepth', 0) + 1
                try: body_ = s.block(st.body, ind + '  ')
                finally: s.loopdepth -= 1
                return pre + head + body_
            it = s.iter(st.iter); pre = s.flush(ind)
            if it in s.reclists:
                # a record loop variable is a binder of the loop only (the name may be re-used for an assignment later)
                s.recvars[v] = s.reclists[it]
                body = s.block(st.body, ind + '  ')
                if v not in s.hoisted: s.declared.discard(v)
                # Python binds the loop variable in function scope: a name that is also assigned elsewhere in a branch was declared
                # mutable up front and is assigned here; otherwise it is a binder of the loop body
                bind = f'{ind}  {v} := {v}_it' if v in s.hoisted else f'{ind}  let {v} := {v}_it'
                return pre + [f'{ind}for {v}_it in {it} do', bind] + body
            if it in s.toklists: s.tokvars.add(v)
            if it in s.scriptlists: s.toklists.add(v)
            if it in s.byteslists: s.bytesvars.add(v)
            if it in s.reclists: s.recvars[v] = s.reclists[it]
            return pre + [f'{ind}for {v} in {it} do'] + s.block(st.body, ind + '  ')
        if isinstance(st, ast.While) and not st.orelse:
            if s.name not in WHILE_FUEL: s.fail(st, 'while loop without a registered iteration bound')
            # the condition is evaluated inside the loop (it may have effects) before every iteration
            s.tmp += 1; bound = f'bound{s.tmp}'
            out = [f'{ind}let {bound} : Nat := {WHILE_FUEL[s.name]}', f'{ind}for fuel_ in [0:{bound} + 1] do']
            c = s.cond(st.test)
            out += s.flush(ind + '  ')
            out += [f'{ind}  if !{c} then break', f'{ind}  if fuel_ == {bound} then throw PyErr.fellThrough']
            out += s.block(st.body, ind + '  ')
            return out
        if (isinstance(st, ast.Try) and len(st.handlers) == 1 and not st.orelse and not st.finalbody and len(st.body) == 2
                and isinstance(st.body[0], ast.Expr) and isinstance(st.body[1], ast.Return) and isinstance(st.body[1].value, ast.Constant)
                and isinstance(st.handlers[0].type, ast.Name) and st.handlers[0].type.id == 'ValueError' and len(st.handlers[0].body) == 1
                and isinstance(st.handlers[0].body[0], ast.Return) and isinstance(st.handlers[0].body[0].value, ast.Constant)):
            # try: f(x); return A  except ValueError: return B     — only a ValueError is caught, anything else (also `unsupported`) propagates
            saved = s.pre; s.pre = []
            s.e(st.body[0].value)
            eff = s.pre; s.pre = saved
            if len(eff) != 1: s.fail(st, 'try body with more than one call that can raise')
            m = _re.fullmatch(r'let (t\d+) ← (.*)', eff[0])
            if not m: s.fail(st, 'effect of an unexpected form inside try')
            a_ = s.e(st.body[1].value); b_ = s.e(st.handlers[0].body[0].value)
            return s.flush(ind) + [f'{ind}match {m[2]} with', f'{ind}| .ok _ => return {a_}', f'{ind}| .error PyErr.valueError => return {b_}',
                                   f'{ind}| .error e_ => throw e_']
        if isinstance(st, ast.Try):
            # try: <simple statements> except Exception [as e]: print(..)…; break      — directly inside a `for`
            # Every call that can raise inside the body is bound as a value first; on an exception the handler's `break` runs.  The
            # statements before the raising one have taken effect, as in Python.  `unsupported` must never be swallowed: the callees have to be
            # generated functions that (transitively) cannot answer it — checked here, statically.
            if st.orelse or st.finalbody or len(st.handlers) != 1: s.fail(st, 'try statement shape')
            h = st.handlers[0]
            if not (isinstance(h.type, ast.Name) and h.type.id == 'Exception'): s.fail(st, 'except clause')
            if not (h.body and isinstance(h.body[-1], ast.Break) and all(
                    isinstance(x, ast.Expr) and isinstance(x.value, ast.Call) and getattr(x.value.func, 'id', '') == 'print' for x in h.body[:-1])):
                s.fail(st, 'exception handler other than print…; break')
            if getattr(s, 'loopdepth', 0) != 1 or ind != '    ': s.fail(st, 'try/except-break not directly inside one for loop')
            out = s.flush(ind)
            for b in st.body:
                if not isinstance(b, (ast.Assign, ast.AugAssign, ast.Expr)): s.fail(b, 'compound statement inside try')
                for ln in s.stmt(b, ind):
                    m = _re.fullmatch(r'(\s*)let (t\d+) ← (.*)', ln)
                    if m:
                        if m[1] != ind: s.fail(b, 'effect at another nesting level inside try')
                        callee = m[3].split()[0]
                        if callee.startswith('Py.') or callee in MAY_UNSUPPORTED or callee not in SIG:
                            s.fail(b, f'{callee} inside try may answer `unsupported`, which an except clause must not swallow')
                        out += [f'{ind}let r_{m[2]} := {m[3]}', f'{ind}let .ok {m[2]} := r_{m[2]} | break']
                    elif '←' in ln or 'throw ' in ln: s.fail(b, 'effect of an unexpected form inside try')
                    else: out.append(ln)
            return out
        if isinstance(st, ast.If):
            c = s.cond(st.test); pre = s.flush(ind)
            out = pre + [f'{ind}if {c} then'] + s.block(st.body, ind + '  ')
            if st.orelse: out += [f'{ind}else'] + s.block(st.orelse, ind + '  ')
            return out
        s.fail(st, 'statement')

    def ctor_branch(s, node, param, others, field, truthy=False):
        """A constructor called with `param` only — the parameters `others` keep their default None.  The body must be one
        `if param: … elif <other>: … … else: raise …` chain; the `elif`s test parameters that are None, so the translation keeps the first
        branch and the final raise.  `self.<field> = E` as the last thing a path does becomes `return E`."""
        import copy as _copy
        node = _copy.deepcopy(node)          # the parsed module is shared between the functions translated from it
        body = [st for st in node.body if not (isinstance(st, ast.Expr) and isinstance(st.value, ast.Constant))]
        defaults = {a.arg: d for a, d in zip(node.args.args[-len(node.args.defaults):], node.args.defaults)} if node.args.defaults else {}
        for k in others:
            if not (k in defaults and isinstance(defaults[k], ast.Constant) and defaults[k].value is None):
                s.fail(node, f'constructor parameter {k} no longer defaults to None')
        if not (len(body) == 1 and isinstance(body[0], ast.If) and isinstance(body[0].test, ast.Name)):
            s.fail(node, f'constructor shape: if {param}')
        top = body[0]
        while top.test.id in others and len(top.orelse) == 1 and isinstance(top.orelse[0], ast.If) and isinstance(top.orelse[0].test, ast.Name):
            top = top.orelse[0]          # leading arms test parameters that are None: not taken
        if top.test.id != param: s.fail(node, f'constructor shape: if {param}')
        if truthy:
            # an object of a class without __bool__ / __len__ is truthy — checked on the Script class as it is now
            st_ = ast.parse(open(f'{REPO}/bitcoinutils/script.py').read())
            for c_ in st_.body:
                if isinstance(c_, ast.ClassDef) and c_.name == 'Script':
                    if c_.bases or any(isinstance(m_, ast.FunctionDef) and m_.name in ('__bool__', '__len__') for m_ in c_.body):
                        s.fail(node, 'Script defines its own truthiness (or has a base class)')
                    break
            else: s.fail(node, 'class Script not found')
            top.test = ast.copy_location(ast.Constant(value=True), top.test)
        cur = top
        while True:
            if len(cur.orelse) == 1 and isinstance(cur.orelse[0], ast.If) and isinstance(cur.orelse[0].test, ast.Name) \
                    and cur.orelse[0].test.id in others:
                cur = cur.orelse[0]; continue
            break
        if not (len(cur.orelse) == 1 and isinstance(cur.orelse[0], ast.Raise)): s.fail(node, 'constructor shape: final else raise')
        for x in ast.walk(ast.Module(body=top.body, type_ignores=[])):
            if isinstance(x, ast.Name) and x.id in others: s.fail(x, 'the branch reads a parameter that is None')
        def is_store(st):
            return (isinstance(st, ast.Assign) and len(st.targets) == 1 and isinstance(st.targets[0], ast.Attribute)
                    and isinstance(st.targets[0].value, ast.Name) and st.targets[0].value.id == 'self' and st.targets[0].attr == field)
        def tail(block):
            if not block: return
            last = block[-1]
            if is_store(last): block[-1] = ast.copy_location(ast.Return(value=last.value), last)
            elif isinstance(last, ast.If): tail(last.body); tail(last.orelse)
        tail(top.body)
        top.orelse = [cur.orelse[0]]
        for x in ast.walk(top):
            if isinstance(x, ast.Attribute) and isinstance(x.value, ast.Name) and x.value.id == 'self' and isinstance(x.ctx, ast.Store):
                s.fail(x, 'self.* stored other than as the final assignment of a path')
        node.body = [top]
        return node

    def ctor_segwit(s, node, keep_script=False):
        """SegwitAddress.__init__ with script=None: `self.version = version` is the parameter itself, `self.segwit_num_version = k` a local,
        an `elif script:` arm is dropped (script is None), and `self.witness_program = E` — the last thing a path does — returns
        `(segwit_num_version, E)`."""
        import copy as _copy
        node = _copy.deepcopy(node)
        defaults = {a.arg: d for a, d in zip(node.args.args[-len(node.args.defaults):], node.args.defaults)} if node.args.defaults else {}
        none_params = ['address', 'witness_program'] if keep_script else ['script']
        for k_ in none_params:
            if not (k_ in defaults and isinstance(defaults[k_], ast.Constant) and defaults[k_].value is None):
                s.fail(node, f'constructor parameter {k_} no longer defaults to None')
        if keep_script:
            st_ = ast.parse(open(f'{REPO}/bitcoinutils/script.py').read())
            for c_ in st_.body:
                if isinstance(c_, ast.ClassDef) and c_.name == 'Script':
                    if c_.bases or any(isinstance(m_, ast.FunctionDef) and m_.name in ('__bool__', '__len__') for m_ in c_.body):
                        s.fail(node, 'Script defines its own truthiness (or has a base class)')
                    break
            else: s.fail(node, 'class Script not found')
        body = [st for st in node.body if not (isinstance(st, ast.Expr) and isinstance(st.value, ast.Constant))]
        def self_store(st, field):
            return (isinstance(st, ast.Assign) and len(st.targets) == 1 and isinstance(st.targets[0], ast.Attribute)
                    and isinstance(st.targets[0].value, ast.Name) and st.targets[0].value.id == 'self' and st.targets[0].attr == field)
        if not (body and self_store(body[0], 'version') and isinstance(body[0].value, ast.Name) and body[0].value.id == 'version'):
            s.fail(node, 'constructor shape: self.version = version')
        body = body[1:]
        class V(ast.NodeTransformer):
            def visit_Assign(self, st):
                if self_store(st, 'segwit_num_version'):
                    return ast.copy_location(ast.Assign(targets=[ast.Name(id='segwit_num_version', ctx=ast.Store())], value=st.value), st)
                return st
            def visit_If(self, st):
                self.generic_visit(st)
                # an arm that tests a parameter which is None is not taken: the arm is replaced by what follows it
                while len(st.orelse) == 1 and isinstance(st.orelse[0], ast.If) and isinstance(st.orelse[0].test, ast.Name) \
                        and st.orelse[0].test.id in none_params:
                    st.orelse = st.orelse[0].orelse
                if isinstance(st.test, ast.Name) and st.test.id in none_params:
                    return st.orelse if st.orelse else ast.Pass()
                if keep_script and isinstance(st.test, ast.Name) and st.test.id == 'script':
                    st.test = ast.copy_location(ast.Constant(value=True), st.test)       # a Script object is truthy (checked above)
                return st
        body_ = []
        for st in body:
            r_ = V().visit(st)
            body_ += r_ if isinstance(r_, list) else [r_]
        body = body_
        def tail(block):
            if not block: return
            last = block[-1]
            if self_store(last, 'witness_program'):
                block[-1] = ast.copy_location(ast.Return(value=ast.Tuple(elts=[ast.Name(id='segwit_num_version', ctx=ast.Load()), last.value],
                                                                         ctx=ast.Load())), last)
            elif isinstance(last, ast.If): tail(last.body); tail(last.orelse)
        tail(body)
        for st in body:
            for x in ast.walk(st):
                if isinstance(x, ast.Attribute) and isinstance(x.value, ast.Name) and x.value.id == 'self' and isinstance(x.ctx, ast.Store):
                    s.fail(x, 'self.* stored other than version / segwit_num_version / the final witness_program')
                if isinstance(x, ast.Name) and x.id in none_params: s.fail(x, 'the constructor reads a parameter that is None')
        node.body = body
        return node

    def ctor_recover_branch(s, node):
        """PublicKey.__init__ called as PublicKey(message=…, signature=…): hex_str keeps its default None, so `if hex_str:` is not taken and
        the translation is the `elif message or signature: … else: raise` part.  `self.key = E` as the last statement becomes `return E`."""
        import copy as _copy
        node = _copy.deepcopy(node)          # the parsed module is shared between the functions translated from it
        body = [st for st in node.body if not (isinstance(st, ast.Expr) and isinstance(st.value, ast.Constant))]
        defaults = {a.arg: d for a, d in zip(node.args.args[-len(node.args.defaults):], node.args.defaults)} if node.args.defaults else {}
        if not ('hex_str' in defaults and isinstance(defaults['hex_str'], ast.Constant) and defaults['hex_str'].value is None):
            s.fail(node, 'constructor parameter hex_str no longer defaults to None')
        if not (len(body) == 1 and isinstance(body[0], ast.If) and isinstance(body[0].test, ast.Name) and body[0].test.id == 'hex_str'
                and len(body[0].orelse) == 1 and isinstance(body[0].orelse[0], ast.If)):
            s.fail(node, 'constructor shape')
        mid = body[0].orelse[0]
        if not (len(mid.orelse) == 1 and isinstance(mid.orelse[0], ast.Raise)): s.fail(node, 'constructor shape: else raise')
        for x in ast.walk(mid):
            if isinstance(x, ast.Name) and x.id == 'hex_str': s.fail(x, 'the recovery branch reads hex_str')
        last = mid.body[-1] if mid.body else None
        if not (isinstance(last, ast.Assign) and len(last.targets) == 1 and isinstance(last.targets[0], ast.Attribute)
                and isinstance(last.targets[0].value, ast.Name) and last.targets[0].value.id == 'self' and last.targets[0].attr == 'key'):
            s.fail(node, 'the recovery branch does not end in self.key = …')
        mid.body[-1] = ast.copy_location(ast.Return(value=last.value), last)
        for x in ast.walk(mid):
            if isinstance(x, ast.Attribute) and isinstance(x.value, ast.Name) and x.value.id == 'self':
                s.fail(x, 'self.* used other than as the final `self.key = …`')
        node.body = [mid]
        return node

    def ctor_hex_branch(s, node):
        """PublicKey.__init__ called as PublicKey(hex_str) with a str — message and signature keep their default None.  The body must be
        `if hex_str: … elif message or signature: … else: raise TypeError`; with both None the middle test is false, so the translation
        keeps the first branch and the final raise.  `self.key = E` as the last thing a path does becomes `return E`; a path that
        ends without setting it falls through (Python returns an object without a key)."""
        import copy as _copy
        node = _copy.deepcopy(node)          # the parsed module is shared between the functions translated from it
        body = [st for st in node.body if not (isinstance(st, ast.Expr) and isinstance(st.value, ast.Constant))]
        defaults = {a.arg: d for a, d in zip(node.args.args[-len(node.args.defaults):], node.args.defaults)} if node.args.defaults else {}
        for k in ('message', 'signature'):
            if not (k in defaults and isinstance(defaults[k], ast.Constant) and defaults[k].value is None):
                s.fail(node, f'constructor parameter {k} no longer defaults to None')
        if not (len(body) == 1 and isinstance(body[0], ast.If) and isinstance(body[0].test, ast.Name) and body[0].test.id == 'hex_str'):
            s.fail(node, 'constructor shape: if hex_str')
        top = body[0]
        if not (len(top.orelse) == 1 and isinstance(top.orelse[0], ast.If)): s.fail(node, 'constructor shape: elif')
        mid = top.orelse[0]
        if not (isinstance(mid.test, ast.BoolOp) and isinstance(mid.test.op, ast.Or) and len(mid.test.values) == 2
                and all(isinstance(v, ast.Name) for v in mid.test.values) and {v.id for v in mid.test.values} == {'message', 'signature'}):
            s.fail(node, 'constructor shape: elif message or signature')
        if not (len(mid.orelse) == 1 and isinstance(mid.orelse[0], ast.Raise)): s.fail(node, 'constructor shape: else raise')
        for x in ast.walk(ast.Module(body=top.body, type_ignores=[])):
            if isinstance(x, ast.Name) and x.id in ('message', 'signature'): s.fail(x, 'the hex branch reads message / signature')
        def is_key_store(st):
            return (isinstance(st, ast.Assign) and len(st.targets) == 1 and isinstance(st.targets[0], ast.Attribute)
                    and isinstance(st.targets[0].value, ast.Name) and st.targets[0].value.id == 'self' and st.targets[0].attr == 'key')
        def tail(block):
            if not block: return
            last = block[-1]
            if is_key_store(last): block[-1] = ast.copy_location(ast.Return(value=last.value), last)
            elif isinstance(last, ast.If): tail(last.body); tail(last.orelse)
        tail(top.body)
        top.orelse = [mid.orelse[0]]
        for x in ast.walk(top):
            if isinstance(x, ast.Attribute) and isinstance(x.value, ast.Name) and x.value.id == 'self':
                s.fail(x, 'self.* used other than as the final `self.key = …` of a path')
        node.body = [top]
        return node

    def exc(s, n):
        nm = n.func.id if isinstance(n, ast.Call) else getattr(n, 'id', 'other')
        return {'ValueError': 'valueError', 'Exception': 'other', 'TypeError': 'typeError',
                'RuntimeError': 'runtimeError'}.get(nm, 'other')

    def hoist(s, node, params):
        s.hoisting = True
        try: return s.hoist_(node, params)
        finally: s.hoisting = False

    def hoist_(s, node, params):
        """variables whose first assignment is inside a branch are declared up front"""
        top = set(p for p, _ in params)
        for st in node.body:
            if isinstance(st, ast.Assign) and len(st.targets) == 1 and isinstance(st.targets[0], ast.Name):
                top.add(st.targets[0].id)
        out = []
        if s.name in PARSERS:
            # kinds of the names bound at top level, in order (a later hoisted declaration may be a slice of one of them)
            for st in node.body:
                if (isinstance(st, ast.Assign) and len(st.targets) == 1 and isinstance(st.targets[0], ast.Name)
                        and st.targets[0].id not in s.fmtpre and s.kind(st.value) == 'bytes'):
                    s.bytesvars.add(st.targets[0].id)
        for st in ast.walk(node):
            if isinstance(st, ast.Assign) and len(st.targets) == 1 and isinstance(st.targets[0], ast.Name):
                nm = st.targets[0].id
                rl = s.recsub(st.value)
                if nm not in top and nm not in s.declared and rl is not None:
                    out.append(f'  let mut {nm} : {REC_TYPE[s.reclists[rl][0]]} := default')
                    s.declared.add(nm); s.recvars[nm] = s.reclists[rl]; s.hoisted.add(nm)
                    continue
                if (nm not in top and nm not in s.declared and s.name in TWEAKFUNS
                        and (s.hexfmt(st.value) is not None or (s.name in PUBFUNS and isinstance(st.value, ast.BinOp)
                                                                and isinstance(st.value.left, ast.Constant) and isinstance(st.value.left.value, str))
                             or (isinstance(st.value, ast.Call) and getattr(st.value.func, 'id', '') == 'b_to_h' and s.name in PUBFUNS)
                             or (isinstance(st.value, ast.Call) and (
                            (isinstance(st.value.func, ast.Attribute) and st.value.func.attr == 'hex')
                            or getattr(st.value.func, 'id', '') == 'negate_privkey')))):
                    out.append(f'  let mut {nm} := ([] : Bytes)')
                    s.declared.add(nm); s.hexvars.add(nm); s.bytesvars.add(nm)
                    continue
                if nm not in top and nm not in s.declared and nm in LOCAL_LISTS.get(s.name, {}):
                    T_ = LOCAL_LISTS[s.name][nm]
                    out.append(f'  let mut {nm} : {T_} := []')
                    s.declared.add(nm)
                    if T_ in RECORDS: s.reclists[nm] = RECORDS[T_]
                    if T_ == 'List Bytes': s.byteslists.add(nm)
                    continue
                if (nm not in top and nm not in s.declared and s.name in PARSERS and isinstance(st.value, ast.Call)
                        and (getattr(st.value.func, 'id', '') == 'Script'
                             or (isinstance(st.value.func, ast.Attribute) and st.value.func.attr == 'from_raw'
                                 and getattr(st.value.func.value, 'id', '') == 'Script'))):
                    out.append(f'  let mut {nm} := ([] : List Py.PyTok)')
                    s.declared.add(nm); s.toklists.add(nm)
                    continue
                if (nm not in top and nm not in s.declared and s.name == 'pubkey_recover' and isinstance(st.value, ast.Call)
                        and isinstance(st.value.func, ast.Attribute) and st.value.func.attr == 'from_public_key_recovery_with_digest'):
                    out.append(f'  let mut {nm} : List (Nat × Nat) := []')
                    s.declared.add(nm)
                    continue
                if (nm not in top and nm not in s.declared and s.name == 'block_from_raw' and isinstance(st.value, ast.Call)
                        and isinstance(st.value.func, ast.Attribute) and st.value.func.attr == 'from_raw'
                        and getattr(st.value.func.value, 'id', '') in REC_CTOR):
                    out.append(f'  let mut {nm} : {REC_CTOR[st.value.func.value.id][0]} := default')
                    s.declared.add(nm)
                    continue
                if nm not in top and nm not in s.declared:
                    k = s.kind(st.value)
                    if s.isbool(st.value): k = 'bool'; s.boolvars.add(nm)
                    out.append(f'  let mut {nm} := ' + {'bytes': '([] : Bytes)', 'ints': '([] : List Int)',
                                                        'bool': 'false'}.get(k, '(0 : Int)'))
                    s.declared.add(nm)
                    if k == 'bytes': s.bytesvars.add(nm)
                    if k == 'ints': s.intlists.add(nm)
            if isinstance(st, ast.Assign) and len(st.targets) == 1 and isinstance(st.targets[0], ast.Tuple):
                kinds = s.tuple_kinds(st.value, len(st.targets[0].elts)) if (s.name in PARSERS or s.name in TREEFUNS) else None
                for j, x in enumerate(st.targets[0].elts):
                    if isinstance(x, ast.Name) and x.id not in s.declared and x.id != '_':
                        # tuple targets: integers (the callees in the whitelist return tuples of ints) unless the callee says otherwise
                        kd = kinds[j] if kinds and j < len(kinds) else 'int'
                        if kd == 'bytes':
                            out.append(f'  let mut {x.id} := ([] : Bytes)'); s.bytesvars.add(x.id)
                        elif kd == 'bool':
                            out.append(f'  let mut {x.id} := false'); s.boolvars.add(x.id)
                        elif kd.startswith('rec:'):
                            out.append(f'  let mut {x.id} : {kd[4:]} := default')
                            s.recvars[x.id] = RECORDS['List ' + kd[4:]]
                        else:
                            out.append(f'  let mut {x.id} := (0 : Int)')
                        s.declared.add(x.id)
                    elif isinstance(x, ast.Name) and kinds and j < len(kinds) and kinds[j] == 'bytes' and x.id not in s.bytesvars:
                        s.fail(st, f'tuple target {x.id} changes kind')
        return out

    def fn_hd(s, node, params, ret):
        """hdwallet.py: `self.hdw` is threaded as a state; only calls of library methods on it, `if <optional str>:` tests and the final
        hand-over to PrivateKey are allowed"""
        ps = ' '.join(f'({p} : {t})' for p, t in params)
        P = {p for p, _ in params}
        opt = {p for p, t in params if t == 'Option String'}
        out = []
        def is_hdw(x): return (isinstance(x, ast.Attribute) and x.attr == 'hdw' and isinstance(x.value, ast.Name) and x.value.id == 'self')
        def sarg(x):
            if isinstance(x, ast.Name) and x.id in opt: return f'{x.id}_v'          # only used under `if x:` (checked below)
            if isinstance(x, ast.Name) and x.id in P: return x.id
            s.fail(x, 'argument of a library call')
        def truthy(t):
            if isinstance(t, ast.Name) and t.id in opt: return [t.id]
            if isinstance(t, ast.BoolOp) and isinstance(t.op, ast.And) and all(isinstance(v, ast.Name) and v.id in opt for v in t.values):
                return [v.id for v in t.values]
            s.fail(t, 'condition')
        def libcall(c, ind, guarded):
            f = c.func
            if not (isinstance(f, ast.Attribute) and is_hdw(f.value)): s.fail(c, 'call')
            kw = {k.arg: k.value for k in c.keywords}
            def need(x):
                if isinstance(x, ast.Name) and x.id in opt and x.id not in guarded: s.fail(x, 'optional argument used outside `if <it>:`')
                return sarg(x)
            if f.attr == 'from_mnemonic' and not c.args and set(kw) == {'mnemonic'} and isinstance(kw['mnemonic'], ast.Call) \
                    and getattr(kw['mnemonic'].func, 'id', '') == 'BIP39Mnemonic' and not kw['mnemonic'].args \
                    and [k.arg for k in kw['mnemonic'].keywords] == ['mnemonic'] and 'lib_from_mnemonic' in P:
                return [f'{ind}hdw ← lib_from_mnemonic hdw {need(kw["mnemonic"].keywords[0].value)}']
            if f.attr == 'from_xprivate_key' and not c.args and set(kw) == {'xprivate_key'} and 'lib_from_xprivate_key' in P:
                return [f'{ind}hdw ← lib_from_xprivate_key hdw {need(kw["xprivate_key"])}']
            if f.attr == 'from_derivation' and len(c.args) == 1 and not kw and isinstance(c.args[0], ast.Call) \
                    and getattr(c.args[0].func, 'id', '') == 'CustomDerivation' and len(c.args[0].args) == 1 and not c.args[0].keywords \
                    and 'lib_from_derivation' in P:
                return [f'{ind}hdw ← lib_from_derivation hdw {need(c.args[0].args[0])}']
            if f.attr == 'clean_derivation' and not c.args and not kw and 'lib_clean_derivation' in P:
                return [f'{ind}hdw := lib_clean_derivation hdw']
            s.fail(c, 'library method')
        def block(stmts, ind, guarded):
            r = []
            for st in stmts:
                if isinstance(st, ast.Expr) and isinstance(st.value, ast.Constant): continue
                if isinstance(st, ast.Expr) and isinstance(st.value, ast.Call): r += libcall(st.value, ind, guarded); continue
                if isinstance(st, ast.If) and not st.orelse:
                    names = truthy(st.test)
                    pat = ', '.join(f'some {n_}_v' for n_ in names); scr = ', '.join(names)
                    cond_ = ' && '.join(f'!(String.isEmpty {n_}_v)' for n_ in names)
                    inner = block(st.body, ind + '    ', guarded | set(names))
                    r += [f'{ind}match {scr} with', f'{ind}| {pat} =>', f'{ind}  if {cond_} then'] + inner + [f'{ind}| ' + ', '.join('_' for _ in names) + ' => pure ()']
                    continue
                if (isinstance(st, ast.Assign) and len(st.targets) == 1 and is_hdw(st.targets[0]) and isinstance(st.value, ast.Call)
                        and getattr(st.value.func, 'id', '') == 'ext_HDWallet' and not st.value.args and 'new_wallet' in P):
                    kw = {k.arg: k.value for k in st.value.keywords}
                    net = kw.get('network')
                    ok = (set(kw) == {'cryptocurrency', 'network', 'hd'} and getattr(kw['cryptocurrency'], 'id', '') == 'Bitcoin'
                          and getattr(kw['hd'], 'id', '') == 'BIP32HD' and isinstance(net, ast.IfExp)
                          and isinstance(net.body, ast.Constant) and net.body.value == 'mainnet'
                          and isinstance(net.orelse, ast.Constant) and net.orelse.value == 'testnet'
                          and isinstance(net.test, ast.Call) and getattr(net.test.func, 'id', '') == 'is_mainnet' and not net.test.args)
                    if not ok: s.fail(st, 'construction of the library object')
                    r += [f'{ind}let mut hdw : S := new_wallet is_mainnet']          # true: the library's mainnet, false: its testnet
                    continue
                if (isinstance(st, ast.Return) and isinstance(st.value, ast.Call) and getattr(st.value.func, 'id', '') == 'PrivateKey'
                        and len(st.value.args) == 1 and not st.value.keywords and isinstance(st.value.args[0], ast.Call)
                        and isinstance(st.value.args[0].func, ast.Attribute) and st.value.args[0].func.attr == 'wif'
                        and is_hdw(st.value.args[0].func.value) and not st.value.args[0].args and 'lib_wif' in P):
                    # PrivateKey(wif): the first positional parameter of the translated constructor
                    d_ = find(ast.parse(open(f'{REPO}/bitcoinutils/keys.py').read()), 'PrivateKey.__init__')
                    if [a_.arg for a_ in d_.args.args[1:2]] != ['wif']: s.fail(st, 'PrivateKey.__init__ no longer takes wif first')
                    r += [f'{ind}let t1 ← privkey_init hashlib_sha256 b58decode signingkey_from_string signingkey_from_secret_exponent wif_prefix '
                          f'(some (lib_wif hdw)) none none', f'{ind}return t1']
                    continue
                s.fail(st, 'statement of the wallet wrapper')
            return r
        body = block(node.body, '  ', set())
        head = [] if s.name == 'hd_init' else ['  let mut hdw := hdw']
        tail_ = [] if s.name == 'hd_get_private_key' else ['  return hdw']
        return f'def {s.name} {ps} : Except PyErr ({ret}) := do\n' + '\n'.join(head + body + tail_) + '\n'

    def fn(s, node, params, ret):
        if s.name in HDFUNS: return s.fn_hd(node, params, ret)
        s.ret = ret; s.bytesvars = {p for p, t in params if t == 'Bytes'}; s.boolvars = {p for p, t in params if t == 'Bool'}
        s.intlists = {p for p, t in params if t == 'List Int'}; s.charlists = {p for p, t in params if t == 'List Char'}
        s.declared = {p for p, _ in params}; s.selfalias = set(); s.params = {p for p, _ in params}
        s.fnode = node
        s.treevars = {p_: ('tree' if t_ == 'Option Py.PyTree' else 'scripts') for p_, t_ in params if t_ in ('Option Py.PyTree', 'Py.PyScripts')}
        s.scriptlists = {p for p, t in params if t == 'List (List Py.PyTok)'}
        s.points = {p for p, t in params if t == 'Point'}
        s.toklists = {p for p, t in params if t == 'List Py.PyTok'}; s.tokvars = set()
        s.byteslists = {p for p, t in params if t == 'List Bytes'}
        s.reclists = {p: RECORDS[t] for p, t in params if t in RECORDS}; s.recvars = {}; s.mutlists = {}; s.mutcopy = None
        s.optables = {p for p, t in params if t == 'List (String × Bytes)'}
        s.revtables = {p for p, t in params if t == 'List (Bytes × String)'}
        params = [(p, POINT if t == 'Point' else t) for p, t in params]
        if ret == 'Point': ret = POINT
        s.ret = ret
        # in __init__ the parameters are named without self_; `self.x` then refers to the same value
        ps = ' '.join(f'({p} : {t})' for p, t in params)
        # `tmp = Transaction.copy(self)` whose copy is only read: the deep copy denotes the same values as self (that it is a
        # *fresh* object is property C13's subject, not this function's), so reads of tmp.x are reads of self.x
        def is_selfcopy(st):
            return (isinstance(st, ast.Assign) and len(st.targets) == 1 and isinstance(st.targets[0], ast.Name)
                    and isinstance(st.value, ast.Call) and isinstance(st.value.func, ast.Attribute) and st.value.func.attr == 'copy'
                    and isinstance(st.value.func.value, ast.Name) and st.value.func.value.id == 'Transaction'
                    and len(st.value.args) == 1 and isinstance(st.value.args[0], ast.Name) and st.value.args[0].id == 'self')
        copies = [st.targets[0].id for st in node.body if is_selfcopy(st)]
        if copies: check_value_copy('Transaction')
        mutpre = []
        if copies and s.name in MUTCOPY:
            if len(copies) != 1 or not is_selfcopy(node.body[0] if not (isinstance(node.body[0], ast.Expr) and isinstance(node.body[0].value, ast.Constant)) else node.body[1]):
                s.fail(node, 'the mutable copy must be made first')
            tmp = copies[0]
            reclist_fields = {p[5:]: t for p, t in params if p.startswith('self_') and t in RECORDS}
            for x in ast.walk(node):
                if isinstance(x, ast.Name) and x.id == tmp and isinstance(x.ctx, ast.Store) and not any(
                        is_selfcopy(st) and st.targets[0] is x for st in node.body):
                    s.fail(x, 'copy of self re-bound')
                # the other fields of the copy stay read-only
                if isinstance(x, ast.Attribute) and isinstance(x.value, ast.Name) and x.value.id == tmp \
                        and isinstance(x.ctx, (ast.Store, ast.Del)) and x.attr not in reclist_fields:
                    s.fail(x, 'write to a non-list field of the copy')
                # the copy itself must not escape (returned, stored, passed on) — only its to_bytes() may be called
                if isinstance(x, ast.Name) and x.id == tmp and isinstance(x.ctx, ast.Load):
                    pass
            uses = [x for x in ast.walk(node) if isinstance(x, ast.Name) and x.id == tmp and isinstance(x.ctx, ast.Load)]
            attr_parents = [x.value for x in ast.walk(node) if isinstance(x, ast.Attribute) and isinstance(x.value, ast.Name) and x.value.id == tmp]
            if any(not any(u is a for a in attr_parents) for u in uses): s.fail(node, 'the copy escapes')
            node.body = [st for st in node.body if not is_selfcopy(st)]
            class RM(ast.NodeTransformer):
                def visit_Attribute(self, n):
                    self.generic_visit(n)
                    if isinstance(n.value, ast.Name) and n.value.id == tmp:
                        if n.attr in reclist_fields: return ast.copy_location(ast.Name(id=f'{tmp}__{n.attr}', ctx=n.ctx), n)
                        if n.attr == 'to_bytes': return n
                        return ast.copy_location(ast.Attribute(value=ast.Name(id='self', ctx=ast.Load()), attr=n.attr, ctx=n.ctx), n)
                    return n
            node = RM().visit(node)
            for f_, t_ in reclist_fields.items():
                nm = f'{tmp}__{f_}'
                mutpre.append(f'  let mut {nm} := self_{f_}')
                s.reclists[nm] = RECORDS[t_]; s.declared.add(nm); s.mutlists[nm] = t_
            s.mutcopy = (tmp, reclist_fields)
            copies = []
        if copies:
            for x in ast.walk(node):
                if isinstance(x, ast.Name) and x.id in copies and isinstance(x.ctx, ast.Store) and not any(
                        is_selfcopy(st) and st.targets[0] is x for st in node.body):
                    s.fail(x, 'copy of self re-bound')
                if isinstance(x, (ast.Attribute, ast.Subscript)) and isinstance(x.ctx, (ast.Store, ast.Del)):
                    y = x
                    while isinstance(y, (ast.Attribute, ast.Subscript)): y = y.value
                    if isinstance(y, ast.Name) and y.id in copies: s.fail(x, 'copy of self that is written to')
                if isinstance(x, ast.Call) and isinstance(x.func, ast.Attribute) and isinstance(x.func.value, ast.Attribute):
                    y = x.func.value
                    while isinstance(y, (ast.Attribute, ast.Subscript)): y = y.value
                    if isinstance(y, ast.Name) and y.id in copies and x.func.attr in ('append', 'extend', 'pop', 'insert', 'clear', 'remove', 'sort', 'reverse'):
                        s.fail(x, 'copy of self that is mutated')
            node.body = [st for st in node.body if not is_selfcopy(st)]
            class RC(ast.NodeTransformer):
                def visit_Name(self, n):
                    return ast.copy_location(ast.Name(id='self', ctx=n.ctx), n) if n.id in copies else n
            node = RC().visit(node)
        if s.name == 'pubkey_from_hex':
            node = s.ctor_hex_branch(node)
        if s.name == 'pubkey_recover':
            node = s.ctor_recover_branch(node)
        if s.name == 'address_init_hash160':
            node = s.ctor_branch(node, 'hash160', ['address', 'script'], 'hash160')
        if s.name == 'segwit_init':
            node = s.ctor_segwit(node)
        if s.name == 'segwit_init_script':
            node = s.ctor_segwit(node, keep_script=True)
        if s.name == 'address_init_address':
            node = s.ctor_branch(node, 'address', ['hash160', 'script'], 'hash160')
        if s.name == 'address_init_script':
            node = s.ctor_branch(node, 'script', ['hash160', 'address'], 'hash160', truthy=True)
        strpre = []
        if s.name in STRFUNS:
            for nm, T_ in STRFUNS[s.name].items():
                if T_.startswith('Option'):
                    strpre.append(f'  let mut {nm} : {T_} := none'); s.optvars.add(nm)
                else:
                    strpre.append(f'  let mut {nm} : {T_} := {STR_DEFAULT[T_]}')
                    if T_ == 'List Char': s.charlists.add(nm)
                    if T_ == 'List Int': s.intlists.add(nm)
                s.declared.add(nm)
        if s.name in PARSERS:
            # format strings bound to names (needed before the declarations are hoisted)
            for st in ast.walk(node):
                if (isinstance(st, ast.Assign) and len(st.targets) == 1 and isinstance(st.targets[0], ast.Name)
                        and not isinstance(st.value, ast.Name) and s.fmt_of(st.value) is not None):
                    s.fmtpre[st.targets[0].id] = st.value
            for st in node.body:       # `fmt += "I"` at top level, in order
                if (isinstance(st, ast.AugAssign) and isinstance(st.target, ast.Name) and st.target.id in s.fmtpre
                        and isinstance(st.op, ast.Add) and isinstance(st.value, ast.Constant) and isinstance(st.value.value, str)
                        and isinstance(s.fmtpre[st.target.id], ast.Constant)):
                    s.fmtpre[st.target.id] = ast.Constant(value=s.fmtpre[st.target.id].value + st.value.value)
        pre = s.hoist(node, params)
        if node.name == '__init__':
            # self.x reads refer to parameter x (after the `self.x = x` copies)
            class R(ast.NodeTransformer):
                def visit_Attribute(self, n):
                    if isinstance(n.value, ast.Name) and n.value.id == 'self' and isinstance(n.ctx, ast.Load):
                        return ast.copy_location(ast.Name(id=n.attr, ctx=ast.Load()), n)
                    return n
            node = R().visit(node)
        # parameters that the body re-binds become mutable locals
        rebound = []
        for st in ast.walk(node):
            tgs = []
            if isinstance(st, ast.Assign): tgs = st.targets
            if isinstance(st, ast.AugAssign): tgs = [st.target]
            for tg in tgs:
                for x in ([tg] if isinstance(tg, ast.Name) else getattr(tg, 'elts', [])):
                    if isinstance(x, ast.Name) and x.id in {p for p, _ in params} and x.id not in rebound:
                        rebound.append(x.id)
        pre = [f'  let mut {r} := {r}' for r in rebound] + mutpre + strpre + pre
        body = pre + s.block(node.body, '  ')
        last = node.body[-1]
        if not isinstance(last, (ast.Return, ast.Raise)):
            body.append('  throw PyErr.fellThrough' if (not ret.startswith('Option') and ret != 'Unit') or s.name == 'privkey_init'
                        else ('  return none' if ret != 'Unit' else '  return ()'))
        if s.name in TREEFUNS and TREEFUNS[s.name][0] is not None:
            # a recursive function: `fuel` bounds the recursion depth (exhausting it raises, like a bounded `while`)
            inner = '\n'.join('    ' + l[2:] if l.startswith('  ') else l for l in body)
            args = ' '.join(p_ for p_, _ in params)
            return (f'def {s.name}_fuel (fuel : Nat) {ps} : Except PyErr ({ret}) :=\n  match fuel with\n'
                    f'  | 0 => throw PyErr.fellThrough\n  | fuel+1 => do\n' + inner + '\n\n'
                    f'def {s.name} {ps} : Except PyErr ({ret}) :=\n  {s.name}_fuel {TREEFUNS[s.name][1]} {args}\n')
        return f'def {s.name} {ps} : Except PyErr ({ret}) := do\n' + '\n'.join(body) + '\n'


def lean_char(c):
    return "'" + ('\\\\' if c == '\\' else "\\'" if c == "'" else c) + "'" if 32 <= ord(c) < 127 else f'(Char.ofNat {ord(c)})'


def lean_str(x):
    return json.dumps(x, ensure_ascii=False)


def fingerprint(node):
    return hashlib.sha256(ast.dump(node, annotate_fields=False, include_attributes=False).encode()).hexdigest()[:16]


def gen_tables(mods):
    c, scr, rmd, b32, utl, sch = (mods[k] for k in ('constants', 'script', 'ripemd160', 'bech32', 'utils', 'schnorr'))
    L = ['/- GENERATED by gen/py2lean.py from /repo on every run — do not edit. -/', 'import BU.Py', '', 'namespace Gen', '']

    def dict_sb(name):    # str -> bytes
        d = getattr(c, name)
        L.append(f'def {name} : List (String × Bytes) := [' + ', '.join(f'({lean_str(k)}, {blit(v)})' for k, v in d.items()) + ']')

    for n in ('NETWORK_WIF_PREFIXES', 'NETWORK_P2PKH_PREFIXES', 'NETWORK_P2SH_PREFIXES'): dict_sb(n)
    L.append('def NETWORK_SEGWIT_PREFIXES : List (String × String) := [' +
             ', '.join(f'({lean_str(k)}, {lean_str(v)})' for k, v in c.NETWORK_SEGWIT_PREFIXES.items()) + ']')
    L.append('def BLOCK_MAGIC_NUMBER : List (Bytes × String) := [' +
             ', '.join(f'({blit(bytes.fromhex(k))}, {lean_str(v)})' for k, v in c.BLOCK_MAGIC_NUMBER.items()) + ']')
    for n in ('P2PKH_ADDRESS', 'P2SH_ADDRESS', 'P2WPKH_ADDRESS_V0', 'P2WSH_ADDRESS_V0', 'P2TR_ADDRESS_V1'):
        L.append(f'def {n} : String := {lean_str(getattr(c, n))}')
    for n in ('TAPROOT_SIGHASH_ALL', 'SIGHASH_ALL', 'SIGHASH_NONE', 'SIGHASH_SINGLE', 'SIGHASH_ANYONECANPAY',
              'TYPE_ABSOLUTE_TIMELOCK', 'TYPE_RELATIVE_TIMELOCK', 'TYPE_REPLACE_BY_FEE', 'LEAF_VERSION_TAPSCRIPT',
              'SATOSHIS_PER_BITCOIN', 'NEGATIVE_SATOSHI', 'HEADER_SIZE'):
        L.append(f'def {n} : Int := {getattr(c, n)}')
    for n in ('DEFAULT_TX_LOCKTIME', 'EMPTY_TX_SEQUENCE', 'DEFAULT_TX_SEQUENCE', 'ABSOLUTE_TIMELOCK_SEQUENCE',
              'REPLACE_BY_FEE_SEQUENCE', 'DEFAULT_TX_VERSION'):
        L.append(f'def {n} : Bytes := {blit(getattr(c, n))}')
    L.append('')
    L.append('def OP_CODES : List (String × Bytes) := [\n  ' +
             ',\n  '.join(f'({lean_str(k)}, {blit(v)})' for k, v in scr.OP_CODES.items()) + ']')
    L.append('def CODE_OPS : List (Bytes × String) := [\n  ' +
             ',\n  '.join(f'({blit(k)}, {lean_str(v)})' for k, v in scr.CODE_OPS.items()) + ']')
    L.append('')
    for n in ('ML', 'MR', 'RL', 'RR', 'KL', 'KR'):
        L.append(f'def RMD_{n} : List Nat := [' + ', '.join(str(x) for x in getattr(rmd, n)) + ']')
    L.append('')
    L.append(f'def BECH32_CHARSET : String := {lean_str(b32.CHARSET)}')
    L.append(f'def BECH32M_CONST : Nat := {b32.BECH32M_CONST}')
    # the generator list is a local of bech32_polymod: take it from the AST
    tree = ast.parse(open(f'{REPO}/bitcoinutils/bech32.py').read())
    fn = find(tree, 'bech32_polymod')
    gen = None
    for st in fn.body:
        if isinstance(st, ast.Assign) and isinstance(st.targets[0], ast.Name) and st.targets[0].id == 'generator':
            gen = ast.literal_eval(st.value)
    if gen is None: raise Unsupported('bech32_polymod: generator list not found')
    L.append('def BECH32_GENERATOR : List Nat := [' + ', '.join(str(x) for x in gen) + ']')
    L.append('')
    P = utl.Secp256k1Params
    for n in ('_p', '_a', '_b', '_Gx', '_Gy', '_order', '_field'):
        L.append(f'def SECP{n} : Nat := {getattr(P, n)}')
    L.append(f'def SCHNORR_p : Nat := {sch.p}')
    L.append(f'def SCHNORR_n : Nat := {sch.n}')
    L.append(f'def SCHNORR_Gx : Nat := {sch.G[0]}')
    L.append(f'def SCHNORR_Gy : Nat := {sch.G[1]}')
    # the message-signing magic prefix is a local constant of add_magic_prefix
    tree = ast.parse(open(f'{REPO}/bitcoinutils/utils.py').read())
    fn = find(tree, 'add_magic_prefix')
    mp = None
    for st in fn.body:
        if isinstance(st, ast.Assign) and isinstance(st.targets[0], ast.Name) and st.targets[0].id == 'magic_prefix':
            mp = ast.literal_eval(st.value)
    if not isinstance(mp, bytes): raise Unsupported('add_magic_prefix: magic_prefix not found')
    L.append(f'def MAGIC_PREFIX : Bytes := {blit(mp)}')
    L += ['', 'end Gen', '']
    return '\n'.join(L)


def gen_codec():
    trees = {}
    L = ['/- GENERATED by gen/py2lean.py from /repo on every run — do not edit. -/', 'import BU.Py', 'import BU.PyList', 'open Py', 'set_option linter.unusedVariables false', '',
         'namespace Gen', '']
    fps = {}; unsup = {}
    for name, (file, qual, params, ret) in SIG.items():
        L.append(f'-- {file}: {qual}')
        try:
            if file not in trees: trees[file] = ast.parse(open(f'{REPO}/bitcoinutils/{file}').read())
            node = find(trees[file], qual)
            fps[name] = fingerprint(node)
            tr = Tr(name, file); tr.tree = trees[file]
            txt = tr.fn(node, params, ret)
            L.append(txt)
            # may this function answer `unsupported`?  (it calls a stub, a function that may, or one of PyRT's partial string functions)
            if _re.search(r'\bPy\.(strLower|strUpper|strStrip|intBase16|hexStrFmt64)\b', txt) or any(
                    _re.search(r'(?<![\w.])' + _re.escape(t_) + r'(?![\w])', txt.split(':=', 1)[1] if ':=' in txt else txt) for t_ in MAY_UNSUPPORTED):
                MAY_UNSUPPORTED.add(name)
        except Unsupported as ex:
            MAY_UNSUPPORTED.add(name)
            # Outside the translated subset: a stub of the same type that raises `unsupported`.  Everything else still elaborates; the
            # theorems about this function (and about its callers) stop checking, and only the properties that rest on them are affected.
            unsup[name] = str(ex)
            ps = ' '.join(f'({p_} : {POINT if t_ == "Point" else t_})' for p_, t_ in params)
            r_ = POINT if ret == 'Point' else ret
            L.append(f'/- NOT TRANSLATED: {str(ex)[:300].replace("-/", "- /")} -/')
            L.append(f'def {name} {ps} : Except PyErr ({r_}) := throw PyErr.unsupported\n')
    L += ['end Gen', '']
    return '\n'.join(L), fps, unsup


def write_if_changed(path, text):
    try:
        if open(path).read() == text: return False
    except OSError:
        pass
    tmp = path + '.tmp'
    with open(tmp, 'w') as f: f.write(text)
    os.replace(tmp, path)
    return True


def main():
    sys.dont_write_bytecode = True
    sys.path.insert(0, REPO)
    try:
        mods = {k: importlib.import_module('bitcoinutils.' + k) for k in
                ('constants', 'script', 'ripemd160', 'bech32', 'utils', 'schnorr')}
        consts = mods['constants']
        for k in ('TYPE_ABSOLUTE_TIMELOCK', 'TYPE_RELATIVE_TIMELOCK', 'TYPE_REPLACE_BY_FEE'):
            CONSTS[k] = f'({getattr(consts, k)} : Int)'
        CONSTS['LEAF_VERSION_TAPSCRIPT'] = f'({consts.LEAF_VERSION_TAPSCRIPT} : Int)'
        for k in ('SIGHASH_ALL', 'SIGHASH_NONE', 'SIGHASH_SINGLE', 'SIGHASH_ANYONECANPAY', 'TAPROOT_SIGHASH_ALL'):
            CONSTS[k] = f'({getattr(consts, k)} : Int)'
        ut = mods['utils']
        if not (ut.G == mods['schnorr'].G and ut.point_add is mods['schnorr'].point_add and ut.point_mul is mods['schnorr'].point_mul
                and ut.full_pubkey_gen is mods['schnorr'].full_pubkey_gen):
            raise Unsupported('utils.py no longer takes G / point_add / point_mul / full_pubkey_gen from schnorr.py')
        CONSTS['Secp256k1Params._order'] = f'({ut.Secp256k1Params._order} : Int)'
        CONSTS['Secp256k1Params._field'] = f'({ut.Secp256k1Params._field} : Int)'
        CONSTS['Secp256k1Params._p'] = f'({ut.Secp256k1Params._p} : Int)'
        for k in ('P2PKH_ADDRESS', 'P2SH_ADDRESS', 'P2WPKH_ADDRESS_V0', 'P2WSH_ADDRESS_V0', 'P2TR_ADDRESS_V1'): CONST_STRS[k] = getattr(consts, k)
        CONSTS['HEADER_SIZE'] = f'({consts.HEADER_SIZE} : Int)'
        CONSTS['NEGATIVE_SATOSHI'] = f'({consts.NEGATIVE_SATOSHI} : Int)'
        for k in ('ABSOLUTE_TIMELOCK_SEQUENCE', 'REPLACE_BY_FEE_SEQUENCE', 'EMPTY_TX_SEQUENCE'):
            CONSTS[k] = blit(getattr(consts, k))
        b32 = mods['bech32']
        CONSTS['BECH32M_CONST'] = f'({b32.BECH32M_CONST} : Int)'
        for k in ('BECH32', 'BECH32M'):
            CONSTS[f'Encoding.{k}'] = f'({getattr(b32.Encoding, k).value} : Int)'
        FILE_CONSTS['bech32.py'] = {'CHARSET': f'({lean_str(b32.CHARSET)}.toList : List Char)'}
        rmd = mods['ripemd160']
        FILE_CONSTS['ripemd160.py'] = {k: '([' + ', '.join(f'({x} : Int)' for x in getattr(rmd, k)) + '] : List Int)'
                                       for k in ('ML', 'MR', 'RL', 'RR', 'KL', 'KR')}
        sch = mods['schnorr']
        FILE_CONSTS['schnorr.py'] = {'p': f'({sch.p} : Int)', 'n': f'({sch.n} : Int)',
                                     'G': f'(some (({sch.G[0]} : Int), ({sch.G[1]} : Int)) : {POINT})'}
        if sch.DEBUG: raise Unsupported('schnorr.DEBUG is set: debug output is outside the translated subset')
        tables = gen_tables(mods)
        codec, fps, unsup = gen_codec()
    except Unsupported as ex:
        print(f'py2lean: UNSUPPORTED: {ex}', file=sys.stderr); sys.exit(3)
    except Exception as ex:  # import errors, syntax errors, missing names …
        print(f'py2lean: FAILED: {type(ex).__name__}: {ex}', file=sys.stderr); sys.exit(3)
    os.makedirs(OUT, exist_ok=True)
    ch1 = write_if_changed(os.path.join(OUT, 'Tables.lean'), tables)
    ch2 = write_if_changed(os.path.join(OUT, 'Codec.lean'), codec)
    print(json.dumps({'tables_changed': ch1, 'codec_changed': ch2, 'functions': len(SIG), 'unsupported': unsup, 'fingerprints': fps}))


main()
