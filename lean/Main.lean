import BU.Driver.Core
import BU.Driver.Wire
import BU.Driver.Timelock
import BU.Driver.Block
import BU.Driver.Digest
import BU.Driver.Taproot
import BU.Driver.Keys
/-! Compiled driver (`lean_exe budriver`): one request per line on stdin, one answer per line on
stdout.  Imports Model/Spec/Crypto only — never `BU.Gen.*`, never Mathlib. -/
open Driver

def allOps : List (String × (Model.Tables → R String)) := wireOps ++ timelockOps ++ blockOps ++ digestOps ++ taprootOps ++ keyOps ++ keyOps2

def handle (T : Model.Tables) (line : String) : Model.Tables × String :=
  match (line.splitOn " ").filter (· ≠ "") with
  | [] => (T, "bad-op")
  | op :: args =>
    if op == "tables" then
      match (tables.run args) with
      | .ok (t, _) => (t, "ok")
      | .error e => (T, "bad-args " ++ e)
    else
      match allOps.lookup op with
      | none => (T, "bad-op")
      | some f =>
        match (f T).run args with
        | .ok (s, []) => (T, s)
        | .ok (_, _) => (T, "bad-args trailing")
        | .error e => (T, "bad-args " ++ e)

partial def loop (hIn hOut : IO.FS.Stream) (T : Model.Tables) : IO Unit := do
  let line ← hIn.getLine
  if line.isEmpty then return ()
  let (T', out) := handle T (line.trimAsciiEnd.toString)
  hOut.putStrLn out
  loop hIn hOut T'

def main : IO Unit := do
  let hIn ← IO.getStdin
  let hOut ← IO.getStdout
  loop hIn hOut default
  hOut.flush
