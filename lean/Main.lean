import BU.Driver.Core
import BU.Driver.Wire
import BU.Driver.Timelock
import BU.Driver.Block
import BU.Driver.Digest
import BU.Driver.Taproot
import BU.Driver.Keys
import BU.Driver.Heap
import BU.Driver.HD
import BU.Driver.Bch
import BU.Driver.Rmd
/-! Compiled driver (`lean_exe budriver`): one request per line on stdin, one answer per line on
stdout.  Imports Model/Spec/Crypto only — never `BU.Gen.*`, never Mathlib. -/
open Driver

def allOps : List (String × (Model.Tables → R String)) := wireOps ++ timelockOps ++ blockOps ++ digestOps ++ taprootOps ++ keyOps ++ keyOps2 ++ hdSpecOps ++ bchOps ++ rmdOps

structure St where
  tables : Model.Tables := default
  hst : HSt := {}
  hd : HDSt := []
deriving Inhabited

def handle (S : St) (line : String) : St × String :=
  let T := S.tables
  match (line.splitOn " ").filter (· ≠ "") with
  | [] => (S, "bad-op")
  | op :: args =>
    if op == "tables" then
      match (tables.run args) with
      | .ok (t, _) => ({ S with tables := t }, "ok")
      | .error e => (S, "bad-args " ++ e)
    else if op.startsWith "m:hd_" then
      match hdOps.lookup (op.drop 2).toString with
      | none => (S, "bad-op")
      | some f =>
        match (f S.hd).run args with
        | .ok ((hd, out), []) => ({ S with hd := hd }, out)
        | .ok (_, _) => (S, "bad-args trailing")
        | .error e => (S, "bad-args " ++ e)
    else if op.startsWith "m:h_" then
      match heapOps.lookup (op.drop 2).toString with
      | none => (S, "bad-op")
      | some f =>
        match (f T S.hst).run args with
        | .ok ((hst, out), []) => ({ S with hst := hst }, s!"ok {out} | {dump T hst}")
        | .ok (_, _) => (S, "bad-args trailing")
        | .error e => (S, "bad-args " ++ e)
    else
      match allOps.lookup op with
      | none => (S, "bad-op")
      | some f =>
        match (f T).run args with
        | .ok (s, []) => (S, s)
        | .ok (_, _) => (S, "bad-args trailing")
        | .error e => (S, "bad-args " ++ e)

partial def loop (hIn hOut : IO.FS.Stream) (T : St) : IO Unit := do
  let line ← hIn.getLine
  if line.isEmpty then return ()
  let (T', out) := handle T (line.trimAsciiEnd.toString)
  hOut.putStrLn out
  loop hIn hOut T'

def main : IO Unit := do
  let hIn ← IO.getStdin
  let hOut ← IO.getStdout
  loop hIn hOut default
  hOut.flush
