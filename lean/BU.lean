import BU.Py
import BU.Gen.Tables
import BU.Gen.Codec
