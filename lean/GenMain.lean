import BU.Driver.Core
import BU.Gen.Codec
import BU.Gen.Tables
/-! Interpreted driver for the *generated* definitions (`lake env lean --run GenMain.lean`): validates
the translator by running what it emitted against the implementation it was emitted from. -/
open Driver

def pair (p : Int × Int) : String := s!"{p.1} {p.2}"

def genOps : List (String × R String) := [
  ("g:cs_enc", do let n ← int; pure (ans hex (Gen.encode_varint n))),
  ("g:cs_dec", do let b ← bytes; pure (ans pair (Gen.parse_compact_size b))),
  ("g:vi_dec", do let b ← bytes; pure (ans pair (Gen.vi_to_int b))),
  ("g:prepend", do let b ← bytes; pure (ans hex (Gen.prepend_compact_size b))),
  ("g:push_data", do let b ← bytes; pure (ans hex (Gen.op_push_data b))),
  ("g:push_int", do let n ← int; pure (ans hex (Gen.push_integer n))),
  ("g:locktime", do let n ← int; pure (ans hex (Gen.locktime_for_transaction n))),
  ("g:seq", do
      let ty ← int; let v ← int; let blk ← bool
      pure (ans id (do
        Gen.sequence_init ty v blk
        let a ← Gen.sequence_for_input ty v blk
        let b := match Gen.sequence_for_script ty v blk with | .ok n => toString n | .error _ => "err"
        pure s!"{match a with | some x => hex x | none => "none"} {b}")))
]

def handle (line : String) : String :=
  match (line.splitOn " ").filter (· ≠ "") with
  | [] => "bad-op"
  | op :: args =>
    match genOps.lookup op with
    | none => "bad-op"
    | some f =>
      match f.run args with
      | .ok (s, []) => s
      | .ok (_, _) => "bad-args trailing"
      | .error e => "bad-args " ++ e

partial def loop (hIn hOut : IO.FS.Stream) : IO Unit := do
  let line ← hIn.getLine
  if line.isEmpty then return ()
  hOut.putStrLn (handle line.trimAsciiEnd.toString)
  loop hIn hOut

def main : IO Unit := do
  loop (← IO.getStdin) (← IO.getStdout)
