import BU.Driver.Core
import BU.Driver.Taproot
import BU.Driver.Keys
import BU.Driver.HD
import BU.Gen.Codec
import BU.Gen.Tables
import BU.Crypto.Sha256
/-! Interpreted driver for the *generated* definitions (`lake env lean --run GenMain.lean`): validates
the translator by running what it emitted against the implementation it was emitted from. -/
open Driver

def unTok : Py.PyTok → Spec.Tok
  | .name n => .op n
  | .int n => .int n
  | .data d => .data d

/-- a parsed transaction object as the model's transaction value (for printing) -/
def backTx (t : Py.PyTx) : Model.Tx where
  version := t.version
  locktime := t.locktime
  hasSegwit := t.has_segwit
  inputs := t.inputs.map fun i => { txid := i.txid, index := i.txout_index, scriptSig := i.script_sig.map unTok, sequence := i.sequence }
  outputs := t.outputs.map fun o => { amount := o.amount, script := o.script_pubkey.map unTok }
  witnesses := t.witnesses.map (·.stack)

def pyTree : Model.Tree → Py.PyTree
  | .leaf s => .leaf (s.map fun t => match t with
      | Spec.Tok.op n => Py.PyTok.name n | Spec.Tok.int n => Py.PyTok.int n | Spec.Tok.data d => Py.PyTok.data d)
  | .one t => .one (pyTree t)
  | .two l r => .two (pyTree l) (pyTree r)

def pyScripts : Model.Scripts → Py.PyScripts
  | .none => .none
  | .root b => .root b
  | .tree t => .tree (pyTree t)

/-- a `type/network:hex` field: the address class and the version byte -/
def tyPfx : R (String × Bytes) := do
  let s ← next
  match s.splitOn ":" with
  | [tn, h] => (match unhex h with
      | some b => pure ((tn.splitOn "/").headD "", b)
      | none => throw "bad netpfx")
  | _ => throw "bad netpfx"

def b58dec (x : String) : Except PyErr Bytes := match Spec.B58.decode x with | some d => .ok d | none => .error .valueError

/-- as `Driver.ans`, but a function the translator could not translate answers `unsupported` -/
def ansG {α} (f : α → String) : Except PyErr α → String
  | .ok v => "ok " ++ f v
  | .error .unsupported => "unsupported"
  | .error _ => "err"

def pair (p : Int × Int) : String := s!"{p.1} {p.2}"

def genOps : List (String × R String) := [
  ("g:cs_enc", do let n ← int; pure (ansG hex (Gen.encode_varint n))),
  ("g:cs_dec", do let b ← bytes; pure (ansG pair (Gen.parse_compact_size b))),
  ("g:vi_dec", do let b ← bytes; pure (ansG pair (Gen.vi_to_int b))),
  ("g:prepend", do let b ← bytes; pure (ansG hex (Gen.prepend_compact_size b))),
  ("g:push_data", do let b ← bytes; pure (ansG hex (Gen.op_push_data b))),
  ("g:push_int", do let n ← int; pure (ansG hex (Gen.push_integer n))),
  ("g:locktime", do let n ← int; pure (ansG hex (Gen.locktime_for_transaction n))),
  ("g:seq", do
      let ty ← int; let v ← int; let blk ← bool
      pure (ansG id (do
        Gen.sequence_init ty v blk
        let a ← Gen.sequence_for_input ty v blk
        let b := match Gen.sequence_for_script ty v blk with | .ok n => toString n | .error _ => "err"
        pure s!"{match a with | some x => hex x | none => "none"} {b}")))
]

def ints (xs : List Int) : String := " ".intercalate (toString xs.length :: xs.map toString)
def chars : R (List Char) := do let cs ← listOf nat; pure (cs.map Char.ofNat)
def optS {α} (f : α → String) : Option α → String | none => "none" | some x => f x

def w32 (x : Int) : Int := x % 4294967296

def genOps2 : List (String × R String) := [
  ("g:rmd_rol", do let x ← int; let i ← int; pure (ansG (fun v => toString (w32 v)) (Gen.rmd_rol x i))),
  ("g:rmd_fi", do let x ← int; let y ← int; let z ← int; let i ← int; pure (ansG (fun v => toString (w32 v)) (Gen.rmd_fi x y z i))),
  ("g:tx_len", do let b ← bytes; pure (ansG toString (Gen.get_transaction_length b))),
  ("g:polymod", do let v ← listOf int; pure (ansG toString (Gen.bech32_polymod v))),
  ("g:hrp_expand", do let h ← chars; pure (ansG ints (Gen.bech32_hrp_expand h))),
  ("g:verify_checksum", do let h ← chars; let d ← listOf int; pure (ansG (optS toString) (Gen.bech32_verify_checksum h d))),
  ("g:create_checksum", do let h ← chars; let d ← listOf int; let sp ← int; pure (ansG ints (Gen.bech32_create_checksum h d sp))),
  ("g:sign_norm", do
      -- python-ecdsa as parameters: the signer replays the logged attempts (attempt k is asked for with entropy i_to_b32(k)),
      -- the DER codec is the Spec's
      let atts ← listOf bytes; let ht ← nat
      let sign := fun (_dg : Bytes) (ent : Option Bytes) => match ent with
        | none => atts.getD 0 []
        | some b => atts.getD (Py.ofBE b) []
      let dec := fun (b : Bytes) (_ : Int) => match Spec.derDecode b with
        | some (r, s) => (Except.ok ((r : Int), (s : Int)) : Except PyErr (Int × Int))
        | none => .error .valueError
      let enc := fun (r s _n : Int) => Spec.derEncode r.toNat s.toNat
      pure (ansG hex (Gen.sign_input sign dec enc (atts.length - 1) (List.replicate 32 0) (ht : Int)))),
  ("g:b58_addr", do
      let (ty, pfx) ← tyPfx; let h ← bytes
      pure (ansG hexStr (Gen.address_to_string Crypto.sha256 Spec.B58.encode ty pfx pfx h))),
  ("g:msg_recover_g", do
      -- the recovery branch of PublicKey.__init__; python-ecdsa's from_public_key_recovery_with_digest replaced by the Spec's candidates
      -- in recovery-id order (the list ends at the first id that yields no key)
      let m ← bytes; let sig ← bytes
      let rk := fun (rs dg : Bytes) =>
        let c := (List.range 4).map (Spec.ecdsaRecover (Py.ofBE dg) (Py.ofBE (rs.take 32)) (Py.ofBE ((rs.drop 32).take 32)))
        (Except.ok ((c.takeWhile Option.isSome).filterMap id) : Except PyErr (List (Nat × Nat)))
      pure (ansG (fun (P : Nat × Nat) => s!"{hex (Py.beBytes 32 P.1)} {hex (Py.beBytes 32 P.2)}") (Gen.pubkey_recover Crypto.sha256 rk m sig))),
  ("g:is_bech32", do let a ← str; pure (ansG (fun (b : Bool) => if b then "1" else "0") (Gen.is_address_bech32 a.toList))),
  ("g:sw_init", do
      -- SegwitAddress.__init__ of the class named in the first field (script=None): numeric version and program stored
      let first ← next
      let (ty, hrp) ← (match first.splitOn ":" with
        | [tn, h] => pure ((tn.splitOn "/").headD "", h)
        | _ => throw "bad ty/net:hrp")
      let a ← next; let p ← next
      let vs := if ty == "p2wpkh" then "p2wpkhv0" else if ty == "p2wsh" then "p2wshv0" else "p2trv1"
      let addr : Option (List Char) ← (if a == "none" then pure none else if a == "-" then pure (some []) else
        match unhex a with
        | some b => (match String.fromUTF8? (ByteArray.mk b.toArray) with | some s => pure (some s.toList) | none => throw "bad utf8")
        | none => throw "bad hex")
      let prog : Option Bytes ← (if p == "none" then pure none else if p == "-" then pure (some []) else
        match unhex p with | some b => pure (some b) | none => throw "bad hex")
      pure (ansG (fun (r : Int × Bytes) => s!"{r.1} {hex r.2}") (Gen.segwit_init hrp.toList addr prog vs))),
  ("g:sw_addr", do
      let hrp ← netHrp; let v ← nat; let prog ← bytes
      pure (ansG (fun (r : Option (List Char)) => match r with | some cs => hexStr (String.ofList cs) | none => "none")
        (Gen.segwit_to_string hrp.toList (v : Int) prog))),
  ("g:sw_decode", do
      let hrp ← netHrp; let v ← nat; let a ← str
      pure (ansG hex (Gen.segwit_address_to_hash hrp.toList (v : Int) a.toList))),
  ("g:pub_addr", do
      -- PublicKey.get_address(compressed).to_string(): the stored hex string, then bytes.fromhex of it inside to_string
      let (ty, pfx) ← tyPfx; let x ← bytes; let y ← bytes; let c ← bool
      pure (ansG hexStr (do
        let stored ← Gen.pubkey_get_address Crypto.sha256 (x ++ y) c
        let h ← Py.bytesFromhex stored
        Gen.address_to_string Crypto.sha256 Spec.B58.encode ty pfx pfx h))),
  ("g:h160_init", do
      -- Address.__init__(hash160=s): what the object stores
      let _ ← tyPfx; let s ← str
      pure (ansG (fun (cs : List Char) => hexStr (String.ofList cs)) (Gen.address_init_hash160 s.toList))),
  ("g:b58_accept", do
      -- Address.__init__(address=s): validate, then decode
      let (ty, pfx) ← tyPfx; let s ← str
      pure (ansG hex (Gen.address_init_address Crypto.sha256 b58dec ty pfx pfx s))),
  ("g:hd_run", do
      -- HDWallet(xprivate_key=x, path=p0); from_path(p1); …; get_private_key() through the translated wrapper.  The third-party
      -- hdwallet object is the parameter model (root, current key) with the Spec's BIP32; a path travels as a string the wrapper
      -- only hands on
      let mainnet ← bool; let pfx ← netPfx; let x ← str; let paths ← listOf (listOf nat)
      let enc := fun (p : List Nat) => " ".intercalate (p.map toString)
      let pp := fun (s : String) => (s.splitOn " ").filterMap String.toNat?
      let nw := fun (_ : Bool) => ({ root := default, cur := default } : Model.HD.ExtHDW)
      let fm := fun (w : Model.HD.ExtHDW) (_ : String) => (Except.ok w : Except PyErr Model.HD.ExtHDW)
      let fx := fun (_ : Model.HD.ExtHDW) (s : String) => match parseXprv s with
        | some k => (Except.ok { root := k, cur := k } : Except PyErr Model.HD.ExtHDW) | none => .error .valueError
      let fd := fun (w : Model.HD.ExtHDW) (s : String) => Model.HD.ExtHDW.fromDerivation hmac w (pp s)
      let wif := fun (w : Model.HD.ExtHDW) => Model.toWif Crypto.dsha256 (Model.HD.extWifPrefix mainnet) w.cur.key true
      let dec := fun (x : String) => match Spec.B58.decode x with
        | some d => (Except.ok d : Except PyErr Bytes) | none => .error .valueError
      let sfs := fun (b : Bytes) => (Model.signingKeyFromString b).map (fun (n : Nat) => (n : Int))
      let sfe := fun (e : Int) => (Model.signingKeyFromExponent e).map (fun (n : Nat) => (n : Int))
      pure (ansG (fun (o : Option Int) => match o with | some d => hex (Py.beBytes 32 d.toNat) | none => "random") (do
        let p0 := paths.headD []
        let w0 ← Gen.hd_init Model.HD.ExtHDW nw fm fx fd mainnet (some x) (some (enc p0)) none
        let w ← (paths.drop 1).foldlM (fun w p => Gen.hd_from_path Model.HD.ExtHDW Model.HD.ExtHDW.clean fd w (enc p)) w0
        Gen.hd_get_private_key Model.HD.ExtHDW wif Crypto.sha256 dec sfs sfe pfx w))),
  ("g:priv_init", do
      -- PrivateKey.__init__: python-ecdsa's constructors replaced by their range checks, base58check by the Spec's
      let pfx ← netPfx; let w ← optStr; let e ← optInt; let b ← optBytes
      let dec := fun (x : String) => match Spec.B58.decode x with
        | some d => (Except.ok d : Except PyErr Bytes) | none => .error .valueError
      let sfs := fun (b : Bytes) => (Model.signingKeyFromString b).map (fun (n : Nat) => (n : Int))
      let sfe := fun (e : Int) => (Model.signingKeyFromExponent e).map (fun (n : Nat) => (n : Int))
      pure (ansG (fun (o : Option Int) => match o with | some d => hex (Py.beBytes 32 d.toNat) | none => "random")
        (Gen.privkey_init Crypto.sha256 dec sfs sfe pfx w e b))),
  ("g:wif_enc", do
      let pfx ← netPfx; let d ← bytes; let c ← bool
      pure (ansG hexStr (Gen.to_wif Crypto.sha256 Spec.B58.encode pfx d c))),
  ("g:wif_dec", do
      let pfx ← netPfx; let w ← str
      let dec := fun (x : String) => match Spec.B58.decode x with
        | some d => (Except.ok d : Except PyErr Bytes) | none => .error .valueError
      let sfs := fun (b : Bytes) => (Model.signingKeyFromString b).map (fun (n : Nat) => (n : Int))
      pure (ansG (fun (d : Int) => hex (Py.beBytes 32 d.toNat)) (Gen.from_wif Crypto.sha256 dec sfs pfx w))),
  ("g:pk_parse", do
      let w ← str
      let sq := fun (a _p : Int) => (Model.sqrtAll a.toNat).map Int.ofNat
      pure (ansG (fun (P : Nat × Nat) => s!"{hex (Py.beBytes 32 P.1)} {hex (Py.beBytes 32 P.2)}")
        (Gen.pubkey_from_hex sq Model.verifyingKeyFromString w.toList))),
  ("g:pk_render", do
      let ks ← bytes
      pure (ansG id (do
        let c ← Gen.pubkey_to_hex ks true
        let u ← Gen.pubkey_to_hex ks false
        let xo ← Gen.pubkey_to_x_only_hex ks
        let ev ← Gen.pubkey_is_y_even ks
        let hc ← Gen.pubkey_to_hash160 Crypto.sha256 ks true
        let hu ← Gen.pubkey_to_hash160 Crypto.sha256 ks false
        pure s!"{hex c} {hex u} {hex xo} {if ev then 1 else 0} {hex hc} {hex hu}"))),
  ("g:target", do
      let bits ← nat
      pure (ansG (fun (b : Bytes) => if b.length ≥ 32 then toString (Py.ofBE b) else "bad-width") (Gen.blockheader_target (bits : Int)))),
  ("g:blk_parse", do
      let b ← bytes
      pure (ansG (fun (k : Py.PyBlock) =>
        let h := k.header
        s!"{hex k.magic} {k.block_size} {h.version} {hex h.previous_block_hash} {hex h.merkle_root} {h.timestamp} {h.target_bits} {h.nonce} {k.transaction_count} " ++
        showList (fun t => hex (Crypto.sha256 (showTx (backTx t)).toUTF8.toList)) k.transactions) (Gen.block_from_raw Gen.CODE_OPS b))),
  ("g:hdr_parse", do
      let b ← bytes
      pure (ansG (fun (h : Py.PyHeader) => s!"{h.version} {hex h.previous_block_hash} {hex h.merkle_root} {h.timestamp} {h.target_bits} {h.nonce}")
        (Gen.blockheader_from_raw b))),
  ("g:hdr_ser", do
      let b ← bytes
      pure (ansG hex (do
        let h ← Gen.blockheader_from_raw b
        Gen.blockheader_serialize h.version h.previous_block_hash h.merkle_root h.timestamp h.target_bits h.nonce))),
  ("g:hdr_hash", do
      let b ← bytes
      pure (ansG hex (do
        let h ← Gen.blockheader_from_raw b
        Gen.blockheader_hash Crypto.sha256 h.version h.previous_block_hash h.merkle_root h.timestamp h.target_bits h.nonce))),
  ("g:tr_root", do let t ← tree; pure (ansG hex (Gen.tag_hashed_merkle_root Crypto.sha256 Gen.OP_CODES (some (pyTree t))))),
  ("g:tr_cb", do
      let pub ← bytes; let t ← tree; let k ← nat; let odd ← bool
      pure (ansG hex (do
        let path ← Gen.generate_merkle_path Crypto.sha256 Gen.OP_CODES (some (pyTree t)) (k : Int)
        Gen.control_block_to_bytes odd (pub.take 32) path))),
  ("g:tr_sign", do
      let priv ← bytes; let pub ← bytes; let s ← scripts; let digest ← bytes; let ht ← nat; let tw ← bool
      pure (ansG hex (Gen.sign_taproot_input Crypto.sha256 Gen.OP_CODES priv pub digest (ht : Int) (pyScripts s) tw))),
  ("g:tr_tweak", do
      let pub ← bytes; let s ← scripts
      pure (ansG toString (Gen.calculate_tweak Crypto.sha256 Gen.OP_CODES pub (pyScripts s)))),
  ("g:tr_addr_obj", do
      -- PublicKey.get_taproot_address(scripts): the P2TR object (version, program, parity flag)
      let pub ← bytes; let s ← scripts
      pure (ansG (fun (r : (Int × Bytes) × Bool) => s!"{r.1.1} {hex r.1.2} {if r.2 then 1 else 0}")
        (Gen.pubkey_get_taproot_address "bc".toList Crypto.sha256 Gen.OP_CODES pub (pyScripts s)))),
  ("g:tr_addr", do
      let pub ← bytes; let s ← scripts
      pure (ansG (fun (q : Bytes × Bool) => s!"{hex q.1} {if q.2 then 1 else 0}")
        (Gen.pubkey_to_taproot_hex Crypto.sha256 Gen.OP_CODES pub (pyScripts s)))),
  ("g:full_pubkey", do let k ← bytes; pure (ansG hex (Gen.schnorr_full_pubkey_gen k))),
  ("g:negate", do let k ← bytes; pure (ansG hex (Gen.negate_privkey k))),
  ("g:tweak_pub", do
      let k ← bytes; let t ← int
      pure (ansG (fun (r : Bytes × Bool) => s!"{hex r.1} {if r.2 then 1 else 0}") (Gen.tweak_taproot_pubkey k t))),
  ("g:tweak_priv", do let k ← bytes; let t ← int; pure (ansG hex (Gen.tweak_taproot_privkey k t))),
  ("g:b32_encode", do
      let h ← chars; let d ← listOf int; let sp ← int
      pure (ansG (fun (cs : List Char) => ints (cs.map fun c => (c.toNat : Int))) (Gen.bech32_encode h d sp))),
  ("g:b32_decode", do
      let b ← chars
      pure (ansG (fun (r : Option (List Char) × Option (List Int) × Option Int) => match r with
        | (some h, some d, some sp) => s!"{ints (h.map fun c => (c.toNat : Int))} {ints d} {sp}"
        | (none, none, none) => "none"
        | _ => "mixed") (Gen.bech32_decode b))),
  ("g:seg_decode", do
      let h ← chars; let a ← chars
      pure (ansG (fun (r : Option Int × Option (List Int)) => match r with
        | (some v, some d) => s!"{v} {ints d}"
        | (none, none) => "none"
        | _ => "mixed") (Gen.segwit_decode h a))),
  ("g:seg_encode", do
      let h ← chars; let v ← int; let d ← listOf int
      pure (ansG (fun (r : Option (List Char)) => match r with
        | some cs => ints (cs.map fun c => (c.toNat : Int))
        | none => "none") (Gen.segwit_encode h v d))),
  ("g:convertbits", do let d ← listOf int; let f ← int; let t ← int; let p ← bool; pure (ansG (optS ints) (Gen.convertbits d f t p)))
]

def pt : R (Option (Int × Int)) := do
  let f ← nat
  if f == 0 then pure none else do let x ← int; let y ← int; pure (some (x, y))
def ptS : Option (Int × Int) → String | none => "0" | some (x, y) => s!"1 {x} {y}"

def genOps3 : List (String × R String) := [
  ("g:asm", do
      -- the opcode table of the working tree is the generated one
      let ts ← toks
      let py := ts.map fun t => match t with
        | Spec.Tok.op n => Py.PyTok.name n | Spec.Tok.int n => Py.PyTok.int n | Spec.Tok.data d => Py.PyTok.data d
      pure (ansG hex (Gen.script_to_bytes Gen.OP_CODES py))),
  ("g:tx_ser", do
      let t ← tx; let seg ← bool
      let py := fun (ts : List Spec.Tok) => ts.map fun t => match t with
        | Spec.Tok.op n => Py.PyTok.name n | Spec.Tok.int n => Py.PyTok.int n | Spec.Tok.data d => Py.PyTok.data d
      pure (ansG hex (Gen.transaction_to_bytes Gen.OP_CODES t.version
        (t.inputs.map fun i => ⟨i.txid, i.index, py i.scriptSig, i.sequence⟩)
        (t.outputs.map fun o => ⟨o.amount, py o.script⟩) (t.witnesses.map Py.PyWit.mk) t.locktime seg))),
  ("g:disasm", do
      let b ← bytes; let seg ← bool
      let sh := fun (t : Py.PyTok) => match t with
        | Py.PyTok.name n => "o:" ++ n | Py.PyTok.int n => "i:" ++ toString n | Py.PyTok.data d => "d:" ++ hex d
      pure (ansG (fun (ts : List Py.PyTok) => " ".intercalate (toString ts.length :: ts.map sh)) (Gen.script_from_raw Gen.CODE_OPS b seg))),
  ("g:tapbranch", do let a ← bytes; let b ← bytes; pure (ansG hex (Gen.tapbranch_tagged_hash Crypto.sha256 a b))),
  ("g:tapleaf", do
      let ts ← toks
      let py := ts.map fun t => match t with
        | Spec.Tok.op n => Py.PyTok.name n | Spec.Tok.int n => Py.PyTok.int n | Spec.Tok.data d => Py.PyTok.data d
      pure (ansG hex (Gen.tapleaf_tagged_hash Crypto.sha256 Gen.OP_CODES py))),
  ("g:msg_prefix", do let m ← bytes; pure (ansG hex (Gen.add_magic_prefix m))),
  ("g:spk", do
      let ty ← next; let h ← bytes; let _net ← next
      let t := if ty == "p2pkh" then Gen.p2pkh_script_pub_key h else if ty == "p2sh" then Gen.p2sh_script_pub_key h
        else if ty == "p2wpkh" then Gen.p2wpkh_script_pub_key h else if ty == "p2wsh" then Gen.p2wsh_script_pub_key h
        else Gen.p2tr_script_pub_key h
      pure (ansG hex (t >>= Gen.script_to_bytes Gen.OP_CODES))),
  ("g:script_commit", do
      let ts ← toks
      let py := ts.map fun t => match t with
        | Spec.Tok.op n => Py.PyTok.name n | Spec.Tok.int n => Py.PyTok.int n | Spec.Tok.data d => Py.PyTok.data d
      let dat := fun (l : List Py.PyTok) => match l[1]? with | some (Py.PyTok.data d) => hex d | _ => "?"
      pure (ansG id (do
        let a ← Gen.script_to_p2sh_spk Crypto.sha256 Gen.OP_CODES py
        let b ← Gen.script_to_p2wsh_spk Crypto.sha256 Gen.OP_CODES py
        let ab ← Gen.script_to_bytes Gen.OP_CODES a
        let bb ← Gen.script_to_bytes Gen.OP_CODES b
        -- the hashes the address objects hold must be the ones the helpers commit to
        let h1 ← Gen.address_script_to_hash160 Crypto.sha256 Gen.OP_CODES py
        -- … and what P2shAddress(script=…) stores (the translated constructor)
        let h0 ← Gen.address_init_script Crypto.sha256 Gen.OP_CODES py
        if h0 != h1 then throw PyErr.other
        let h2 ← Gen.segwit_script_to_hash Crypto.sha256 Gen.OP_CODES py
        -- … and what P2wshAddress(script=…) stores (the translated constructor)
        let w0 ← Gen.segwit_init_script Crypto.sha256 Gen.OP_CODES py "p2wshv0"
        if w0 != ((0 : Int), h2) then throw PyErr.other
        if dat a != hex h1 || dat b != hex h2 then throw PyErr.other
        pure s!"{dat a} {dat b} {hex ab} {hex bb}"))),
  ("g:dig_v0", do
      let t ← tx; let i ← nat; let code ← toks; let amt ← int; let ht ← nat
      let py := fun (ts : List Spec.Tok) => ts.map fun t => match t with
        | Spec.Tok.op n => Py.PyTok.name n | Spec.Tok.int n => Py.PyTok.int n | Spec.Tok.data d => Py.PyTok.data d
      pure (ansG hex (Gen.segwit_digest Crypto.sha256 Gen.OP_CODES t.version
        (t.inputs.map fun i => ⟨i.txid, i.index, py i.scriptSig, i.sequence⟩)
        (t.outputs.map fun o => ⟨o.amount, py o.script⟩) t.locktime (i : Int) (py code) amt (ht : Int)))),
  ("g:tx_sizes", do
      let t ← tx
      let py := fun (ts : List Spec.Tok) => ts.map fun t => match t with
        | Spec.Tok.op n => Py.PyTok.name n | Spec.Tok.int n => Py.PyTok.int n | Spec.Tok.data d => Py.PyTok.data d
      let ins := t.inputs.map fun i => (⟨i.txid, i.index, py i.scriptSig, i.sequence⟩ : Py.PyTxIn)
      let outs := t.outputs.map fun o => (⟨o.amount, py o.script⟩ : Py.PyTxOut)
      pure (ansG id (do
        let a ← Gen.transaction_get_size Gen.OP_CODES t.version ins outs (t.witnesses.map Py.PyWit.mk) t.locktime t.hasSegwit
        let b ← Gen.transaction_get_vsize Gen.OP_CODES t.version ins outs (t.witnesses.map Py.PyWit.mk) t.locktime t.hasSegwit
        pure s!"{a} {b}"))),
  ("g:tx_ids", do
      let t ← tx
      let py := fun (ts : List Spec.Tok) => ts.map fun t => match t with
        | Spec.Tok.op n => Py.PyTok.name n | Spec.Tok.int n => Py.PyTok.int n | Spec.Tok.data d => Py.PyTok.data d
      let ins := t.inputs.map fun i => (⟨i.txid, i.index, py i.scriptSig, i.sequence⟩ : Py.PyTxIn)
      let outs := t.outputs.map fun o => (⟨o.amount, py o.script⟩ : Py.PyTxOut)
      pure (ansG id (do
        let a ← Gen.transaction_get_txid Crypto.sha256 Gen.OP_CODES t.version ins outs (t.witnesses.map Py.PyWit.mk) t.locktime t.hasSegwit
        let b ← Gen.transaction_get_wtxid Crypto.sha256 Gen.OP_CODES t.version ins outs (t.witnesses.map Py.PyWit.mk) t.locktime t.hasSegwit
        pure s!"{hex a} {hex b}"))),
  ("g:tx_parse", do
      let b ← bytes
      pure (ansG (fun t => showTx (backTx t)) (Gen.transaction_from_raw Gen.CODE_OPS b))),
  ("g:pk_sign", do
      -- the public ECDSA signing methods: python-ecdsa's signer answers with the logged attempts when it is handed the expected digest
      -- (and with nothing otherwise), the DER codec is the Spec's
      let seg ← bool; let t ← tx; let i ← nat; let code ← toks; let amt ← int; let ht ← nat; let want ← bytes; let atts ← listOf bytes
      let py := fun (ts : List Spec.Tok) => ts.map fun t => match t with
        | Spec.Tok.op n => Py.PyTok.name n | Spec.Tok.int n => Py.PyTok.int n | Spec.Tok.data d => Py.PyTok.data d
      let sign := fun (dg : Bytes) (ent : Option Bytes) => if dg != want then ([] : Bytes) else match ent with
        | none => atts.getD 0 []
        | some b => atts.getD (Py.ofBE b) []
      let dec := fun (b : Bytes) (_ : Int) => match Spec.derDecode b with
        | some (r, s) => (Except.ok ((r : Int), (s : Int)) : Except PyErr (Int × Int))
        | none => .error .valueError
      let enc := fun (r s _n : Int) => Spec.derEncode r.toNat s.toNat
      let ins := t.inputs.map fun i => (⟨i.txid, i.index, py i.scriptSig, i.sequence⟩ : Py.PyTxIn)
      let outs := t.outputs.map fun o => (⟨o.amount, py o.script⟩ : Py.PyTxOut)
      pure (ansG hex (if seg then
        Gen.pk_sign_segwit_input Crypto.sha256 Gen.OP_CODES sign dec enc (atts.length - 1) t.version ins outs t.locktime (i : Int) (py code) amt (ht : Int)
      else
        Gen.pk_sign_input Crypto.sha256 Gen.OP_CODES sign dec enc (atts.length - 1) t.version ins outs (t.witnesses.map Py.PyWit.mk) t.locktime
          (i : Int) (py code) (ht : Int)))),
  ("g:pk_sign_tr", do
      let priv ← bytes; let pub ← bytes; let t ← tx; let i ← nat; let spks ← listOf toks; let amts ← listOf int; let sp ← bool
      let leaf ← toks; let s ← scripts; let ht ← nat; let tw ← bool
      let py := fun (ts : List Spec.Tok) => ts.map fun t => match t with
        | Spec.Tok.op n => Py.PyTok.name n | Spec.Tok.int n => Py.PyTok.int n | Spec.Tok.data d => Py.PyTok.data d
      pure (ansG hex (Gen.pk_sign_taproot_input Crypto.sha256 Gen.OP_CODES priv pub t.version
        (t.inputs.map fun i => ⟨i.txid, i.index, py i.scriptSig, i.sequence⟩)
        (t.outputs.map fun o => ⟨o.amount, py o.script⟩) t.locktime (i : Int) (spks.map py) amts sp (py leaf) (pyScripts s) (ht : Int) tw))),
  ("g:dig_legacy", do
      let t ← tx; let i ← nat; let code ← toks; let ht ← nat
      let py := fun (ts : List Spec.Tok) => ts.map fun t => match t with
        | Spec.Tok.op n => Py.PyTok.name n | Spec.Tok.int n => Py.PyTok.int n | Spec.Tok.data d => Py.PyTok.data d
      pure (ansG hex (Gen.legacy_digest Crypto.sha256 Gen.OP_CODES t.version
        (t.inputs.map fun i => ⟨i.txid, i.index, py i.scriptSig, i.sequence⟩)
        (t.outputs.map fun o => ⟨o.amount, py o.script⟩) (t.witnesses.map Py.PyWit.mk) t.locktime (i : Int) (py code) (ht : Int)))),
  ("g:dig_v1", do
      let t ← tx; let i ← nat; let spks ← listOf toks; let amts ← listOf int; let ext ← nat; let leaf ← toks; let ht ← nat
      let py := fun (ts : List Spec.Tok) => ts.map fun t => match t with
        | Spec.Tok.op n => Py.PyTok.name n | Spec.Tok.int n => Py.PyTok.int n | Spec.Tok.data d => Py.PyTok.data d
      -- leaf_ver is passed as 0: the function overwrites it (gen_taproot_digest holds for every value)
      pure (ansG hex (Gen.taproot_digest Crypto.sha256 Gen.OP_CODES t.version
        (t.inputs.map fun i => ⟨i.txid, i.index, py i.scriptSig, i.sequence⟩)
        (t.outputs.map fun o => ⟨o.amount, py o.script⟩) t.locktime (i : Int) (spks.map py) amts (ext : Int) (py leaf) 0 (ht : Int)))),
  ("g:rmd", do let b ← bytes; pure (ansG hex (Gen.rmd_ripemd160 b))),
  ("g:schnorr_sign", do let m ← bytes; let k ← bytes; let a ← bytes; pure (ansG hex (Gen.schnorr_sign Crypto.sha256 m k a))),
  ("g:schnorr_verify", do let m ← bytes; let k ← bytes; let s ← bytes; pure (ansG (fun (b : Bool) => if b then "1" else "0") (Gen.schnorr_verify Crypto.sha256 m k s))),
  ("g:pt_add", do let a ← pt; let b ← pt; pure (ansG ptS (Gen.schnorr_point_add a b))),
  ("g:pt_mul", do let a ← pt; let k ← int; pure (ansG ptS (Gen.schnorr_point_mul a k))),
  ("g:lift_x", do let x ← int; pure (ansG ptS (Gen.schnorr_lift_x x))),
  ("g:even_y", do let a ← pt; pure (ansG (fun (b : Bool) => if b then "1" else "0") (Gen.schnorr_has_even_y a)))
]

def handle (line : String) : String :=
  match (line.splitOn " ").filter (· ≠ "") with
  | [] => "bad-op"
  | op :: args =>
    match (genOps ++ genOps2 ++ genOps3).lookup op with
    | none => "bad-op"
    | some f =>
      match f.run args with
      | .ok (s, []) => s
      | .ok (_, _) => "bad-args trailing"
      | .error e => "bad-args " ++ e

partial def loop (hIn hOut : IO.FS.Stream) : IO Unit := do
  let line ← hIn.getLine
  if line.isEmpty then return ()
  hOut.putStrLn (handle line.trimAsciiEnd.toString)
  loop hIn hOut

def main : IO Unit := do
  loop (← IO.getStdin) (← IO.getStdout)
