import BU.Py
import BU.Crypto.Secp256k1
/-! PyRT, part 2 — list-of-int operations, `^`, `ord`, `range` for the translated loops (`for`, bounded `while`,
comprehensions).  Kept apart from `BU/Py.lean` so that the files that only need byte strings do not depend on it.
Mathlib-free. -/
namespace Py

/-- Python `^` on unbounded two's-complement ints -/
def lxor : Int → Int → Int
  | .ofNat a, .ofNat b => ((a ^^^ b : Nat) : Int)
  | .ofNat a, .negSucc b => .negSucc (a ^^^ b)
  | .negSucc a, .ofNat b => .negSucc (a ^^^ b)
  | .negSucc a, .negSucc b => ((a ^^^ b : Nat) : Int)

/-- Python `xs[i]` on a list of ints, `i ≥ 0` (negative indices are outside the translated subset: the
translated functions only index with loop counters and constants) -/
def indexL (xs : List Int) (i : Int) : Except PyErr Int :=
  if i < 0 then
    -- Python counts from the end
    (match xs[(xs.length : Int).toNat - (-i).toNat]? with
     | some x => if (-i).toNat ≤ xs.length then .ok x else .error .indexError
     | none => .error .indexError)
  else match xs[i.toNat]? with
    | some x => .ok x
    | none => .error .indexError

/-- an element of `Script.script`: an opcode name (any str that is not hex data), a hex string (modelled by the bytes it
denotes) or an int -/
inductive PyTok
  | name (s : String)
  | data (b : Bytes)
  | int (n : Int)
deriving Repr, DecidableEq, Inhabited

/-- `token in OP_CODES` (a hex string or an int is never a key of the opcode table) -/
def tokInTable (ops : List (String × Bytes)) : PyTok → Bool
  | .name s => (ops.lookup s).isSome
  | _ => false
/-- `OP_CODES[key]` -/
def lookupS (ops : List (String × Bytes)) (k : String) : Except PyErr Bytes :=
  match ops.lookup k with
  | some b => .ok b
  | none => .error .other           -- KeyError
/-- `OP_CODES[token]` -/
def tokLookup (ops : List (String × Bytes)) : PyTok → Except PyErr Bytes
  | .name s => lookupS ops s
  | _ => .error .other
/-- `isinstance(token, int)` -/
def tokIsInt : PyTok → Bool
  | .int _ => true
  | _ => false
/-- the token as a number (only evaluated under `isinstance(token, int)`) -/
def tokInt : PyTok → Int
  | .int n => n
  | _ => 0
/-- `h_to_b(token)`: the bytes a hex string denotes; a str that is not hex raises ValueError -/
def tokData : PyTok → Except PyErr Bytes
  | .data b => .ok b
  | .name _ => .error .valueError
  | .int _ => .error .typeError
/-- `key in CODE_OPS` / `CODE_OPS[key]` for the bytes-keyed opcode table -/
def inTableB (t : List (Bytes × String)) (k : Bytes) : Bool := (t.lookup k).isSome
def lookupB (t : List (Bytes × String)) (k : Bytes) : Except PyErr String :=
  match t.lookup k with
  | some s => .ok s
  | none => .error .other           -- KeyError

/-- `tokens[k]` for a constant non-negative index -/
def tokIndex (ts : List PyTok) (k : Int) : Except PyErr PyTok :=
  if k < 0 then .error .indexError
  else match ts[k.toNat]? with
    | some t => .ok t
    | none => .error .indexError

/-- the fields of a `TxInput` / `TxOutput` / `TxWitnessInput` object that the serialisers read (txid: the bytes its hex string
denotes, in display order) -/
structure PyTxIn where
  txid : Bytes
  txout_index : Int
  script_sig : List PyTok
  sequence : Bytes
deriving Repr, Inhabited
structure PyTxOut where
  amount : Int
  script_pubkey : List PyTok
deriving Repr, Inhabited
structure PyWit where
  stack : List Bytes
deriving Repr, Inhabited

/-! ### strings (lists of characters) and possibly-None values -/

/-- a use of a value that may be `None` where Python needs the value (`None[0]`, `len(None)`, `[x] + None`): `TypeError` -/
def unwrap {α : Type} : Option α → Except PyErr α
  | some a => .ok a
  | none => .error .typeError

def lowerA (c : Char) : Char := if 'A' ≤ c ∧ c ≤ 'Z' then Char.ofNat (c.toNat + 32) else c
def upperA (c : Char) : Char := if 'a' ≤ c ∧ c ≤ 'z' then Char.ofNat (c.toNat - 32) else c

/-- `str.lower()` on ASCII strings; Unicode case mapping is outside the modelled subset (`unsupported`, never a wrong answer) -/
def strLower (s : List Char) : Except PyErr (List Char) :=
  if s.any (fun c => c.toNat ≥ 128) then .error .unsupported else .ok (s.map lowerA)
def strUpper (s : List Char) : Except PyErr (List Char) :=
  if s.any (fun c => c.toNat ≥ 128) then .error .unsupported else .ok (s.map upperA)

/-- `s.find(c)` for one character: the first index, or -1 -/
def strFind (s : List Char) (c : Char) : Int :=
  if s.contains c then (s.idxOf c : Nat) else -1

/-- `s.rfind(c)` for one character: the last index, or -1 -/
def strRfind (s : List Char) (c : Char) : Int :=
  match ((List.range s.length).filter (fun i => s.getD i ' ' == c)).getLast? with
  | some i => (i : Nat)
  | none => -1

/-- Python `l[lo:hi]` on a list, negative bounds counted from the end, everything clamped; never raises -/
def sliceL {α : Type} (l : List α) (lo hi : Int) : List α :=
  let n : Int := l.length
  let norm := fun (x : Int) => if x < 0 then (if x + n < 0 then 0 else x + n) else (if x > n then n else x)
  (l.drop (norm lo).toNat).take ((norm hi).toNat - (norm lo).toNat)

/-! ### the taproot script tree -/

/-- a Script, or a (nested) list of them: the empty list, lists of one and two elements, and longer lists (which the code refuses
whatever they contain) -/
inductive PyTree where
  | leaf (s : List PyTok)
  | nil
  | one (t : PyTree)
  | two (l r : PyTree)
  | many
deriving Inhabited

/-- the `scripts` argument of `calculate_tweak`: `None`, a raw merkle root, or a tree -/
inductive PyScripts where
  | none
  | root (b : Bytes)
  | tree (t : PyTree)
deriving Inhabited

def treeDepth : Option PyTree → Nat
  | none => 0
  | some t => go t
where go : PyTree → Nat
  | .one t => go t + 1
  | .two l r => max (go l) (go r) + 1
  | _ => 0

/-- `not scripts`: `None` and the empty list are falsy, a Script object and a non-empty list are truthy -/
def treeFalsy : Option PyTree → Bool
  | none => true
  | some .nil => true
  | _ => false

def treeIsList : Option PyTree → Bool
  | some (.leaf _) => false
  | none => false
  | _ => true

/-- `len(scripts)`; every length ≥ 3 behaves alike (reported as 3); a Script object or `None` has no `len` -/
def treeLen : Option PyTree → Except PyErr Int
  | some .nil => .ok 0
  | some (.one _) => .ok 1
  | some (.two _ _) => .ok 2
  | some .many => .ok 3
  | _ => .error .typeError

/-- `scripts[i]` (negative indices count from the end); the children of a list of three or more are not modelled -/
def treeChild (t : Option PyTree) (i : Int) : Except PyErr (Option PyTree) :=
  match t with
  | some (.one a) => if i = 0 ∨ i = -1 then .ok (some a) else .error .indexError
  | some (.two a b) => if i = 0 ∨ i = -2 then .ok (some a) else if i = 1 ∨ i = -1 then .ok (some b) else .error .indexError
  | some .nil => .error .indexError
  | some .many => .error .unsupported
  | _ => .error .typeError

/-- the Script behind `tapleaf_tagged_hash(scripts)` (`AttributeError` for a list or `None`) -/
def treeLeafToks : Option PyTree → Except PyErr (List PyTok)
  | some (.leaf s) => .ok s
  | _ => .error .other

def scriptsFalsy : PyScripts → Bool
  | .none => true
  | .root b => b.isEmpty
  | .tree t => treeFalsy (some t)

def scriptsIsBytes : PyScripts → Bool
  | .root _ => true
  | _ => false

/-- `key_x + scripts` for a bytes value (`TypeError` otherwise) -/
def scriptsBytes : PyScripts → Except PyErr Bytes
  | .root b => .ok b
  | _ => .error .typeError

def scriptsTree : PyScripts → Option PyTree
  | .tree t => some t
  | _ => none

/-! ### hex strings of 64+ digits -/

/-- big-endian bytes of a natural number, minimal length (empty for 0) -/
def natBytesBE (n : Nat) : Bytes := (Py.leBytes ((Py.natBits n + 7) / 8) n).reverse

/-- number of hex digits of `f"{v:064x}"` for `v ≥ 0` -/
def hexLen64 (v : Nat) : Nat := if v < 2 ^ 256 then 64 else (Py.natBits v + 3) / 4

/-- hex digits (as numbers) of `f"{v:064x}"` for `v ≥ 0` -/
def hexDigits64 (v : Nat) : List Nat := (List.range (hexLen64 v)).reverse.map fun i => (v >>> (4 * i)) % 16

def pairUp : List Nat → Bytes
  | a :: b :: rest => UInt8.ofNat (a * 16 + b) :: pairUp rest
  | _ => []

/-- `int(h, 16)` / `h_to_i(h)` for a hex string of an even number of digits given as the bytes it denotes: `ValueError` on the empty
string -/
def hToI (b : Bytes) : Except PyErr Int :=
  if b.isEmpty then .error .valueError else .ok (Py.ofBE b : Nat)

/-- `bytes.fromhex(f"{a:064x}{b:064x}…")`: a negative value prints a minus sign and an odd total number of digits is not hex either
(`ValueError`); values below 2^256 — the case that matters — print exactly 64 digits each -/
def fromhexFmt64 (vs : List Int) : Except PyErr Bytes :=
  if vs.any (· < 0) then .error .valueError
  else if vs.all (· < 2 ^ 256) then .ok (vs.flatMap fun v => (Py.leBytes 32 v.toNat).reverse)
  else
    let ds := vs.flatMap fun v => hexDigits64 v.toNat
    if ds.length % 2 = 1 then .error .valueError else .ok (pairUp ds)

/-- `f"{a:064x}…"` kept as a hex *string*: representable as the bytes it denotes only when non-negative with an even number of digits
(otherwise `unsupported`: outside the modelled subset, never a wrong answer) -/
def hexStrFmt64 (vs : List Int) : Except PyErr Bytes :=
  if vs.any (· < 0) then .error .unsupported
  else if vs.all (· < 2 ^ 256) then .ok (vs.flatMap fun v => (Py.leBytes 32 v.toNat).reverse)
  else
    let ds := vs.flatMap fun v => hexDigits64 v.toNat
    if ds.length % 2 = 1 then .error .unsupported else .ok (pairUp ds)

/-- `Q[0]` / `Q[1]` on a value that is a point or `None` (`TypeError` on `None`) -/
def ptIdx (P : Option (Int × Int)) (i : Nat) : Except PyErr Int :=
  match P with
  | none => .error .typeError
  | some (x, y) => .ok (if i = 0 then x else y)

/-- Python `l[lo:]` on a list (negative `lo` counted from the end, clamped) -/
def sliceFromL {α : Type} (l : List α) (lo : Int) : List α :=
  let n : Int := l.length
  l.drop (if lo < 0 then (if lo + n < 0 then 0 else lo + n) else lo).toNat

/-- `math.ceil(num / den)` for a positive denominator, computed exactly -/
def ceilDiv (num den : Int) : Int := -((-num) / den)

/-- a `BlockHeader` object: the constructor's parameters in order -/
structure PyHeader where
  version : Int
  previous_block_hash : Bytes
  merkle_root : Bytes
  timestamp : Int
  target_bits : Int
  nonce : Int
deriving Repr, Inhabited

/-- `struct.unpack(fmt, buf)`: the buffer must have exactly the size of the format -/
def bufExact (buf : Bytes) (size : Nat) : Except PyErr Bytes :=
  if buf.length = size then .ok buf else .error .structError

/-- a `Transaction` object: the constructor's parameters in order -/
structure PyTx where
  inputs : List PyTxIn
  outputs : List PyTxOut
  locktime : Bytes
  version : Bytes
  has_segwit : Bool
  witnesses : List PyWit
deriving Repr, Inhabited

/-- a `Block` object: the constructor's parameters in order -/
structure PyBlock where
  magic : Bytes
  block_size : Int
  header : PyHeader
  transaction_count : Int
  transactions : List PyTx
deriving Repr, Inhabited

/-- did a call end in the translator's "outside the subset" stub?  (an `except Exception` never swallows that) -/
def isUnsupported {α : Type} : Except PyErr α → Bool
  | .error .unsupported => true
  | _ => false

/-- the `size` bytes that `struct.unpack_from(fmt, buf, offset)` reads: a negative offset counts from the end (and must not reach before
the start); fewer than `size` bytes left is `struct.error` -/
def bufAt (buf : Bytes) (offset : Int) (size : Nat) : Except PyErr Bytes :=
  let off : Int := if offset < 0 then offset + buf.length else offset
  if off < 0 then .error .structError
  else if (buf.length : Int) - off < size then .error .structError
  else .ok ((buf.drop off.toNat).take size)

/-- `struct.unpack_from(f'{n}s', buf, offset)[0]`: a negative count is not a format (`struct.error`); a count beyond the buffer fails like
any short read (CPython raises `struct.error` for sizes it cannot even represent) -/
def unpackFromS (n : Int) (buf : Bytes) (offset : Int) : Except PyErr Bytes :=
  if n < 0 then .error .structError else bufAt buf offset n.toNat

/-- `xs[i] = x` for an index that `listGet` accepted (Python counts a negative index from the end) -/
def listSet {α : Type} (xs : List α) (i : Int) (x : α) : List α :=
  let j : Int := if i < 0 then i + xs.length else i
  xs.set j.toNat x

/-- Python `xs[i]` on a list (a negative index counts from the end) -/
def listGet {α : Type} (xs : List α) (i : Int) : Except PyErr α :=
  let j : Int := if i < 0 then i + xs.length else i
  if j < 0 then .error .indexError
  else match xs[j.toNat]? with
    | some x => .ok x
    | none => .error .indexError

/-- `str(i)` -/
def strInt (i : Int) : String := toString i

/-- Python `a < b` on bytes: lexicographic, a proper prefix is smaller -/
def bytesLt : Bytes → Bytes → Bool
  | [], [] => false
  | [], _ :: _ => true
  | _ :: _, [] => false
  | a :: as, b :: bs => if a.toNat < b.toNat then true else if a.toNat > b.toNat then false else bytesLt as bs

/-- `bytes(x ^ y for (x, y) in zip(a, b))` -/
def xorBytes (a b : Bytes) : Bytes := (a.zip b).map fun p => p.1 ^^^ p.2

/-- Python `b * n` on bytes (a non-positive count gives the empty string) -/
def bytesRepeat (b : Bytes) (n : Int) : Bytes := (List.replicate n.toNat b).flatten

/-- Python `~x` -/
def lnot (x : Int) : Int := -x - 1

/-- Python `ord(c)` -/
def ord (c : Char) : Int := c.toNat

/-- Python `range(n)` as a list -/
def range (n : Int) : List Int := (List.range n.toNat).map Int.ofNat

/-- the accessors `x(P)` / `y(P)` of schnorr.py: `assert not is_infinite(P); return P[0]` (`P[1]`) -/
def ptX : Option (Int × Int) → Except PyErr Int
  | some (x, _) => .ok x
  | none => .error .assertion
def ptY : Option (Int × Int) → Except PyErr Int
  | some (_, y) => .ok y
  | none => .error .assertion

/-- Python's three-argument `pow(b, e, m)` for `e ≥ 0`, `m > 0` (the result lies in `[0, m)` whatever the sign of `b`);
`m = 0` raises ValueError; negative exponents / moduli are outside the translated subset.  Evaluated by
square-and-multiply (`Secp.powMod`), so that the generated code stays executable on 256-bit exponents. -/
def powMod (b e m : Int) : Except PyErr Int :=
  if m = 0 then .error .valueError
  else if e < 0 ∨ m < 0 then .error .other
  else .ok ((Secp.powMod (b % m).toNat e.toNat m.toNat : Nat) : Int)

/-- `memoryview(b).tolist()` / `list(b)`: the bytes as ints -/
def intsOfBytes (b : Bytes) : List Int := b.map fun u => (u.toNat : Int)

/-! ### hex strings as real strings: `str.strip`, `bytes.fromhex`, `int(s, 16)` -/

/-- `c.isspace()` for an ASCII character: what `str.strip()` removes — `\t \n \v \f \r`, `\x1c`–`\x1f` and the space -/
def isSpaceU (c : Char) : Bool := (9 ≤ c.toNat && c.toNat ≤ 13) || (28 ≤ c.toNat && c.toNat ≤ 32)
/-- C `isspace` in the C locale (`Py_ISSPACE`): what `bytes.fromhex` skips and `int()` strips — no `\x1c`–`\x1f` -/
def isSpaceC (c : Char) : Bool := (9 ≤ c.toNat && c.toNat ≤ 13) || c.toNat == 32

/-- `s.strip()` on ASCII strings (Unicode whitespace is outside the modelled subset: `unsupported`, never a wrong answer) -/
def strStrip (s : List Char) : Except PyErr (List Char) :=
  if s.any (fun c => c.toNat ≥ 128) then .error .unsupported
  else .ok ((s.dropWhile isSpaceU).reverse.dropWhile isSpaceU).reverse

/-- `s.startswith(pre)` -/
def strStartswith (s pre : List Char) : Bool := pre.isPrefixOf s

/-- value of one hex digit -/
def hexVal (c : Char) : Option Nat :=
  if '0' ≤ c ∧ c ≤ '9' then some (c.toNat - 48)
  else if 'a' ≤ c ∧ c ≤ 'f' then some (c.toNat - 87)
  else if 'A' ≤ c ∧ c ≤ 'F' then some (c.toNat - 55)
  else none

/-- `bytes.fromhex(s)`: pairs of hex digits, ASCII whitespace skipped between (not inside) pairs; anything else `ValueError` -/
def bytesFromhex : List Char → Except PyErr Bytes
  | [] => .ok []
  | [c] => if isSpaceC c then .ok [] else .error .valueError
  | c :: d :: rest =>
    if isSpaceC c then bytesFromhex (d :: rest)
    else match hexVal c, hexVal d with
      | some hi, some lo => (bytesFromhex rest).map (UInt8.ofNat (hi * 16 + lo) :: ·)
      | _, _ => .error .valueError

/-- the digit scan of CPython's `PyLong_FromString` for base 16: hex digits with single underscores between them; returns the
value, the number of digits and what follows (`none`: doubled or trailing underscore) -/
def scanHex : List Char → Bool → Nat → Nat → Option (Nat × Nat × List Char)
  | [], pu, acc, nd => if pu then none else some (acc, nd, [])
  | c :: r, pu, acc, nd =>
    if c = '_' then (if pu then none else scanHex r true acc nd)
    else match hexVal c with
      | some d => scanHex r false (acc * 16 + d) (nd + 1)
      | none => if pu then none else some (acc, nd, c :: r)

/-- `int(s, 16)` on ASCII strings: surrounding C whitespace, an optional sign, an optional `0x`/`0X` (after which one underscore may
follow), digits with single underscores between them; anything else `ValueError`.  Non-ASCII strings (Unicode digits and spaces) are
outside the modelled subset (`unsupported`). -/
def intBase16 (s : List Char) : Except PyErr Int :=
  if s.any (fun c => c.toNat ≥ 128) then .error .unsupported
  else
    let t := s.dropWhile isSpaceC
    let neg := t.head? == some '-'
    let t := if t.head? == some '-' || t.head? == some '+' then t.tail else t
    let pfx := t.head? == some '0' && (t.tail.head? == some 'x' || t.tail.head? == some 'X')
    let t := if pfx then (if (t.drop 2).head? == some '_' then t.drop 3 else t.drop 2) else t
    if t.head? == some '_' then .error .valueError
    else
      match scanHex t false 0 0 with
      | none => .error .valueError
      | some (v, nd, rest) =>
        if nd = 0 then .error .valueError
        else if rest.all isSpaceC then .ok (if neg then -(v : Int) else (v : Int))
        else .error .valueError

/-- the lower-case hex string of a byte string (`bytes.hex()`) as a string -/
def hexChar (n : Nat) : Char := if n < 10 then Char.ofNat (48 + n) else Char.ofNat (87 + n)
def hexOf (b : Bytes) : List Char := b.flatMap fun u => [hexChar (u.toNat / 16), hexChar (u.toNat % 16)]

@[simp] theorem lxor_ofNat (a b : Nat) : lxor (a : Int) (b : Int) = ((a ^^^ b : Nat) : Int) := rfl
@[simp] theorem range_ofNat (n : Nat) : range (n : Int) = (List.range n).map Int.ofNat := by simp [range]

end Py
