import BU.Py
/-! PyRT, part 2 — list-of-int operations, `^`, `ord`, `range` for the translated loops (`for`, bounded `while`,
comprehensions).  Kept apart from `BU/Py.lean` so that the files that only need byte strings do not depend on it.
Mathlib-free. -/
namespace Py

/-- Python `^` on unbounded two's-complement ints -/
def lxor : Int → Int → Int
  | .ofNat a, .ofNat b => ((a ^^^ b : Nat) : Int)
  | .ofNat a, .negSucc b => .negSucc (a ^^^ b)
  | .negSucc a, .ofNat b => .negSucc (a ^^^ b)
  | .negSucc a, .negSucc b => ((a ^^^ b : Nat) : Int)

/-- Python `xs[i]` on a list of ints, `i ≥ 0` (negative indices are outside the translated subset: the
translated functions only index with loop counters and constants) -/
def indexL (xs : List Int) (i : Int) : Except PyErr Int :=
  if i < 0 then
    -- Python counts from the end
    (match xs[(xs.length : Int).toNat - (-i).toNat]? with
     | some x => if (-i).toNat ≤ xs.length then .ok x else .error .indexError
     | none => .error .indexError)
  else match xs[i.toNat]? with
    | some x => .ok x
    | none => .error .indexError

/-- Python `~x` -/
def lnot (x : Int) : Int := -x - 1

/-- Python `ord(c)` -/
def ord (c : Char) : Int := c.toNat

/-- Python `range(n)` as a list -/
def range (n : Int) : List Int := (List.range n.toNat).map Int.ofNat

@[simp] theorem lxor_ofNat (a b : Nat) : lxor (a : Int) (b : Int) = ((a ^^^ b : Nat) : Int) := rfl
@[simp] theorem range_ofNat (n : Nat) : range (n : Int) = (List.range n).map Int.ofNat := by simp [range]

end Py
