import BU.Py
import BU.Model.Tx
/-! Pure model of "sign input i and attach the result" operations, for the order-independence part of C13. -/
namespace Model
namespace Order
open Py Spec

/-- what the three digests read: everything except scriptSigs and witnesses -/
def skeleton (t : Tx) : Bytes × Bytes × List TxOut × List (Bytes × Int × Bytes) :=
  (t.version, t.locktime, t.outputs, t.inputs.map fun x => (x.txid, x.index, x.sequence))

/-- a sign-and-attach operation: computes something from the transaction (a signature over one of the three
digests, by any deterministic signer) and stores it as scriptSig `slot` or as witness stack `slot` -/
structure Op where
  slot : Nat
  isWitness : Bool
  sigScript : Tx → List Tok      -- used when `isWitness = false`
  sigStack : Tx → List Bytes     -- used when `isWitness = true`

def Op.apply (o : Op) (t : Tx) : Tx :=
  if o.isWitness then { t with witnesses := t.witnesses.set o.slot (o.sigStack t) }
  else { t with inputs := t.inputs.mapIdx fun k x => if k = o.slot then { x with scriptSig := o.sigScript t } else x }

/-- the operation only looks at what the digests look at -/
def Op.SkeletonOnly (o : Op) : Prop :=
  ∀ t t', skeleton t = skeleton t' → o.sigScript t = o.sigScript t' ∧ o.sigStack t = o.sigStack t'

def run (ops : List Op) (t : Tx) : Tx := ops.foldl (fun acc o => o.apply acc) t

end Order
end Model
