import BU.Py
import BU.Spec.Sighash
import BU.Model.Tx
/-! Hand model (tier M) of the three digest functions of `Transaction`, *with their temporaries*
(the copied transaction, blanked scriptSigs, dropped outputs …). -/
namespace Model
open Py Spec

def setAt {α} (l : List α) (i : Nat) (x : α) : List α := l.set i x

def zeroOtherSequences (ins : List TxIn) (i : Nat) : List TxIn :=
  ins.mapIdx fun k x => if k ≠ i then { x with sequence := [0, 0, 0, 0] } else x

/-- `get_transaction_digest` -/
def legacyDigest (sha256 : Bytes → Bytes) (T : Tables) (t : Tx) (i : Nat) (code : List Tok) (ht : Nat) :
    Except PyErr Bytes := do
  -- tmp_tx = copy(self); every scriptSig blanked
  let ins0 := t.inputs.map fun x => { x with scriptSig := [] }
  -- tmp_tx.inputs[txin_index].script_sig = script
  let some x := ins0[i]? | throw PyErr.indexError
  let ins1 := ins0.set i { x with scriptSig := code }
  let base := ht &&& 0x1f
  let (ins2, outs) ←
    if base = 2 then pure (zeroOtherSequences ins1 i, ([] : List TxOut))
    else if base = 3 then
      (match t.outputs[i]? with
       | none => throw PyErr.valueError
       | some o => pure (zeroOtherSequences ins1 i, List.replicate i ({ amount := -1, script := [] } : TxOut) ++ [o]))
    else pure (ins1, t.outputs)
  let ins3 := if ht &&& 0x80 ≠ 0 then (match ins2[i]? with | some y => [y] | none => []) else ins2
  let tmp : Tx := { t with inputs := ins3, outputs := outs }
  let ser ← tmp.toBytes T false
  let htb ← Py.pack "<i" ht
  pure (sha256 (sha256 (ser ++ htb)))

def outpointBytes (x : TxIn) : Except PyErr Bytes := do
  let ix ← Py.pack "<I" x.index
  pure (x.txid.reverse ++ ix)

/-- `get_transaction_segwit_digest` -/
def segwitDigest (sha256 : Bytes → Bytes) (T : Tables) (t : Tx) (i : Nat) (code : List Tok) (amount : Int)
    (ht : Nat) : Except PyErr Bytes := do
  let dsha := fun b => sha256 (sha256 b)
  let base := ht &&& 0x1f
  let anyone := (ht &&& 0xf0) == 0x80
  let signAll := base ≠ 3 ∧ base ≠ 2
  let hashPrevouts ← if !anyone then (do let ps ← concatM (t.inputs.map outpointBytes); pure (dsha ps)) else pure (zeros 32)
  let hashSequence := if !anyone ∧ signAll then dsha (t.inputs.flatMap (·.sequence)) else zeros 32
  let hashOutputs ←
    if signAll then (do let os ← concatM (t.outputs.map (TxOut.toBytes T)); pure (dsha os))
    else if base = 3 ∧ i < t.outputs.length then
      (match t.outputs[i]? with
       | some o => (do let ob ← o.toBytes T; pure (dsha ob))
       | none => pure (zeros 32))
    else pure (zeros 32)
  let some txin := t.inputs[i]? | throw PyErr.indexError
  let op ← outpointBytes txin
  let codeB ← scriptBytes T code
  let amt ← Py.pack "<q" amount
  let htb ← Py.pack "<i" ht
  pure (dsha (t.version ++ hashPrevouts ++ hashSequence ++ op ++ compactSize codeB.length ++ codeB ++ amt ++
              txin.sequence ++ hashOutputs ++ t.locktime ++ htb))

/-- `a.to_bytes(8, "little")` -/
def le8 (a : Int) : Except PyErr Bytes := Py.toBytes a 8 .little

/-- output as the taproot digest serialises it (`struct.pack("<Q", amount)`: unsigned) -/
def tapOutBytes (T : Tables) (o : TxOut) : Except PyErr Bytes := do
  let a ← Py.pack "<Q" o.amount
  let s ← scriptBytes T o.script
  pure (a ++ compactSize s.length ++ s)

def spkBytes (T : Tables) (s : List Tok) : Except PyErr Bytes := do
  let b ← scriptBytes T s
  pure (withLen b)

/-- `get_transaction_taproot_digest` -/
def taprootDigest (sha256 : Bytes → Bytes) (T : Tables) (t : Tx) (i : Nat) (spks : List (List Tok))
    (amounts : List Int) (ext : Nat) (leaf : List Tok) (ht : Nat) : Except PyErr Bytes := do
  let none_ := ht &&& 3 = 2
  let single := ht &&& 3 = 3
  let anyone := ht &&& 0x80 = 0x80
  let htB ← Py.bytesOfInts [(ht : Int)]
  let mut msg := [0x00] ++ htB ++ t.version ++ t.locktime
  if !anyone then
    let ps ← concatM (t.inputs.map outpointBytes)
    let as ← concatM (amounts.map le8)
    let ss ← concatM (spks.map (spkBytes T))
    msg := msg ++ sha256 ps ++ sha256 as ++ sha256 ss ++ sha256 (t.inputs.flatMap (·.sequence))
  if !(none_ ∨ single) then
    let os ← concatM (t.outputs.map (tapOutBytes T))
    msg := msg ++ sha256 os
  let st ← Py.bytesOfInts [((ext * 2 : Nat) : Int)]
  msg := msg ++ st
  if anyone then
    let some txin := t.inputs[i]? | throw PyErr.indexError
    let op ← outpointBytes txin
    let some a := amounts[i]? | throw PyErr.indexError
    let ab ← le8 a
    let some s := spks[i]? | throw PyErr.indexError
    let sb ← spkBytes T s
    msg := msg ++ op ++ ab ++ sb ++ txin.sequence
  else
    let ib ← Py.toBytes i 4 .little
    msg := msg ++ ib
  if single then
    let some o := t.outputs[i]? | throw PyErr.indexError
    let ob ← tapOutBytes T o
    msg := msg ++ sha256 ob
  if ext = 1 then
    let lb ← scriptBytes T leaf
    msg := msg ++ taggedHash sha256 "TapLeaf" ([0xc0] ++ withLen lb) ++ [0x00] ++ [0xff, 0xff, 0xff, 0xff]
  pure (taggedHash sha256 "TapSighash" msg)

end Model
