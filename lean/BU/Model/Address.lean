import BU.Py
import BU.Spec.Base58
import BU.Spec.Script
import BU.Model.Script
import BU.Model.Ripemd
import BU.Model.Bech32
/-! Hand model (tier M) of the address classes of `bitcoinutils/keys.py` (`Address`, `P2pkhAddress`,
`P2shAddress`, `SegwitAddress`, `P2wpkhAddress`, `P2wshAddress`, `P2trAddress`), of
`utils.is_address_bech32` and of `Script.to_p2sh_script_pub_key / to_p2wsh_script_pub_key`.
`base58check` is `Spec.B58`; network prefixes are parameters (the generated tables in the theorems). -/
namespace Model
open Py Spec

/-- `Address.to_string` for version prefix `pfx` -/
def addrToString (dsha : Bytes → Bytes) (pfx : Bytes) (h160 : Bytes) : String :=
  let data := pfx ++ h160
  B58.encode (data ++ (dsha data).take 4)

/-- `Address._is_address_valid` -/
def isAddressValid (dsha : Bytes → Bytes) (pfx : Bytes) (s : String) : Except PyErr Bool :=
  let cs := s.toList
  if !(cs.all fun c => B58.alphabet.contains c) then .ok false
  else if cs.length < 26 ∨ cs.length > 35 then .ok false
  else
    match B58.decode s with
    | none => .error .valueError
    | some dc =>
      if dc.length ≠ 25 then .ok false
      else
        let data := dc.take (dc.length - 4)
        if dc.take 1 != pfx then .ok false
        else if (dsha data).take 4 != dc.drop (dc.length - 4) then .ok false
        else .ok true

/-- `Address._address_to_hash160` -/
def addressToHash160 (s : String) : Except PyErr Bytes :=
  match B58.decode s with
  | none => .error .valueError
  | some dc => .ok ((dc.take (dc.length - 4)).drop 1)

/-- `Address.__init__(address=…)`: the hash160 held, or ValueError -/
def addrFromString (dsha : Bytes → Bytes) (pfx : Bytes) (s : String) : Except PyErr Bytes := do
  if s.isEmpty then throw PyErr.typeError
  let ok ← isAddressValid dsha pfx s
  if !ok then throw PyErr.valueError
  addressToHash160 s

/-- `Address.__init__(hash160=…)` (the hex string is modelled as the bytes it denotes) -/
def addrFromHash160 (h : Bytes) : Except PyErr Bytes :=
  if h.isEmpty then .error .typeError else if h.length ≠ 20 then .error .valueError else .ok h

/-- `Address._script_to_hash160` -/
def scriptToHash160 (sha256 : Bytes → Bytes) (tb : Rmd.Tabs) (T : Tables) (s : List Tok) : Except PyErr Bytes := do
  let b ← scriptBytes T s
  pure (hash160 sha256 tb b)

/-- `SegwitAddress._script_to_hash` -/
def scriptToSha256 (sha256 : Bytes → Bytes) (T : Tables) (s : List Tok) : Except PyErr Bytes := do
  let b ← scriptBytes T s
  pure (sha256 b)

/-! locking-script templates (`to_script_pub_key`) -/
def spkP2pkh (h : Bytes) : List Tok := [.op "OP_DUP", .op "OP_HASH160", .data h, .op "OP_EQUALVERIFY", .op "OP_CHECKSIG"]
def spkP2sh (h : Bytes) : List Tok := [.op "OP_HASH160", .data h, .op "OP_EQUAL"]
def spkP2wpkh (prog : Bytes) : List Tok := [.op "OP_0", .data prog]
def spkP2wsh (prog : Bytes) : List Tok := [.op "OP_0", .data prog]
def spkP2tr (prog : Bytes) : List Tok := [.op "OP_1", .data prog]

/-- `Script.to_p2sh_script_pub_key` -/
def toP2shSpk (sha256 : Bytes → Bytes) (tb : Rmd.Tabs) (T : Tables) (s : List Tok) : Except PyErr (List Tok) := do
  let h ← scriptToHash160 sha256 tb T s
  pure [.op "OP_HASH160", .data h, .op "OP_EQUAL"]

/-- `Script.to_p2wsh_script_pub_key` -/
def toP2wshSpk (sha256 : Bytes → Bytes) (T : Tables) (s : List Tok) : Except PyErr (List Tok) := do
  let h ← scriptToSha256 sha256 T s
  pure [.op "OP_0", .data h]

/-- `SegwitAddress.to_string` (`none` = the encoder returned None) -/
def segwitToString (c : Bech32.Consts) (hrp : String) (ver : Nat) (prog : Bytes) : Option String :=
  (Bech32.encode c hrp.toList ver (prog.map (·.toNat))).map String.ofList

/-- `SegwitAddress._address_to_hash` for an object of segwit version `ver` -/
def segwitFromString (c : Bech32.Consts) (hrp : String) (ver : Nat) (addr : String) : Except PyErr Bytes :=
  match Bech32.decode c hrp.toList addr.toList with
  | none => .error .valueError
  | some (v, prog) => if v ≠ ver then .error .typeError else .ok (prog.map UInt8.ofNat)

/-- `SegwitAddress.__init__` argument dispatch: witness_program, then address, then script -/
def segwitInit (sha256 : Bytes → Bytes) (c : Bech32.Consts) (T : Tables) (hrp : String) (ver : Nat)
    (prog : Option Bytes) (addr : Option String) (script : Option (List Tok)) : Except PyErr Bytes :=
  match prog, addr, script with
  | some p, _, _ => if p.isEmpty then (match addr, script with
                                      | some a, _ => if a.isEmpty then .error .typeError else segwitFromString c hrp ver a
                                      | none, some s => scriptToSha256 sha256 T s
                                      | none, none => .error .typeError) else .ok p
  | none, some a, _ => if a.isEmpty then (match script with | some s => scriptToSha256 sha256 T s | none => .error .typeError)
                       else segwitFromString c hrp ver a
  | none, none, some s => scriptToSha256 sha256 T s
  | none, none, none => .error .typeError

/-- `utils.is_address_bech32` -/
def isAddressBech32 (c : Bech32.Consts) (s : String) : Bool :=
  if s.isEmpty then false else (Bech32.bech32Decode c s.toList).isSome

end Model
