import BU.Py
import BU.Crypto.Secp256k1
import BU.Spec.Sighash
/-! Hand model (tier M) of `bitcoinutils/schnorr.py` (`schnorr_sign`, `schnorr_verify`, `pubkey_gen`,
`full_pubkey_gen`; `point_add`/`point_mul`/`lift_x` are `Secp.add/mul/liftX`, written in the code's shape). -/
namespace Model
open Py Spec Secp

def bytesFromInt (x : Nat) : Except PyErr Bytes := Py.toBytes x 32 .big
def schnorrXor (a b : Bytes) : Bytes := (a.zip b).map fun p => p.1 ^^^ p.2

/-- `full_pubkey_gen` -/
def fullPubkeyGen (sk : Bytes) : Except PyErr Bytes := do
  let d0 := ofBE sk
  if !(1 ≤ d0 ∧ d0 ≤ n - 1) then throw PyErr.valueError
  match mul G d0 with
  | none => throw PyErr.assertion
  | some (x, y) => do
    let a ← bytesFromInt x
    let b ← bytesFromInt y
    pure (a ++ b)

/-- `schnorr_verify` -/
def schnorrVerify (sha256 : Bytes → Bytes) (msg pubkey sig : Bytes) : Except PyErr Bool := do
  if msg.length ≠ 32 then throw PyErr.valueError
  if pubkey.length ≠ 32 then throw PyErr.valueError
  if sig.length ≠ 64 then throw PyErr.valueError
  let P := liftX (ofBE pubkey)
  let r := ofBE (Py.slice sig 0 32)
  let s := ofBE (Py.slice sig 32 64)
  if P.isNone ∨ r ≥ p ∨ s ≥ n then return false
  let e := ofBE (taggedHash sha256 "BIP0340/challenge" (Py.slice sig 0 32 ++ pubkey ++ msg)) % n
  let R := add (mul G s) (mul P (n - e))
  match R with
  | none => return false
  | some (x, y) => return (y % 2 == 0 && x == r)

/-- `schnorr_sign` (including its self-verification) -/
def schnorrSign (sha256 : Bytes → Bytes) (msg seckey aux : Bytes) : Except PyErr Bytes := do
  if msg.length ≠ 32 then throw PyErr.valueError
  let d0 := ofBE seckey
  if !(1 ≤ d0 ∧ d0 ≤ n - 1) then throw PyErr.valueError
  if aux.length ≠ 32 then throw PyErr.valueError
  match mul G d0 with
  | none => throw PyErr.assertion
  | some (px, py) => do
    let d := if py % 2 == 0 then d0 else n - d0
    let db ← bytesFromInt d
    let t := schnorrXor db (taggedHash sha256 "BIP0340/aux" aux)
    let pb ← bytesFromInt px
    let k0 := ofBE (taggedHash sha256 "BIP0340/nonce" (t ++ pb ++ msg)) % n
    if k0 = 0 then throw PyErr.runtimeError
    match mul G k0 with
    | none => throw PyErr.assertion
    | some (rx, ry) => do
      let k := if !(ry % 2 == 0) then n - k0 else k0
      let rb ← bytesFromInt rx
      let e := ofBE (taggedHash sha256 "BIP0340/challenge" (rb ++ pb ++ msg)) % n
      let sb ← bytesFromInt ((k + e * d) % n)
      let sig := rb ++ sb
      let ok ← schnorrVerify sha256 msg pb sig
      if !ok then throw PyErr.runtimeError
      pure sig

end Model
