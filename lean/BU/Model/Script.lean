import BU.Py
import BU.Spec.Script
/-! Hand model (tier M) of `bitcoinutils/script.py`: `Script.to_bytes`, `Script.from_raw`,
parameterised by the two opcode dictionaries (instantiated with the *generated* tables in the
theorems and with the tables the implementation reports at run time in the driver). -/
namespace Model
open Py Spec

structure Tables where
  opCodes : List (String × Bytes)
  codeOps : List (Bytes × String)
deriving Repr, Inhabited

/-- `Script._op_push_data` in its Spec form (tie: `C02.op_push_data_eq_spec`) -/
def opPushData (d : Bytes) : Except PyErr Bytes :=
  if d.length < 2 ^ 32 then .ok (minimalPush d) else .error .valueError

/-- `Script._push_integer` in its Spec form (tie: `C02.push_integer_eq_spec`) -/
def pushInteger (n : Int) : Except PyErr Bytes :=
  if n < 0 then .error .valueError else opPushData (scriptNum n.toNat)

/-- one iteration of the loop of `Script.to_bytes` -/
def tokBytes (T : Tables) : Tok → Except PyErr Bytes
  | .op name =>
    match T.opCodes.lookup name with
    | some b => .ok b
    | none => .error .valueError      -- `h_to_b` of a non-hex string
  | .int n =>
    if 0 ≤ n ∧ n ≤ 16 then
      match T.opCodes.lookup ("OP_" ++ toString n) with
      | some b => .ok b
      | none => .error .other         -- KeyError
    else pushInteger n
  | .data d => opPushData d

/-- `Script.to_bytes` -/
def scriptBytes (T : Tables) : List Tok → Except PyErr Bytes
  | [] => .ok []
  | t :: ts => do
    let a ← tokBytes T t
    let b ← scriptBytes T ts
    pure (a ++ b)

/-- `vi_to_int` on an (at most 8-byte) window, Spec form (tie: `C17.vi_to_int_eq`) -/
def viToInt (w : Bytes) : Nat × Nat :=
  match w with
  | [] => (0, 1)   -- unreachable: the window is never empty
  | b :: rest =>
    if b.toNat < 253 then (b.toNat, 1)
    else
      let size := if b.toNat = 253 then 2 else if b.toNat = 254 then 4 else 8
      (ofLE (rest.take size), size + 1)

theorem viToInt_snd_pos (w : Bytes) : 1 ≤ (viToInt w).2 := by
  unfold viToInt
  split
  · simp
  · split <;> simp

/-- `Script.from_raw` (after the has_segwit gate was removed the flag is ignored; kept as an argument) -/
def scriptFromRaw (T : Tables) (_seg : Bool) : Bytes → List Tok
  | [] => []
  | b :: rest =>
    match T.codeOps.lookup [b] with
    | some name =>
      if b = 0x4c then
        let n := ofLE (rest.take 1)
        .data ((rest.drop 1).take n) :: scriptFromRaw T _seg (rest.drop (1 + n))
      else if b = 0x4d then
        let n := ofLE (rest.take 2)
        .data ((rest.drop 2).take n) :: scriptFromRaw T _seg (rest.drop (2 + n))
      else if b = 0x4e then
        let n := ofLE (rest.take 4)
        .data ((rest.drop 4).take n) :: scriptFromRaw T _seg (rest.drop (4 + n))
      else .op name :: scriptFromRaw T _seg rest
    | none =>
      let r := viToInt ((b :: rest).take 8)
      .data (((b :: rest).drop r.2).take r.1) :: scriptFromRaw T _seg ((b :: rest).drop (r.1 + r.2))
termination_by bs => bs.length
decreasing_by
  all_goals simp only [List.length_drop, List.length_cons]
  all_goals try omega
  · have := viToInt_snd_pos ((b :: rest).take 8)
    omega

end Model
