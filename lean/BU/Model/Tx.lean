import BU.Py
import BU.Spec.Script
import BU.Spec.TxWire
import BU.Model.Script
/-! Hand model (tier M) of `bitcoinutils/transactions.py`: the object structure and
`to_bytes` / `from_raw` of TxInput, TxOutput, TxWitnessInput, Transaction; `get_txid`,
`get_wtxid`, `get_size`, `get_vsize`.  Hex strings that denote data are `Bytes`. -/
namespace Model
open Py Spec

structure TxIn where
  txid : Bytes            -- display order, as the `txid` hex string
  index : Int             -- txout_index
  scriptSig : List Tok
  sequence : Bytes
deriving Repr, DecidableEq, Inhabited

structure TxOut where
  amount : Int
  script : List Tok
deriving Repr, DecidableEq, Inhabited

structure Tx where
  version : Bytes
  inputs : List TxIn
  outputs : List TxOut
  locktime : Bytes
  hasSegwit : Bool
  witnesses : List (List Bytes)
deriving Repr, DecidableEq, Inhabited

def zero32 : Bytes := List.replicate 32 0

/-- `TxInput.to_bytes` -/
def TxIn.toBytes (T : Tables) (i : TxIn) : Except PyErr Bytes := do
  let txout ← Py.pack "<L" i.index
  let scriptSig ←
    if i.txid = zero32 then
      -- coinbase: the single element of script_sig is raw data
      match i.scriptSig with
      | .data d :: _ => pure d
      | .op _ :: _ => throw PyErr.valueError
      | .int _ :: _ => throw PyErr.typeError
      | [] => throw PyErr.indexError
    else scriptBytes T i.scriptSig
  pure (i.txid.reverse ++ txout ++ compactSize scriptSig.length ++ scriptSig ++ i.sequence)

/-- `TxOutput.to_bytes` -/
def TxOut.toBytes (T : Tables) (o : TxOut) : Except PyErr Bytes := do
  let amount ← Py.pack "<q" o.amount
  let script ← scriptBytes T o.script
  pure (amount ++ compactSize script.length ++ script)

/-- `TxWitnessInput.to_bytes` -/
def witnessBytes (stack : List Bytes) : Bytes := stack.flatMap withLen

def concatM (xs : List (Except PyErr Bytes)) : Except PyErr Bytes :=
  match xs with
  | [] => .ok []
  | x :: rest => do
    let a ← x
    let b ← concatM rest
    pure (a ++ b)

/-- `Transaction.to_bytes(has_segwit)` -/
def Tx.toBytes (T : Tables) (t : Tx) (seg : Bool) : Except PyErr Bytes := do
  let ins ← concatM (t.inputs.map (TxIn.toBytes T))
  let outs ← concatM (t.outputs.map (TxOut.toBytes T))
  let wit := if seg then t.witnesses.flatMap (fun w => compactSize w.length ++ witnessBytes w) else []
  pure (t.version ++ (if seg then [0x00, 0x01] else []) ++ compactSize t.inputs.length ++ ins ++
        compactSize t.outputs.length ++ outs ++ wit ++ t.locktime)

/-- `get_txid` / `get_wtxid` (display order), over a SHA-256 parameter -/
def Tx.txid (sha256 : Bytes → Bytes) (T : Tables) (t : Tx) : Except PyErr Bytes := do
  let d ← t.toBytes T false
  pure (sha256 (sha256 d)).reverse

def Tx.wtxid (sha256 : Bytes → Bytes) (T : Tables) (t : Tx) : Except PyErr Bytes := do
  let d ← t.toBytes T t.hasSegwit
  pure (sha256 (sha256 d)).reverse

/-- `get_size` -/
def Tx.size (T : Tables) (t : Tx) : Except PyErr Nat := do
  let d ← t.toBytes T t.hasSegwit
  pure d.length

/-- `get_vsize`: the code computes `size - (2 + wit) + (2 + wit) / 4` in binary64 and takes
`math.ceil`; for sizes below 2^51 quarters are exact, so this is the integer ceiling. -/
def Tx.vsize (T : Tables) (t : Tx) : Except PyErr Nat := do
  let size ← t.size T
  if !t.hasSegwit then pure size
  else
    let wit := (t.witnesses.flatMap (fun w => compactSize w.length ++ witnessBytes w)).length
    let base : Int := (size : Int) - (2 + wit : Nat)
    -- ceil (base + (2 + wit) / 4)
    pure (base + ((2 + wit + 3) / 4 : Nat)).toNat

/-! ### parsing (rest-passing: `Bytes → Except PyErr (α × Bytes)`) -/

/-- `parse_compact_size` in Spec form on the remaining input -/
def parseCS (bs : Bytes) : Except PyErr (Nat × Bytes) :=
  match decodeCompactSize bs with
  | some (n, k) => .ok (n, bs.drop k)
  | none => .error .structError

def takeN (n : Nat) (bs : Bytes) : Except PyErr (Bytes × Bytes) :=
  if bs.length < n then .error .structError else .ok (bs.take n, bs.drop n)

/-- `TxInput.from_raw` -/
def TxIn.parse (T : Tables) (seg : Bool) (bs : Bytes) : Except PyErr (TxIn × Bytes) := do
  let (h, bs) ← takeN 32 bs
  let (ix, bs) ← takeN 4 bs
  let (n, bs) ← parseCS bs
  let (script, bs) ← takeN n bs
  let (sequence, bs) ← takeN 4 bs
  let txid := h.reverse
  let scriptSig := if txid = zero32 then [Tok.data script] else scriptFromRaw T seg script
  pure ({ txid := txid, index := ofLE ix, scriptSig := scriptSig, sequence := sequence }, bs)

/-- `TxOutput.from_raw` -/
def TxOut.parse (T : Tables) (seg : Bool) (bs : Bytes) : Except PyErr (TxOut × Bytes) := do
  let (a, bs) ← takeN 8 bs
  let (n, bs) ← parseCS bs
  let (script, bs) ← takeN n bs
  pure ({ amount := ofLE a, script := scriptFromRaw T seg script }, bs)

def parseMany {α} (p : Bytes → Except PyErr (α × Bytes)) : Nat → Bytes → Except PyErr (List α × Bytes)
  | 0, bs => .ok ([], bs)
  | n+1, bs => do
    let (x, bs) ← p bs
    let (xs, bs) ← parseMany p n bs
    pure (x :: xs, bs)

/-- one witness item: Python slices (`rawtx[cursor:cursor+item_size]`), which clamp -/
def parseItem (bs : Bytes) : Except PyErr (Bytes × Bytes) := do
  let (n, bs) ← parseCS bs
  pure (bs.take n, bs.drop n)

def parseStack (bs : Bytes) : Except PyErr (List Bytes × Bytes) := do
  let (n, bs) ← parseCS bs
  parseMany parseItem n bs

/-- `Transaction.from_raw` -/
def Tx.parse (T : Tables) (bs : Bytes) : Except PyErr Tx := do
  let version := bs.take 4
  let bs := bs.drop 4
  let seg := bs.take 2 == [0x00, 0x01]
  let bs := if seg then bs.drop 2 else bs
  let (nin, bs) ← parseCS bs
  let (ins, bs) ← parseMany (TxIn.parse T seg) nin bs
  let (nout, bs) ← parseCS bs
  let (outs, bs) ← parseMany (TxOut.parse T seg) nout bs
  let (wits, bs) ← if seg then parseMany parseStack nin bs else pure ([], bs)
  pure { version := version, inputs := ins, outputs := outs, locktime := bs.take 4,
         hasSegwit := seg, witnesses := wits }

end Model
