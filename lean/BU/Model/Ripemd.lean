import BU.Py
import BU.Spec.Ripemd160
/-! Hand model (tier M) of `bitcoinutils/ripemd160.py` over 32-bit words (Python's unbounded ints are
masked to 32 bits in `rol` and at output; `+ & | ^ ~` commute with reduction mod 2^32 — that abstraction
is covered by the correspondence run), parameterised by the six tables of the module. -/
namespace Model
namespace Rmd
open Py

structure Tabs where
  ML : List Nat
  MR : List Nat
  RL : List Nat
  RR : List Nat
  KL : List Nat
  KR : List Nat
deriving Repr, Inhabited

/-- `fi` -/
def fi (x y z : UInt32) (i : Nat) : UInt32 :=
  if i = 0 then x ^^^ y ^^^ z
  else if i = 1 then (x &&& y) ||| (~~~ x &&& z)
  else if i = 2 then (x ||| ~~~ y) ^^^ z
  else if i = 3 then (x &&& z) ||| (y &&& ~~~ z)
  else x ^^^ (y ||| ~~~ z)     -- i = 4 (the code asserts on anything else; rnd is always 0..4)

/-- `rol` -/
def rol (x : UInt32) (i : Nat) : UInt32 := (x <<< UInt32.ofNat i) ||| (x >>> UInt32.ofNat (32 - i))

abbrev St := UInt32 × UInt32 × UInt32 × UInt32 × UInt32

/-- the body of the 80-round loop of `compress` -/
def round (tb : Tabs) (x : List UInt32) (s : St × St) (j : Nat) : St × St :=
  let ((al, bl, cl, dl, el), (ar, br, cr, dr, er)) := s
  let rnd := j / 16
  let al' := rol (al + fi bl cl dl rnd + x.getD (tb.ML.getD j 0) 0 + UInt32.ofNat (tb.KL.getD rnd 0)) (tb.RL.getD j 0) + el
  let ar' := rol (ar + fi br cr dr (4 - rnd) + x.getD (tb.MR.getD j 0) 0 + UInt32.ofNat (tb.KR.getD rnd 0)) (tb.RR.getD j 0) + er
  ((el, al', bl, rol cl 10, dl), (er, ar', br, rol cr 10, dr))

/-- `compress` -/
def compress (tb : Tabs) (h : St) (block : Bytes) : St :=
  let (h0, h1, h2, h3, h4) := h
  let x := (List.range 16).map fun i => UInt32.ofNat (ofLE ((block.drop (4 * i)).take 4))
  let ((al, bl, cl, dl, el), (ar, br, cr, dr, er)) := (List.range 80).foldl (round tb x) (h, h)
  (h1 + cl + dr, h2 + dl + er, h3 + el + ar, h4 + al + br, h0 + bl + cr)

def processBlocks (tb : Tabs) (st : St) (data : Bytes) : St :=
  (List.range (data.length / 64)).foldl (fun s b => compress tb s ((data.drop (64 * b)).take 64)) st

/-- `ripemd160` -/
def ripemd160 (tb : Tabs) (data : Bytes) : Bytes :=
  let state : St := (0x67452301, 0xefcdab89, 0x98badcfe, 0x10325476, 0xc3d2e1f0)
  let state := processBlocks tb state data
  let pad : Bytes := [0x80] ++ List.replicate ((119 + 64 * data.length - data.length) % 64) 0   -- (119 - len) & 63
  let fin := data.drop (data.length / 64 * 64) ++ pad ++ leBytes 8 (8 * data.length)
  let (a, b, c, d, e) := processBlocks tb state fin
  leBytes 4 a.toNat ++ leBytes 4 b.toNat ++ leBytes 4 c.toNat ++ leBytes 4 d.toNat ++ leBytes 4 e.toNat

/-- the tables of the specification (used by the driver; the theorems use the generated ones) -/
def specTabs : Tabs := ⟨Spec.Rmd.r, Spec.Rmd.r', Spec.Rmd.s, Spec.Rmd.s', Spec.Rmd.K, Spec.Rmd.K'⟩

end Rmd

/-- HASH160 = RIPEMD160(SHA256(x)) over a SHA-256 parameter -/
def hash160 (sha256 : Bytes → Bytes) (tb : Rmd.Tabs) (b : Bytes) : Bytes := Rmd.ripemd160 tb (sha256 b)

end Model
