import BU.Py
import BU.Spec.CompactSize
import BU.Model.Tx
/-! Hand model (tier M) of `bitcoinutils/block.py` (`BlockHeader.from_raw`, `serialize_header`,
`get_block_hash`, `get_target_bits`, `Block.from_raw`) and of `utils.get_transaction_length`. -/
namespace Model
open Py Spec

structure Header where
  version : Nat
  prev : Bytes        -- display order
  merkle : Bytes      -- display order
  time : Nat
  bits : Nat
  nonce : Nat
deriving Repr, DecidableEq, Inhabited

/-- `BlockHeader.from_raw` -/
def Header.parse (b : Bytes) : Except PyErr Header :=
  if b.length ≠ 80 then .error .valueError
  else .ok { version := ofLE (b.take 4), prev := ((b.drop 4).take 32).reverse,
             merkle := ((b.drop 36).take 32).reverse, time := ofLE ((b.drop 68).take 4),
             bits := ofLE ((b.drop 72).take 4), nonce := ofLE ((b.drop 76).take 4) }

/-- `BlockHeader.serialize_header` -/
def Header.serialize (h : Header) : Except PyErr Bytes := do
  let v ← Py.pack "<I" h.version
  let t ← Py.pack "<I" h.time
  let b ← Py.pack "<I" h.bits
  let n ← Py.pack "<I" h.nonce
  pure (v ++ h.prev.reverse ++ h.merkle.reverse ++ t ++ b ++ n)

/-- `get_block_hash` (display order) over a SHA-256 parameter -/
def Header.hash (sha256 : Bytes → Bytes) (h : Header) : Except PyErr Bytes := do
  let s ← h.serialize
  pure (sha256 (sha256 s)).reverse

/-- `get_target_bits` as a number (the code formats it with `:064x`) -/
def Header.target (h : Header) : Except PyErr Nat :=
  let exponent := h.bits / 2 ^ 24
  let coefficient := h.bits % 2 ^ 24
  if exponent < 3 then .error .valueError       -- negative shift count
  else .ok (coefficient * 2 ^ (8 * (exponent - 3)))

/-- `parse_compact_size(data[offset:])` followed by `offset += size` -/
def skipCS (data : Bytes) (off : Nat) : Except PyErr (Nat × Nat) :=
  match decodeCompactSize (data.drop off) with
  | some (n, k) => .ok (n, off + k)
  | none => .error .structError

def scanInputs (data : Bytes) : Nat → Nat → Except PyErr Nat
  | 0, off => .ok off
  | n+1, off => do
    let (sl, off) ← skipCS data (off + 36)
    scanInputs data n (off + sl + 4)

def scanOutputs (data : Bytes) : Nat → Nat → Except PyErr Nat
  | 0, off => .ok off
  | n+1, off => do
    let (sl, off) ← skipCS data (off + 8)
    scanOutputs data n (off + sl)

def scanItems (data : Bytes) : Nat → Nat → Except PyErr Nat
  | 0, off => .ok off
  | n+1, off => do
    let (l, off) ← skipCS data off
    scanItems data n (off + l)

def scanStacks (data : Bytes) : Nat → Nat → Except PyErr Nat
  | 0, off => .ok off
  | n+1, off => do
    let (k, off) ← skipCS data off
    let off ← scanItems data k off
    scanStacks data n off

/-- `get_transaction_length` -/
def txLength (data : Bytes) : Except PyErr Nat := do
  let marker ← Py.index data 4
  let flag ← Py.index data 5
  let seg := marker == 0 && flag != 0
  let off := if seg then 6 else 4
  let (nin, off) ← skipCS data off
  let off ← scanInputs data nin off
  let (nout, off) ← skipCS data off
  let off ← scanOutputs data nout off
  let off ← if seg then scanStacks data nin off else pure off
  pure (off + 4)

structure Block where
  magic : Bytes
  size : Nat
  header : Header
  count : Nat
  txs : List Tx
deriving Repr, DecidableEq, Inhabited

/-- the transaction loop of `Block.from_raw`: an exception inside the loop is swallowed and ends it -/
def blockTxs (T : Tables) (data : Bytes) : Nat → Nat → List Tx
  | 0, _ => []
  | n+1, off =>
    match txLength (data.drop off) with
    | .error _ => []
    | .ok len =>
      match Tx.parse T ((data.drop off).take len) with
      | .error _ => []
      | .ok t => t :: blockTxs T data n (off + len)

/-- `Block.from_raw` -/
def Block.parse (T : Tables) (data : Bytes) : Except PyErr Block := do
  let size ← Py.unpack1 "<I" (Py.slice data 4 8)
  let header ← Header.parse (Py.slice data 8 88)
  let (count, off) ← skipCS data 88
  pure { magic := data.take 4, size := size.toNat, header := header, count := count,
         txs := blockTxs T data count off }

end Model
