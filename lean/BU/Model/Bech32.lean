import BU.Py
/-! Hand model (tier M) of `bitcoinutils/bech32.py` (Pieter Wuille's reference implementation),
parameterised by the module's constants (charset, generator, bech32m constant). -/
namespace Model
namespace Bech32
open Py

structure Consts where
  charset : List Char
  generator : List Nat
  m : Nat
deriving Repr, Inhabited

inductive Enc | bech32 | bech32m deriving Repr, DecidableEq, Inhabited

/-- `bech32_polymod` -/
def polymod (c : Consts) (values : List Nat) : Nat :=
  values.foldl (fun chk value =>
    let top := chk >>> 25
    let chk := ((chk &&& 0x1FFFFFF) <<< 5) ^^^ value
    (List.range 5).foldl (fun chk i => chk ^^^ (if (top >>> i) &&& 1 ≠ 0 then c.generator.getD i 0 else 0)) chk) 1

/-- `bech32_hrp_expand` -/
def hrpExpand (hrp : List Char) : List Nat :=
  hrp.map (fun x => x.toNat >>> 5) ++ [0] ++ hrp.map (fun x => x.toNat &&& 31)

/-- `bech32_verify_checksum` -/
def verifyChecksum (c : Consts) (hrp : List Char) (data : List Nat) : Option Enc :=
  let const := polymod c (hrpExpand hrp ++ data)
  if const = 1 then some .bech32 else if const = c.m then some .bech32m else none

/-- `bech32_create_checksum` -/
def createChecksum (c : Consts) (hrp : List Char) (data : List Nat) (spec : Enc) : List Nat :=
  let values := hrpExpand hrp ++ data
  let const := if spec = .bech32m then c.m else 1
  let pm := polymod c (values ++ [0, 0, 0, 0, 0, 0]) ^^^ const
  (List.range 6).map fun i => (pm >>> (5 * (5 - i))) &&& 31

/-- `bech32_encode` -/
def bech32Encode (c : Consts) (hrp : List Char) (data : List Nat) (spec : Enc) : List Char :=
  let combined := data ++ createChecksum c hrp data spec
  hrp ++ ['1'] ++ combined.map (fun d => c.charset.getD d '?')

def lowerC (ch : Char) : Char := if 'A' ≤ ch ∧ ch ≤ 'Z' then Char.ofNat (ch.toNat + 32) else ch
def upperC (ch : Char) : Char := if 'a' ≤ ch ∧ ch ≤ 'z' then Char.ofNat (ch.toNat - 32) else ch

/-- `str.rfind("1")` -/
def rfind1 (s : List Char) : Option Nat :=
  let idx := (List.range s.length).filter (fun i => s.getD i ' ' == '1')
  idx.getLast?

/-- `bech32_decode` -/
def bech32Decode (c : Consts) (bech : List Char) : Option (List Char × List Nat × Enc) :=
  if bech.any (fun x => x.toNat < 33 ∨ x.toNat > 126) ∨
     (bech.map lowerC ≠ bech ∧ bech.map upperC ≠ bech) then none
  else
    let bech := bech.map lowerC
    match rfind1 bech with
    | none => none
    | some pos =>
      if pos < 1 ∨ pos + 7 > bech.length ∨ bech.length > 90 then none
      else
        let dpart := bech.drop (pos + 1)
        if !(dpart.all fun x => c.charset.contains x) then none
        else
          let hrp := bech.take pos
          let data := dpart.map fun x => (c.charset.idxOf x)
          match verifyChecksum c hrp data with
          | none => none
          | some spec => some (hrp, data.take (data.length - 6), spec)

/-- `convertbits` -/
def convertbits (data : List Nat) (frombits tobits : Nat) (pad : Bool) : Option (List Nat) :=
  let maxv := (1 <<< tobits) - 1
  let maxAcc := (1 <<< (frombits + tobits - 1)) - 1
  let step := fun (st : Option (Nat × Nat × List Nat)) (value : Nat) =>
    match st with
    | none => none
    | some (acc, bits, ret) =>
      if value >>> frombits ≠ 0 then none
      else
        let acc := ((acc <<< frombits) ||| value) &&& maxAcc
        let bits := bits + frombits
        -- inner while loop: emit as many groups as available
        let rec emit (fuel bits : Nat) (ret : List Nat) : Nat × List Nat :=
          match fuel with
          | 0 => (bits, ret)
          | f+1 => if bits ≥ tobits then emit f (bits - tobits) (ret ++ [(acc >>> (bits - tobits)) &&& maxv]) else (bits, ret)
        let (bits, ret) := emit (bits + 1) bits ret
        some (acc, bits, ret)
  match data.foldl step (some (0, 0, [])) with
  | none => none
  | some (acc, bits, ret) =>
    if pad then
      if bits ≠ 0 then some (ret ++ [(acc <<< (tobits - bits)) &&& maxv]) else some ret
    else if bits ≥ frombits ∨ ((acc <<< (tobits - bits)) &&& maxv) ≠ 0 then none
    else some ret

/-- `decode(hrp, addr)` -/
def decode (c : Consts) (hrp : List Char) (addr : List Char) : Option (Nat × List Nat) :=
  match bech32Decode c addr with
  | none => none
  | some (hrpgot, data, spec) =>
    if hrpgot ≠ hrp then none
    else
      match convertbits (data.drop 1) 5 8 false with
      | none => none
      | some decoded =>
        if decoded.length < 2 ∨ decoded.length > 40 then none
        else
          match data.head? with
          | none => none
          | some v =>
            if v > 16 then none
            else if v = 0 ∧ decoded.length ≠ 20 ∧ decoded.length ≠ 32 then none
            else if (v = 0 ∧ spec ≠ .bech32) ∨ (v ≠ 0 ∧ spec ≠ .bech32m) then none
            else some (v, decoded)

/-- `encode(hrp, witver, witprog)` -/
def encode (c : Consts) (hrp : List Char) (witver : Nat) (witprog : List Nat) : Option (List Char) :=
  let spec := if witver = 0 then Enc.bech32 else Enc.bech32m
  match convertbits witprog 8 5 true with
  | none => none          -- (the code would raise TypeError on `[witver] + None`)
  | some five =>
    let ret := bech32Encode c hrp ([witver] ++ five) spec
    if (decode c hrp ret).isNone then none else some ret

/-- the constants of BIP173 / BIP350 (used by the driver; the theorems use the generated ones) -/
def specConsts : Consts :=
  { charset := "qpzry9x8gf2tvdw0s3jn54khce6mua7l".toList,
    generator := [0x3b6a57b2, 0x26508e6d, 0x1ea119fa, 0x3d4233dd, 0x2a1462b3],
    m := 0x2bc830a3 }

end Bech32
end Model
