import BU.Py
import BU.Spec.Script
import BU.Model.Tx
import BU.Model.Digest
/-! Heap model (tier M) of the object graph of `bitcoinutils/transactions.py` / `script.py`: Python object
identity for `Script`, the lists inside it, `TxInput`, `TxOutput`, `TxWitnessInput`, `Transaction` and their
lists.  References are indices into the heap; allocation appends (a fresh reference is never equal to an
existing one).  Used by C13 (copies and constructors share no mutable state; digests do not write to the
caller's objects). -/
namespace Model
namespace Heap
open Py Spec

abbrev Ref := Nat

inductive Obj
  | toklist (items : List Tok)        -- the list inside a Script (tokens themselves are immutable str/int)
  | strlist (items : List Bytes)      -- a witness stack (list of hex strings)
  | reflist (items : List Ref)        -- a list of objects: inputs / outputs / witnesses
  | script (list : Ref)               -- Script(script=<list>)
  | txin (txid : Bytes) (index : Int) (scriptSig : Ref) (sequence : Bytes)
  | txout (amount : Int) (script : Ref)
  | wit (stack : Ref)
  | tx (version locktime : Bytes) (seg : Bool) (inputs outputs witnesses : Ref)
deriving Repr, DecidableEq, Inhabited

abbrev H := List Obj

def alloc (h : H) (o : Obj) : H × Ref := (h ++ [o], h.length)

/-! ### constructors as the library's `__init__`s allocate -/

/-- `Script(list(toks))` with a fresh list -/
def newScript (h : H) (toks : List Tok) : H × Ref :=
  let (h, l) := alloc h (.toklist toks)
  alloc h (.script l)

/-- `TxInput(txid, index, script_sig, sequence)`; `scriptSig = none` is the defaulted argument: a fresh
empty Script per object -/
def newTxIn (h : H) (txid : Bytes) (index : Int) (scriptSig : Option Ref) (sequence : Bytes) : H × Ref :=
  match scriptSig with
  | some s => alloc h (.txin txid index s sequence)
  | none =>
    let (h, s) := newScript h []
    alloc h (.txin txid index s sequence)

def newTxOut (h : H) (amount : Int) (script : Ref) : H × Ref := alloc h (.txout amount script)

/-- `TxWitnessInput(list(stack))` with a fresh list -/
def newWit (h : H) (stack : List Bytes) : H × Ref :=
  let (h, l) := alloc h (.strlist stack)
  alloc h (.wit l)

/-- `Transaction(inputs, outputs, locktime, version, has_segwit, witnesses)` over fresh lists of the given objects -/
def newTx (h : H) (version locktime : Bytes) (seg : Bool) (ins outs wits : List Ref) : H × Ref :=
  let (h, a) := alloc h (.reflist ins)
  let (h, b) := alloc h (.reflist outs)
  let (h, c) := alloc h (.reflist wits)
  alloc h (.tx version locktime seg a b c)

/-! ### the copy helpers -/

/-- `Script.copy` (deep copy of the list) -/
def copyScript (h : H) (r : Ref) : Except PyErr (H × Ref) :=
  match h[r]? with
  | some (.script l) =>
    match h[l]? with
    | some (.toklist items) => .ok (newScript h items)
    | _ => .error .typeError
  | _ => .error .typeError

/-- `TxInput.copy` -/
def copyTxIn (h : H) (r : Ref) : Except PyErr (H × Ref) :=
  match h[r]? with
  | some (.txin txid index s sequence) => do
    let (h, s') ← copyScript h s
    pure (alloc h (.txin txid index s' sequence))
  | _ => .error .typeError

/-- `TxOutput.copy` -/
def copyTxOut (h : H) (r : Ref) : Except PyErr (H × Ref) :=
  match h[r]? with
  | some (.txout amount s) => do
    let (h, s') ← copyScript h s
    pure (alloc h (.txout amount s'))
  | _ => .error .typeError

/-- `TxWitnessInput.copy` -/
def copyWit (h : H) (r : Ref) : Except PyErr (H × Ref) :=
  match h[r]? with
  | some (.wit l) =>
    match h[l]? with
    | some (.strlist items) => .ok (newWit h items)
    | _ => .error .typeError
  | _ => .error .typeError

def copyAll (f : H → Ref → Except PyErr (H × Ref)) : H → List Ref → Except PyErr (H × List Ref)
  | h, [] => .ok (h, [])
  | h, r :: rs => do
    let (h, c) ← f h r
    let (h, cs) ← copyAll f h rs
    pure (h, c :: cs)

/-- `Transaction.copy` -/
def copyTx (h : H) (r : Ref) : Except PyErr (H × Ref) :=
  match h[r]? with
  | some (.tx version locktime seg a b c) =>
    match h[a]?, h[b]?, h[c]? with
    | some (.reflist ins), some (.reflist outs), some (.reflist wits) => do
      let (h, ins') ← copyAll copyTxIn h ins
      let (h, outs') ← copyAll copyTxOut h outs
      let (h, wits') ← copyAll copyWit h wits
      pure (newTx h version locktime seg ins' outs' wits')
    | _, _, _ => .error .typeError
  | _ => .error .typeError

/-! ### the value an object graph denotes (abstraction to the pure model) -/

def viewScript (h : H) (r : Ref) : Option (List Tok) :=
  match h[r]? with
  | some (.script l) => (match h[l]? with | some (.toklist items) => some items | _ => none)
  | _ => none

def viewTxIn (h : H) (r : Ref) : Option TxIn :=
  match h[r]? with
  | some (.txin txid index s sequence) =>
    (viewScript h s).map fun toks => { txid := txid, index := index, scriptSig := toks, sequence := sequence }
  | _ => none

def viewTxOut (h : H) (r : Ref) : Option TxOut :=
  match h[r]? with
  | some (.txout amount s) => (viewScript h s).map fun toks => { amount := amount, script := toks }
  | _ => none

def viewWit (h : H) (r : Ref) : Option (List Bytes) :=
  match h[r]? with
  | some (.wit l) => (match h[l]? with | some (.strlist items) => some items | _ => none)
  | _ => none

def viewTx (h : H) (r : Ref) : Option Tx :=
  match h[r]? with
  | some (.tx version locktime seg a b c) =>
    match h[a]?, h[b]?, h[c]? with
    | some (.reflist ins), some (.reflist outs), some (.reflist wits) => do
      let i ← ins.mapM (viewTxIn h)
      let o ← outs.mapM (viewTxOut h)
      let w ← wits.mapM (viewWit h)
      pure { version := version, inputs := i, outputs := o, locktime := locktime, hasSegwit := seg, witnesses := w }
    | _, _, _ => none
  | _ => none

/-! ### reachability (type-directed, so no fuel is needed) -/

def reachScript (h : H) (r : Ref) : List Ref :=
  match h[r]? with
  | some (.script l) => [r, l]
  | _ => [r]

def reachTxIn (h : H) (r : Ref) : List Ref :=
  match h[r]? with
  | some (.txin _ _ s _) => r :: reachScript h s
  | _ => [r]

def reachTxOut (h : H) (r : Ref) : List Ref :=
  match h[r]? with
  | some (.txout _ s) => r :: reachScript h s
  | _ => [r]

def reachWit (h : H) (r : Ref) : List Ref :=
  match h[r]? with
  | some (.wit l) => [r, l]
  | _ => [r]

/-- every object reachable from a transaction through its public attributes -/
def reachTx (h : H) (r : Ref) : List Ref :=
  match h[r]? with
  | some (.tx _ _ _ a b c) =>
    let ins := match h[a]? with | some (.reflist xs) => xs | _ => []
    let outs := match h[b]? with | some (.reflist xs) => xs | _ => []
    let wits := match h[c]? with | some (.reflist xs) => xs | _ => []
    [r, a, b, c] ++ ins.flatMap (reachTxIn h) ++ outs.flatMap (reachTxOut h) ++ wits.flatMap (reachWit h)
  | _ => [r]

/-- no object refers forward: every reference stored in an object is smaller than the object's own index
(true of every heap built by allocation alone; attribute rebinding to an *existing* object may break it, which
is why the frame theorems are stated with reachability rather than with index order) -/
def refsOf : Obj → List Ref
  | .toklist _ => []
  | .strlist _ => []
  | .reflist xs => xs
  | .script l => [l]
  | .txin _ _ s _ => [s]
  | .txout _ s => [s]
  | .wit l => [l]
  | .tx _ _ _ a b c => [a, b, c]

def closed (h : H) : Prop := ∀ (r : Nat) (o : Obj), h[r]? = some o → ∀ x ∈ refsOf o, x < h.length

/-! ### `get_transaction_digest` at heap level: works on `Transaction.copy(self)` and mutates only the copy -/

/-- write: replace the object at `w` (attribute rebinding or in-place list mutation) -/
def write (h : H) (w : Ref) (o : Obj) : H := h.set w o

/-- the heap-level steps of `get_transaction_digest` up to serialisation; returns the final heap, the temporary
transaction and the list of references written to -/
def legacyDigestPrepare (h : H) (self : Ref) (i : Nat) (code : Ref) (ht : Nat) : Except PyErr (H × Ref × List Ref) := do
  let (h, tmp) ← copyTx h self
  let some (.tx version locktime seg a b c) := h[tmp]? | throw PyErr.typeError
  let some (.reflist ins) := h[a]? | throw PyErr.typeError
  -- for txin in tmp_tx.inputs: txin.script_sig = Script([])
  let blank := fun (st : H × List Ref) (r : Ref) =>
    match st.1[r]? with
    | some (.txin txid index _ sequence) =>
      let (h1, s) := newScript st.1 []
      (write h1 r (.txin txid index s sequence), r :: st.2)
    | _ => st
  let (h, ws) := ins.foldl blank (h, [])
  -- tmp_tx.inputs[txin_index].script_sig = script   (the caller's object is referenced, never written)
  let some ri := ins[i]? | throw PyErr.indexError
  let some (.txin txid index _ sequence) := h[ri]? | throw PyErr.typeError
  let h := write h ri (.txin txid index code sequence)
  let ws := ri :: ws
  let base := ht &&& 0x1f
  let zeroSeq := fun (st : H × List Ref) (p : Nat × Ref) =>
    if p.1 ≠ i then
      match st.1[p.2]? with
      | some (.txin txid index s _) => (write st.1 p.2 (.txin txid index s [0, 0, 0, 0]), p.2 :: st.2)
      | _ => st
    else st
  let some (.reflist outs) := h[b]? | throw PyErr.typeError
  let (h, tmp, ws) ←
    if base = 2 then do
      -- tmp_tx.outputs = []  (a new list object bound to the attribute of the *copy*)
      let (h, b') := alloc h (.reflist [])
      let h := write h tmp (.tx version locktime seg a b' c)
      let (h, ws) := (ins.zipIdx.map fun p => (p.2, p.1)).foldl zeroSeq (h, tmp :: ws)
      pure (h, tmp, ws)
    else if base = 3 then do
      let some o := outs[i]? | throw PyErr.valueError
      let fill := fun (st : H × List Ref) (_ : Nat) =>
        let (h1, s) := newScript st.1 []
        let (h2, oo) := alloc h1 (.txout (-1) s)
        (h2, st.2 ++ [oo])
      let (h, fillers) := (List.range i).foldl fill (h, [])
      let (h, b') := alloc h (.reflist (fillers ++ [o]))
      let h := write h tmp (.tx version locktime seg a b' c)
      let (h, ws) := (ins.zipIdx.map fun p => (p.2, p.1)).foldl zeroSeq (h, tmp :: ws)
      pure (h, tmp, ws)
    else pure (h, tmp, ws)
  -- ANYONECANPAY: tmp_tx.inputs = [tmp_tx.inputs[txin_index]]
  if ht &&& 0x80 ≠ 0 then do
    let some (.tx version locktime seg _ b2 c2) := h[tmp]? | throw PyErr.typeError
    let (h, a') := alloc h (.reflist [ri])
    let h := write h tmp (.tx version locktime seg a' b2 c2)
    pure (h, tmp, tmp :: ws)
  else pure (h, tmp, ws)

/-- `get_transaction_digest` at heap level -/
def legacyDigestH (sha256 : Bytes → Bytes) (T : Tables) (h : H) (self : Ref) (i : Nat) (code : Ref) (ht : Nat) :
    Except PyErr (H × Bytes) := do
  let (h', tmp, _) ← legacyDigestPrepare h self i code ht
  let some t := viewTx h' tmp | throw PyErr.typeError
  let ser ← t.toBytes T false
  let htb ← Py.pack "<i" ht
  pure (h', sha256 (sha256 (ser ++ htb)))

end Heap
end Model
