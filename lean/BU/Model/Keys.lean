import BU.Py
import BU.Crypto.Secp256k1
import BU.Spec.Base58
import BU.Spec.Ecdsa
import BU.Model.Ripemd
/-! Hand model (tier M) of `PrivateKey` / `PublicKey` construction and encodings in
`bitcoinutils/keys.py`.  Third-party code enters as the functions it is specified to compute:
`base58check.b58encode/b58decode` = `Spec.B58`, python-ecdsa `SigningKey.from_string /
from_secret_exponent` (range check), `VerifyingKey.from_string` (on-curve check), `d·G` = `Secp.mul G d`,
sympy `sqrt_mod(a, p, True)` = all square roots. -/
namespace Model
open Py Spec Secp

/-- python-ecdsa `SigningKey.from_string` -/
def signingKeyFromString (b : Bytes) : Except PyErr Nat :=
  if b.length ≠ 32 then .error .valueError
  else
    let d := ofBE b
    if 1 ≤ d ∧ d < n then .ok d else .error .valueError

/-- python-ecdsa `SigningKey.from_secret_exponent` -/
def signingKeyFromExponent (e : Int) : Except PyErr Nat :=
  if 1 ≤ e ∧ e < n then .ok e.toNat else .error .valueError

/-- Python `b[:-4]` and `b[-4:]` -/
def dropLast4 (b : Bytes) : Bytes := b.take (b.length - 4)
def last4 (b : Bytes) : Bytes := b.drop (b.length - 4)

/-- `PrivateKey._from_wif` under network WIF prefix `pfx` (KeyError/unknown network is outside the model) -/
def fromWif (dsha : Bytes → Bytes) (pfx : Bytes) (wif : String) : Except PyErr Nat := do
  let some data := B58.decode wif | throw PyErr.valueError
  let keyBytes := dropLast4 data
  let checksum := last4 data
  if !(checksum == (dsha keyBytes).take 4) then throw PyErr.valueError
  if pfx != keyBytes.take 1 then throw PyErr.valueError
  let keyBytes := keyBytes.drop 1
  if keyBytes.length > 32 then signingKeyFromString (keyBytes.take (keyBytes.length - 1))
  else signingKeyFromString keyBytes

/-- `PrivateKey.to_wif` -/
def toWif (dsha : Bytes → Bytes) (pfx : Bytes) (d : Nat) (compressed : Bool) : String :=
  let data := pfx ++ beBytes 32 d ++ (if compressed then [0x01] else [])
  B58.encode (data ++ (dsha data).take 4)

/-- `PrivateKey.__init__`: `some d` = the key held, `none` = a random key was generated -/
def privInit (dsha : Bytes → Bytes) (pfx : Bytes) (wif : Option String) (secret : Option Int) (b : Option Bytes) :
    Except PyErr (Option Nat) :=
  match wif, b, secret with
  | none, none, none => .ok none
  | some w, _, _ => (fromWif dsha pfx w).map some
  | none, some bb, _ => (if bb.length ≠ 32 then .error .valueError else signingKeyFromString bb).map some
  | none, none, some e => (signingKeyFromExponent e).map some

/-- `get_public_key().to_bytes()`: x ‖ y of d·G -/
def pubOfPriv (d : Nat) : Except PyErr (Nat × Nat) :=
  match mul G d with
  | some P => .ok P
  | none => .error .other

/-- python-ecdsa `VerifyingKey.from_string` on 64 raw bytes -/
def verifyingKeyFromString (b : Bytes) : Except PyErr (Nat × Nat) :=
  if b.length ≠ 64 then .error .valueError
  else
    let x := ofBE (b.take 32); let y := ofBE (b.drop 32)
    if onCurve (some (x, y)) then .ok (x, y) else .error .valueError

/-- sympy `sqrt_mod(c, p, True)`: all square roots of `c` modulo `p` (p ≡ 3 mod 4) -/
def sqrtAll (c : Nat) : List Nat :=
  let r := powMod c ((p + 1) / 4) p
  if r * r % p ≠ c % p then []
  else if r = 0 then [0]
  else if r < p - r then [r, p - r] else [p - r, r]

/-- `PublicKey.__init__(hex_str)` on the bytes the hex string denotes -/
def pubFromBytes (b : Bytes) : Except PyErr (Nat × Nat) :=
  if b.length > 33 then verifyingKeyFromString (b.drop 1)
  else if b.length > 31 then
    let taproot := b.length == 32
    let x := ofBE (if taproot then b else b.drop 1)
    let ys := sqrtAll ((x ^ 3 + 7) % p)
    let first := (b.getD 0 0).toNat
    match ys with
    | [] => .error .indexError
    | y0 :: rest =>
      let y1? := rest.head?
      let pick : Except PyErr Nat :=
        if first = 0x02 ∨ taproot then
          (if y0 % 2 = 0 then .ok y0 else match y1? with | some y1 => .ok y1 | none => .error .indexError)
        else if first = 0x03 then
          (if y0 % 2 = 0 then (match y1? with | some y1 => .ok y1 | none => .error .indexError) else .ok y0)
        else .error .typeError
      match pick with
      | .error e => .error e
      | .ok y =>
        -- f"{x:064x}{y:064x}" then VerifyingKey.from_string
        if x ≥ 2 ^ 256 then .error .valueError
        else verifyingKeyFromString (beBytes 32 x ++ beBytes 32 y)
  else .error .other       -- no key attribute is set

/-- `to_hex(compressed)` as bytes -/
def pubToBytes (P : Nat × Nat) (compressed : Bool) : Bytes :=
  if compressed then (if P.2 % 2 = 0 then 0x02 else 0x03) :: beBytes 32 P.1
  else 0x04 :: (beBytes 32 P.1 ++ beBytes 32 P.2)

/-- `to_x_only_hex` -/
def pubXOnly (P : Nat × Nat) : Bytes := beBytes 32 P.1

/-- `_to_hash160(compressed)` -/
def pubHash160 (sha256 : Bytes → Bytes) (tb : Rmd.Tabs) (P : Nat × Nat) (compressed : Bool) : Bytes :=
  hash160 sha256 tb (pubToBytes P compressed)

end Model
