import BU.Py
import BU.Spec.Bip32
import BU.Model.Keys
/-! Hand model (tier M) of `bitcoinutils/hdwallet.py` (the wrapper) over a parameter model of the third-party
`hdwallet` object: state = (root key, current key); `from_derivation p` derives index by index **from the
current key**; `clean_derivation` resets the current key to the root; `wif()` exports the current key with the
prefix of the library network chosen in `__init__` (`'mainnet' if is_mainnet() else 'testnet'`). -/
namespace Model
namespace HD
open Py Spec Secp

structure ExtHDW where
  root : XKey
  cur : XKey
deriving Repr, DecidableEq, Inhabited

/-- hdwallet `from_derivation` -/
def ExtHDW.fromDerivation (hmac : Bytes → Bytes → Bytes) (w : ExtHDW) (path : List Nat) : Except PyErr ExtHDW :=
  match derivePath hmac w.cur path with
  | some k => .ok { w with cur := k }
  | none => .error .other

/-- hdwallet `clean_derivation` -/
def ExtHDW.clean (w : ExtHDW) : ExtHDW := { w with cur := w.root }

/-- `HDWallet.from_mnemonic` → the library object after `from_mnemonic` (BIP39 seed, BIP32 master) -/
def fromSeed (hmac : Bytes → Bytes → Bytes) (seed : Bytes) : Except PyErr ExtHDW :=
  match masterKey hmac seed with
  | some k => .ok { root := k, cur := k }
  | none => .error .other

/-- `HDWallet(xprivate_key=…, path=…)`: the extended key is the root, then the path is derived -/
def fromXprv (hmac : Bytes → Bytes → Bytes) (k : XKey) (path : List Nat) : Except PyErr ExtHDW :=
  ExtHDW.fromDerivation hmac { root := k, cur := k } path

/-- `HDWallet.from_path`: `clean_derivation()` then `from_derivation(path)` -/
def fromPath (hmac : Bytes → Bytes → Bytes) (w : ExtHDW) (path : List Nat) : Except PyErr ExtHDW :=
  ExtHDW.fromDerivation hmac w.clean path

/-- the WIF prefix of the hdwallet network chosen by the wrapper -/
def extWifPrefix (isMainnet : Bool) : Bytes := if isMainnet then [0x80] else [0xef]

/-- `HDWallet.get_private_key`: `PrivateKey(self.hdw.wif())` on a bitcoinutils network with WIF prefix `pfx` -/
def getPrivateKey (dsha : Bytes → Bytes) (isMainnet : Bool) (pfx : Bytes) (w : ExtHDW) : Except PyErr Nat :=
  fromWif dsha pfx (toWif dsha (extWifPrefix isMainnet) w.cur.key true)

end HD
end Model
