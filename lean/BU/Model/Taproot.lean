import BU.Py
import BU.Crypto.Secp256k1
import BU.Spec.Sighash
import BU.Spec.Taproot
import BU.Model.Script
import BU.Model.Schnorr
/-! Hand model (tier M) of the taproot helpers of `bitcoinutils/utils.py` (`tapleaf_tagged_hash`,
`tapbranch_tagged_hash`, `get_tag_hashed_merkle_root`, `_generate_merkle_path` *with its global leaf
counter*, `ControlBlock.to_bytes`, `calculate_tweak`, `tweak_taproot_pubkey`, `tweak_taproot_privkey`)
and of `PrivateKey._sign_taproot_input`, `PublicKey.to_taproot_hex`. -/
namespace Model
open Py Spec Secp

/-- the nested one- and two-element lists of Scripts that describe a script tree -/
inductive Tree
  | leaf (s : List Tok)
  | one (t : Tree)
  | two (l r : Tree)
deriving Repr, Inhabited

/-- the `scripts` argument: nothing / a raw 32-byte merkle root / a tree -/
inductive Scripts
  | none
  | root (b : Bytes)
  | tree (t : Tree)
deriving Repr, Inhabited

/-- `tapleaf_tagged_hash` -/
def tapleafHash (sha256 : Bytes → Bytes) (T : Tables) (s : List Tok) : Except PyErr Bytes := do
  let b ← scriptBytes T s
  pure (taggedHash sha256 "TapLeaf" ([0xc0] ++ withLen b))

/-- `tapbranch_tagged_hash` (Python's `<` on bytes is lexicographic) -/
def tapbranchHash (sha256 : Bytes → Bytes) (a b : Bytes) : Bytes :=
  if lexLt a b then taggedHash sha256 "TapBranch" (a ++ b) else taggedHash sha256 "TapBranch" (b ++ a)

/-- `get_tag_hashed_merkle_root` -/
def merkleRoot (sha256 : Bytes → Bytes) (T : Tables) : Tree → Except PyErr Bytes
  | .leaf s => tapleafHash sha256 T s
  | .one t => merkleRoot sha256 T t
  | .two l r => do
    let a ← merkleRoot sha256 T l
    let b ← merkleRoot sha256 T r
    pure (tapbranchHash sha256 a b)

/-- `traverse_level` of `_generate_merkle_path`: threads the counter of leaves traversed so far;
returns (bytes, found-flag) and the new counter -/
def traverse (sha256 : Bytes → Bytes) (T : Tables) (target : Nat) : Tree → Nat → Except PyErr ((Bytes × Bool) × Nat)
  | .leaf s, traversed =>
    if traversed = target then pure (([], true), traversed + 1)
    else do
      let h ← tapleafHash sha256 T s
      pure ((h, false), traversed + 1)
  | .one t, traversed => traverse sha256 T target t traversed
  | .two l r, traversed => do
    let ((a, a1), tr) ← traverse sha256 T target l traversed
    let ((b, b1), tr) ← traverse sha256 T target r tr
    if a1 then pure ((a ++ b, true), tr)
    else if b1 then pure ((b ++ a, true), tr)
    else pure ((tapbranchHash sha256 a b, false), tr)

/-- `_generate_merkle_path` -/
def merklePath (sha256 : Bytes → Bytes) (T : Tables) (t : Tree) (target : Nat) : Except PyErr Bytes := do
  let ((p, _), _) ← traverse sha256 T target t 0
  pure p

/-- `ControlBlock(pubkey, scripts, index, is_odd).to_bytes()`; `pub` = the 64-byte x‖y key -/
def controlBlock (sha256 : Bytes → Bytes) (T : Tables) (pub : Bytes) (t : Tree) (index : Nat) (isOdd : Bool) :
    Except PyErr Bytes := do
  let path ← merklePath sha256 T t index
  pure ([if isOdd then 0xc1 else 0xc0] ++ pub.take 32 ++ path)

/-- `calculate_tweak` (as an integer) -/
def calculateTweak (sha256 : Bytes → Bytes) (T : Tables) (pub : Bytes) : Scripts → Except PyErr Nat
  | .none => pure (ofBE (taggedHash sha256 "TapTweak" (pub.take 32)))
  | .root b => pure (ofBE (taggedHash sha256 "TapTweak" (pub.take 32 ++ b)))
  | .tree t => do
    let r ← merkleRoot sha256 T t
    pure (ofBE (taggedHash sha256 "TapTweak" (pub.take 32 ++ r)))

/-- `tweak_taproot_pubkey`: returns (x ‖ y of the even-y output point, is_odd) -/
def tweakPubkey (pub : Bytes) (tweak : Nat) : Except PyErr (Bytes × Bool) := do
  let x := ofBE (pub.take 32)
  let y0 := ofBE (pub.drop 32)
  let y := if y0 % 2 ≠ 0 then p - y0 else y0
  match add (some (x, y)) (mul G tweak) with
  | none => throw PyErr.typeError
  | some (qx, qy) => do
    let odd := qy % 2 ≠ 0
    let qy' := if odd then p - qy else qy
    let a ← Py.toBytes qx 32 .big      -- f"{Q[0]:064x}" → 32 bytes (longer would not be 64 hex chars)
    let b ← Py.toBytes qy' 32 .big
    pure (a ++ b, odd)

/-- `tweak_taproot_privkey` -/
def tweakPrivkey (priv : Bytes) (tweak : Nat) : Except PyErr Bytes := do
  let pub ← fullPubkeyGen priv
  let d := ofBE priv
  let negated := if ofBE (pub.drop 32) % 2 = 0 then d else n - d
  Py.toBytes ((negated + tweak) % n) 32 .big

/-- `PublicKey.to_taproot_hex`: (witness program, is_odd) -/
def toTaproot (sha256 : Bytes → Bytes) (T : Tables) (pub : Bytes) (s : Scripts) : Except PyErr (Bytes × Bool) := do
  let tw ← calculateTweak sha256 T pub s
  let (q, odd) ← tweakPubkey pub tw
  pure (q.take 32, odd)

/-- `PrivateKey._sign_taproot_input`; `priv` the 32-byte key, `pub` its 64-byte public key -/
def signTaproot (sha256 : Bytes → Bytes) (T : Tables) (priv pub : Bytes) (digest : Bytes) (sighash : Nat)
    (s : Scripts) (tweak : Bool) : Except PyErr Bytes := do
  let key ←
    if tweak then (do
      let tw ← calculateTweak sha256 T pub s
      tweakPrivkey priv tw)
    else pure priv
  let aux := sha256 (digest ++ key)
  let sig ← schnorrSign sha256 digest key aux
  if sighash ≠ 0 then do
    let b ← Py.toBytes sighash 1 .big
    pure (sig ++ b)
  else pure sig

end Model
