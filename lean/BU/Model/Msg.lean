import BU.Py
import BU.Crypto.Secp256k1
import BU.Spec.CompactSize
import BU.Spec.Ecdsa
import BU.Model.Keys
import BU.Model.Address
/-! Hand model (tier M) of message signing in `bitcoinutils/keys.py` / `utils.py`: `add_magic_prefix`,
`PublicKey.verify_message`, `PublicKey.verify`, the recovery branch of `PublicKey.__init__`, and the
header search of `PrivateKey.sign_message`.  python-ecdsa's raw (r, s) for the digest is an input. -/
namespace Model
open Py Spec Secp

/-- `add_magic_prefix` on the UTF-8 bytes of the message -/
def addMagicPrefix (magic : Bytes) (msgUtf8 : Bytes) : Bytes := magic ++ compactSize msgUtf8.length ++ msgUtf8

def msgDigest (sha256 : Bytes → Bytes) (magic msg : Bytes) : Bytes := sha256 (sha256 (addMagicPrefix magic msg))

/-- python-ecdsa `verify_digest` with `sigdecode_string`: raises BadSignatureError instead of returning False -/
def ecdsaVerifyDigest (Q : Nat × Nat) (z r s : Nat) : Except PyErr Bool :=
  if ecdsaVerify (some Q) z r s then .ok true else .error .other

/-- `PublicKey.verify_message(address, signature, message)`; `sig` = the base64-decoded bytes,
`addrOf Q compressed` = the P2PKH address string of key Q -/
def verifyMessage (sha256 : Bytes → Bytes) (magic : Bytes) (addrOf : Nat × Nat → Bool → String)
    (address : String) (sig : Bytes) (msg : Bytes) : Except PyErr Bool := do
  if sig.length ≠ 65 then throw PyErr.valueError
  let prefix_ := (sig.getD 0 0).toNat
  if prefix_ < 27 ∨ prefix_ > 35 then return false
  let compressed := prefix_ ≥ 31
  let recid := if compressed then prefix_ - 31 else prefix_ - 27
  let z := ofBE (msgDigest sha256 magic msg)
  let r := ofBE ((sig.drop 1).take 32)
  let s := ofBE ((sig.drop 33).take 32)
  let x := r + (recid / 2) * n
  -- sqrt_mod((x^3+7) % p, p, True); y_values[0] raises IndexError when there is no root
  let ys := sqrtAll ((x ^ 3 + 7) % p)
  let some y0 := ys.head? | throw PyErr.indexError
  let y ← if (y0 + recid) % 2 = 0 then pure y0 else (match ys[1]? with | some y1 => pure y1 | none => throw PyErr.indexError)
  -- ellipticcurve.Point(curve, x, y, order) asserts the point is on the curve
  if !(onCurve (some (x % p, y)) ) then throw PyErr.assertion
  if r % n = 0 then throw PyErr.other          -- inverse_mod(0, n)
  let R : Point := some (x % p, y)
  let minusE := (n - z % n) % n
  let invR := invN (r % n)
  let Q := mul (add (mul R s) (mul G minusE)) invR
  let some q := Q | throw PyErr.other          -- from_public_point(INFINITY)
  let ok ← ecdsaVerifyDigest q z r s
  if !ok then return false
  if addrOf q compressed ≠ address then return false
  return true

/-- the header search of `sign_message`: tries 27..30 (+4 if compressed) and returns the first header that
verifies against the signer's own address (a ValueError from verify_message is skipped) -/
def signMessageHeader (sha256 : Bytes → Bytes) (magic : Bytes) (addrOf : Nat × Nat → Bool → String)
    (pub : Nat × Nat) (compressed : Bool) (rs : Bytes) (msg : Bytes) : Except PyErr (Option Bytes) := do
  let base := if compressed then 31 else 27
  let address := addrOf pub compressed
  let rec go (k : Nat) (fuel : Nat) : Except PyErr (Option Bytes) :=
    match fuel with
    | 0 => .ok none
    | f+1 =>
      let sig := [UInt8.ofNat (base + k)] ++ rs
      match verifyMessage sha256 magic addrOf address sig msg with
      | .ok true => .ok (some sig)
      | .ok false => go (k + 1) f
      | .error .valueError => go (k + 1) f
      | .error e => .error e
  go 0 4

/-- the recovery branch of `PublicKey.__init__(message=…, signature=…)`: python-ecdsa
`from_public_key_recovery_with_digest` returns the candidate keys in the order (even-y R, odd-y R) for
x = r, then for x = r + n when that is a field element -/
def recoverPub (sha256 : Bytes → Bytes) (magic : Bytes) (msg : Bytes) (sig : Bytes) : Except PyErr (Nat × Nat) := do
  if msg.isEmpty then throw PyErr.valueError
  if sig.length ≠ 65 then throw PyErr.valueError
  let h := (sig.getD 0 0).toNat
  if !(27 ≤ h ∧ h ≤ 34) then throw PyErr.valueError
  let recid := (h - 27) % 4
  let z := ofBE (msgDigest sha256 magic msg)
  let r := ofBE ((sig.drop 1).take 32)
  let s := ofBE ((sig.drop 33).take 32)
  match ecdsaRecover z r s recid with
  | some q => pure q
  | none => throw PyErr.other

end Model
