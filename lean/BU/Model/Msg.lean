import BU.Py
import BU.Crypto.Secp256k1
import BU.Spec.CompactSize
import BU.Spec.Ecdsa
import BU.Model.Keys
import BU.Model.Address
/-! Hand model (tier M) of message signing in `bitcoinutils/keys.py` / `utils.py`: `add_magic_prefix`,
`PublicKey.verify_message`, `PublicKey.verify`, the recovery branch of `PublicKey.__init__`, and the
header search of `PrivateKey.sign_message`.  python-ecdsa's raw (r, s) for the digest is an input. -/
namespace Model
open Py Spec Secp

/-- `add_magic_prefix` on the UTF-8 bytes of the message -/
def addMagicPrefix (magic : Bytes) (msgUtf8 : Bytes) : Bytes := magic ++ compactSize msgUtf8.length ++ msgUtf8

def msgDigest (sha256 : Bytes → Bytes) (magic msg : Bytes) : Bytes := sha256 (sha256 (addMagicPrefix magic msg))

/-- python-ecdsa `verify_digest` with `sigdecode_string`: raises BadSignatureError instead of returning False -/
def ecdsaVerifyDigest (Q : Nat × Nat) (z r s : Nat) : Except PyErr Bool :=
  if ecdsaVerify (some Q) z r s then .ok true else .error .other

/-- root selection of `verify_message`: `y_values[0]` if its parity matches the recovery id, else `y_values[1]`
(either index raises IndexError when sympy returned too few roots) -/
def pickRoot (ys : List Nat) (recid : Nat) : Except PyErr Nat :=
  match ys.head? with
  | none => .error .indexError
  | some y0 =>
    if (y0 + recid) % 2 = 0 then .ok y0
    else match ys[1]? with
      | some y1 => .ok y1
      | none => .error .indexError

/-- `verify_message` statement by statement, in if/match form, with the arithmetic primitives as parameters (so that
proofs about the control flow never make the kernel evaluate curve arithmetic) -/
def verifyN (sq : Nat → List Nat) (oc : Point → Bool) (mulF : Point → Nat → Point) (addF : Point → Point → Point)
    (g : Point) (inv : Nat → Nat) (verD : Nat × Nat → Nat → Nat → Nat → Except PyErr Bool) (nn pp : Nat)
    (z : Nat) (addrOf : Nat × Nat → Bool → String) (address : String) (sig : Bytes) : Except PyErr Bool :=
  if sig.length ≠ 65 then .error .valueError                     -- len(signature) != 65
  else
    let h := (sig.getD 0 0).toNat
    if h < 27 ∨ h > 35 then .ok false                            -- prefix outside the header window
    else
      let recid := if h ≥ 31 then h - 31 else h - 27             -- compressed flag / recovery id
      let r := ofBE ((sig.drop 1).take 32)
      let s := ofBE ((sig.drop 33).take 32)
      let x := r + (recid / 2) * nn
      -- sqrt_mod((x^3+7) % p, p, True); y_values[0] raises IndexError when there is no root
      match pickRoot (sq ((x ^ 3 + 7) % pp)) recid with
      | .error e => .error e
      | .ok y =>
        -- ellipticcurve.Point(curve, x, y, order) asserts the point is on the curve
        if oc (some (x % pp, y)) = false then .error .assertion
        else if r % nn = 0 then .error .other                    -- inverse_mod(0, n)
        else
          -- Q = r^-1 (s R - z G)
          match mulF (addF (mulF (some (x % pp, y)) s) (mulF g ((nn - z % nn) % nn))) (inv (r % nn)) with
          | none => .error .other                                -- from_public_point(INFINITY)
          | some q =>
            match verD q z r s with
            | .error e => .error e
            | .ok v =>
              if v = false then .ok false
              else if addrOf q (decide (h ≥ 31)) = address then .ok true else .ok false

/-- `PublicKey.verify_message(address, signature, message)`; `sig` = the base64-decoded bytes,
`addrOf Q compressed` = the P2PKH address string of key Q -/
def verifyMessage (sha256 : Bytes → Bytes) (magic : Bytes) (addrOf : Nat × Nat → Bool → String)
    (address : String) (sig : Bytes) (msg : Bytes) : Except PyErr Bool :=
  verifyN sqrtAll onCurve mul add G invN ecdsaVerifyDigest n p (ofBE (msgDigest sha256 magic msg)) addrOf address sig

/-- the header search of `sign_message`: tries 27..30 (+4 if compressed) and returns the first header that
verifies against the signer's own address (a ValueError from verify_message is skipped) -/
def signMessageHeader (sha256 : Bytes → Bytes) (magic : Bytes) (addrOf : Nat × Nat → Bool → String)
    (pub : Nat × Nat) (compressed : Bool) (rs : Bytes) (msg : Bytes) : Except PyErr (Option Bytes) := do
  let base := if compressed then 31 else 27
  let address := addrOf pub compressed
  let rec go (k : Nat) (fuel : Nat) : Except PyErr (Option Bytes) :=
    match fuel with
    | 0 => .ok none
    | f+1 =>
      let sig := [UInt8.ofNat (base + k)] ++ rs
      match verifyMessage sha256 magic addrOf address sig msg with
      | .ok true => .ok (some sig)
      | .ok false => go (k + 1) f
      | .error .valueError => go (k + 1) f
      | .error e => .error e
  go 0 4

/-- the recovery branch of `PublicKey.__init__(message=…, signature=…)`: python-ecdsa
`from_public_key_recovery_with_digest` returns the candidate keys in the order (even-y R, odd-y R) for
x = r, then for x = r + n when that is a field element -/
def recoverPub (sha256 : Bytes → Bytes) (magic : Bytes) (msg : Bytes) (sig : Bytes) : Except PyErr (Nat × Nat) := do
  if msg.isEmpty then throw PyErr.valueError
  if sig.length ≠ 65 then throw PyErr.valueError
  let h := (sig.getD 0 0).toNat
  if !(27 ≤ h ∧ h ≤ 34) then throw PyErr.valueError
  let recid := (h - 27) % 4
  let z := ofBE (msgDigest sha256 magic msg)
  let r := ofBE ((sig.drop 1).take 32)
  let s := ofBE ((sig.drop 33).take 32)
  match ecdsaRecover z r s recid with
  | some q => pure q
  | none => throw PyErr.other

end Model
