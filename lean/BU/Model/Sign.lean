import BU.Py
import BU.Crypto.Secp256k1
import BU.Spec.Ecdsa
/-! Hand model (tier M) of `PrivateKey._sign_input` (the repository's own logic around python-ecdsa):
the low-R grinding loop over the DER signatures python-ecdsa returns per attempt, decode, low-S rule,
re-encode, hash-type byte.  python-ecdsa's `sigdecode_der` / `sigencode_der` enter as `Spec.derDecode` /
`Spec.derEncode`; its per-attempt output is an input of the model (logged from the real library). -/
namespace Model
open Py Spec Secp

/-- the `while length_r == 33` loop: `attempts` lists what `sign_digest_deterministic` returns for attempt 0
(no extra entropy), 1, 2, …; returns the first signature whose byte 3 (length of R) is not 33 and its index -/
def grind : List Bytes → Nat → Except PyErr (Bytes × Nat)
  | [], _ => .error .other                   -- the log ran out (never happens when replaying a real run)
  | sig :: rest, k =>
    match sig[3]? with
    | none => .error .indexError
    | some l => if l.toNat = 33 then grind rest (k + 1) else .ok (sig, k)

/-- decode, low-S, re-encode, append the hash type -/
def normalise (der : Bytes) (sighash : Nat) : Except PyErr Bytes := do
  let some (r, s) := derDecode der | throw PyErr.valueError
  let s' := if s > n / 2 then n - s else s
  let ht ← Py.pack "B" sighash
  pure (derEncode r s' ++ ht)

/-- `_sign_input` given the per-attempt DER signatures -/
def signInput (attempts : List Bytes) (sighash : Nat) : Except PyErr (Bytes × Nat) := do
  let (sig, k) ← grind attempts 0
  let out ← normalise sig sighash
  pure (out, k)

end Model
