import BU.Py
/-! CompactSize (Bitcoin protocol documentation, "Variable length integer"). Written from the
protocol text, independently of the code. -/
namespace Spec
open Py

/-- canonical encoding -/
def compactSize (n : Nat) : Bytes :=
  if n < 253 then [UInt8.ofNat n]
  else if n < 2 ^ 16 then 0xfd :: leBytes 2 n
  else if n < 2 ^ 32 then 0xfe :: leBytes 4 n
  else 0xff :: leBytes 8 n

/-- decoder: value and number of bytes consumed; `none` when the input is truncated -/
def decodeCompactSize : Bytes → Option (Nat × Nat)
  | [] => none
  | b :: rest =>
    if b.toNat < 253 then some (b.toNat, 1)
    else
      let k := if b.toNat = 253 then 2 else if b.toNat = 254 then 4 else 8
      if rest.length < k then none else some (ofLE (rest.take k), k + 1)

/-- "canonical shortest form": the length class is determined by the value -/
def compactSizeLen (n : Nat) : Nat :=
  if n < 253 then 1 else if n < 2 ^ 16 then 3 else if n < 2 ^ 32 then 5 else 9

/-- data prefixed with the CompactSize of its length -/
def withLen (d : Bytes) : Bytes := compactSize d.length ++ d

end Spec
