import BU.Py
/-! RIPEMD-160 (Dobbertin, Bosselaers, Preneel 1996; ISO/IEC 10118-3), written from the
specification's pseudo-code: constants, message-word selection, rotation amounts, boolean functions
per round, Merkle–Damgård strengthening with a little-endian 64-bit bit count. -/
namespace Spec
namespace Rmd
open Py

def r : List Nat := [
  0, 1, 2, 3, 4, 5, 6, 7, 8, 9, 10, 11, 12, 13, 14, 15,
  7, 4, 13, 1, 10, 6, 15, 3, 12, 0, 9, 5, 2, 14, 11, 8,
  3, 10, 14, 4, 9, 15, 8, 1, 2, 7, 0, 6, 13, 11, 5, 12,
  1, 9, 11, 10, 0, 8, 12, 4, 13, 3, 7, 15, 14, 5, 6, 2,
  4, 0, 5, 9, 7, 12, 2, 10, 14, 1, 3, 8, 11, 6, 15, 13]
def r' : List Nat := [
  5, 14, 7, 0, 9, 2, 11, 4, 13, 6, 15, 8, 1, 10, 3, 12,
  6, 11, 3, 7, 0, 13, 5, 10, 14, 15, 8, 12, 4, 9, 1, 2,
  15, 5, 1, 3, 7, 14, 6, 9, 11, 8, 12, 2, 10, 0, 4, 13,
  8, 6, 4, 1, 3, 11, 15, 0, 5, 12, 2, 13, 9, 7, 10, 14,
  12, 15, 10, 4, 1, 5, 8, 7, 6, 2, 13, 14, 0, 3, 9, 11]
def s : List Nat := [
  11, 14, 15, 12, 5, 8, 7, 9, 11, 13, 14, 15, 6, 7, 9, 8,
  7, 6, 8, 13, 11, 9, 7, 15, 7, 12, 15, 9, 11, 7, 13, 12,
  11, 13, 6, 7, 14, 9, 13, 15, 14, 8, 13, 6, 5, 12, 7, 5,
  11, 12, 14, 15, 14, 15, 9, 8, 9, 14, 5, 6, 8, 6, 5, 12,
  9, 15, 5, 11, 6, 8, 13, 12, 5, 12, 13, 14, 11, 8, 5, 6]
def s' : List Nat := [
  8, 9, 9, 11, 13, 15, 15, 5, 7, 7, 8, 11, 14, 14, 12, 6,
  9, 13, 15, 7, 12, 8, 9, 11, 7, 7, 12, 7, 6, 15, 13, 11,
  9, 7, 15, 11, 8, 6, 6, 14, 12, 13, 5, 14, 13, 13, 7, 5,
  15, 5, 8, 11, 14, 14, 6, 14, 6, 9, 12, 9, 12, 5, 15, 8,
  8, 5, 12, 9, 12, 5, 14, 6, 8, 13, 6, 5, 15, 13, 11, 11]
/-- added constants per round (left line, right line) -/
def K : List Nat := [0x00000000, 0x5a827999, 0x6ed9eba1, 0x8f1bbcdc, 0xa953fd4e]
def K' : List Nat := [0x50a28be6, 0x5c4dd124, 0x6d703ef3, 0x7a6d76e9, 0x00000000]

/-- nonlinear functions at bit level, by round 0..4 -/
def f (round : Nat) (x y z : UInt32) : UInt32 :=
  match round with
  | 0 => x ^^^ y ^^^ z
  | 1 => (x &&& y) ||| (~~~ x &&& z)
  | 2 => (x ||| ~~~ y) ^^^ z
  | 3 => (x &&& z) ||| (y &&& ~~~ z)
  | _ => x ^^^ (y ||| ~~~ z)

def rol (x : UInt32) (k : Nat) : UInt32 := (x <<< UInt32.ofNat k) ||| (x >>> UInt32.ofNat (32 - k))

structure State where
  a : UInt32
  b : UInt32
  c : UInt32
  d : UInt32
  e : UInt32
deriving Repr, DecidableEq, Inhabited

def init : State := ⟨0x67452301, 0xefcdab89, 0x98badcfe, 0x10325476, 0xc3d2e1f0⟩

def word (block : Bytes) (i : Nat) : UInt32 := UInt32.ofNat (ofLE ((block.drop (4 * i)).take 4))

/-- one step of one line -/
def step (st : State) (fr : Nat) (x : UInt32) (k : Nat) (rot : Nat) : State :=
  let t := rol (st.a + f fr st.b st.c st.d + x + UInt32.ofNat k) rot + st.e
  ⟨st.e, t, st.b, rol st.c 10, st.d⟩

/-- the compression function on a 64-byte block -/
def compress (h : State) (block : Bytes) : State :=
  let l := (List.range 80).foldl (fun st j =>
    step st (j / 16) (word block (r.getD j 0)) (K.getD (j / 16) 0) (s.getD j 0)) h
  let rr := (List.range 80).foldl (fun st j =>
    step st (4 - j / 16) (word block (r'.getD j 0)) (K'.getD (j / 16) 0) (s'.getD j 0)) h
  ⟨h.b + l.c + rr.d, h.c + l.d + rr.e, h.d + l.e + rr.a, h.e + l.a + rr.b, h.a + l.b + rr.c⟩

/-- Merkle–Damgård padding: 0x80, zeros up to 56 mod 64, 64-bit little-endian bit length -/
def pad (m : Bytes) : Bytes :=
  m ++ [0x80] ++ List.replicate ((119 - m.length % 64) % 64) 0 ++ leBytes 8 (8 * m.length)

def chunks : Nat → Bytes → List Bytes
  | 0, _ => []
  | k+1, bs => bs.take 64 :: chunks k (bs.drop 64)

def blocks (bs : Bytes) : List Bytes := chunks (bs.length / 64) bs

def le32 (x : UInt32) : Bytes := leBytes 4 x.toNat

def ripemd160 (m : Bytes) : Bytes :=
  let st := (blocks (pad m)).foldl compress init
  le32 st.a ++ le32 st.b ++ le32 st.c ++ le32 st.d ++ le32 st.e

end Rmd
end Spec
