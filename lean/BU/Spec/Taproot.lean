import BU.Py
import BU.Crypto.Secp256k1
import BU.Spec.Sighash
/-! BIP341: taproot output key construction and script-path (control block) validation, transcribed
from the BIP text ("Constructing and spending Taproot outputs", "Script validation rules"). -/
namespace Spec
open Py Secp

def lexLt : Bytes → Bytes → Bool
  | [], [] => false
  | [], _ :: _ => true
  | _ :: _, [] => false
  | a :: as, b :: bs => if a.toNat < b.toNat then true else if a.toNat > b.toNat then false else lexLt as bs

def tapLeafHash (sha256 : Bytes → Bytes) (leafVersion : UInt8) (script : Bytes) : Bytes :=
  taggedHash sha256 "TapLeaf" ([leafVersion] ++ withLen script)

/-- TapBranch hash of two child hashes, lexicographically sorted -/
def tapBranchHash (sha256 : Bytes → Bytes) (a b : Bytes) : Bytes :=
  if lexLt a b then taggedHash sha256 "TapBranch" (a ++ b) else taggedHash sha256 "TapBranch" (b ++ a)

/-- `taproot_tweak_pubkey`: output key x coordinate and parity bit for internal x-only key `px` and
merkle root `h` (empty when there is no script tree); `none` where BIP341 fails -/
def taprootOutput (sha256 : Bytes → Bytes) (px : Bytes) (h : Bytes) : Option (Bytes × Bool) :=
  let t := ofBE (taggedHash sha256 "TapTweak" (px ++ h))
  if t ≥ n then none
  else
    match liftX (ofBE px) with
    | none => none
    | some P =>
      match add (some P) (mul G t) with
      | none => none
      | some (x, y) => some (beBytes 32 x, y % 2 == 1)

def chunks32 : Nat → Bytes → List Bytes
  | 0, _ => []
  | k+1, bs => bs.take 32 :: chunks32 k (bs.drop 32)

/-- script-path validation: from a control block and the leaf script compute the witness program (output
key x) and parity the spend commits to; the caller compares with the program being spent and with
`c[0] & 1`.  `none` when the control block is malformed or BIP341 fails. -/
def scriptPathCommitment (sha256 : Bytes → Bytes) (cb : Bytes) (script : Bytes) : Option (Bytes × Bool) :=
  if cb.length < 33 ∨ (cb.length - 33) % 32 ≠ 0 ∨ (cb.length - 33) / 32 > 128 then none
  else
    let c0 := (cb.getD 0 0).toNat
    let v := UInt8.ofNat (c0 / 2 * 2)           -- c[0] & 0xfe
    let px := (cb.drop 1).take 32
    let k0 := tapLeafHash sha256 v script
    let k := (chunks32 ((cb.length - 33) / 32) (cb.drop 33)).foldl (tapBranchHash sha256) k0
    match taprootOutput sha256 px k with
    | none => none
    | some (q, odd) => if odd == (c0 % 2 == 1) then some (q, odd) else none

end Spec

namespace Spec
/-- a script tree over script *bytes* (BIP341 `taproot_tree_helper`; a one-element list is its element) -/
inductive STree
  | leaf (script : Bytes)
  | one (t : STree)
  | two (l r : STree)
deriving Repr, Inhabited

def STree.root (sha256 : Bytes → Bytes) : STree → Bytes
  | .leaf s => tapLeafHash sha256 0xc0 s
  | .one t => t.root sha256
  | .two l r => tapBranchHash sha256 (l.root sha256) (r.root sha256)

def STree.leaves : STree → List Bytes
  | .leaf s => [s]
  | .one t => t.leaves
  | .two l r => l.leaves ++ r.leaves
end Spec
