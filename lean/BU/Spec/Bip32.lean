import BU.Py
import BU.Crypto.Secp256k1
/-! BIP32 private child key derivation and BIP39 seed derivation, transcribed from the BIP texts, over
HMAC-SHA512 / PBKDF2 parameters. -/
namespace Spec
open Py Secp

structure XKey where
  key : Nat         -- private key
  chain : Bytes     -- 32-byte chain code
deriving Repr, DecidableEq, Inhabited

/-- serP(point(k)): compressed SEC encoding of k·G -/
def serP (k : Nat) : Bytes :=
  match mul G k with
  | some (x, y) => (if y % 2 = 0 then 0x02 else 0x03) :: beBytes 32 x
  | none => []

/-- master key generation: I = HMAC-SHA512("Bitcoin seed", S) -/
def masterKey (hmac : Bytes → Bytes → Bytes) (seed : Bytes) : Option XKey :=
  let I := hmac "Bitcoin seed".toUTF8.toList seed
  let il := ofBE (I.take 32)
  if il = 0 ∨ il ≥ n then none else some { key := il, chain := I.drop 32 }

/-- CKDpriv((k_par, c_par), i) -/
def ckdPriv (hmac : Bytes → Bytes → Bytes) (par : XKey) (i : Nat) : Option XKey :=
  let data := if i ≥ 2 ^ 31 then [0x00] ++ beBytes 32 par.key ++ beBytes 4 i else serP par.key ++ beBytes 4 i
  let I := hmac par.chain data
  let il := ofBE (I.take 32)
  let k := (il + par.key) % n
  if il ≥ n ∨ k = 0 then none else some { key := k, chain := I.drop 32 }

def derivePath (hmac : Bytes → Bytes → Bytes) : XKey → List Nat → Option XKey
  | k, [] => some k
  | k, i :: rest => match ckdPriv hmac k i with | some c => derivePath hmac c rest | none => none

/-- BIP39: seed = PBKDF2-HMAC-SHA512(mnemonic, "mnemonic" ‖ passphrase, 2048 rounds, 64 bytes) -/
def bip39Seed (pbkdf2 : Bytes → Bytes → Nat → Bytes) (mnemonicUtf8 passphraseUtf8 : Bytes) : Bytes :=
  pbkdf2 mnemonicUtf8 ("mnemonic".toUTF8.toList ++ passphraseUtf8) 2048

end Spec
