import BU.Py
/-! Base58 (Bitcoin alphabet) and Base58Check, written from the Bitcoin wiki description:
big-endian base conversion of the payload, one '1' per leading zero byte. -/
namespace Spec
namespace B58
open Py

def alphabet : List Char := "123456789ABCDEFGHJKLMNPQRSTUVWXYZabcdefghijkmnopqrstuvwxyz".toList

/-- base-58 digits of `n`, least significant first (`[]` for 0) -/
def digitsLE : Nat → Nat → List Nat
  | 0, _ => []
  | f+1, n => if n = 0 then [] else (n % 58) :: digitsLE f (n / 58)

def digits (n : Nat) : List Nat := (digitsLE (n + 1) n).reverse

def ofDigits (ds : List Nat) : Nat := ds.foldl (fun acc d => acc * 58 + d) 0

def leadingZeros : Bytes → Nat
  | 0 :: rest => leadingZeros rest + 1
  | _ => 0

/-- minimal big-endian bytes of `n` (`[]` for 0) -/
def minBE (n : Nat) : Bytes := beBytes ((natBits n + 7) / 8) n

/-- payload → base-58 digit values (most significant first) -/
def encodeDigits (b : Bytes) : List Nat := List.replicate (leadingZeros b) 0 ++ digits (ofBE b)

def leadingZeroDigits : List Nat → Nat
  | 0 :: rest => leadingZeroDigits rest + 1
  | _ => 0

def decodeDigits (ds : List Nat) : Bytes :=
  List.replicate (leadingZeroDigits ds) 0 ++ minBE (ofDigits ds)

def charOf (d : Nat) : Char := alphabet.getD d '1'
def digitOf? (c : Char) : Option Nat := alphabet.idxOf? c

def encode (b : Bytes) : String := String.ofList ((encodeDigits b).map charOf)

/-- `none` when a character is outside the alphabet -/
def decode (s : String) : Option Bytes := (s.toList.mapM digitOf?).map decodeDigits

/-- Base58Check over a double-SHA256 parameter -/
def check (dsha : Bytes → Bytes) (payload : Bytes) : String := encode (payload ++ (dsha payload).take 4)

/-- decode and verify the 4-byte checksum; returns the payload (version byte included) -/
def uncheck (dsha : Bytes → Bytes) (s : String) : Option Bytes :=
  match decode s with
  | none => none
  | some raw =>
    if raw.length < 4 then none
    else
      let payload := raw.take (raw.length - 4)
      if raw.drop (raw.length - 4) == (dsha payload).take 4 then some payload else none

end B58
end Spec
