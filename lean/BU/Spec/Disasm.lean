import BU.Spec.Script
/-! What a correct disassembly of an assembled script is (C02): every opcode by *a* name of its
consensus byte, every push as exactly its data (the empty push is the opcode OP_0). -/
namespace Spec

/-- does output token `o` correctly render input token `t`? -/
def rendersTok (t o : Tok) : Bool :=
  match encTok t with
  | none => false
  | some bs =>
    match o with
    | .op name =>
      -- a one-byte opcode (including OP_0 for the empty push and OP_1..OP_16 for small ints)
      (match opcodeByte? name with
       | some b => bs == [b] && !(0x01 ≤ b.toNat && b.toNat ≤ 0x4e)
       | none => false)
    | .data d => d.length < 2 ^ 32 && !d.isEmpty && bs == minimalPush d
    | .int _ => false

def renders : List Tok → List Tok → Bool
  | [], [] => true
  | t :: ts, o :: os => rendersTok t o && renders ts os
  | _, _ => false

end Spec
