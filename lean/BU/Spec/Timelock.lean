import BU.Py
/-! BIP68 (relative lock-time via nSequence), BIP112 (CHECKSEQUENCEVERIFY), BIP65/consensus finality.
Transcribed from the BIP texts / Bitcoin Core `interpreter.cpp` (`CheckSequence`). -/
namespace Spec

def SEQUENCE_FINAL : Nat := 0xffffffff
def SEQUENCE_LOCKTIME_DISABLE_FLAG : Nat := 2 ^ 31
def SEQUENCE_LOCKTIME_TYPE_FLAG : Nat := 2 ^ 22
def SEQUENCE_LOCKTIME_MASK : Nat := 0x0000ffff

/-- BIP112: the checks `OP_CHECKSEQUENCEVERIFY` performs on its stack argument `n` against the
spending input's `nSequence` in a transaction of version `txVersion`.  `true` = script continues. -/
def checkSequenceVerify (txVersion : Nat) (txSequence : Nat) (n : Int) : Bool :=
  if n < 0 then false
  else
    let n := n.toNat
    -- "if the disable flag is set on the stack value, CSV behaves as a NOP"
    if n &&& SEQUENCE_LOCKTIME_DISABLE_FLAG ≠ 0 then true
    else if txVersion < 2 then false
    else if txSequence &&& SEQUENCE_LOCKTIME_DISABLE_FLAG ≠ 0 then false
    else
      let mask := SEQUENCE_LOCKTIME_TYPE_FLAG ||| SEQUENCE_LOCKTIME_MASK
      let txM := txSequence &&& mask
      let nM := n &&& mask
      -- same unit type
      if !((txM < SEQUENCE_LOCKTIME_TYPE_FLAG && nM < SEQUENCE_LOCKTIME_TYPE_FLAG) ||
           (txM ≥ SEQUENCE_LOCKTIME_TYPE_FLAG && nM ≥ SEQUENCE_LOCKTIME_TYPE_FLAG)) then false
      else decide (nM ≤ txM)

/-- an input with this sequence lets `nLockTime` be enforced (a transaction whose inputs are all
final ignores its lock time) -/
def nonFinal (seq : Nat) : Bool := seq < SEQUENCE_FINAL

/-- the relative-timelock value BIP68 specifies for (value, unit) -/
def relativeSequence (value : Nat) (blocks : Bool) : Nat :=
  value + (if blocks then 0 else SEQUENCE_LOCKTIME_TYPE_FLAG)

end Spec
