import BU.Py
import BU.Crypto.Secp256k1
/-! The facts about secp256k1 that the signature theorems rest on, collected as ONE explicit
hypothesis (a structure of propositions about the executable `Secp` functions — not an axiom):
the multiples of `G` under `Secp.add` / `Secp.mul` form a cyclic group of prime order `n`, `lift_x`
recovers the even-y point, inverses modulo `n` exist.  Every theorem that needs them takes
`(laws : CurveLaws)` as an argument; DESIGN.md §5 lists it in the trusted base until it is discharged
(`BU/Proofs/CurveLawsProof.lean`, stretch goal). -/
namespace Spec
open Secp

structure CurveLaws : Prop where
  /-- `k·G` only depends on `k mod n` (`n·G = 0`) -/
  mulG_mod : ∀ k, k < 2 ^ 256 → mul G k = mul G (k % n)
  /-- `G` has order exactly `n` -/
  mulG_ne_none : ∀ k, 0 < k → k < n → mul G k ≠ none
  mulG_zero : mul G 0 = none
  /-- addition of multiples of `G` -/
  add_mulG : ∀ a b, a < n → b < n → add (mul G a) (mul G b) = mul G ((a + b) % n)
  /-- scalar multiples of multiples of `G` -/
  mul_mulG : ∀ a b, a < n → b < 2 ^ 256 → mul (mul G a) b = mul G (a * b % n)
  /-- negation of a multiple of `G` -/
  neg_mulG : ∀ a, a < n → neg (mul G a) = mul G ((n - a) % n)
  /-- affine coordinates are field elements; there is no point of order 2 (y ≠ 0) -/
  coords : ∀ k x y, mul G k = some (x, y) → x < p ∧ 0 < y ∧ y < p
  /-- multiples of `G` satisfy the curve equation y² = x³ + 7 -/
  onCurve_mulG : ∀ k x y, mul G k = some (x, y) → onCurve (some (x, y)) = true
  /-- `lift_x` returns the even-y point with that x -/
  liftX_mulG : ∀ k x y, mul G k = some (x, y) → liftX x = some (x, if y % 2 = 0 then y else p - y)
  /-- inverses modulo the (prime) group order -/
  invN_mul : ∀ a, 0 < a → a < n → a * invN a % n = 1

end Spec
