import BU.Py
import BU.Spec.CompactSize
/-! Script byte language: consensus opcode numbering (Bitcoin Core `script/script.h`), minimal push
forms (BIP62 rule 3), script numbers (`CScriptNum::serialize`).  Written from those sources,
independently of the library's tables. -/
namespace Spec
open Py

/-- every opcode of Bitcoin Core's `enum opcodetype` with a name (including disabled ones), plus the
aliases Core itself defines (OP_FALSE, OP_TRUE, OP_NOP2, OP_NOP3) -/
def consensusOpcodes : List (String × UInt8) := [
  ("OP_0", 0x00), ("OP_FALSE", 0x00), ("OP_PUSHDATA1", 0x4c), ("OP_PUSHDATA2", 0x4d), ("OP_PUSHDATA4", 0x4e),
  ("OP_1NEGATE", 0x4f), ("OP_RESERVED", 0x50), ("OP_1", 0x51), ("OP_TRUE", 0x51), ("OP_2", 0x52), ("OP_3", 0x53),
  ("OP_4", 0x54), ("OP_5", 0x55), ("OP_6", 0x56), ("OP_7", 0x57), ("OP_8", 0x58), ("OP_9", 0x59), ("OP_10", 0x5a),
  ("OP_11", 0x5b), ("OP_12", 0x5c), ("OP_13", 0x5d), ("OP_14", 0x5e), ("OP_15", 0x5f), ("OP_16", 0x60),
  ("OP_NOP", 0x61), ("OP_VER", 0x62), ("OP_IF", 0x63), ("OP_NOTIF", 0x64), ("OP_VERIF", 0x65), ("OP_VERNOTIF", 0x66),
  ("OP_ELSE", 0x67), ("OP_ENDIF", 0x68), ("OP_VERIFY", 0x69), ("OP_RETURN", 0x6a),
  ("OP_TOALTSTACK", 0x6b), ("OP_FROMALTSTACK", 0x6c), ("OP_2DROP", 0x6d), ("OP_2DUP", 0x6e), ("OP_3DUP", 0x6f),
  ("OP_2OVER", 0x70), ("OP_2ROT", 0x71), ("OP_2SWAP", 0x72), ("OP_IFDUP", 0x73), ("OP_DEPTH", 0x74), ("OP_DROP", 0x75),
  ("OP_DUP", 0x76), ("OP_NIP", 0x77), ("OP_OVER", 0x78), ("OP_PICK", 0x79), ("OP_ROLL", 0x7a), ("OP_ROT", 0x7b),
  ("OP_SWAP", 0x7c), ("OP_TUCK", 0x7d),
  ("OP_CAT", 0x7e), ("OP_SUBSTR", 0x7f), ("OP_LEFT", 0x80), ("OP_RIGHT", 0x81), ("OP_SIZE", 0x82),
  ("OP_INVERT", 0x83), ("OP_AND", 0x84), ("OP_OR", 0x85), ("OP_XOR", 0x86), ("OP_EQUAL", 0x87), ("OP_EQUALVERIFY", 0x88),
  ("OP_RESERVED1", 0x89), ("OP_RESERVED2", 0x8a),
  ("OP_1ADD", 0x8b), ("OP_1SUB", 0x8c), ("OP_2MUL", 0x8d), ("OP_2DIV", 0x8e), ("OP_NEGATE", 0x8f), ("OP_ABS", 0x90),
  ("OP_NOT", 0x91), ("OP_0NOTEQUAL", 0x92), ("OP_ADD", 0x93), ("OP_SUB", 0x94), ("OP_MUL", 0x95), ("OP_DIV", 0x96),
  ("OP_MOD", 0x97), ("OP_LSHIFT", 0x98), ("OP_RSHIFT", 0x99), ("OP_BOOLAND", 0x9a), ("OP_BOOLOR", 0x9b),
  ("OP_NUMEQUAL", 0x9c), ("OP_NUMEQUALVERIFY", 0x9d), ("OP_NUMNOTEQUAL", 0x9e), ("OP_LESSTHAN", 0x9f),
  ("OP_GREATERTHAN", 0xa0), ("OP_LESSTHANOREQUAL", 0xa1), ("OP_GREATERTHANOREQUAL", 0xa2), ("OP_MIN", 0xa3),
  ("OP_MAX", 0xa4), ("OP_WITHIN", 0xa5),
  ("OP_RIPEMD160", 0xa6), ("OP_SHA1", 0xa7), ("OP_SHA256", 0xa8), ("OP_HASH160", 0xa9), ("OP_HASH256", 0xaa),
  ("OP_CODESEPARATOR", 0xab), ("OP_CHECKSIG", 0xac), ("OP_CHECKSIGVERIFY", 0xad), ("OP_CHECKMULTISIG", 0xae),
  ("OP_CHECKMULTISIGVERIFY", 0xaf),
  ("OP_NOP1", 0xb0), ("OP_CHECKLOCKTIMEVERIFY", 0xb1), ("OP_NOP2", 0xb1), ("OP_CHECKSEQUENCEVERIFY", 0xb2),
  ("OP_NOP3", 0xb2), ("OP_NOP4", 0xb3), ("OP_NOP5", 0xb4), ("OP_NOP6", 0xb5), ("OP_NOP7", 0xb6), ("OP_NOP8", 0xb7),
  ("OP_NOP9", 0xb8), ("OP_NOP10", 0xb9), ("OP_CHECKSIGADD", 0xba), ("OP_INVALIDOPCODE", 0xff)]

def opcodeByte? (name : String) : Option UInt8 := consensusOpcodes.lookup name

/-- the smallest push form that fits (direct ≤ 75, PUSHDATA1 ≤ 255, PUSHDATA2 ≤ 65535, PUSHDATA4 beyond) -/
def minimalPush (d : Bytes) : Bytes :=
  let n := d.length
  if n ≤ 75 then UInt8.ofNat n :: d
  else if n ≤ 255 then 0x4c :: UInt8.ofNat n :: d
  else if n ≤ 65535 then 0x4d :: (leBytes 2 n ++ d)
  else 0x4e :: (leBytes 4 n ++ d)

/-- number of bytes needed for `n` (0 for 0) -/
def byteLen (n : Nat) : Nat := (natBits n + 7) / 8

/-- `CScriptNum::serialize` for a non-negative number: little-endian magnitude, an extra 0x00 when
the top bit of the last byte is set -/
def scriptNum (n : Nat) : Bytes :=
  if n = 0 then []
  else
    let mag := leBytes (byteLen n) n
    if n / 2 ^ (8 * byteLen n - 1) % 2 = 1 then mag ++ [0x00] else mag

/-- decode a script number (sign-magnitude little-endian) -/
def scriptNumDecode (b : Bytes) : Int :=
  match b.getLast? with
  | none => 0
  | some l =>
    if l.toNat ≥ 128 then - ((ofLE b : Int) - (128 * 256 ^ (b.length - 1) : Nat))
    else (ofLE b : Int)

/-- Bitcoin Core's minimal-encoding test of `CScriptNum` (interpreter flag MINIMALDATA) -/
def scriptNumMinimal (b : Bytes) : Bool :=
  match b.getLast? with
  | none => true
  | some l =>
    if l.toNat % 128 = 0 then
      -- the last byte carries no magnitude: allowed only if it is needed for the sign bit
      match b.dropLast.getLast? with
      | none => false
      | some p => p.toNat ≥ 128
    else true

/-- script tokens as the library's `Script` takes them -/
inductive Tok
  | op (name : String)
  | int (n : Int)
  | data (b : Bytes)
deriving Repr, DecidableEq, Inhabited

/-- consensus byte encoding of one token -/
def encTok : Tok → Option Bytes
  | .op name => (opcodeByte? name).map fun b => [b]
  | .int n =>
    if 0 ≤ n ∧ n ≤ 16 then some [if n = 0 then 0x00 else UInt8.ofNat (0x50 + n.toNat)]
    else if n < 0 then none
    else some (minimalPush (scriptNum n.toNat))
  | .data d => if d.length < 2 ^ 32 then some (minimalPush d) else none

def encToks : List Tok → Option Bytes
  | [] => some []
  | t :: ts => do
    let a ← encTok t
    let b ← encToks ts
    pure (a ++ b)

end Spec
