import BU.Py
import BU.Crypto.Secp256k1
/-! ECDSA over secp256k1 (SEC 1 v2 §4.1.4 verification, §4.1.6 public-key recovery), strict DER
(BIP66 / Bitcoin Core `IsValidSignatureEncoding`), low-S (BIP62/BIP146). -/
namespace Spec
open Py Secp

/-- SEC1 §4.1.4 with `e` the 32-byte digest as a big-endian integer -/
def ecdsaVerify (Q : Point) (z r s : Nat) : Bool :=
  if r = 0 ∨ r ≥ n ∨ s = 0 ∨ s ≥ n then false
  else
    let w := invN s
    let u1 := z % n * w % n
    let u2 := r * w % n
    match add (mul G u1) (mul Q u2) with
    | none => false
    | some (x, _) => x % n == r

/-- SEC1 §4.1.6: candidate public key for recovery id `recid` (bit 0: y parity of R, bit 1: x = r + n) -/
def ecdsaRecover (z r s : Nat) (recid : Nat) : Point :=
  if r = 0 ∨ r ≥ n ∨ s = 0 ∨ s ≥ n then none
  else
    let x := r + (recid / 2) * n
    match liftX x with
    | none => none
    | some (xR, yEven) =>
      let R : Point := some (xR, if recid % 2 = 0 then yEven else p - yEven)
      let rInv := invN r
      -- Q = r⁻¹ (s R − z G)
      mul (add (mul R s) (neg (mul G (z % n)))) rInv

def lowS (s : Nat) : Bool := s ≤ n / 2

/-- minimal big-endian bytes of a positive integer with a leading 0x00 when the top bit is set (DER INTEGER) -/
def derInt (v : Nat) : Bytes :=
  let k := (natBits v + 7) / 8
  let mag := beBytes (if k = 0 then 1 else k) v
  if (mag.head?.map (·.toNat)).getD 0 ≥ 128 then 0x00 :: mag else mag

/-- DER `SEQUENCE { INTEGER r, INTEGER s }` (lengths < 128 for 256-bit values) -/
def derEncode (r s : Nat) : Bytes :=
  let rb := derInt r
  let sb := derInt s
  [0x30, UInt8.ofNat (4 + rb.length + sb.length), 0x02, UInt8.ofNat rb.length] ++ rb ++
  [0x02, UInt8.ofNat sb.length] ++ sb

/-- Bitcoin Core `IsValidSignatureEncoding` (BIP66) on a signature *including* its hash-type byte -/
def isStrictDer (sig : Bytes) : Bool :=
  let g := fun (i : Nat) => (sig.getD i 0).toNat
  if sig.length < 9 ∨ sig.length > 73 then false
  else if g 0 ≠ 0x30 then false
  else if g 1 ≠ sig.length - 3 then false
  else
    let lenR := g 3
    if 5 + lenR ≥ sig.length then false
    else
      let lenS := g (5 + lenR)
      if lenR + lenS + 7 ≠ sig.length then false
      else if g 2 ≠ 0x02 then false
      else if lenR = 0 then false
      else if g 4 ≥ 0x80 then false
      else if lenR > 1 ∧ g 4 = 0x00 ∧ g 5 < 0x80 then false
      else if g (lenR + 4) ≠ 0x02 then false
      else if lenS = 0 then false
      else if g (lenR + 6) ≥ 0x80 then false
      else if lenS > 1 ∧ g (lenR + 6) = 0x00 ∧ g (lenR + 7) < 0x80 then false
      else true

/-- read (r, s) out of a DER signature without its hash-type byte (lax about nothing: positions as in BIP66) -/
def derDecode (der : Bytes) : Option (Nat × Nat) :=
  let g := fun (i : Nat) => (der.getD i 0).toNat
  if der.length < 8 ∨ g 0 ≠ 0x30 ∨ g 2 ≠ 0x02 then none
  else
    let lenR := g 3
    if 6 + lenR > der.length ∨ g (4 + lenR) ≠ 0x02 then none
    else
      let lenS := g (5 + lenR)
      if 6 + lenR + lenS ≠ der.length then none
      else some (ofBE ((der.drop 4).take lenR), ofBE ((der.drop (6 + lenR)).take lenS))

end Spec
