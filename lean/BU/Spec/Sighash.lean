import BU.Py
import BU.Spec.CompactSize
import BU.Spec.TxWire
/-! Signature-hash preimages, written from Bitcoin Core's `CTransactionSignatureSerializer`
(legacy), BIP143 (segwit v0) and BIP341/BIP342 (taproot), on transactions whose scripts are bytes. -/
namespace Spec
open Py

/-- BIP340-style tagged hash over a SHA-256 parameter -/
def taggedHash (sha256 : Bytes → Bytes) (tag : String) (d : Bytes) : Bytes :=
  let t := sha256 tag.toUTF8.toList
  sha256 (t ++ t ++ d)

def zeros (n : Nat) : Bytes := List.replicate n 0

def outpoint (i : RawIn) : Bytes := i.prevHash ++ leBytes 4 i.prevIndex

/-! ### legacy (pre-segwit) `SignatureHash` -/

/-- `SerializeInput` of the legacy serializer for the input at position `k'` of the original tx -/
def legacyInput (ins : List RawIn) (i : Nat) (code : Bytes) (ht : Nat) (k' : Nat) : Bytes :=
  let inp := ins.getD k' default
  let base := ht &&& 0x1f
  outpoint inp ++
  (if k' = i then withLen code else [0x00]) ++
  (if k' ≠ i ∧ (base = 2 ∨ base = 3) then zeros 4 else inp.sequence)

/-- `SerializeOutput`: under SINGLE the outputs before the signed one are "null" (-1, empty script) -/
def legacyOutput (outs : List RawOut) (i : Nat) (ht : Nat) (k : Nat) : Bytes :=
  if ht &&& 0x1f = 3 ∧ k ≠ i then List.replicate 8 0xff ++ [0x00] else encOut (outs.getD k default)

/-- the bytes that are double-SHA256'd by the legacy `SignatureHash` (caller guarantees `i < ins.length`
and, for SINGLE, `i < outs.length`; `code` is free of OP_CODESEPARATOR) -/
def legacyPreimage (t : RawTx) (i : Nat) (code : Bytes) (ht : Nat) : Bytes :=
  let anyone := ht &&& 0x80 ≠ 0
  let base := ht &&& 0x1f
  let nIn := if anyone then 1 else t.ins.length
  let nOut := if base = 2 then 0 else if base = 3 then i + 1 else t.outs.length
  t.version ++
  compactSize nIn ++ (List.range nIn).flatMap (fun k => legacyInput t.ins i code ht (if anyone then i else k)) ++
  compactSize nOut ++ (List.range nOut).flatMap (legacyOutput t.outs i ht) ++
  t.locktime ++ leBytes 4 ht

/-! ### BIP143 -/

def bip143Preimage (dsha : Bytes → Bytes) (t : RawTx) (i : Nat) (code : Bytes) (amount : Nat) (ht : Nat) : Bytes :=
  let anyone := ht &&& 0x80 ≠ 0
  let base := ht &&& 0x1f
  let single := base = 3
  let none := base = 2
  let inp := t.ins.getD i default
  let hashPrevouts := if !anyone then dsha (t.ins.flatMap outpoint) else zeros 32
  let hashSequence := if !anyone ∧ !single ∧ !none then dsha (t.ins.flatMap (·.sequence)) else zeros 32
  let hashOutputs :=
    if !single ∧ !none then dsha (t.outs.flatMap encOut)
    else if single ∧ i < t.outs.length then dsha (encOut (t.outs.getD i default))
    else zeros 32
  t.version ++ hashPrevouts ++ hashSequence ++ outpoint inp ++ withLen code ++ leBytes 8 amount ++
  inp.sequence ++ hashOutputs ++ t.locktime ++ leBytes 4 ht

/-! ### BIP341 `SigMsg` and the BIP342 extension -/

structure Spent where
  amount : Nat
  spk : Bytes
deriving Repr, DecidableEq, Inhabited

/-- `SigMsg(hash_type, ext_flag)` (no annex) followed, for `ext = 1`, by the BIP342 extension
(tapleaf hash, key version 0, code separator position 0xffffffff) -/
def bip341SigMsg (sha256 : Bytes → Bytes) (t : RawTx) (i : Nat) (spent : List Spent) (ext : Nat)
    (leafScript : Bytes) (ht : Nat) : Bytes :=
  let anyone := ht &&& 0x80 = 0x80
  let outType := ht &&& 3
  let inp := t.ins.getD i default
  let sp := spent.getD i default
  [UInt8.ofNat ht] ++ t.version ++ t.locktime ++
  (if !anyone then
     sha256 (t.ins.flatMap outpoint) ++
     sha256 (spent.flatMap (fun s => leBytes 8 s.amount)) ++
     sha256 (spent.flatMap (fun s => withLen s.spk)) ++
     sha256 (t.ins.flatMap (·.sequence))
   else []) ++
  (if outType ≠ 2 ∧ outType ≠ 3 then sha256 (t.outs.flatMap encOut) else []) ++
  [UInt8.ofNat (ext * 2)] ++
  (if anyone then outpoint inp ++ leBytes 8 sp.amount ++ withLen sp.spk ++ inp.sequence
   else leBytes 4 i) ++
  (if outType = 3 then sha256 (encOut (t.outs.getD i default)) else []) ++
  (if ext = 1 then
     taggedHash sha256 "TapLeaf" ([0xc0] ++ withLen leafScript) ++ [0x00] ++ [0xff, 0xff, 0xff, 0xff]
   else [])

/-- the taproot signature hash: `hash_TapSighash(0x00 ‖ SigMsg ‖ ext)` -/
def bip341Digest (sha256 : Bytes → Bytes) (t : RawTx) (i : Nat) (spent : List Spent) (ext : Nat)
    (leafScript : Bytes) (ht : Nat) : Bytes :=
  taggedHash sha256 "TapSighash" (0x00 :: bip341SigMsg sha256 t i spent ext leafScript ht)

end Spec
