import BU.Py
import BU.Spec.CompactSize
/-! Block header and framing (Bitcoin protocol documentation "block", "Block Headers"; the compact
target format "nBits"). -/
namespace Spec
open Py

/-- expanded target of compact `bits`: mantissa · 256^(exponent − 3) -/
def compactTarget (bits : Nat) : Nat := (bits % 2 ^ 24) * 256 ^ (bits / 2 ^ 24 - 3)

/-- a block as stored in blk*.dat: magic, size, 80-byte header, CompactSize count, transactions -/
def frameBlock (magic : Bytes) (size : Nat) (header : Bytes) (txs : List Bytes) : Bytes :=
  magic ++ leBytes 4 size ++ header ++ compactSize txs.length ++ txs.flatten

end Spec

namespace Spec
/-- one level of Bitcoin's merkle tree (the last hash is paired with itself when the level is odd) -/
def merkleLevel (dsha : Bytes → Bytes) : List Bytes → List Bytes
  | a :: b :: rest => dsha (a ++ b) :: merkleLevel dsha rest
  | [a] => [dsha (a ++ a)]
  | [] => []

def merkleFuel (dsha : Bytes → Bytes) : Nat → List Bytes → Bytes
  | _, [] => List.replicate 32 0
  | _, [h] => h
  | 0, h :: _ => h
  | n+1, hs => merkleFuel dsha n (merkleLevel dsha hs)

/-- merkle root over hashes in internal byte order -/
def merkleRoot (dsha : Bytes → Bytes) (hs : List Bytes) : Bytes := merkleFuel dsha hs.length hs

/-- BIP141 commitment: double-SHA256(witness root ‖ witness reserved value), the coinbase wtxid taken as 0 -/
def witnessCommitment (dsha : Bytes → Bytes) (wtxids : List Bytes) (reserved : Bytes) : Bytes :=
  dsha (merkleRoot dsha (List.replicate 32 0 :: wtxids.drop 1) ++ reserved)
end Spec
