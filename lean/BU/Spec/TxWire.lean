import BU.Py
import BU.Spec.CompactSize
/-! Transaction wire format (Bitcoin protocol documentation "tx"; BIP144 for the witness form),
on transactions whose scripts are already bytes.  Written from those texts. -/
namespace Spec
open Py

structure RawIn where
  prevHash : Bytes      -- as on the wire (internal byte order)
  prevIndex : Nat
  script : Bytes
  sequence : Bytes      -- 4 bytes
deriving Repr, DecidableEq, Inhabited

structure RawOut where
  value : Nat
  script : Bytes
deriving Repr, DecidableEq, Inhabited

structure RawTx where
  version : Bytes       -- 4 bytes
  ins : List RawIn
  outs : List RawOut
  wits : List (List Bytes)   -- one stack per input (used by the BIP144 form only)
  locktime : Bytes      -- 4 bytes
deriving Repr, DecidableEq, Inhabited

def encIn (i : RawIn) : Bytes :=
  i.prevHash ++ leBytes 4 i.prevIndex ++ withLen i.script ++ i.sequence

def encOut (o : RawOut) : Bytes := leBytes 8 o.value ++ withLen o.script

def encStack (s : List Bytes) : Bytes := compactSize s.length ++ s.flatMap withLen

/-- `seg = false`: original format; `seg = true`: BIP144 (marker 00, flag 01, witness stacks) -/
def encodeTx (t : RawTx) (seg : Bool) : Bytes :=
  t.version ++ (if seg then [0x00, 0x01] else []) ++
  compactSize t.ins.length ++ t.ins.flatMap encIn ++
  compactSize t.outs.length ++ t.outs.flatMap encOut ++
  (if seg then t.wits.flatMap encStack else []) ++
  t.locktime

end Spec
