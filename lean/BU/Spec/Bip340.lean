import BU.Py
import BU.Crypto.Secp256k1
import BU.Spec.Sighash
/-! BIP340 Schnorr signatures, transcribed from the BIP text ("Default Signing", "Verification"). -/
namespace Spec
open Py Secp

def xonlyBytes (P : Point) : Bytes := match P with | some (x, _) => beBytes 32 x | none => zeros 32
def hasEvenY (P : Point) : Bool := match P with | some (_, y) => y % 2 == 0 | none => false

def xorBytes : Bytes → Bytes → Bytes
  | a :: as, b :: bs => (a ^^^ b) :: xorBytes as bs
  | _, _ => []

/-- BIP340 "Default Signing": `none` where the algorithm fails -/
def bip340Sign (sha256 : Bytes → Bytes) (msg sk aux : Bytes) : Option Bytes :=
  let d' := ofBE sk
  if d' = 0 ∨ d' ≥ n then none
  else
    let P := mul G d'
    let d := if hasEvenY P then d' else n - d'
    let t := xorBytes (beBytes 32 d) (taggedHash sha256 "BIP0340/aux" aux)
    let k' := ofBE (taggedHash sha256 "BIP0340/nonce" (t ++ xonlyBytes P ++ msg)) % n
    if k' = 0 then none
    else
      let R := mul G k'
      let k := if hasEvenY R then k' else n - k'
      let e := ofBE (taggedHash sha256 "BIP0340/challenge" (xonlyBytes R ++ xonlyBytes P ++ msg)) % n
      some (xonlyBytes R ++ beBytes 32 ((k + e * d) % n))

/-- BIP340 "Verification" -/
def bip340Verify (sha256 : Bytes → Bytes) (msg pk sig : Bytes) : Bool :=
  match liftX (ofBE pk) with
  | none => false
  | some P =>
    let r := ofBE (sig.take 32)
    let s := ofBE ((sig.drop 32).take 32)
    if r ≥ p ∨ s ≥ n then false
    else
      let e := ofBE (taggedHash sha256 "BIP0340/challenge" (sig.take 32 ++ pk ++ msg)) % n
      let R := add (mul G s) (mul (some P) (n - e))
      match R with
      | none => false
      | some (x, y) => y % 2 == 0 && x == r

end Spec
