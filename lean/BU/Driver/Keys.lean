import BU.Driver.Core
import BU.Model.Keys
import BU.Model.Address
import BU.Model.Sign
import BU.Model.Msg
import BU.Spec.Ecdsa
import BU.Crypto.Sha256
/-! driver operations for C06, C09, C10, C11, C12, C14.  Strings (addresses, WIFs) travel as the hex of
their UTF-8 bytes. -/
namespace Driver
open Spec Model Py Secp

def str : R String := do
  let b ← bytes
  match String.fromUTF8? (ByteArray.mk b.toArray) with
  | some s => pure s
  | none => throw "bad utf8"
def hexStr (s : String) : String := hex s.toUTF8.toList
def optBytes : R (Option Bytes) := do
  let s ← next
  if s == "none" then pure none else match unhex s with | some b => pure (some b) | none => throw "bad hex"
def optStr : R (Option String) := do
  let s ← next
  if s == "none" then pure none
  else match unhex s with
    | some b => (match String.fromUTF8? (ByteArray.mk b.toArray) with | some x => pure (some x) | none => throw "bad utf8")
    | none => throw "bad hex"
def optInt : R (Option Int) := do
  let s ← next
  if s == "none" then pure none else match s.toInt? with | some n => pure (some n) | none => throw "bad int"
def optToks : R (Option (List Tok)) := do
  let s ← next
  if s == "none" then pure none else if s == "some" then (do let t ← toks; pure (some t)) else throw "bad opt toks"

/-- a `network:prefixhex` field: the driver uses the prefix the implementation reports for that network -/
def netPfx : R Bytes := do
  let s ← next
  match s.splitOn ":" with
  | [_, h] => (match unhex h with | some b => pure b | none => throw "bad netpfx")
  | _ => throw "bad netpfx"
/-- a `network:hrp` field -/
def netHrp : R String := do
  let s ← next
  match s.splitOn ":" with
  | [_, h] => pure h
  | _ => throw "bad nethrp"

def point (P : Nat × Nat) : String := s!"{hex (beBytes 32 P.1)} {hex (beBytes 32 P.2)}"
def b1 (b : Bool) : String := if b then "1" else "0"
def dsha := Crypto.dsha256
def tb := Rmd.specTabs
def bc := Bech32.specConsts

def addrOfKey (pfx : Bytes) (Q : Nat × Nat) (compressed : Bool) : String :=
  addrToString dsha pfx (pubHash160 Crypto.sha256 tb Q compressed)

def keyOps : List (String × (Tables → R String)) := [
  -- C06
  ("m:der_norm", fun _ => do
      let atts ← listOf bytes; let ht ← nat
      pure (ans (fun (p : Bytes × Nat) => s!"{hex p.1} {p.2}") (signInput atts ht))),
  ("s:sig_check", fun _ => do
      -- strict DER, low S, low R, exactly one hash-type byte, valid under `pub` for digest `z`
      let pub ← bytes; let z ← bytes; let sig ← bytes; let ht ← nat
      let Q : Point := some (ofBE (pub.take 32), ofBE (pub.drop 32))
      let body := sig.take (sig.length - 1)
      let res : String := (match derDecode body with
        | none => "ok 0 undecodable"
        | some (r, s) =>
          let strict := isStrictDer sig
          let v := ecdsaVerify Q (ofBE z) r s
          let okAll := strict && lowS s && decide (r < 2 ^ 255) && sig.getLast? == some (UInt8.ofNat ht) && v && decide (0 < s)
          s!"ok {b1 okAll}" ++ (if okAll then "" else s!" strict={b1 strict} lowS={b1 (lowS s)} lowR={b1 (decide (r < 2 ^ 255))} valid={b1 v}"))
      pure res),
  ("s:der_roundtrip", fun _ => do
      let r ← bytes; let s ← bytes
      pure ("ok " ++ hex (derEncode (ofBE r) (ofBE s)))),
  -- C09
  ("s:wif_spec", fun _ => do
      -- WIF = Base58Check(version ‖ 32-byte key ‖ [01 if compressed])
      let pfx ← netPfx; let d ← bytes; let c ← bool
      pure ("ok " ++ hexStr (B58.check dsha (pfx ++ d ++ (if c then [0x01] else []))))),
  ("s:wif_dec_spec", fun _ => do
      -- accepted iff Base58Check-valid, version byte of the network, 32-byte key (optionally followed by one flag byte), key in [1, n-1]
      let pfx ← netPfx; let w ← str
      pure (match B58.uncheck dsha w with
        | some payload =>
          let body := payload.drop 1
          let key := body.take 32
          if payload.take 1 = pfx ∧ payload.length ≥ 1 ∧ (body.length = 32 ∨ body.length = 33) ∧ 1 ≤ ofBE key ∧ ofBE key < n then "ok " ++ hex key else "err"
        | none => "err")),
  ("m:pub_roundtrip", fun _ => do
      let d ← bytes
      pure (ans id (do
        let P ← pubOfPriv (ofBE d)
        let c := pubToBytes P true; let u := pubToBytes P false; let xo := pubXOnly P
        let pc ← pubFromBytes c; let pu ← pubFromBytes u; let px ← pubFromBytes xo
        let ok := pc == P && pu == P && px.1 == P.1 && px.2 % 2 == 0
        pure s!"{hex c} {hex u} {hex xo} {b1 (P.2 % 2 == 0)} {b1 ok}"))),
  ("s:pub_roundtrip", fun _ => do
      -- standard forms of d·G: 02/03‖x, 04‖x‖y, x; all three must re-parse to the same point (even-y representative for x-only)
      let d ← bytes
      pure (match mul G (ofBE d) with
        | some (x, y) =>
          let c := (if y % 2 = 0 then 0x02 else 0x03) :: beBytes 32 x
          s!"ok {hex c} {hex (0x04 :: (beBytes 32 x ++ beBytes 32 y))} {hex (beBytes 32 x)} {b1 (y % 2 == 0)} 1"
        | none => "err")),
  ("m:wif_enc", fun _ => do let pfx ← netPfx; let d ← bytes; let c ← bool; pure ("ok " ++ hexStr (toWif dsha pfx (ofBE d) c))),
  ("m:wif_dec", fun _ => do let pfx ← netPfx; let w ← str; pure (ans (fun d => hex (beBytes 32 d)) (fromWif dsha pfx w))),
  ("m:priv_init", fun _ => do
      let pfx ← netPfx; let w ← optStr; let e ← optInt; let b ← optBytes
      pure (ans (fun (o : Option Nat) => match o with | some d => hex (beBytes 32 d) | none => "random") (privInit dsha pfx w e b))),
  ("m:pub_of", fun _ => do let d ← bytes; pure (ans point (pubOfPriv (ofBE d)))),
  ("m:pub_parse", fun _ => do let b ← bytes; pure (ans point (pubFromBytes b))),
  ("s:pub_parse", fun _ => do
      -- SEC1: 04‖x‖y, 02/03‖x, or BIP340 x-only; on-curve check; none otherwise
      let b ← bytes
      let r : Option (Nat × Nat) :=
        if b.length = 65 ∧ b.getD 0 0 = 0x04 then
          (let x := ofBE ((b.drop 1).take 32); let y := ofBE (b.drop 33)
           if onCurve (some (x, y)) then some (x, y) else none)
        else if b.length = 33 ∧ (b.getD 0 0 = 0x02 ∨ b.getD 0 0 = 0x03) then
          (match liftX (ofBE (b.drop 1)) with
           | some (x, y) => some (x, if b.getD 0 0 = 0x02 then y else p - y)
           | none => none)
        else if b.length = 32 then liftX (ofBE b)
        else none
      pure (ansO point r)),
  ("m:pub_enc", fun _ => do
      let x ← bytes; let y ← bytes
      let P := (ofBE x, ofBE y)
      pure s!"ok {hex (pubToBytes P true)} {hex (pubToBytes P false)} {hex (pubXOnly P)} {b1 (P.2 % 2 == 0)}"),
]

def keyOps2 : List (String × (Tables → R String)) := [
  -- C10
  ("m:b58_addr", fun _ => do let pfx ← netPfx; let h ← bytes; pure ("ok " ++ hexStr (addrToString dsha pfx h))),
  ("s:b58_addr", fun _ => do let pfx ← netPfx; let h ← bytes; pure ("ok " ++ hexStr (B58.check dsha (pfx ++ h)))),
  ("m:b58_accept", fun _ => do
      let pfx ← netPfx; let s ← str
      pure (match addrFromString dsha pfx s with | .ok h => "ok " ++ hex h | .error _ => "err")),
  ("s:b58_accept", fun _ => do
      -- Base58Check with valid checksum, this version byte, 20-byte payload
      let pfx ← netPfx; let s ← str
      pure (match B58.uncheck dsha s with
        | some payload => if payload.length = 21 ∧ payload.take 1 = pfx then "ok " ++ hex (payload.drop 1) else "err"
        | none => "err")),
  ("s:pub_addr_spec", fun _ => do
      -- P2PKH address of a key = Base58Check(version ‖ RIPEMD160(SHA256(SEC encoding)))
      let pfx ← netPfx; let x ← bytes; let y ← bytes; let c ← bool
      let sec : Bytes := if c then (if ofBE y % 2 = 0 then 0x02 else 0x03) :: x else 0x04 :: (x ++ y)
      pure ("ok " ++ hexStr (B58.check dsha (pfx ++ Spec.Rmd.ripemd160 (Crypto.sha256 sec))))),
  ("m:hash160", fun _ => do let b ← bytes; pure ("ok " ++ hex (hash160 Crypto.sha256 tb b))),
  ("m:pub_addr", fun _ => do
      let pfx ← netPfx; let x ← bytes; let y ← bytes; let c ← bool
      pure ("ok " ++ hexStr (addrOfKey pfx (ofBE x, ofBE y) c))),
  -- C11
  ("m:sw_addr", fun _ => do
      let hrp ← netHrp; let v ← nat; let prog ← bytes
      pure (match segwitToString bc hrp v prog with | some s => "ok " ++ hexStr s | none => "ok none")),
  ("m:sw_decode", fun _ => do
      let hrp ← netHrp; let v ← nat; let a ← str
      pure (ans hex (segwitFromString bc hrp v a))),
  ("m:is_bech32", fun _ => do let a ← str; pure s!"ok {b1 (isAddressBech32 bc a)}"),
  -- C12
  ("m:spk", fun T => do
      let ty ← next; let h ← bytes; let _net ← next
      let s := if ty == "p2pkh" then spkP2pkh h else if ty == "p2sh" then spkP2sh h else if ty == "p2wpkh" then spkP2wpkh h
               else if ty == "p2wsh" then spkP2wsh h else spkP2tr h
      pure (ans hex (scriptBytes T s))),
  ("s:spk", fun _ => do
      let ty ← next; let h ← bytes
      let pushH := UInt8.ofNat h.length :: h
      pure ("ok " ++ hex (
        if ty == "p2pkh" then [0x76, 0xa9] ++ pushH ++ [0x88, 0xac]
        else if ty == "p2sh" then [0xa9] ++ pushH ++ [0x87]
        else if ty == "p2wpkh" ∨ ty == "p2wsh" then [0x00] ++ pushH
        else [0x51] ++ pushH))),
  ("m:script_commit", fun T => do
      -- hash160 and sha256 commitments of a script, and the two helper locking scripts
      let s ← toks
      pure (ans id (do
        let h ← scriptToHash160 Crypto.sha256 tb T s
        let w ← scriptToSha256 Crypto.sha256 T s
        let a ← toP2shSpk Crypto.sha256 tb T s
        let b ← toP2wshSpk Crypto.sha256 T s
        let ab ← scriptBytes T a
        let bb ← scriptBytes T b
        pure s!"{hex h} {hex w} {hex ab} {hex bb}"))),
  ("s:script_commit", fun T => do
      let s ← toks
      pure (ans id (do
        let raw ← scriptBytes T s
        let h := Spec.Rmd.ripemd160 (Crypto.sha256 raw)
        let w := Crypto.sha256 raw
        pure s!"{hex h} {hex w} {hex ([0xa9, 0x14] ++ h ++ [0x87])} {hex ([0x00, 0x20] ++ w)}"))),
  -- C14
  ("m:msg_digest", fun _ => do let magic ← bytes; let m ← bytes; pure ("ok " ++ hex (msgDigest Crypto.sha256 magic m))),
  ("s:msg_digest", fun _ => do
      let m ← bytes
      let magic : Bytes := [0x18] ++ "Bitcoin Signed Message:\n".toUTF8.toList
      pure ("ok " ++ hex (Crypto.dsha256 (magic ++ compactSize m.length ++ m)))),
  ("m:msg_verify", fun _ => do
      let magic ← bytes; let pfx ← netPfx; let a ← str; let sig ← bytes; let m ← bytes
      pure (ans b1 (verifyMessage Crypto.sha256 magic (addrOfKey pfx) a sig m))),
  ("s:msg_accepts", fun _ => do
      -- compact-signature recovery (SEC1 4.1.6 / libsecp256k1 semantics): header 27..34, r,s in range, x = r (+n) a field
      -- element on the curve, recovered key's P2PKH address (compression per header) equals `a`
      let pfx ← netPfx; let a ← str; let sig ← bytes; let m ← bytes
      let h := (sig.getD 0 0).toNat
      let magic : Bytes := [0x18] ++ "Bitcoin Signed Message:\n".toUTF8.toList
      let z := ofBE (Crypto.dsha256 (magic ++ compactSize m.length ++ m))
      let r := ofBE ((sig.drop 1).take 32); let s := ofBE ((sig.drop 33).take 32)
      let acc := sig.length == 65 && decide (27 ≤ h) && decide (h ≤ 34) &&
        (match ecdsaRecover z r s ((h - 27) % 4) with
         | some q => addrOfKey pfx q (decide (h ≥ 31)) == a
         | none => false)
      pure s!"ok {b1 acc}"),
  ("m:msg_sign_hdr", fun _ => do
      let magic ← bytes; let pfx ← netPfx; let x ← bytes; let y ← bytes; let c ← bool; let rs ← bytes; let m ← bytes
      pure (ans (fun (o : Option Bytes) => match o with | some s => hex s | none => "none")
        (signMessageHeader Crypto.sha256 magic (addrOfKey pfx) (ofBE x, ofBE y) c rs m))),
  ("m:msg_sign_hdr_z", fun _ => do
      -- the header search with the message digest forced to a given 32-byte value (the excluded point of
      -- C14.sign_verifies: 2z + r d = 0 mod n cannot be reached through SHA-256)
      let pfx ← netPfx; let x ← bytes; let y ← bytes; let c ← bool; let rs ← bytes; let z ← bytes
      pure (ans (fun (o : Option Bytes) => match o with | some s => hex s | none => "none")
        (signMessageHeader (fun _ => z) [] (addrOfKey pfx) (ofBE x, ofBE y) c rs [0x6d]))),
  ("m:msg_recover", fun _ => do
      let magic ← bytes; let m ← bytes; let sig ← bytes
      pure (ans point (recoverPub Crypto.sha256 magic m sig)))
]
end Driver
