import BU.Py
import BU.Spec.Script
import BU.Model.Script
import BU.Model.Tx
/-! Line-protocol plumbing of the compiled driver: hex, token readers, printers. -/
namespace Driver
open Spec Model

def hexDigit (n : Nat) : Char := if n < 10 then Char.ofNat (48 + n) else Char.ofNat (87 + n)
def hex (b : Bytes) : String :=
  if b.isEmpty then "-" else String.ofList (b.flatMap fun x => [hexDigit (x.toNat / 16), hexDigit (x.toNat % 16)])
def unhexDigit (c : Char) : Option Nat :=
  if '0' ≤ c ∧ c ≤ '9' then some (c.toNat - 48)
  else if 'a' ≤ c ∧ c ≤ 'f' then some (c.toNat - 87)
  else if 'A' ≤ c ∧ c ≤ 'F' then some (c.toNat - 55) else none
partial def unhexL : List Char → List UInt8 → Option Bytes
  | [], acc => some acc.reverse
  | [_], _ => none
  | a :: b :: rest, acc => do
    let x ← unhexDigit a; let y ← unhexDigit b
    unhexL rest (UInt8.ofNat (16 * x + y) :: acc)
def unhex (s : String) : Option Bytes := if s == "-" then some [] else unhexL s.toList []

/-- reader over the remaining fields of a request line -/
abbrev R := StateT (List String) (Except String)

def next : R String := do
  match (← get) with
  | [] => throw "missing field"
  | x :: xs => set xs; pure x
def nat : R Nat := do
  let s ← next
  match s.toNat? with | some n => pure n | none => throw s!"bad nat {s}"
def int : R Int := do
  let s ← next
  match s.toInt? with | some n => pure n | none => throw s!"bad int {s}"
def bytes : R Bytes := do
  let s ← next
  match unhex s with | some b => pure b | none => throw s!"bad hex {s}"
def bool : R Bool := do
  let s ← next
  if s == "1" then pure true else if s == "0" then pure false else throw s!"bad bool {s}"
def many {α} (p : R α) : Nat → R (List α)
  | 0 => pure []
  | n+1 => do let x ← p; let xs ← many p n; pure (x :: xs)
def listOf {α} (p : R α) : R (List α) := do let n ← nat; many p n

def tok : R Tok := do
  let s ← next
  if s.startsWith "o:" then pure (.op (s.drop 2).toString)
  else if s.startsWith "i:" then
    match (s.drop 2).toString.toInt? with | some n => pure (.int n) | none => throw s!"bad tok {s}"
  else if s.startsWith "d:" then
    match unhex (s.drop 2).toString with | some b => pure (.data b) | none => throw s!"bad tok {s}"
  else throw s!"bad tok {s}"
def toks : R (List Tok) := listOf tok

def showTok : Tok → String
  | .op n => "o:" ++ n
  | .int n => "i:" ++ toString n
  | .data b => "d:" ++ hex b
def showToks (ts : List Tok) : String := " ".intercalate (toString ts.length :: ts.map showTok)

def txin : R TxIn := do
  let txid ← bytes; let index ← int; let s ← toks; let sequence ← bytes
  pure { txid, index, scriptSig := s, sequence }
def txout : R TxOut := do
  let amount ← int; let s ← toks
  pure { amount, script := s }
def tx : R Tx := do
  let version ← bytes; let locktime ← bytes; let seg ← bool
  let inputs ← listOf txin; let outputs ← listOf txout
  let witnesses ← listOf (listOf bytes)
  pure { version, inputs, outputs, locktime, hasSegwit := seg, witnesses }

def showTxIn (i : TxIn) : String := s!"{hex i.txid} {i.index} {showToks i.scriptSig} {hex i.sequence}"
def showTxOut (o : TxOut) : String := s!"{o.amount} {showToks o.script}"
def showList {α} (f : α → String) (xs : List α) : String := " ".intercalate (toString xs.length :: xs.map f)
def showTx (t : Tx) : String :=
  s!"{hex t.version} {hex t.locktime} {if t.hasSegwit then 1 else 0} {showList showTxIn t.inputs} {showList showTxOut t.outputs} {showList (showList hex) t.witnesses}"

def tables : R Tables := do
  let ops ← listOf (do let n ← next; let b ← bytes; pure (n, b))
  let codes ← listOf (do let b ← bytes; let n ← next; pure (b, n))
  pure { opCodes := ops, codeOps := codes }

/-- answer of an `Except PyErr`-valued model function -/
def ans {α} (f : α → String) : Except PyErr α → String
  | .ok v => "ok " ++ f v
  | .error _ => "err"
def ansO {α} (f : α → String) : Option α → String
  | some v => "ok " ++ f v
  | none => "err"

end Driver
