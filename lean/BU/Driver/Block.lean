import BU.Driver.Core
import BU.Model.Block
import BU.Spec.Block
import BU.Crypto.Sha256
/-! driver operations for C15 -/
namespace Driver
open Spec Model Py

def showHeader (h : Header) : String := s!"{h.version} {hex h.prev} {hex h.merkle} {h.time} {h.bits} {h.nonce}"

def blockOps : List (String × (Tables → R String)) := [
  ("m:hdr_parse", fun _ => do let b ← bytes; pure (ans showHeader (Header.parse b))),
  ("m:hdr_ser", fun _ => do let b ← bytes; pure (ans hex (do let h ← Header.parse b; h.serialize))),
  ("m:hdr_hash", fun _ => do let b ← bytes; pure (ans hex (do let h ← Header.parse b; h.hash Crypto.sha256))),
  ("s:hdr_hash", fun _ => do let b ← bytes; pure (if b.length = 80 then "ok " ++ hex (Crypto.dsha256 b).reverse else "err")),
  ("m:target", fun _ => do
      let bits ← nat
      pure (ans toString (({ version := 0, prev := [], merkle := [], time := 0, bits := bits, nonce := 0 } : Header).target))),
  ("s:target", fun _ => do let bits ← nat; pure (if bits / 2 ^ 24 ≥ 3 then s!"ok {compactTarget bits}" else "err")),
  ("m:tx_len", fun _ => do let b ← bytes; pure (ans toString (txLength b))),
  ("m:blk_parse", fun T => do
      let b ← bytes
      pure (ans (fun (k : Block) =>
        s!"{hex k.magic} {k.size} {showHeader k.header} {k.count} " ++
        showList (fun t => hex (Crypto.sha256 (showTx t).toUTF8.toList)) k.txs) (Block.parse T b))),
  ("s:merkle", fun _ => do let hs ← listOf bytes; pure ("ok " ++ hex (merkleRoot Crypto.dsha256 hs))),
  ("s:wcommit", fun _ => do
      let hs ← listOf bytes; let r ← bytes
      pure ("ok " ++ hex (witnessCommitment Crypto.dsha256 hs r))),
  ("s:frame", fun _ => do
      let magic ← bytes; let size ← nat; let hdr ← bytes; let txs ← listOf bytes
      pure ("ok " ++ hex (frameBlock magic size hdr txs)))
]
end Driver
