import BU.Driver.Core
import BU.Model.Ripemd
/-! leaf-level driver operations for the RIPEMD-160 internals (`rol`, `fi`, `compress`): the implementation works on
unbounded Python ints, the model and the Spec on 32-bit words; arguments and answers are compared modulo 2^32. -/
namespace Driver
open Model Py

def w32 : R UInt32 := do let n ← int; pure (UInt32.ofNat (n % 4294967296).toNat)
def showSt (s : Rmd.St) : String :=
  let (a, b, c, d, e) := s
  s!"{a.toNat} {b.toNat} {c.toNat} {d.toNat} {e.toNat}"

def rmdOps : List (String × (Model.Tables → R String)) := [
  ("m:rmd_rol", fun _ => do let x ← w32; let i ← nat; pure s!"ok {(Rmd.rol x i).toNat}"),
  ("s:rmd_rol", fun _ => do let x ← w32; let i ← nat; pure s!"ok {(Spec.Rmd.rol x i).toNat}"),
  ("m:rmd_fi", fun _ => do
      let x ← w32; let y ← w32; let z ← w32; let i ← nat
      pure (if i ≤ 4 then s!"ok {(Rmd.fi x y z i).toNat}" else "err")),
  ("s:rmd_fi", fun _ => do
      let x ← w32; let y ← w32; let z ← w32; let i ← nat
      pure (if i ≤ 4 then s!"ok {(Spec.Rmd.f i x y z).toNat}" else "err")),
  ("m:rmd_compress", fun _ => do
      let a ← w32; let b ← w32; let c ← w32; let d ← w32; let e ← w32; let blk ← bytes
      pure ("ok " ++ showSt (Rmd.compress Rmd.specTabs (a, b, c, d, e) blk))),
  ("s:rmd_compress", fun _ => do
      let a ← w32; let b ← w32; let c ← w32; let d ← w32; let e ← w32; let blk ← bytes
      let r := Spec.Rmd.compress ⟨a, b, c, d, e⟩ blk
      pure ("ok " ++ showSt (r.a, r.b, r.c, r.d, r.e)))
]
end Driver
