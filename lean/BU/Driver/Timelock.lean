import BU.Driver.Core
import BU.Spec.Timelock
/-! driver operations for C18 (spec side) -/
namespace Driver
open Spec Py

def timelockOps : List (String × (Model.Tables → R String)) := [
  ("s:seq", fun _ => do
      let ty ← int; let v ← int; let blk ← bool
      if ty ≠ 513 then throw "s:seq only for relative timelocks"
      pure (if 1 ≤ v ∧ v ≤ 65535 then
              let r := relativeSequence v.toNat blk
              s!"ok {hex (leBytes 4 r)} {r}"
            else "err")),
  ("s:csv_ok", fun _ => do
      let ver ← nat; let seq ← bytes; let n ← int
      pure s!"ok {if checkSequenceVerify ver (ofLE seq) n then 1 else 0}"),
  ("s:nonfinal", fun _ => do let seq ← bytes; pure s!"ok {if seq.length == 4 && nonFinal (ofLE seq) then 1 else 0}"),
  ("s:locktime", fun _ => do let v ← int; pure (if 0 ≤ v ∧ v < 2 ^ 32 then "ok " ++ hex (leBytes 4 v.toNat) else "err")),
  ("s:push_int", fun _ => do
      let k ← int
      pure (if k ≤ 0 then "err" else "ok " ++ hex (minimalPush (scriptNum k.toNat)))),
  ("s:scriptnum", fun _ => do
      let k ← nat
      let b := scriptNum k
      pure s!"ok {hex b} {scriptNumDecode b} {if scriptNumMinimal b then 1 else 0}")
]
end Driver
