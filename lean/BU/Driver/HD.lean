import BU.Driver.Core
import BU.Driver.Keys
import BU.Model.HD
import BU.Spec.Bip32
import BU.Spec.Base58
import BU.Crypto.Sha512
import BU.Crypto.Sha256
/-! stateful driver operations for C19 (named wallet objects) and the stateless BIP32/BIP39 Spec -/
namespace Driver
open Spec Model Model.HD Py Secp

abbrev HDSt := List (String × ExtHDW)

def hmac := Crypto.hmacSha512
def pbk := Crypto.pbkdf2Sha512

/-- parse a serialized extended private key (BIP32 "Serialization format"): returns the key, or none -/
def parseXprv (s : String) : Option XKey :=
  match B58.uncheck Crypto.dsha256 s with
  | some b =>
    if b.length = 78 ∧ b.getD 45 1 = 0 then some { key := ofBE ((b.drop 46).take 32), chain := (b.drop 13).take 32 } else none
  | none => none

def rootOf : R (Except PyErr ExtHDW) := do
  let kind ← next
  if kind == "mn" then do
    let mn ← bytes
    pure (fromSeed hmac (bip39Seed pbk mn []))
  else if kind == "x" then do
    let x ← str
    pure (match parseXprv x with | some k => .ok { root := k, cur := k } | none => .error .valueError)
  else throw "bad root kind"

def hdOps : List (String × (HDSt → R (HDSt × String))) := [
  ("hd_new", fun st => do
      -- HDWallet(mnemonic=…)  |  HDWallet(xprivate_key=…, path=…)
      let name ← next; let _net ← next; let w ← rootOf; let path ← listOf nat
      match (do let w ← w; ExtHDW.fromDerivation hmac w path) with
      | .ok w => pure ((name, w) :: st.filter (·.1 != name), "ok " ++ hex (beBytes 32 w.cur.key))
      | .error _ => pure (st, "err")),
  ("hd_path", fun st => do
      let name ← next; let _net ← next; let path ← listOf nat
      match st.lookup name with
      | none => throw "unknown wallet"
      | some w =>
        match fromPath hmac w path with
        | .ok w' => pure ((name, w') :: st.filter (·.1 != name), "ok " ++ hex (beBytes 32 w'.cur.key))
        | .error _ => pure (st, "err")),
  ("hd_key", fun st => do
      let name ← next; let _net ← next; let mainnet ← bool; let pfx ← netPfx
      match st.lookup name with
      | none => throw "unknown wallet"
      | some w => pure (st, ans (fun d => hex (beBytes 32 d)) (getPrivateKey Crypto.dsha256 mainnet pfx w))),
  ("hd_ext", fun st => do
      -- the third-party object driven directly: a list of from_derivation / clean steps from a fresh root
      let w ← rootOf
      let steps ← listOf (do let k ← next; if k == "clean" then pure none else (do let p ← listOf nat; pure (some p)))
      let r := steps.foldl (fun (acc : Except PyErr ExtHDW) s => do
        let w ← acc
        match s with
        | none => pure w.clean
        | some p => ExtHDW.fromDerivation hmac w p) w
      pure (st, ans (fun (w : ExtHDW) => hex (beBytes 32 w.cur.key)) r))
]

def hdSpecOps : List (String × (Tables → R String)) := [
  ("s:bip32", fun _ => do
      -- BIP39 seed / serialized xprv -> master -> CKDpriv along the path, from the ROOT
      let w ← rootOf; let path ← listOf nat
      pure (ans (fun (k : XKey) => hex (beBytes 32 k.key)) (do
        let w ← w
        match derivePath hmac w.root path with | some k => pure k | none => throw PyErr.other))),
  ("sha512", fun _ => do let b ← bytes; pure ("ok " ++ hex (Crypto.sha512 b))),
  ("hmac512", fun _ => do let k ← bytes; let m ← bytes; pure ("ok " ++ hex (Crypto.hmacSha512 k m))),
  ("pbkdf2", fun _ => do let p ← bytes; let s ← bytes; let n ← nat; pure ("ok " ++ hex (Crypto.pbkdf2Sha512 p s n)))
]
end Driver
