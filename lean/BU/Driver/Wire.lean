import BU.Driver.Core
import BU.Spec.Disasm
import BU.Crypto.Sha256
/-! driver operations for C01, C02, C16, C17 (model side `m:` and spec side `s:`) -/
namespace Driver
open Spec Model Py

def showCS (r : Option (Nat × Nat)) : String := ansO (fun (p : Nat × Nat) => s!"{p.1} {p.2}") r

/-- half-to-even rounding of `num / den` (den > 0), as Python's `round` on an exact value -/
def roundHalfEven (num : Int) (den : Nat) : Int :=
  let q := num / den
  let r := num % den      -- 0 ≤ r < den
  if 2 * r < den then q else if 2 * r > den then q + 1 else if q % 2 = 0 then q else q + 1

def f64RoundHalfEven (x : Float) : Float :=
  let f := Float.floor x
  let d := x - f
  if d < 0.5 then f else if d > 0.5 then f + 1.0
  else if (f / 2.0).floor * 2.0 == f then f else f + 1.0

/-- assemble a model transaction into the Spec's raw form -/
def assemble (T : Tables) (t : Tx) : Except PyErr RawTx := do
  let ins ← t.inputs.mapM fun i => do
    let s ← (if i.txid = zero32 then
              (match i.scriptSig with | .data d :: _ => pure d | _ => throw PyErr.valueError)
             else scriptBytes T i.scriptSig)
    if i.index < 0 ∨ i.index ≥ 2 ^ 32 then throw PyErr.structError
    pure ({ prevHash := i.txid.reverse, prevIndex := i.index.toNat, script := s, sequence := i.sequence } : RawIn)
  let outs ← t.outputs.mapM fun o => do
    let s ← scriptBytes T o.script
    if o.amount < 0 ∨ o.amount ≥ 2 ^ 63 then throw PyErr.structError
    pure ({ value := o.amount.toNat, script := s } : RawOut)
  pure { version := t.version, ins, outs, wits := t.witnesses, locktime := t.locktime }

def wireOps : List (String × (Tables → R String)) := [
  -- C17 (spec side; the generated functions are exercised by the interpreted Gen driver)
  ("s:cs_enc", fun _ => do let n ← int; pure (if 0 ≤ n ∧ n < 2 ^ 64 then "ok " ++ hex (compactSize n.toNat) else "err")),
  ("s:cs_dec", fun _ => do let b ← bytes; pure (showCS (decodeCompactSize b))),
  ("s:prepend", fun _ => do let b ← bytes; pure ("ok " ++ hex (withLen b))),
  ("m:sat_dec", fun _ => do let k ← int; let e ← nat; pure s!"ok {roundHalfEven (k * 100000000) (10 ^ e)}"),
  ("s:sat_dec", fun _ => do let k ← int; let e ← nat; pure (if e ≤ 8 then s!"ok {k * 10 ^ (8 - e)}" else "err")),
  ("m:sat_f64", fun _ => do
      let bits ← nat
      let x := Float.ofBits (UInt64.ofNat bits) * 100000000.0
      pure s!"ok {(f64RoundHalfEven x).toInt64.toInt}"),
  -- C02
  ("m:asm", fun T => do let ts ← toks; pure (ans hex (scriptBytes T ts))),
  ("s:asm", fun _ => do let ts ← toks; pure (ansO hex (encToks ts))),
  ("m:disasm", fun T => do let b ← bytes; let seg ← bool; pure ("ok " ++ showToks (scriptFromRaw T seg b))),
  ("m:reasm", fun T => do let b ← bytes; let seg ← bool; pure (ans hex (scriptBytes T (scriptFromRaw T seg b)))),
  ("s:renders", fun _ => do let ts ← toks; let os ← toks; pure s!"ok {if renders ts os then 1 else 0}"),
  -- C01 / C16
  ("m:tx_ser", fun T => do let t ← tx; let seg ← bool; pure (ans hex (t.toBytes T seg))),
  ("s:tx_ser", fun T => do let t ← tx; let seg ← bool; pure (ans hex ((assemble T t).map (encodeTx · seg)))),
  ("m:tx_parse", fun T => do let b ← bytes; pure (ans showTx (Tx.parse T b))),
  ("m:tx_reser", fun T => do
      let b ← bytes
      pure (ans hex (do let t ← Tx.parse T b; t.toBytes T t.hasSegwit))),
  ("m:tx_ids", fun T => do
      let t ← tx
      pure (ans id (do let a ← t.txid Crypto.sha256 T; let b ← t.wtxid Crypto.sha256 T; pure s!"{hex a} {hex b}"))),
  ("s:tx_ids", fun T => do
      let t ← tx
      pure (ans id (do
        let r ← assemble T t
        pure s!"{hex (Crypto.dsha256 (encodeTx r false)).reverse} {hex (Crypto.dsha256 (encodeTx r t.hasSegwit)).reverse}"))),
  ("m:tx_sizes", fun T => do
      let t ← tx
      pure (ans id (do let a ← t.size T; let b ← t.vsize T; pure s!"{a} {b}"))),
  ("s:tx_sizes", fun T => do
      let t ← tx
      pure (ans id (do
        let r ← assemble T t
        let full := (encodeTx r t.hasSegwit).length
        let stripped := (encodeTx r false).length
        pure s!"{full} {(3 * stripped + full + 3) / 4}"))),
  ("s:raw", fun _ => do let xs ← get; set ([] : List String); pure (" ".intercalate xs)),
  ("s:echo", fun _ => do let xs ← get; set ([] : List String); pure (" ".intercalate ("ok" :: xs))),
  ("sha256", fun _ => do let b ← bytes; pure ("ok " ++ hex (Crypto.sha256 b)))
]

end Driver
