import BU.Driver.Core
import BU.Driver.Wire
import BU.Model.Digest
import BU.Spec.Sighash
import BU.Crypto.Sha256
/-! driver operations for C03, C04, C05 -/
namespace Driver
open Spec Model Py

def spentOf (T : Tables) (spks : List (List Tok)) (amounts : List Int) : Except PyErr (List Spent) :=
  (spks.zip amounts).mapM fun p => do
    let s ← scriptBytes T p.1
    if p.2 < 0 ∨ p.2 ≥ 2 ^ 64 then throw PyErr.overflowError
    pure ({ amount := p.2.toNat, spk := s } : Spent)

def digestOps : List (String × (Tables → R String)) := [
  ("m:dig_legacy", fun T => do
      let t ← tx; let i ← nat; let code ← toks; let ht ← nat
      pure (ans hex (legacyDigest Crypto.sha256 T t i code ht))),
  ("s:dig_legacy", fun T => do
      let t ← tx; let i ← nat; let code ← toks; let ht ← nat
      pure (ans hex (do
        let r ← assemble T t
        let c ← scriptBytes T code
        if i ≥ r.ins.length then throw PyErr.indexError
        if ht &&& 0x1f = 3 ∧ i ≥ r.outs.length then throw PyErr.valueError
        pure (Crypto.dsha256 (legacyPreimage r i c ht))))),
  ("m:dig_v0", fun T => do
      let t ← tx; let i ← nat; let code ← toks; let amt ← int; let ht ← nat
      pure (ans hex (segwitDigest Crypto.sha256 T t i code amt ht))),
  ("s:dig_v0", fun T => do
      let t ← tx; let i ← nat; let code ← toks; let amt ← int; let ht ← nat
      pure (ans hex (do
        let r ← assemble T t
        let c ← scriptBytes T code
        if i ≥ r.ins.length then throw PyErr.indexError
        if amt < 0 ∨ amt ≥ 2 ^ 63 then throw PyErr.structError
        pure (Crypto.dsha256 (bip143Preimage Crypto.dsha256 r i c amt.toNat ht))))),
  ("m:dig_v1", fun T => do
      let t ← tx; let i ← nat; let spks ← listOf toks; let amts ← listOf int; let ext ← nat; let leaf ← toks; let ht ← nat
      pure (ans hex (taprootDigest Crypto.sha256 T t i spks amts ext leaf ht))),
  ("s:dig_v1", fun T => do
      let t ← tx; let i ← nat; let spks ← listOf toks; let amts ← listOf int; let ext ← nat; let leaf ← toks; let ht ← nat
      pure (ans hex (do
        let r ← assemble T t
        let sp ← spentOf T spks amts
        let lf ← scriptBytes T leaf
        if i ≥ r.ins.length then throw PyErr.indexError
        if ht &&& 3 = 3 ∧ i ≥ r.outs.length then throw PyErr.indexError
        pure (bip341Digest Crypto.sha256 r i sp ext lf ht))))
]
end Driver
