import BU.Driver.Core
import BU.Model.Bech32
import Std.Data.HashSet
/-! exhaustive (not proved) check of the bech32 checksum's distance for a data part of `L` symbols: no pattern of
1..4 substituted symbols has syndrome 0 or 1 xor 0x2bc830a3.  Thorough tier of C11. -/
namespace Driver
open Model.Bech32

def synd (e : List Nat) : Nat :=
  e.foldl (fun chk value =>
    let top := chk >>> 25
    let chk := ((chk &&& 0x1FFFFFF) <<< 5) ^^^ value
    (List.range 5).foldl (fun chk i => chk ^^^ (if (top >>> i) &&& 1 ≠ 0 then specConsts.generator.getD i 0 else 0)) chk) 0

def bchExhaustive (L : Nat) : String := Id.run do
  let delta : Nat := 1 ^^^ 0x2bc830a3
  -- single-error syndromes, with their position
  let mut singles : Array (Nat × Nat) := #[]
  for i in [0:L] do
    for a in [1:32] do
      singles := singles.push (i, synd ([a] ++ List.replicate i 0))
  let mut sset : Std.HashSet Nat := {}
  for (_, s) in singles do
    if s == 0 || s == delta || sset.contains s || sset.contains (s ^^^ delta) then return "ok 0 weight<=2"
    sset := sset.insert s
  -- pair syndromes over distinct positions
  let mut pset : Std.HashSet Nat := {}
  let mut cross4 : Nat := 0
  let n := singles.size
  for x in [0:n] do
    for y in [x+1:n] do
      let (i, s) := singles[x]!
      let (j, t) := singles[y]!
      if i != j then
        let p := s ^^^ t
        -- weight 3: a pair syndrome equal to a single one, or to a single one shifted by delta (either variant)
        if sset.contains p || sset.contains (p ^^^ delta) then return "ok 0 weight3"
        -- weight 4, same checksum variant: two equal pair syndromes
        if pset.contains p then return "ok 0 weight4"
        -- weight 4 across variants (bech32 <-> bech32m): such patterns exist; they are rejected by the version/variant
        -- rule of `decode` unless the version symbol is one of the substituted ones, and then by the address class
        if pset.contains (p ^^^ delta) then cross4 := cross4 + 1
        pset := pset.insert p
  return s!"ok 1 singles={n} pairs={pset.size} cross-variant-weight4={cross4}"

def nats (xs : List Nat) : String := " ".intercalate (toString xs.length :: xs.map toString)
def charsOf : R (List Char) := do let cs ← listOf nat; pure (cs.map Char.ofNat)
def encOf (n : Nat) : Enc := if n == 2 then .bech32m else .bech32

def bchOps : List (String × (Model.Tables → R String)) := [
  ("s:bch_exhaustive", fun _ => do let L ← nat; pure (bchExhaustive L)),
  -- the leaves of bech32.py in the hand model (natural-number arguments only)
  ("m:polymod", fun _ => do let v ← listOf nat; pure s!"ok {polymod specConsts v}"),
  ("m:hrp_expand", fun _ => do let h ← charsOf; pure ("ok " ++ nats (hrpExpand h))),
  ("m:verify_checksum", fun _ => do
      let h ← charsOf; let d ← listOf nat
      pure ("ok " ++ match verifyChecksum specConsts h d with | none => "none" | some .bech32 => "1" | some .bech32m => "2")),
  ("m:create_checksum", fun _ => do
      let h ← charsOf; let d ← listOf nat; let sp ← nat
      pure ("ok " ++ nats (createChecksum specConsts h d (encOf sp)))),
  ("m:convertbits", fun _ => do
      let d ← listOf nat; let f ← nat; let t ← nat; let p ← bool
      pure ("ok " ++ match convertbits d f t p with | none => "none" | some r => nats r))
]
end Driver
