import BU.Driver.Core
import BU.Driver.Wire
import BU.Driver.Digest
import BU.Model.Taproot
import BU.Model.Ripemd
import BU.Spec.Bip340
import BU.Spec.Ecdsa
import BU.Crypto.Sha256
/-! driver operations for C07, C08, C20 -/
namespace Driver
open Spec Model Py Secp

partial def tree : R Tree := do
  let k ← next
  if k == "L" then do let s ← toks; pure (.leaf s)
  else if k == "O" then do let t ← tree; pure (.one t)
  else if k == "T" then do let l ← tree; let r ← tree; pure (.two l r)
  else throw s!"bad tree {k}"

def scripts : R Scripts := do
  let k ← next
  if k == "N" then pure .none
  else if k == "R" then do let b ← bytes; pure (.root b)
  else if k == "S" then do let t ← tree; pure (.tree t)
  else throw s!"bad scripts {k}"

def toSTree (T : Tables) : Tree → Except PyErr STree
  | .leaf s => do let b ← scriptBytes T s; pure (.leaf b)
  | .one t => do let x ← toSTree T t; pure (.one x)
  | .two l r => do let a ← toSTree T l; let b ← toSTree T r; pure (.two a b)

def b01 (b : Bool) : String := if b then "1" else "0"

def taprootOps : List (String × (Tables → R String)) := [
  ("m:tr_root", fun T => do let t ← tree; pure (ans hex (merkleRoot Crypto.sha256 T t))),
  ("s:tr_root", fun T => do let t ← tree; pure (ans hex ((toSTree T t).map (·.root Crypto.sha256)))),
  ("m:tr_addr", fun T => do
      let pub ← bytes; let s ← scripts
      pure (ans (fun (q : Bytes × Bool) => s!"{hex q.1} {b01 q.2}") (toTaproot Crypto.sha256 T pub s))),
  ("s:tr_addr", fun T => do
      let pub ← bytes; let s ← scripts
      let h : Except PyErr Bytes := match s with
        | .none => .ok []
        | .root b => .ok b
        | .tree t => (toSTree T t).map (·.root Crypto.sha256)
      pure (ans id (do
        let h ← h
        match taprootOutput Crypto.sha256 (pub.take 32) h with
        | some (q, odd) => pure s!"{hex q} {b01 odd}"
        | none => throw PyErr.valueError))),
  ("m:tr_cb", fun T => do
      let pub ← bytes; let t ← tree; let k ← nat; let odd ← bool
      pure (ans hex (controlBlock Crypto.sha256 T pub t k odd))),
  ("s:tr_verify", fun T => do
      let cb ← bytes; let leaf ← toks
      pure (ans id (do
        let s ← scriptBytes T leaf
        match scriptPathCommitment Crypto.sha256 cb s with
        | some (q, odd) => pure s!"{hex q} {b01 odd}"
        | none => throw PyErr.valueError))),
  ("m:tr_sign", fun T => do
      let priv ← bytes; let pub ← bytes; let s ← scripts; let digest ← bytes; let ht ← nat; let tw ← bool
      pure (ans hex (signTaproot Crypto.sha256 T priv pub digest ht s tw))),
  ("s:tr_verify_tx", fun T => do
      -- BIP340 verification of a signature under the *Spec* BIP341/342 digest of the given spend
      let t ← tx; let i ← nat; let spks ← listOf toks; let amts ← listOf int; let ext ← nat; let leaf ← toks; let ht ← nat
      let pk ← bytes; let sig ← bytes
      pure (ans b01 (do
        let r ← assemble T t
        let sp ← spentOf T spks amts
        let lf ← scriptBytes T leaf
        let digest := bip341Digest Crypto.sha256 r i sp ext lf ht
        pure (pk.length == 32 && sig.length == 64 && bip340Verify Crypto.sha256 digest pk sig)))),
  ("m:tr_tweak_priv", fun _ => do let priv ← bytes; let t ← nat; pure (ans hex (tweakPrivkey priv t))),
  ("s:bip340_verify", fun _ => do
      let msg ← bytes; let pk ← bytes; let sig ← bytes
      pure s!"ok {b01 (msg.length == 32 && pk.length == 32 && sig.length == 64 && bip340Verify Crypto.sha256 msg pk sig)}"),
  ("s:bip340_sign", fun _ => do
      let msg ← bytes; let sk ← bytes; let aux ← bytes
      pure (ansO hex (if msg.length == 32 && aux.length == 32 then bip340Sign Crypto.sha256 msg sk aux else none))),
  ("m:schnorr_sign", fun _ => do
      let msg ← bytes; let sk ← bytes; let aux ← bytes
      pure (ans hex (schnorrSign Crypto.sha256 msg sk aux))),
  ("m:schnorr_verify", fun _ => do
      let msg ← bytes; let pk ← bytes; let sig ← bytes
      pure (ans b01 (schnorrVerify Crypto.sha256 msg pk sig))),
  ("m:full_pubkey", fun _ => do let sk ← bytes; pure (ans hex (fullPubkeyGen sk))),
  ("m:rmd", fun _ => do let b ← bytes; pure ("ok " ++ hex (Rmd.ripemd160 Rmd.specTabs b))),
  ("s:rmd", fun _ => do let b ← bytes; pure ("ok " ++ hex (Spec.Rmd.ripemd160 b))),
  ("s:tagged", fun _ => do let tag ← next; let b ← bytes; pure ("ok " ++ hex (taggedHash Crypto.sha256 tag b))),
  ("s:ecdsa_verify", fun _ => do
      let pub ← bytes; let z ← bytes; let r ← bytes; let s ← bytes
      let Q : Point := some (ofBE (pub.take 32), ofBE (pub.drop 32))
      pure s!"ok {b01 (onCurve Q && ecdsaVerify Q (ofBE z) (ofBE r) (ofBE s))}"),
  ("secp_mul", fun _ => do
      let k ← bytes
      pure (match mul G (ofBE k) with
            | some (x, y) => s!"ok {hex (beBytes 32 x)} {hex (beBytes 32 y)}"
            | none => "ok inf"))
]
end Driver
