import BU.Driver.Core
import BU.Driver.Digest
import BU.Model.Heap
import BU.Crypto.Sha256
/-! stateful driver operations for C13: an object pool (heap) with named transactions; every answer carries a
dump of all serialisations and of the sharing partition -/
namespace Driver
open Spec Model Model.Heap Py

structure HSt where
  heap : H := []
  names : List (String × Ref) := []
deriving Inhabited

abbrev RS := StateT (List String) (Except String)

def lookupTx (st : HSt) (n : String) : Except String Ref :=
  match st.names.lookup n with | some r => .ok r | none => .error s!"unknown tx {n}"

def txParts (h : H) (r : Ref) : Except String (Bytes × Bytes × Bool × Ref × Ref × Ref × List Ref × List Ref × List Ref) :=
  match h[r]? with
  | some (.tx v l seg a b c) =>
    match h[a]?, h[b]?, h[c]? with
    | some (.reflist ins), some (.reflist outs), some (.reflist wits) => .ok (v, l, seg, a, b, c, ins, outs, wits)
    | _, _, _ => .error "bad tx lists"
  | _ => .error "not a tx"

def nth (xs : List Ref) (i : Nat) : Except String Ref :=
  match xs[i]? with | some r => .ok r | none => .error "index"

/-- paths of all mutable objects of a named transaction -/
def paths (h : H) (name : String) (r : Ref) : List (String × Ref) :=
  match txParts h r with
  | .error _ => []
  | .ok (_, _, _, a, b, c, ins, outs, wits) =>
    let inP := ins.zipIdx.flatMap fun (x, i) =>
      [(s!"{name}.in[{i}]", x)] ++
      (match h[x]? with
       | some (.txin _ _ s _) => [(s!"{name}.in[{i}].ss", s)] ++ (match h[s]? with | some (.script l) => [(s!"{name}.in[{i}].ss.l", l)] | _ => [])
       | _ => [])
    let outP := outs.zipIdx.flatMap fun (x, i) =>
      [(s!"{name}.out[{i}]", x)] ++
      (match h[x]? with
       | some (.txout _ s) => [(s!"{name}.out[{i}].spk", s)] ++ (match h[s]? with | some (.script l) => [(s!"{name}.out[{i}].spk.l", l)] | _ => [])
       | _ => [])
    let witP := wits.zipIdx.flatMap fun (x, i) =>
      [(s!"{name}.wit[{i}]", x)] ++ (match h[x]? with | some (.wit l) => [(s!"{name}.wit[{i}].l", l)] | _ => [])
    [(s!"{name}.ins", a), (s!"{name}.outs", b), (s!"{name}.wits", c)] ++ inP ++ outP ++ witP

def insertSorted (s : String) : List String → List String
  | [] => [s]
  | x :: xs => if s ≤ x then s :: x :: xs else x :: insertSorted s xs
def sortS (l : List String) : List String := l.foldr insertSorted []

def dump (T : Tables) (st : HSt) : String :=
  let names := sortS (st.names.map (·.1))
  let sers := names.map fun n =>
    match st.names.lookup n with
    | some r =>
      (match viewTx st.heap r with
       | some t => (match t.toBytes T t.hasSegwit with | .ok b => s!"{n}={hex b}" | .error _ => s!"{n}=err")
       | none => s!"{n}=noview")
    | none => s!"{n}=?"
  let allPaths := names.flatMap fun n => match st.names.lookup n with | some r => paths st.heap n r | none => []
  -- sharing classes: groups of ≥ 2 paths denoting the same object
  let refs := (allPaths.map (·.2)).eraseDups
  let classes := refs.filterMap fun r =>
    let ps := sortS ((allPaths.filter (·.2 == r)).map (·.1))
    if ps.length ≥ 2 then some ("+".intercalate ps) else none
  " ".intercalate sers ++ " | " ++ ",".intercalate (sortS classes)

/-- build a transaction from the wire-level description; inputs listed in `defaults` use the defaulted script_sig -/
def buildTx (h : H) (t : Tx) (defaults : List Nat) : H × Ref :=
  let (h, ins) := t.inputs.zipIdx.foldl (fun (st : H × List Ref) (x, i) =>
    if defaults.contains i then
      let (h1, r) := newTxIn st.1 x.txid x.index none x.sequence
      (h1, st.2 ++ [r])
    else
      let (h1, s) := newScript st.1 x.scriptSig
      let (h2, r) := newTxIn h1 x.txid x.index (some s) x.sequence
      (h2, st.2 ++ [r])) (h, [])
  let (h, outs) := t.outputs.foldl (fun (st : H × List Ref) o =>
      let (h1, s) := newScript st.1 o.script
      let (h2, r) := newTxOut h1 o.amount s
      (h2, st.2 ++ [r])) (h, [])
  let (h, wits) := t.witnesses.foldl (fun (st : H × List Ref) w =>
      let (h1, r) := newWit st.1 w
      (h1, st.2 ++ [r])) (h, [])
  newTx h t.version t.locktime t.hasSegwit ins outs wits

def setName (st : HSt) (n : String) (r : Ref) (h : H) : HSt :=
  { heap := h, names := (n, r) :: st.names.filter (·.1 != n) }

def liftE {α} (e : Except String α) : RS α := match e with | .ok a => pure a | .error s => throw s
def liftP {α} (e : Except PyErr α) : RS α := match e with | .ok a => pure a | .error _ => throw "pyerr"

/-- replace element `j` of the list object `l` -/
def setListElem (h : H) (l : Ref) (j : Nat) (x : Ref) : Except String H :=
  match h[l]? with
  | some (.reflist xs) => if j < xs.length then .ok (write h l (.reflist (xs.set j x))) else .error "index"
  | _ => .error "not a list"

def heapOps : List (String × (Tables → HSt → RS (HSt × String))) := [
  ("h_reset", fun _ _ => pure ({}, "")),
  ("h_newtx", fun _ st => do
      let n ← next; let t ← tx; let ds ← listOf nat
      let (h, r) := buildTx st.heap t ds
      pure (setName st n r h, "")),
  -- a transaction obtained by parsing bytes: every object in it is fresh (model: built from the parsed value)
  ("h_parsetx", fun _ st => do
      let n ← next; let t ← tx
      let (h, r) := buildTx st.heap t []
      pure (setName st n r h, "")),
  ("h_copytx", fun _ st => do
      let a ← next; let b ← next
      let ra ← liftE (lookupTx st a)
      let (h, c) ← liftP (copyTx st.heap ra)
      pure (setName st b c h, "")),
  ("h_copyin", fun _ st => do
      let a ← next; let i ← nat; let b ← next; let j ← nat
      let ra ← liftE (lookupTx st a); let rb ← liftE (lookupTx st b)
      let (_, _, _, _, _, _, ins, _, _) ← liftE (txParts st.heap ra)
      let x ← liftE (nth ins i)
      let (h, c) ← liftP (copyTxIn st.heap x)
      let (_, _, _, la, _, _, _, _, _) ← liftE (txParts h rb)
      let h ← liftE (setListElem h la j c)
      pure ({ st with heap := h }, "")),
  ("h_copyout", fun _ st => do
      let a ← next; let i ← nat; let b ← next; let j ← nat
      let ra ← liftE (lookupTx st a); let rb ← liftE (lookupTx st b)
      let (_, _, _, _, _, _, _, outs, _) ← liftE (txParts st.heap ra)
      let x ← liftE (nth outs i)
      let (h, c) ← liftP (copyTxOut st.heap x)
      let (_, _, _, _, lb, _, _, _, _) ← liftE (txParts h rb)
      let h ← liftE (setListElem h lb j c)
      pure ({ st with heap := h }, "")),
  ("h_copywit", fun _ st => do
      let a ← next; let i ← nat; let b ← next; let j ← nat
      let ra ← liftE (lookupTx st a); let rb ← liftE (lookupTx st b)
      let (_, _, _, _, _, _, _, _, wits) ← liftE (txParts st.heap ra)
      let x ← liftE (nth wits i)
      let (h, c) ← liftP (copyWit st.heap x)
      let (_, _, _, _, _, lc, _, _, _) ← liftE (txParts h rb)
      let h ← liftE (setListElem h lc j c)
      pure ({ st with heap := h }, "")),
  ("h_copyscript", fun _ st => do
      -- b.inputs[j].script_sig = Script.copy(a.inputs[i].script_sig)
      let a ← next; let i ← nat; let b ← next; let j ← nat
      let ra ← liftE (lookupTx st a); let rb ← liftE (lookupTx st b)
      let (_, _, _, _, _, _, ins, _, _) ← liftE (txParts st.heap ra)
      let x ← liftE (nth ins i)
      let some (.txin _ _ s _) := st.heap[x]? | throw "not txin"
      let (h, c) ← liftP (copyScript st.heap s)
      let (_, _, _, _, _, _, insb, _, _) ← liftE (txParts h rb)
      let y ← liftE (nth insb j)
      let some (.txin txid index _ sequence) := h[y]? | throw "not txin"
      pure ({ st with heap := write h y (.txin txid index c sequence) }, "")),
  ("h_share", fun _ st => do
      -- b.inputs[j].script_sig = a.inputs[i].script_sig   (aliasing requested by the caller)
      let a ← next; let i ← nat; let b ← next; let j ← nat
      let ra ← liftE (lookupTx st a); let rb ← liftE (lookupTx st b)
      let (_, _, _, _, _, _, ins, _, _) ← liftE (txParts st.heap ra)
      let x ← liftE (nth ins i)
      let some (.txin _ _ s _) := st.heap[x]? | throw "not txin"
      let (_, _, _, _, _, _, insb, _, _) ← liftE (txParts st.heap rb)
      let y ← liftE (nth insb j)
      let some (.txin txid index _ sequence) := st.heap[y]? | throw "not txin"
      pure ({ st with heap := write st.heap y (.txin txid index s sequence) }, "")),
  ("h_append_sig", fun _ st => do
      let a ← next; let i ← nat; let t ← tok
      let ra ← liftE (lookupTx st a)
      let (_, _, _, _, _, _, ins, _, _) ← liftE (txParts st.heap ra)
      let x ← liftE (nth ins i)
      let some (.txin _ _ s _) := st.heap[x]? | throw "not txin"
      let some (.script l) := st.heap[s]? | throw "not script"
      let some (.toklist items) := st.heap[l]? | throw "not list"
      pure ({ st with heap := write st.heap l (.toklist (items ++ [t])) }, "")),
  ("h_append_spk", fun _ st => do
      let a ← next; let i ← nat; let t ← tok
      let ra ← liftE (lookupTx st a)
      let (_, _, _, _, _, _, _, outs, _) ← liftE (txParts st.heap ra)
      let x ← liftE (nth outs i)
      let some (.txout _ s) := st.heap[x]? | throw "not txout"
      let some (.script l) := st.heap[s]? | throw "not script"
      let some (.toklist items) := st.heap[l]? | throw "not list"
      pure ({ st with heap := write st.heap l (.toklist (items ++ [t])) }, "")),
  ("h_append_wit", fun _ st => do
      let a ← next; let i ← nat; let it ← bytes
      let ra ← liftE (lookupTx st a)
      let (_, _, _, _, _, _, _, _, wits) ← liftE (txParts st.heap ra)
      let x ← liftE (nth wits i)
      let some (.wit l) := st.heap[x]? | throw "not wit"
      let some (.strlist items) := st.heap[l]? | throw "not list"
      pure ({ st with heap := write st.heap l (.strlist (items ++ [it])) }, "")),
  ("h_set_sig", fun _ st => do
      let a ← next; let i ← nat; let ts ← toks
      let ra ← liftE (lookupTx st a)
      let (_, _, _, _, _, _, ins, _, _) ← liftE (txParts st.heap ra)
      let x ← liftE (nth ins i)
      let some (.txin txid index _ sequence) := st.heap[x]? | throw "not txin"
      let (h, s) := newScript st.heap ts
      pure ({ st with heap := write h x (.txin txid index s sequence) }, "")),
  ("h_set_seq", fun _ st => do
      let a ← next; let i ← nat; let sq ← bytes
      let ra ← liftE (lookupTx st a)
      let (_, _, _, _, _, _, ins, _, _) ← liftE (txParts st.heap ra)
      let x ← liftE (nth ins i)
      let some (.txin txid index s _) := st.heap[x]? | throw "not txin"
      pure ({ st with heap := write st.heap x (.txin txid index s sq) }, "")),
  ("h_set_wit", fun _ st => do
      let a ← next; let i ← nat; let items ← listOf bytes
      let ra ← liftE (lookupTx st a)
      let (_, _, _, _, _, lc, _, _, _) ← liftE (txParts st.heap ra)
      let (h, w) := newWit st.heap items
      let h ← liftE (setListElem h lc i w)
      pure ({ st with heap := h }, "")),
  ("h_dig_legacy", fun T st => do
      let a ← next; let i ← nat; let code ← toks; let ht ← nat
      let ra ← liftE (lookupTx st a)
      let (h, c) := newScript st.heap code
      match legacyDigestH Crypto.sha256 T h ra i c ht with
      | .ok (h', d) => pure ({ st with heap := h' }, hex d)
      | .error _ => pure ({ st with heap := h }, "err")),
  ("h_dig_v0", fun T st => do
      let a ← next; let i ← nat; let code ← toks; let amt ← int; let ht ← nat
      let ra ← liftE (lookupTx st a)
      let some t := viewTx st.heap ra | throw "noview"
      pure (st, match segwitDigest Crypto.sha256 T t i code amt ht with | .ok d => hex d | .error _ => "err")),
  ("h_dig_v1", fun T st => do
      let a ← next; let i ← nat; let spks ← listOf toks; let amts ← listOf int; let ext ← nat; let leaf ← toks; let ht ← nat
      let ra ← liftE (lookupTx st a)
      let some t := viewTx st.heap ra | throw "noview"
      pure (st, match taprootDigest Crypto.sha256 T t i spks amts ext leaf ht with | .ok d => hex d | .error _ => "err"))
]
end Driver
