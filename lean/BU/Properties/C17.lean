import BU.Py
import BU.Gen.Codec
import BU.Spec.CompactSize
import BU.Proofs.PyLemmas
/-!
# C17 — CompactSize and satoshi conversions are exact

T-ties: the *generated* `Gen.encode_varint`, `Gen.parse_compact_size`, `Gen.vi_to_int`,
`Gen.prepend_compact_size` (re-translated from /repo on every run) against `Spec.compactSize`.
-/
namespace C17
open Py Spec

/-! ## the Spec itself: canonical, shortest, decodable -/

theorem compactSize_length (n : Nat) : (compactSize n).length = compactSizeLen n := by
  unfold compactSize compactSizeLen
  split
  · simp
  · split
    · simp
    · split <;> simp

/-- decoding any encoding (followed by anything) returns the value and the bytes consumed -/
theorem decode_encode (n : Nat) (h : n < 2 ^ 64) (rest : Bytes) :
    decodeCompactSize (compactSize n ++ rest) = some (n, (compactSize n).length) := by
  unfold compactSize
  by_cases h1 : n < 253
  · have : (UInt8.ofNat n).toNat = n := by simp [UInt8.toNat_ofNat']; omega
    simp [h1, decodeCompactSize, this]
  · by_cases h2 : n < 2 ^ 16
    · have e := ofLE_leBytes 2 n (by omega)
      simp [h1, h2, decodeCompactSize, e]
    · by_cases h3 : n < 2 ^ 32
      · have e := ofLE_leBytes 4 n (by omega)
        simp [h1, h2, h3, decodeCompactSize, e]
      · have e := ofLE_leBytes 8 n (by omega)
        simp [h1, h2, h3, decodeCompactSize, e]

/-- the canonical form is the shortest one: whatever bytes decode to `n`, the canonical
encoding of `n` is not longer than what was consumed -/
theorem compactSize_shortest (b : Bytes) (n k : Nat) (h : decodeCompactSize b = some (n, k)) :
    (compactSize n).length ≤ k := by
  rw [compactSize_length]
  cases b with
  | nil => simp [decodeCompactSize] at h
  | cons x rest =>
    simp only [decodeCompactSize] at h
    by_cases hx : x.toNat < 253
    · simp only [hx, if_true, Option.some.injEq, Prod.mk.injEq] at h
      obtain ⟨rfl, rfl⟩ := h
      simp [compactSizeLen, hx]
    · simp only [hx, if_false] at h
      have h2 := ofLE_lt (rest.take 2)
      have h4 := ofLE_lt (rest.take 4)
      simp only [List.length_take] at h2 h4
      have e2 : rest.length ≥ 2 → min 2 rest.length = 2 := by omega
      have e4 : rest.length ≥ 4 → min 4 rest.length = 4 := by omega
      by_cases h253 : x.toNat = 253
      · simp only [h253, if_true] at h
        by_cases hl : rest.length < 2
        · simp [hl] at h
        · simp only [hl, if_false, Option.some.injEq, Prod.mk.injEq] at h
          obtain ⟨rfl, rfl⟩ := h
          rw [e2 (by omega)] at h2
          unfold compactSizeLen
          grind
      · by_cases h254 : x.toNat = 254
        · simp only [h254, if_true, if_false, show ¬ (254 = 253) by decide] at h
          by_cases hl : rest.length < 4
          · simp [hl] at h
          · simp only [hl, if_false, Option.some.injEq, Prod.mk.injEq] at h
            obtain ⟨rfl, rfl⟩ := h
            rw [e4 (by omega)] at h4
            unfold compactSizeLen
            grind
        · simp only [h253, h254, if_false] at h
          by_cases hl : rest.length < 8
          · simp [hl] at h
          · simp only [hl, if_false, Option.some.injEq, Prod.mk.injEq] at h
            obtain ⟨rfl, rfl⟩ := h
            unfold compactSizeLen
            grind

/-! ## T-ties: the generated code equals the Spec -/

theorem encode_varint_eq_spec (n : Nat) (h : n < 2 ^ 64) :
    Gen.encode_varint (n : Int) = .ok (compactSize n) := by
  unfold Gen.encode_varint compactSize Py.bytesOfInts Py.toBytes
  by_cases h1 : n < 253
  · have : (n:Int) < 253 := by omega
    have : (n:Int) < 256 := by omega
    simp [*]; rfl
  · have a : ¬ (n:Int) < 253 := by omega
    by_cases h2 : n < 2 ^ 16
    · have b : (n:Int) < 65536 := by omega
      have c : ¬ (256 ^ 2 ≤ n) := by omega
      simp [h1, h2, a, b, c]; rfl
    · have b : ¬ (n:Int) < 65536 := by omega
      by_cases h3 : n < 2 ^ 32
      · have b' : (n:Int) < 4294967296 := by omega
        have c : ¬ (256 ^ 4 ≤ n) := by omega
        simp [h1, h2, h3, a, b, b', c]; rfl
      · have b' : ¬ (n:Int) < 4294967296 := by omega
        have b'' : (n:Int) < 18446744073709551616 := by omega
        have c : ¬ (256 ^ 8 ≤ n) := by omega
        simp [h1, h2, h3, a, b, b', b'', c]; rfl

/-- values outside `0 ≤ n < 2^64` are refused -/
theorem encode_varint_rejects (i : Int) (h : i < 0 ∨ 2 ^ 64 ≤ i) :
    ∃ e, Gen.encode_varint i = .error e := by
  unfold Gen.encode_varint Py.bytesOfInts Py.toBytes
  rcases h with h | h
  · have : i < 253 := by omega
    have : ¬ (0 ≤ i) := by omega
    simp [*]
    exact ⟨_, rfl⟩
  · have a : ¬ i < 253 := by omega
    have b : ¬ i < 65536 := by omega
    have c : ¬ i < 4294967296 := by omega
    have d : ¬ i < 18446744073709551616 := by omega
    simp [*]; exact ⟨_, rfl⟩

/-- `parse_compact_size` inverts the encoder on any continuation: value and bytes consumed -/
theorem parse_compact_size_encode (n : Nat) (h : n < 2 ^ 64) (rest : Bytes) :
    Gen.parse_compact_size (compactSize n ++ rest) = .ok ((n : Int), ((compactSize n).length : Int)) := by
  unfold Gen.parse_compact_size compactSize
  by_cases h1 : n < 253
  · have e : (UInt8.ofNat n).toNat = n := by simp [UInt8.toNat_ofNat']; omega
    have a : (n:Int) < 253 := by omega
    simp [h1, index_cons_zero, e, ok_bind, a, pure_eq_ok]
  · by_cases h2 : n < 2 ^ 16
    · have e := ofLE_leBytes 2 n (by omega)
      simp [h1, h2, index_cons_zero, unpack1_H, unpackU, slice, e, ok_bind, map_ok]
    · by_cases h3 : n < 2 ^ 32
      · have e := ofLE_leBytes 4 n (by omega)
        simp [h1, h2, h3, index_cons_zero, unpack1_I, unpackU, slice, e, ok_bind, map_ok]
      · have e := ofLE_leBytes 8 n (by omega)
        simp [h1, h2, h3, index_cons_zero, unpack1_Q, unpackU, slice, e, ok_bind, map_ok]

/-- `parse_compact_size` agrees with the Spec decoder on *every* input (ok/err and value) -/
theorem parse_compact_size_eq_spec (b : Bytes) :
    (match Gen.parse_compact_size b with
     | .ok (v, k) => some (v, k)
     | .error _ => none) = (decodeCompactSize b).map (fun p => ((p.1 : Int), (p.2 : Int))) := by
  cases b with
  | nil => simp [Gen.parse_compact_size, decodeCompactSize, index, error_bind]
  | cons x rest =>
    unfold Gen.parse_compact_size decodeCompactSize
    have hx := x.toNat_lt
    by_cases h1 : x.toNat < 253
    · have a : (x.toNat : Int) < 253 := by omega
      simp [index_cons_zero, ok_bind, h1, a, pure_eq_ok]
    · by_cases h2 : x.toNat = 253
      · by_cases hl : rest.length < 2
        · have : ¬ (min 2 rest.length = 2) := by omega
          simp [index_cons_zero, ok_bind, h2, hl, unpack1_H, unpackU, slice, this, map_error]
        · have : (min 2 rest.length = 2) := by omega
          simp [index_cons_zero, ok_bind, h2, hl, unpack1_H, unpackU, slice, this, map_ok]
      · by_cases h3 : x.toNat = 254
        · by_cases hl : rest.length < 4
          · have : ¬ (min 4 rest.length = 4) := by omega
            simp [index_cons_zero, ok_bind, h3, hl, unpack1_I, unpackU, slice, this, map_error]
          · have : (min 4 rest.length = 4) := by omega
            simp [index_cons_zero, ok_bind, h3, hl, unpack1_I, unpackU, slice, this, map_ok]
        · have b4 : x.toNat = 255 := by omega
          by_cases hl : rest.length < 8
          · have : ¬ (min 8 rest.length = 8) := by omega
            simp [index_cons_zero, ok_bind, b4, hl, unpack1_Q, unpackU, slice, this, map_error]
          · have : (min 8 rest.length = 8) := by omega
            simp [index_cons_zero, ok_bind, b4, hl, unpack1_Q, unpackU, slice, this, map_ok]

/-- `vi_to_int` inverts the encoder on any continuation (it is handed at least the encoding) -/
theorem vi_to_int_encode (n : Nat) (h : n < 2 ^ 64) (rest : Bytes) :
    Gen.vi_to_int (compactSize n ++ rest) = .ok ((n : Int), ((compactSize n).length : Int)) := by
  unfold Gen.vi_to_int compactSize
  by_cases h1 : n < 253
  · have e : (UInt8.ofNat n).toNat = n := by simp [UInt8.toNat_ofNat']; omega
    have a : (n:Int) < 253 := by omega
    simp [h1, index_cons_zero, e, ok_bind, a, pure_eq_ok]
  · by_cases h2 : n < 2 ^ 16
    · have e := ofLE_leBytes 2 n (by omega)
      simp [h1, h2, index_cons_zero, slice, e, ok_bind, pure_eq_ok, fromBytes, ofBE]
    · by_cases h3 : n < 2 ^ 32
      · have e := ofLE_leBytes 4 n (by omega)
        simp [h1, h2, h3, index_cons_zero, slice, e, ok_bind, pure_eq_ok, fromBytes, ofBE]
      · have e := ofLE_leBytes 8 n (by omega)
        simp [h1, h2, h3, index_cons_zero, slice, e, ok_bind, pure_eq_ok, fromBytes, ofBE]

/-- prefixing data with its CompactSize length -/
theorem prepend_eq_spec (d : Bytes) (h : d.length < 2 ^ 64) :
    Gen.prepend_compact_size d = .ok (withLen d) := by
  unfold Gen.prepend_compact_size withLen Py.len
  rw [encode_varint_eq_spec d.length h]
  rfl

/-- … is consistent with the decoders: they return the data length and consume exactly the prefix -/
theorem prepend_consistent (d : Bytes) (h : d.length < 2 ^ 64) :
    ∃ (p : Bytes) (k : Nat), Gen.prepend_compact_size d = .ok p ∧ Gen.parse_compact_size p = .ok ((d.length : Int), (k : Int))
      ∧ Gen.vi_to_int p = .ok ((d.length : Int), (k : Int)) ∧ p.drop k = d := by
  refine ⟨withLen d, (compactSize d.length).length, prepend_eq_spec d h, ?_, ?_, ?_⟩
  · exact parse_compact_size_encode d.length h d
  · exact vi_to_int_encode d.length h d
  · simp [withLen]

/-! ## satoshi conversion (`to_satoshis`, hand model: `int(round(num * 10^8))`)

`Decimal` and `int` amounts are exact rationals `k / 10^e`; the product with 10^8 is exact
(≤ 28 significant digits, the default Decimal context, assumed) and `round` is half-to-even. -/

/-- half-to-even rounding of `num / den` (`den > 0`), Python's `round` on an exact value -/
def roundHalfEven (num : Int) (den : Nat) : Int :=
  let q := num / den
  let r := num % den
  if 2 * r < den then q else if 2 * r > den then q + 1 else if q % 2 = 0 then q else q + 1

/-- model of `to_satoshis(Decimal(k) / 10^e)` (and of an `int` amount: `e = 0`) -/
def toSatoshis (k : Int) (e : Nat) : Int := roundHalfEven (k * 100000000) (10 ^ e)

/-- amounts with at most eight decimals convert exactly: `k / 10^e` BTC is `k * 10^(8-e)` satoshis -/
theorem to_satoshis_exact (k : Int) (e : Nat) (he : e ≤ 8) : toSatoshis k e = k * 10 ^ (8 - e) := by
  have hc : e = 0 ∨ e = 1 ∨ e = 2 ∨ e = 3 ∨ e = 4 ∨ e = 5 ∨ e = 6 ∨ e = 7 ∨ e = 8 := by omega
  unfold toSatoshis roundHalfEven
  rcases hc with rfl | rfl | rfl | rfl | rfl | rfl | rfl | rfl | rfl <;>
    (simp only [Nat.reducePow, Nat.reduceSub, Int.reducePow]; split <;> omega)

end C17
