import BU.Model.Heap
namespace C13
end C13
