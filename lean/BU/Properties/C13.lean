import BU.Py
import BU.Model.Heap
import BU.Model.Digest
import BU.Model.Order
import BU.Proofs.OrderLemmas
import BU.Proofs.HeapLemmas
import BU.Properties.C03
import BU.Properties.C04
import BU.Properties.C05
/-!
# C13 — digests and signing are pure and order-independent; copies share no state

Two models.  (1) `Model.Heap`: Python object identity as heap references; copy helpers, constructors and
`get_transaction_digest` as heap transformers.  (2) the pure transaction model for order independence.
-/
namespace C13
open Py Spec Model Model.Heap Model.Order

/-! ## (1) copies and constructors share no mutable state -/

/-- `h'` is `h` plus newly allocated objects -/
def Extends (h h' : H) : Prop := ∃ ext, h' = h ++ ext

/-- every object reachable from a copy of a transaction was allocated by the copy, and the copy denotes the
same transaction value -/
theorem copyTx_fresh (h : H) (r : Ref) (h' : H) (c : Ref) (hc : copyTx h r = .ok (h', c)) :
    Extends h h' ∧ (∀ x ∈ reachTx h' c, h.length ≤ x) ∧ (∀ t, viewTx h r = some t → viewTx h' c = some t) := by
  obtain ⟨ext, rfl, h1, h2, _⟩ := HeapLemmas.copyTx_spec hc
  exact ⟨⟨ext, rfl⟩, h1, h2⟩

theorem copyTxIn_fresh (h : H) (r : Ref) (h' : H) (c : Ref) (hc : copyTxIn h r = .ok (h', c)) :
    Extends h h' ∧ (∀ x ∈ reachTxIn h' c, h.length ≤ x) ∧ (∀ t, viewTxIn h r = some t → viewTxIn h' c = some t) := by
  obtain ⟨ext, rfl, _, _, ⟨v, hv, hv'⟩, hr⟩ := HeapLemmas.copyTxIn_spec hc
  refine ⟨⟨ext, rfl⟩, hr, ?_⟩
  intro t ht
  rw [hv] at ht; rw [← ht]; exact hv'

theorem copyTxOut_fresh (h : H) (r : Ref) (h' : H) (c : Ref) (hc : copyTxOut h r = .ok (h', c)) :
    Extends h h' ∧ (∀ x ∈ reachTxOut h' c, h.length ≤ x) ∧ (∀ t, viewTxOut h r = some t → viewTxOut h' c = some t) := by
  obtain ⟨ext, rfl, _, _, ⟨v, hv, hv'⟩, hr⟩ := HeapLemmas.copyTxOut_spec hc
  refine ⟨⟨ext, rfl⟩, hr, ?_⟩
  intro t ht
  rw [hv] at ht; rw [← ht]; exact hv'

theorem copyWit_fresh (h : H) (r : Ref) (h' : H) (c : Ref) (hc : copyWit h r = .ok (h', c)) :
    Extends h h' ∧ (∀ x ∈ reachWit h' c, h.length ≤ x) ∧ (∀ t, viewWit h r = some t → viewWit h' c = some t) := by
  obtain ⟨ext, rfl, _, _, ⟨v, hv, hv'⟩, hr⟩ := HeapLemmas.copyWit_spec hc
  refine ⟨⟨ext, rfl⟩, hr, ?_⟩
  intro t ht
  rw [hv] at ht; rw [← ht]; exact hv'

theorem copyScript_fresh (h : H) (r : Ref) (h' : H) (c : Ref) (hc : copyScript h r = .ok (h', c)) :
    Extends h h' ∧ (∀ x ∈ reachScript h' c, h.length ≤ x) ∧ (∀ t, viewScript h r = some t → viewScript h' c = some t) := by
  obtain ⟨ext, rfl, _, _, ⟨v, hv, hv'⟩, hr⟩ := HeapLemmas.copyScript_spec hc
  refine ⟨⟨ext, rfl⟩, hr, ?_⟩
  intro t ht
  rw [hv] at ht; rw [← ht]; exact hv'

/-- objects constructed independently share nothing: an input built with the defaulted `script_sig` gets a
script (and list) of its own -/
theorem newTxIn_default_fresh (h : H) (txid : Bytes) (index : Int) (sequence : Bytes) :
    ∀ x ∈ reachTxIn (newTxIn h txid index none sequence).1 (newTxIn h txid index none sequence).2, h.length ≤ x := by
  intro x hx
  simp only [newTxIn, HeapLemmas.newScript_eq, alloc] at hx
  have g : (h ++ [Obj.toklist [], Obj.script h.length] ++ [Obj.txin txid index (h.length + 1) sequence])[
      (h ++ [Obj.toklist [], Obj.script h.length]).length]? = some (.txin txid index (h.length + 1) sequence) := by
    simp
  unfold reachTxIn at hx
  rw [g] at hx
  simp only [List.mem_cons] at hx
  rcases hx with rfl | hx
  · simp
  · rw [HeapLemmas.reachScript_ext _ (HeapLemmas.newScript_view h []), HeapLemmas.newScript_reach] at hx
    simp only [List.mem_cons, List.not_mem_nil, or_false] at hx
    rcases hx with rfl | rfl <;> omega

/-- **frame**: a write (attribute rebinding or in-place list mutation) to an object that is not reachable from
a transaction does not change the value that transaction denotes -/
theorem frame (h : H) (r w : Ref) (o : Obj) (hw : w ∉ reachTx h r) : viewTx (write h w o) r = viewTx h r := by
  exact HeapLemmas.viewTx_frame o hw

/-- in a heap built by allocation (no forward references) everything reachable from an old object is old -/
theorem reach_old (h : H) (hcl : closed h) (r : Ref) (hr : r < h.length) : ∀ x ∈ reachTx h r, x < h.length := by
  exact HeapLemmas.reachTx_old hcl hr

/-- **mutating a copy through its public attributes never changes the original** (and vice versa), for any
object reachable from either and any new content -/
theorem copy_isolated (h : H) (hcl : closed h) (r : Ref) (hr : r < h.length) (h' : H) (c : Ref)
    (hc : copyTx h r = .ok (h', c)) :
    (∀ w ∈ reachTx h' c, ∀ o, viewTx (write h' w o) r = viewTx h r) ∧
    (∀ w ∈ reachTx h' r, ∀ o, viewTx (write h' w o) c = viewTx h' c) := by
  obtain ⟨ext, rfl, hfresh, _, _⟩ := HeapLemmas.copyTx_spec hc
  constructor
  · intro w hw o
    rw [HeapLemmas.write_ext ext o (hfresh w hw)]
    exact HeapLemmas.viewTx_ext_closed hcl hr _
  · intro w hw o
    apply HeapLemmas.viewTx_frame
    intro hwc
    rw [HeapLemmas.reachTx_ext_closed hcl hr] at hw
    have h1 := HeapLemmas.reachTx_old hcl hr w hw
    have h2 := hfresh w hwc
    exact absurd h1 (Nat.not_lt.mpr h2)

/-! ## digests never change the transaction -/

/-- `get_transaction_digest` works on a copy: every object that existed before the call is unchanged after it
(the transaction, every input's script and sequence, outputs, witnesses — and the caller's `script`) -/
theorem legacy_digest_pure (sha256 : Bytes → Bytes) (T : Tables) (h : H) (hcl : closed h) (self code : Ref)
    (hs : self < h.length) (hcode : code < h.length) (i ht : Nat) (h' : H) (d : Bytes)
    (hd : legacyDigestH sha256 T h self i code ht = .ok (h', d)) :
    h'.length ≥ h.length ∧ (∀ x, x < h.length → h'[x]? = h[x]?) ∧ viewTx h' self = viewTx h self := by
  have _ := hcode  -- (not needed: the caller's script is only referenced, never read)
  obtain ⟨tmp, ws, hp⟩ := HeapLemmas.legacyDigestH_ok hd
  obtain ⟨ext, rfl⟩ := HeapLemmas.prepare_ext hp
  exact ⟨by simp, fun x hx => HeapLemmas.get_ext_lt ext hx, HeapLemmas.viewTx_ext_closed hcl hs ext⟩

/-- … and it computes exactly the digest of the pure model (C03) on the value the transaction denotes -/
theorem legacy_digest_value (sha256 : Bytes → Bytes) (T : Tables) (h : H) (hcl : closed h) (self code : Ref)
    (hs : self < h.length) (hcode : code < h.length) (i ht : Nat) (t : Tx) (toks : List Tok)
    (ht' : viewTx h self = some t) (hcv : viewScript h code = some toks) :
    (legacyDigestH sha256 T h self i code ht).map (·.2) = legacyDigest sha256 T t i toks ht := by
  have _ := hcl; have _ := hs; have _ := hcode  -- (not needed: the two view hypotheses suffice)
  rw [HeapLemmas.legacyDigestH_eq, HeapLemmas.legacyDigest_eq]
  have hsim := HeapLemmas.prepare_sim (i := i) (ht := ht) ht' hcv
  cases hp : legacyDigestPrepare h self i code ht with
  | error e =>
    rw [hp] at hsim
    simp only at hsim ⊢
    rw [hsim]
  | ok p =>
    obtain ⟨h', tmp, ws⟩ := p
    rw [hp] at hsim
    obtain ⟨tm, hm, hv⟩ := hsim
    simp only [hm, hv]

/-! ## (2) order independence -/

theorem digests_depend_on_skeleton (sha256 : Bytes → Bytes) (T : Tables) (t t' : Tx) (hsk : skeleton t = skeleton t')
    (i : Nat) (code : List Tok) (ht : Nat) (amount : Int) (spks : List (List Tok)) (amounts : List Int) (ext : Nat) (leaf : List Tok) :
    legacyDigest sha256 T t i code ht = legacyDigest sha256 T t' i code ht ∧
    segwitDigest sha256 T t i code amount ht = segwitDigest sha256 T t' i code amount ht ∧
    taprootDigest sha256 T t i spks amounts ext leaf ht = taprootDigest sha256 T t' i spks amounts ext leaf ht := by
  exact OrderLemmas.digests_depend_on_skeleton sha256 T t t' hsk i code ht amount spks amounts ext leaf

/-- **any interleaving**: signing the inputs in any order, interleaved with attaching scripts and witnesses,
gives the same final transaction (hence the same bytes), for any number of inputs -/
theorem order_independent (ops ops' : List Op) (hp : ops.Perm ops') (hs : ∀ o ∈ ops, o.SkeletonOnly)
    (hd : ops.Pairwise fun a b => (a.slot, a.isWitness) ≠ (b.slot, b.isWitness)) (t : Tx) :
    run ops t = run ops' t := by
  exact OrderLemmas.order_independent ops ops' hp hs hd t

end C13
