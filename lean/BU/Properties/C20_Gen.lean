import BU.Gen.Codec
import BU.Model.Ripemd
import BU.Proofs.GenRmd
import BU.Proofs.GenSchnorr
import BU.Proofs.GenRmd2
/-!
# C20, continuation — the word-level leaves of `bitcoinutils/ripemd160.py` as *generated* code (tier T)

`rol` and `fi` work on unbounded Python ints and mask to 32 bits in `rol` only; the hand model works on `UInt32`.  These
theorems discharge that abstraction for the two leaves: on every int (negative and oversized ones included) the generated
functions agree with the model modulo 2^32.
-/
namespace C20Gen
open Model

/-- the 32-bit word a Python int denotes -/
def w32 (x : Int) : UInt32 := UInt32.ofNat (x % 4294967296).toNat

theorem gen_rol (x : Int) (i : Nat) (hi : i ≤ 32) :
    Gen.rmd_rol x (i : Int) = .ok (((Rmd.rol (w32 x) i).toNat : Nat) : Int) :=
  GenRmd.gen_rol x i hi

theorem gen_fi (x y z : Int) (i : Nat) (hi : i ≤ 4) :
    (Gen.rmd_fi x y z (i : Int)).map (fun v => v % 4294967296) = .ok (((Rmd.fi (w32 x) (w32 y) (w32 z) i).toNat : Nat) : Int) :=
  GenRmd.gen_fi x y z i hi

/-- anything else than 0..4 trips the `assert False` -/
theorem gen_fi_rejects (x y z : Int) (i : Int) (hi : i < 0 ∨ 4 < i) : Gen.rmd_fi x y z i = .error .assertion :=
  GenRmd.gen_fi_rejects x y z i hi

/-! ### `compress` and `ripemd160` as generated code -/

/-- the generated tables as the model's table record (the same record `C20.genTabs` is) -/
abbrev genTabs : Rmd.Tabs := GenRmd2.genTabs

/-- `compress` never raises; the five ints it returns denote (modulo 2^32) the model's new state, whatever ints — in range
or not — the old state was given as -/
theorem gen_compress (h0 h1 h2 h3 h4 : Int) (block : Bytes) :
    ∃ v, Gen.rmd_compress h0 h1 h2 h3 h4 block = .ok v ∧
      GenRmd2.Rel5 v (Rmd.compress genTabs (w32 h0, w32 h1, w32 h2, w32 h3, w32 h4) block) :=
  GenRmd2.gen_compress h0 h1 h2 h3 h4 block

/-- **the whole function**: on every byte string shorter than 2^61 (beyond that Python's `to_bytes(8)` of the bit length
raises) the translated `ripemd160` returns exactly what the word-level model returns -/
theorem gen_ripemd160 (data : Bytes) (hlen : data.length < 2 ^ 61) :
    Gen.rmd_ripemd160 data = .ok (Rmd.ripemd160 genTabs data) :=
  GenRmd2.gen_ripemd160 data hlen

-- the official test vector "abc" through the generated code (kernel evaluation)
example : (Gen.rmd_ripemd160 [0x61, 0x62, 0x63]).toOption =
    some [0x8e, 0xb2, 0x08, 0xf7, 0xe0, 0x5d, 0x98, 0x7a, 0x9b, 0x04, 0x4a, 0x8e, 0x98, 0xc6, 0xb0, 0x87, 0xf1, 0x5a, 0x0b, 0xfc] := by
  decide +kernel

/-! ### the curve arithmetic of `bitcoinutils/schnorr.py` as generated code

`point_add`, `point_mul`, `lift_x` and `has_even_y` are re-translated from the working tree on every run.  On points with
natural-number coordinates they never raise and compute exactly `Secp.add`, `Secp.mul`, `Secp.liftX` — the executable
definitions the hand model of `schnorr_sign` / `schnorr_verify` is written over and about which the secp256k1 group law is proved. -/

open GenSchnorr in
theorem gen_point_add (P1 P2 : Secp.Point) :
    Gen.schnorr_point_add (castP P1) (castP P2) = .ok (castP (Secp.add P1 P2)) :=
  GenSchnorr.gen_point_add P1 P2

open GenSchnorr in
/-- for every scalar (the loop reads bits 0..255 of `k`, as `Secp.mul` does) -/
theorem gen_point_mul (P : Secp.Point) (k : Nat) :
    Gen.schnorr_point_mul (castP P) (k : Int) = .ok (castP (Secp.mul P k)) :=
  GenSchnorr.gen_point_mul P k

open GenSchnorr in
theorem gen_lift_x (x : Nat) : Gen.schnorr_lift_x (x : Int) = .ok (castP (Secp.liftX x)) :=
  GenSchnorr.gen_lift_x x

open GenSchnorr in
/-- `has_even_y` asserts on the point at infinity and tests the parity of y otherwise -/
theorem gen_has_even_y (P : Secp.Point) :
    Gen.schnorr_has_even_y (castP P) = (match P with | none => .error .assertion | some (_, y) => .ok (y % 2 == 0)) :=
  GenSchnorr.gen_has_even_y P

/-! ### BIP340 signing and verification as generated code

`schnorr_verify` and `schnorr_sign` (with `tagged_hash`, `bytes_from_int`, `bytes_from_point`, `xor_bytes`, `int_from_bytes`) are
re-translated on every run, `hashlib.sha256` being a parameter.  They are equal — results *and* exceptions — to the hand model
`Model.schnorrVerify` / `Model.schnorrSign` on every input, so `C20.verify_eq_spec`, `C20.sign_eq_spec`,
`C20.sign_never_fails_unconditional` … are statements about the translated source. -/

theorem gen_schnorr_verify (sha256 : Bytes → Bytes) (msg pk sig : Bytes) :
    Gen.schnorr_verify sha256 msg pk sig = Model.schnorrVerify sha256 msg pk sig :=
  GenSchnorr.gen_schnorr_verify sha256 msg pk sig

theorem gen_schnorr_sign (sha256 : Bytes → Bytes) (msg sk aux : Bytes) :
    Gen.schnorr_sign sha256 msg sk aux = Model.schnorrSign sha256 msg sk aux :=
  GenSchnorr.gen_schnorr_sign sha256 msg sk aux

-- sanity on a concrete value (kernel evaluation): 2·G through the generated code
example : (Gen.schnorr_point_add (GenSchnorr.castP Secp.G) (GenSchnorr.castP Secp.G)).toOption
    = some (GenSchnorr.castP (Secp.add Secp.G Secp.G)) := by decide +kernel

end C20Gen
