import BU.Gen.Codec
import BU.Model.Ripemd
import BU.Proofs.GenRmd
/-!
# C20, continuation — the word-level leaves of `bitcoinutils/ripemd160.py` as *generated* code (tier T)

`rol` and `fi` work on unbounded Python ints and mask to 32 bits in `rol` only; the hand model works on `UInt32`.  These
theorems discharge that abstraction for the two leaves: on every int (negative and oversized ones included) the generated
functions agree with the model modulo 2^32.
-/
namespace C20Gen
open Model

/-- the 32-bit word a Python int denotes -/
def w32 (x : Int) : UInt32 := UInt32.ofNat (x % 4294967296).toNat

theorem gen_rol (x : Int) (i : Nat) (hi : i ≤ 32) :
    Gen.rmd_rol x (i : Int) = .ok (((Rmd.rol (w32 x) i).toNat : Nat) : Int) :=
  GenRmd.gen_rol x i hi

theorem gen_fi (x y z : Int) (i : Nat) (hi : i ≤ 4) :
    (Gen.rmd_fi x y z (i : Int)).map (fun v => v % 4294967296) = .ok (((Rmd.fi (w32 x) (w32 y) (w32 z) i).toNat : Nat) : Int) :=
  GenRmd.gen_fi x y z i hi

/-- anything else than 0..4 trips the `assert False` -/
theorem gen_fi_rejects (x y z : Int) (i : Int) (hi : i < 0 ∨ 4 < i) : Gen.rmd_fi x y z i = .error .assertion :=
  GenRmd.gen_fi_rejects x y z i hi

end C20Gen
