import BU.Gen.Codec
import BU.Model.Tx
import BU.Properties.C01_Gen
import BU.Properties.C17
import BU.Properties.C01
/-!
# C01, continuation — parsing as *generated* code (tier T)

`TxOutput.from_raw`, `TxInput.from_raw` and `Transaction.from_raw` are re-translated from the working tree on every run: cursor
arithmetic over the whole buffer, `struct.unpack_from` (short reads raise), `parse_compact_size`, Python slices (which clamp), the
coinbase test on the reversed hash, the four loops of `Transaction.from_raw` (inputs, outputs, witness stacks, witness items) whose
counts come from the data, the objects as records.  The hand model `Model.Tx.parse` — about which `C01.parse_encode`, `reencode`
are proved — consumes a *remaining* byte string instead.  The tie is a simulation: whenever the model parser, run on `raw.drop c`,
returns a value and a rest, the generated function, run at cursor `c`, returns the same value (as a Python record) and a cursor
`c'` with `rest = raw.drop c'`; whenever the model fails, so does the generated function (the kind of exception is not compared:
the model raises one kind for every short read).  Buffers are shorter than 2^63 bytes (Python's own limit).
-/
set_option linter.unusedSimpArgs false
namespace C01GenParse
open Py Spec Model Loop C02Gen C01Gen

/-- the generated function `g` (value and new cursor) simulates the model parser `m` (value and rest) on `raw` -/
def Sim {α β : Type} (I : Nat → Prop) (f : α → β) (raw : Bytes) (m : Except PyErr (α × Bytes)) (g : Except PyErr (β × Int)) : Prop :=
  match m with
  | .ok (x, rest) => ∃ c' : Nat, g = .ok (f x, (c' : Int)) ∧ rest = raw.drop c' ∧ I c'
  | .error _ => ∃ e, g = .error e

/-- the cursor is inside the buffer (what `struct.unpack_from` needs; slices do not) -/
def Inside (raw : Bytes) (c : Nat) : Prop := c ≤ raw.length

/-! ## leaves -/

theorem slice_end (raw : Bytes) (c : Nat) (hlen : raw.length < 2 ^ 63) : Py.slice raw (c : Int) Py.slEnd = raw.drop c := by
  unfold Py.slice Py.slEnd
  rw [Int.toNat_natCast]
  apply List.take_of_length_le
  rw [List.length_drop]
  have : (0x7fffffffffffffff : Int).toNat = 0x7fffffffffffffff := rfl
  omega

theorem bufAt_nat (raw : Bytes) (c k : Nat) (hc : c ≤ raw.length) :
    Py.bufAt raw (c : Int) k = if (raw.drop c).length < k then .error .structError else .ok ((raw.drop c).take k) := by
  unfold Py.bufAt
  have h0 : ¬ ((c : Int) < 0) := by omega
  simp only [h0, if_false, Int.toNat_natCast, List.length_drop]
  by_cases h : raw.length - c < k
  · have : ((raw.length : Int) - (c : Int) < (k : Int)) := by omega
    simp [h, this]
  · have : ¬ ((raw.length : Int) - (c : Int) < (k : Int)) := by omega
    simp [h, this]

/-- reading `k` bytes at the cursor -/
theorem takeN_drop (raw : Bytes) (c k : Nat) (hc : c ≤ raw.length) :
    (takeN k (raw.drop c) = .error .structError ∧ Py.bufAt raw (c : Int) k = .error .structError) ∨
    (takeN k (raw.drop c) = .ok ((raw.drop c).take k, raw.drop (c + k)) ∧ Py.bufAt raw (c : Int) k = .ok ((raw.drop c).take k)
      ∧ c + k ≤ raw.length) := by
  rw [bufAt_nat raw c k hc]
  unfold takeN
  by_cases h : (raw.drop c).length < k
  · left; simp only [h, if_true, and_self]
  · right
    rw [List.length_drop] at h
    simp only [List.length_drop, h, if_false, List.drop_drop, true_and]
    omega

theorem decode_le (b : Bytes) (n k : Nat) (h : decodeCompactSize b = some (n, k)) : 1 ≤ k ∧ k ≤ b.length := by
  cases b with
  | nil => cases h
  | cons x rest =>
    simp only [decodeCompactSize] at h
    by_cases h1 : x.toNat < 253
    · simp only [h1, if_true, Option.some.injEq, Prod.mk.injEq] at h
      simp only [List.length_cons]; omega
    · simp only [h1, if_false] at h
      by_cases h2 : rest.length < (if x.toNat = 253 then 2 else if x.toNat = 254 then 4 else 8)
      · simp only [h2, if_true] at h; cases h
      · simp only [h2, if_false, Option.some.injEq, Prod.mk.injEq] at h
        simp only [List.length_cons]; omega

/-- reading a CompactSize at the cursor -/
theorem parseCS_drop (raw : Bytes) (c : Nat) (hlen : raw.length < 2 ^ 63) :
    (parseCS (raw.drop c) = .error .structError ∧ ∃ e, Gen.parse_compact_size (Py.slice raw (c : Int) Py.slEnd) = .error e) ∨
    (∃ n k, parseCS (raw.drop c) = .ok (n, raw.drop (c + k)) ∧
      Gen.parse_compact_size (Py.slice raw (c : Int) Py.slEnd) = .ok ((n : Int), (k : Int)) ∧ c + k ≤ raw.length) := by
  rw [slice_end raw c hlen]
  have h := C17.parse_compact_size_eq_spec (raw.drop c)
  unfold parseCS
  cases hd : decodeCompactSize (raw.drop c) with
  | none =>
    left
    rw [hd] at h
    refine ⟨rfl, ?_⟩
    cases hg : Gen.parse_compact_size (raw.drop c) with
    | error e => exact ⟨e, rfl⟩
    | ok v => rw [hg] at h; cases v; cases h
  | some p =>
    right
    obtain ⟨n, k⟩ := p
    rw [hd] at h
    refine ⟨n, k, by simp only [List.drop_drop], ?_, ?_⟩
    · cases hg : Gen.parse_compact_size (raw.drop c) with
      | error e => rw [hg] at h; cases h
      | ok v =>
        rw [hg] at h
        obtain ⟨v1, v2⟩ := v
        simp only [Option.map] at h
        have := Option.some.inj h
        simp only [Prod.mk.injEq] at this
        rw [this.1, this.2]
    · have := decode_le _ n k hd
      rw [List.length_drop] at this
      omega

/-! ## outputs and inputs -/

theorem unpackFromS_nat (n : Nat) (raw : Bytes) (c : Int) : Py.unpackFromS (n : Int) raw c = Py.bufAt raw c n := by
  unfold Py.unpackFromS
  simp only [show ¬ ((n : Int) < 0) by omega, if_false, Int.toNat_natCast]

theorem txout_sim (T : Tables) (raw : Bytes) (hlen : raw.length < 2 ^ 63) (c : Nat) (hc : c ≤ raw.length) (seg : Bool) :
    Sim (Inside raw) outPy raw (TxOut.parse T seg (raw.drop c)) (Gen.txoutput_from_raw T.codeOps raw (c : Int) seg) := by
  unfold Gen.txoutput_from_raw TxOut.parse Sim
  simp only []
  rcases takeN_drop raw c 8 hc with ⟨h1, h2⟩ | ⟨h1, h2, h3⟩
  · rw [h1, h2, error_bind, error_bind]; exact ⟨_, rfl⟩
  · rw [h1, h2, ok_bind, ok_bind]
    simp only []
    rw [show ((c : Int) + 8) = ((c + 8 : Nat) : Int) by omega]
    rcases parseCS_drop raw (c + 8) hlen with ⟨g1, e, g2⟩ | ⟨n, k, g1, g2, g3⟩
    · rw [g1, g2, error_bind, error_bind]; exact ⟨_, rfl⟩
    · rw [g1, g2, ok_bind, ok_bind]
      simp only []
      rw [show (((c + 8 : Nat) : Int) + (k : Int)) = ((c + 8 + k : Nat) : Int) by omega, unpackFromS_nat]
      have hck := g3
      rcases takeN_drop raw (c + 8 + k) n hck with ⟨f1, f2⟩ | ⟨f1, f2, f3⟩
      · rw [f1, f2, error_bind, error_bind]; exact ⟨_, rfl⟩
      · rw [f1, f2, ok_bind, ok_bind, gen_script_from_raw, ok_bind]
        refine ⟨c + 8 + k + n, ?_, rfl, f3⟩
        simp only [pure, Except.pure, outPy, List.drop_zero, List.take_take, Nat.min_self]
        rw [show (((c + 8 + k : Nat) : Int) + (n : Int)) = ((c + 8 + k + n : Nat) : Int) by omega]

theorem zero32_lit : ([0, 0, 0, 0, 0, 0, 0, 0, 0, 0, 0, 0, 0, 0, 0, 0, 0, 0, 0, 0, 0, 0, 0, 0, 0, 0, 0, 0, 0, 0, 0, 0] : Bytes) = zero32 := by
  decide

theorem txin_sim (T : Tables) (raw : Bytes) (hlen : raw.length < 2 ^ 63) (c : Nat) (hc : c ≤ raw.length) (seg : Bool) :
    Sim (Inside raw) inPy raw (TxIn.parse T seg (raw.drop c)) (Gen.txinput_from_raw T.codeOps raw (c : Int) seg) := by
  unfold Gen.txinput_from_raw TxIn.parse Sim
  simp only []
  rcases takeN_drop raw c 36 hc with ⟨h1, h2⟩ | ⟨h1, h2, h3⟩
  · -- fewer than 36 bytes: the model fails at the hash or at the index
    rw [h2, error_bind]
    have hm : (raw.drop c).length < 36 := by
      unfold takeN at h1
      by_cases h : (raw.drop c).length < 36
      · exact h
      · simp only [h, if_false] at h1; cases h1
    rcases takeN_drop raw c 32 hc with ⟨a1, _⟩ | ⟨a1, _, a3⟩
    · rw [a1, error_bind]; exact ⟨_, rfl⟩
    · rw [a1, ok_bind]
      simp only []
      rcases takeN_drop raw (c + 32) 4 a3 with ⟨b1, _⟩ | ⟨_, _, b3⟩
      · rw [b1, error_bind]; exact ⟨_, rfl⟩
      · rw [List.length_drop] at hm; omega
  · have a3 : c + 32 ≤ raw.length := by omega
    rcases takeN_drop raw c 32 hc with ⟨a1, _⟩ | ⟨a1, _, _⟩
    · unfold takeN at a1
      rw [List.length_drop] at a1
      simp only [show ¬ (raw.length - c < 32) by omega, if_false] at a1
      cases a1
    rcases takeN_drop raw (c + 32) 4 a3 with ⟨b1, _⟩ | ⟨b1, _, _⟩
    · unfold takeN at b1
      rw [List.length_drop] at b1
      simp only [show ¬ (raw.length - (c + 32) < 4) by omega, if_false] at b1
      cases b1
    rw [a1, ok_bind]
    simp only []
    rw [b1, ok_bind, h2, ok_bind]
    simp only []
    rw [show ((c : Int) + 36) = ((c + 32 + 4 : Nat) : Int) by omega]
    rcases parseCS_drop raw (c + 32 + 4) hlen with ⟨g1, e, g2⟩ | ⟨n, k, g1, g2, g3⟩
    · rw [g1, g2, error_bind, error_bind]; exact ⟨_, rfl⟩
    · rw [g1, g2, ok_bind, ok_bind]
      simp only []
      rw [show (((c + 32 + 4 : Nat) : Int) + (k : Int)) = ((c + 32 + 4 + k : Nat) : Int) by omega, unpackFromS_nat]
      have hck := g3
      rcases takeN_drop raw (c + 32 + 4 + k) n hck with ⟨f1, f2⟩ | ⟨f1, f2, f3⟩
      · rw [f1, f2, error_bind, error_bind]; exact ⟨_, rfl⟩
      · rw [f1, f2, ok_bind, ok_bind]
        simp only []
        rw [show (((c + 32 + 4 + k : Nat) : Int) + (n : Int)) = ((c + 32 + 4 + k + n : Nat) : Int) by omega]
        rcases takeN_drop raw (c + 32 + 4 + k + n) 4 f3 with ⟨s1, s2⟩ | ⟨s1, s2, s3⟩
        · rw [s1, s2, error_bind, error_bind]; exact ⟨_, rfl⟩
        · rw [s1, s2, ok_bind, ok_bind]
          have e1 : List.take 32 (List.drop 0 (List.take 36 (List.drop c raw))) = List.take 32 (List.drop c raw) := by
            simp [List.take_take]
          have e2 : List.take 4 (List.drop 32 (List.take 36 (List.drop c raw))) = List.take 4 (List.drop (c + 32) raw) := by
            rw [List.drop_take, List.take_take, List.drop_drop]; simp
          have e3 : List.take 4 (List.drop 0 (List.take 4 (List.drop (c + 32 + 4 + k + n) raw))) =
              List.take 4 (List.drop (c + 32 + 4 + k + n) raw) := by simp [List.take_take]
          rw [e1, e2, e3, zero32_lit, gen_script_from_raw]
          refine ⟨c + 32 + 4 + k + n + 4, ?_, rfl, s3⟩
          rw [show (((c + 32 + 4 + k + n : Nat) : Int) + 4) = ((c + 32 + 4 + k + n + 4 : Nat) : Int) by omega]
          by_cases hz : (List.take 32 (List.drop c raw)).reverse = zero32
          · simp only [hz, beq_self_eq_true, if_true, pure, Except.pure, inPy, List.map_cons, List.map_nil, toPy]
          · have hb : ((List.take 32 (List.drop c raw)).reverse == zero32) = false := by simpa using hz
            simp only [hz, hb, Bool.false_eq_true, if_false, pure, Except.pure, inPy, ok_bind]

/-! ## loops whose count comes from the data -/

/-- a counting loop whose body parses one item at the cursor and appends it, against `parseMany` -/
theorem loop_sim {α β γ σ ι : Type} (I : Nat → Prop) (f : α → β) (raw : Bytes) (p : Bytes → Except PyErr (α × Bytes))
    (g : σ → Except PyErr γ) (val : γ → β) (nxt : γ → Int) (cur : σ → Int) (acc : σ → List β) (mk : γ → σ → σ)
    (hcur : ∀ t s, cur (mk t s) = nxt t) (hacc : ∀ t s, acc (mk t s) = acc s ++ [val t])
    (hsim : ∀ s (c : Nat), cur s = (c : Int) → I c → Sim I f raw (p (raw.drop c)) ((g s).map fun t => (val t, nxt t)))
    (b : ι → σ → Except PyErr (ForInStep σ))
    (hb : ∀ k s, b k s = g s >>= fun t => (pure (ForInStep.yield (mk t s)) : Except PyErr (ForInStep σ)))
    (l : List ι) (s : σ) (c : Nat) (hc : cur s = (c : Int)) (hI : I c) :
    match parseMany p l.length (raw.drop c) with
    | .ok (xs, rest) => ∃ (s' : σ) (c' : Nat), forIn l s b = .ok s' ∧ cur s' = (c' : Int) ∧ acc s' = acc s ++ xs.map f ∧
        rest = raw.drop c' ∧ I c'
    | .error _ => ∃ e, forIn l s b = .error e := by
  induction l generalizing s c with
  | nil => exact ⟨s, c, rfl, hc, by simp, rfl, hI⟩
  | cons k l ih =>
    rw [List.length_cons, parseMany, List.forIn_cons, hb]
    have h1 := hsim s c hc hI
    unfold Sim at h1
    cases hp : p (raw.drop c) with
    | error e =>
      rw [hp] at h1
      obtain ⟨e', he'⟩ := h1
      cases hg : g s with
      | error e2 => rw [error_bind, error_bind, error_bind]; exact ⟨_, rfl⟩
      | ok t => rw [hg] at he'; cases he'
    | ok xr =>
      obtain ⟨x, rest⟩ := xr
      rw [hp] at h1
      obtain ⟨c1, hg1, hrest, hI1⟩ := h1
      cases hg : g s with
      | error e2 => rw [hg] at hg1; cases hg1
      | ok t =>
        rw [hg] at hg1
        have hv : val t = f x ∧ nxt t = (c1 : Int) := by
          have := Except.ok.inj hg1
          simp only [Prod.mk.injEq] at this
          exact this
        rw [ok_bind, ok_bind, pure_eq_ok, ok_bind]
        simp only []
        have ih' := ih (mk t s) c1 (by rw [hcur, hv.2]) hI1
        rw [hrest]
        cases hm : parseMany p l.length (raw.drop c1) with
        | error e3 =>
          rw [hm] at ih'
          obtain ⟨e4, he4⟩ := ih'
          rw [error_bind]
          exact ⟨e4, he4⟩
        | ok r =>
          obtain ⟨xs, rest'⟩ := r
          rw [hm] at ih'
          obtain ⟨s', c', h1', h2', h3', h4', h5'⟩ := ih'
          rw [ok_bind]
          refine ⟨s', c', h1', h2', ?_, h4', h5'⟩
          rw [h3', hacc, hv.1]
          simp [List.append_assoc]

/-- … for the ranges `for _ in range(n)` is translated to -/
theorem range_sim {α β γ σ : Type} (I : Nat → Prop) (f : α → β) (raw : Bytes) (p : Bytes → Except PyErr (α × Bytes))
    (g : σ → Except PyErr γ) (val : γ → β) (nxt : γ → Int) (cur : σ → Int) (acc : σ → List β) (mk : γ → σ → σ)
    (hcur : ∀ t s, cur (mk t s) = nxt t) (hacc : ∀ t s, acc (mk t s) = acc s ++ [val t])
    (hsim : ∀ s (c : Nat), cur s = (c : Int) → I c → Sim I f raw (p (raw.drop c)) ((g s).map fun t => (val t, nxt t)))
    (b : Nat → σ → Except PyErr (ForInStep σ))
    (hb : ∀ k s, b k s = g s >>= fun t => (pure (ForInStep.yield (mk t s)) : Except PyErr (ForInStep σ)))
    (n : Nat) (s : σ) (c : Nat) (hc : cur s = (c : Int)) (hI : I c) :
    match parseMany p n (raw.drop c) with
    | .ok (xs, rest) => ∃ (s' : σ) (c' : Nat), forIn [:n] s b = .ok s' ∧ cur s' = (c' : Int) ∧ acc s' = acc s ++ xs.map f ∧
        rest = raw.drop c' ∧ I c'
    | .error _ => ∃ e, forIn [:n] s b = .error e := by
  rw [Std.Legacy.Range.forIn_eq_forIn_range']
  have e : (List.range' (0 : Nat) (([:n] : Std.Legacy.Range)).size 1).length = n := by
    simp [Std.Legacy.Range.size]
  have := loop_sim I f raw p g val nxt cur acc mk hcur hacc hsim b hb (List.range' (0 : Nat) (([:n] : Std.Legacy.Range)).size 1) s c hc hI
  rw [e] at this
  exact this

theorem map_eta {β : Type} (x : Except PyErr (β × Int)) : (x.map fun t => (t.1, t.2)) = x := by
  cases x <;> rfl

/-- the loop over the inputs -/
theorem inputs_loop (T : Tables) (raw : Bytes) (hlen : raw.length < 2 ^ 63) (seg : Bool) (n : Nat) (j : Py.PyTxIn) (c : Nat)
    (hc : c ≤ raw.length) :
    match parseMany (TxIn.parse T seg) n (raw.drop c) with
    | .ok (xs, rest) => ∃ (s' : Py.PyTxIn × Int × List Py.PyTxIn) (c' : Nat),
        (forIn [:n] (j, (c : Int), ([] : List Py.PyTxIn)) fun (__ : Nat) (__s : Py.PyTxIn × Int × List Py.PyTxIn) => do
          let t2 ← Gen.txinput_from_raw T.codeOps raw __s.snd.fst seg
          (pure (ForInStep.yield (t2.fst, t2.snd, __s.snd.snd ++ [t2.fst])) : Except PyErr (ForInStep (Py.PyTxIn × Int × List Py.PyTxIn)))) = .ok s' ∧
        s'.2.1 = (c' : Int) ∧ s'.2.2 = xs.map inPy ∧ rest = raw.drop c' ∧ c' ≤ raw.length
    | .error _ => ∃ e,
        (forIn [:n] (j, (c : Int), ([] : List Py.PyTxIn)) fun (__ : Nat) (__s : Py.PyTxIn × Int × List Py.PyTxIn) => do
          let t2 ← Gen.txinput_from_raw T.codeOps raw __s.snd.fst seg
          (pure (ForInStep.yield (t2.fst, t2.snd, __s.snd.snd ++ [t2.fst])) : Except PyErr (ForInStep (Py.PyTxIn × Int × List Py.PyTxIn)))) = .error e := by
  have := range_sim (Inside raw) inPy raw (TxIn.parse T seg)
    (fun (s : Py.PyTxIn × Int × List Py.PyTxIn) => Gen.txinput_from_raw T.codeOps raw s.2.1 seg) (·.1) (·.2) (·.2.1) (·.2.2)
    (fun t s => (t.1, t.2, s.2.2 ++ [t.1])) (fun _ _ => rfl) (fun _ _ => rfl)
    (fun s c hcs hI => by rw [map_eta]; show Sim _ _ _ _ (Gen.txinput_from_raw T.codeOps raw s.2.1 seg); rw [hcs]; exact txin_sim T raw hlen c hI seg)
    (fun (__ : Nat) (__s : Py.PyTxIn × Int × List Py.PyTxIn) => do
          let t2 ← Gen.txinput_from_raw T.codeOps raw __s.snd.fst seg
          (pure (ForInStep.yield (t2.fst, t2.snd, __s.snd.snd ++ [t2.fst])) : Except PyErr (ForInStep (Py.PyTxIn × Int × List Py.PyTxIn))))
    (fun _ _ => rfl) n (j, (c : Int), []) c rfl hc
  cases hm : parseMany (TxIn.parse T seg) n (raw.drop c) with
  | error e => rw [hm] at this; exact this
  | ok r =>
    obtain ⟨xs, rest⟩ := r
    rw [hm] at this
    obtain ⟨s', c', h1, h2, h3, h4, h5⟩ := this
    exact ⟨s', c', h1, h2, by simpa using h3, h4, h5⟩

/-- the loop over the outputs (cursor first in the state) -/
theorem outputs_loop (T : Tables) (raw : Bytes) (hlen : raw.length < 2 ^ 63) (seg : Bool) (n : Nat) (j : Py.PyTxOut) (c : Nat)
    (hc : c ≤ raw.length) :
    match parseMany (TxOut.parse T seg) n (raw.drop c) with
    | .ok (xs, rest) => ∃ (s' : Int × Py.PyTxOut × List Py.PyTxOut) (c' : Nat),
        (forIn [:n] ((c : Int), j, ([] : List Py.PyTxOut)) fun (__ : Nat) (__s : Int × Py.PyTxOut × List Py.PyTxOut) => do
          let t4 ← Gen.txoutput_from_raw T.codeOps raw __s.fst seg
          (pure (ForInStep.yield (t4.snd, t4.fst, __s.snd.snd ++ [t4.fst])) : Except PyErr (ForInStep (Int × Py.PyTxOut × List Py.PyTxOut)))) = .ok s' ∧
        s'.1 = (c' : Int) ∧ s'.2.2 = xs.map outPy ∧ rest = raw.drop c' ∧ c' ≤ raw.length
    | .error _ => ∃ e,
        (forIn [:n] ((c : Int), j, ([] : List Py.PyTxOut)) fun (__ : Nat) (__s : Int × Py.PyTxOut × List Py.PyTxOut) => do
          let t4 ← Gen.txoutput_from_raw T.codeOps raw __s.fst seg
          (pure (ForInStep.yield (t4.snd, t4.fst, __s.snd.snd ++ [t4.fst])) : Except PyErr (ForInStep (Int × Py.PyTxOut × List Py.PyTxOut)))) = .error e := by
  have := range_sim (Inside raw) outPy raw (TxOut.parse T seg)
    (fun (s : Int × Py.PyTxOut × List Py.PyTxOut) => Gen.txoutput_from_raw T.codeOps raw s.1 seg) (·.1) (·.2) (·.1) (·.2.2)
    (fun t s => (t.2, t.1, s.2.2 ++ [t.1])) (fun _ _ => rfl) (fun _ _ => rfl)
    (fun s c hcs hI => by rw [map_eta]; show Sim _ _ _ _ (Gen.txoutput_from_raw T.codeOps raw s.1 seg); rw [hcs]; exact txout_sim T raw hlen c hI seg)
    (fun (__ : Nat) (__s : Int × Py.PyTxOut × List Py.PyTxOut) => do
          let t4 ← Gen.txoutput_from_raw T.codeOps raw __s.fst seg
          (pure (ForInStep.yield (t4.snd, t4.fst, __s.snd.snd ++ [t4.fst])) : Except PyErr (ForInStep (Int × Py.PyTxOut × List Py.PyTxOut))))
    (fun _ _ => rfl) n ((c : Int), j, []) c rfl hc
  cases hm : parseMany (TxOut.parse T seg) n (raw.drop c) with
  | error e => rw [hm] at this; exact this
  | ok r =>
    obtain ⟨xs, rest⟩ := r
    rw [hm] at this
    obtain ⟨s', c', h1, h2, h3, h4, h5⟩ := this
    exact ⟨s', c', h1, h2, by simpa using h3, h4, h5⟩

/-! ### witnesses -/

abbrev ItemSt := Int × Int × List Bytes × Int × Bytes

/-- one witness item at the cursor of the state: the item, the new cursor, and the two scratch values -/
def itemG (raw : Bytes) (s : ItemSt) : Except PyErr (Bytes × Int × Int × Int) := do
  let t6 ← Gen.parse_compact_size (Py.slice raw s.2.1 Py.slEnd)
  pure (Py.slice raw (s.2.1 + t6.2) (s.2.1 + t6.2 + t6.1), s.2.1 + t6.2 + t6.1, t6.1, t6.2)

def itemBody (raw : Bytes) (__ : Nat) (__s : ItemSt) : Except PyErr (ForInStep ItemSt) := do
  let t6 ← Gen.parse_compact_size (Py.slice raw __s.snd.fst Py.slEnd)
  pure (ForInStep.yield
    (t6.snd, __s.snd.fst + t6.snd + t6.fst,
      __s.snd.snd.fst ++ [Py.slice raw (__s.snd.fst + t6.snd) (__s.snd.fst + t6.snd + t6.fst)],
      t6.fst, Py.slice raw (__s.snd.fst + t6.snd) (__s.snd.fst + t6.snd + t6.fst)))

theorem item_sim (raw : Bytes) (hlen : raw.length < 2 ^ 63) (s : ItemSt) (c : Nat) (hc : s.2.1 = (c : Int)) :
    Sim (fun _ => True) id raw (parseItem (raw.drop c)) ((itemG raw s).map fun t => (t.1, t.2.1)) := by
  unfold itemG parseItem Sim
  rw [hc]
  rcases parseCS_drop raw c hlen with ⟨g1, e, g2⟩ | ⟨n, k, g1, g2, _⟩
  · rw [g1, g2, error_bind, error_bind]; exact ⟨_, rfl⟩
  · rw [g1, g2, ok_bind, ok_bind]
    simp only []
    refine ⟨c + k + n, ?_, by simp [List.drop_drop], trivial⟩
    rw [show ((c : Int) + (k : Int)) = ((c + k : Nat) : Int) by omega, C02Gen.slice_nat,
      show (((c + k : Nat) : Int) + (n : Int)) = ((c + k + n : Nat) : Int) by omega]
    rfl

theorem items_loop (raw : Bytes) (hlen : raw.length < 2 ^ 63) (n : Nat) (s : ItemSt) (c : Nat) (hc : s.2.1 = (c : Int)) :
    match parseMany parseItem n (raw.drop c) with
    | .ok (xs, rest) => ∃ (s' : ItemSt) (c' : Nat), forIn [:n] s (itemBody raw) = .ok s' ∧ s'.2.1 = (c' : Int) ∧
        s'.2.2.1 = s.2.2.1 ++ xs ∧ rest = raw.drop c'
    | .error _ => ∃ e, forIn [:n] s (itemBody raw) = .error e := by
  have := range_sim (fun _ => True) id raw parseItem (itemG raw) (·.1) (·.2.1) (fun (s : ItemSt) => s.2.1) (fun (s : ItemSt) => s.2.2.1)
    (fun t s => (t.2.2.2, t.2.1, s.2.2.1 ++ [t.1], t.2.2.1, t.1)) (fun _ _ => rfl) (fun _ _ => rfl)
    (fun s c hcs _ => item_sim raw hlen s c hcs)
    (itemBody raw)
    (fun k s => by unfold itemBody itemG; simp only [bind_assoc, pure_bind])
    n s c hc trivial
  cases hm : parseMany parseItem n (raw.drop c) with
  | error e => rw [hm] at this; exact this
  | ok r =>
    obtain ⟨xs, rest⟩ := r
    rw [hm] at this
    obtain ⟨s', c', h1, h2, h3, h4, _⟩ := this
    exact ⟨s', c', h1, h2, by simpa using h3, h4⟩

abbrev StackSt := Int × Int × Int × List Bytes × Int × Bytes × List Py.PyWit

def stackG (raw : Bytes) (s : StackSt) : Except PyErr (ItemSt × Int) := do
  let t5 ← Gen.parse_compact_size (Py.slice raw s.2.1 Py.slEnd)
  let inner ← forIn [:t5.1.toNat] ((t5.2, s.2.1 + t5.2, [], s.2.2.2.2.1, s.2.2.2.2.2.1) : ItemSt) (itemBody raw)
  pure (inner, t5.1)

def stackBody (raw : Bytes) (__ : Nat) (__s : StackSt) : Except PyErr (ForInStep StackSt) := do
  let t5 ← Gen.parse_compact_size (Py.slice raw __s.snd.fst Py.slEnd)
  let __s_2 ← forIn [:t5.fst.toNat]
      ((t5.snd, __s.snd.fst + t5.snd, [], __s.snd.snd.snd.snd.fst, __s.snd.snd.snd.snd.snd.fst) : ItemSt) (itemBody raw)
  pure (ForInStep.yield
    (__s_2.fst, __s_2.snd.fst, t5.fst, __s_2.snd.snd.fst, __s_2.snd.snd.snd.fst, __s_2.snd.snd.snd.snd,
      __s.snd.snd.snd.snd.snd.snd ++ [({ stack := __s_2.snd.snd.fst } : Py.PyWit)]))

theorem stack_sim (raw : Bytes) (hlen : raw.length < 2 ^ 63) (s : StackSt) (c : Nat) (hc : s.2.1 = (c : Int)) :
    Sim (fun _ => True) Py.PyWit.mk raw (parseStack (raw.drop c))
      ((stackG raw s).map fun t => (({ stack := t.1.2.2.1 } : Py.PyWit), t.1.2.1)) := by
  unfold stackG parseStack Sim
  rw [hc]
  rcases parseCS_drop raw c hlen with ⟨g1, e, g2⟩ | ⟨n, k, g1, g2, _⟩
  · rw [g1, g2, error_bind, error_bind]; exact ⟨_, rfl⟩
  · rw [g1, g2, ok_bind, ok_bind]
    simp only [Int.toNat_natCast]
    have hl := items_loop raw hlen n ((k : Int), (c : Int) + (k : Int), [], s.2.2.2.2.1, s.2.2.2.2.2.1) (c + k)
      (by show ((c : Int) + (k : Int)) = ((c + k : Nat) : Int); omega)
    cases hm : parseMany parseItem n (raw.drop (c + k)) with
    | error e =>
      rw [hm] at hl
      obtain ⟨e', he'⟩ := hl
      rw [he', error_bind]
      exact ⟨_, rfl⟩
    | ok r =>
      obtain ⟨xs, rest⟩ := r
      rw [hm] at hl
      obtain ⟨s', c', h1, h2, h3, h4⟩ := hl
      rw [h1, ok_bind]
      refine ⟨c', ?_, h4, trivial⟩
      simp only [Except.map, pure, Except.pure, h2]
      simp only [List.nil_append] at h3
      rw [h3]

theorem stacks_loop (raw : Bytes) (hlen : raw.length < 2 ^ 63) (n : Nat) (s : StackSt) (c : Nat) (hc : s.2.1 = (c : Int)) :
    match parseMany parseStack n (raw.drop c) with
    | .ok (xs, rest) => ∃ (s' : StackSt) (c' : Nat), forIn [:n] s (stackBody raw) = .ok s' ∧ s'.2.1 = (c' : Int) ∧
        s'.2.2.2.2.2.2 = s.2.2.2.2.2.2 ++ xs.map Py.PyWit.mk ∧ rest = raw.drop c'
    | .error _ => ∃ e, forIn [:n] s (stackBody raw) = .error e := by
  have := range_sim (fun _ => True) Py.PyWit.mk raw parseStack (stackG raw)
    (fun t => ({ stack := t.1.2.2.1 } : Py.PyWit)) (fun t => t.1.2.1)
    (fun (s : StackSt) => s.2.1) (fun (s : StackSt) => s.2.2.2.2.2.2)
    (fun t s => (t.1.1, t.1.2.1, t.2, t.1.2.2.1, t.1.2.2.2.1, t.1.2.2.2.2, s.2.2.2.2.2.2 ++ [({ stack := t.1.2.2.1 } : Py.PyWit)]))
    (fun _ _ => rfl) (fun _ _ => rfl)
    (fun s c hcs _ => stack_sim raw hlen s c hcs)
    (stackBody raw)
    (fun k s => by unfold stackBody stackG; simp only [bind_assoc, pure_bind])
    n s c hc trivial
  cases hm : parseMany parseStack n (raw.drop c) with
  | error e => rw [hm] at this; exact this
  | ok r =>
    obtain ⟨xs, rest⟩ := r
    rw [hm] at this
    obtain ⟨s', c', h1, h2, h3, h4, _⟩ := this
    exact ⟨s', c', h1, h2, h3, h4⟩

/-! ## the transaction -/

/-- a transaction of the model as the Python object `Transaction.from_raw` builds -/
def txPy (t : Tx) : Py.PyTx :=
  ⟨t.inputs.map inPy, t.outputs.map outPy, t.locktime, t.version, t.hasSegwit, t.witnesses.map Py.PyWit.mk⟩

theorem gen_transaction_from_raw (T : Tables) (raw : Bytes) (hlen : raw.length < 2 ^ 63) :
    match Tx.parse T raw with
    | .ok t => Gen.transaction_from_raw T.codeOps raw = .ok (txPy t)
    | .error _ => ∃ e, Gen.transaction_from_raw T.codeOps raw = .error e := by
  unfold Gen.transaction_from_raw Tx.parse
  simp only []
  rw [show Py.slice raw (4 : Int) ((4 : Int) + 2) = (raw.drop 4).take 2 from C02Gen.slice_nat raw 4 2]
  by_cases hseg : ((raw.drop 4).take 2 == [0x00, 0x01]) = true
  · simp only [hseg, if_true]
    rw [List.drop_drop, show ((4 : Int) + 2) = ((4 + 2 : Nat) : Int) from rfl]
    rcases parseCS_drop raw (4 + 2) hlen with ⟨g1, e, g2⟩ | ⟨nin, k, g1, g2, g3⟩
    · rw [g1, g2, error_bind, error_bind]; exact ⟨_, rfl⟩
    · rw [g1, g2, ok_bind, ok_bind]
      simp only [Int.toNat_natCast]
      rw [show (((4 + 2 : Nat) : Int) + (k : Int)) = ((4 + 2 + k : Nat) : Int) by omega]
      have hl := inputs_loop T raw hlen true nin default (4 + 2 + k) g3
      cases hm : parseMany (TxIn.parse T true) nin (raw.drop (4 + 2 + k)) with
      | error e =>
        rw [hm] at hl
        obtain ⟨e', he'⟩ := hl
        rw [he', error_bind, error_bind]; exact ⟨_, rfl⟩
      | ok r =>
        obtain ⟨ins, rest⟩ := r
        rw [hm] at hl
        obtain ⟨s1, c1, h1, h2, h3, h4, h5⟩ := hl
        rw [h1, ok_bind, ok_bind]
        simp only []
        rw [h2, h4]
        rcases parseCS_drop raw c1 hlen with ⟨p1, e, p2⟩ | ⟨nout, k2, p1, p2, p3⟩
        · rw [p1, p2, error_bind, error_bind]; exact ⟨_, rfl⟩
        · rw [p1, p2, ok_bind, ok_bind]
          simp only [Int.toNat_natCast]
          rw [show ((c1 : Int) + (k2 : Int)) = ((c1 + k2 : Nat) : Int) by omega]
          have hl2 := outputs_loop T raw hlen true nout default (c1 + k2) p3
          cases hm2 : parseMany (TxOut.parse T true) nout (raw.drop (c1 + k2)) with
          | error e =>
            rw [hm2] at hl2
            obtain ⟨e', he'⟩ := hl2
            rw [he', error_bind, error_bind]; exact ⟨_, rfl⟩
          | ok r2 =>
            obtain ⟨outs, rest2⟩ := r2
            rw [hm2] at hl2
            obtain ⟨s2, c2, q1, q2, q3, q4, q5⟩ := hl2
            rw [q1, ok_bind, ok_bind]
            simp only []
            rw [q2, q4]
            have hl3 := stacks_loop raw hlen nin ((k2 : Int), (c2 : Int), 0, [], 0, [], []) c2 rfl
            unfold stackBody itemBody at hl3
            cases hm3 : parseMany parseStack nin (raw.drop c2) with
            | error e =>
              rw [hm3] at hl3
              obtain ⟨e', he'⟩ := hl3
              rw [he', error_bind, error_bind]; exact ⟨_, rfl⟩
            | ok r3 =>
              obtain ⟨wits, rest3⟩ := r3
              rw [hm3] at hl3
              obtain ⟨s3, c3, w1, w2, w3, w4⟩ := hl3
              rw [w1, ok_bind, ok_bind]
              simp only [pure, Except.pure]
              rw [w2, w3, w4, h3, q3, show ((c3 : Int) + 4) = ((c3 : Int) + ((4 : Nat) : Int)) from rfl, C02Gen.slice_nat raw c3 4,
                show Py.slice raw (0 : Int) (4 : Int) = raw.take 4 from (C02Gen.slice_nat raw 0 4)]
              simp only [List.nil_append]
              rfl
  · have hseg' : ((raw.drop 4).take 2 == [0x00, 0x01]) = false := by simpa using hseg
    simp only [hseg', Bool.false_eq_true, if_false]
    rw [show (4 : Int) = ((4 : Nat) : Int) from rfl]
    rcases parseCS_drop raw 4 hlen with ⟨g1, e, g2⟩ | ⟨nin, k, g1, g2, g3⟩
    · rw [g1, g2, error_bind, error_bind]; exact ⟨_, rfl⟩
    · rw [g1, g2, ok_bind, ok_bind]
      simp only [Int.toNat_natCast]
      rw [show (((4 : Nat) : Int) + (k : Int)) = ((4 + k : Nat) : Int) by omega]
      have hl := inputs_loop T raw hlen false nin default (4 + k) g3
      cases hm : parseMany (TxIn.parse T false) nin (raw.drop (4 + k)) with
      | error e =>
        rw [hm] at hl
        obtain ⟨e', he'⟩ := hl
        rw [he', error_bind, error_bind]; exact ⟨_, rfl⟩
      | ok r =>
        obtain ⟨ins, rest⟩ := r
        rw [hm] at hl
        obtain ⟨s1, c1, h1, h2, h3, h4, h5⟩ := hl
        rw [h1, ok_bind, ok_bind]
        simp only []
        rw [h2, h4]
        rcases parseCS_drop raw c1 hlen with ⟨p1, e, p2⟩ | ⟨nout, k2, p1, p2, p3⟩
        · rw [p1, p2, error_bind, error_bind]; exact ⟨_, rfl⟩
        · rw [p1, p2, ok_bind, ok_bind]
          simp only [Int.toNat_natCast]
          rw [show ((c1 : Int) + (k2 : Int)) = ((c1 + k2 : Nat) : Int) by omega]
          have hl2 := outputs_loop T raw hlen false nout default (c1 + k2) p3
          cases hm2 : parseMany (TxOut.parse T false) nout (raw.drop (c1 + k2)) with
          | error e =>
            rw [hm2] at hl2
            obtain ⟨e', he'⟩ := hl2
            rw [he', error_bind, error_bind]; exact ⟨_, rfl⟩
          | ok r2 =>
            obtain ⟨outs, rest2⟩ := r2
            rw [hm2] at hl2
            obtain ⟨s2, c2, q1, q2, q3, q4, q5⟩ := hl2
            rw [q1, ok_bind, ok_bind]
            simp only [pure, Except.pure, ok_bind]
            rw [q2, q4, h3, q3, C02Gen.slice_nat raw c2 4,
              show Py.slice raw (0 : Int) ((4 : Nat) : Int) = raw.take 4 from (C02Gen.slice_nat raw 0 4)]
            rfl

/-- whenever the model parser accepts, the translated `Transaction.from_raw` returns the same transaction -/
theorem gen_from_raw_ok (T : Tables) (raw : Bytes) (hlen : raw.length < 2 ^ 63) (t : Tx) (h : Tx.parse T raw = .ok t) :
    Gen.transaction_from_raw T.codeOps raw = .ok (txPy t) := by
  have := gen_transaction_from_raw T raw hlen
  rw [h] at this
  exact this

/-- whatever the model parser rejects (truncated or otherwise malformed data), the translated `Transaction.from_raw` raises on -/
theorem gen_from_raw_rejects (T : Tables) (raw : Bytes) (hlen : raw.length < 2 ^ 63) (e : PyErr) (h : Tx.parse T raw = .error e) :
    ∃ e', Gen.transaction_from_raw T.codeOps raw = .error e' := by
  have := gen_transaction_from_raw T raw hlen
  rw [h] at this
  exact this

/-- **parse ∘ encode, end to end**: the translated `Transaction.from_raw`, run with the generated opcode dictionary on the
serialisation of any well-formed transaction (coinbase, legacy, segwit, mixed, any counts), returns a transaction that renders
the original's fields and that serialises back to the very same bytes -/
theorem gen_parse_encode (t : Tx) (h : C01.WFTx C02.genTables t = true) (bs : Bytes)
    (hb : t.toBytes C02.genTables t.hasSegwit = .ok bs) (hlen : bs.length < 2 ^ 63) :
    ∃ t', Gen.transaction_from_raw Gen.CODE_OPS bs = .ok (txPy t') ∧ C01.txRenders t t' = true ∧
      t'.toBytes C02.genTables t'.hasSegwit = .ok bs := by
  obtain ⟨t1, p1, r1⟩ := C01.parse_encode C02.genTables C02.tables_ok t h bs hb
  obtain ⟨t2, p2, r2⟩ := C01.reencode C02.genTables C02.tables_ok t h bs hb
  have : t1 = t2 := by rw [p1] at p2; exact Except.ok.inj p2
  subst this
  exact ⟨t1, gen_from_raw_ok C02.genTables bs hlen t1 p1, r1, r2⟩

end C01GenParse
