import BU.Properties.C11_GenAddr
import BU.Proofs.GenPub
import BU.Properties.C10_GenPub
import BU.Properties.C12_Gen
/-!
# C11, continuation — `SegwitAddress.__init__` and `PublicKey.get_segwit_address` as *generated* code (tier T)

The constructor every P2WPKH / P2WSH / P2TR object runs — class string → numeric witness version, then `witness_program` (if given and
non-empty) wins over `address`, which goes through `_address_to_hash` with that version — is re-translated from the working tree on
every run (called with `script=None`; the result is the pair (numeric version, program stored)).  `P2wpkhAddress.__init__` is checked to
only forward its arguments with the class constant, and `get_segwit_address` builds the object from HASH160 of the compressed key.
-/
namespace C11GenInit
open Py Model Model.Bech32 C11GenTop C11GenAddr GenPub

/-- the numeric witness version of a class string -/
def numVersion (vs : String) : Option Nat :=
  if vs = "p2wpkhv0" ∨ vs = "p2wshv0" then some 0 else if vs = "p2trv1" then some 1 else none

theorem ver_cases (vs : String) (ver : Nat) (h : numVersion vs = some ver) :
    ((vs == "p2wpkhv0" || vs == "p2wshv0") = true ∧ ver = 0) ∨
    ((vs == "p2wpkhv0" || vs == "p2wshv0") = false ∧ (vs == "p2trv1") = true ∧ ver = 1) := by
  unfold numVersion at h
  by_cases h0 : vs = "p2wpkhv0" ∨ vs = "p2wshv0"
  · rw [if_pos h0] at h
    left
    refine ⟨by simpa using h0, (Option.some.inj h).symm⟩
  · rw [if_neg h0] at h
    by_cases h1 : vs = "p2trv1"
    · rw [if_pos h1] at h
      right
      refine ⟨by simpa using h0, by simpa using h1, (Option.some.inj h).symm⟩
    · rw [if_neg h1] at h; cases h

/-- a non-empty witness program is stored as it is, under the numeric version of the class -/
theorem gen_segwit_init_program (hrp : List Char) (addr : Option (List Char)) (prog : Bytes) (hp : prog ≠ []) (vs : String) (ver : Nat)
    (hv : numVersion vs = some ver) :
    Gen.segwit_init hrp addr (some prog) vs = .ok ((ver : Int), prog) := by
  unfold Gen.segwit_init
  have hne : (!(List.isEmpty prog)) = true := by
    cases prog with
    | nil => exact absurd rfl hp
    | cons a t => rfl
  rcases ver_cases vs ver hv with ⟨c1, rfl⟩ | ⟨c1, c2, rfl⟩
  · simp only [c1, if_true, hne, Py.unwrap, ok_bind_p]; rfl
  · simp only [c1, Bool.false_eq_true, if_false, c2, if_true, hne, Py.unwrap, ok_bind_p]; rfl

/-- without a (non-empty) witness program a non-empty address goes through the translated `_address_to_hash` with the class's version -/
theorem gen_segwit_init_address (hrp addr : List Char) (ha : addr ≠ []) (prog : Option Bytes) (hp : prog = none ∨ prog = some [])
    (vs : String) (ver : Nat) (hv : numVersion vs = some ver) :
    Gen.segwit_init hrp (some addr) prog vs = (Gen.segwit_address_to_hash hrp (ver : Int) addr).map (fun p => ((ver : Int), p)) := by
  have hne : (!(List.isEmpty addr)) = true := by
    cases addr with
    | nil => exact absurd rfl ha
    | cons a t => rfl
  rcases hp with rfl | rfl <;> unfold Gen.segwit_init <;>
    rcases ver_cases vs ver hv with ⟨c1, rfl⟩ | ⟨c1, c2, rfl⟩
  · simp only [c1, if_true, Bool.false_eq_true, if_false, hne, Py.unwrap, ok_bind_p]
    cases Gen.segwit_address_to_hash hrp ((0 : Nat) : Int) addr <;> rfl
  · simp only [c1, Bool.false_eq_true, if_false, c2, if_true, hne, Py.unwrap, ok_bind_p]
    cases Gen.segwit_address_to_hash hrp ((1 : Nat) : Int) addr <;> rfl
  · simp only [c1, if_true, List.isEmpty_nil, Bool.not_true, Bool.false_eq_true, if_false, hne, Py.unwrap, ok_bind_p]
    cases Gen.segwit_address_to_hash hrp ((0 : Nat) : Int) addr <;> rfl
  · simp only [c1, Bool.false_eq_true, if_false, c2, if_true, List.isEmpty_nil, Bool.not_true, hne, Py.unwrap, ok_bind_p]
    cases Gen.segwit_address_to_hash hrp ((1 : Nat) : Int) addr <;> rfl

/-- an unknown class string, or neither a program nor an address: TypeError -/
theorem gen_segwit_init_rejects (hrp : List Char) (addr : Option (List Char)) (prog : Option Bytes) (vs : String) :
    (numVersion vs = none → Gen.segwit_init hrp addr prog vs = .error .typeError) ∧
    (∀ ver, numVersion vs = some ver → (prog = none ∨ prog = some []) → (addr = none ∨ addr = some []) →
      Gen.segwit_init hrp addr prog vs = .error .typeError) := by
  constructor
  · intro h
    unfold numVersion at h
    by_cases h0 : vs = "p2wpkhv0" ∨ vs = "p2wshv0"
    · rw [if_pos h0] at h; cases h
    · rw [if_neg h0] at h
      by_cases h1 : vs = "p2trv1"
      · rw [if_pos h1] at h; cases h
      · unfold Gen.segwit_init
        have c1 : (vs == "p2wpkhv0" || vs == "p2wshv0") = false := by simpa using h0
        have c2 : (vs == "p2trv1") = false := by simpa using h1
        simp only [c1, Bool.false_eq_true, if_false, c2]
        rfl
  · intro ver hv hp ha
    rcases hp with rfl | rfl <;> rcases ha with rfl | rfl <;> unfold Gen.segwit_init <;>
      rcases ver_cases vs ver hv with ⟨c1, rfl⟩ | ⟨c1, c2, rfl⟩
    all_goals (simp only [*, if_true, List.isEmpty_nil, Bool.not_true, Bool.false_eq_true, if_false]; rfl)

/-- **objects re-created from their own address string hold the identical program** (translated constructor, translated `to_string`):
P2WPKH / P2WSH (version 0, 20 / 32 bytes) and P2TR (version 1, 32 bytes), every generated network prefix -/
theorem gen_segwit_recreate (hrp : String) (hh : hrp ∈ Gen.NETWORK_SEGWIT_PREFIXES.map (·.2)) (vs : String) (ver : Nat)
    (hv : numVersion vs = some ver) (prog : Bytes) (hvp : C11.validProgram ver prog) :
    Gen.segwit_init hrp.toList none (some prog) vs = .ok ((ver : Int), prog) ∧
    ∃ s, Gen.segwit_to_string hrp.toList (ver : Int) prog = .ok (some s) ∧
      Gen.segwit_init hrp.toList (some s) none vs = .ok ((ver : Int), prog) := by
  have hpne : prog ≠ [] := by
    intro h; subst h
    rcases hvp with ⟨_, h | h⟩ | ⟨_, h⟩ <;> simp at h
  refine ⟨gen_segwit_init_program _ _ prog hpne vs ver hv, ?_⟩
  obtain ⟨s, h1, h2⟩ := gen_segwit_roundtrip hrp hh ver prog hvp
  refine ⟨s, h1, ?_⟩
  have hsne : s ≠ [] := by
    intro h; subst h
    rw [gen_segwit_address_to_hash] at h2
    have hb : bech32Decode specConsts [] = none := by decide +kernel
    have : decode specConsts hrp.toList [] = none := by unfold decode; rw [hb]
    rw [this] at h2; cases h2
  rw [gen_segwit_init_address _ s hsne none (Or.inl rfl) vs ver hv, h2]
  rfl

/-- `PublicKey.get_segwit_address`: the P2WPKH object of a key holds witness version 0 and HASH160 of the compressed SEC encoding -/
theorem gen_get_segwit_address (hrp : List Char) (sha256 : Bytes → Bytes) (hlen : ∀ b, (sha256 b).length < 2 ^ 61) (x y : Nat) :
    Gen.pubkey_get_segwit_address hrp sha256 (beBytes 32 x ++ beBytes 32 y) =
      .ok ((0 : Int), hash160 sha256 C20Gen.genTabs (pubToBytes (x, y) true)) := by
  unfold Gen.pubkey_get_segwit_address
  simp only [gen_pubkey_to_hash160 sha256 hlen x y true, okb]
  have hne : pubHash160 sha256 C20Gen.genTabs (x, y) true ≠ [] := by
    intro h
    have := C10GenPub.rmd_length C20Gen.genTabs (sha256 (pubToBytes (x, y) true))
    unfold pubHash160 hash160 at h
    rw [h] at this; cases this
  rw [gen_segwit_init_program hrp none _ hne "p2wpkhv0" 0 (by decide)]
  rfl

end C11GenInit

namespace C11GenInit
open Py Model Model.Bech32 C11GenTop

/-- `utils.is_address_bech32`, translated: the model predicate on every string -/
theorem gen_is_address_bech32 (s : String) : Gen.is_address_bech32 s.toList = .ok (isAddressBech32 specConsts s) := by
  unfold Gen.is_address_bech32 isAddressBech32
  by_cases he : s.toList = []
  · have : s.isEmpty = true := by
      rw [String.isEmpty_iff]
      exact String.toList_eq_nil_iff.mp he
    rw [he, this]; rfl
  · have h1 : s.isEmpty = false := by
      rw [Bool.eq_false_iff]
      intro h
      rw [String.isEmpty_iff] at h
      exact he (by rw [h]; rfl)
    have h2 : (!(!(s.toList).isEmpty)) = false := by
      cases hl : s.toList with
      | nil => exact absurd hl he
      | cons a t => rfl
    simp only [h1, h2, Bool.false_eq_true, if_false, gen_bech32_decode, ok_bind_p]
    cases bech32Decode specConsts s.toList with
    | none => rfl
    | some r => obtain ⟨a, b, c⟩ := r; rfl

/-- the predicate answers yes for every address the translated `to_string` renders for a valid program, and no for strings of mixed
case or without a valid bech32 / bech32m structure (in particular every Base58 address: it contains upper- and lower-case letters or
no separator) -/
theorem gen_predicate (hrp : String) (hh : hrp ∈ Gen.NETWORK_SEGWIT_PREFIXES.map (·.2)) (ver : Nat) (prog : Bytes)
    (hv : C11.validProgram ver prog) :
    (∀ s, segwitToString specConsts hrp ver prog = some s → Gen.is_address_bech32 s.toList = .ok true) ∧
    (∀ s : String, ((s.toList.map lowerC ≠ s.toList ∧ s.toList.map upperC ≠ s.toList) ∨ bech32Decode specConsts s.toList = none) →
      Gen.is_address_bech32 s.toList = .ok false) := by
  constructor
  · intro s hs
    rw [gen_is_address_bech32, C11.predicate_valid hrp hh ver prog hv s hs]
  · intro s h
    rw [gen_is_address_bech32, C11.predicate_rejects s h]

end C11GenInit

namespace C11GenInit
open Py Model Spec C02Gen

/-- `P2wshAddress(script=…)` — the constructor called with a script only (a `Script` object is truthy: checked on the class): the object
holds the class's numeric version and SHA-256 of the script's exact byte encoding -/
theorem gen_segwit_init_script (sha256 : Bytes → Bytes) (T : Tables) (s : List Spec.Tok) (vs : String) (ver : Nat)
    (hv : numVersion vs = some ver) :
    Gen.segwit_init_script sha256 T.opCodes (s.map toPy) vs = (scriptToSha256 sha256 T s).map (fun h => ((ver : Int), h)) := by
  unfold Gen.segwit_init_script
  rcases ver_cases vs ver hv with ⟨c1, rfl⟩ | ⟨c1, c2, rfl⟩
  · simp only [c1, if_true, C12Gen.gen_segwit_script_to_hash sha256 T s]
    cases scriptToSha256 sha256 T s <;> rfl
  · simp only [c1, Bool.false_eq_true, if_false, c2, if_true, C12Gen.gen_segwit_script_to_hash sha256 T s]
    cases scriptToSha256 sha256 T s <;> rfl

end C11GenInit
