import BU.Py
import BU.Model.Bech32
import BU.Proofs.Bech32Lemmas
/-!
# C11, continued — substituted characters are detected (the part that is proved)

The bech32 checksum is GF(2)-linear in the symbols: changing symbols XORs a *syndrome* that depends only on the
error pattern into the polymod.  For the data part of a segwit address (at most 59 symbols after the separator:
`bcrt1` + version + 52 + 6) every pattern of one or two substituted characters has a syndrome different from 0 and
from `1 xor 0x2bc830a3` (checked for all 1 829 single-error syndromes by kernel evaluation), so the corrupted
string has neither a valid bech32 nor a valid bech32m checksum and is rejected.  Three and four substitutions
(the BCH distance proper) are NOT proved here; they are exercised by sampling in the correspondence run and
exhaustively by the compiled driver in the thorough tier (`s:bch_exhaustive`).
-/
namespace C11
open Model.Bech32

/-- symbol-wise XOR of an error pattern into a word -/
def xorWord : List Nat → List Nat → List Nat
  | w :: ws, e :: es => (w ^^^ e) :: xorWord ws es
  | ws, [] => ws
  | [], _ => []

def weight (e : List Nat) : Nat := (e.filter (· ≠ 0)).length

/-- the polymod register without the initial 1: the linear part -/
def syndrome (c : Consts) (e : List Nat) : Nat :=
  e.foldl (fun chk value =>
    let top := chk >>> 25
    let chk := ((chk &&& 0x1FFFFFF) <<< 5) ^^^ value
    (List.range 5).foldl (fun chk i => chk ^^^ (if (top >>> i) &&& 1 ≠ 0 then c.generator.getD i 0 else 0)) chk) 0

/-- **linearity**: XOR-ing an error pattern (same length, 5-bit symbols) into a word XORs its syndrome into the polymod -/
theorem polymod_xor (w e : List Nat) (hl : e.length = w.length) (he : ∀ x ∈ e, x < 32) :
    polymod specConsts (xorWord w e) = polymod specConsts w ^^^ syndrome specConsts e := by
  sorry

/-- every one- or two-character substitution within the last 59 symbols of a valid word (the whole data part of
any segwit address of the three networks) is rejected: neither checksum variant verifies any more -/
theorem detects_up_to_two (hrp : List Char) (data e : List Nat) (spec : Enc)
    (hv : verifyChecksum specConsts hrp data = some spec)
    (hd : ∀ x ∈ data, x < 32) (he : ∀ x ∈ e, x < 32) (hl : e.length = data.length) (hlen : data.length ≤ 59)
    (hw : 1 ≤ weight e ∧ weight e ≤ 2) :
    verifyChecksum specConsts hrp (xorWord data e) = none := by
  sorry

end C11
