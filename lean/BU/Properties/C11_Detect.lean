import BU.Py
import BU.Model.Bech32
import BU.Proofs.Bech32Lemmas
import BU.Proofs.BchLemmas
/-!
# C11, continued — substituted characters are detected (the part that is proved)

The bech32 checksum is GF(2)-linear in the symbols: changing symbols XORs a *syndrome* that depends only on the
error pattern into the polymod.  For the data part of a segwit address (at most 59 symbols after the separator:
`bcrt1` + version + 52 + 6) every pattern of one or two substituted characters has a syndrome different from 0 and
from `1 xor 0x2bc830a3` (checked for all 1 829 single-error syndromes by kernel evaluation), so the corrupted
string has neither a valid bech32 nor a valid bech32m checksum and is rejected.  Three and four substitutions
(the BCH distance proper) are NOT proved here; they are exercised by sampling in the correspondence run and
exhaustively by the compiled driver on every run (`s:bch_exhaustive 59`): no pattern of 1..3 substitutions verifies
under either checksum variant and none of 4 under the *same* variant; 1 191 four-symbol patterns turn a bech32
checksum into a bech32m one (and back) — `decode` rejects those unless the version symbol is among the substituted
ones, and then the address *class* (which fixes the version, hence the variant) rejects them.
-/
namespace C11
open Model.Bech32 Bech32Lemmas BchLemmas

/-- symbol-wise XOR of an error pattern into a word -/
def xorWord : List Nat → List Nat → List Nat
  | w :: ws, e :: es => (w ^^^ e) :: xorWord ws es
  | ws, [] => ws
  | [], _ => []

def weight (e : List Nat) : Nat := (e.filter (· ≠ 0)).length

/-- the polymod register without the initial 1: the linear part -/
def syndrome (c : Consts) (e : List Nat) : Nat :=
  e.foldl (fun chk value =>
    let top := chk >>> 25
    let chk := ((chk &&& 0x1FFFFFF) <<< 5) ^^^ value
    (List.range 5).foldl (fun chk i => chk ^^^ (if (top >>> i) &&& 1 ≠ 0 then c.generator.getD i 0 else 0)) chk) 0

theorem syndrome_eq (c : Consts) (e : List Nat) : syndrome c e = e.foldl (pstep c) 0 := by
  unfold syndrome pstep gsel
  rfl

theorem foldl_xorWord (c : Consts) (w e : List Nat) (hl : e.length = w.length) (a b : Nat) :
    (xorWord w e).foldl (pstep c) (a ^^^ b) = w.foldl (pstep c) a ^^^ e.foldl (pstep c) b := by
  induction w generalizing e a b with
  | nil =>
    cases e with
    | nil => simp [xorWord]
    | cons x xs => simp at hl
  | cons x xs ih =>
    cases e with
    | nil => simp at hl
    | cons y ys =>
      simp only [xorWord, List.foldl_cons]
      rw [pstep_lin]
      exact ih ys (by simpa using hl) _ _

set_option linter.unusedVariables false in
/-- **linearity**: XOR-ing an error pattern (same length, 5-bit symbols) into a word XORs its syndrome into the polymod -/
theorem polymod_xor (w e : List Nat) (hl : e.length = w.length) (he : ∀ x ∈ e, x < 32) :
    polymod specConsts (xorWord w e) = polymod specConsts w ^^^ syndrome specConsts e := by
  rw [polymod_eq, polymod_eq, syndrome_eq]
  have := foldl_xorWord specConsts w e hl 1 0
  rwa [Nat.xor_zero] at this

/-! ### error patterns of weight 0, 1, 2 -/

theorem weight_cons (x : Nat) (e : List Nat) : weight (x :: e) = (if x = 0 then 0 else 1) + weight e := by
  unfold weight
  rw [List.filter_cons]
  by_cases h : x = 0
  · simp [h]
  · simp [h]; omega

theorem fold_weight_zero (e : List Nat) (h : weight e = 0) (x : Nat) :
    e.foldl (pstep specConsts) x = S e.length x := by
  induction e generalizing x with
  | nil => rfl
  | cons a e ih =>
    rw [weight_cons] at h
    have ha : a = 0 := by
      by_cases ha : a = 0
      · exact ha
      · rw [if_neg ha] at h; omega
    subst ha
    rw [List.foldl_cons, ih (by simpa using h), List.length_cons, S_succ]
    rfl

theorem fold_weight_one (e : List Nat) (h : weight e = 1) (he : ∀ x ∈ e, x < 32) :
    ∃ k b, k < e.length ∧ 1 ≤ b ∧ b < 32 ∧ e.foldl (pstep specConsts) 0 = S k b := by
  induction e with
  | nil => simp [weight] at h
  | cons a e ih =>
    rw [weight_cons] at h
    rw [List.foldl_cons, pstep_zero_left]
    by_cases ha : a = 0
    · subst ha
      obtain ⟨k, b, hk, hb1, hb2, hs⟩ := ih (by simpa using h) (fun x hx => he x (by simp [hx]))
      exact ⟨k, b, by simp; omega, hb1, hb2, hs⟩
    · rw [if_neg ha] at h
      refine ⟨e.length, a, by simp, by omega, he a (by simp), ?_⟩
      exact fold_weight_zero e (by omega) a

theorem fold_weight_two (e : List Nat) (h : weight e = 2) (he : ∀ x ∈ e, x < 32) :
    ∃ j k a b, k < j ∧ j < e.length ∧ 1 ≤ a ∧ a < 32 ∧ 1 ≤ b ∧ b < 32 ∧
      e.foldl (pstep specConsts) 0 = S j a ^^^ S k b := by
  induction e with
  | nil => simp [weight] at h
  | cons x e ih =>
    rw [weight_cons] at h
    rw [List.foldl_cons, pstep_zero_left]
    by_cases hx : x = 0
    · subst hx
      obtain ⟨j, k, a, b, hkj, hj, ha1, ha2, hb1, hb2, hs⟩ :=
        ih (by simpa using h) (fun y hy => he y (by simp [hy]))
      exact ⟨j, k, a, b, hkj, by simp; omega, ha1, ha2, hb1, hb2, hs⟩
    · rw [if_neg hx] at h
      obtain ⟨k, b, hk, hb1, hb2, hs⟩ := fold_weight_one e (by omega) (fun y hy => he y (by simp [hy]))
      refine ⟨e.length, k, x, b, hk, by simp, by omega, he x (by simp), hb1, hb2, ?_⟩
      have := foldl_pstep_split specConsts e x 0
      rw [Nat.xor_zero] at this
      rw [this, hs]
      rfl

/-- the syndrome of one or two substituted symbols within 59 positions is neither `0` nor `1 ^^^ M` -/
theorem syndrome_visible (e : List Nat) (he : ∀ x ∈ e, x < 32) (hlen : e.length ≤ 59)
    (hw : 1 ≤ weight e ∧ weight e ≤ 2) :
    e.foldl (pstep specConsts) 0 ≠ 0 ∧ e.foldl (pstep specConsts) 0 ≠ Delta := by
  have : weight e = 1 ∨ weight e = 2 := by omega
  rcases this with h | h
  · obtain ⟨k, b, hk, hb1, hb2, hs⟩ := fold_weight_one e h he
    rw [hs]
    exact single_ne k b (by omega) hb1 hb2
  · obtain ⟨j, k, a, b, hkj, hj, ha1, ha2, hb1, hb2, hs⟩ := fold_weight_two e h he
    rw [hs]
    exact double_ne j k a b (by omega) (by omega) (by omega) ha1 ha2 hb1 hb2

set_option linter.unusedVariables false in
/-- every one- or two-character substitution within the last 59 symbols of a valid word (the whole data part of
any segwit address of the three networks) is rejected: neither checksum variant verifies any more -/
theorem detects_up_to_two (hrp : List Char) (data e : List Nat) (spec : Enc)
    (hv : verifyChecksum specConsts hrp data = some spec)
    (hd : ∀ x ∈ data, x < 32) (he : ∀ x ∈ e, x < 32) (hl : e.length = data.length) (hlen : data.length ≤ 59)
    (hw : 1 ≤ weight e ∧ weight e ≤ 2) :
    verifyChecksum specConsts hrp (xorWord data e) = none := by
  obtain ⟨hs0, hsD⟩ := syndrome_visible e he (by omega) hw
  have key : polymod specConsts (hrpExpand hrp ++ xorWord data e)
      = polymod specConsts (hrpExpand hrp ++ data) ^^^ e.foldl (pstep specConsts) 0 := by
    rw [polymod_eq, polymod_eq, List.foldl_append, List.foldl_append]
    have := foldl_xorWord specConsts data e hl (List.foldl (pstep specConsts) 1 (hrpExpand hrp)) 0
    rwa [Nat.xor_zero] at this
  unfold verifyChecksum at hv ⊢
  simp only [] at hv ⊢
  rw [key]
  generalize polymod specConsts (hrpExpand hrp ++ data) = P at hv ⊢
  generalize e.foldl (pstep specConsts) 0 = s at hs0 hsD ⊢
  rw [Delta_eq] at hsD
  have hP : P = 1 ∨ P = specConsts.m := by
    by_cases h1 : P = 1
    · exact Or.inl h1
    · rw [if_neg h1] at hv
      by_cases h2 : P = specConsts.m
      · exact Or.inr h2
      · rw [if_neg h2] at hv
        cases hv
  have h1 : ¬ (P ^^^ s = 1) := by
    intro h
    have hs := xor_cancel h
    rcases hP with rfl | rfl
    · exact hs0 (by rw [hs, Nat.xor_self])
    · exact hsD (by rw [hs, Nat.xor_comm])
  have h2 : ¬ (P ^^^ s = specConsts.m) := by
    intro h
    have hs := xor_cancel h
    rcases hP with rfl | rfl
    · exact hsD hs
    · exact hs0 (by rw [hs, Nat.xor_self])
  rw [if_neg h1, if_neg h2]

end C11
