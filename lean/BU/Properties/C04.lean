import BU.Py
import BU.Spec.Sighash
import BU.Model.Digest
import BU.Properties.C01
import BU.Proofs.Digest04
/-!
# C04 — the segwit v0 signature hash equals BIP143

M: `Model.segwitDigest` transcribes `get_transaction_segwit_digest`; Spec: `Spec.bip143Preimage` from the BIP text.
-/
namespace C04
open Py Spec Model

set_option linter.unusedSimpArgs false in
/-- for every hash type without the undefined bits 0x70 (the six defined ones are instances; the code
tests ANYONECANPAY with `(sighash & 0xF0) == 0x80`, BIP143 with `& 0x80`), every index, script code of
any length, amount 0..2^63-1: the digest is the double-SHA256 of the BIP143 preimage — every length
prefix is CompactSize; SINGLE without matching output gives the all-zero hashOutputs -/
theorem segwit_digest_eq_bip143 (sha256 : Bytes → Bytes) (T : Tables) (hT : C02.TablesOK T = true) (t : Tx)
    (h : C01.WFTx T t = true) (i : Nat) (hi : i < t.inputs.length)
    (code : List Tok) (hc : C01.WFScript T code = true) (amount : Nat) (ha : amount < 2 ^ 63)
    (ht : Nat) (hht : ht < 256) (h70 : ht &&& 0x70 = 0) :
    ∃ r c, C01.assembleTx t = some r ∧ encToks code = some c ∧
      segwitDigest sha256 T t i code amount ht =
        .ok (sha256 (sha256 (bip143Preimage (fun b => sha256 (sha256 b)) r i c amount ht))) := by
  obtain ⟨hv, hl, hn1, hn, hm, hins, houts, hw⟩ := C01.wfTx_elim T t h
  obtain ⟨c, hcb, hce, hcl, _⟩ := C01.wfScript_elim T hT code hc
  refine ⟨C01.rawTx T t, c, (C01.tx_spec T hT t h).1, hce, ?_⟩
  have eP := TxLemmas.concatM_map outpointBytes (fun x => outpoint (C01.rawIn T x)) t.inputs
    (fun x hx => Digest04.outpointBytes_spec T x (hins x hx))
  have eO := TxLemmas.concatM_map (TxOut.toBytes T) (fun o => encOut (C01.rawOut T o)) t.outputs
    (fun o ho => (C01.out_spec T hT o (houts o ho)).2.1)
  have eI : t.inputs[i]? = some t.inputs[i] := List.getElem?_eq_getElem hi
  have eop := Digest04.outpointBytes_spec T t.inputs[i] (hins _ (List.getElem_mem hi))
  have eamt := Digest04.pack_q_nat amount ha
  have eht := Digest04.pack_i_nat ht (by omega)
  have ebits := Digest04.bits ht hht h70
  have eD : (List.map (C01.rawIn T) t.inputs).getD i default = C01.rawIn T t.inputs[i] := by
    simp [List.getD, List.getElem?_map, eI]
  unfold segwitDigest bip143Preimage
  -- first rewrite every effectful leaf to its value (no `bind` unfolding while `pack` is still around)
  simp only [C01.rawTx, eP, eO, eI, eop, hcb, eamt, eht, ebits, eD, List.flatMap_map, List.length_map]
  by_cases hlt : i < t.outputs.length
  · have eJ : t.outputs[i]? = some t.outputs[i] := List.getElem?_eq_getElem hlt
    have eo := (C01.out_spec T hT _ (houts _ (List.getElem_mem hlt))).2.1
    have eE : (List.map (C01.rawOut T) t.outputs).getD i default = C01.rawOut T t.outputs[i] := by
      simp [List.getD, List.getElem?_map, eJ]
    simp only [eJ, eo, eE]
    by_cases hA : ht &&& 128 ≠ 0 <;> by_cases h3 : ht &&& 31 = 3 <;> by_cases h2 : ht &&& 31 = 2 <;>
      simp [Digest04.rawIn_sequence, hA, h3, h2, hlt, withLen, bind, Except.bind, pure, Except.pure]
  · by_cases hA : ht &&& 128 ≠ 0 <;> by_cases h3 : ht &&& 31 = 3 <;> by_cases h2 : ht &&& 31 = 2 <;>
      simp [Digest04.rawIn_sequence, hA, h3, h2, hlt, withLen, bind, Except.bind, pure, Except.pure]

/-- the digest does not depend on scriptSigs or witnesses -/
theorem ignores_scriptsigs_witnesses (sha256 : Bytes → Bytes) (T : Tables) (t t' : Tx) (i : Nat) (code : List Tok)
    (amount : Int) (ht : Nat)
    (hv : t'.version = t.version) (hl : t'.locktime = t.locktime) (ho : t'.outputs = t.outputs)
    (hi : t'.inputs.map (fun x => (x.txid, x.index, x.sequence)) = t.inputs.map (fun x => (x.txid, x.index, x.sequence))) :
    segwitDigest sha256 T t' i code amount ht = segwitDigest sha256 T t i code amount ht := by
  have hi' : t'.inputs.map Digest04.proj = t.inputs.map Digest04.proj := hi
  have hg := Digest04.getElem?_proj t.inputs t'.inputs hi' i
  unfold segwitDigest
  rw [hv, hl, ho, Digest04.map_outpointBytes t'.inputs, Digest04.map_outpointBytes t.inputs,
    Digest04.flatMap_sequence t'.inputs, Digest04.flatMap_sequence t.inputs, hi']
  rcases h1 : t'.inputs[i]? with _ | x' <;> rcases h2 : t.inputs[i]? with _ | x <;>
    rw [h1, h2] at hg <;> simp only [Option.map_none, Option.map_some, reduceCtorEq, Option.some.injEq] at hg
  -- (the none/none case is `rfl`; mixed cases are contradictory)
  all_goals first
    | rfl
    | simp only [Digest04.outpointBytes_of_proj hg, Digest04.sequence_of_proj hg]

end C04
