import BU.Properties.C14
/-!
# C14 — concrete instances beside `sign_verifies`

* the hypotheses of `sign_verifies` are satisfiable (d = 1, nonce 6: R has odd y, so the header search takes two steps);
* at the point the hypothesis `hinf` excludes (R with odd y and 2z + r·d ≡ 0 mod n) the model of `sign_message`
  raises instead of returning a signature — the same behaviour the real code shows there (harness case
  `msg_sign_forced`, where SHA-256 is replaced to reach that digest; no message with such a digest is known).
Everything here is evaluated by the kernel (`decide +kernel`), no `native_decide`.
-/
namespace C14
open Py Spec Model Secp

/-- x(6·G) -/
def r6 : Nat := 115780575977492633039504758427830329241728645270042306223540962614150928364886
def y6 : Nat := 78735063515800386211891312544505775871260717697865196436804966483607426560663
/-- the digest value with 2z + r·1 ≡ 0 (mod n) -/
def zBad : Nat := (n - r6 % n) * ((n + 1) / 2) % n
def addrT : Nat × Nat → Bool → String := fun q _ => if q = (Gx, Gy) then "a" else "b"

set_option maxRecDepth 100000 in
theorem mulG_6 : mul G 6 = some (r6, y6) := by decide +kernel

theorem mulG_1 : mul G 1 = some (Gx, Gy) := by decide +kernel

/-- the excluded point: the header search raises -/
theorem hinf_witness :
    (2 * zBad + r6 * 1) % n = 0 ∧ y6 % 2 = 1 ∧
    signMessageHeader (fun _ => beBytes 32 zBad) [] addrT (Gx, Gy) true
      (beBytes 32 r6 ++ beBytes 32 (ecdsaSigOf 1 6 zBad r6).2) [1] = .error .other := by
  decide +kernel

/-- non-vacuity: with digest value 5, key 1 and nonce 6 every hypothesis of `sign_verifies` holds, and its conclusion
is the concrete statement that header 32 (compressed, odd y) is found, verifies and recovers G -/
example :
    let sha : Bytes → Bytes := fun _ => beBytes 32 5
    let s := (ecdsaSigOf 1 6 5 r6).2
    let sig := [UInt8.ofNat 32] ++ (beBytes 32 r6 ++ beBytes 32 s)
    signMessageHeader sha [] addrT (Gx, Gy) true (beBytes 32 r6 ++ beBytes 32 s) [1] = .ok (some sig) ∧
    verifyMessage sha [] addrT (addrT (Gx, Gy) true) sig [1] = .ok true ∧
    recoverPub sha [] [1] sig = .ok (Gx, Gy) := by
  intro sha s sig
  have hz : ofBE (msgDigest sha [] [1]) = 5 := by decide +kernel
  have h := sign_verifies_unconditional sha [] addrT 1 (by decide) Gx Gy mulG_1 6 (by decide) r6 y6 mulG_6 (by decide)
    [1] true r6 s (by rw [hz]; decide +kernel) (by decide) (by decide +kernel)
    (by intro q hq; simp [addrT, hq]) (by intro _; rw [hz]; decide +kernel)
  exact ⟨h.1, h.2.1, h.2.2 (by decide)⟩

end C14
