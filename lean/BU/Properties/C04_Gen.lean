import BU.Gen.Codec
import BU.Model.Digest
import BU.Properties.C01_Gen
import BU.Properties.C04
/-!
# C04, continuation — the BIP143 digest as *generated* code (tier T)

`Transaction.get_transaction_segwit_digest` is re-translated from the working tree on every run (three loops over the inputs and
outputs, the ANYONECANPAY / NONE / SINGLE case analysis on `sighash & 0xF0`, `sighash & 0x1F`, the in-range test for SINGLE,
indexing `self.inputs[txin_index]`; SHA-256 a parameter).  For every transaction, input index, script code, amount and hash type
the generated function returns — result *and* exception — what the hand model `Model.segwitDigest` returns, the model about
which `C04.segwit_digest_eq_bip143` (= the BIP143 pre-image Spec) is proved.  Only bound: scripts shorter than 2^64 bytes.
-/
namespace C04Gen
open Py Spec Model Loop C02Gen C01Gen

/-- the hashPrevouts loop -/
theorem loop_prevouts (ins : List TxIn) (acc : Bytes) :
    (forIn (ins.map inPy) acc fun (txin_it : Py.PyTxIn) (__s : Bytes) => do
        let t1 ← Py.pack "<I" txin_it.txout_index
        (pure (ForInStep.yield (__s ++ (List.reverse txin_it.txid ++ t1))) : Except PyErr (ForInStep Bytes))) =
      (concatM (ins.map outpointBytes)).map (acc ++ ·) := by
  rw [List.forIn_map, ← accum_eq_concatM, ← forIn_append]
  apply forIn_congr_mem
  intro x _ b
  unfold outpointBytes inPy
  cases Py.pack "<I" x.index <;> rfl

/-- the hashSequence loop -/
theorem loop_sequences (ins : List TxIn) (acc : Bytes) :
    (forIn (ins.map inPy) acc fun (txin_it : Py.PyTxIn) (__s : Bytes) =>
        (pure (ForInStep.yield (__s ++ txin_it.sequence)) : Except PyErr (ForInStep Bytes))) =
      .ok (acc ++ ins.flatMap (·.sequence)) := by
  induction ins generalizing acc with
  | nil => simp [pure, Except.pure]
  | cons x xs ih =>
    rw [List.map_cons, List.forIn_cons]
    show (Except.ok (ForInStep.yield (acc ++ x.sequence)) >>= _) = _
    rw [ok_bind]
    show forIn (xs.map inPy) (acc ++ x.sequence) _ = _
    rw [ih]
    simp [List.append_assoc]

/-- the body of the hashOutputs loop -/
def outBody (T : Tables) (txout_it : Py.PyTxOut) (__s : Bytes × Bytes × Py.PyTxOut × Bytes) :
    Except PyErr (ForInStep (Bytes × Bytes × Py.PyTxOut × Bytes)) := do
  let t2 ← Py.pack "<q" txout_it.amount
  let t3 ← Gen.script_to_bytes T.opCodes txout_it.script_pubkey
  let t4 ← Gen.encode_varint (Py.len t3)
  pure (ForInStep.yield (t2, t3, txout_it, __s.2.2.2 ++ (t2 ++ t4 ++ t3)))

theorem outBody_spec (T : Tables) (o : TxOut) (s : Bytes × Bytes × Py.PyTxOut × Bytes)
    (ho : ∀ b, scriptBytes T o.script = .ok b → b.length < 2 ^ 64) :
    (∀ e, TxOut.toBytes T o = .error e → outBody T (outPy o) s = .error e) ∧
    (∀ b, TxOut.toBytes T o = .ok b → ∃ a c, outBody T (outPy o) s = .ok (.yield (a, c, outPy o, s.2.2.2 ++ b))) := by
  unfold outBody TxOut.toBytes
  simp only [outPy]
  cases hp : Py.pack "<q" o.amount with
  | error e =>
    constructor
    · intro e' h; rw [error_bind] at h ⊢; rw [Except.error.inj h]
    · intro b h; rw [error_bind] at h; cases h
  | ok am =>
    rw [ok_bind, ok_bind, gen_script_to_bytes]
    cases hs : scriptBytes T o.script with
    | error e =>
      constructor
      · intro e' h; rw [error_bind] at h ⊢; rw [Except.error.inj h]
      · intro b h; rw [error_bind] at h; cases h
    | ok sb =>
      rw [ok_bind, ok_bind, len_cast, C17.encode_varint_eq_spec _ (ho sb hs), ok_bind]
      constructor
      · intro e' h; cases h
      · intro b h
        have : b = am ++ compactSize sb.length ++ sb := (Except.ok.inj h).symm
        subst this
        exact ⟨am, sb, rfl⟩

/-- the hashOutputs loop: the last component accumulates the serialised outputs (the other three are scratch) -/
theorem loop_outputs4 (T : Tables) (outs : List TxOut) (s0 : Bytes × Bytes × Py.PyTxOut × Bytes)
    (ho : ∀ o ∈ outs, ∀ b, scriptBytes T o.script = .ok b → b.length < 2 ^ 64) :
    (forIn (outs.map outPy) s0 (outBody T)).map (·.2.2.2) = (concatM (outs.map (TxOut.toBytes T))).map (s0.2.2.2 ++ ·) := by
  induction outs generalizing s0 with
  | nil => simp [concatM, Except.map, pure, Except.pure]
  | cons o os ih =>
    rw [List.map_cons, List.forIn_cons, List.map_cons, concatM]
    obtain ⟨he, hk⟩ := outBody_spec T o s0 (ho o (by simp))
    cases hb : TxOut.toBytes T o with
    | error e => rw [he e hb, error_bind, error_bind]; rfl
    | ok b =>
      obtain ⟨a, c, hy⟩ := hk b hb
      rw [hy, ok_bind, ok_bind]
      show (forIn (os.map outPy) (a, c, outPy o, s0.2.2.2 ++ b) (outBody T)).map (·.2.2.2) = _
      rw [ih _ (fun o' ho' => ho o' (by simp [ho']))]
      cases concatM (os.map (TxOut.toBytes T)) with
      | error e => rfl
      | ok r => simp [Except.map, List.append_assoc, bind, Except.bind, pure, Except.pure]

theorem listGet_map {α β : Type} (f : α → β) (l : List α) (i : Nat) :
    Py.listGet (l.map f) (i : Int) = match l[i]? with | some x => .ok (f x) | none => .error .indexError := by
  unfold Py.listGet
  simp only [show ¬ ((i : Int) < 0) by omega, if_false, Int.toNat_natCast, List.getElem?_map]
  cases l[i]? <;> rfl

/-- what follows the three hashes, as the model writes it -/
def modelTail (sha256 : Bytes → Bytes) (T : Tables) (t : Tx) (i : Nat) (code : List Spec.Tok) (amount : Int) (ht : Nat)
    (hp hs ho : Bytes) : Except PyErr Bytes := do
  let some txin := t.inputs[i]? | throw PyErr.indexError
  let op ← outpointBytes txin
  let codeB ← scriptBytes T code
  let amt ← Py.pack "<q" amount
  let htb ← Py.pack "<i" ht
  pure (sha256 (sha256 (t.version ++ hp ++ hs ++ op ++ compactSize codeB.length ++ codeB ++ amt ++ txin.sequence ++ ho ++ t.locktime ++ htb)))

theorem tail_eq (sha256 : Bytes → Bytes) (T : Tables) (t : Tx) (i : Nat) (code : List Spec.Tok) (amount : Int) (ht : Nat)
    (hc : ∀ b, scriptBytes T code = .ok b → b.length < 2 ^ 64) (hp hs ho : Bytes) :
    (do
      let t9 ← Py.listGet (t.inputs.map inPy) (i : Int)
      let t10 ← Py.pack "<I" t9.txout_index
      let t11 ← Gen.script_to_bytes T.opCodes (code.map toPy)
      let t12 ← Gen.encode_varint (Py.len t11)
      let t13 ← Gen.script_to_bytes T.opCodes (code.map toPy)
      let t14 ← Py.pack "<q" amount
      let t15 ← Py.pack "<i" (ht : Int)
      (pure (sha256 (sha256 (t.version ++ (hp ++ hs) ++ (List.reverse t9.txid ++ t10) ++ t12 ++ t13 ++ t14 ++ t9.sequence ++ ho ++
        t.locktime ++ t15))) : Except PyErr Bytes)) = modelTail sha256 T t i code amount ht hp hs ho := by
  unfold modelTail
  rw [listGet_map]
  cases t.inputs[i]? with
  | none => rfl
  | some txin =>
    simp only []
    rw [ok_bind]
    unfold outpointBytes inPy
    simp only []
    cases Py.pack "<I" txin.index with
    | error e => rw [error_bind, error_bind, error_bind]
    | ok ix =>
      conv => lhs; rw [ok_bind]
      conv => rhs; rw [ok_bind, pure_eq_ok, ok_bind]
      rw [gen_script_to_bytes]
      cases hs' : scriptBytes T code with
      | error e => rw [error_bind, error_bind]
      | ok cb =>
        conv => lhs; rw [ok_bind, len_cast, C17.encode_varint_eq_spec _ (hc cb hs'), ok_bind, ok_bind]
        conv => rhs; rw [ok_bind]
        cases Py.pack "<q" amount with
        | error e => rw [error_bind, error_bind]
        | ok am =>
          conv => lhs; rw [ok_bind]
          conv => rhs; rw [ok_bind]
          cases Py.pack "<i" (ht : Int) with
          | error e => rw [error_bind, error_bind]
          | ok hb =>
            conv => lhs; rw [ok_bind]
            conv => rhs; rw [ok_bind]
            simp [List.append_assoc]

theorem beq_cast (a b : Nat) : (((a : Int) == (b : Int))) = (a == b) := by
  by_cases h : a = b
  · subst h; simp
  · have hne : ¬ ((a : Int) = (b : Int)) := by omega
    rw [beq_eq_false_iff_ne.mpr hne, beq_eq_false_iff_ne.mpr h]
theorem bne_cast (a b : Nat) : (((a : Int) != (b : Int))) = (a != b) := by
  unfold bne; rw [beq_cast]
theorem land31 (ht : Nat) : Py.land (ht : Int) 31 = ((ht &&& 31 : Nat) : Int) := rfl
theorem land240 (ht : Nat) : Py.land (ht : Int) 240 = ((ht &&& 240 : Nat) : Int) := rfl
theorem zeros_eq : Py.bytesRepeat [0x00] (32 : Int) = zeros 32 := by decide

theorem map_bind {α β : Type} (m : Except PyErr α) (p : α → β) (k : β → Except PyErr Bytes) :
    (m >>= fun s => k (p s)) = (m.map p >>= k) := by
  cases m <;> rfl

/-- **BIP143 digest**: the translated `get_transaction_segwit_digest` is the model's, for every transaction, index, script
code, amount and hash type (scripts shorter than 2^64 bytes) -/
theorem gen_segwit_digest (sha256 : Bytes → Bytes) (T : Tables) (t : Tx) (i : Nat) (code : List Spec.Tok) (amount : Int) (ht : Nat)
    (ho : ∀ o ∈ t.outputs, ∀ b, scriptBytes T o.script = .ok b → b.length < 2 ^ 64)
    (hc : ∀ b, scriptBytes T code = .ok b → b.length < 2 ^ 64) :
    Gen.segwit_digest sha256 T.opCodes t.version (t.inputs.map inPy) (t.outputs.map outPy) t.locktime (i : Int) (code.map toPy)
      amount (ht : Int) = segwitDigest sha256 T t i code amount ht := by
  unfold Gen.segwit_digest
  simp only []
  simp only [tail_eq sha256 T t i code amount ht hc, land31, land240, show (128 : Int) = ((128 : Nat) : Int) from rfl,
    show (3 : Int) = ((3 : Nat) : Int) from rfl, show (2 : Int) = ((2 : Nat) : Int) from rfl, beq_cast, bne_cast, zeros_eq,
    List.length_map]
  -- the three loops
  have Lp : ∀ (K : Bytes → Except PyErr Bytes),
      ((forIn (List.map inPy t.inputs) ([] : Bytes) fun (txin_it : Py.PyTxIn) (__s : Bytes) => do
          let t1 ← Py.pack "<I" txin_it.txout_index
          (pure (ForInStep.yield (__s ++ (List.reverse txin_it.txid ++ t1))) : Except PyErr (ForInStep Bytes))) >>= K) =
        (concatM (t.inputs.map outpointBytes) >>= K) := by
    intro K
    rw [loop_prevouts]
    cases concatM (t.inputs.map outpointBytes) <;> simp [Except.map, bind, Except.bind]
  have Ls : ∀ (K : Bytes → Except PyErr Bytes),
      ((forIn (List.map inPy t.inputs) ([] : Bytes) fun (txin_it : Py.PyTxIn) (__s : Bytes) =>
          (pure (ForInStep.yield (__s ++ txin_it.sequence)) : Except PyErr (ForInStep Bytes))) >>= K) =
        K (t.inputs.flatMap (·.sequence)) := by
    intro K
    rw [loop_sequences, ok_bind]
    simp
  have Lo : ∀ (K : Bytes → Except PyErr Bytes),
      ((forIn (List.map outPy t.outputs) (([] : Bytes), ([] : Bytes), (default : Py.PyTxOut), ([] : Bytes)) (outBody T)) >>=
          fun s => K s.2.2.2) = (concatM (t.outputs.map (TxOut.toBytes T)) >>= K) := by
    intro K
    rw [map_bind (forIn (List.map outPy t.outputs) (([] : Bytes), ([] : Bytes), (default : Py.PyTxOut), ([] : Bytes)) (outBody T))
      (fun (s : Bytes × Bytes × Py.PyTxOut × Bytes) => s.2.2.2) K, loop_outputs4 T t.outputs _ ho]
    cases concatM (t.outputs.map (TxOut.toBytes T)) <;> simp [Except.map, bind, Except.bind]
  have Lsingle : ∀ (K : Bytes → Except PyErr Bytes) (o : TxOut), t.outputs[i]? = some o →
      (do let t5 ← Py.listGet (List.map outPy t.outputs) (i : Int)
          let t6 ← Py.pack "<q" t5.amount
          let t7 ← Gen.script_to_bytes T.opCodes t5.script_pubkey
          let t8 ← Gen.encode_varint (Py.len t7)
          K (t6 ++ t8 ++ t7)) = (TxOut.toBytes T o >>= K) := by
    intro K o hso
    rw [listGet_map, hso]
    simp only []
    rw [ok_bind]
    unfold TxOut.toBytes outPy
    simp only []
    cases Py.pack "<q" o.amount with
    | error e => rw [error_bind, error_bind, error_bind]
    | ok am =>
      conv => lhs; rw [ok_bind]
      conv => rhs; rw [ok_bind]
      rw [gen_script_to_bytes]
      cases hsb : scriptBytes T o.script with
      | error e => rw [error_bind, error_bind, error_bind]
      | ok sb =>
        have hmem : o ∈ t.outputs := List.mem_of_getElem? hso
        conv => lhs; rw [ok_bind, len_cast, C17.encode_varint_eq_spec _ (ho o hmem sb hsb), ok_bind]
        conv => rhs; rw [ok_bind, pure_eq_ok, ok_bind]
  have Lo' : ∀ (hp hs : Bytes),
      ((forIn (List.map outPy t.outputs) (([] : Bytes), ([] : Bytes), (default : Py.PyTxOut), ([] : Bytes))
          fun (txout_it : Py.PyTxOut) (__s : Bytes × Bytes × Py.PyTxOut × Bytes) => do
            let t2 ← Py.pack "<q" txout_it.amount
            let t3 ← Gen.script_to_bytes T.opCodes txout_it.script_pubkey
            let t4 ← Gen.encode_varint (Py.len t3)
            (pure (ForInStep.yield (t2, t3, txout_it, __s.snd.snd.snd ++ (t2 ++ t4 ++ t3))) :
              Except PyErr (ForInStep (Bytes × Bytes × Py.PyTxOut × Bytes)))) >>=
          fun s => modelTail sha256 T t i code amount ht hp hs (sha256 (sha256 s.2.2.2))) =
        (concatM (t.outputs.map (TxOut.toBytes T)) >>= fun os => modelTail sha256 T t i code amount ht hp hs (sha256 (sha256 os))) :=
    fun hp hs => Lo (fun os => modelTail sha256 T t i code amount ht hp hs (sha256 (sha256 os)))
  simp only [Lo', Ls, Lp]
  unfold segwitDigest
  simp only []
  by_cases hA : (ht &&& 240 == 128) = true
  · -- ANYONECANPAY: hashPrevouts and hashSequence are zero
    simp only [hA, Bool.not_true, Bool.false_eq_true, if_false, Bool.false_and, false_and, pure_bind]
    by_cases h3 : ht &&& 31 = 3
    · have c1 : ((ht &&& 31 != 3) && (ht &&& 31 != 2)) = false := by simp [h3]
      have c2 : ¬ ((ht &&& 31) ≠ 3 ∧ (ht &&& 31) ≠ 2) := by simp [h3]
      simp only [c1, Bool.false_eq_true, if_false, if_neg c2, Bool.and_false, and_false]
      by_cases hi : i < t.outputs.length
      · obtain ⟨o, hso⟩ : ∃ o, t.outputs[i]? = some o := ⟨t.outputs[i], List.getElem?_eq_getElem hi⟩
        have c3 : ((ht &&& 31 == 3) && decide ((i : Int) < (t.outputs.length : Int))) = true := by
          simp [h3]; try omega
        simp only [c3, if_true, if_pos (And.intro h3 hi), hso]
        simp only [Lsingle (fun ob => modelTail sha256 T t i code amount ht (zeros 32) (zeros 32) (sha256 (sha256 ob))) o hso]
        simp only [bind_assoc, pure_bind]
        congr 1 <;> funext _
        all_goals (unfold modelTail; cases t.inputs[i]? <;> rfl)
      · have c3 : ((ht &&& 31 == 3) && decide ((i : Int) < (t.outputs.length : Int))) = false := by
          simp [h3]; try omega
        have c4 : ¬ ((ht &&& 31) = 3 ∧ i < t.outputs.length) := fun h => hi h.2
        simp only [c3, Bool.false_eq_true, if_false, if_neg c4, bind_assoc, pure_bind]
        all_goals (unfold modelTail; cases t.inputs[i]? <;> rfl)
    · by_cases h2 : ht &&& 31 = 2
      · have c1 : ((ht &&& 31 != 3) && (ht &&& 31 != 2)) = false := by simp [h2]
        have c2 : ¬ ((ht &&& 31) ≠ 3 ∧ (ht &&& 31) ≠ 2) := by simp [h2]
        have c3 : ((ht &&& 31 == 3) && decide ((i : Int) < (t.outputs.length : Int))) = false := by simp [h3]
        have c4 : ¬ ((ht &&& 31) = 3 ∧ i < t.outputs.length) := fun h => h3 h.1
        simp only [c1, c3, Bool.false_eq_true, if_false, if_neg c2, if_neg c4, Bool.and_false, and_false, bind_assoc, pure_bind]
        all_goals (unfold modelTail; cases t.inputs[i]? <;> rfl)
      · have c1 : ((ht &&& 31 != 3) && (ht &&& 31 != 2)) = true := by simp [h3, h2]
        have c2 : ((ht &&& 31) ≠ 3 ∧ (ht &&& 31) ≠ 2) := ⟨h3, h2⟩
        simp only [c1, if_true, if_pos c2, Bool.and_true, and_true, bind_assoc, pure_bind]
        congr 1 <;> funext _
        all_goals (unfold modelTail; cases t.inputs[i]? <;> rfl)
  · -- every input is committed to
    have hA' : (ht &&& 240 == 128) = false := by simpa using hA
    simp only [hA', Bool.not_false, if_true, Bool.true_and, true_and]
    by_cases h3 : ht &&& 31 = 3
    · have c1 : ((ht &&& 31 != 3) && (ht &&& 31 != 2)) = false := by simp [h3]
      have c2 : ¬ ((ht &&& 31) ≠ 3 ∧ (ht &&& 31) ≠ 2) := by simp [h3]
      simp only [c1, Bool.false_eq_true, if_false, if_neg c2]
      by_cases hi : i < t.outputs.length
      · obtain ⟨o, hso⟩ : ∃ o, t.outputs[i]? = some o := ⟨t.outputs[i], List.getElem?_eq_getElem hi⟩
        have c3 : ((ht &&& 31 == 3) && decide ((i : Int) < (t.outputs.length : Int))) = true := by
          simp [h3]; try omega
        simp only [c3, if_true, if_pos (And.intro h3 hi), hso]
        simp only [fun ps => Lsingle (fun ob => modelTail sha256 T t i code amount ht (sha256 (sha256 ps)) (zeros 32) (sha256 (sha256 ob))) o hso]
        simp only [bind_assoc, pure_bind]
        congr 1 <;> funext _ <;> congr 1 <;> funext _
        all_goals (unfold modelTail; cases t.inputs[i]? <;> rfl)
      · have c3 : ((ht &&& 31 == 3) && decide ((i : Int) < (t.outputs.length : Int))) = false := by
          simp [h3]; try omega
        have c4 : ¬ ((ht &&& 31) = 3 ∧ i < t.outputs.length) := fun h => hi h.2
        simp only [c3, Bool.false_eq_true, if_false, if_neg c4, bind_assoc, pure_bind]
        congr 1 <;> funext _
        all_goals (unfold modelTail; cases t.inputs[i]? <;> rfl)
    · by_cases h2 : ht &&& 31 = 2
      · have c1 : ((ht &&& 31 != 3) && (ht &&& 31 != 2)) = false := by simp [h2]
        have c2 : ¬ ((ht &&& 31) ≠ 3 ∧ (ht &&& 31) ≠ 2) := by simp [h2]
        have c3 : ((ht &&& 31 == 3) && decide ((i : Int) < (t.outputs.length : Int))) = false := by simp [h3]
        have c4 : ¬ ((ht &&& 31) = 3 ∧ i < t.outputs.length) := fun h => h3 h.1
        simp only [c1, c3, Bool.false_eq_true, if_false, if_neg c2, if_neg c4, bind_assoc, pure_bind]
        congr 1 <;> funext _
        all_goals (unfold modelTail; cases t.inputs[i]? <;> rfl)
      · have c1 : ((ht &&& 31 != 3) && (ht &&& 31 != 2)) = true := by simp [h3, h2]
        have c2 : ((ht &&& 31) ≠ 3 ∧ (ht &&& 31) ≠ 2) := ⟨h3, h2⟩
        simp only [c1, if_true, if_pos c2, bind_assoc, pure_bind]
        congr 1 <;> funext _ <;> congr 1 <;> funext _
        all_goals (unfold modelTail; cases t.inputs[i]? <;> rfl)

/-- **BIP143, end to end**: for a well-formed transaction, script code and amount, and every hash type without the undefined
bits 0x70, the translated digest function run with the generated opcode dictionary returns the double-SHA256 of the BIP143
pre-image -/
theorem gen_segwit_digest_eq_bip143 (sha256 : Bytes → Bytes) (t : Tx)
    (h : C01.WFTx C02.genTables t = true) (i : Nat) (hi : i < t.inputs.length)
    (code : List Spec.Tok) (hcw : C01.WFScript C02.genTables code = true) (amount : Nat) (ha : amount < 2 ^ 63)
    (ht : Nat) (hht : ht < 256) (h70 : ht &&& 0x70 = 0)
    (ho : ∀ o ∈ t.outputs, ∀ b, scriptBytes C02.genTables o.script = .ok b → b.length < 2 ^ 64)
    (hc : ∀ b, scriptBytes C02.genTables code = .ok b → b.length < 2 ^ 64) :
    ∃ r c, C01.assembleTx t = some r ∧ encToks code = some c ∧
      Gen.segwit_digest sha256 Gen.OP_CODES t.version (t.inputs.map inPy) (t.outputs.map outPy) t.locktime (i : Int)
          (code.map toPy) (amount : Int) (ht : Int) =
        .ok (sha256 (sha256 (bip143Preimage (fun b => sha256 (sha256 b)) r i c amount ht))) := by
  obtain ⟨r, c, h1, h2, h3⟩ := C04.segwit_digest_eq_bip143 sha256 C02.genTables C02.tables_ok t h i hi code hcw amount ha ht hht h70
  exact ⟨r, c, h1, h2, by rw [← h3]; exact gen_segwit_digest sha256 C02.genTables t i code amount ht ho hc⟩

end C04Gen
