import BU.Gen.Codec
import BU.Model.Address
import BU.Properties.C02_Gen
import BU.Properties.C20_Gen
import BU.Properties.C12
/-!
# C12, continuation — locking-script templates and script-hash commitments as *generated* code (tier T)

The five `to_script_pub_key` methods of `keys.py` and `Script.to_p2sh_script_pub_key` / `to_p2wsh_script_pub_key` are re-translated
from the working tree on every run.  The templates are literally the model's token lists; assembled by the *translated*
`Script.to_bytes` with the generated opcode dictionary they are the standard byte sequences.  The helpers commit to
RIPEMD160(SHA256(bytes)) / SHA256(bytes) of the script's assembled bytes — with the translated RIPEMD-160.
-/
namespace C12Gen
open Py Spec Model C02Gen

theorem gen_p2pkh (h : Bytes) : Gen.p2pkh_script_pub_key h = .ok ((spkP2pkh h).map toPy) := rfl
theorem gen_p2sh (h : Bytes) : Gen.p2sh_script_pub_key h = .ok ((spkP2sh h).map toPy) := rfl
theorem gen_p2wpkh (h : Bytes) : Gen.p2wpkh_script_pub_key h = .ok ((spkP2wpkh h).map toPy) := rfl
theorem gen_p2wsh (h : Bytes) : Gen.p2wsh_script_pub_key h = .ok ((spkP2wsh h).map toPy) := rfl
theorem gen_p2tr (h : Bytes) : Gen.p2tr_script_pub_key h = .ok ((spkP2tr h).map toPy) := rfl

/-- P2PKH, end to end through the translated code: template → bytes `76 a9 14 <h> 88 ac` -/
theorem gen_p2pkh_bytes (h : Bytes) (hh : h.length = 20) :
    (Gen.p2pkh_script_pub_key h >>= Gen.script_to_bytes Gen.OP_CODES) = .ok ([0x76, 0xa9, 0x14] ++ h ++ [0x88, 0xac]) := by
  rw [gen_p2pkh, ok_bind]
  exact (gen_script_to_bytes C02.genTables (spkP2pkh h)).trans (C12.p2pkh_bytes h hh)

theorem gen_p2sh_bytes (h : Bytes) (hh : h.length = 20) :
    (Gen.p2sh_script_pub_key h >>= Gen.script_to_bytes Gen.OP_CODES) = .ok ([0xa9, 0x14] ++ h ++ [0x87]) := by
  rw [gen_p2sh, ok_bind]
  exact (gen_script_to_bytes C02.genTables (spkP2sh h)).trans (C12.p2sh_bytes h hh)

theorem gen_p2wpkh_bytes (h : Bytes) (hh : h.length = 20) :
    (Gen.p2wpkh_script_pub_key h >>= Gen.script_to_bytes Gen.OP_CODES) = .ok ([0x00, 0x14] ++ h) := by
  rw [gen_p2wpkh, ok_bind]
  exact (gen_script_to_bytes C02.genTables (spkP2wpkh h)).trans (C12.p2wpkh_bytes h hh)

theorem gen_p2wsh_bytes (h : Bytes) (hh : h.length = 32) :
    (Gen.p2wsh_script_pub_key h >>= Gen.script_to_bytes Gen.OP_CODES) = .ok ([0x00, 0x20] ++ h) := by
  rw [gen_p2wsh, ok_bind]
  exact (gen_script_to_bytes C02.genTables (spkP2wsh h)).trans (C12.p2wsh_bytes h hh)

theorem gen_p2tr_bytes (h : Bytes) (hh : h.length = 32) :
    (Gen.p2tr_script_pub_key h >>= Gen.script_to_bytes Gen.OP_CODES) = .ok ([0x51, 0x20] ++ h) := by
  rw [gen_p2tr, ok_bind]
  exact (gen_script_to_bytes C02.genTables (spkP2tr h)).trans (C12.p2tr_bytes h hh)

/-- `Script.to_p2sh_script_pub_key`: HASH160 of exactly the assembled bytes (translated RIPEMD-160; SHA-256 a parameter whose
output is shorter than 2^61 bytes — it is 32) -/
theorem gen_to_p2sh (sha256 : Bytes → Bytes) (hlen : ∀ b, (sha256 b).length < 2 ^ 61) (T : Tables) (s : List Spec.Tok) :
    Gen.script_to_p2sh_spk sha256 T.opCodes (s.map toPy) =
      (toP2shSpk sha256 C20Gen.genTabs T s).map (·.map toPy) := by
  unfold Gen.script_to_p2sh_spk toP2shSpk scriptToHash160
  rw [gen_script_to_bytes]
  cases scriptBytes T s with
  | error e => rfl
  | ok b =>
    rw [ok_bind, C20Gen.gen_ripemd160 _ (hlen b), ok_bind]
    rfl

theorem gen_to_p2wsh (sha256 : Bytes → Bytes) (T : Tables) (s : List Spec.Tok) :
    Gen.script_to_p2wsh_spk sha256 T.opCodes (s.map toPy) = (toP2wshSpk sha256 T s).map (·.map toPy) := by
  unfold Gen.script_to_p2wsh_spk toP2wshSpk scriptToSha256
  rw [gen_script_to_bytes]
  cases scriptBytes T s with
  | error e => rfl
  | ok b => rfl

/-- `Address._script_to_hash160`: what a P2SH address object built from a script holds — HASH160 of the exact script encoding -/
theorem gen_address_script_to_hash160 (sha256 : Bytes → Bytes) (hlen : ∀ b, (sha256 b).length < 2 ^ 61) (T : Tables) (s : List Spec.Tok) :
    Gen.address_script_to_hash160 sha256 T.opCodes (s.map toPy) = scriptToHash160 sha256 C20Gen.genTabs T s := by
  unfold Gen.address_script_to_hash160 scriptToHash160
  rw [gen_script_to_bytes]
  cases scriptBytes T s with
  | error e => rfl
  | ok b =>
    rw [ok_bind]
    simp only []
    rw [C20Gen.gen_ripemd160 _ (hlen b), ok_bind]
    rfl

/-- `SegwitAddress._script_to_hash`: what a P2WSH address object built from a script holds — SHA-256 of the exact script encoding -/
theorem gen_segwit_script_to_hash (sha256 : Bytes → Bytes) (T : Tables) (s : List Spec.Tok) :
    Gen.segwit_script_to_hash sha256 T.opCodes (s.map toPy) = scriptToSha256 sha256 T s := by
  unfold Gen.segwit_script_to_hash scriptToSha256
  rw [gen_script_to_bytes]

end C12Gen
