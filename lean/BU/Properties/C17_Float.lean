import Mathlib.Data.Real.Basic
import Mathlib.Tactic.Linarith
import Mathlib.Tactic.NormNum
import Mathlib.Tactic.Positivity
/-!
# C17, continued — the float branch of `to_satoshis` under the standard model of binary64 rounding

`to_satoshis(x)` computes `int(round(x * 100000000))`.  When the amount is a Python float, `x` is the binary64
nearest to the decimal amount `k / 10^8` and the product is rounded once more.  Under the standard model of
IEEE-754 round-to-nearest (`|fl t − t| ≤ u·|t|` with `u = 2^-53`, no overflow/underflow in this range) the result
is within 1/2 of `k`, so rounding to the nearest integer returns exactly `k` for every amount up to 21 million BTC.
The hypothesis `StdModel` is about CPython floats (trusted base); it is not used for Decimal / int amounts.
-/
namespace C17

/-- unit roundoff of binary64 -/
noncomputable def u : ℝ := 1 / 2 ^ 53

/-- standard model of floating-point rounding to nearest -/
def StdModel (fl : ℝ → ℝ) : Prop := ∀ t : ℝ, |fl t - t| ≤ u * |t|

/-- for every eight-decimal amount `k / 10^8` with `0 ≤ k ≤ 21·10^14` satoshis: the computed product is
strictly within 1/2 of `k` -/
theorem sat_float_within_half (fl : ℝ → ℝ) (h : StdModel fl) (k : ℕ) (hk : k ≤ 2100000000000000) :
    |fl (fl ((k : ℝ) / 100000000) * 100000000) - (k : ℝ)| < 1 / 2 := by
  have h1 := h ((k : ℝ) / 100000000)
  have h2 := h (fl ((k : ℝ) / 100000000) * 100000000)
  generalize fl (fl ((k : ℝ) / 100000000) * 100000000) = x2 at h2 ⊢
  generalize fl ((k : ℝ) / 100000000) = x1 at h1 h2
  have hK0 : (0 : ℝ) ≤ k := Nat.cast_nonneg k
  have hK : (k : ℝ) ≤ 2100000000000000 := by exact_mod_cast hk
  generalize (k : ℝ) = K at *
  have ha : (0 : ℝ) ≤ K / 100000000 := by positivity
  rw [abs_of_nonneg ha, abs_le] at h1
  unfold u at h1 h2
  obtain ⟨h1a, h1b⟩ := h1
  have hP : 0 ≤ x1 * 100000000 := by
    have : (1 : ℝ) / 2 ^ 53 * (K / 100000000) ≤ K / 100000000 := by
      have : (1 : ℝ) / 2 ^ 53 ≤ 1 := by norm_num
      nlinarith
    nlinarith
  rw [abs_of_nonneg hP, abs_le] at h2
  obtain ⟨h2a, h2b⟩ := h2
  rw [abs_lt]
  norm_num at h1a h1b h2a h2b ⊢
  constructor <;> linarith

/-- hence the nearest integer is `k` itself: any integer `m` with `|x − m| ≤ 1/2` (what `round` returns) equals `k` -/
theorem sat_float_exact (fl : ℝ → ℝ) (h : StdModel fl) (k : ℕ) (hk : k ≤ 2100000000000000) (m : ℤ)
    (hm : |fl (fl ((k : ℝ) / 100000000) * 100000000) - (m : ℝ)| ≤ 1 / 2) : m = (k : ℤ) := by
  have h1 := sat_float_within_half fl h k hk
  generalize fl (fl ((k : ℝ) / 100000000) * 100000000) = x2 at h1 hm
  have h3 : |(m : ℝ) - (k : ℝ)| < 1 := by
    rw [abs_lt] at h1 ⊢
    rw [abs_le] at hm
    constructor <;> linarith [h1.1, h1.2, hm.1, hm.2]
  have h4 : |m - (k : ℤ)| < 1 := by
    have : ((|m - (k : ℤ)| : ℤ) : ℝ) < ((1 : ℤ) : ℝ) := by
      rw [Int.cast_abs, Int.cast_sub, Int.cast_natCast, Int.cast_one]; exact h3
    exact_mod_cast this
  have := Int.abs_lt_one_iff.mp h4
  omega

end C17
