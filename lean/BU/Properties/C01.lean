import BU.Py
import BU.Spec.TxWire
import BU.Model.Tx
import BU.Properties.C02
import BU.Properties.C17
import BU.Proofs.TxLemmas
/-!
# C01 — transaction wire format: encode, parse and re-encode are exact; ids are right

M: `Model.Tx.toBytes` / `Model.Tx.parse` (hand models of `Transaction.to_bytes` / `from_raw` and of the
TxInput / TxOutput / TxWitnessInput codecs), tied to the code by the correspondence run; the
CompactSize and push-form leaves they rest on are T (C17, C02).
-/
namespace C01
open Py Spec Model

/-- a script in the property's domain whose encoding stays below 2^32 bytes -/
def WFScript (T : Tables) (s : List Tok) : Bool :=
  s.all (C02.WFTok T) &&
  (match scriptBytes T s with
   | .ok bs => decide (bs.length < 2 ^ 32)
   | .error _ => false)

def WFIn (T : Tables) (i : TxIn) : Bool :=
  decide (i.txid.length = 32) && decide (i.sequence.length = 4) && decide (0 ≤ i.index) && decide (i.index < 2 ^ 32) &&
  (if i.txid = zero32 then
     -- coinbase: the script is one raw data element
     (match i.scriptSig with
      | [.data d] => decide (d.length < 2 ^ 32)
      | _ => false)
   else WFScript T i.scriptSig)

def WFOut (T : Tables) (o : TxOut) : Bool :=
  decide (0 ≤ o.amount) && decide (o.amount < 2 ^ 63) && WFScript T o.script

def WFTx (T : Tables) (t : Tx) : Bool :=
  decide (t.version.length = 4) && decide (t.locktime.length = 4) &&
  decide (1 ≤ t.inputs.length) && decide (t.inputs.length < 2 ^ 32) && decide (t.outputs.length < 2 ^ 32) &&
  t.inputs.all (WFIn T) && t.outputs.all (WFOut T) &&
  -- BIP144: one witness stack per input
  (if t.hasSegwit then
     decide (t.witnesses.length = t.inputs.length) &&
     t.witnesses.all (fun st => decide (st.length < 2 ^ 32) && st.all (fun it => decide (it.length < 2 ^ 32)))
   else true)

/-- the Spec's view of a model transaction: scripts assembled to bytes (consensus encoding, C02),
outpoint hash in wire order -/
def assembleIn (i : TxIn) : Option RawIn := do
  let s ← if i.txid = zero32 then (match i.scriptSig with | [.data d] => some d | _ => none) else encToks i.scriptSig
  pure { prevHash := i.txid.reverse, prevIndex := i.index.toNat, script := s, sequence := i.sequence }

def assembleOut (o : TxOut) : Option RawOut := do
  let s ← encToks o.script
  pure { value := o.amount.toNat, script := s }

def assembleTx (t : Tx) : Option RawTx := do
  let ins ← t.inputs.mapM assembleIn
  let outs ← t.outputs.mapM assembleOut
  pure { version := t.version, ins := ins, outs := outs, wits := t.witnesses, locktime := t.locktime }

/-! ### helper definitions and lemmas for the proofs -/

section helpers
open TxLemmas

/-- the script bytes `TxInput.to_bytes` emits -/
def inScriptRaw (T : Tables) (i : TxIn) : Bytes :=
  if i.txid = zero32 then (match i.scriptSig with | .data d :: _ => d | _ => [])
  else (match scriptBytes T i.scriptSig with | .ok b => b | .error _ => [])

def rawIn (T : Tables) (i : TxIn) : RawIn :=
  { prevHash := i.txid.reverse, prevIndex := i.index.toNat, script := inScriptRaw T i, sequence := i.sequence }

def outScriptRaw (T : Tables) (o : TxOut) : Bytes :=
  match scriptBytes T o.script with | .ok b => b | .error _ => []

def rawOut (T : Tables) (o : TxOut) : RawOut := { value := o.amount.toNat, script := outScriptRaw T o }

def rawTx (T : Tables) (t : Tx) : RawTx :=
  { version := t.version, ins := t.inputs.map (rawIn T), outs := t.outputs.map (rawOut T),
    wits := t.witnesses, locktime := t.locktime }

/-- what `TxInput.from_raw` returns on the encoding of `i` -/
def parsedIn (T : Tables) (seg : Bool) (i : TxIn) : TxIn :=
  { txid := i.txid, index := i.index,
    scriptSig := if i.txid = zero32 then [Tok.data (inScriptRaw T i)] else scriptFromRaw T seg (inScriptRaw T i),
    sequence := i.sequence }

def parsedOut (T : Tables) (seg : Bool) (o : TxOut) : TxOut :=
  { amount := o.amount, script := scriptFromRaw T seg (outScriptRaw T o) }

def parsedTx (T : Tables) (t : Tx) : Tx :=
  { version := t.version, inputs := t.inputs.map (parsedIn T t.hasSegwit),
    outputs := t.outputs.map (parsedOut T t.hasSegwit), locktime := t.locktime, hasSegwit := t.hasSegwit,
    witnesses := if t.hasSegwit then t.witnesses else [] }

theorem wfScript_elim (T : Tables) (hT : C02.TablesOK T = true) (s : List Tok) (h : WFScript T s = true) :
    ∃ bs, scriptBytes T s = .ok bs ∧ encToks s = some bs ∧ bs.length < 2 ^ 32 ∧
      (∀ t ∈ s, C02.WFTok T t = true) := by
  unfold WFScript at h
  rw [Bool.and_eq_true, List.all_eq_true] at h
  obtain ⟨hw, hl⟩ := h
  obtain ⟨bs, h1, h2⟩ := C02.assemble T hT s hw
  rw [h1] at hl
  exact ⟨bs, h1, h2, by simpa using hl, hw⟩

theorem wfIn_elim (T : Tables) (i : TxIn) (h : WFIn T i = true) :
    i.txid.length = 32 ∧ i.sequence.length = 4 ∧ 0 ≤ i.index ∧ i.index < 2 ^ 32 ∧
    (if i.txid = zero32 then ∃ d, i.scriptSig = [.data d] ∧ d.length < 2 ^ 32 else WFScript T i.scriptSig = true) := by
  unfold WFIn at h
  simp only [Bool.and_eq_true, decide_eq_true_eq] at h
  obtain ⟨⟨⟨⟨a, b⟩, c⟩, d⟩, e⟩ := h
  refine ⟨a, b, c, d, ?_⟩
  by_cases hz : i.txid = zero32
  · simp only [hz, if_true] at e ⊢
    split at e
    · exact ⟨_, by assumption, by simpa using e⟩
    · exact absurd e (by simp)
  · simp only [hz, if_false] at e ⊢
    exact e

theorem in_spec (T : Tables) (hT : C02.TablesOK T = true) (i : TxIn) (h : WFIn T i = true) :
    assembleIn i = some (rawIn T i) ∧ TxIn.toBytes T i = .ok (encIn (rawIn T i)) ∧
      (inScriptRaw T i).length < 2 ^ 32 := by
  obtain ⟨h32, h4, h0, h1, hs⟩ := wfIn_elim T i h
  by_cases hz : i.txid = zero32
  · simp only [hz, if_true] at hs
    obtain ⟨d, hd, hl⟩ := hs
    have hr : inScriptRaw T i = d := by simp [inScriptRaw, hz, hd]
    refine ⟨?_, ?_, by rw [hr]; exact hl⟩
    · simp [assembleIn, rawIn, hz, hd, hr]
    · unfold TxIn.toBytes
      rw [pack_L i.index h0 h1]
      simp [hz, hd, encIn, rawIn, hr, withLen, bind, Except.bind, pure, Except.pure]
  · simp only [hz, if_false] at hs
    obtain ⟨bs, hb, he, hl, _⟩ := wfScript_elim T hT _ hs
    have hr : inScriptRaw T i = bs := by simp [inScriptRaw, hz, hb]
    refine ⟨?_, ?_, by rw [hr]; exact hl⟩
    · simp [assembleIn, rawIn, hz, he, hr]
    · unfold TxIn.toBytes
      rw [pack_L i.index h0 h1]
      simp [hz, hb, encIn, rawIn, hr, withLen, bind, Except.bind, pure, Except.pure]

theorem wfOut_elim (T : Tables) (o : TxOut) (h : WFOut T o = true) :
    0 ≤ o.amount ∧ o.amount < 2 ^ 63 ∧ WFScript T o.script = true := by
  unfold WFOut at h
  simp only [Bool.and_eq_true, decide_eq_true_eq] at h
  obtain ⟨⟨a, b⟩, c⟩ := h
  exact ⟨a, b, c⟩

theorem out_spec (T : Tables) (hT : C02.TablesOK T = true) (o : TxOut) (h : WFOut T o = true) :
    assembleOut o = some (rawOut T o) ∧ TxOut.toBytes T o = .ok (encOut (rawOut T o)) ∧
      (outScriptRaw T o).length < 2 ^ 32 := by
  obtain ⟨h0, h1, hs⟩ := wfOut_elim T o h
  obtain ⟨bs, hb, he, hl, _⟩ := wfScript_elim T hT _ hs
  have hr : outScriptRaw T o = bs := by simp [outScriptRaw, hb]
  refine ⟨?_, ?_, by rw [hr]; exact hl⟩
  · simp [assembleOut, rawOut, he, hr]
  · unfold TxOut.toBytes
    rw [pack_q o.amount h0 h1]
    simp [hb, encOut, rawOut, hr, withLen, bind, Except.bind, pure, Except.pure]

theorem parse_in (T : Tables) (hT : C02.TablesOK T = true) (i : TxIn) (h : WFIn T i = true) (seg : Bool)
    (rest : Bytes) : TxIn.parse T seg (encIn (rawIn T i) ++ rest) = .ok (parsedIn T seg i, rest) := by
  obtain ⟨h32, h4, h0, h1, _⟩ := wfIn_elim T i h
  obtain ⟨_, _, hl⟩ := in_spec T hT i h
  unfold TxIn.parse
  simp only [encIn, rawIn, withLen, List.append_assoc]
  rw [takeN_append 32 i.txid.reverse _ (by simp [h32])]
  simp only [bind, Except.bind]
  rw [takeN_append 4 (leBytes 4 i.index.toNat) _ (by simp)]
  simp only []
  rw [parseCS_compactSize _ (by omega)]
  simp only []
  rw [takeN_append _ (inScriptRaw T i) _ rfl]
  simp only []
  rw [takeN_append 4 i.sequence _ h4]
  simp only [pure, Except.pure, List.reverse_reverse,
    natCast_toNat_ofLE_leBytes4 i.index h0 h1, parsedIn]

theorem parse_out (T : Tables) (hT : C02.TablesOK T = true) (o : TxOut) (h : WFOut T o = true) (seg : Bool)
    (rest : Bytes) : TxOut.parse T seg (encOut (rawOut T o) ++ rest) = .ok (parsedOut T seg o, rest) := by
  obtain ⟨h0, h1, _⟩ := wfOut_elim T o h
  obtain ⟨_, _, hl⟩ := out_spec T hT o h
  unfold TxOut.parse
  simp only [encOut, rawOut, withLen, List.append_assoc]
  rw [takeN_append 8 (leBytes 8 o.amount.toNat) _ (by simp)]
  simp only [bind, Except.bind]
  rw [parseCS_compactSize _ (by omega)]
  simp only []
  rw [takeN_append _ (outScriptRaw T o) _ rfl]
  simp only [pure, Except.pure, natCast_toNat_ofLE_leBytes8 o.amount h0 h1, parsedOut]

theorem toBytes_parsedIn (T : Tables) (hT : C02.TablesOK T = true) (i : TxIn) (h : WFIn T i = true) (seg : Bool) :
    TxIn.toBytes T (parsedIn T seg i) = .ok (encIn (rawIn T i)) := by
  obtain ⟨h32, h4, h0, h1, hs⟩ := wfIn_elim T i h
  unfold TxIn.toBytes
  simp only [parsedIn]
  rw [pack_L i.index h0 h1]
  by_cases hz : i.txid = zero32
  · simp [hz, encIn, rawIn, withLen, bind, Except.bind, pure, Except.pure]
  · simp only [hz, if_false] at hs
    obtain ⟨bs, hb, he, hl, hw⟩ := wfScript_elim T hT _ hs
    have hr : inScriptRaw T i = bs := by simp [inScriptRaw, hz, hb]
    have := C02.reassemble T hT _ hw bs hb seg
    simp [hz, hr, this, encIn, rawIn, withLen, bind, Except.bind, pure, Except.pure]

theorem toBytes_parsedOut (T : Tables) (hT : C02.TablesOK T = true) (o : TxOut) (h : WFOut T o = true) (seg : Bool) :
    TxOut.toBytes T (parsedOut T seg o) = .ok (encOut (rawOut T o)) := by
  obtain ⟨h0, h1, hs⟩ := wfOut_elim T o h
  obtain ⟨bs, hb, he, hl, hw⟩ := wfScript_elim T hT _ hs
  have hr : outScriptRaw T o = bs := by simp [outScriptRaw, hb]
  have := C02.reassemble T hT _ hw bs hb seg
  unfold TxOut.toBytes
  simp only [parsedOut]
  rw [pack_q o.amount h0 h1]
  simp [hr, this, encOut, rawOut, withLen, bind, Except.bind, pure, Except.pure]

theorem wfTx_elim (T : Tables) (t : Tx) (h : WFTx T t = true) :
    t.version.length = 4 ∧ t.locktime.length = 4 ∧ 1 ≤ t.inputs.length ∧ t.inputs.length < 2 ^ 32 ∧
    t.outputs.length < 2 ^ 32 ∧ (∀ i ∈ t.inputs, WFIn T i = true) ∧ (∀ o ∈ t.outputs, WFOut T o = true) ∧
    (t.hasSegwit = true → t.witnesses.length = t.inputs.length ∧
      ∀ st ∈ t.witnesses, st.length < 2 ^ 32 ∧ ∀ it ∈ st, it.length < 2 ^ 32) := by
  unfold WFTx at h
  simp only [Bool.and_eq_true, decide_eq_true_eq, List.all_eq_true] at h
  obtain ⟨⟨⟨⟨⟨⟨⟨a, b⟩, c⟩, d⟩, e⟩, f⟩, g⟩, w⟩ := h
  refine ⟨a, b, c, d, e, f, g, ?_⟩
  intro hs
  simp only [hs, if_true, Bool.and_eq_true, decide_eq_true_eq, List.all_eq_true] at w
  exact w

theorem tx_spec (T : Tables) (hT : C02.TablesOK T = true) (t : Tx) (h : WFTx T t = true) :
    assembleTx t = some (rawTx T t) ∧ ∀ seg, t.toBytes T seg = .ok (encodeTx (rawTx T t) seg) := by
  obtain ⟨hv, hl, hn1, hn, hm, hins, houts, hw⟩ := wfTx_elim T t h
  have e1 := mapM_some assembleIn (rawIn T) t.inputs (fun i hi => (in_spec T hT i (hins i hi)).1)
  have e2 := mapM_some assembleOut (rawOut T) t.outputs (fun o ho => (out_spec T hT o (houts o ho)).1)
  have e3 := concatM_map (TxIn.toBytes T) (fun i => encIn (rawIn T i)) t.inputs
    (fun i hi => (in_spec T hT i (hins i hi)).2.1)
  have e4 := concatM_map (TxOut.toBytes T) (fun o => encOut (rawOut T o)) t.outputs
    (fun o ho => (out_spec T hT o (houts o ho)).2.1)
  have e5 : (fun w : List Bytes => compactSize w.length ++ witnessBytes w) = encStack := rfl
  constructor
  · simp [assembleTx, e1, e2, rawTx]
  · intro seg
    unfold Tx.toBytes
    rw [e3, e4, e5]
    simp only [bind, Except.bind, pure, Except.pure, encodeTx, rawTx, List.length_map, List.flatMap_map]

end helpers

/-- serialising yields exactly the consensus wire encoding (legacy, or BIP144 with marker, flag and one
witness stack per input) -/
theorem encode_eq_wire (T : Tables) (hT : C02.TablesOK T = true) (t : Tx) (h : WFTx T t = true) (seg : Bool) :
    ∃ r, assembleTx t = some r ∧ t.toBytes T seg = .ok (encodeTx r seg) :=
  ⟨rawTx T t, (tx_spec T hT t h).1, (tx_spec T hT t h).2 seg⟩

/-- "field for field": what a correct parse of the encoding of `t` looks like -/
def inRenders (a b : TxIn) : Bool :=
  a.txid == b.txid && a.index == b.index && a.sequence == b.sequence &&
  (if a.txid = zero32 then a.scriptSig == b.scriptSig else renders a.scriptSig b.scriptSig)

def outRenders (a b : TxOut) : Bool := a.amount == b.amount && renders a.script b.script

def all2 {α} (f : α → α → Bool) : List α → List α → Bool
  | [], [] => true
  | a :: as, b :: bs => f a b && all2 f as bs
  | _, _ => false

def txRenders (a b : Tx) : Bool :=
  a.version == b.version && a.locktime == b.locktime && a.hasSegwit == b.hasSegwit &&
  all2 inRenders a.inputs b.inputs && all2 outRenders a.outputs b.outputs &&
  (if a.hasSegwit then a.witnesses == b.witnesses else b.witnesses == [])

section helpers2
open TxLemmas

theorem inRenders_parsedIn (T : Tables) (hT : C02.TablesOK T = true) (i : TxIn) (h : WFIn T i = true) (seg : Bool) :
    inRenders i (parsedIn T seg i) = true := by
  obtain ⟨h32, h4, h0, h1, hs⟩ := wfIn_elim T i h
  unfold inRenders
  by_cases hz : i.txid = zero32
  · simp only [hz, if_true] at hs
    obtain ⟨d, hd, hl⟩ := hs
    simp [parsedIn, hz, inScriptRaw, hd]
  · simp only [hz, if_false] at hs
    obtain ⟨bs, hb, he, hl, hw⟩ := wfScript_elim T hT _ hs
    have hr : inScriptRaw T i = bs := by simp [inScriptRaw, hz, hb]
    have := C02.disasm_assemble T hT _ hw bs hb seg
    simp [parsedIn, hz, hr, this]

theorem outRenders_parsedOut (T : Tables) (hT : C02.TablesOK T = true) (o : TxOut) (h : WFOut T o = true) (seg : Bool) :
    outRenders o (parsedOut T seg o) = true := by
  obtain ⟨h0, h1, hs⟩ := wfOut_elim T o h
  obtain ⟨bs, hb, he, hl, hw⟩ := wfScript_elim T hT _ hs
  have hr : outScriptRaw T o = bs := by simp [outScriptRaw, hb]
  have := C02.disasm_assemble T hT _ hw bs hb seg
  simp [outRenders, parsedOut, hr, this]

theorem all2_map {α : Type} (r : α → α → Bool) (f : α → α) (xs : List α) (h : ∀ x ∈ xs, r x (f x) = true) :
    all2 r xs (xs.map f) = true := by
  induction xs with
  | nil => simp [all2]
  | cons x xs ih =>
    simp [all2, h x (by simp), ih (fun y hy => h y (by simp [hy]))]

theorem parse_tx (T : Tables) (hT : C02.TablesOK T = true) (t : Tx) (h : WFTx T t = true) :
    Tx.parse T (encodeTx (rawTx T t) t.hasSegwit) = .ok (parsedTx T t) := by
  obtain ⟨hv, hl, hn1, hn, hm, hins, houts, hw⟩ := wfTx_elim T t h
  have hI := fun seg rest => parseMany_map (TxIn.parse T seg) (fun i => encIn (rawIn T i)) (parsedIn T seg)
    t.inputs (fun i hi r => parse_in T hT i (hins i hi) seg r) rest
  have hO := fun seg rest => parseMany_map (TxOut.parse T seg) (fun o => encOut (rawOut T o)) (parsedOut T seg)
    t.outputs (fun o ho r => parse_out T hT o (houts o ho) seg r) rest
  unfold Tx.parse encodeTx
  simp only [rawTx, parsedTx, List.length_map, List.flatMap_map, List.append_assoc]
  cases hseg : t.hasSegwit
  · simp only [Bool.false_eq_true, if_false, List.nil_append, List.drop_left' hv, List.take_left' hv,
      compactSize_head_ne_zero _ hn1]
    rw [parseCS_compactSize _ (by omega)]
    simp only [bind, Except.bind]
    rw [hI]
    simp only []
    rw [parseCS_compactSize _ (by omega)]
    simp only []
    rw [hO]
    simp only [pure, Except.pure, List.take_of_length_le (Nat.le_of_eq hl)]
  · obtain ⟨hwl, hws⟩ := hw hseg
    have hW := parseMany_map parseStack encStack id t.witnesses
      (fun st hst r => parseStack_encStack st (by have := (hws st hst).1; omega)
        (fun it hit => by have := (hws st hst).2 it hit; omega) r) t.locktime
    rw [hwl, List.map_id] at hW
    have e01 : ([0, 1] : Bytes).length = 2 := rfl
    simp only [if_true, List.drop_left' hv, List.take_left' hv, List.take_left' e01, List.drop_left' e01,
      beq_self_eq_true]
    rw [parseCS_compactSize _ (by omega)]
    simp only [bind, Except.bind]
    rw [hI]
    simp only []
    rw [parseCS_compactSize _ (by omega)]
    simp only []
    rw [hO]
    simp only []
    rw [hW]
    simp only [pure, Except.pure, List.take_of_length_le (Nat.le_of_eq hl)]

theorem txRenders_parsedTx (T : Tables) (hT : C02.TablesOK T = true) (t : Tx) (h : WFTx T t = true) :
    txRenders t (parsedTx T t) = true := by
  obtain ⟨hv, hl, hn1, hn, hm, hins, houts, hw⟩ := wfTx_elim T t h
  have a := all2_map inRenders (parsedIn T t.hasSegwit) t.inputs
    (fun i hi => inRenders_parsedIn T hT i (hins i hi) _)
  have b := all2_map outRenders (parsedOut T t.hasSegwit) t.outputs
    (fun o ho => outRenders_parsedOut T hT o (houts o ho) _)
  unfold txRenders
  simp only [parsedTx, a, b, beq_self_eq_true, Bool.and_self, Bool.true_and]
  cases t.hasSegwit <;> simp

theorem toBytes_parsedTx (T : Tables) (hT : C02.TablesOK T = true) (t : Tx) (h : WFTx T t = true) :
    (parsedTx T t).toBytes T (parsedTx T t).hasSegwit = .ok (encodeTx (rawTx T t) t.hasSegwit) := by
  obtain ⟨hv, hl, hn1, hn, hm, hins, houts, hw⟩ := wfTx_elim T t h
  have e3 := concatM_map (fun i => TxIn.toBytes T (parsedIn T t.hasSegwit i)) (fun i => encIn (rawIn T i)) t.inputs
    (fun i hi => toBytes_parsedIn T hT i (hins i hi) _)
  have e4 := concatM_map (fun o => TxOut.toBytes T (parsedOut T t.hasSegwit o)) (fun o => encOut (rawOut T o))
    t.outputs (fun o ho => toBytes_parsedOut T hT o (houts o ho) _)
  have e5 : (fun w : List Bytes => compactSize w.length ++ witnessBytes w) = encStack := rfl
  unfold Tx.toBytes
  simp only [parsedTx, List.map_map, Function.comp_def, e3, e4, e5, List.length_map]
  simp only [bind, Except.bind, pure, Except.pure, encodeTx, rawTx, List.length_map, List.flatMap_map]
  by_cases hs : t.hasSegwit = true <;> simp [hs]

end helpers2

/-- parsing the encoding of any well-formed transaction (coinbase, legacy, segwit, mixed; empty witness
stacks next to non-empty ones; any counts) returns its fields … -/
theorem parse_encode (T : Tables) (hT : C02.TablesOK T = true) (t : Tx) (h : WFTx T t = true)
    (bs : Bytes) (hb : t.toBytes T t.hasSegwit = .ok bs) :
    ∃ t', Tx.parse T bs = .ok t' ∧ txRenders t t' = true := by
  rw [(tx_spec T hT t h).2 t.hasSegwit] at hb
  obtain rfl := Except.ok.inj hb
  exact ⟨parsedTx T t, parse_tx T hT t h, txRenders_parsedTx T hT t h⟩

/-- … and re-serialising the parsed transaction reproduces the original bytes -/
theorem reencode (T : Tables) (hT : C02.TablesOK T = true) (t : Tx) (h : WFTx T t = true)
    (bs : Bytes) (hb : t.toBytes T t.hasSegwit = .ok bs) :
    ∃ t', Tx.parse T bs = .ok t' ∧ t'.toBytes T t'.hasSegwit = .ok bs := by
  rw [(tx_spec T hT t h).2 t.hasSegwit] at hb
  obtain rfl := Except.ok.inj hb
  exact ⟨parsedTx T t, parse_tx T hT t h, toBytes_parsedTx T hT t h⟩

/-- txid / wtxid are the byte-reversed double-SHA256 of the witness-stripped / full wire encoding -/
theorem txid_wtxid (sha256 : Bytes → Bytes) (T : Tables) (hT : C02.TablesOK T = true) (t : Tx) (h : WFTx T t = true) :
    ∃ r, assembleTx t = some r ∧
      t.txid sha256 T = .ok (sha256 (sha256 (encodeTx r false))).reverse ∧
      t.wtxid sha256 T = .ok (sha256 (sha256 (encodeTx r t.hasSegwit))).reverse := by
  obtain ⟨h1, h2⟩ := tx_spec T hT t h
  refine ⟨rawTx T t, h1, ?_, ?_⟩
  · simp only [Tx.txid, h2 false, bind, Except.bind, pure, Except.pure]
  · simp only [Tx.wtxid, h2 t.hasSegwit, bind, Except.bind, pure, Except.pure]

end C01
