import BU.Py
import BU.Spec.TxWire
import BU.Model.Tx
import BU.Properties.C02
import BU.Properties.C17
import BU.Proofs.TxLemmas
/-!
# C01 — transaction wire format: encode, parse and re-encode are exact; ids are right

M: `Model.Tx.toBytes` / `Model.Tx.parse` (hand models of `Transaction.to_bytes` / `from_raw` and of the
TxInput / TxOutput / TxWitnessInput codecs), tied to the code by the correspondence run; the
CompactSize and push-form leaves they rest on are T (C17, C02).
-/
namespace C01
open Py Spec Model

/-- a script in the property's domain whose encoding stays below 2^32 bytes -/
def WFScript (T : Tables) (s : List Tok) : Bool :=
  s.all (C02.WFTok T) &&
  (match scriptBytes T s with
   | .ok bs => decide (bs.length < 2 ^ 32)
   | .error _ => false)

def WFIn (T : Tables) (i : TxIn) : Bool :=
  decide (i.txid.length = 32) && decide (i.sequence.length = 4) && decide (0 ≤ i.index) && decide (i.index < 2 ^ 32) &&
  (if i.txid = zero32 then
     -- coinbase: the script is one raw data element
     (match i.scriptSig with
      | [.data d] => decide (d.length < 2 ^ 32)
      | _ => false)
   else WFScript T i.scriptSig)

def WFOut (T : Tables) (o : TxOut) : Bool :=
  decide (0 ≤ o.amount) && decide (o.amount < 2 ^ 63) && WFScript T o.script

def WFTx (T : Tables) (t : Tx) : Bool :=
  decide (t.version.length = 4) && decide (t.locktime.length = 4) &&
  decide (1 ≤ t.inputs.length) && decide (t.inputs.length < 2 ^ 32) && decide (t.outputs.length < 2 ^ 32) &&
  t.inputs.all (WFIn T) && t.outputs.all (WFOut T) &&
  -- BIP144: one witness stack per input
  (if t.hasSegwit then
     decide (t.witnesses.length = t.inputs.length) &&
     t.witnesses.all (fun st => decide (st.length < 2 ^ 32) && st.all (fun it => decide (it.length < 2 ^ 32)))
   else true)

/-- the Spec's view of a model transaction: scripts assembled to bytes (consensus encoding, C02),
outpoint hash in wire order -/
def assembleIn (i : TxIn) : Option RawIn := do
  let s ← if i.txid = zero32 then (match i.scriptSig with | [.data d] => some d | _ => none) else encToks i.scriptSig
  pure { prevHash := i.txid.reverse, prevIndex := i.index.toNat, script := s, sequence := i.sequence }

def assembleOut (o : TxOut) : Option RawOut := do
  let s ← encToks o.script
  pure { value := o.amount.toNat, script := s }

def assembleTx (t : Tx) : Option RawTx := do
  let ins ← t.inputs.mapM assembleIn
  let outs ← t.outputs.mapM assembleOut
  pure { version := t.version, ins := ins, outs := outs, wits := t.witnesses, locktime := t.locktime }

/-! ### helper definitions and lemmas for the proofs -/

section helpers
open TxLemmas

/-- the script bytes `TxInput.to_bytes` emits -/
def inScriptRaw (T : Tables) (i : TxIn) : Bytes :=
  if i.txid = zero32 then (match i.scriptSig with | .data d :: _ => d | _ => [])
  else (match scriptBytes T i.scriptSig with | .ok b => b | .error _ => [])

def rawIn (T : Tables) (i : TxIn) : RawIn :=
  { prevHash := i.txid.reverse, prevIndex := i.index.toNat, script := inScriptRaw T i, sequence := i.sequence }

def outScriptRaw (T : Tables) (o : TxOut) : Bytes :=
  match scriptBytes T o.script with | .ok b => b | .error _ => []

def rawOut (T : Tables) (o : TxOut) : RawOut := { value := o.amount.toNat, script := outScriptRaw T o }

def rawTx (T : Tables) (t : Tx) : RawTx :=
  { version := t.version, ins := t.inputs.map (rawIn T), outs := t.outputs.map (rawOut T),
    wits := t.witnesses, locktime := t.locktime }

/-- what `TxInput.from_raw` returns on the encoding of `i` -/
def parsedIn (T : Tables) (seg : Bool) (i : TxIn) : TxIn :=
  { txid := i.txid, index := i.index,
    scriptSig := if i.txid = zero32 then [Tok.data (inScriptRaw T i)] else scriptFromRaw T seg (inScriptRaw T i),
    sequence := i.sequence }

def parsedOut (T : Tables) (seg : Bool) (o : TxOut) : TxOut :=
  { amount := o.amount, script := scriptFromRaw T seg (outScriptRaw T o) }

def parsedTx (T : Tables) (t : Tx) : Tx :=
  { version := t.version, inputs := t.inputs.map (parsedIn T t.hasSegwit),
    outputs := t.outputs.map (parsedOut T t.hasSegwit), locktime := t.locktime, hasSegwit := t.hasSegwit,
    witnesses := if t.hasSegwit then t.witnesses else [] }

theorem wfScript_elim (T : Tables) (hT : C02.TablesOK T = true) (s : List Tok) (h : WFScript T s = true) :
    ∃ bs, scriptBytes T s = .ok bs ∧ encToks s = some bs ∧ bs.length < 2 ^ 32 ∧
      (∀ t ∈ s, C02.WFTok T t = true) := by
  unfold WFScript at h
  rw [Bool.and_eq_true, List.all_eq_true] at h
  obtain ⟨hw, hl⟩ := h
  obtain ⟨bs, h1, h2⟩ := C02.assemble T hT s hw
  rw [h1] at hl
  exact ⟨bs, h1, h2, by simpa using hl, hw⟩

theorem wfIn_elim (T : Tables) (i : TxIn) (h : WFIn T i = true) :
    i.txid.length = 32 ∧ i.sequence.length = 4 ∧ 0 ≤ i.index ∧ i.index < 2 ^ 32 ∧
    (if i.txid = zero32 then ∃ d, i.scriptSig = [.data d] ∧ d.length < 2 ^ 32 else WFScript T i.scriptSig = true) := by
  unfold WFIn at h
  simp only [Bool.and_eq_true, decide_eq_true_eq] at h
  obtain ⟨⟨⟨⟨a, b⟩, c⟩, d⟩, e⟩ := h
  refine ⟨a, b, c, d, ?_⟩
  by_cases hz : i.txid = zero32
  · simp only [hz, if_true] at e ⊢
    split at e
    · exact ⟨_, by assumption, by simpa using e⟩
    · exact absurd e (by simp)
  · simp only [hz, if_false] at e ⊢
    exact e

theorem in_spec (T : Tables) (hT : C02.TablesOK T = true) (i : TxIn) (h : WFIn T i = true) :
    assembleIn i = some (rawIn T i) ∧ TxIn.toBytes T i = .ok (encIn (rawIn T i)) ∧
      (inScriptRaw T i).length < 2 ^ 32 := by
  obtain ⟨h32, h4, h0, h1, hs⟩ := wfIn_elim T i h
  by_cases hz : i.txid = zero32
  · simp only [hz, if_true] at hs
    obtain ⟨d, hd, hl⟩ := hs
    have hr : inScriptRaw T i = d := by simp [inScriptRaw, hz, hd]
    refine ⟨?_, ?_, by rw [hr]; exact hl⟩
    · simp [assembleIn, rawIn, hz, hd, hr]
    · unfold TxIn.toBytes
      rw [pack_L i.index h0 h1]
      simp [hz, hd, encIn, rawIn, hr, withLen, bind, Except.bind, pure, Except.pure]
  · simp only [hz, if_false] at hs
    obtain ⟨bs, hb, he, hl, _⟩ := wfScript_elim T hT _ hs
    have hr : inScriptRaw T i = bs := by simp [inScriptRaw, hz, hb]
    refine ⟨?_, ?_, by rw [hr]; exact hl⟩
    · simp [assembleIn, rawIn, hz, he, hr]
    · unfold TxIn.toBytes
      rw [pack_L i.index h0 h1]
      simp [hz, hb, encIn, rawIn, hr, withLen, bind, Except.bind, pure, Except.pure]

theorem wfOut_elim (T : Tables) (o : TxOut) (h : WFOut T o = true) :
    0 ≤ o.amount ∧ o.amount < 2 ^ 63 ∧ WFScript T o.script = true := by
  unfold WFOut at h
  simp only [Bool.and_eq_true, decide_eq_true_eq] at h
  obtain ⟨⟨a, b⟩, c⟩ := h
  exact ⟨a, b, c⟩

theorem out_spec (T : Tables) (hT : C02.TablesOK T = true) (o : TxOut) (h : WFOut T o = true) :
    assembleOut o = some (rawOut T o) ∧ TxOut.toBytes T o = .ok (encOut (rawOut T o)) ∧
      (outScriptRaw T o).length < 2 ^ 32 := by
  obtain ⟨h0, h1, hs⟩ := wfOut_elim T o h
  obtain ⟨bs, hb, he, hl, _⟩ := wfScript_elim T hT _ hs
  have hr : outScriptRaw T o = bs := by simp [outScriptRaw, hb]
  refine ⟨?_, ?_, by rw [hr]; exact hl⟩
  · simp [assembleOut, rawOut, he, hr]
  · unfold TxOut.toBytes
    rw [pack_q o.amount h0 h1]
    simp [hb, encOut, rawOut, hr, withLen, bind, Except.bind, pure, Except.pure]

theorem parse_in (T : Tables) (hT : C02.TablesOK T = true) (i : TxIn) (h : WFIn T i = true) (seg : Bool)
    (rest : Bytes) : TxIn.parse T seg (encIn (rawIn T i) ++ rest) = .ok (parsedIn T seg i, rest) := by
  obtain ⟨h32, h4, h0, h1, _⟩ := wfIn_elim T i h
  obtain ⟨_, _, hl⟩ := in_spec T hT i h
  unfold TxIn.parse
  simp only [encIn, rawIn, withLen, List.append_assoc]
  rw [takeN_append 32 i.txid.reverse _ (by simp [h32])]
  simp only [bind, Except.bind]
  rw [takeN_append 4 (leBytes 4 i.index.toNat) _ (by simp)]
  simp only [bind, Except.bind]
  rw [parseCS_compactSize _ (by omega)]
  simp only [bind, Except.bind]
  rw [takeN_append _ (inScriptRaw T i) _ rfl]
  simp only [bind, Except.bind]
  rw [takeN_append 4 i.sequence _ h4]
  simp only [bind, Except.bind, pure, Except.pure, List.reverse_reverse,
    natCast_toNat_ofLE_leBytes4 i.index h0 h1, parsedIn]

theorem parse_out (T : Tables) (hT : C02.TablesOK T = true) (o : TxOut) (h : WFOut T o = true) (seg : Bool)
    (rest : Bytes) : TxOut.parse T seg (encOut (rawOut T o) ++ rest) = .ok (parsedOut T seg o, rest) := by
  obtain ⟨h0, h1, _⟩ := wfOut_elim T o h
  obtain ⟨_, _, hl⟩ := out_spec T hT o h
  unfold TxOut.parse
  simp only [encOut, rawOut, withLen, List.append_assoc]
  rw [takeN_append 8 (leBytes 8 o.amount.toNat) _ (by simp)]
  simp only [bind, Except.bind]
  rw [parseCS_compactSize _ (by omega)]
  simp only [bind, Except.bind]
  rw [takeN_append _ (outScriptRaw T o) _ rfl]
  simp only [bind, Except.bind, pure, Except.pure, natCast_toNat_ofLE_leBytes8 o.amount h0 h1, parsedOut]

theorem toBytes_parsedIn (T : Tables) (hT : C02.TablesOK T = true) (i : TxIn) (h : WFIn T i = true) (seg : Bool) :
    TxIn.toBytes T (parsedIn T seg i) = .ok (encIn (rawIn T i)) := by
  obtain ⟨h32, h4, h0, h1, hs⟩ := wfIn_elim T i h
  unfold TxIn.toBytes
  simp only [parsedIn]
  rw [pack_L i.index h0 h1]
  by_cases hz : i.txid = zero32
  · simp [hz, encIn, rawIn, withLen, bind, Except.bind, pure, Except.pure]
  · simp only [hz, if_false] at hs
    obtain ⟨bs, hb, he, hl, hw⟩ := wfScript_elim T hT _ hs
    have hr : inScriptRaw T i = bs := by simp [inScriptRaw, hz, hb]
    have := C02.reassemble T hT _ hw bs hb seg
    simp [hz, hr, this, encIn, rawIn, withLen, bind, Except.bind, pure, Except.pure]

theorem toBytes_parsedOut (T : Tables) (hT : C02.TablesOK T = true) (o : TxOut) (h : WFOut T o = true) (seg : Bool) :
    TxOut.toBytes T (parsedOut T seg o) = .ok (encOut (rawOut T o)) := by
  obtain ⟨h0, h1, hs⟩ := wfOut_elim T o h
  obtain ⟨bs, hb, he, hl, hw⟩ := wfScript_elim T hT _ hs
  have hr : outScriptRaw T o = bs := by simp [outScriptRaw, hb]
  have := C02.reassemble T hT _ hw bs hb seg
  unfold TxOut.toBytes
  simp only [parsedOut]
  rw [pack_q o.amount h0 h1]
  simp [hr, this, encOut, rawOut, withLen, bind, Except.bind, pure, Except.pure]

theorem inRenders_parsedIn (T : Tables) (hT : C02.TablesOK T = true) (i : TxIn) (h : WFIn T i = true) (seg : Bool) :
    inRenders i (parsedIn T seg i) = true := by
  obtain ⟨h32, h4, h0, h1, hs⟩ := wfIn_elim T i h
  unfold inRenders
  by_cases hz : i.txid = zero32
  · simp only [hz, if_true] at hs
    obtain ⟨d, hd, hl⟩ := hs
    simp [parsedIn, hz, inScriptRaw, hd]
  · simp only [hz, if_false] at hs
    obtain ⟨bs, hb, he, hl, hw⟩ := wfScript_elim T hT _ hs
    have hr : inScriptRaw T i = bs := by simp [inScriptRaw, hz, hb]
    have := C02.disasm_assemble T hT _ hw bs hb seg
    simp [parsedIn, hz, hr, this]

theorem outRenders_parsedOut (T : Tables) (hT : C02.TablesOK T = true) (o : TxOut) (h : WFOut T o = true) (seg : Bool) :
    outRenders o (parsedOut T seg o) = true := by
  obtain ⟨h0, h1, hs⟩ := wfOut_elim T o h
  obtain ⟨bs, hb, he, hl, hw⟩ := wfScript_elim T hT _ hs
  have hr : outScriptRaw T o = bs := by simp [outScriptRaw, hb]
  have := C02.disasm_assemble T hT _ hw bs hb seg
  simp [outRenders, parsedOut, hr, this]

theorem all2_map {α : Type} (r : α → α → Bool) (f : α → α) (xs : List α) (h : ∀ x ∈ xs, r x (f x) = true) :
    all2 r xs (xs.map f) = true := by
  induction xs with
  | nil => simp [all2]
  | cons x xs ih =>
    simp [all2, h x (by simp), ih (fun y hy => h y (by simp [hy]))]

end helpers

/-- serialising yields exactly the consensus wire encoding (legacy, or BIP144 with marker, flag and one
witness stack per input) -/
theorem encode_eq_wire (T : Tables) (hT : C02.TablesOK T = true) (t : Tx) (h : WFTx T t = true) (seg : Bool) :
    ∃ r, assembleTx t = some r ∧ t.toBytes T seg = .ok (encodeTx r seg) := by
  sorry

/-- "field for field": what a correct parse of the encoding of `t` looks like -/
def inRenders (a b : TxIn) : Bool :=
  a.txid == b.txid && a.index == b.index && a.sequence == b.sequence &&
  (if a.txid = zero32 then a.scriptSig == b.scriptSig else renders a.scriptSig b.scriptSig)

def outRenders (a b : TxOut) : Bool := a.amount == b.amount && renders a.script b.script

def all2 {α} (f : α → α → Bool) : List α → List α → Bool
  | [], [] => true
  | a :: as, b :: bs => f a b && all2 f as bs
  | _, _ => false

def txRenders (a b : Tx) : Bool :=
  a.version == b.version && a.locktime == b.locktime && a.hasSegwit == b.hasSegwit &&
  all2 inRenders a.inputs b.inputs && all2 outRenders a.outputs b.outputs &&
  (if a.hasSegwit then a.witnesses == b.witnesses else b.witnesses == [])

/-- parsing the encoding of any well-formed transaction (coinbase, legacy, segwit, mixed; empty witness
stacks next to non-empty ones; any counts) returns its fields … -/
theorem parse_encode (T : Tables) (hT : C02.TablesOK T = true) (t : Tx) (h : WFTx T t = true)
    (bs : Bytes) (hb : t.toBytes T t.hasSegwit = .ok bs) :
    ∃ t', Tx.parse T bs = .ok t' ∧ txRenders t t' = true := by
  sorry

/-- … and re-serialising the parsed transaction reproduces the original bytes -/
theorem reencode (T : Tables) (hT : C02.TablesOK T = true) (t : Tx) (h : WFTx T t = true)
    (bs : Bytes) (hb : t.toBytes T t.hasSegwit = .ok bs) :
    ∃ t', Tx.parse T bs = .ok t' ∧ t'.toBytes T t'.hasSegwit = .ok bs := by
  sorry

/-- txid / wtxid are the byte-reversed double-SHA256 of the witness-stripped / full wire encoding -/
theorem txid_wtxid (sha256 : Bytes → Bytes) (T : Tables) (hT : C02.TablesOK T = true) (t : Tx) (h : WFTx T t = true) :
    ∃ r, assembleTx t = some r ∧
      t.txid sha256 T = .ok (sha256 (sha256 (encodeTx r false))).reverse ∧
      t.wtxid sha256 T = .ok (sha256 (sha256 (encodeTx r t.hasSegwit))).reverse := by
  sorry

end C01
