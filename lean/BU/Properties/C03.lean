import BU.Py
import BU.Spec.Sighash
import BU.Model.Digest
import BU.Properties.C01
import BU.Proofs.Digest03
/-!
# C03 — the legacy signature hash equals the original Bitcoin `SignatureHash`

M: `Model.legacyDigest` transcribes `get_transaction_digest` with its temporaries (copy, blanked
scriptSigs, NONE/SINGLE/ANYONECANPAY surgery); Spec: `Spec.legacyPreimage` from Bitcoin Core's
`CTransactionSignatureSerializer`.
-/
namespace C03
open Py Spec Model

/-- no input spends the null outpoint hash (with one, the code's coinbase branch raises on the blanked
script; consensus never signs such a spend) -/
def noNullInputs (t : Tx) : Bool := t.inputs.all fun x => x.txid != zero32

/-- for **every** one-byte hash type (the six defined ones are instances), every input index, every script
code in the domain: the digest is the double-SHA256 of the consensus preimage -/
theorem legacy_eq (sha256 : Bytes → Bytes) (T : Tables) (hT : C02.TablesOK T = true) (t : Tx)
    (h : C01.WFTx T t = true) (hn : noNullInputs t = true) (i : Nat) (hi : i < t.inputs.length)
    (code : List Tok) (hc : C01.WFScript T code = true) (ht : Nat) (hht : ht < 256)
    (hs : ht &&& 0x1f = 3 → i < t.outputs.length) :
    ∃ r c, C01.assembleTx t = some r ∧ encToks code = some c ∧
      legacyDigest sha256 T t i code ht = .ok (sha256 (sha256 (legacyPreimage r i c ht))) := by
  obtain ⟨hv, hl, hn1, hnl, hml, hins, houts, _⟩ := C01.wfTx_elim T t h
  obtain ⟨c, hcb, hce, hcl, _⟩ := C01.wfScript_elim T hT code hc
  refine ⟨C01.rawTx T t, c, (C01.tx_spec T hT t h).1, hce, ?_⟩
  have hin : ∀ x ∈ t.inputs, x.txid ≠ zero32 ∧ 0 ≤ x.index ∧ x.index < 2 ^ 32 := by
    intro x hx
    obtain ⟨_, _, h0, h1, _⟩ := C01.wfIn_elim T x (hins x hx)
    have := List.all_eq_true.mp hn x hx
    exact ⟨by simpa using this, h0, h1⟩
  have hout : ∀ o ∈ t.outputs, TxOut.toBytes T o = .ok (encOut (C01.rawOut T o)) :=
    fun o ho => (C01.out_spec T hT o (houts o ho)).2.1
  unfold legacyDigest
  have hx : (t.inputs.map fun x => { x with scriptSig := [] })[i]? =
      some { t.inputs[i] with scriptSig := [] } := by
    simp [List.getElem?_eq_getElem hi]
  simp only [hx]
  have e1 := Digest03.ins1_eq t.inputs i code _ hx
  simp only [] at e1
  rw [e1, Digest03.ins2_eq]
  by_cases hb2 : ht &&& 0x1f = 2
  · -- SIGHASH_NONE
    rw [if_pos hb2]
    simp only [pure_bind]
    refine (Digest03.finish2 sha256 T t code c hcb hin i hi ht hht true (by simp [hb2]) [] [] rfl).trans ?_
    unfold legacyPreimage
    simp [hb2, C01.rawTx]
  · rw [if_neg hb2]
    by_cases hb3 : ht &&& 0x1f = 3
    · -- SIGHASH_SINGLE
      rw [if_pos hb3]
      have hio := hs hb3
      rw [List.getElem?_eq_getElem hio]
      simp only [pure_bind]
      refine (Digest03.finish2 sha256 T t code c hcb hin i hi ht hht true (by simp [hb3]) _ _
        (Digest03.outs_single T t.outputs i ht hb3 _ (List.getElem?_eq_getElem hio) (hout _ (by simp)))).trans ?_
      unfold legacyPreimage
      simp [hb3, C01.rawTx]
    · -- SIGHASH_ALL and undefined base types
      rw [if_neg hb3]
      simp only [pure_bind]
      refine (Digest03.finish2 sha256 T t code c hcb hin i hi ht hht false (by simp [hb2, hb3]) _ _
        (Digest03.outs_all T t.outputs hout i ht hb3)).trans ?_
      unfold legacyPreimage
      simp [hb2, hb3, C01.rawTx]

/-- SINGLE without a matching output: the library refuses instead of returning some other digest -/
theorem single_refuses (sha256 : Bytes → Bytes) (T : Tables) (t : Tx) (i : Nat) (code : List Tok) (ht : Nat)
    (hs : ht &&& 0x1f = 3) (ho : t.outputs.length ≤ i) :
    ∃ e, legacyDigest sha256 T t i code ht = .error e := by
  have hb2 : ¬ ht &&& 0x1f = 2 := by omega
  have hn : t.outputs[i]? = none := List.getElem?_eq_none ho
  unfold legacyDigest
  simp only [if_neg hb2, if_pos hs, hn]
  split
  · exact ⟨_, rfl⟩
  · exact ⟨_, rfl⟩

/-- the digest does not depend on the scriptSigs already present (they are blanked), nor on witnesses -/
theorem legacy_ignores_scriptsigs (sha256 : Bytes → Bytes) (T : Tables) (t t' : Tx) (i : Nat) (code : List Tok) (ht : Nat)
    (hv : t'.version = t.version) (hl : t'.locktime = t.locktime) (ho : t'.outputs = t.outputs)
    (hi : t'.inputs.map (fun x => (x.txid, x.index, x.sequence)) = t.inputs.map (fun x => (x.txid, x.index, x.sequence))) :
    legacyDigest sha256 T t' i code ht = legacyDigest sha256 T t i code ht := by
  have hins0 : (t'.inputs.map fun x => { x with scriptSig := [] }) =
      (t.inputs.map fun x => { x with scriptSig := [] }) := by
    have := congrArg (List.map (fun p : Bytes × Int × Bytes =>
      ({ txid := p.1, index := p.2.1, scriptSig := [], sequence := p.2.2 } : TxIn))) hi
    simpa only [List.map_map, Function.comp_def] using this
  unfold legacyDigest
  simp only [Digest03.toBytes_false, hins0, ho, hv, hl]

end C03
