import BU.Py
import BU.Spec.Sighash
import BU.Model.Digest
import BU.Properties.C01
/-!
# C03 — the legacy signature hash equals the original Bitcoin `SignatureHash`

M: `Model.legacyDigest` transcribes `get_transaction_digest` with its temporaries (copy, blanked
scriptSigs, NONE/SINGLE/ANYONECANPAY surgery); Spec: `Spec.legacyPreimage` from Bitcoin Core's
`CTransactionSignatureSerializer`.
-/
namespace C03
open Py Spec Model

/-- no input spends the null outpoint hash (with one, the code's coinbase branch raises on the blanked
script; consensus never signs such a spend) -/
def noNullInputs (t : Tx) : Bool := t.inputs.all fun x => x.txid != zero32

/-- for **every** one-byte hash type (the six defined ones are instances), every input index, every script
code in the domain: the digest is the double-SHA256 of the consensus preimage -/
theorem legacy_eq (sha256 : Bytes → Bytes) (T : Tables) (hT : C02.TablesOK T = true) (t : Tx)
    (h : C01.WFTx T t = true) (hn : noNullInputs t = true) (i : Nat) (hi : i < t.inputs.length)
    (code : List Tok) (hc : C01.WFScript T code = true) (ht : Nat) (hht : ht < 256)
    (hs : ht &&& 0x1f = 3 → i < t.outputs.length) :
    ∃ r c, C01.assembleTx t = some r ∧ encToks code = some c ∧
      legacyDigest sha256 T t i code ht = .ok (sha256 (sha256 (legacyPreimage r i c ht))) := by
  sorry

/-- SINGLE without a matching output: the library refuses instead of returning some other digest -/
theorem single_refuses (sha256 : Bytes → Bytes) (T : Tables) (t : Tx) (i : Nat) (code : List Tok) (ht : Nat)
    (hs : ht &&& 0x1f = 3) (ho : t.outputs.length ≤ i) :
    ∃ e, legacyDigest sha256 T t i code ht = .error e := by
  sorry

/-- the digest does not depend on the scriptSigs already present (they are blanked), nor on witnesses -/
theorem legacy_ignores_scriptsigs (sha256 : Bytes → Bytes) (T : Tables) (t t' : Tx) (i : Nat) (code : List Tok) (ht : Nat)
    (hv : t'.version = t.version) (hl : t'.locktime = t.locktime) (ho : t'.outputs = t.outputs)
    (hi : t'.inputs.map (fun x => (x.txid, x.index, x.sequence)) = t.inputs.map (fun x => (x.txid, x.index, x.sequence))) :
    legacyDigest sha256 T t' i code ht = legacyDigest sha256 T t i code ht := by
  sorry

end C03
