import BU.Proofs.GenBlock
import BU.Properties.C15
/-!
# C15, continuation — `Block.from_raw` as *generated* code (tier T)

`Block.from_raw` is re-translated from the working tree on every run: the magic / size / header framing, the CompactSize transaction
count, the loop that asks `get_transaction_length` how many bytes the next transaction takes, slices exactly those and hands them to
`Transaction.from_raw`, and the `except Exception: … break` that silently ends the loop.  The handler is translated statement by
statement (what ran before the raising call has taken effect, as in Python); the translator refuses the construct unless every call
inside the `try` is a generated function that cannot answer `unsupported` — so an "outside the subset" stub is never swallowed.
For every byte string (shorter than 2^63) the translated function succeeds exactly when the hand model `Model.Block.parse` does, with
the same block; so "parsing a framed block returns every transaction, each identical to parsing its own byte slice" is a statement
about the translated code.  (Which exception is raised on malformed framing is not compared.)
-/
namespace C15GenBlock
open Py Model Spec GenBlock C01GenParse C15GenHeader

theorem gen_block_from_raw (T : Tables) (data : Bytes) (hlen : data.length < 2 ^ 63) :
    (Gen.block_from_raw T.codeOps data).toOption = (Block.parse T data).toOption.map blockPy :=
  GenBlock.gen_block_from_raw T data hlen

theorem gen_block_ok (T : Tables) (data : Bytes) (hlen : data.length < 2 ^ 63) (b : Block) (h : Block.parse T data = .ok b) :
    Gen.block_from_raw T.codeOps data = .ok (blockPy b) := by
  have := gen_block_from_raw T data hlen
  rw [h] at this
  cases hg : Gen.block_from_raw T.codeOps data with
  | error e => rw [hg] at this; cases this
  | ok q => rw [hg] at this; cases this; rfl

/-- **framed blocks**: for well-formed transactions `txs` (any number below 2^32, legacy / segwit / mixed) framed with a magic, a
size field and an 80-byte header, the translated `Block.from_raw` returns the header's fields, the count, and every transaction —
each equal to what parsing its own serialisation gives -/
theorem gen_block_parse (T : Tables) (hT : C02.TablesOK T = true) (magic header : Bytes) (size : Nat) (txs : List Tx)
    (hm : magic.length = 4) (hh : header.length = 80) (hs : size < 2 ^ 32) (hn : txs.length < 2 ^ 32)
    (hw : ∀ t ∈ txs, C01.WFTx T t = true)
    (encs : List Bytes) (he : txs.mapM (fun t => t.toBytes T t.hasSegwit) = .ok encs)
    (hlen : (frameBlock magic size header encs).length < 2 ^ 63) :
    ∃ hd parsed, Header.parse header = .ok hd ∧ encs.mapM (Tx.parse T) = .ok parsed ∧
      Gen.block_from_raw T.codeOps (frameBlock magic size header encs) =
        .ok ⟨magic, (size : Int), hdrPy hd, (txs.length : Int), parsed.map txPy⟩ := by
  obtain ⟨hd, parsed, h1, h2, h3⟩ := C15.block_parse T hT magic header size txs hm hh hs hn hw encs he
  exact ⟨hd, parsed, h1, h2, gen_block_ok T _ hlen _ h3⟩

end C15GenBlock
