import BU.Gen.Codec
import BU.Model.Block
import BU.Properties.C15
import BU.Proofs.GenTweak
/-!
# C15, continuation — block headers as *generated* code (tier T)

`BlockHeader.from_raw` (the format string built up with `+=`, the length test, `struct.unpack` of six fields, the two hashes
reversed into display order, the object as a record), `serialize_header` and `get_block_hash` are re-translated from the working
tree on every run and proved equal to the hand model `Model.Header.parse / serialize / hash` on every input; hence the round trip
and the block-hash formula (C15.header_roundtrip, block_hash) for the translated code.
-/
set_option linter.unusedSimpArgs false
namespace C15GenHeader
open Py Model Loop

def hdrPy (h : Header) : Py.PyHeader := ⟨h.version, h.prev, h.merkle, h.time, h.bits, h.nonce⟩

theorem gen_header_from_raw (b : Bytes) : Gen.blockheader_from_raw b = (Header.parse b).map hdrPy := by
  unfold Gen.blockheader_from_raw Header.parse
  simp only [if_true]
  by_cases h : b.length = 80
  · have c : (Py.len b != (80 : Int)) = false := by
      unfold Py.len; rw [h]; rfl
    simp only [c, Bool.false_eq_true, if_false, h, ne_eq, not_true_eq_false, Py.bufExact, if_true, ok_bind]
    simp only [Except.map, hdrPy, pure, Except.pure, List.drop_zero]
  · have c : (Py.len b != (80 : Int)) = true := by
      unfold Py.len
      have : ¬ ((b.length : Int) = 80) := by omega
      simpa using this
    simp only [c, if_true, ne_eq, h, not_false_eq_true]
    rfl

theorem gen_header_serialize (h : Header) :
    Gen.blockheader_serialize (h.version : Int) h.prev h.merkle (h.time : Int) (h.bits : Int) (h.nonce : Int) = h.serialize := by
  unfold Gen.blockheader_serialize Header.serialize
  simp only []

theorem gen_header_hash (sha256 : Bytes → Bytes) (h : Header) :
    Gen.blockheader_hash sha256 (h.version : Int) h.prev h.merkle (h.time : Int) (h.bits : Int) (h.nonce : Int) = h.hash sha256 := by
  unfold Gen.blockheader_hash Header.hash
  rw [gen_header_serialize]

/-- **round trip and block hash, end to end**: parsing 80 bytes with the translated `from_raw` and re-serialising with the translated
`serialize_header` gives the same bytes, and the translated `get_block_hash` is the byte-reversed double-SHA256 of those bytes -/
theorem gen_header_roundtrip (sha256 : Bytes → Bytes) (b : Bytes) (h : b.length = 80) :
    ∃ hd, Gen.blockheader_from_raw b = .ok (hdrPy hd) ∧
      Gen.blockheader_serialize (hd.version : Int) hd.prev hd.merkle (hd.time : Int) (hd.bits : Int) (hd.nonce : Int) = .ok b ∧
      Gen.blockheader_hash sha256 (hd.version : Int) hd.prev hd.merkle (hd.time : Int) (hd.bits : Int) (hd.nonce : Int) =
        .ok (sha256 (sha256 b)).reverse := by
  obtain ⟨hd, h1, h2⟩ := C15.header_roundtrip b h
  obtain ⟨hd', h1', h3⟩ := C15.block_hash sha256 b h
  have : hd = hd' := by rw [h1] at h1'; exact Except.ok.inj h1'
  subst this
  exact ⟨hd, by rw [gen_header_from_raw, h1]; rfl, by rw [gen_header_serialize]; exact h2, by rw [gen_header_hash]; exact h3⟩

/-- anything that is not 80 bytes long is refused by the translated parser -/
theorem gen_header_rejects (b : Bytes) (h : b.length ≠ 80) : ∃ e, Gen.blockheader_from_raw b = .error e := by
  obtain ⟨e, he⟩ := C15.header_rejects b h
  exact ⟨e, by rw [gen_header_from_raw, he]; rfl⟩

/-! ## the compact target -/

/-- `get_target_bits`: for an exponent of at least 3 and a target below 2^256 the 64 hex digits of coefficient · 256^(exponent − 3)
(the hex string as the bytes it denotes); a smaller exponent is a negative shift count (`ValueError`) -/
theorem gen_header_target (bits : Nat) (he : 3 ≤ bits / 2 ^ 24)
    (hs : (bits % 2 ^ 24) * 2 ^ (8 * (bits / 2 ^ 24 - 3)) < 2 ^ 256) :
    Gen.blockheader_target (bits : Int) = .ok (beBytes 32 ((bits % 2 ^ 24) * 2 ^ (8 * (bits / 2 ^ 24 - 3)))) := by
  unfold Gen.blockheader_target
  rw [show (24 : Int) = ((24 : Nat) : Int) from rfl, shr_natCast, ok_bind]
  simp only []
  rw [show (16777215 : Int) = ((16777215 : Nat) : Int) from rfl]
  have hl : Py.land ((bits : Nat) : Int) ((16777215 : Nat) : Int) = ((bits % 2 ^ 24 : Nat) : Int) := by
    show (((bits &&& 16777215 : Nat)) : Int) = _
    rw [show (16777215 : Nat) = 2 ^ 24 - 1 from rfl, Nat.and_two_pow_sub_one_eq_mod]
  rw [hl, Nat.shiftRight_eq_div_pow]
  have e8 : ((8 : Int) * (((bits / 2 ^ 24 : Nat) : Int) - 3)) = ((8 * (bits / 2 ^ 24 - 3) : Nat) : Int) := by omega
  rw [e8, shl_natCast_shift, ok_bind, Nat.shiftLeft_eq, GenTweak.hexStr64_one _ hs]
  rfl

theorem gen_header_target_rejects (bits : Nat) (he : bits / 2 ^ 24 < 3) :
    Gen.blockheader_target (bits : Int) = .error .valueError := by
  unfold Gen.blockheader_target
  rw [show (24 : Int) = ((24 : Nat) : Int) from rfl, shr_natCast, ok_bind]
  simp only []
  rw [Nat.shiftRight_eq_div_pow]
  unfold Py.shl
  have : ((8 : Int) * (((bits / 2 ^ 24 : Nat) : Int) - 3)) < 0 := by omega
  simp only [this, if_true]
  rfl

end C15GenHeader
