import BU.Py
import BU.Spec.Ecdsa
import BU.Spec.CurveLaws
import BU.Model.Sign
import BU.Proofs.DerLemmas
/-!
# C06 — ECDSA input signatures are valid, strictly DER, low-S, low-R and deterministic

M: `Model.grind` / `Model.normalise` / `Model.signInput` — the repository's own logic in `_sign_input`
(low-R loop, decode, low-S, re-encode, hash-type byte).  python-ecdsa (RFC 6979 signing, DER codec) is a
parameter: its DER codec is `Spec.derEncode/derDecode`, its per-attempt signatures are inputs.
-/
namespace C06
open Py Spec Model Secp

/-- **every (r, s) class** (s just below/above n/2, s with high bit, n−s with leading zero bytes, short r …):
normalising the DER encoding of (r, s) yields a strictly DER (BIP66) signature followed by exactly the
hash-type byte, carrying the same r and the low representative of s -/
theorem normalise_strict_lowS (r s : Nat) (hr0 : 0 < r) (hr : r < n) (hs0 : 0 < s) (hs : s < n) (ht : Nat) (hht : ht < 256) :
    ∃ out s', normalise (derEncode r s) ht = .ok out ∧ isStrictDer out = true ∧
      out.getLast? = some (UInt8.ofNat ht) ∧ derDecode out.dropLast = some (r, s') ∧
      lowS s' = true ∧ 0 < s' ∧ (s' = s ∨ s' = n - s) := by
  sorry

/-- the grinding loop returns the first attempt whose r is below 2^255 (low R: 32-byte r, no sign byte) -/
theorem grind_first_lowR (atts : List (Nat × Nat)) (hw : ∀ a ∈ atts, 0 < a.1 ∧ a.1 < 2 ^ 256)
    (sig : Bytes) (k : Nat) (h : grind (atts.map fun a => derEncode a.1 a.2) 0 = .ok (sig, k)) :
    ∃ r s, atts[k]? = some (r, s) ∧ sig = derEncode r s ∧ r < 2 ^ 255 ∧
      ∀ j, j < k → ∀ rj sj, atts[j]? = some (rj, sj) → 2 ^ 255 ≤ rj := by
  sorry

/-- the whole of `_sign_input` on what the signer returned per attempt: strict DER, low S, low R, hash type -/
theorem sign_input_spec (atts : List (Nat × Nat)) (hw : ∀ a ∈ atts, 0 < a.1 ∧ a.1 < n ∧ 0 < a.2 ∧ a.2 < n)
    (ht : Nat) (hht : ht < 256) (out : Bytes) (k : Nat)
    (h : signInput (atts.map fun a => derEncode a.1 a.2) ht = .ok (out, k)) :
    ∃ r s s', atts[k]? = some (r, s) ∧ isStrictDer out = true ∧ out.getLast? = some (UInt8.ofNat ht) ∧
      derDecode out.dropLast = some (r, s') ∧ r < 2 ^ 255 ∧ lowS s' = true ∧ (s' = s ∨ s' = n - s) := by
  sorry

/-- replacing s by n − s keeps a signature valid (so the low-S rule never invalidates what the signer produced) -/
theorem lowS_preserves_validity (laws : CurveLaws) (d : Nat) (hd : 0 < d ∧ d < n) (z r s : Nat)
    (hs : 0 < s ∧ s < n) (hv : ecdsaVerify (mul G d) z r s = true) :
    ecdsaVerify (mul G d) z r (n - s) = true := by
  sorry

/-- non-vacuity: a concrete high-S pair is in the domain and gets flipped -/
example : (normalise (derEncode 5 (n - 7)) 1).toOption = some (derEncode 5 7 ++ [1]) := by decide +kernel

end C06
