import BU.Model.Sign
namespace C06
end C06
