import BU.Py
import BU.Spec.Ecdsa
import BU.Spec.CurveLaws
import BU.Model.Sign
import BU.Proofs.DerLemmas
import BU.Proofs.EcdsaLemmas
import BU.Proofs.CurveLawsFinal
/-!
# C06 — ECDSA input signatures are valid, strictly DER, low-S, low-R and deterministic

M: `Model.grind` / `Model.normalise` / `Model.signInput` — the repository's own logic in `_sign_input`
(low-R loop, decode, low-S, re-encode, hash-type byte).  python-ecdsa (RFC 6979 signing, DER codec) is a
parameter: its DER codec is `Spec.derEncode/derDecode`, its per-attempt signatures are inputs.
-/
namespace C06
open Py Spec Model Secp DerLemmas EcdsaLemmas

/-- **every (r, s) class** (s just below/above n/2, s with high bit, n−s with leading zero bytes, short r …):
normalising the DER encoding of (r, s) yields a strictly DER (BIP66) signature followed by exactly the
hash-type byte, carrying the same r and the low representative of s -/
theorem normalise_strict_lowS (r s : Nat) (hr0 : 0 < r) (hr : r < n) (hs0 : 0 < s) (hs : s < n) (ht : Nat) (hht : ht < 256) :
    ∃ out s', normalise (derEncode r s) ht = .ok out ∧ isStrictDer out = true ∧
      out.getLast? = some (UInt8.ofNat ht) ∧ derDecode out.dropLast = some (r, s') ∧
      lowS s' = true ∧ 0 < s' ∧ (s' = s ∨ s' = n - s) := by
  have hn256 := n_lt_two_pow_256
  have hdec := derDecode_encode r s hr0 (by omega) hs0 (by omega)
  have hnorm : normalise (derEncode r s) ht =
      .ok (derEncode r (if s > n / 2 then n - s else s) ++ [UInt8.ofNat ht]) := by
    simp only [normalise, hdec, pack_B ht hht, bind, Except.bind, pure, Except.pure]
  have hs'0 : 0 < (if s > n / 2 then n - s else s) := by split <;> omega
  have hs'n : (if s > n / 2 then n - s else s) < 2 ^ 256 := by split <;> omega
  refine ⟨_, if s > n / 2 then n - s else s, hnorm, ?_, ?_, ?_, ?_, hs'0, ?_⟩
  · exact isStrictDer_encode r _ hr0 (by omega) hs'0 hs'n _
  · exact List.getLast?_concat
  · rw [List.dropLast_concat]
    exact derDecode_encode r _ hr0 (by omega) hs'0 hs'n
  · simp only [lowS, decide_eq_true_eq]; split <;> omega
  · split
    · exact Or.inr rfl
    · exact Or.inl rfl

/-- the grinding loop returns the first attempt whose r is below 2^255 (low R: 32-byte r, no sign byte) -/
theorem grind_first_lowR (atts : List (Nat × Nat)) (hw : ∀ a ∈ atts, 0 < a.1 ∧ a.1 < 2 ^ 256)
    (sig : Bytes) (k : Nat) (h : grind (atts.map fun a => derEncode a.1 a.2) 0 = .ok (sig, k)) :
    ∃ r s, atts[k]? = some (r, s) ∧ sig = derEncode r s ∧ r < 2 ^ 255 ∧
      ∀ j, j < k → ∀ rj sj, atts[j]? = some (rj, sj) → 2 ^ 255 ≤ rj := by
  obtain ⟨_, r, s, h1, h2, h3, h4⟩ := grind_from atts hw 0 sig k h
  exact ⟨r, s, h1, h2, h3, h4⟩

/-- the whole of `_sign_input` on what the signer returned per attempt: strict DER, low S, low R, hash type -/
theorem sign_input_spec (atts : List (Nat × Nat)) (hw : ∀ a ∈ atts, 0 < a.1 ∧ a.1 < n ∧ 0 < a.2 ∧ a.2 < n)
    (ht : Nat) (hht : ht < 256) (out : Bytes) (k : Nat)
    (h : signInput (atts.map fun a => derEncode a.1 a.2) ht = .ok (out, k)) :
    ∃ r s s', atts[k]? = some (r, s) ∧ isStrictDer out = true ∧ out.getLast? = some (UInt8.ofNat ht) ∧
      derDecode out.dropLast = some (r, s') ∧ r < 2 ^ 255 ∧ lowS s' = true ∧ (s' = s ∨ s' = n - s) := by
  have hn256 := n_lt_two_pow_256
  unfold signInput at h
  cases hg : grind (atts.map fun a => derEncode a.1 a.2) 0 with
  | error e => rw [hg] at h; cases h
  | ok p =>
    obtain ⟨sig, k'⟩ := p
    obtain ⟨r, s, h1, h2, h3, _⟩ :=
      grind_first_lowR atts (fun a ha => ⟨(hw a ha).1, by have := (hw a ha).2.1; omega⟩) sig k' hg
    have hmem : (r, s) ∈ atts := List.mem_of_getElem? h1
    obtain ⟨hr0, hrn, hs0, hsn⟩ := hw _ hmem
    obtain ⟨out', s', e1, e2, e3, e4, e5, _, e7⟩ := normalise_strict_lowS r s hr0 hrn hs0 hsn ht hht
    rw [hg] at h
    simp only [bind, Except.bind, h2, e1, pure, Except.pure, Except.ok.injEq, Prod.mk.injEq] at h
    obtain ⟨rfl, rfl⟩ := h
    exact ⟨r, s, s', h1, e2, e3, e4, h3, e5, e7⟩

/-- replacing s by n − s keeps a signature valid (so the low-S rule never invalidates what the signer produced) -/
theorem lowS_preserves_validity (laws : CurveLaws) (d : Nat) (hd : 0 < d ∧ d < n) (z r s : Nat)
    (hs : 0 < s ∧ s < n) (hv : ecdsaVerify (mul G d) z r s = true) :
    ecdsaVerify (mul G d) z r (n - s) = true := by
  exact verify_neg_s laws d hd.2 z r s hs.1 hs.2 hv

/-- non-vacuity: a concrete high-S pair is in the domain and gets flipped -/
example : (normalise (derEncode 5 (n - 7)) 1).toOption = some (derEncode 5 7 ++ [1]) := by decide +kernel

/-! ### without hypotheses: `CurveLaws` is proved (`BU/Proofs/CurveLawsFinal.lean`) -/

theorem lowS_preserves_validity_unconditional (d : Nat) (hd : 0 < d ∧ d < n) (z r s : Nat)
    (hs : 0 < s ∧ s < n) (hv : ecdsaVerify (mul G d) z r s = true) :
    ecdsaVerify (mul G d) z r (n - s) = true :=
  lowS_preserves_validity CurveLawsFinal.curveLaws d hd z r s hs hv

end C06
