import BU.Properties.C09_Gen
/-!
# C09, continuation — `PrivateKey.__init__` and `_from_bytes` as *generated* code (tier T)

Which argument wins (`wif`, then `b`, then `secret_exponent`; a random key only when all three are `None`), the 32-byte check of
`_from_bytes`, and the hand-over to `_from_wif` are re-translated from the working tree on every run.  python-ecdsa's
`SigningKey.from_string / from_secret_exponent / generate` are parameters (their range checks are the model's); the result is the key
installed, `none` standing for "a fresh random key was generated".  The translated constructor equals the hand model `Model.privInit`
(results and exceptions), so `C09.explicit_secret` — an explicit secret is held exactly or construction fails; only the argument-less
call is random — is a statement about the translated constructor.
-/
set_option linter.unusedSimpArgs false
namespace C09GenInit
open Py Model Spec C09Gen

/-- python-ecdsa `SigningKey.from_secret_exponent` as the constructor's parameter -/
def sfeP (e : Int) : Except PyErr Int := (signingKeyFromExponent e).map (fun (n : Nat) => (n : Int))

theorem gen_privkey_from_bytes (b : Bytes) :
    Gen.privkey_from_bytes sfsP b =
      (if b.length ≠ 32 then .error .valueError else signingKeyFromString b).map (fun (n : Nat) => (n : Int)) := by
  unfold Gen.privkey_from_bytes
  by_cases h : b.length = 32
  · have c : (Py.len b != (32 : Int)) = false := by unfold Py.len; rw [h]; rfl
    simp only [c, Bool.false_eq_true, if_false, ne_eq, h, not_true_eq_false]
    unfold sfsP
    cases signingKeyFromString b <;> rfl
  · have c : (Py.len b != (32 : Int)) = true := by
      unfold Py.len
      have : ¬ ((b.length : Int) = 32) := by omega
      simpa using this
    simp only [c, if_true, ne_eq, h, not_false_eq_true]
    rfl

/-- the translated constructor = the hand model, for every combination of arguments -/
theorem gen_privkey_init (sha256 : Bytes → Bytes) (pfx : Bytes) (w : Option String) (e : Option Int) (b : Option Bytes)
    (hl : ∀ s d, w = some s → B58.decode s = some d → d.length < 2 ^ 62) :
    Gen.privkey_init sha256 decP sfsP sfeP pfx w e b =
      (privInit (fun x => sha256 (sha256 x)) pfx w e b).map (Option.map fun (n : Nat) => (n : Int)) := by
  unfold Gen.privkey_init privInit
  cases w with
  | some s =>
    simp only [Option.isNone, Option.isSome, Bool.and_false, Bool.false_and, Bool.false_eq_true, if_false, if_true, Py.unwrap, ok_bind]
    rw [gen_from_wif sha256 pfx s (fun d hd => hl s d rfl hd)]
    cases fromWif (fun x => sha256 (sha256 x)) pfx s <;> rfl
  | none =>
    cases b with
    | some bb =>
      simp only [Option.isNone, Option.isSome, Bool.and_false, Bool.false_and, Bool.false_eq_true, if_false, if_true, Py.unwrap, ok_bind,
        Bool.and_true]
      rw [gen_privkey_from_bytes]
      cases (if bb.length ≠ 32 then (Except.error PyErr.valueError : Except PyErr Nat) else signingKeyFromString bb) <;> rfl
    | none =>
      cases e with
      | some ev =>
        simp only [Option.isNone, Option.isSome, Bool.and_false, Bool.false_and, Bool.false_eq_true, if_false, if_true, Py.unwrap, ok_bind,
          Bool.and_true]
        unfold sfeP
        cases signingKeyFromExponent ev <;> rfl
      | none => rfl

/-- **an explicit secret is held exactly or construction fails; only the argument-less call is random** — for the translated
constructor -/
theorem gen_explicit_secret (sha256 : Bytes → Bytes) (pfx : Bytes) (w : Option String) (e : Option Int) (b : Option Bytes)
    (hl : ∀ s d, w = some s → B58.decode s = some d → d.length < 2 ^ 62) :
    (Gen.privkey_init sha256 decP sfsP sfeP pfx w e b = .ok none ↔ (w = none ∧ e = none ∧ b = none)) ∧
    (∀ (k : Int) b', Gen.privkey_init sha256 decP sfsP sfeP pfx none e (some b') = .ok (some k) →
      ∃ k' : Nat, k = (k' : Int) ∧ b' = beBytes 32 k' ∧ 1 ≤ k' ∧ k' < Secp.n) ∧
    (∀ (k : Int) ev, Gen.privkey_init sha256 decP sfsP sfeP pfx none (some ev) none = .ok (some k) →
      k = ev ∧ 1 ≤ k ∧ k < (Secp.n : Int)) := by
  obtain ⟨h1, h2, h3⟩ := C09.explicit_secret (fun x => sha256 (sha256 x)) pfx w e b
  have hno : ∀ s d, (none : Option String) = some s → B58.decode s = some d → d.length < 2 ^ 62 := by
    intro s d h; cases h
  refine ⟨?_, ?_, ?_⟩
  · rw [gen_privkey_init sha256 pfx w e b hl, ← h1]
    cases privInit (fun x => sha256 (sha256 x)) pfx w e b with
    | error x => simp [Except.map]
    | ok o => cases o <;> simp [Except.map, Option.map]
  · intro k b' hk
    rw [gen_privkey_init sha256 pfx none e (some b') hno] at hk
    cases hp : privInit (fun x => sha256 (sha256 x)) pfx none e (some b') with
    | error x => rw [hp] at hk; cases hk
    | ok o =>
      rw [hp] at hk
      cases o with
      | none => simp [Except.map, Option.map] at hk
      | some k' =>
        have : k = (k' : Int) := by simpa [Except.map, Option.map] using hk.symm
        obtain ⟨a, b1, c⟩ := h2 k' b' hp
        exact ⟨k', this, a, b1, c⟩
  · intro k ev hk
    rw [gen_privkey_init sha256 pfx none (some ev) none hno] at hk
    cases hp : privInit (fun x => sha256 (sha256 x)) pfx none (some ev) none with
    | error x => rw [hp] at hk; cases hk
    | ok o =>
      rw [hp] at hk
      cases o with
      | none => simp [Except.map, Option.map] at hk
      | some k' =>
        have hkk : k = (k' : Int) := by simpa [Except.map, Option.map] using hk.symm
        obtain ⟨a, b1, c⟩ := h3 k' ev hp
        subst hkk
        exact ⟨a, by omega, by omega⟩

end C09GenInit
