import BU.Gen.Codec
import BU.Model.Block
import BU.Proofs.GenTxLen
/-!
# C15, continuation — `utils.get_transaction_length` as *generated* code (tier T)

The length scanner `Block.from_raw` uses to slice transactions is re-translated from the working tree on every run.  On
every byte string (shorter than 2^63, the bound on a Python `bytes`) the generated function and the hand model
`Model.txLength` — the one `C15.block_slices` … are proved about — succeed on the same inputs with the same length.
(Which exception is raised on malformed input is not compared.)
-/
namespace C15Gen
open Model

theorem gen_tx_length (data : Bytes) (hlen : data.length < 2 ^ 63) :
    (Gen.get_transaction_length data).toOption = (txLength data).toOption.map Int.ofNat :=
  GenTxLen.gen_tx_length data hlen

end C15Gen
