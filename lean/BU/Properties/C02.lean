import BU.Py
import BU.Gen.Codec
import BU.Gen.Tables
import BU.Spec.Script
import BU.Spec.Disasm
import BU.Model.Script
import BU.Proofs.PyLemmas
import BU.Proofs.ScriptLemmas
import BU.Properties.C18
/-!
# C02 — script assembly emits canonical bytes and disassembly inverts it

T: the two opcode dictionaries and `_op_push_data` / `_push_integer` are regenerated from /repo on every
run.  M: `Model.scriptBytes` (`Script.to_bytes`), `Model.scriptFromRaw` (`Script.from_raw`), tied to the
code by the correspondence run.
-/
namespace C02
open Py Spec Model ScriptLemmas

/-- the library's dictionaries as generated from the working tree -/
def genTables : Tables := { opCodes := Gen.OP_CODES, codeOps := Gen.CODE_OPS }

def pushdataNames : List String := ["OP_PUSHDATA1", "OP_PUSHDATA2", "OP_PUSHDATA4"]

/-- everything the theorems below need from the two dictionaries (decidable, checked by evaluation) -/
def TablesOK (T : Tables) : Bool :=
  -- every library name is a consensus name (or Core alias) and carries the consensus byte
  T.opCodes.all (fun p => match opcodeByte? p.1 with | some b => p.2 == [b] | none => false) &&
  T.codeOps.all (fun p => match opcodeByte? p.2 with | some b => p.1 == [b] | none => false) &&
  -- every byte the assembler can emit for a name (other than the three PUSHDATA bytes) disassembles to a
  -- name that assembles back to the same byte
  T.opCodes.all (fun p => p.2 == [0x4c] || p.2 == [0x4d] || p.2 == [0x4e] ||
      match T.codeOps.lookup p.2 with
      | some nm => T.opCodes.lookup nm == some p.2
      | none => false) &&
  -- the direct-push length bytes 0x01..0x4b are never disassembled as opcodes …
  (List.range 75).all (fun i => (T.codeOps.lookup [UInt8.ofNat (i + 1)]).isNone) &&
  -- … and the three PUSHDATA bytes are recognised
  (T.codeOps.lookup [0x4c]).isSome && (T.codeOps.lookup [0x4d]).isSome && (T.codeOps.lookup [0x4e]).isSome &&
  -- OP_0 … OP_16 exist with their consensus bytes
  (List.range 17).all (fun i =>
      T.opCodes.lookup ("OP_" ++ toString (i : Int)) == some [if i = 0 then 0x00 else UInt8.ofNat (0x50 + i)])

/-- **T-tie**: the generated tables are sound w.r.t. the consensus numbering and mutually inverse -/
theorem tables_ok : TablesOK genTables = true := by
  decide +kernel

/-- **T-tie**: the push-form selector is the minimal push, for every length; ≥ 2^32 bytes are refused -/
theorem op_push_data_eq_spec (d : Bytes) : Gen.op_push_data d = opPushData d := by
  unfold Gen.op_push_data opPushData minimalPush Py.bytesOfInts Py.len
  simp only [pack_H, pack_I, packU]
  by_cases h1 : d.length ≤ 75
  · have a : (d.length : Int) < 76 := by omega
    have a' : (d.length : Int) < 256 := by omega
    have c : d.length < 2 ^ 32 := by omega
    simp [h1, a, a', c]; rfl
  · have a : ¬ (d.length : Int) < 76 := by omega
    by_cases h2 : d.length ≤ 255
    · have b : (d.length : Int) ≤ 255 := by omega
      have b' : (d.length : Int) < 256 := by omega
      have c : d.length < 2 ^ 32 := by omega
      simp [h1, h2, a, b, b', c]; rfl
    · have b : ¬ (d.length : Int) ≤ 255 := by omega
      by_cases h3 : d.length ≤ 65535
      · have b' : (d.length : Int) ≤ 65535 := by omega
        have c : d.length < 2 ^ 32 := by omega
        have c' : d.length < 256 ^ 2 := by omega
        simp [h1, h2, h3, a, b, b', c, c']; rfl
      · have b' : ¬ (d.length : Int) ≤ 65535 := by omega
        by_cases h4 : d.length < 2 ^ 32
        · have b'' : (d.length : Int) ≤ 4294967295 := by omega
          have c' : d.length < 256 ^ 4 := by omega
          simp [h1, h2, h3, h4, a, b, b', b'']; rfl
        · have b'' : ¬ (d.length : Int) ≤ 4294967295 := by omega
          simp [h4, a, b, b', b'']; rfl

/-- **T-tie**: the script-number encoder (`_push_integer(0)` itself raises; `to_bytes` never calls it for 0..16) -/
theorem push_integer_eq_spec (n : Int) (h : n ≠ 0) : Gen.push_integer n = pushInteger n := by
  by_cases hn : n < 0
  · unfold Gen.push_integer pushInteger
    simp [hn]
    rfl
  · obtain ⟨k, rfl⟩ : ∃ k : Nat, n = (k : Int) := ⟨n.toNat, by omega⟩
    have hk : 0 < k := by omega
    rw [C18.push_integer_scriptnum k hk, op_push_data_eq_spec]
    simp [pushInteger, hn]

/-- tokens in the property's domain: names of the table other than the bare PUSHDATA bytes (which are not
opcodes of the byte language), non-negative integers, data below 2^32 bytes -/
def WFTok (T : Tables) : Tok → Bool
  | .op name => (T.opCodes.lookup name).isSome && !(pushdataNames.contains name)
  | .int n => decide (0 ≤ n) && decide ((scriptNum n.toNat).length < 2 ^ 32)
  | .data d => decide (d.length < 2 ^ 32)

/-! ### what `TablesOK` gives -/

section tables
variable {T : Tables} (hT : TablesOK T = true)
include hT

theorem opCodes_byte {name : String} {bs : Bytes} (h : T.opCodes.lookup name = some bs) :
    ∃ b, bs = [b] ∧ opcodeByte? name = some b := by
  unfold TablesOK at hT
  simp only [Bool.and_eq_true, List.all_eq_true] at hT
  have h1 := hT.1.1.1.1.1.1.1 _ (lookup_some_mem h)
  simp only at h1
  split at h1
  · rename_i b hb
    exact ⟨b, by simpa using h1, hb⟩
  · simp at h1

theorem codeOps_inverse {name : String} {b : UInt8} (h : T.opCodes.lookup name = some [b])
    (h1 : b ≠ 0x4c) (h2 : b ≠ 0x4d) (h3 : b ≠ 0x4e) :
    ∃ nm, T.codeOps.lookup [b] = some nm ∧ T.opCodes.lookup nm = some [b] := by
  unfold TablesOK at hT
  simp only [Bool.and_eq_true, List.all_eq_true] at hT
  have h3' := hT.1.1.1.1.1.2 _ (lookup_some_mem h)
  simp only [Bool.or_eq_true, beq_iff_eq, List.cons.injEq, and_true] at h3'
  rcases h3' with ((h' | h') | h') | h'
  · exact absurd h' h1
  · exact absurd h' h2
  · exact absurd h' h3
  · split at h'
    · rename_i nm hnm
      exact ⟨nm, hnm, by simpa using h'⟩
    · simp at h'

theorem codeOps_direct (n : Nat) (h1 : 1 ≤ n) (h2 : n ≤ 75) : T.codeOps.lookup [UInt8.ofNat n] = none := by
  unfold TablesOK at hT
  simp only [Bool.and_eq_true, List.all_eq_true] at hT
  have h4 := hT.1.1.1.1.2 (n - 1) (List.mem_range.2 (by omega))
  have e : n - 1 + 1 = n := by omega
  rw [e] at h4
  simpa using h4

theorem codeOps_pushdata : (T.codeOps.lookup [0x4c]).isSome = true ∧ (T.codeOps.lookup [0x4d]).isSome = true ∧
    (T.codeOps.lookup [0x4e]).isSome = true := by
  unfold TablesOK at hT
  simp only [Bool.and_eq_true, List.all_eq_true] at hT
  exact ⟨hT.1.1.1.2, hT.1.1.2, hT.1.2⟩

theorem opCodes_small (i : Nat) (h : i < 17) :
    T.opCodes.lookup ("OP_" ++ toString (i : Int)) = some [if i = 0 then 0x00 else UInt8.ofNat (0x50 + i)] := by
  unfold TablesOK at hT
  simp only [Bool.and_eq_true, List.all_eq_true] at hT
  have h8 := hT.2 i (List.mem_range.2 h)
  simpa using h8

end tables

/-! ### one token -/

theorem not_push_byte {b : UInt8} (h0 : ¬ (1 ≤ b.toNat ∧ b.toNat ≤ 0x4b))
    (h1 : b ≠ 0x4c) (h2 : b ≠ 0x4d) (h3 : b ≠ 0x4e) : ¬ (1 ≤ b.toNat ∧ b.toNat ≤ 0x4e) := by
  intro ⟨ha, hb⟩
  have e : b = UInt8.ofNat b.toNat := by simp
  have : b.toNat = 0x4c ∨ b.toNat = 0x4d ∨ b.toNat = 0x4e := by omega
  rcases this with h | h | h <;> rw [h] at e
  · exact h1 e
  · exact h2 e
  · exact h3 e

/-- what the theorems need to know about one token: its bytes `e`, and the token `out` that the
disassembler returns for them -/
def TokFacts (T : Tables) (t : Tok) (e : Bytes) (out : Tok) : Prop :=
  tokBytes T t = .ok e ∧ encTok t = some e ∧
  (∀ seg rest, scriptFromRaw T seg (e ++ rest) = out :: scriptFromRaw T seg rest) ∧
  rendersTok t out = true ∧ tokBytes T out = .ok e

/-- a token that assembles to a single non-PUSHDATA opcode byte -/
theorem tok_op_facts {T : Tables} (hT : TablesOK T = true) (t : Tok) (name : String) (b : UInt8)
    (hl : T.opCodes.lookup name = some [b]) (h1 : b ≠ 0x4c) (h2 : b ≠ 0x4d) (h3 : b ≠ 0x4e)
    (htb : tokBytes T t = .ok [b]) (henc : encTok t = some [b]) :
    ∃ out, TokFacts T t [b] out := by
  obtain ⟨nm, hc, ho⟩ := codeOps_inverse hT hl h1 h2 h3
  obtain ⟨b', hb', hnm⟩ := opCodes_byte hT ho
  simp only [List.cons.injEq, and_true] at hb'
  subst hb'
  have hnp := not_push_byte (opcodeByte_not_direct hnm) h1 h2 h3
  refine ⟨.op nm, htb, henc, ?_, ?_, ?_⟩
  · intro seg rest
    exact fromRaw_op T seg b nm rest hc h1 h2 h3
  · simp only [rendersTok, henc, hnm]
    simp
    omega
  · simp only [tokBytes, ho]

theorem ofNat_small_toNat (i : Nat) (h : i < 17) : (UInt8.ofNat (0x50 + i)).toNat = 0x50 + i := by
  simp [UInt8.toNat_ofNat']; omega

theorem tok_facts {T : Tables} (hT : TablesOK T = true) (t : Tok) (hw : WFTok T t = true) :
    ∃ e out, TokFacts T t e out := by
  obtain ⟨p1, p2, p3⟩ := codeOps_pushdata hT
  -- data pushes (shared by `.data` and large `.int`)
  have hdata : ∀ (t : Tok) (d : Bytes), d.length < 2 ^ 32 → tokBytes T t = .ok (minimalPush d) →
      encTok t = some (minimalPush d) → ∃ e out, TokFacts T t e out := by
    intro t d hlen htb henc
    by_cases hd : d = []
    · subst hd
      have e0 : minimalPush [] = [0x00] := by simp [minimalPush]
      rw [e0] at htb henc
      have hl := opCodes_small hT 0 (by omega)
      simp only [if_true] at hl
      exact ⟨_, tok_op_facts hT t _ 0 hl (by decide) (by decide) (by decide) htb henc⟩
    · refine ⟨minimalPush d, .data d, htb, henc, ?_, ?_, ?_⟩
      · intro seg rest
        exact fromRaw_minimalPush T seg d rest hd hlen (codeOps_direct hT) p1 p2 p3
      · simp only [rendersTok, henc]
        simp [hlen, hd]
      · simp only [tokBytes, opPushData, hlen, if_true]
  cases t with
  | op name =>
    simp only [WFTok, Bool.and_eq_true, Bool.not_eq_true'] at hw
    obtain ⟨bs, hbs⟩ := Option.isSome_iff_exists.1 hw.1
    obtain ⟨b, rfl, hb⟩ := opCodes_byte hT hbs
    have hnp : ¬ (b = 0x4c ∨ b = 0x4d ∨ b = 0x4e) := by
      intro hc
      have := opcodeByte_pushdata hb hc
      have h2 := hw.2
      simp only [pushdataNames] at h2
      rw [this] at h2
      exact Bool.noConfusion h2
    refine ⟨_, tok_op_facts hT _ name b hbs (fun h => hnp (.inl h)) (fun h => hnp (.inr (.inl h)))
      (fun h => hnp (.inr (.inr h))) ?_ ?_⟩
    · simp only [tokBytes, hbs]
    · simp only [encTok, hb, Option.map_some]
  | int n =>
    simp only [WFTok, Bool.and_eq_true, decide_eq_true_eq] at hw
    obtain ⟨h0, hlen⟩ := hw
    by_cases hs : n ≤ 16
    · obtain ⟨i, rfl⟩ : ∃ i : Nat, n = (i : Int) := ⟨n.toNat, by omega⟩
      have hi : i < 17 := by omega
      have hl := opCodes_small hT i hi
      have hto := ofNat_small_toNat i hi
      have hne : ∀ c : UInt8, c.toNat = 0x4c ∨ c.toNat = 0x4d ∨ c.toNat = 0x4e →
          (if i = 0 then (0x00 : UInt8) else UInt8.ofNat (0x50 + i)) ≠ c := by
        intro c hc he
        have := congrArg UInt8.toNat he
        by_cases hi0 : i = 0
        · simp only [hi0, if_true] at this
          have : c.toNat = 0 := by rw [← this]; rfl
          omega
        · simp only [hi0, if_false, hto] at this
          omega
      refine ⟨_, tok_op_facts hT _ _ _ hl (hne _ (by decide)) (hne _ (by decide)) (hne _ (by decide)) ?_ ?_⟩
      · have hc : 0 ≤ (i : Int) ∧ (i : Int) ≤ 16 := ⟨h0, hs⟩
        simp only [tokBytes, hc, and_self, if_true, hl]
      · have hc : 0 ≤ (i : Int) ∧ (i : Int) ≤ 16 := ⟨h0, hs⟩
        simp only [encTok, hc, and_self, if_true, Int.toNat_natCast, Int.natCast_eq_zero]
    · have hc : ¬ (0 ≤ n ∧ n ≤ 16) := by omega
      have hneg : ¬ n < 0 := by omega
      apply hdata _ (scriptNum n.toNat) hlen
      · simp only [tokBytes, hc, if_false, pushInteger, hneg, opPushData, hlen, if_true]
      · simp only [encTok, hc, if_false, hneg]
  | data d =>
    simp only [WFTok, decide_eq_true_eq] at hw
    apply hdata _ d hw
    · simp only [tokBytes, opPushData, hw, if_true]
    · simp only [encTok, hw, if_true]

theorem scriptBytes_cons_ok {T : Tables} {t : Tok} {ts : List Tok} {bs : Bytes}
    (h : scriptBytes T (t :: ts) = .ok bs) :
    ∃ a b, tokBytes T t = .ok a ∧ scriptBytes T ts = .ok b ∧ bs = a ++ b := by
  simp only [scriptBytes, bind, Except.bind, pure, Except.pure] at h
  cases ha : tokBytes T t with
  | error e => rw [ha] at h; simp at h
  | ok a =>
    rw [ha] at h
    cases hb : scriptBytes T ts with
    | error e => rw [hb] at h; simp at h
    | ok b =>
      rw [hb] at h
      simp only [Except.ok.injEq] at h
      exact ⟨a, b, rfl, rfl, h.symm⟩

theorem scriptBytes_cons_of_ok {T : Tables} {t : Tok} {ts : List Tok} {a b : Bytes}
    (ha : tokBytes T t = .ok a) (hb : scriptBytes T ts = .ok b) : scriptBytes T (t :: ts) = .ok (a ++ b) := by
  simp only [scriptBytes, bind, Except.bind, pure, Except.pure, ha, hb]

/-- assembling yields the consensus byte encoding (one byte per opcode, OP_0..OP_16 for 0..16, minimal
script-number push for larger integers, smallest push form for data) -/
theorem assemble (T : Tables) (hT : TablesOK T = true) (toks : List Tok) (h : ∀ t ∈ toks, WFTok T t = true) :
    ∃ bs, scriptBytes T toks = .ok bs ∧ encToks toks = some bs := by
  induction toks with
  | nil => exact ⟨[], rfl, rfl⟩
  | cons t ts ih =>
    obtain ⟨b, hb1, hb2⟩ := ih (fun t ht => h t (List.mem_cons_of_mem _ ht))
    obtain ⟨a, out, ha1, ha2, _⟩ := tok_facts hT t (h t List.mem_cons_self)
    refine ⟨a ++ b, scriptBytes_cons_of_ok ha1 hb1, ?_⟩
    simp only [encToks, ha2, hb2, bind, Option.bind, pure]

/-- disassembling such bytes returns every opcode by name and every push as exactly its data … -/
theorem disasm_assemble (T : Tables) (hT : TablesOK T = true) (toks : List Tok) (h : ∀ t ∈ toks, WFTok T t = true)
    (bs : Bytes) (hb : scriptBytes T toks = .ok bs) (seg : Bool) :
    renders toks (scriptFromRaw T seg bs) = true := by
  induction toks generalizing bs with
  | nil =>
    simp only [scriptBytes, Except.ok.injEq] at hb
    subst hb
    rw [scriptFromRaw]
    rfl
  | cons t ts ih =>
    obtain ⟨a, b, ha, hb', rfl⟩ := scriptBytes_cons_ok hb
    obtain ⟨a', out, ha1, _, hp, hr, _⟩ := tok_facts hT t (h t List.mem_cons_self)
    rw [ha] at ha1
    simp only [Except.ok.injEq] at ha1
    subst ha1
    rw [hp seg b]
    simp only [renders, hr, Bool.true_and]
    exact ih (fun t ht => h t (List.mem_cons_of_mem _ ht)) b hb'

/-- … and re-assembling gives the same bytes, for legacy and segwit parse flag alike -/
theorem reassemble (T : Tables) (hT : TablesOK T = true) (toks : List Tok) (h : ∀ t ∈ toks, WFTok T t = true)
    (bs : Bytes) (hb : scriptBytes T toks = .ok bs) (seg : Bool) :
    scriptBytes T (scriptFromRaw T seg bs) = .ok bs := by
  induction toks generalizing bs with
  | nil =>
    simp only [scriptBytes, Except.ok.injEq] at hb
    subst hb
    rw [scriptFromRaw]
    rfl
  | cons t ts ih =>
    obtain ⟨a, b, ha, hb', rfl⟩ := scriptBytes_cons_ok hb
    obtain ⟨a', out, ha1, _, hp, _, ho⟩ := tok_facts hT t (h t List.mem_cons_self)
    rw [ha] at ha1
    simp only [Except.ok.injEq] at ha1
    subst ha1
    rw [hp seg b]
    exact scriptBytes_cons_of_ok ho (ih (fun t ht => h t (List.mem_cons_of_mem _ ht)) b hb')

/-- the same three facts for the tables of the current working tree -/
theorem assemble_disasm_reassemble_gen (toks : List Tok) (h : ∀ t ∈ toks, WFTok genTables t = true) (seg : Bool) :
    ∃ bs, scriptBytes genTables toks = .ok bs ∧ encToks toks = some bs ∧
      renders toks (scriptFromRaw genTables seg bs) = true ∧
      scriptBytes genTables (scriptFromRaw genTables seg bs) = .ok bs := by
  obtain ⟨bs, h1, h2⟩ := assemble genTables tables_ok toks h
  exact ⟨bs, h1, h2, disasm_assemble genTables tables_ok toks h bs h1 seg, reassemble genTables tables_ok toks h bs h1 seg⟩

/-- non-vacuity: a P2PKH script with a PUSHDATA1 push and an integer is in the domain -/
example : ∀ t ∈ [Tok.op "OP_DUP", .op "OP_HASH160", .data (List.replicate 76 0xaa), .int 1000, .int 7, .op "OP_CHECKSIG"],
    WFTok genTables t = true := by decide +kernel

end C02
