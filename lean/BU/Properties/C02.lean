import BU.Py
import BU.Gen.Codec
import BU.Gen.Tables
import BU.Spec.Script
import BU.Spec.Disasm
import BU.Model.Script
import BU.Proofs.PyLemmas
import BU.Proofs.ScriptLemmas
import BU.Properties.C18
/-!
# C02 — script assembly emits canonical bytes and disassembly inverts it

T: the two opcode dictionaries and `_op_push_data` / `_push_integer` are regenerated from /repo on every
run.  M: `Model.scriptBytes` (`Script.to_bytes`), `Model.scriptFromRaw` (`Script.from_raw`), tied to the
code by the correspondence run.
-/
namespace C02
open Py Spec Model

/-- the library's dictionaries as generated from the working tree -/
def genTables : Tables := { opCodes := Gen.OP_CODES, codeOps := Gen.CODE_OPS }

def pushdataNames : List String := ["OP_PUSHDATA1", "OP_PUSHDATA2", "OP_PUSHDATA4"]

/-- everything the theorems below need from the two dictionaries (decidable, checked by evaluation) -/
def TablesOK (T : Tables) : Bool :=
  -- every library name is a consensus name (or Core alias) and carries the consensus byte
  T.opCodes.all (fun p => match opcodeByte? p.1 with | some b => p.2 == [b] | none => false) &&
  T.codeOps.all (fun p => match opcodeByte? p.2 with | some b => p.1 == [b] | none => false) &&
  -- every byte the assembler can emit for a name (other than the three PUSHDATA bytes) disassembles to a
  -- name that assembles back to the same byte
  T.opCodes.all (fun p => p.2 == [0x4c] || p.2 == [0x4d] || p.2 == [0x4e] ||
      match T.codeOps.lookup p.2 with
      | some nm => T.opCodes.lookup nm == some p.2
      | none => false) &&
  -- the direct-push length bytes 0x01..0x4b are never disassembled as opcodes …
  (List.range 75).all (fun i => (T.codeOps.lookup [UInt8.ofNat (i + 1)]).isNone) &&
  -- … and the three PUSHDATA bytes are recognised
  (T.codeOps.lookup [0x4c]).isSome && (T.codeOps.lookup [0x4d]).isSome && (T.codeOps.lookup [0x4e]).isSome &&
  -- OP_0 … OP_16 exist with their consensus bytes
  (List.range 17).all (fun i =>
      T.opCodes.lookup ("OP_" ++ toString (i : Int)) == some [if i = 0 then 0x00 else UInt8.ofNat (0x50 + i)])

/-- **T-tie**: the generated tables are sound w.r.t. the consensus numbering and mutually inverse -/
theorem tables_ok : TablesOK genTables = true := by
  decide +kernel

/-- **T-tie**: the push-form selector is the minimal push, for every length; ≥ 2^32 bytes are refused -/
theorem op_push_data_eq_spec (d : Bytes) : Gen.op_push_data d = opPushData d := by
  sorry

/-- **T-tie**: the script-number encoder (`_push_integer(0)` itself raises; `to_bytes` never calls it for 0..16) -/
theorem push_integer_eq_spec (n : Int) (h : n ≠ 0) : Gen.push_integer n = pushInteger n := by
  sorry

/-- tokens in the property's domain: names of the table other than the bare PUSHDATA bytes (which are not
opcodes of the byte language), non-negative integers, data below 2^32 bytes -/
def WFTok (T : Tables) : Tok → Bool
  | .op name => (T.opCodes.lookup name).isSome && !(pushdataNames.contains name)
  | .int n => decide (0 ≤ n) && decide ((scriptNum n.toNat).length < 2 ^ 32)
  | .data d => decide (d.length < 2 ^ 32)

/-- assembling yields the consensus byte encoding (one byte per opcode, OP_0..OP_16 for 0..16, minimal
script-number push for larger integers, smallest push form for data) -/
theorem assemble (T : Tables) (hT : TablesOK T = true) (toks : List Tok) (h : ∀ t ∈ toks, WFTok T t = true) :
    ∃ bs, scriptBytes T toks = .ok bs ∧ encToks toks = some bs := by
  sorry

/-- disassembling such bytes returns every opcode by name and every push as exactly its data … -/
theorem disasm_assemble (T : Tables) (hT : TablesOK T = true) (toks : List Tok) (h : ∀ t ∈ toks, WFTok T t = true)
    (bs : Bytes) (hb : scriptBytes T toks = .ok bs) (seg : Bool) :
    renders toks (scriptFromRaw T seg bs) = true := by
  sorry

/-- … and re-assembling gives the same bytes, for legacy and segwit parse flag alike -/
theorem reassemble (T : Tables) (hT : TablesOK T = true) (toks : List Tok) (h : ∀ t ∈ toks, WFTok T t = true)
    (bs : Bytes) (hb : scriptBytes T toks = .ok bs) (seg : Bool) :
    scriptBytes T (scriptFromRaw T seg bs) = .ok bs := by
  sorry

/-- the same three facts for the tables of the current working tree -/
theorem assemble_disasm_reassemble_gen (toks : List Tok) (h : ∀ t ∈ toks, WFTok genTables t = true) (seg : Bool) :
    ∃ bs, scriptBytes genTables toks = .ok bs ∧ encToks toks = some bs ∧
      renders toks (scriptFromRaw genTables seg bs) = true ∧
      scriptBytes genTables (scriptFromRaw genTables seg bs) = .ok bs := by
  obtain ⟨bs, h1, h2⟩ := assemble genTables tables_ok toks h
  exact ⟨bs, h1, h2, disasm_assemble genTables tables_ok toks h bs h1 seg, reassemble genTables tables_ok toks h bs h1 seg⟩

/-- non-vacuity: a P2PKH script with a PUSHDATA1 push and an integer is in the domain -/
example : ∀ t ∈ [Tok.op "OP_DUP", .op "OP_HASH160", .data (List.replicate 76 0xaa), .int 1000, .int 7, .op "OP_CHECKSIG"],
    WFTok genTables t = true := by decide +kernel

end C02
