import BU.Py
import BU.Gen.Tables
import BU.Spec.Bip32
import BU.Model.HD
import BU.Properties.C09
/-!
# C19 — HD wallet keys equal BIP32/BIP39 derivation on the configured network

M: the wrapper `bitcoinutils/hdwallet.py` (`Model.HD.fromSeed`, `fromXprv`, `fromPath`, `getPrivateKey`) over the
parameter model `ExtHDW` of the third-party `hdwallet` object.  That the real library behaves like the parameter
model (and like BIP32/BIP39) is evidence by correspondence only.
-/
namespace C19
open Py Spec Model Model.HD Secp

theorem fromPath_spec (hmac : Bytes → Bytes → Bytes) (w : ExtHDW) (p : List Nat) (w' : ExtHDW)
    (h : fromPath hmac w p = .ok w') : w'.root = w.root ∧ derivePath hmac w.root p = some w'.cur := by
  unfold fromPath ExtHDW.fromDerivation ExtHDW.clean at h
  simp only at h
  split at h
  · next k hk =>
    injection h with h
    subst h
    exact ⟨rfl, hk⟩
  · cases h

theorem foldl_root (hmac : Bytes → Bytes → Bytes) (paths : List (List Nat)) (w w' : ExtHDW)
    (h : paths.foldlM (fromPath hmac) w = .ok w') : w'.root = w.root := by
  induction paths generalizing w with
  | nil =>
    simp only [List.foldlM_nil, pure, Except.pure] at h
    injection h with h
    subst h; rfl
  | cons p ps ih =>
    simp only [List.foldlM_cons, bind, Except.bind] at h
    cases h1 : fromPath hmac w p with
    | error e => rw [h1] at h; cases h
    | ok w1 =>
      rw [h1] at h
      rw [ih w1 h]
      exact (fromPath_spec hmac w p w1 h1).1

/-- **setting a new path derives from the root again, not from the previous child**: after any sequence of
`from_path` calls the current key is the BIP32 private child derivation of the ROOT along the last path, and the
root never changes -/
theorem from_path_resets (hmac : Bytes → Bytes → Bytes) (w : ExtHDW) (paths : List (List Nat)) (p : List Nat) (w' : ExtHDW)
    (h : (paths ++ [p]).foldlM (fromPath hmac) w = .ok w') :
    w'.root = w.root ∧ derivePath hmac w.root p = some w'.cur := by
  rw [List.foldlM_append] at h
  cases h1 : paths.foldlM (fromPath hmac) w with
  | error e => rw [h1] at h; simp [bind, Except.bind] at h
  | ok w1 =>
    rw [h1] at h
    simp only [bind, Except.bind, List.foldlM_cons, List.foldlM_nil, pure, Except.pure] at h
    have hr := foldl_root hmac paths w w1 h1
    cases h2 : fromPath hmac w1 p with
    | error e => rw [h2] at h; simp at h
    | ok w2 =>
      rw [h2] at h
      have hw : w2 = w' := by simpa using h
      subst hw
      have := fromPath_spec hmac w1 p w2 h2
      rw [hr] at this
      exact this

/-- a wallet from a mnemonic holds the BIP32 master key of the BIP39 PBKDF2 seed -/
theorem from_mnemonic_spec (hmac : Bytes → Bytes → Bytes) (pbkdf2 : Bytes → Bytes → Nat → Bytes) (mn : Bytes) (w : ExtHDW)
    (h : fromSeed hmac (bip39Seed pbkdf2 mn []) = .ok w) :
    masterKey hmac (pbkdf2 mn "mnemonic".toUTF8.toList 2048) = some w.root ∧ w.cur = w.root := by
  unfold fromSeed bip39Seed at h
  rw [List.append_nil] at h
  split at h
  · next k hk =>
    injection h with h
    subst h
    exact ⟨hk, rfl⟩
  · cases h

/-- a wallet from an extended private key and a path holds the HMAC-SHA512 chain starting from the given key -/
theorem from_xprv_spec (hmac : Bytes → Bytes → Bytes) (k : XKey) (path : List Nat) (w : ExtHDW)
    (h : fromXprv hmac k path = .ok w) : w.root = k ∧ derivePath hmac k path = some w.cur := by
  unfold fromXprv ExtHDW.fromDerivation at h
  simp only at h
  split at h
  · next k' hk =>
    injection h with h
    subst h
    exact ⟨rfl, hk⟩
  · cases h

/-- **T-tie**: on every configured network the WIF prefix of the hdwallet network chosen by the wrapper
(`'mainnet' if is_mainnet() else 'testnet'`) is the prefix `PrivateKey._from_wif` expects -/
theorem network_ok : ∀ e ∈ Gen.NETWORK_WIF_PREFIXES, e.2 = extWifPrefix (e.1 == "mainnet") := by
  decide

/-- the key handed back imports on the configured network and is exactly the derived key -/
theorem get_private_key_exact (dsha : Bytes → Bytes) (hd : ∀ x, (dsha x).length = 32)
    (e : String × Bytes) (he : e ∈ Gen.NETWORK_WIF_PREFIXES) (w : ExtHDW) (hk : 1 ≤ w.cur.key ∧ w.cur.key < n) :
    getPrivateKey dsha (e.1 == "mainnet") e.2 w = .ok w.cur.key := by
  unfold getPrivateKey
  rw [← network_ok e he]
  exact C09.wif_roundtrip dsha hd e.2 (C09.wif_prefixes e he).1 w.cur.key hk.1 hk.2 true

/-- BIP32 child keys are always valid secrets (so the hand-over hypothesis above is met by every derived key) -/
theorem derived_key_valid (hmac : Bytes → Bytes → Bytes) (par : XKey) (i : Nat) (c : XKey)
    (h : ckdPriv hmac par i = some c) : 1 ≤ c.key ∧ c.key < n := by
  unfold ckdPriv at h
  simp only at h
  generalize (if i ≥ 2 ^ 31 then [0x00] ++ beBytes 32 par.key ++ beBytes 4 i else serP par.key ++ beBytes 4 i) = data at h
  by_cases hc : ofBE ((hmac par.chain data).take 32) ≥ n ∨ (ofBE ((hmac par.chain data).take 32) + par.key) % n = 0
  · rw [if_pos hc] at h; cases h
  · rw [if_neg hc] at h
    injection h with h
    subst h
    have hn : 0 < n := by decide
    simp only [not_or] at hc
    exact ⟨Nat.pos_of_ne_zero hc.2, Nat.mod_lt _ hn⟩

end C19
