import BU.Properties.C20_Gen
import BU.Proofs.CurveLawsFinal
import BU.Properties.C20
/-!
# C20, continuation — the group law holds of the *generated* curve arithmetic

`CurveLaws` is proved about `Secp.add / mul` (Pratt certificates for p and n, Mathlib's Weierstrass group law, n·G = 0 by kernel
evaluation).  Through `C20Gen.gen_point_add / gen_point_mul` it transfers to the functions translated from `schnorr.py` on every
run: multiples of G computed by the Python code add like their scalars, and n·G is the point at infinity.
-/
namespace C20GenCurve
open Secp GenSchnorr

/-- the generator as the Python value -/
def Gi : Option (Int × Int) := castP G

/-- `point_add(point_mul(G, a), point_mul(G, b)) = point_mul(G, (a + b) % n)` for the translated functions -/
theorem gen_mulG_add (a b : Nat) (ha : a < n) (hb : b < n) :
    (do let A ← Gen.schnorr_point_mul Gi (a : Int)
        let B ← Gen.schnorr_point_mul Gi (b : Int)
        Gen.schnorr_point_add A B) = Gen.schnorr_point_mul Gi (((a + b) % n : Nat) : Int) := by
  unfold Gi
  rw [C20Gen.gen_point_mul, C20Gen.gen_point_mul, C20Gen.gen_point_mul]
  show Gen.schnorr_point_add (castP (mul G a)) (castP (mul G b)) = _
  rw [C20Gen.gen_point_add, CurveLawsFinal.curveLaws.add_mulG a b ha hb]

/-- `point_mul(G, n)` is the point at infinity, and no smaller positive multiple is -/
theorem gen_order :
    Gen.schnorr_point_mul Gi (n : Int) = .ok none ∧
    ∀ k, 0 < k → k < n → Gen.schnorr_point_mul Gi (k : Int) ≠ .ok none := by
  unfold Gi
  constructor
  · rw [C20Gen.gen_point_mul, CurveLawsFinal.curveLaws.mulG_mod n (by decide), Nat.mod_self,
      CurveLawsFinal.curveLaws.mulG_zero]
    rfl
  · intro k h0 hk h
    rw [C20Gen.gen_point_mul] at h
    have hn := CurveLawsFinal.curveLaws.mulG_ne_none k h0 hk
    cases hm : mul G k with
    | none => exact hn hm
    | some q => rw [hm] at h; cases h

/-- **RIPEMD-160 end to end**: the Python source of `ripemd160`, as translated on this run, computes the RIPEMD-160 of the
specification (Dobbertin, Bosselaers, Preneel) on every message shorter than 2^61 bytes -/
theorem gen_ripemd160_eq_spec (data : Bytes) (hlen : data.length < 2 ^ 61) :
    Gen.rmd_ripemd160 data = .ok (Spec.Rmd.ripemd160 data) := by
  rw [C20Gen.gen_ripemd160 data hlen]
  exact congrArg Except.ok (C20.ripemd_eq_spec data)

end C20GenCurve
