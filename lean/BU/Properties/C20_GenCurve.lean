import BU.Properties.C20_Gen
import BU.Proofs.CurveLawsFinal
import BU.Properties.C20
/-!
# C20, continuation — the group law holds of the *generated* curve arithmetic

`CurveLaws` is proved about `Secp.add / mul` (Pratt certificates for p and n, Mathlib's Weierstrass group law, n·G = 0 by kernel
evaluation).  Through `C20Gen.gen_point_add / gen_point_mul` it transfers to the functions translated from `schnorr.py` on every
run: multiples of G computed by the Python code add like their scalars, and n·G is the point at infinity.
-/
namespace C20GenCurve
open Secp GenSchnorr

/-- the generator as the Python value -/
def Gi : Option (Int × Int) := castP G

/-- `point_add(point_mul(G, a), point_mul(G, b)) = point_mul(G, (a + b) % n)` for the translated functions -/
theorem gen_mulG_add (a b : Nat) (ha : a < n) (hb : b < n) :
    (do let A ← Gen.schnorr_point_mul Gi (a : Int)
        let B ← Gen.schnorr_point_mul Gi (b : Int)
        Gen.schnorr_point_add A B) = Gen.schnorr_point_mul Gi (((a + b) % n : Nat) : Int) := by
  unfold Gi
  rw [C20Gen.gen_point_mul, C20Gen.gen_point_mul, C20Gen.gen_point_mul]
  show Gen.schnorr_point_add (castP (mul G a)) (castP (mul G b)) = _
  rw [C20Gen.gen_point_add, CurveLawsFinal.curveLaws.add_mulG a b ha hb]

/-- `point_mul(G, n)` is the point at infinity, and no smaller positive multiple is -/
theorem gen_order :
    Gen.schnorr_point_mul Gi (n : Int) = .ok none ∧
    ∀ k, 0 < k → k < n → Gen.schnorr_point_mul Gi (k : Int) ≠ .ok none := by
  unfold Gi
  constructor
  · rw [C20Gen.gen_point_mul, CurveLawsFinal.curveLaws.mulG_mod n (by decide), Nat.mod_self,
      CurveLawsFinal.curveLaws.mulG_zero]
    rfl
  · intro k h0 hk h
    rw [C20Gen.gen_point_mul] at h
    have hn := CurveLawsFinal.curveLaws.mulG_ne_none k h0 hk
    cases hm : mul G k with
    | none => exact hn hm
    | some q => rw [hm] at h; cases h

/-- **RIPEMD-160 end to end**: the Python source of `ripemd160`, as translated on this run, computes the RIPEMD-160 of the
specification (Dobbertin, Bosselaers, Preneel) on every message shorter than 2^61 bytes -/
theorem gen_ripemd160_eq_spec (data : Bytes) (hlen : data.length < 2 ^ 61) :
    Gen.rmd_ripemd160 data = .ok (Spec.Rmd.ripemd160 data) := by
  rw [C20Gen.gen_ripemd160 data hlen]
  exact congrArg Except.ok (C20.ripemd_eq_spec data)

/-- **BIP340 verification end to end**: the translated `schnorr_verify` is BIP340 verification on all inputs of the right
lengths (and raises on the others) -/
theorem gen_verify_eq_spec (sha256 : Bytes → Bytes) (msg pk sig : Bytes)
    (h1 : msg.length = 32) (h2 : pk.length = 32) (h3 : sig.length = 64) :
    Gen.schnorr_verify sha256 msg pk sig = .ok (Spec.bip340Verify sha256 msg pk sig) := by
  rw [C20Gen.gen_schnorr_verify]
  exact C20.verify_eq_spec sha256 msg pk sig h1 h2 h3

/-- **BIP340 signing end to end**: for every valid key, message and aux (non-zero nonce) the translated `schnorr_sign`
returns a 64-byte signature — its self-verification never fires — and that signature is the one BIP340 specifies -/
theorem gen_sign_ok (sha256 : Bytes → Bytes) (hlen : ∀ b, (sha256 b).length = 32)
    (msg sk aux : Bytes) (h1 : msg.length = 32) (h2 : sk.length = 32) (h3 : aux.length = 32)
    (hd : 1 ≤ Py.ofBE sk ∧ Py.ofBE sk < n)
    (hk : ∀ x y, mul G (Py.ofBE sk) = some (x, y) →
      Py.ofBE (Spec.taggedHash sha256 "BIP0340/nonce"
        (Model.schnorrXor (Py.beBytes 32 (if y % 2 == 0 then Py.ofBE sk else n - Py.ofBE sk)) (Spec.taggedHash sha256 "BIP0340/aux" aux)
          ++ Py.beBytes 32 x ++ msg)) % n ≠ 0) :
    ∃ sig, Gen.schnorr_sign sha256 msg sk aux = .ok sig ∧ sig.length = 64 ∧
      Spec.bip340Sign sha256 msg sk aux = some sig := by
  obtain ⟨sig, hs, hl⟩ := C20.sign_never_fails_unconditional sha256 hlen msg sk aux h1 h2 h3 hd hk
  exact ⟨sig, by rw [C20Gen.gen_schnorr_sign]; exact hs, hl, C20.sign_eq_spec sha256 msg sk aux sig hs⟩

end C20GenCurve
