import BU.Py
import BU.Gen.Tables
import BU.Spec.Base58
import BU.Spec.CurveLaws
import BU.Model.Keys
import BU.Proofs.Base58Lemmas
import BU.Proofs.KeyLemmas
import BU.Proofs.CurveLawsFinal
/-!
# C09 — private/public key encodings (WIF, SEC, x-only) round-trip and match the curve

M: `Model.fromWif`, `toWif`, `privInit`, `pubOfPriv`, `pubFromBytes`, `pubToBytes`, `pubXOnly`.
Third-party code enters as what it is specified to compute (Base58 = `Spec.B58`, key constructors =
range / on-curve checks, `d·G` = `Secp.mul G d`, sympy `sqrt_mod` = all square roots).
-/
namespace C09
open Py Spec Model Secp

/-- **T-tie**: every network has a one-byte WIF version prefix (0x80 mainnet, 0xef otherwise) -/
theorem wif_prefixes : ∀ e ∈ Gen.NETWORK_WIF_PREFIXES, e.2.length = 1 ∧
    (e.1 = "mainnet" → e.2 = [0x80]) ∧ (e.1 ≠ "mainnet" → e.2 = [0xef]) := by
  decide

/-- WIF export then import is the identity, compressed and uncompressed, for every secret in [1, n−1] and every
one-byte network prefix -/
theorem wif_roundtrip (dsha : Bytes → Bytes) (hd : ∀ x, (dsha x).length = 32) (pfx : Bytes) (hp : pfx.length = 1)
    (d : Nat) (h1 : 1 ≤ d) (h2 : d < n) (c : Bool) :
    fromWif dsha pfx (toWif dsha pfx d c) = .ok d := by
  have hcs : ∀ x, ((dsha x).take 4).length = 4 := by intro x; simp [hd x]
  have hn := KeyLemmas.n_lt'
  have hdlt : d < 256 ^ 32 := Nat.lt_trans h2 hn
  have hsk : signingKeyFromString (beBytes 32 d) = .ok d := by
    unfold signingKeyFromString
    simp [Py.ofBE_beBytes 32 d hdlt, h1, h2]
  unfold fromWif toWif
  simp only [Base58Lemmas.decode_encode]
  generalize hdata : pfx ++ beBytes 32 d ++ (if c = true then [0x01] else []) = data
  have hdl : dropLast4 (data ++ (dsha data).take 4) = data := by
    unfold dropLast4
    rw [List.length_append, hcs, Nat.add_sub_cancel, List.take_left']
    rfl
  have hl4 : last4 (data ++ (dsha data).take 4) = (dsha data).take 4 := by
    unfold last4
    rw [List.length_append, hcs, Nat.add_sub_cancel, List.drop_left']
    rfl
  simp only [hdl, hl4, beq_self_eq_true, Bool.not_true, Bool.false_eq_true, if_false]
  obtain ⟨b0, rfl⟩ : ∃ b0, pfx = [b0] := by
    match pfx, hp with
    | [b0], _ => exact ⟨b0, rfl⟩
  subst hdata
  cases c <;> simp [hsk]

/-- exported WIF is Base58Check(version ‖ 32-byte key ‖ [01 if compressed]) -/
theorem wif_standard_form (dsha : Bytes → Bytes) (pfx : Bytes) (d : Nat) (c : Bool) :
    toWif dsha pfx d c = B58.check dsha (pfx ++ beBytes 32 d ++ (if c then [0x01] else [])) := by
  rfl

/-- imports with a wrong checksum, another network's version byte, or characters outside the alphabet are rejected -/
theorem wif_rejects (dsha : Bytes → Bytes) (pfx : Bytes) (w : String)
    (h : B58.decode w = none ∨
         (∃ data, B58.decode w = some data ∧
            (last4 data ≠ (dsha (dropLast4 data)).take 4 ∨ (dropLast4 data).take 1 ≠ pfx))) :
    ∃ e, fromWif dsha pfx w = .error e := by
  unfold fromWif
  rcases h with h | ⟨data, hdec, h | h⟩
  · exact ⟨_, by simp only [h]; rfl⟩
  · have hb : (last4 data == (dsha (dropLast4 data)).take 4) = false := by
      simpa using h
    exact ⟨.valueError, by simp only [hdec, hb]; rfl⟩
  · by_cases hc : (last4 data == (dsha (dropLast4 data)).take 4) = true
    · have hb : (pfx != (dropLast4 data).take 1) = true := by
        simp only [bne_iff_ne, ne_eq]; exact fun e => h e.symm
      exact ⟨.valueError, by simp only [hdec, hc, hb]; rfl⟩
    · have hc' : (last4 data == (dsha (dropLast4 data)).take 4) = false := by simpa using hc
      exact ⟨.valueError, by simp only [hdec, hc']; rfl⟩

/-- building a key from an explicit secret either holds exactly that secret or fails; only the call without
arguments generates a random key -/
theorem explicit_secret (dsha : Bytes → Bytes) (pfx : Bytes) (w : Option String) (e : Option Int) (b : Option Bytes) :
    (privInit dsha pfx w e b = .ok none ↔ (w = none ∧ e = none ∧ b = none)) ∧
    (∀ k b', privInit dsha pfx none e (some b') = .ok (some k) → b' = beBytes 32 k ∧ 1 ≤ k ∧ k < n) ∧
    (∀ k ev, privInit dsha pfx none (some ev) none = .ok (some k) → (k : Int) = ev ∧ 1 ≤ k ∧ k < n) := by
  refine ⟨?_, ?_, ?_⟩
  · constructor
    · intro h
      have hmap : ∀ (x : Except PyErr Nat), x.map some ≠ .ok none := by
        intro x; cases x <;> simp [Except.map]
      cases w with
      | some w => exact absurd h (hmap _)
      | none =>
        cases b with
        | some bb => exact absurd h (hmap _)
        | none =>
          cases e with
          | some ev => exact absurd h (hmap _)
          | none => exact ⟨rfl, rfl, rfl⟩
    · rintro ⟨rfl, rfl, rfl⟩; rfl
  · intro k b' h
    have h' : (if b'.length ≠ 32 then Except.error PyErr.valueError else signingKeyFromString b').map some
        = .ok (some k) := by
      cases e <;> exact h
    by_cases hl : b'.length ≠ 32
    · simp [hl, Except.map] at h'
    · simp only [hl, if_false] at h'
      have hl' : b'.length = 32 := by omega
      unfold signingKeyFromString at h'
      simp only [hl, if_false] at h'
      by_cases hr : 1 ≤ ofBE b' ∧ ofBE b' < n
      · simp only [hr, and_self, if_true, Except.map, Except.ok.injEq, Option.some.injEq] at h'
        subst h'
        refine ⟨?_, hr.1, hr.2⟩
        have := Py.leBytes_ofLE b'.reverse
        rw [List.length_reverse, hl'] at this
        unfold beBytes ofBE
        rw [this, List.reverse_reverse]
      · simp [hr, Except.map] at h'
  · intro k ev h
    have h' : (signingKeyFromExponent ev).map some = .ok (some k) := h
    unfold signingKeyFromExponent at h'
    by_cases hr : 1 ≤ ev ∧ ev < n
    · simp only [hr, and_self, if_true, Except.map, Except.ok.injEq, Option.some.injEq] at h'
      subst h'
      omega
    · simp [hr, Except.map] at h'

/-- the public key of `d` is `d·G` -/
theorem pub_is_dG (d : Nat) (P : Nat × Nat) : pubOfPriv d = .ok P ↔ mul G d = some P := by
  unfold pubOfPriv
  cases h : mul G d <;> simp

/-- standard forms: 02/03 ‖ x by parity of y, 04 ‖ x ‖ y, 32-byte x -/
theorem sec_standard_form (P : Nat × Nat) :
    pubToBytes P true = (if P.2 % 2 = 0 then 0x02 else 0x03) :: beBytes 32 P.1 ∧
    pubToBytes P false = 0x04 :: (beBytes 32 P.1 ++ beBytes 32 P.2) ∧ pubXOnly P = beBytes 32 P.1 := by
  exact ⟨rfl, rfl, rfl⟩

/-- parsing any of the three encodings of `d·G` returns the identical curve point (for x-only: its even-y
representative), for both parities and for x coordinates with leading zero bytes -/
theorem sec_roundtrip (laws : CurveLaws) (d : Nat) (hd : 1 ≤ d ∧ d < n) (x y : Nat) (hP : mul G d = some (x, y)) :
    pubFromBytes (pubToBytes (x, y) true) = .ok (x, y) ∧
    pubFromBytes (pubToBytes (x, y) false) = .ok (x, y) ∧
    pubFromBytes (pubXOnly (x, y)) = .ok (x, if y % 2 = 0 then y else p - y) := by
  obtain ⟨hx, hy0, hy⟩ := laws.coords d x y hP
  have hc := laws.onCurve_mulG d x y hP
  have hl := laws.liftX_mulG d x y hP
  obtain ⟨r, hr0, hr, hyr, hs⟩ := KeyLemmas.sqrtAll_of_liftX x y hy0 hy hl
  have hx' : x < 256 ^ 32 := Nat.lt_trans hx KeyLemmas.p_lt'
  have hx2 : ¬ x ≥ 2 ^ 256 := by have := KeyLemmas.p_lt; omega
  have hpodd := KeyLemmas.p_odd
  have hvk := KeyLemmas.verifyingKey_ok x y hx hy hc
  have hcn : onCurve (some (x, p - y)) = true := by rw [KeyLemmas.onCurve_neg x y hy0 hy]; exact hc
  have hvkn := KeyLemmas.verifyingKey_ok x (p - y) hx (by omega) hcn
  have hx3 : ¬ ((2 : Nat) ^ 256 ≤ x) := hx2
  simp only [Nat.reducePow] at hx3
  have hppr : p - (p - r) = r := by omega
  have hpar : (r % 2 = 0 ∧ (p - r) % 2 = 1) ∨ (r % 2 = 1 ∧ (p - r) % 2 = 0) := by omega
  refine ⟨?_, ?_, ?_⟩
  · unfold pubFromBytes pubToBytes
    by_cases hlt : r < p - r <;> rcases hpar with ⟨hp1, hp2⟩ | ⟨hp1, hp2⟩ <;> rcases hyr with rfl | rfl <;>
      simp [hp1, hp2, hlt, Py.ofBE_beBytes 32 x hx', hs, hx3, hvk]
  · unfold pubFromBytes pubToBytes
    simp [hvk]
  · unfold pubFromBytes pubXOnly
    by_cases hlt : r < p - r <;> rcases hpar with ⟨hp1, hp2⟩ | ⟨hp1, hp2⟩ <;> rcases hyr with rfl | rfl <;>
      (try rw [hppr] at hvkn) <;>
      simp [hp1, hp2, hlt, Py.ofBE_beBytes 32 x hx', hs, hx3, hvk, hvkn, hppr]

/-- encodings of x values that are not on the curve are rejected -/
theorem offcurve_rejected (x : Nat) (hx : x < 2 ^ 256) (h : sqrtAll ((x ^ 3 + 7) % p) = []) (pre : UInt8) :
    (∃ e, pubFromBytes (pre :: beBytes 32 x) = .error e) ∧ (∃ e, pubFromBytes (beBytes 32 x) = .error e) := by
  have hx' : x < 256 ^ 32 := by rw [KeyLemmas.pow256_32]; exact hx
  constructor
  · refine ⟨.indexError, ?_⟩
    unfold pubFromBytes
    simp [Py.ofBE_beBytes 32 x hx', h]
  · refine ⟨.indexError, ?_⟩
    unfold pubFromBytes
    simp [Py.ofBE_beBytes 32 x hx', h]

/-! ### without hypotheses: `CurveLaws` is proved (`BU/Proofs/CurveLawsFinal.lean`) -/

theorem sec_roundtrip_unconditional (d : Nat) (hd : 1 ≤ d ∧ d < n) (x y : Nat) (hP : mul G d = some (x, y)) :
    pubFromBytes (pubToBytes (x, y) true) = .ok (x, y) ∧
    pubFromBytes (pubToBytes (x, y) false) = .ok (x, y) ∧
    pubFromBytes (pubXOnly (x, y)) = .ok (x, if y % 2 = 0 then y else p - y) :=
  sec_roundtrip CurveLawsFinal.curveLaws d hd x y hP

end C09
