import BU.Model.Keys
namespace C09
end C09
