import BU.Py
import BU.Gen.Tables
import BU.Spec.Base58
import BU.Spec.CurveLaws
import BU.Model.Keys
import BU.Proofs.Base58Lemmas
/-!
# C09 — private/public key encodings (WIF, SEC, x-only) round-trip and match the curve

M: `Model.fromWif`, `toWif`, `privInit`, `pubOfPriv`, `pubFromBytes`, `pubToBytes`, `pubXOnly`.
Third-party code enters as what it is specified to compute (Base58 = `Spec.B58`, key constructors =
range / on-curve checks, `d·G` = `Secp.mul G d`, sympy `sqrt_mod` = all square roots).
-/
namespace C09
open Py Spec Model Secp

/-- **T-tie**: every network has a one-byte WIF version prefix (0x80 mainnet, 0xef otherwise) -/
theorem wif_prefixes : ∀ e ∈ Gen.NETWORK_WIF_PREFIXES, e.2.length = 1 ∧
    (e.1 = "mainnet" → e.2 = [0x80]) ∧ (e.1 ≠ "mainnet" → e.2 = [0xef]) := by
  sorry

/-- WIF export then import is the identity, compressed and uncompressed, for every secret in [1, n−1] and every
one-byte network prefix -/
theorem wif_roundtrip (dsha : Bytes → Bytes) (hd : ∀ x, (dsha x).length = 32) (pfx : Bytes) (hp : pfx.length = 1)
    (d : Nat) (h1 : 1 ≤ d) (h2 : d < n) (c : Bool) :
    fromWif dsha pfx (toWif dsha pfx d c) = .ok d := by
  sorry

/-- exported WIF is Base58Check(version ‖ 32-byte key ‖ [01 if compressed]) -/
theorem wif_standard_form (dsha : Bytes → Bytes) (pfx : Bytes) (d : Nat) (c : Bool) :
    toWif dsha pfx d c = B58.check dsha (pfx ++ beBytes 32 d ++ (if c then [0x01] else [])) := by
  sorry

/-- imports with a wrong checksum, another network's version byte, or characters outside the alphabet are rejected -/
theorem wif_rejects (dsha : Bytes → Bytes) (pfx : Bytes) (w : String)
    (h : B58.decode w = none ∨
         (∃ data, B58.decode w = some data ∧
            (last4 data ≠ (dsha (dropLast4 data)).take 4 ∨ (dropLast4 data).take 1 ≠ pfx))) :
    ∃ e, fromWif dsha pfx w = .error e := by
  sorry

/-- building a key from an explicit secret either holds exactly that secret or fails; only the call without
arguments generates a random key -/
theorem explicit_secret (dsha : Bytes → Bytes) (pfx : Bytes) (w : Option String) (e : Option Int) (b : Option Bytes) :
    (privInit dsha pfx w e b = .ok none ↔ (w = none ∧ e = none ∧ b = none)) ∧
    (∀ k b', privInit dsha pfx none e (some b') = .ok (some k) → b' = beBytes 32 k ∧ 1 ≤ k ∧ k < n) ∧
    (∀ k ev, privInit dsha pfx none (some ev) none = .ok (some k) → (k : Int) = ev ∧ 1 ≤ k ∧ k < n) := by
  sorry

/-- the public key of `d` is `d·G` -/
theorem pub_is_dG (d : Nat) (P : Nat × Nat) : pubOfPriv d = .ok P ↔ mul G d = some P := by
  sorry

/-- standard forms: 02/03 ‖ x by parity of y, 04 ‖ x ‖ y, 32-byte x -/
theorem sec_standard_form (P : Nat × Nat) :
    pubToBytes P true = (if P.2 % 2 = 0 then 0x02 else 0x03) :: beBytes 32 P.1 ∧
    pubToBytes P false = 0x04 :: (beBytes 32 P.1 ++ beBytes 32 P.2) ∧ pubXOnly P = beBytes 32 P.1 := by
  sorry

/-- parsing any of the three encodings of `d·G` returns the identical curve point (for x-only: its even-y
representative), for both parities and for x coordinates with leading zero bytes -/
theorem sec_roundtrip (laws : CurveLaws) (d : Nat) (hd : 1 ≤ d ∧ d < n) (x y : Nat) (hP : mul G d = some (x, y)) :
    pubFromBytes (pubToBytes (x, y) true) = .ok (x, y) ∧
    pubFromBytes (pubToBytes (x, y) false) = .ok (x, y) ∧
    pubFromBytes (pubXOnly (x, y)) = .ok (x, if y % 2 = 0 then y else p - y) := by
  sorry

/-- encodings of x values that are not on the curve are rejected -/
theorem offcurve_rejected (x : Nat) (hx : x < 2 ^ 256) (h : sqrtAll ((x ^ 3 + 7) % p) = []) (pre : UInt8) :
    (∃ e, pubFromBytes (pre :: beBytes 32 x) = .error e) ∧ (∃ e, pubFromBytes (beBytes 32 x) = .error e) := by
  sorry

end C09
