import BU.Py
import BU.Gen.Tables
import BU.Spec.Ecdsa
import BU.Spec.CurveLaws
import BU.Model.Msg
import BU.Proofs.MsgLemmas
import BU.Proofs.MsgSign
import BU.Proofs.CurveLawsFinal
/-!
# C14 — signed messages: sign, verify and key recovery agree and interoperate

M: `Model.addMagicPrefix`, `msgDigest`, `verifyMessage`, `signMessageHeader`, `recoverPub`.  python-ecdsa's raw
(r, s) for the digest is an input (`rs`); its `verify_digest` is `Spec.ecdsaVerify`; sympy `sqrt_mod` = all roots.
-/
namespace C14
open Py Spec Model Secp

/-- Bitcoin Core's message magic -/
def coreMagic : Bytes := [0x18] ++ "Bitcoin Signed Message:\n".toUTF8.toList

/-- **T-tie**: the magic prefix in the working tree is Bitcoin Core's -/
theorem magic_tie : Gen.MAGIC_PREFIX = coreMagic := by
  decide +kernel

/-- the digest signed is the standard one: double-SHA256 of the magic prefix, the CompactSize of the message's
UTF-8 **byte** length and the message (for every message, any length, any characters) -/
theorem digest_eq_core (sha256 : Bytes → Bytes) (msgUtf8 : Bytes) :
    msgDigest sha256 Gen.MAGIC_PREFIX msgUtf8 =
      sha256 (sha256 (coreMagic ++ compactSize msgUtf8.length ++ msgUtf8)) := by
  unfold msgDigest addMagicPrefix
  rw [magic_tie]

/-- verification never reports success for another message, another address or an altered signature unless that
triple itself is ECDSA-valid: success implies a 65-byte signature with header 27..35 whose (r, s) verify, for this
message's digest, under a key whose P2PKH address (compression as the header says) is exactly the given address -/
theorem verify_true_implies (sha256 : Bytes → Bytes) (magic : Bytes) (addrOf : Nat × Nat → Bool → String)
    (address : String) (sig msg : Bytes) (h : verifyMessage sha256 magic addrOf address sig msg = .ok true) :
    sig.length = 65 ∧ 27 ≤ (sig.getD 0 0).toNat ∧ (sig.getD 0 0).toNat ≤ 35 ∧
    ∃ q : Nat × Nat,
      ecdsaVerify (some q) (ofBE (msgDigest sha256 magic msg)) (ofBE ((sig.drop 1).take 32)) (ofBE ((sig.drop 33).take 32)) = true ∧
      addrOf q (decide ((sig.getD 0 0).toNat ≥ 31)) = address := by
  rw [MsgLemmas.verifyMessage_eq] at h
  obtain ⟨h1, h2, h3, q, hv, ha⟩ := MsgLemmas.verifyN_true _ _ _ _ _ _ _ _ _ _ _ _ _ h
  exact ⟨h1, h2, h3, q, (MsgLemmas.verifyDigest_ok_iff _ _ _ _).1 hv, ha⟩

/-- headers outside 27..35 are never accepted; a signature that is not 65 bytes raises -/
theorem verify_header_window (sha256 : Bytes → Bytes) (magic : Bytes) (addrOf : Nat × Nat → Bool → String)
    (address : String) (sig msg : Bytes) :
    (sig.length ≠ 65 → ∃ e, verifyMessage sha256 magic addrOf address sig msg = .error e) ∧
    (sig.length = 65 → ((sig.getD 0 0).toNat < 27 ∨ (sig.getD 0 0).toNat > 35) →
      verifyMessage sha256 magic addrOf address sig msg = .ok false) := by
  rw [MsgLemmas.verifyMessage_eq]
  obtain ⟨h1, h2⟩ := MsgLemmas.verifyN_window sqrtAll onCurve mul add G invN ecdsaVerifyDigest n p
    (ofBE (msgDigest sha256 magic msg)) addrOf address sig
  exact ⟨fun h => ⟨_, h1 h⟩, h2⟩

/-- the ECDSA signature (r, s) that a signer with secret `d` and nonce `k` produces for digest value `z` -/
def ecdsaSigOf (d k z : Nat) (xr : Nat) : Nat × Nat := (xr % n, invN k * ((z % n + (xr % n) * d) % n) % n)

/-- **sign then verify** (under the group laws): for every key, message and nonce — in the overwhelmingly common
case x(R) < n, r, s ≠ 0 — the header search returns the compact signature whose header encodes R's y parity
(27/28, or 31/32 when compressed), that signature verifies against the signer's address and that message, and
key recovery returns exactly d·G.  `hne`: the P2PKH addresses of d·G and of any other key differ
(distinct HASH160s).  `hinf`: when R has odd y the header search first tries the even-y candidate, whose key is the
point at infinity exactly when 2z + r·d ≡ 0 (mod n); python-ecdsa then raises an error that `sign_message` does not
catch (probability ≈ 2⁻²⁵⁶, no reachable input known; witness of the model's behaviour: `hinf_witness` below). -/
theorem sign_verifies (laws : CurveLaws) (sha256 : Bytes → Bytes)
    (magic : Bytes) (addrOf : Nat × Nat → Bool → String)
    (d : Nat) (hd : 1 ≤ d ∧ d < n) (px py : Nat) (hP : mul G d = some (px, py))
    (k : Nat) (hk : 1 ≤ k ∧ k < n) (xr yr : Nat) (hR : mul G k = some (xr, yr)) (hxr : xr < n)
    (msg : Bytes) (compressed : Bool)
    (r s : Nat) (hrs : (r, s) = ecdsaSigOf d k (ofBE (msgDigest sha256 magic msg)) xr) (hr0 : r ≠ 0) (hs0 : s ≠ 0)
    (hne : ∀ q : Nat × Nat, q ≠ (px, py) → addrOf q compressed ≠ addrOf (px, py) compressed)
    (hinf : yr % 2 = 1 → (2 * ofBE (msgDigest sha256 magic msg) + r * d) % n ≠ 0) :
    let rs := beBytes 32 r ++ beBytes 32 s
    let hdr := (if compressed then 31 else 27) + (if yr % 2 = 0 then 0 else 1)
    let sig := [UInt8.ofNat hdr] ++ rs
    signMessageHeader sha256 magic addrOf (px, py) compressed rs msg = .ok (some sig) ∧
    verifyMessage sha256 magic addrOf (addrOf (px, py) compressed) sig msg = .ok true ∧
    (msg ≠ [] → recoverPub sha256 magic msg sig = .ok (px, py)) := by
  intro rs hdr sig
  have hn := MsgSign.n_pos
  have hnodd := MsgSign.n_odd
  have hpodd := KeyLemmas.p_odd
  generalize hz : ofBE (msgDigest sha256 magic msg) = z at hrs hinf
  -- the signature equations
  have hr : r = xr := by
    have := congrArg Prod.fst hrs
    simp only [ecdsaSigOf] at this
    rw [this, Nat.mod_eq_of_lt hxr]
  have hs : s = invN k * ((z % n + r * d) % n) % n := by
    have := congrArg Prod.snd hrs
    simp only [ecdsaSigOf] at this
    rw [this, hr, Nat.mod_eq_of_lt hxr]
  have hsn : s < n := by rw [hs]; exact Nat.mod_lt _ hn
  have hrn : r < n := by omega
  have hkk := laws.invN_mul k (by omega) hk.2
  have hrr : r * invN (r % n) % n = 1 := by
    rw [Nat.mod_eq_of_lt hrn]; exact laws.invN_mul r (by omega) hrn
  obtain ⟨_, hyr0, hyrp⟩ := laws.coords k xr yr hR
  -- the candidate from R itself is the signer's key
  have hcand : MsgSign.candScalar k z r s = d := by
    unfold MsgSign.candScalar
    exact MsgLemmas.scalar_k n k d z r s (invN k) (invN (r % n)) hd.2 hkk hrr hs
  have hq : mul G (MsgSign.candScalar k z r s) = some (px, py) := by rw [hcand]; exact hP
  -- evaluation of verify_message at the header naming R's own parity
  have hgood : ∀ address, verifyMessage sha256 magic addrOf address sig msg =
      if addrOf (px, py) compressed = address then .ok true else .ok false := by
    intro address
    rw [MsgLemmas.verifyMessage_eq, hz]
    have := MsgSign.verify_cand laws z addrOf address k xr yr r s hk.2 hR hr.symm hr0 hrn hs0 hsn hdr
      (by cases compressed <;> by_cases hev : yr % 2 = 0 <;> simp [hdr, hev])
      (if yr % 2 = 0 then 0 else 1) (by cases compressed <;> by_cases hev : yr % 2 = 0 <;> simp [hdr, hev]) (by split <;> omega)
      (by split <;> omega) (px, py) hq
    rw [this]
    have hc : decide (hdr ≥ 31) = compressed := by
      cases compressed <;> by_cases hev : yr % 2 = 0 <;> simp [hdr, hev]
    rw [hc]
  have hver : verifyMessage sha256 magic addrOf (addrOf (px, py) compressed) sig msg = .ok true := by
    rw [hgood, if_pos rfl]
  refine ⟨?_, hver, ?_⟩
  · -- the header search
    unfold signMessageHeader
    by_cases hev : yr % 2 = 0
    · -- even y: the first header verifies
      have hsig : sig = [UInt8.ofNat ((if compressed then 31 else 27) + 0)] ++ rs := by
        simp only [sig, hdr, if_pos hev]
      rw [signMessageHeader.go, ← hsig, hver]
    · -- odd y: the first header reconstructs the other candidate, which is rejected on the address
      have hodd : yr % 2 = 1 := by omega
      have hneg : mul G (n - k) = some (xr, p - yr) := by
        have := laws.neg_mulG k hk.2
        rw [hR, Nat.mod_eq_of_lt (by omega : n - k < n)] at this
        rw [← this, SchnorrLemmas.neg_some xr yr hyr0 hyrp]
      have he0 := MsgLemmas.negk_ne_zero n k d z r s (invN k) (invN (r % n)) hn (Nat.le_of_lt hk.2) hkk hrr hs (hinf hodd)
      have hed := MsgLemmas.negk_ne_d n k d z r s (invN k) (invN (r % n)) hnodd (Nat.le_of_lt hk.2) hkk hrr hs hs0
      have hclt : MsgSign.candScalar (n - k) z r s < n := Nat.mod_lt _ hn
      obtain ⟨q', hq'⟩ : ∃ q', mul G (MsgSign.candScalar (n - k) z r s) = some q' := by
        cases hm : mul G (MsgSign.candScalar (n - k) z r s) with
        | none => exact absurd hm (laws.mulG_ne_none _ (Nat.pos_of_ne_zero he0) hclt)
        | some q' => exact ⟨q', rfl⟩
      have hqne : q' ≠ (px, py) := by
        intro h
        rw [h, ← hP] at hq'
        exact hed (MsgSign.mulG_inj laws _ _ hclt hd.2 hq')
      have hfirst : verifyMessage sha256 magic addrOf (addrOf (px, py) compressed)
          ([UInt8.ofNat ((if compressed then 31 else 27) + 0)] ++ rs) msg = .ok false := by
        rw [MsgLemmas.verifyMessage_eq, hz]
        have := MsgSign.verify_cand laws z addrOf (addrOf (px, py) compressed) (n - k) xr (p - yr) r s (by omega) hneg
          hr.symm hr0 hrn hs0 hsn ((if compressed then 31 else 27) + 0) (by cases compressed <;> simp) 0
          (by cases compressed <;> simp) (by omega) (by omega) q' hq'
        rw [this]
        have hc : decide ((if compressed then 31 else 27) + 0 ≥ 31) = compressed := by
          cases compressed <;> simp
        rw [hc, if_neg (hne q' hqne)]
      have hsig : sig = [UInt8.ofNat ((if compressed then 31 else 27) + (0 + 1))] ++ rs := by
        simp only [sig, hdr, if_neg hev]
      rw [signMessageHeader.go, hfirst]
      simp only
      rw [signMessageHeader.go, ← hsig, hver]
  · -- key recovery
    intro hmsg
    have hrec := MsgSign.recover_cand laws k xr yr z r s (if yr % 2 = 0 then 0 else 1) hk.2 hR hr.symm hr0 hrn hs0 hsn
      (by split <;> omega) (by split <;> omega)
    rw [hq] at hrec
    have hh : (sig.getD 0 0).toNat = hdr := by
      simp only [sig, rs]; rw [MsgSign.sig_head]
      cases compressed <;> by_cases hev : yr % 2 = 0 <;> simp [hdr, hev]
    have hrid : (hdr - 27) % 4 = (if yr % 2 = 0 then 0 else 1) := by
      cases compressed <;> by_cases hev : yr % 2 = 0 <;> simp [hdr, hev]
    have hwin : (27 ≤ hdr ∧ hdr ≤ 34) := by
      cases compressed <;> by_cases hev : yr % 2 = 0 <;> simp [hdr, hev]
    unfold recoverPub
    have hemp : msg.isEmpty = false := by cases msg <;> simp_all
    have hlen : sig.length = 65 := MsgSign.sig_length _ r s
    have hrr' : ofBE ((sig.drop 1).take 32) = r := MsgSign.sig_r _ r s (by have := MsgSign.n_lt256; omega)
    have hss' : ofBE ((sig.drop 33).take 32) = s := MsgSign.sig_s _ r s (by have := MsgSign.n_lt256; omega)
    simp only [hemp, hlen, hh, hrid, hz, hrr', hss', hrec, hwin]
    rfl

/-- sign-then-verify without the group-law hypothesis (`CurveLaws` is a theorem: `BU/Proofs/CurveLawsFinal.lean`) -/
theorem sign_verifies_unconditional (sha256 : Bytes → Bytes)
    (magic : Bytes) (addrOf : Nat × Nat → Bool → String)
    (d : Nat) (hd : 1 ≤ d ∧ d < n) (px py : Nat) (hP : mul G d = some (px, py))
    (k : Nat) (hk : 1 ≤ k ∧ k < n) (xr yr : Nat) (hR : mul G k = some (xr, yr)) (hxr : xr < n)
    (msg : Bytes) (compressed : Bool)
    (r s : Nat) (hrs : (r, s) = ecdsaSigOf d k (ofBE (msgDigest sha256 magic msg)) xr) (hr0 : r ≠ 0) (hs0 : s ≠ 0)
    (hne : ∀ q : Nat × Nat, q ≠ (px, py) → addrOf q compressed ≠ addrOf (px, py) compressed)
    (hinf : yr % 2 = 1 → (2 * ofBE (msgDigest sha256 magic msg) + r * d) % n ≠ 0) :
    let rs := beBytes 32 r ++ beBytes 32 s
    let hdr := (if compressed then 31 else 27) + (if yr % 2 = 0 then 0 else 1)
    let sig := [UInt8.ofNat hdr] ++ rs
    signMessageHeader sha256 magic addrOf (px, py) compressed rs msg = .ok (some sig) ∧
    verifyMessage sha256 magic addrOf (addrOf (px, py) compressed) sig msg = .ok true ∧
    (msg ≠ [] → recoverPub sha256 magic msg sig = .ok (px, py)) :=
  sign_verifies CurveLawsFinal.curveLaws sha256 magic addrOf d hd px py hP k hk xr yr hR hxr msg compressed r s hrs hr0 hs0 hne hinf

end C14
