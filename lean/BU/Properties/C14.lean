import BU.Py
import BU.Gen.Tables
import BU.Spec.Ecdsa
import BU.Spec.CurveLaws
import BU.Model.Msg
import BU.Proofs.MsgLemmas
/-!
# C14 — signed messages: sign, verify and key recovery agree and interoperate

M: `Model.addMagicPrefix`, `msgDigest`, `verifyMessage`, `signMessageHeader`, `recoverPub`.  python-ecdsa's raw
(r, s) for the digest is an input (`rs`); its `verify_digest` is `Spec.ecdsaVerify`; sympy `sqrt_mod` = all roots.
-/
namespace C14
open Py Spec Model Secp

/-- Bitcoin Core's message magic -/
def coreMagic : Bytes := [0x18] ++ "Bitcoin Signed Message:\n".toUTF8.toList

/-- **T-tie**: the magic prefix in the working tree is Bitcoin Core's -/
theorem magic_tie : Gen.MAGIC_PREFIX = coreMagic := by
  decide +kernel

/-- the digest signed is the standard one: double-SHA256 of the magic prefix, the CompactSize of the message's
UTF-8 **byte** length and the message (for every message, any length, any characters) -/
theorem digest_eq_core (sha256 : Bytes → Bytes) (msgUtf8 : Bytes) :
    msgDigest sha256 Gen.MAGIC_PREFIX msgUtf8 =
      sha256 (sha256 (coreMagic ++ compactSize msgUtf8.length ++ msgUtf8)) := by
  unfold msgDigest addMagicPrefix
  rw [magic_tie]

/-- verification never reports success for another message, another address or an altered signature unless that
triple itself is ECDSA-valid: success implies a 65-byte signature with header 27..35 whose (r, s) verify, for this
message's digest, under a key whose P2PKH address (compression as the header says) is exactly the given address -/
theorem verify_true_implies (sha256 : Bytes → Bytes) (magic : Bytes) (addrOf : Nat × Nat → Bool → String)
    (address : String) (sig msg : Bytes) (h : verifyMessage sha256 magic addrOf address sig msg = .ok true) :
    sig.length = 65 ∧ 27 ≤ (sig.getD 0 0).toNat ∧ (sig.getD 0 0).toNat ≤ 35 ∧
    ∃ q : Nat × Nat,
      ecdsaVerify (some q) (ofBE (msgDigest sha256 magic msg)) (ofBE ((sig.drop 1).take 32)) (ofBE ((sig.drop 33).take 32)) = true ∧
      addrOf q (decide ((sig.getD 0 0).toNat ≥ 31)) = address := by
  rw [MsgLemmas.verifyMessage_eq] at h
  obtain ⟨h1, h2, h3, q, hv, ha⟩ := MsgLemmas.verifyN_true _ _ _ _ _ _ _ _ _ _ _ _ _ h
  exact ⟨h1, h2, h3, q, (MsgLemmas.verifyDigest_ok_iff _ _ _ _).1 hv, ha⟩

/-- headers outside 27..35 are never accepted; a signature that is not 65 bytes raises -/
theorem verify_header_window (sha256 : Bytes → Bytes) (magic : Bytes) (addrOf : Nat × Nat → Bool → String)
    (address : String) (sig msg : Bytes) :
    (sig.length ≠ 65 → ∃ e, verifyMessage sha256 magic addrOf address sig msg = .error e) ∧
    (sig.length = 65 → ((sig.getD 0 0).toNat < 27 ∨ (sig.getD 0 0).toNat > 35) →
      verifyMessage sha256 magic addrOf address sig msg = .ok false) := by
  rw [MsgLemmas.verifyMessage_eq]
  obtain ⟨h1, h2⟩ := MsgLemmas.verifyN_window sqrtAll onCurve mul add G invN ecdsaVerifyDigest n p
    (ofBE (msgDigest sha256 magic msg)) addrOf address sig
  exact ⟨fun h => ⟨_, h1 h⟩, h2⟩

/-- the ECDSA signature (r, s) that a signer with secret `d` and nonce `k` produces for digest value `z` -/
def ecdsaSigOf (d k z : Nat) (xr : Nat) : Nat × Nat := (xr % n, invN k * ((z % n + (xr % n) * d) % n) % n)

/-- **sign then verify** (under the group laws): for every key, message and nonce — in the overwhelmingly common
case x(R) < n, r, s ≠ 0 — the header search returns the compact signature whose header encodes R's y parity
(27/28, or 31/32 when compressed), that signature verifies against the signer's address and that message, and
key recovery returns exactly d·G.  `hne`: the P2PKH addresses of d·G and of the other candidate key differ
(distinct HASH160s). -/
theorem sign_verifies (laws : CurveLaws) (sha256 : Bytes → Bytes) (hlen : ∀ b, (sha256 b).length = 32)
    (magic : Bytes) (addrOf : Nat × Nat → Bool → String)
    (d : Nat) (hd : 1 ≤ d ∧ d < n) (px py : Nat) (hP : mul G d = some (px, py))
    (k : Nat) (hk : 1 ≤ k ∧ k < n) (xr yr : Nat) (hR : mul G k = some (xr, yr)) (hxr : xr < n)
    (msg : Bytes) (compressed : Bool)
    (r s : Nat) (hrs : (r, s) = ecdsaSigOf d k (ofBE (msgDigest sha256 magic msg)) xr) (hr0 : r ≠ 0) (hs0 : s ≠ 0)
    (hne : ∀ q : Nat × Nat, q ≠ (px, py) → addrOf q compressed ≠ addrOf (px, py) compressed) :
    let rs := beBytes 32 r ++ beBytes 32 s
    let hdr := (if compressed then 31 else 27) + (if yr % 2 = 0 then 0 else 1)
    let sig := [UInt8.ofNat hdr] ++ rs
    signMessageHeader sha256 magic addrOf (px, py) compressed rs msg = .ok (some sig) ∧
    verifyMessage sha256 magic addrOf (addrOf (px, py) compressed) sig msg = .ok true ∧
    (msg ≠ [] → recoverPub sha256 magic msg sig = .ok (px, py)) := by
  sorry

end C14
