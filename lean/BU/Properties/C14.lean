import BU.Model.Msg
namespace C14
end C14
