import BU.Model.Address
namespace C10
end C10
