import BU.Py
import BU.Gen.Tables
import BU.Spec.Base58
import BU.Model.Address
import BU.Model.Keys
import BU.Proofs.Base58Lemmas
import BU.Proofs.AddressLemmas
/-!
# C10 — Base58Check addresses (P2PKH, P2SH) round-trip and are validated, per network

M: `Model.addrToString`, `isAddressValid`, `addressToHash160`, `addrFromString`, `addrFromHash160`
(`Address.__init__`, `_is_address_valid`, `_address_to_hash160`, `to_string`); `base58check` = `Spec.B58`.
-/
namespace C10
open Py Spec Model

/-- **T-tie**: every network has one-byte P2PKH / P2SH version prefixes with the standard values -/
theorem prefixes :
    (∀ e ∈ Gen.NETWORK_P2PKH_PREFIXES, e.2.length = 1 ∧ (e.1 = "mainnet" → e.2 = [0x00]) ∧ (e.1 ≠ "mainnet" → e.2 = [0x6f])) ∧
    (∀ e ∈ Gen.NETWORK_P2SH_PREFIXES, e.2.length = 1 ∧ (e.1 = "mainnet" → e.2 = [0x05]) ∧ (e.1 ≠ "mainnet" → e.2 = [0xc4])) ∧
    Gen.NETWORK_P2PKH_PREFIXES.map (·.1) = ["mainnet", "signet", "testnet", "regtest"] ∧
    Gen.NETWORK_P2SH_PREFIXES.map (·.1) = ["mainnet", "signet", "testnet", "regtest"] := by
  refine ⟨?_, ?_, ?_, ?_⟩
  · decide +kernel
  · decide +kernel
  · decide +kernel
  · decide +kernel

/-- address strings equal Base58Check(version byte ‖ hash) -/
theorem to_string_eq (dsha : Bytes → Bytes) (pfx h : Bytes) : addrToString dsha pfx h = B58.check dsha (pfx ++ h) := by
  rfl

/-- an address object accepts a string **only if** it is Base58Check with a valid checksum, the version byte of
that address type on the configured network and a 20-byte payload — and then holds exactly that payload -/
theorem accept_sound (dsha : Bytes → Bytes) (pfx : Bytes) (hp : pfx.length = 1) (s : String) (h : Bytes)
    (ha : addrFromString dsha pfx s = .ok h) :
    h.length = 20 ∧ B58.uncheck dsha s = some (pfx ++ h) := by
  unfold addrFromString at ha
  by_cases he : s.isEmpty = true
  · simp [he, bind, Except.bind, throw, throwThe, MonadExceptOf.throw] at ha
  · cases hv : isAddressValid dsha pfx s with
    | error e => simp [he, hv, bind, Except.bind] at ha
    | ok ok =>
      cases ok with
      | false => simp [he, hv, bind, Except.bind, throw, throwThe, MonadExceptOf.throw] at ha
      | true =>
        obtain ⟨dc, hdc, hlen, hpfx, hcs⟩ := AddressLemmas.isAddressValid_true hv
        simp [he, hv, bind, Except.bind, addressToHash160, hdc, hlen] at ha
        subst ha
        simp only [← List.drop_one]
        have h1 : ((dc.take 21).drop 1).length = 20 := by
          simp [hlen]
        have h2 : pfx ++ (dc.take 21).drop 1 = dc.take 21 := by
          have : (dc.take 21).take 1 = pfx := by
            rw [List.take_take]; simpa using hpfx
          rw [← this]
          exact List.take_append_drop 1 _
        refine ⟨h1, ?_⟩
        unfold B58.uncheck
        simp only [hdc, hlen, h2]
        simp [hcs]

/-- decoding an address returns the hash that produced it (for every 20-byte hash incl. leading zero bytes; the
26..35 character window of the code is a hypothesis: it holds for all but the degenerate all-zero mainnet
payload, which the correspondence run evaluates) -/
theorem roundtrip (dsha : Bytes → Bytes) (hd : ∀ x, (dsha x).length = 32) (pfx : Bytes) (hp : pfx.length = 1)
    (h : Bytes) (hh : h.length = 20)
    (hw : 26 ≤ (addrToString dsha pfx h).toList.length ∧ (addrToString dsha pfx h).toList.length ≤ 35) :
    addrFromString dsha pfx (addrToString dsha pfx h) = .ok h := by
  have hpay : (pfx ++ h ++ (dsha (pfx ++ h)).take 4).length = 25 := by
    simp [List.length_append, List.length_take, hd, hp, hh]
  have hstr : addrToString dsha pfx h = B58.encode (pfx ++ h ++ (dsha (pfx ++ h)).take 4) := rfl
  have hdc := Base58Lemmas.decode_encode (pfx ++ h ++ (dsha (pfx ++ h)).take 4)
  rw [← hstr] at hdc
  have hph : (pfx ++ h).length = 21 := by simp [hp, hh]
  have ht21 : (pfx ++ h ++ (dsha (pfx ++ h)).take 4).take 21 = pfx ++ h := by
    rw [List.take_left' hph]
  have hd21 : (pfx ++ h ++ (dsha (pfx ++ h)).take 4).drop 21 = (dsha (pfx ++ h)).take 4 := by
    rw [List.drop_left' hph]
  have ht1 : (pfx ++ h ++ (dsha (pfx ++ h)).take 4).take 1 = pfx := by
    rw [List.append_assoc, List.take_left' hp]
  have hv : isAddressValid dsha pfx (addrToString dsha pfx h) = .ok true := by
    apply AddressLemmas.isAddressValid_of (dc := pfx ++ h ++ (dsha (pfx ++ h)).take 4)
    · rw [hstr]; exact AddressLemmas.encode_all_alphabet _
    · exact hw
    · exact hdc
    · exact hpay
    · exact ht1
    · rw [ht21, hd21]
  have hne : (addrToString dsha pfx h).isEmpty = false := by
    cases hE : (addrToString dsha pfx h).isEmpty with
    | false => rfl
    | true =>
      have : (addrToString dsha pfx h).toList = [] := by
        simpa [String.isEmpty_iff] using hE
      rw [this] at hw
      simp at hw
  unfold addrFromString
  simp only [hne, hv, bind, Except.bind, addressToHash160, hdc, hpay, Nat.reduceSub, ht21,
    List.drop_left' hp]
  rfl

/-- hash160 construction accepts exactly 20 bytes -/
theorem from_hash160 (h : Bytes) : (addrFromHash160 h = .ok h ↔ h.length = 20) := by
  unfold addrFromHash160
  constructor
  · intro h1
    split at h1
    · simp at h1
    · split at h1
      · simp at h1
      · rename_i h2; simpa using h2
  · intro h1
    have : h.isEmpty = false := by
      cases h with
      | nil => simp at h1
      | cons a t => rfl
    simp [this, h1]

/-- addresses derived from a public key commit to the HASH160 of the chosen SEC encoding -/
theorem pubkey_address (sha256 : Bytes → Bytes) (tb : Rmd.Tabs) (pfx : Bytes) (P : Nat × Nat) (c : Bool) :
    addrToString (fun b => sha256 (sha256 b)) pfx (pubHash160 sha256 tb P c) =
      B58.check (fun b => sha256 (sha256 b)) (pfx ++ Rmd.ripemd160 tb (sha256 (pubToBytes P c))) := by
  rfl

end C10
