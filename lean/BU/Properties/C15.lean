import BU.Py
import BU.Spec.Block
import BU.Model.Block
import BU.Properties.C01
/-!
# C15 — block and header parsing is faithful to the raw block

M: `Model.Header.*`, `Model.txLength` (`get_transaction_length`), `Model.Block.parse`, tied to the code by the
correspondence run (synthetic blocks and the three mainnet fixtures in full).
-/
namespace C15
open Py Spec Model

/-- parsing an 80-byte header and re-serialising it gives the same bytes -/
theorem header_roundtrip (b : Bytes) (h : b.length = 80) :
    ∃ hd, Header.parse b = .ok hd ∧ hd.serialize = .ok b := by
  sorry

/-- the fields are the little-endian protocol fields, hashes in display (reversed) order -/
theorem header_fields (v t bits n : Nat) (prev merkle : Bytes)
    (hv : v < 2 ^ 32) (ht : t < 2 ^ 32) (hb : bits < 2 ^ 32) (hn : n < 2 ^ 32)
    (hp : prev.length = 32) (hm : merkle.length = 32) :
    Header.parse (leBytes 4 v ++ prev ++ merkle ++ leBytes 4 t ++ leBytes 4 bits ++ leBytes 4 n) =
      .ok { version := v, prev := prev.reverse, merkle := merkle.reverse, time := t, bits := bits, nonce := n } := by
  sorry

/-- anything that is not 80 bytes is refused -/
theorem header_rejects (b : Bytes) (h : b.length ≠ 80) : ∃ e, Header.parse b = .error e := by
  sorry

/-- the block hash is the byte-reversed double-SHA256 of the 80 header bytes -/
theorem block_hash (sha256 : Bytes → Bytes) (b : Bytes) (h : b.length = 80) :
    ∃ hd, Header.parse b = .ok hd ∧ hd.hash sha256 = .ok (sha256 (sha256 b)).reverse := by
  sorry

/-- the expanded target follows the compact-bits definition (exponent 3..32 and beyond) -/
theorem target_eq (hd : Header) (h : 3 ≤ hd.bits / 2 ^ 24) : hd.target = .ok (compactTarget hd.bits) := by
  sorry

/-- the independent length scanner used for slicing agrees with the serialiser: on the encoding of a
well-formed transaction followed by anything it returns exactly the encoding's length -/
theorem scanner_agrees (T : Tables) (hT : C02.TablesOK T = true) (t : Tx) (h : C01.WFTx T t = true)
    (bs rest : Bytes) (hb : t.toBytes T t.hasSegwit = .ok bs) :
    txLength (bs ++ rest) = .ok bs.length := by
  sorry

/-- parsing a framed block returns every transaction, each identical to parsing its own byte slice -/
theorem block_parse (T : Tables) (hT : C02.TablesOK T = true) (magic header : Bytes) (size : Nat) (txs : List Tx)
    (hm : magic.length = 4) (hh : header.length = 80) (hs : size < 2 ^ 32) (hn : txs.length < 2 ^ 32)
    (hw : ∀ t ∈ txs, C01.WFTx T t = true)
    (encs : List Bytes) (he : txs.mapM (fun t => t.toBytes T t.hasSegwit) = .ok encs) :
    ∃ hd parsed, Header.parse header = .ok hd ∧ encs.mapM (Tx.parse T) = .ok parsed ∧
      Block.parse T (frameBlock magic size header encs) =
        .ok { magic := magic, size := size, header := hd, count := txs.length, txs := parsed } := by
  sorry

end C15
