import BU.Py
import BU.Spec.Block
import BU.Model.Block
import BU.Properties.C01
import BU.Proofs.BlockLemmas
/-!
# C15 — block and header parsing is faithful to the raw block

M: `Model.Header.*`, `Model.txLength` (`get_transaction_length`), `Model.Block.parse`, tied to the code by the
correspondence run (synthetic blocks and the three mainnet fixtures in full).
-/
namespace C15
open Py Spec Model

/-- parsing an 80-byte header and re-serialising it gives the same bytes -/
theorem header_roundtrip (b : Bytes) (h : b.length = 80) :
    ∃ hd, Header.parse b = .ok hd ∧ hd.serialize = .ok b :=
  BlockLemmas.header_serialize_parse b h

/-- the fields are the little-endian protocol fields, hashes in display (reversed) order -/
theorem header_fields (v t bits n : Nat) (prev merkle : Bytes)
    (hv : v < 2 ^ 32) (ht : t < 2 ^ 32) (hb : bits < 2 ^ 32) (hn : n < 2 ^ 32)
    (hp : prev.length = 32) (hm : merkle.length = 32) :
    Header.parse (leBytes 4 v ++ prev ++ merkle ++ leBytes 4 t ++ leBytes 4 bits ++ leBytes 4 n) =
      .ok { version := v, prev := prev.reverse, merkle := merkle.reverse, time := t, bits := bits, nonce := n } := by
  rw [BlockLemmas.header_parse_ok _ (by simp [hp, hm])]
  have l4 : ∀ x, (leBytes 4 x).length = 4 := fun x => leBytes_length 4 x
  have a1 : (leBytes 4 v ++ prev).length = 36 := by simp [hp]
  have a2 : (leBytes 4 v ++ prev ++ merkle).length = 68 := by simp [hp, hm]
  have a3 : (leBytes 4 v ++ prev ++ merkle ++ leBytes 4 t).length = 72 := by simp [hp, hm]
  have a4 : (leBytes 4 v ++ prev ++ merkle ++ leBytes 4 t ++ leBytes 4 bits).length = 76 := by simp [hp, hm]
  have e1 : (leBytes 4 v ++ prev ++ merkle ++ leBytes 4 t ++ leBytes 4 bits ++ leBytes 4 n).take 4 = leBytes 4 v := by
    simp only [List.append_assoc]; exact List.take_left' (l4 v)
  have e2 : ((leBytes 4 v ++ prev ++ merkle ++ leBytes 4 t ++ leBytes 4 bits ++ leBytes 4 n).drop 4).take 32 = prev := by
    simp only [List.append_assoc]; rw [List.drop_left' (l4 v)]; exact List.take_left' hp
  have e3 : ((leBytes 4 v ++ prev ++ merkle ++ leBytes 4 t ++ leBytes 4 bits ++ leBytes 4 n).drop 36).take 32 = merkle := by
    rw [List.append_assoc (leBytes 4 v ++ prev), List.append_assoc (leBytes 4 v ++ prev), List.append_assoc (leBytes 4 v ++ prev),
      List.drop_left' a1]
    simp only [List.append_assoc]; exact List.take_left' hm
  have e4 : ((leBytes 4 v ++ prev ++ merkle ++ leBytes 4 t ++ leBytes 4 bits ++ leBytes 4 n).drop 68).take 4 = leBytes 4 t := by
    rw [List.append_assoc (leBytes 4 v ++ prev ++ merkle), List.append_assoc (leBytes 4 v ++ prev ++ merkle), List.drop_left' a2]
    simp only [List.append_assoc]; exact List.take_left' (l4 t)
  have e5 : ((leBytes 4 v ++ prev ++ merkle ++ leBytes 4 t ++ leBytes 4 bits ++ leBytes 4 n).drop 72).take 4 = leBytes 4 bits := by
    rw [List.append_assoc (leBytes 4 v ++ prev ++ merkle ++ leBytes 4 t), List.drop_left' a3]
    exact List.take_left' (l4 bits)
  have e6 : ((leBytes 4 v ++ prev ++ merkle ++ leBytes 4 t ++ leBytes 4 bits ++ leBytes 4 n).drop 76).take 4 = leBytes 4 n := by
    rw [List.drop_left' a4]
    exact List.take_of_length_le (Nat.le_of_eq (l4 n))
  rw [e1, e2, e3, e4, e5, e6, ofLE_leBytes 4 v (by omega), ofLE_leBytes 4 t (by omega), ofLE_leBytes 4 bits (by omega),
    ofLE_leBytes 4 n (by omega)]

/-- anything that is not 80 bytes is refused -/
theorem header_rejects (b : Bytes) (h : b.length ≠ 80) : ∃ e, Header.parse b = .error e := by
  unfold Header.parse
  exact ⟨_, if_pos h⟩

/-- the block hash is the byte-reversed double-SHA256 of the 80 header bytes -/
theorem block_hash (sha256 : Bytes → Bytes) (b : Bytes) (h : b.length = 80) :
    ∃ hd, Header.parse b = .ok hd ∧ hd.hash sha256 = .ok (sha256 (sha256 b)).reverse := by
  obtain ⟨hd, h1, h2⟩ := BlockLemmas.header_serialize_parse b h
  refine ⟨hd, h1, ?_⟩
  simp only [Header.hash, h2, bind, Except.bind, pure, Except.pure]

/-- the expanded target follows the compact-bits definition (exponent 3..32 and beyond) -/
theorem target_eq (hd : Header) (h : 3 ≤ hd.bits / 2 ^ 24) : hd.target = .ok (compactTarget hd.bits) := by
  unfold Header.target compactTarget
  have : ¬ (hd.bits / 2 ^ 24 < 3) := by omega
  simp only [this, if_false]
  rw [Nat.pow_mul]

/-- the independent length scanner used for slicing agrees with the serialiser: on the encoding of a
well-formed transaction followed by anything it returns exactly the encoding's length -/
theorem scanner_agrees (T : Tables) (hT : C02.TablesOK T = true) (t : Tx) (h : C01.WFTx T t = true)
    (bs rest : Bytes) (hb : t.toBytes T t.hasSegwit = .ok bs) :
    txLength (bs ++ rest) = .ok bs.length := by
  rw [(C01.tx_spec T hT t h).2 t.hasSegwit] at hb
  obtain rfl := Except.ok.inj hb
  obtain ⟨hv, hl, hn1, hn, hm, hins, houts, hw⟩ := C01.wfTx_elim T t h
  apply BlockLemmas.txLength_encodeTx
  · exact hv
  · exact hl
  · simpa [C01.rawTx] using hn1
  · simp only [C01.rawTx, List.length_map]; omega
  · simp only [C01.rawTx, List.length_map]; omega
  · intro i hi
    simp only [C01.rawTx, List.mem_map] at hi
    obtain ⟨j, hj, rfl⟩ := hi
    obtain ⟨h32, h4, _, _, _⟩ := C01.wfIn_elim T j (hins j hj)
    have := (C01.in_spec T hT j (hins j hj)).2.2
    refine ⟨by simp [C01.rawIn, h32], ?_, h4⟩
    simp only [C01.rawIn]; omega
  · intro o ho
    simp only [C01.rawTx, List.mem_map] at ho
    obtain ⟨j, hj, rfl⟩ := ho
    have := (C01.out_spec T hT j (houts j hj)).2.2
    simp only [C01.rawOut]; omega
  · intro hseg
    obtain ⟨hwl, hws⟩ := hw hseg
    refine ⟨by simp [C01.rawTx, hwl], ?_⟩
    intro st hst
    obtain ⟨a, b⟩ := hws st hst
    refine ⟨by omega, fun it hit => ?_⟩
    have := b it hit
    omega

/-- parsing a framed block returns every transaction, each identical to parsing its own byte slice -/
theorem block_parse (T : Tables) (hT : C02.TablesOK T = true) (magic header : Bytes) (size : Nat) (txs : List Tx)
    (hm : magic.length = 4) (hh : header.length = 80) (hs : size < 2 ^ 32) (hn : txs.length < 2 ^ 32)
    (hw : ∀ t ∈ txs, C01.WFTx T t = true)
    (encs : List Bytes) (he : txs.mapM (fun t => t.toBytes T t.hasSegwit) = .ok encs) :
    ∃ hd parsed, Header.parse header = .ok hd ∧ encs.mapM (Tx.parse T) = .ok parsed ∧
      Block.parse T (frameBlock magic size header encs) =
        .ok { magic := magic, size := size, header := hd, count := txs.length, txs := parsed } := by
  obtain ⟨hd, hhd, _⟩ := header_roundtrip header hh
  obtain ⟨hlen, hmem⟩ := BlockLemmas.mapM_ok_elim _ txs encs he
  have hpe : ∀ e ∈ encs, ∃ t', Tx.parse T e = .ok t' := by
    intro e hee
    obtain ⟨t, ht, hte⟩ := hmem e hee
    obtain ⟨t', h1, _⟩ := C01.reencode T hT t (hw t ht) e hte
    exact ⟨t', h1⟩
  obtain ⟨parsed, hparsed⟩ := BlockLemmas.mapM_ok_of_forall (Tx.parse T) encs hpe
  have hsc : ∀ e ∈ encs, ∀ rest, txLength (e ++ rest) = .ok e.length := by
    intro e hee rest
    obtain ⟨t, ht, hte⟩ := hmem e hee
    exact scanner_agrees T hT t (hw t ht) e rest hte
  refine ⟨hd, parsed, hhd, hparsed, ?_⟩
  rw [← hlen]
  exact BlockLemmas.block_parse_frame T magic header size encs hm hh hs (by omega) hd hhd hsc parsed hparsed

end C15
