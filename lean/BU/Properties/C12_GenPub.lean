import BU.Properties.C12_Gen
import BU.Properties.C10_GenPub
/-!
# C12, continuation — locking scripts of key-derived addresses, end to end through the translated code (tier T)

Compositions of translated functions only: `PublicKey.get_address` (C10_GenPub) followed by `P2pkhAddress.to_script_pub_key` and
`Script.to_bytes`; `PublicKey._to_hash160` followed by the P2WPKH template.  Each locking script carries exactly the hash the address
object holds.
-/
namespace C12GenPub
open Py Model Spec Secp GenHexStr GenPub C12Gen

/-- P2PKH of a public key: `76 a9 14 <HASH160(SEC encoding)> 88 ac`, the hash being the one the address object stores -/
theorem gen_p2pkh_of_pubkey (sha256 : Bytes → Bytes) (hlen : ∀ b, (sha256 b).length < 2 ^ 61) (x y : Nat) (c : Bool) :
    ∃ stored h, Gen.pubkey_get_address sha256 (beBytes 32 x ++ beBytes 32 y) c = .ok stored ∧
      Py.bytesFromhex stored = .ok h ∧ h = hash160 sha256 C20Gen.genTabs (pubToBytes (x, y) c) ∧
      (Gen.p2pkh_script_pub_key h >>= Gen.script_to_bytes Gen.OP_CODES) = .ok ([0x76, 0xa9, 0x14] ++ h ++ [0x88, 0xac]) := by
  refine ⟨_, _, C10GenPub.gen_pubkey_get_address sha256 hlen x y c, bytesFromhex_hexOf _, rfl, ?_⟩
  exact gen_p2pkh_bytes _ (by unfold pubHash160 hash160; exact C10GenPub.rmd_length _ _)

/-- P2WPKH of a public key: `00 14 <HASH160(compressed SEC encoding)>` with the translated `_to_hash160` -/
theorem gen_p2wpkh_of_pubkey (sha256 : Bytes → Bytes) (hlen : ∀ b, (sha256 b).length < 2 ^ 61) (x y : Nat) :
    ∃ h, Gen.pubkey_to_hash160 sha256 (beBytes 32 x ++ beBytes 32 y) true = .ok h ∧
      h = hash160 sha256 C20Gen.genTabs (pubToBytes (x, y) true) ∧
      (Gen.p2wpkh_script_pub_key h >>= Gen.script_to_bytes Gen.OP_CODES) = .ok ([0x00, 0x14] ++ h) := by
  refine ⟨_, gen_pubkey_to_hash160 sha256 hlen x y true, rfl, ?_⟩
  exact gen_p2wpkh_bytes _ (by unfold pubHash160 hash160; exact C10GenPub.rmd_length _ _)

end C12GenPub

namespace C12GenPub
open Py Model Spec C12Gen C02Gen

/-- `P2shAddress(script=…)` — the base constructor called with a script only (a `Script` object is truthy: the class is checked to
define neither `__bool__` nor `__len__`): the object stores HASH160 of the script's exact byte encoding, and its locking script is the
one `Script.to_p2sh_script_pub_key` returns for the same script -/
theorem gen_address_init_script (sha256 : Bytes → Bytes) (hlen : ∀ b, (sha256 b).length < 2 ^ 61) (T : Tables) (s : List Spec.Tok) :
    Gen.address_init_script sha256 T.opCodes (s.map toPy) = scriptToHash160 sha256 C20Gen.genTabs T s := by
  unfold Gen.address_init_script
  simp only [if_true]
  rw [gen_address_script_to_hash160 sha256 hlen T s]

end C12GenPub
