import BU.Proofs.GenTweak
import BU.Properties.C07
/-!
# C07, continuation — the private-key side of the taproot tweak as *generated* code (tier T)

`full_pubkey_gen` (schnorr.py), `negate_privkey` and `tweak_taproot_privkey` (utils.py) are re-translated from the working tree on
every run and proved equal to the hand models `Model.fullPubkeyGen`, `Model.tweakPrivkey` — results and exceptions, every key and
tweak.  With `tweak_taproot_pubkey` (C08_GenTweak) this puts the central fact of C07 on the translated code: the secret the signer
derives is the discrete logarithm of the point whose x coordinate the address commits to.
-/
namespace C07GenTweak
open Py Secp Model Spec SchnorrLemmas

theorem gen_full_pubkey_gen (sk : Bytes) : Gen.schnorr_full_pubkey_gen sk = fullPubkeyGen sk := GenTweak.gen_full_pubkey_gen sk

theorem gen_negate_privkey (key pub : Bytes) (h : fullPubkeyGen key = .ok pub) :
    Gen.negate_privkey key = .ok (beBytes 32 (if ofBE (pub.drop 32) % 2 = 0 then ofBE key else n - ofBE key)) :=
  GenTweak.gen_negate_privkey key pub h

theorem gen_tweak_taproot_privkey (priv : Bytes) (tweak : Nat) :
    Gen.tweak_taproot_privkey priv (tweak : Int) = tweakPrivkey priv tweak := GenTweak.gen_tweak_taproot_privkey priv tweak

/-- **the derived secret matches the committed key** (translated code on both sides, no curve hypothesis): whatever the y-parity of
`d·G` or of the tweaked key, `tweak_taproot_privkey` returns the discrete log of the point whose x coordinate
`tweak_taproot_pubkey` returns -/
theorem gen_keypath_key_matches (d : Nat) (hd : 1 ≤ d ∧ d < n) (t : Nat) (ht : t < 2 ^ 256)
    (x y : Nat) (hP : mul G d = some (x, y))
    (q : Bytes) (odd : Bool) (hq : Gen.tweak_taproot_pubkey (beBytes 32 x ++ beBytes 32 y) (t : Int) = .ok (q, odd)) :
    ∃ d', Gen.tweak_taproot_privkey (beBytes 32 d) (t : Int) = .ok (beBytes 32 d') ∧ d' < n ∧
      ∃ qx qy, mul G d' = some (qx, qy) ∧ q.take 32 = beBytes 32 qx ∧ odd = (qy % 2 ≠ 0) := by
  obtain ⟨hxp, hy0, hyp⟩ := CurveLawsFinal.curveLaws.coords d x y hP
  rw [GenTweak.gen_tweak_taproot_pubkey _ t (by simp [GenTweak.be32_length])
    (by rw [TaprootLemmas.pub_drop, ofBE_beBytes32 y (by have := p_lt; omega)]; exact hyp)] at hq
  obtain ⟨d', h1, h2, h3⟩ := C07.keypath_key_matches_unconditional d hd t ht x y hP q odd hq
  exact ⟨d', by rw [gen_tweak_taproot_privkey]; exact h1, h2, h3⟩

end C07GenTweak
