import BU.Proofs.GenTapSign
import BU.Properties.C08
/-!
# C08, continuation — the script tree and the tweak as *generated* code (tier T)

`get_tag_hashed_merkle_root` (a function that calls itself on `scripts[0]` / `scripts[1]`; translated with a recursion bound equal
to the depth of the tree plus one, proved never exhausted) and `calculate_tweak` are re-translated from the working tree on every
run.  A Script or nested list of one- and two-element lists is `Py.PyTree`; the empty list and lists of three or more are there
too (`b""` / `ValueError`).  For every tree whose leaf scripts assemble to fewer than 2^64 bytes they return what
`Model.merkleRoot` / `calculateTweak` return, hence (C08.root_eq_spec) the BIP341 merkle root.
-/
namespace C08GenTree
open Py Secp Model Spec GenTapSign

theorem gen_merkle_root (sha256 : Bytes → Bytes) (T : Tables) (t : Model.Tree) (hs : SmallTree T t) :
    Gen.tag_hashed_merkle_root sha256 T.opCodes (some (toPyTree t)) = merkleRoot sha256 T t :=
  GenTapSign.gen_merkle_root sha256 T t hs

theorem gen_merkle_root_edge (sha256 : Bytes → Bytes) (ops : List (String × Bytes)) :
    Gen.tag_hashed_merkle_root sha256 ops none = .ok [] ∧ Gen.tag_hashed_merkle_root sha256 ops (some .nil) = .ok [] ∧
    Gen.tag_hashed_merkle_root sha256 ops (some .many) = .error .valueError := GenTapSign.gen_merkle_root_edge sha256 ops

theorem gen_calculate_tweak (sha256 : Bytes → Bytes) (T : Tables) (pub : Bytes) (s : Model.Scripts) (hs : SmallScripts T s) :
    Gen.calculate_tweak sha256 T.opCodes pub (toPyScripts s) = (calculateTweak sha256 T pub s).map (fun (n : Nat) => (n : Int)) :=
  GenTapSign.gen_calculate_tweak sha256 T pub s hs

/-- **BIP341 merkle root, end to end**: for a well-formed tree the translated function returns the root of the Spec tree -/
theorem gen_root_eq_spec (sha256 : Bytes → Bytes) (T : Tables) (hT : C02.TablesOK T = true) (t : Tree) (h : C08.WFTree T t)
    (hs : SmallTree T t) :
    ∃ st, Gen.tag_hashed_merkle_root sha256 T.opCodes (some (toPyTree t)) = .ok (STree.root sha256 st) ∧
      merkleRoot sha256 T t = .ok (STree.root sha256 st) := by
  obtain ⟨st, h1, h2⟩ := C08.root_eq_spec sha256 T hT t h
  exact ⟨st, by rw [gen_merkle_root sha256 T t hs]; exact h2, h2⟩

/-! ## the merkle path and the control block -/

/-- `traverse_level`, the nested function of `_generate_merkle_path`: its `nonlocal` leaf counter is threaded through (extra
parameter, extra result component); translated with a depth bound that is never exhausted -/
theorem gen_traverse (sha256 : Bytes → Bytes) (T : Tables) (target : Nat) (t : Model.Tree) (hs : SmallTree T t) (tr : Nat) :
    Gen.traverse_level sha256 T.opCodes (target : Int) (some (toPyTree t)) (tr : Int) = (traverse sha256 T target t tr).map castR :=
  GenTapSign.gen_traverse sha256 T target t hs tr

theorem gen_merkle_path (sha256 : Bytes → Bytes) (T : Tables) (t : Model.Tree) (hs : SmallTree T t) (target : Nat) :
    Gen.generate_merkle_path sha256 T.opCodes (some (toPyTree t)) (target : Int) = merklePath sha256 T t target :=
  GenTapSign.gen_merkle_path sha256 T t hs target

theorem gen_control_block (sha256 : Bytes → Bytes) (T : Tables) (pub : Bytes) (t : Model.Tree) (hs : SmallTree T t) (index : Nat)
    (isOdd : Bool) :
    (Gen.generate_merkle_path sha256 T.opCodes (some (toPyTree t)) (index : Int) >>= fun path =>
      Gen.control_block_to_bytes isOdd (pub.take 32) path) = controlBlock sha256 T pub t index isOdd :=
  GenTapSign.gen_control_block sha256 T pub t hs index isOdd

/-- **the control block verifies, end to end**: the control block assembled by the translated `_generate_merkle_path` and
`ControlBlock.to_bytes` for leaf `k` makes the BIP341 script-path verifier recompute exactly the program and parity of the address -/
theorem gen_control_block_verifies (sha256 : Bytes → Bytes) (hlen : ∀ b, (sha256 b).length = 32)
    (T : Tables) (hT : C02.TablesOK T = true) (pub : Bytes) (x y : Nat) (hx : x < 2 ^ 256) (hy : y < 2 ^ 256)
    (hpub : pub = beBytes 32 x ++ beBytes 32 y)
    (hl : liftX x = some (x, if y % 2 = 0 then y else p - y))
    (t : Tree) (h : C08.WFTree T t) (hsm : SmallTree T t) (hd : C08.depth t ≤ 128) (k : Nat) (hk : k < (C08.leavesOf t).length)
    (q : Bytes) (odd : Bool) (root : Bytes) (hroot : merkleRoot sha256 T t = .ok root)
    (ht : ofBE (taggedHash sha256 "TapTweak" (beBytes 32 x ++ root)) < n)
    (hq : toTaproot sha256 T pub (.tree t) = .ok (q, odd)) :
    ∃ cb leafBytes,
      (Gen.generate_merkle_path sha256 T.opCodes (some (toPyTree t)) (k : Int) >>= fun path =>
        Gen.control_block_to_bytes odd (pub.take 32) path) = .ok cb ∧
      scriptBytes T ((C08.leavesOf t).getD k []) = .ok leafBytes ∧
      scriptPathCommitment sha256 cb leafBytes = some (q, odd) := by
  obtain ⟨cb, lb, h1, h2, h3⟩ := C08.control_block_verifies sha256 hlen T hT pub x y hx hy hpub hl t h hd k hk q odd root hroot ht hq
  exact ⟨cb, lb, by rw [gen_control_block sha256 T pub t hsm k odd]; exact h1, h2, h3⟩

end C08GenTree
