import BU.Proofs.GenTapSign
import BU.Properties.C08
/-!
# C08, continuation — the script tree and the tweak as *generated* code (tier T)

`get_tag_hashed_merkle_root` (a function that calls itself on `scripts[0]` / `scripts[1]`; translated with a recursion bound equal
to the depth of the tree plus one, proved never exhausted) and `calculate_tweak` are re-translated from the working tree on every
run.  A Script or nested list of one- and two-element lists is `Py.PyTree`; the empty list and lists of three or more are there
too (`b""` / `ValueError`).  For every tree whose leaf scripts assemble to fewer than 2^64 bytes they return what
`Model.merkleRoot` / `calculateTweak` return, hence (C08.root_eq_spec) the BIP341 merkle root.
-/
namespace C08GenTree
open Py Secp Model Spec GenTapSign

theorem gen_merkle_root (sha256 : Bytes → Bytes) (T : Tables) (t : Model.Tree) (hs : SmallTree T t) :
    Gen.tag_hashed_merkle_root sha256 T.opCodes (some (toPyTree t)) = merkleRoot sha256 T t :=
  GenTapSign.gen_merkle_root sha256 T t hs

theorem gen_merkle_root_edge (sha256 : Bytes → Bytes) (ops : List (String × Bytes)) :
    Gen.tag_hashed_merkle_root sha256 ops none = .ok [] ∧ Gen.tag_hashed_merkle_root sha256 ops (some .nil) = .ok [] ∧
    Gen.tag_hashed_merkle_root sha256 ops (some .many) = .error .valueError := GenTapSign.gen_merkle_root_edge sha256 ops

theorem gen_calculate_tweak (sha256 : Bytes → Bytes) (T : Tables) (pub : Bytes) (s : Model.Scripts) (hs : SmallScripts T s) :
    Gen.calculate_tweak sha256 T.opCodes pub (toPyScripts s) = (calculateTweak sha256 T pub s).map (fun (n : Nat) => (n : Int)) :=
  GenTapSign.gen_calculate_tweak sha256 T pub s hs

/-- **BIP341 merkle root, end to end**: for a well-formed tree the translated function returns the root of the Spec tree -/
theorem gen_root_eq_spec (sha256 : Bytes → Bytes) (T : Tables) (hT : C02.TablesOK T = true) (t : Tree) (h : C08.WFTree T t)
    (hs : SmallTree T t) :
    ∃ st, Gen.tag_hashed_merkle_root sha256 T.opCodes (some (toPyTree t)) = .ok (STree.root sha256 st) ∧
      merkleRoot sha256 T t = .ok (STree.root sha256 st) := by
  obtain ⟨st, h1, h2⟩ := C08.root_eq_spec sha256 T hT t h
  exact ⟨st, by rw [gen_merkle_root sha256 T t hs]; exact h2, h2⟩

end C08GenTree
