import BU.Gen.Codec
import BU.Gen.Tables
import BU.Model.Msg
import BU.Properties.C17
/-!
# C14, continuation — `add_magic_prefix` as *generated* code (tier T)

The function that builds what is hashed for a signed message is re-translated from the working tree on every run (the `str`
message is the bytes of its UTF-8 encoding, which is all the function does with it).  For every message (shorter than 2^64 bytes)
it returns Bitcoin Core's `MessageHash` pre-image: the magic prefix, the CompactSize of the **byte** length, the message.
-/
namespace C14Gen
open Py Spec Model

/-- Bitcoin Core's message magic -/
def coreMagic : Bytes := [0x18] ++ "Bitcoin Signed Message:\n".toUTF8.toList

theorem gen_add_magic_prefix (msgUtf8 : Bytes) (h : msgUtf8.length < 2 ^ 64) :
    Gen.add_magic_prefix msgUtf8 = .ok (addMagicPrefix Gen.MAGIC_PREFIX msgUtf8) := by
  unfold Gen.add_magic_prefix addMagicPrefix
  simp only []
  rw [show Py.len msgUtf8 = ((msgUtf8.length : Nat) : Int) from rfl, C17.encode_varint_eq_spec _ h, ok_bind]
  rfl

/-- the translated function returns exactly what Bitcoin Core hashes -/
theorem gen_prefix_eq_core (msgUtf8 : Bytes) (h : msgUtf8.length < 2 ^ 64) :
    Gen.add_magic_prefix msgUtf8 = .ok (coreMagic ++ compactSize msgUtf8.length ++ msgUtf8) := by
  rw [gen_add_magic_prefix msgUtf8 h]
  have : Gen.MAGIC_PREFIX = coreMagic := by decide +kernel
  unfold addMagicPrefix
  rw [this]

end C14Gen
