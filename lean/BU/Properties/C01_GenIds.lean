import BU.Gen.Codec
import BU.Properties.C01_Gen
/-!
# C01, continuation — `get_txid` / `get_wtxid` as *generated* code (tier T)

`Transaction.get_txid`, `_get_hash` and `get_wtxid` are re-translated from the working tree on every run (SHA-256 a parameter; the
hex string returned is modelled by the bytes it denotes).  For every transaction whose prefixed lengths are below 2^64 they return
what `Model.Tx.txid` / `wtxid` return, about which `C01.txid_wtxid` is proved: the byte-reversed double-SHA256 of the stripped /
full wire encoding.
-/
namespace C01GenIds
open Py Spec Model Loop C02Gen C01Gen

theorem gen_get_txid (sha256 : Bytes → Bytes) (T : Tables) (t : Tx) (h : Small T t) :
    Gen.transaction_get_txid sha256 T.opCodes t.version (t.inputs.map inPy) (t.outputs.map outPy) (t.witnesses.map Py.PyWit.mk)
      t.locktime t.hasSegwit = Tx.txid sha256 T t := by
  unfold Gen.transaction_get_txid Tx.txid
  rw [gen_transaction_to_bytes T t false h]

theorem gen_get_wtxid (sha256 : Bytes → Bytes) (T : Tables) (t : Tx) (h : Small T t) :
    Gen.transaction_get_wtxid sha256 T.opCodes t.version (t.inputs.map inPy) (t.outputs.map outPy) (t.witnesses.map Py.PyWit.mk)
      t.locktime t.hasSegwit = Tx.wtxid sha256 T t := by
  unfold Gen.transaction_get_wtxid Gen.transaction_get_hash Tx.wtxid
  rw [gen_transaction_to_bytes T t t.hasSegwit h]

/-- **ids, end to end**: for a well-formed transaction the translated `get_txid` / `get_wtxid`, run with the generated opcode
dictionary, return the byte-reversed double-SHA256 of the witness-stripped / full wire encoding -/
theorem gen_ids (sha256 : Bytes → Bytes) (t : Tx) (h : C01.WFTx C02.genTables t = true) (hs : Small C02.genTables t) :
    ∃ r, C01.assembleTx t = some r ∧
      Gen.transaction_get_txid sha256 Gen.OP_CODES t.version (t.inputs.map inPy) (t.outputs.map outPy) (t.witnesses.map Py.PyWit.mk)
        t.locktime t.hasSegwit = .ok (sha256 (sha256 (encodeTx r false))).reverse ∧
      Gen.transaction_get_wtxid sha256 Gen.OP_CODES t.version (t.inputs.map inPy) (t.outputs.map outPy) (t.witnesses.map Py.PyWit.mk)
        t.locktime t.hasSegwit = .ok (sha256 (sha256 (encodeTx r t.hasSegwit))).reverse := by
  obtain ⟨r, h1, h2, h3⟩ := C01.txid_wtxid sha256 C02.genTables C02.tables_ok t h
  exact ⟨r, h1, by rw [← h2]; exact gen_get_txid sha256 C02.genTables t hs, by rw [← h3]; exact gen_get_wtxid sha256 C02.genTables t hs⟩

end C01GenIds
