import BU.Gen.Codec
import BU.Model.Bech32
import BU.Proofs.GenBech32
/-!
# C11, continuation — the leaves of `bitcoinutils/bech32.py` as *generated* code (tier T)

`gen/py2lean.py` re-translates `bech32_polymod`, `bech32_hrp_expand`, `bech32_verify_checksum`,
`bech32_create_checksum` and `convertbits` from the working tree on every run (`BU/Gen/Codec.lean`: `for` loops, a bounded
`while`, comprehensions, Python's unbounded ints).  The theorems here say that on natural-number arguments the generated
functions compute exactly what the hand model `Model.Bech32` computes — the model about which `C11.roundtrip`,
`C11.accept_sound`, `C11.detects_up_to_two` … are proved.  A change to one of these Python functions changes the generated
definition and these proofs stop checking: the tie is then broken by a proof obligation, not only by sampled correspondence.
In particular the bounded `while` of `convertbits` never runs out of its bound (the result is `.ok`).
-/
namespace C11Gen
open Model.Bech32

/-- a list of naturals as the list of Python ints it denotes -/
def ofN (l : List Nat) : List Int := l.map Int.ofNat
/-- `Encoding.BECH32.value` / `Encoding.BECH32M.value` -/
def encCode : Enc → Int | .bech32 => 1 | .bech32m => 2

theorem gen_polymod (vals : List Nat) :
    Gen.bech32_polymod (ofN vals) = .ok ((polymod specConsts vals : Nat) : Int) :=
  GenBech32.gen_polymod vals

theorem gen_hrp_expand (hrp : List Char) :
    Gen.bech32_hrp_expand hrp = .ok (ofN (hrpExpand hrp)) :=
  GenBech32.gen_hrp_expand hrp

theorem gen_verify_checksum (hrp : List Char) (data : List Nat) :
    Gen.bech32_verify_checksum hrp (ofN data) = .ok ((verifyChecksum specConsts hrp data).map encCode) :=
  GenBech32.gen_verify_checksum hrp data

theorem gen_create_checksum (hrp : List Char) (data : List Nat) (spec : Enc) :
    Gen.bech32_create_checksum hrp (ofN data) (encCode spec) = .ok (ofN (createChecksum specConsts hrp data spec)) :=
  GenBech32.gen_create_checksum hrp data spec

/-- `convertbits` for a positive target width (with `tobits = 0` the Python loop does not terminate) -/
theorem gen_convertbits (data : List Nat) (frombits tobits : Nat) (pad : Bool) (htb : 0 < tobits) :
    Gen.convertbits (ofN data) (frombits : Int) (tobits : Int) pad = .ok ((convertbits data frombits tobits pad).map ofN) :=
  GenBech32.gen_convertbits data frombits tobits pad htb

-- non-vacuity / sanity on concrete values (kernel evaluation)
example : (Gen.bech32_polymod (ofN [3, 3, 0, 2, 3, 0, 14, 20, 15])).toOption = some ((polymod specConsts [3, 3, 0, 2, 3, 0, 14, 20, 15] : Nat) : Int) := by
  decide +kernel
example : (Gen.convertbits (ofN [255, 1, 128]) 8 5 true).toOption = some ((convertbits [255, 1, 128] 8 5 true).map ofN) := by decide +kernel
example : (Gen.convertbits (ofN [31, 28, 0, 16, 0]) 5 8 false).toOption = some ((convertbits [31, 28, 0, 16, 0] 5 8 false).map ofN) := by decide +kernel

end C11Gen
