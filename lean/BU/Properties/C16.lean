import BU.Py
import BU.Model.Tx
import BU.Properties.C01
/-!
# C16 — reported size and virtual size follow BIP141 weight accounting

M: `Model.Tx.size`, `Model.Tx.vsize` (integer form of the code's binary64 `x / 4` + `math.ceil`, exact for
sizes below 2^51 — assumption, exercised by the correspondence run).
-/
namespace C16
open Py Spec Model

/-- the serialisation, when it succeeds, is assembled from the same input and output blocks whatever the flag -/
theorem toBytes_shape' (T : Tables) (t : Tx) (ins outs : Bytes)
    (hins : concatM (t.inputs.map (TxIn.toBytes T)) = .ok ins)
    (houts : concatM (t.outputs.map (TxOut.toBytes T)) = .ok outs) (seg : Bool) :
    t.toBytes T seg = .ok (t.version ++ (if seg then [0x00, 0x01] else []) ++ compactSize t.inputs.length ++ ins ++
        compactSize t.outputs.length ++ outs ++
        (if seg then t.witnesses.flatMap (fun w => compactSize w.length ++ witnessBytes w) else []) ++ t.locktime) := by
  simp only [Tx.toBytes, hins, houts, bind, Except.bind, pure, Except.pure]

theorem toBytes_shape (T : Tables) (t : Tx) (s : Bytes) (hs : t.toBytes T false = .ok s) :
    ∃ ins outs, concatM (t.inputs.map (TxIn.toBytes T)) = .ok ins ∧
      concatM (t.outputs.map (TxOut.toBytes T)) = .ok outs ∧
      s = t.version ++ [] ++ compactSize t.inputs.length ++ ins ++ compactSize t.outputs.length ++ outs ++ [] ++
        t.locktime := by
  unfold Tx.toBytes at hs
  cases hi : concatM (t.inputs.map (TxIn.toBytes T)) with
  | error e => simp [hi, bind, Except.bind] at hs
  | ok ins =>
    cases ho : concatM (t.outputs.map (TxOut.toBytes T)) with
    | error e => simp [hi, ho, bind, Except.bind] at hs
    | ok outs =>
      simp only [hi, ho, bind, Except.bind, pure, Except.pure, Bool.false_eq_true, if_false] at hs
      exact ⟨ins, outs, rfl, rfl, (Except.ok.inj hs).symm⟩

/-- the reported size is the length of the full serialisation -/
theorem size_eq (T : Tables) (t : Tx) (f : Bytes) (hf : t.toBytes T t.hasSegwit = .ok f) :
    t.size T = .ok f.length := by
  simp only [Tx.size, hf, bind, Except.bind, pure, Except.pure]

/-- vsize = ceil((3 * stripped size + full size) / 4), for any number and size of witness items -/
theorem vsize_eq (T : Tables) (t : Tx) (s f : Bytes)
    (hs : t.toBytes T false = .ok s) (hf : t.toBytes T t.hasSegwit = .ok f) :
    t.vsize T = .ok ((3 * s.length + f.length + 3) / 4) := by
  have hsize := size_eq T t f hf
  unfold Tx.vsize
  rw [hsize]
  by_cases hseg : t.hasSegwit = true
  · obtain ⟨ins, outs, hins, houts, e⟩ := toBytes_shape T t s hs
    rw [hseg] at hf
    have e2 := toBytes_shape' T t ins outs hins houts true
    rw [hf] at e2
    have e2 := Except.ok.inj e2
    have ls := congrArg List.length e
    have lf := congrArg List.length e2
    simp only [List.length_append, if_true, List.length_cons, List.length_nil] at ls lf
    simp only [hseg, bind, Except.bind, pure, Except.pure, Bool.not_true, Bool.false_eq_true, if_false]
    congr 1
    omega
  · have hseg' : t.hasSegwit = false := by simpa using hseg
    rw [hseg'] at hf
    rw [hs] at hf
    obtain rfl := Except.ok.inj hf
    simp only [hseg', bind, Except.bind, pure, Except.pure, Bool.not_false, if_true]
    congr 1
    omega

/-- for legacy transactions both coincide -/
theorem vsize_legacy (T : Tables) (t : Tx) (h : t.hasSegwit = false) : t.vsize T = t.size T := by
  unfold Tx.vsize
  cases hsz : t.size T with
  | error e => rfl
  | ok n => simp only [h, bind, Except.bind, pure, Except.pure, Bool.not_false, if_true]

end C16
