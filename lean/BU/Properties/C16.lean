import BU.Py
import BU.Model.Tx
import BU.Properties.C01
/-!
# C16 — reported size and virtual size follow BIP141 weight accounting

M: `Model.Tx.size`, `Model.Tx.vsize` (integer form of the code's binary64 `x / 4` + `math.ceil`, exact for
sizes below 2^51 — assumption, exercised by the correspondence run).
-/
namespace C16
open Py Spec Model

/-- the reported size is the length of the full serialisation -/
theorem size_eq (T : Tables) (t : Tx) (f : Bytes) (hf : t.toBytes T t.hasSegwit = .ok f) :
    t.size T = .ok f.length := by
  sorry

/-- vsize = ceil((3 * stripped size + full size) / 4), for any number and size of witness items -/
theorem vsize_eq (T : Tables) (t : Tx) (s f : Bytes)
    (hs : t.toBytes T false = .ok s) (hf : t.toBytes T t.hasSegwit = .ok f) :
    t.vsize T = .ok ((3 * s.length + f.length + 3) / 4) := by
  sorry

/-- for legacy transactions both coincide -/
theorem vsize_legacy (T : Tables) (t : Tx) (h : t.hasSegwit = false) : t.vsize T = t.size T := by
  sorry

end C16
