import BU.Gen.Codec
import BU.Model.Digest
import BU.Properties.C04_Gen
import BU.Properties.C08_Gen
import BU.Properties.C05
/-!
# C05, continuation — the BIP341 / BIP342 signature message as *generated* code (tier T)

`Transaction.get_transaction_taproot_digest` is re-translated from the working tree on every run: the five loops (prevouts,
amounts, scriptPubKeys, sequences, outputs), the ANYONECANPAY / NONE / SINGLE case analysis on `sighash & 0x80`, `sighash & 0x03`,
the indexing of `inputs`, `amounts`, `script_pubkeys` and `outputs` by `txin_index`, the script-path extension, the two tagged
hashes (SHA-256 a parameter).  `tmp_tx = Transaction.copy(self)` is only read, so it denotes `self` (the translator rejects the
function if the copy is ever written to).  For every transaction, input index, list of spent scripts and amounts, extension flag,
leaf script and hash type the generated function returns — result *and* exception — what the hand model `Model.taprootDigest`
returns, the model about which `C05.taproot_digest_eq_bip341` (= the BIP341 `SigMsg` Spec) is proved.  Only bound: scripts shorter
than 2^64 bytes (beyond it `encode_varint` raises; the model's CompactSize is total).
-/
set_option linter.unusedSimpArgs false
namespace C05Gen
open Py Spec Model Loop C02Gen C01Gen C04Gen

/-- a loop whose state is `junk × accumulator`: each iteration overwrites the junk and appends to the accumulator -/
def accumJ {α J : Type} (h : α → Except PyErr (J × Bytes)) : List α → J → Except PyErr (J × Bytes)
  | [], j => .ok (j, [])
  | x :: xs, _ => do
    let r ← h x
    let r' ← accumJ h xs r.1
    pure (r'.1, r.2 ++ r'.2)

theorem forIn_junk {α J S : Type} (mk : J → Bytes → S) (pj : S → Bytes) (hpj : ∀ j b, pj (mk j b) = b)
    (h : α → Except PyErr (J × Bytes)) (body : α → S → Except PyErr (ForInStep S))
    (hb : ∀ a s, body a s = h a >>= fun r => (pure (ForInStep.yield (mk r.1 (pj s ++ r.2))) : Except PyErr (ForInStep S)))
    (xs : List α) (j0 : J) (acc : Bytes) :
    forIn (m := Except PyErr) xs (mk j0 acc) body = (accumJ h xs j0).map (fun r => mk r.1 (acc ++ r.2)) := by
  induction xs generalizing j0 acc with
  | nil => simp [accumJ, Except.map, pure, Except.pure]
  | cons x xs ih =>
    rw [List.forIn_cons, accumJ, hb]
    cases h x with
    | error e => rfl
    | ok r =>
      rw [ok_bind, ok_bind, hpj]
      show (forIn (m := Except PyErr) xs (mk r.1 (acc ++ r.2)) body) = _
      rw [ih]
      cases accumJ h xs r.1 with
      | error e => rfl
      | ok b => simp [Except.map, pure, Except.pure, bind, Except.bind]

/-- the accumulator of such a loop is the concatenation of the pieces -/
theorem accumJ_snd {α J : Type} (h : α → Except PyErr (J × Bytes)) (g : α → Except PyErr Bytes) (xs : List α)
    (hg : ∀ a ∈ xs, (h a).map (·.2) = g a) (j0 : J) :
    (accumJ h xs j0).map (·.2) = concatM (xs.map g) := by
  induction xs generalizing j0 with
  | nil => rfl
  | cons x xs ih =>
    rw [accumJ, List.map_cons, concatM, ← hg x (by simp), ← ih (fun a ha => hg a (by simp [ha])) (h x |>.toOption |>.map (·.1) |>.getD j0)]
    cases h x with
    | error e => rfl
    | ok r =>
      simp only [Except.map, Except.toOption, Option.map, Option.getD]
      rw [ok_bind, ok_bind]
      cases accumJ h xs r.1 <;> rfl

/-! ## the five loops -/

def hP (a : Py.PyTxIn) : Except PyErr (Py.PyTxIn × Bytes) := do
  let t3 ← Py.pack "<I" a.txout_index
  pure (a, List.reverse a.txid ++ t3)

/-- hashPrevouts: the loop, whatever follows it -/
theorem loop_prevouts (ins : List TxIn) (x : Py.PyTxIn) (K : Py.PyTxIn × Bytes → Except PyErr Bytes) :
    ((forIn (ins.map inPy) (x, ([] : Bytes)) fun (txin_it : Py.PyTxIn) (__s : Py.PyTxIn × Bytes) => do
        let t3 ← Py.pack "<I" txin_it.txout_index
        (pure (ForInStep.yield (txin_it, __s.snd ++ (List.reverse txin_it.txid ++ t3))) : Except PyErr (ForInStep (Py.PyTxIn × Bytes)))) >>= K) =
      (accumJ hP (ins.map inPy) x >>= K) := by
  rw [forIn_junk (fun j b => (j, b)) (·.2) (fun _ _ => rfl) hP _ (fun a s => by simp only [hP, bind_assoc, pure_bind])]
  cases accumJ hP (ins.map inPy) x with
  | error e => rfl
  | ok r => simp [Except.map]

theorem prevouts_model (ins : List TxIn) (x : Py.PyTxIn) :
    concatM (ins.map outpointBytes) = (accumJ hP (ins.map inPy) x).map (·.2) := by
  rw [accumJ_snd hP (fun a => (hP a).map (·.2)) _ (fun _ _ => rfl), List.map_map]
  congr 1
  apply List.map_congr_left
  intro a _
  unfold outpointBytes hP inPy
  simp only [Function.comp]
  cases Py.pack "<I" a.index <;> rfl

/-- the loop variable after a loop: the last element, or what it was before -/
def lastD {α : Type} : List α → α → α
  | [], x => x
  | a :: as, _ => lastD as a

/-- hashSequences: total -/
theorem loop_sequences (ins : List TxIn) (x : Py.PyTxIn) (acc : Bytes) :
    (forIn (ins.map inPy) (x, acc) fun (txin_it : Py.PyTxIn) (__s : Py.PyTxIn × Bytes) =>
        (pure (ForInStep.yield (txin_it, __s.snd ++ txin_it.sequence)) : Except PyErr (ForInStep (Py.PyTxIn × Bytes)))) =
      .ok (lastD (ins.map inPy) x, acc ++ ins.flatMap (·.sequence)) := by
  induction ins generalizing x acc with
  | nil => simp [pure, Except.pure, lastD]
  | cons i is ih =>
    rw [List.map_cons, List.forIn_cons]
    show (Except.ok (ForInStep.yield (inPy i, acc ++ (inPy i).sequence)) >>= _) = _
    rw [ok_bind]
    show forIn (is.map inPy) (inPy i, acc ++ (inPy i).sequence) _ = _
    rw [ih]
    simp [List.append_assoc, inPy, lastD]

/-- hashAmounts -/
theorem loop_amounts (amounts : List Int) (acc : Bytes) :
    (forIn amounts acc fun (a : Int) (__s : Bytes) => do
        let t4 ← Py.toBytes a (8 : Int) Py.Order.little
        (pure (ForInStep.yield (__s ++ t4)) : Except PyErr (ForInStep Bytes))) = (concatM (amounts.map le8)).map (acc ++ ·) := by
  rw [← accum_eq_concatM, ← forIn_append]
  rfl

/-- hashScriptPubkeys -/
theorem loop_spks (T : Tables) (spks : List (List Spec.Tok)) (acc : Bytes)
    (hs : ∀ s ∈ spks, ∀ b, scriptBytes T s = .ok b → b.length < 2 ^ 64) :
    (forIn (spks.map (·.map toPy)) acc fun (scr : List Py.PyTok) (__s : Bytes) => do
        let t5 ← Gen.script_to_bytes T.opCodes scr
        let t6 ← Gen.prepend_compact_size t5
        (pure (ForInStep.yield (__s ++ t6)) : Except PyErr (ForInStep Bytes))) = (concatM (spks.map (spkBytes T))).map (acc ++ ·) := by
  rw [List.forIn_map, ← accum_eq_concatM, ← forIn_append]
  apply forIn_congr_mem
  intro s hmem b
  unfold spkBytes
  rw [gen_script_to_bytes]
  cases hb : scriptBytes T s with
  | error e => rw [error_bind, error_bind, error_bind]
  | ok sb => rw [ok_bind, ok_bind, pure_eq_ok, ok_bind, C17.prepend_eq_spec sb (hs s hmem sb hb), ok_bind]

def hO (T : Tables) (a : Py.PyTxOut) : Except PyErr ((Py.PyTxOut × Bytes × Bytes) × Bytes) := do
  let t7 ← Py.pack "<Q" a.amount
  let t8 ← Gen.script_to_bytes T.opCodes a.script_pubkey
  let t9 ← Gen.encode_varint (Py.len t8)
  pure ((a, t7, t8), t7 ++ t9 ++ t8)

/-- hashOutputs: the loop, whatever follows it -/
theorem loop_outputs (T : Tables) (outs : List TxOut) (x1 : Py.PyTxOut) (x2 x3 : Bytes)
    (K : Py.PyTxOut × Bytes × Bytes × Bytes → Except PyErr Bytes) :
    ((forIn (outs.map outPy) (x1, x2, x3, ([] : Bytes)) fun (txout_it : Py.PyTxOut) (__s : Py.PyTxOut × Bytes × Bytes × Bytes) => do
        let t7 ← Py.pack "<Q" txout_it.amount
        let t8 ← Gen.script_to_bytes T.opCodes txout_it.script_pubkey
        let t9 ← Gen.encode_varint (Py.len t8)
        (pure (ForInStep.yield (txout_it, t7, t8, __s.snd.snd.snd ++ (t7 ++ t9 ++ t8))) :
          Except PyErr (ForInStep (Py.PyTxOut × Bytes × Bytes × Bytes)))) >>= K) =
      (accumJ (hO T) (outs.map outPy) (x1, x2, x3) >>= fun r => K (r.1.1, r.1.2.1, r.1.2.2, r.2)) := by
  rw [show (x1, x2, x3, ([] : Bytes)) = (fun (j : Py.PyTxOut × Bytes × Bytes) (b : Bytes) => (j.1, j.2.1, j.2.2, b)) (x1, x2, x3) [] from rfl,
    forIn_junk (fun (j : Py.PyTxOut × Bytes × Bytes) b => (j.1, j.2.1, j.2.2, b)) (·.2.2.2) (fun _ _ => rfl) (hO T) _
    (fun a s => by simp only [hO, bind_assoc, pure_bind])]
  cases accumJ (hO T) (outs.map outPy) (x1, x2, x3) with
  | error e => rfl
  | ok r => simp only [Except.map]; rw [ok_bind, ok_bind, List.nil_append]

theorem outputs_model (T : Tables) (outs : List TxOut) (x : Py.PyTxOut × Bytes × Bytes)
    (ho : ∀ o ∈ outs, ∀ b, scriptBytes T o.script = .ok b → b.length < 2 ^ 64) :
    concatM (outs.map (tapOutBytes T)) = (accumJ (hO T) (outs.map outPy) x).map (·.2) := by
  rw [accumJ_snd (hO T) (fun a => (hO T a).map (·.2)) _ (fun _ _ => rfl), List.map_map]
  congr 1
  apply List.map_congr_left
  intro o hmem
  unfold tapOutBytes hO outPy
  simp only [Function.comp]
  cases Py.pack "<Q" o.amount with
  | error e => rfl
  | ok am =>
    rw [ok_bind, ok_bind, gen_script_to_bytes]
    cases hb : scriptBytes T o.script with
    | error e => rfl
    | ok sb => rw [ok_bind, ok_bind, len_cast, C17.encode_varint_eq_spec _ (ho o hmem sb hb)]; rfl

/-- hashSequences, hashAmounts, hashScriptPubkeys, whatever follows them -/
theorem loop_sequences_bind (ins : List TxIn) (x : Py.PyTxIn) (K : Py.PyTxIn × Bytes → Except PyErr Bytes) :
    ((forIn (ins.map inPy) (x, ([] : Bytes)) fun (txin_it : Py.PyTxIn) (__s : Py.PyTxIn × Bytes) =>
        (pure (ForInStep.yield (txin_it, __s.snd ++ txin_it.sequence)) : Except PyErr (ForInStep (Py.PyTxIn × Bytes)))) >>= K) =
      K (lastD (ins.map inPy) x, ins.flatMap (·.sequence)) := by
  rw [loop_sequences, ok_bind, List.nil_append]

theorem loop_amounts_bind (amounts : List Int) (K : Bytes → Except PyErr Bytes) :
    ((forIn amounts ([] : Bytes) fun (a : Int) (__s : Bytes) => do
        let t4 ← Py.toBytes a (8 : Int) Py.Order.little
        (pure (ForInStep.yield (__s ++ t4)) : Except PyErr (ForInStep Bytes))) >>= K) = (concatM (amounts.map le8) >>= K) := by
  rw [loop_amounts]
  cases concatM (amounts.map le8) with
  | error e => rfl
  | ok b => simp only [Except.map]; rw [ok_bind, ok_bind, List.nil_append]

theorem loop_spks_bind (T : Tables) (spks : List (List Spec.Tok))
    (hs : ∀ s ∈ spks, ∀ b, scriptBytes T s = .ok b → b.length < 2 ^ 64) (K : Bytes → Except PyErr Bytes) :
    ((forIn (spks.map (·.map toPy)) ([] : Bytes) fun (scr : List Py.PyTok) (__s : Bytes) => do
        let t5 ← Gen.script_to_bytes T.opCodes scr
        let t6 ← Gen.prepend_compact_size t5
        (pure (ForInStep.yield (__s ++ t6)) : Except PyErr (ForInStep Bytes))) >>= K) = (concatM (spks.map (spkBytes T)) >>= K) := by
  rw [loop_spks T spks _ hs]
  cases concatM (spks.map (spkBytes T)) with
  | error e => rfl
  | ok b => simp only [Except.map]; rw [ok_bind, ok_bind, List.nil_append]

/-! ## the straight-line blocks, whatever follows them -/

theorem indexL_nat (xs : List Int) (i : Nat) :
    Py.indexL xs (i : Int) = match xs[i]? with | some a => .ok a | none => .error .indexError := by
  unfold Py.indexL
  simp only [show ¬ ((i : Int) < 0) by omega, if_false, Int.toNat_natCast]
  cases xs[i]? <;> rfl

/-- the ANYONECANPAY block as the model orders it -/
def anyM (T : Tables) (t : Tx) (i : Nat) (spks : List (List Spec.Tok)) (amounts : List Int)
    (F : TxIn → Bytes → Bytes → Bytes → Except PyErr Bytes) : Except PyErr Bytes :=
  match t.inputs[i]? with
  | none => .error .indexError
  | some txin => Py.pack "<I" txin.index >>= fun ix =>
    match amounts[i]? with
    | none => .error .indexError
    | some a => le8 a >>= fun ab =>
      match spks[i]? with
      | none => .error .indexError
      | some s => scriptBytes T s >>= fun sb => F txin ix ab (withLen sb)

theorem any_block (T : Tables) (t : Tx) (i : Nat) (spks : List (List Spec.Tok)) (amounts : List Int)
    (hs : ∀ s ∈ spks, ∀ b, scriptBytes T s = .ok b → b.length < 2 ^ 64)
    (K : Py.PyTxIn → Bytes → Bytes → Bytes → Except PyErr Bytes) :
    (do let t11 ← Py.listGet (t.inputs.map inPy) (i : Int)
        let t12 ← Py.pack "<I" t11.txout_index
        let t13 ← Py.indexL amounts (i : Int)
        let t14 ← Py.toBytes t13 (8 : Int) Py.Order.little
        let t15 ← Py.listGet (spks.map (·.map toPy)) (i : Int)
        let t16 ← Gen.script_to_bytes T.opCodes t15
        let t17 ← Gen.prepend_compact_size t16
        K t11 t12 t14 t17) = anyM T t i spks amounts (fun txin ix ab sb => K (inPy txin) ix ab sb) := by
  unfold anyM
  rw [listGet_map]
  cases t.inputs[i]? with
  | none => rfl
  | some txin =>
    simp only []
    rw [ok_bind]
    show (Py.pack "<I" txin.index >>= _) = _
    cases Py.pack "<I" txin.index with
    | error e => rw [error_bind, error_bind]
    | ok ix =>
      conv => lhs; rw [ok_bind]
      conv => rhs; rw [ok_bind]
      rw [indexL_nat]
      cases amounts[i]? with
      | none => rfl
      | some a =>
        simp only []
        rw [ok_bind]
        show (le8 a >>= _) = _
        cases le8 a with
        | error e => rw [error_bind, error_bind]
        | ok ab =>
          conv => lhs; rw [ok_bind]
          conv => rhs; rw [ok_bind]
          rw [listGet_map]
          cases hsi : spks[i]? with
          | none => rfl
          | some s =>
            simp only []
            rw [ok_bind, gen_script_to_bytes]
            cases hb : scriptBytes T s with
            | error e => rw [error_bind, error_bind]
            | ok sb =>
              conv => lhs; rw [ok_bind, C17.prepend_eq_spec sb (hs s (List.mem_of_getElem? hsi) sb hb), ok_bind]
              conv => rhs; rw [ok_bind]

/-- the SINGLE block -/
def singleM (T : Tables) (t : Tx) (i : Nat) (F : Bytes → Bytes → Bytes → Except PyErr Bytes) : Except PyErr Bytes :=
  match t.outputs[i]? with
  | none => .error .indexError
  | some o => Py.pack "<Q" o.amount >>= fun am => scriptBytes T o.script >>= fun sb => F am (compactSize sb.length) sb

theorem single_block (T : Tables) (t : Tx) (i : Nat)
    (ho : ∀ o ∈ t.outputs, ∀ b, scriptBytes T o.script = .ok b → b.length < 2 ^ 64)
    (K : Bytes → Bytes → Bytes → Except PyErr Bytes) :
    (do let t19 ← Py.listGet (t.outputs.map outPy) (i : Int)
        let t20 ← Py.pack "<Q" t19.amount
        let t21 ← Gen.script_to_bytes T.opCodes t19.script_pubkey
        let t22 ← Gen.encode_varint (Py.len t21)
        K t20 t22 t21) = singleM T t i K := by
  unfold singleM
  rw [listGet_map]
  cases hso : t.outputs[i]? with
  | none => rfl
  | some o =>
    simp only []
    rw [ok_bind]
    show (Py.pack "<Q" o.amount >>= _) = _
    cases Py.pack "<Q" o.amount with
    | error e => rw [error_bind, error_bind]
    | ok am =>
      conv => lhs; rw [ok_bind]
      conv => rhs; rw [ok_bind]
      show (Gen.script_to_bytes T.opCodes (o.script.map toPy) >>= _) = _
      rw [gen_script_to_bytes]
      cases hb : scriptBytes T o.script with
      | error e => rw [error_bind, error_bind]
      | ok sb =>
        conv => lhs; rw [ok_bind, len_cast, C17.encode_varint_eq_spec _ (ho o (List.mem_of_getElem? hso) sb hb), ok_bind]
        conv => rhs; rw [ok_bind]

theorem tag_sighash : ([0x54, 0x61, 0x70, 0x53, 0x69, 0x67, 0x68, 0x61, 0x73, 0x68] : Bytes) = "TapSighash".toUTF8.toList := by
  decide +kernel

/-- the script-path extension -/
theorem ext_block (sha256 : Bytes → Bytes) (T : Tables) (leaf : List Spec.Tok)
    (hl : ∀ b, scriptBytes T leaf = .ok b → b.length < 2 ^ 64) (K : Bytes → Bytes → Except PyErr Bytes) :
    (do let t23 ← Py.bytesOfInts [(192 : Int)]
        let t24 ← Gen.script_to_bytes T.opCodes (leaf.map toPy)
        let t25 ← Gen.prepend_compact_size t24
        let t26 ← Gen.utils_tagged_hash sha256 (t23 ++ t25) [0x54, 0x61, 0x70, 0x4c, 0x65, 0x61, 0x66]
        let t27 ← Py.bytesOfInts [(0 : Int)]
        K t26 t27) = (scriptBytes T leaf >>= fun lb => K (taggedHash sha256 "TapLeaf" ([0xc0] ++ withLen lb)) [0x00]) := by
  rw [show Py.bytesOfInts [(192 : Int)] = .ok [0xc0] from rfl, ok_bind, gen_script_to_bytes]
  cases hb : scriptBytes T leaf with
  | error e => rw [error_bind, error_bind]
  | ok lb =>
    conv => lhs; rw [ok_bind, C17.prepend_eq_spec lb (hl lb hb), ok_bind, C08Gen.tag_leaf, C08Gen.gen_tagged_hash, ok_bind,
      show Py.bytesOfInts [(0 : Int)] = .ok [0x00] from rfl, ok_bind]
    conv => rhs; rw [ok_bind]

/-- the final tagged hash (a propositional rewrite, not a definitional one) -/
theorem final_hash (sha256 : Bytes → Bytes) (d : Bytes) :
    Gen.utils_tagged_hash sha256 d [0x54, 0x61, 0x70, 0x53, 0x69, 0x67, 0x68, 0x61, 0x73, 0x68] =
      .ok (taggedHash sha256 "TapSighash" d) := by
  rw [tag_sighash, C08Gen.gen_tagged_hash]

/-! ## the digest -/

/-- `ok_bind` as a propositional rewrite (the definitional one makes the kernel compare continuations) -/
theorem ok_bind_p {α β : Type} (a : α) (f : α → Except PyErr β) : (Except.ok a >>= f) = f a := by rw [ok_bind]
theorem map_bind' {α β γ : Type} (m : Except PyErr α) (p : α → β) (k : β → Except PyErr γ) :
    (m.map p >>= k) = (m >>= fun s => k (p s)) := by
  cases m <;> rfl
theorem land128 (ht : Nat) : Py.land (ht : Int) 128 = ((ht &&& 128 : Nat) : Int) := rfl
theorem land3 (ht : Nat) : Py.land (ht : Int) 3 = ((ht &&& 3 : Nat) : Int) := rfl

/-- **BIP341 signature message**: the translated `get_transaction_taproot_digest` is the model's, for every transaction, index,
spent scripts and amounts, extension flag, leaf script, hash type — and every value of the (overwritten) `leaf_ver` argument;
scripts shorter than 2^64 bytes -/
theorem gen_taproot_digest (sha256 : Bytes → Bytes) (T : Tables) (t : Tx) (i : Nat) (spks : List (List Spec.Tok))
    (amounts : List Int) (ext : Nat) (leaf : List Spec.Tok) (lv : Int) (ht : Nat)
    (hs : ∀ s ∈ spks, ∀ b, scriptBytes T s = .ok b → b.length < 2 ^ 64)
    (ho : ∀ o ∈ t.outputs, ∀ b, scriptBytes T o.script = .ok b → b.length < 2 ^ 64)
    (hl : ∀ b, scriptBytes T leaf = .ok b → b.length < 2 ^ 64) :
    Gen.taproot_digest sha256 T.opCodes t.version (t.inputs.map inPy) (t.outputs.map outPy) t.locktime (i : Int)
      (spks.map (·.map toPy)) amounts (ext : Int) (leaf.map toPy) lv (ht : Int) =
        taprootDigest sha256 T t i spks amounts ext leaf ht := by
  unfold Gen.taproot_digest
  simp only []
  simp only [ext_block sha256 T leaf hl, final_hash, single_block T t i ho, any_block T t i spks amounts hs,
    land128, land3, loop_sequences_bind, loop_amounts_bind, loop_spks_bind T spks hs, C05Gen.loop_outputs, C05Gen.loop_prevouts]
  simp only [show Py.bytesOfInts [(0 : Int)] = .ok [0x00] from rfl, ok_bind]
  simp only [show ∀ n : Nat, ((n : Int) == 128) = (n == 128) from fun n => beq_cast n 128,
    show ∀ n : Nat, ((n : Int) == 3) = (n == 3) from fun n => beq_cast n 3,
    show ∀ n : Nat, ((n : Int) == 2) = (n == 2) from fun n => beq_cast n 2,
    show ∀ n : Nat, ((n : Int) == 1) = (n == 1) from fun n => beq_cast n 1,
    show (ext : Int) * 2 + 0 = ((ext * 2 : Nat) : Int) by omega]
  unfold taprootDigest
  simp only []
  rw [prevouts_model t.inputs default, outputs_model T t.outputs (default, [], []) ho]
  by_cases hA : ht &&& 128 = 128
  · simp only [hA, decide_true, Bool.not_true, Bool.false_eq_true, if_false, if_true, beq_self_eq_true]
    by_cases h3 : ht &&& 3 = 3
    · simp only [h3, beq_self_eq_true, Bool.or_true, Bool.not_true, Bool.false_eq_true, if_false, if_true, or_true, decide_true]
      unfold anyM singleM
      rcases t.inputs[i]? with _ | txin <;> rcases amounts[i]? with _ | a <;> rcases spks[i]? with _ | s <;>
        rcases t.outputs[i]? with _ | o <;>
        simp only [outpointBytes, spkBytes, tapOutBytes, inPy, bind_assoc, pure_bind, pure_eq_ok, List.append_assoc, beq_iff_eq,
          throw_eq_error, error_bind, ok_bind_p, map_bind']
    · by_cases h2 : ht &&& 3 = 2
      · simp only [h2, beq_self_eq_true, Bool.or_true, Bool.true_or, Bool.not_true, Bool.false_eq_true, if_false, if_true, or_true, true_or, decide_true,
          show ((2:Nat) == 3) = false from rfl, show ¬ ((2:Nat) = 3) by decide]
        unfold anyM
        rcases t.inputs[i]? with _ | txin <;> rcases amounts[i]? with _ | a <;> rcases spks[i]? with _ | s <;>
          simp only [outpointBytes, spkBytes, tapOutBytes, inPy, bind_assoc, pure_bind, pure_eq_ok, List.append_assoc, beq_iff_eq,
            throw_eq_error, error_bind, ok_bind_p, map_bind']
      · have c1 : (ht &&& 3 == 3) = false := by simpa using h3
        have c2 : (ht &&& 3 == 2) = false := by simpa using h2
        simp only [c1, c2, h2, h3, Bool.or_false, Bool.not_false, Bool.false_eq_true, if_false, if_true, or_false, decide_false]
        unfold anyM
        rcases t.inputs[i]? with _ | txin <;> rcases amounts[i]? with _ | a <;> rcases spks[i]? with _ | s <;>
          simp only [outpointBytes, spkBytes, tapOutBytes, inPy, bind_assoc, pure_bind, pure_eq_ok, List.append_assoc, beq_iff_eq,
            throw_eq_error, error_bind, ok_bind_p, map_bind', hO]
  · have cA : (ht &&& 128 == 128) = false := by simpa using hA
    simp only [hA, cA, decide_false, Bool.not_false, Bool.false_eq_true, if_false, if_true]
    by_cases h3 : ht &&& 3 = 3
    · simp only [h3, beq_self_eq_true, Bool.or_true, Bool.not_true, Bool.false_eq_true, if_false, if_true, or_true, decide_true]
      unfold singleM
      rcases t.outputs[i]? with _ | o <;>
        simp only [outpointBytes, spkBytes, tapOutBytes, inPy, bind_assoc, pure_bind, pure_eq_ok, List.append_assoc, beq_iff_eq,
          throw_eq_error, error_bind, ok_bind_p, map_bind']
    · by_cases h2 : ht &&& 3 = 2
      · simp only [h2, beq_self_eq_true, Bool.true_or, Bool.not_true, Bool.false_eq_true, if_false, true_or, decide_true,
          show ((2:Nat) == 3) = false from rfl, show ¬ ((2:Nat) = 3) by decide]
        simp only [outpointBytes, spkBytes, inPy, bind_assoc, pure_eq_ok, List.append_assoc, beq_iff_eq,
          throw_eq_error, error_bind, ok_bind_p, map_bind']
      · have c1 : (ht &&& 3 == 3) = false := by simpa using h3
        have c2 : (ht &&& 3 == 2) = false := by simpa using h2
        simp only [c1, c2, h2, h3, Bool.or_false, Bool.not_false, Bool.false_eq_true, if_false, if_true, or_false, decide_false]
        simp only [outpointBytes, spkBytes, inPy, bind_assoc, pure_eq_ok, List.append_assoc, beq_iff_eq,
          throw_eq_error, error_bind, ok_bind_p, map_bind']

/-- **BIP341, end to end**: for a well-formed transaction, spent outputs and leaf script, the key path and the script path, all
seven valid hash types and every index valid for the hash type, the translated digest function run with the generated opcode
dictionary returns the tagged hash of the BIP341 `SigMsg` -/
theorem gen_taproot_digest_eq_bip341 (sha256 : Bytes → Bytes) (t : Tx)
    (h : C01.WFTx C02.genTables t = true) (i : Nat) (hi : i < t.inputs.length)
    (spks : List (List Spec.Tok)) (amounts : List Int)
    (hl1 : spks.length = t.inputs.length) (hl2 : amounts.length = t.inputs.length)
    (hsp : ∀ s ∈ spks, C01.WFScript C02.genTables s = true) (ham : ∀ a ∈ amounts, 0 ≤ a ∧ a < 2 ^ 63)
    (ext : Nat) (he : ext ≤ 1) (leaf : List Spec.Tok) (hleaf : C01.WFScript C02.genTables leaf = true) (lv : Int)
    (ht : Nat) (hht : C05.validHashType ht = true) (hsg : ht &&& 3 = 3 → i < t.outputs.length)
    (hs : ∀ s ∈ spks, ∀ b, scriptBytes C02.genTables s = .ok b → b.length < 2 ^ 64)
    (ho : ∀ o ∈ t.outputs, ∀ b, scriptBytes C02.genTables o.script = .ok b → b.length < 2 ^ 64)
    (hl : ∀ b, scriptBytes C02.genTables leaf = .ok b → b.length < 2 ^ 64) :
    ∃ r sp lf, C01.assembleTx t = some r ∧ C05.assembleSpent spks amounts = some sp ∧ encToks leaf = some lf ∧
      Gen.taproot_digest sha256 Gen.OP_CODES t.version (t.inputs.map inPy) (t.outputs.map outPy) t.locktime (i : Int)
          (spks.map (·.map toPy)) amounts (ext : Int) (leaf.map toPy) lv (ht : Int) =
        .ok (bip341Digest sha256 r i sp ext lf ht) := by
  obtain ⟨r, sp, lf, h1, h2, h3, h4⟩ := C05.taproot_digest_eq_bip341 sha256 C02.genTables C02.tables_ok t h i hi spks amounts hl1 hl2
    hsp ham ext he leaf hleaf ht hht hsg
  exact ⟨r, sp, lf, h1, h2, h3, by rw [← h4]; exact gen_taproot_digest sha256 C02.genTables t i spks amounts ext leaf lv ht hs ho hl⟩

end C05Gen
