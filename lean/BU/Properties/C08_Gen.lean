import BU.Gen.Codec
import BU.Gen.Tables
import BU.Model.Taproot
import BU.Properties.C02_Gen
import BU.Properties.C17
/-!
# C08 (and C20), continuation — the tagged hashes of `utils.py` as *generated* code (tier T)

`utils.tagged_hash`, `tapbranch_tagged_hash` and `tapleaf_tagged_hash` are re-translated from the working
tree on every run (SHA-256 a parameter; a `str` that is only `.encode()`d is the bytes of its UTF-8).  They equal the hand
models `Spec.taggedHash`, `Model.tapbranchHash`, `Model.tapleafHash` that the merkle-path, control-block and
address-commitment theorems of C08 are stated over.
-/
namespace C08Gen
open Py Spec Model C02Gen

theorem bytesLt_eq (a b : Bytes) : Py.bytesLt a b = lexLt a b := by
  induction a generalizing b with
  | nil => cases b <;> rfl
  | cons x xs ih =>
    cases b with
    | nil => rfl
    | cons y ys => simp only [Py.bytesLt, lexLt, ih]

theorem gen_tagged_hash (sha256 : Bytes → Bytes) (data : Bytes) (tag : String) :
    Gen.utils_tagged_hash sha256 data tag.toUTF8.toList = .ok (taggedHash sha256 tag data) := rfl

theorem tag_branch : ([0x54, 0x61, 0x70, 0x42, 0x72, 0x61, 0x6e, 0x63, 0x68] : Bytes) = "TapBranch".toUTF8.toList := by decide +kernel
theorem tag_leaf : ([0x54, 0x61, 0x70, 0x4c, 0x65, 0x61, 0x66] : Bytes) = "TapLeaf".toUTF8.toList := by decide +kernel

/-- the TapBranch hash: children in lexicographic order -/
theorem gen_tapbranch (sha256 : Bytes → Bytes) (a b : Bytes) :
    Gen.tapbranch_tagged_hash sha256 a b = .ok (tapbranchHash sha256 a b) := by
  unfold Gen.tapbranch_tagged_hash tapbranchHash
  rw [bytesLt_eq, tag_branch]
  by_cases h : lexLt a b = true
  · simp only [h, if_true]; rw [gen_tagged_hash]
  · simp only [h, Bool.false_eq_true, if_false]; rw [gen_tagged_hash]

/-- the TapLeaf hash of a script (leaf version 0xc0, CompactSize-prefixed script bytes) -/
theorem gen_tapleaf (sha256 : Bytes → Bytes) (T : Tables) (s : List Spec.Tok)
    (h : ∀ b, scriptBytes T s = .ok b → b.length < 2 ^ 64) :
    Gen.tapleaf_tagged_hash sha256 T.opCodes (s.map toPy) = tapleafHash sha256 T s := by
  unfold Gen.tapleaf_tagged_hash tapleafHash
  rw [show Py.bytesOfInts [(192 : Int)] = .ok [0xc0] from rfl, ok_bind, gen_script_to_bytes]
  cases hs : scriptBytes T s with
  | error e => rw [error_bind, error_bind]
  | ok b =>
    conv => lhs; rw [ok_bind]
    conv => rhs; rw [ok_bind]
    rw [C17.prepend_eq_spec b (h b hs), ok_bind, tag_leaf, gen_tagged_hash]
    rfl

end C08Gen
