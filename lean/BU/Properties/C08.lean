import BU.Py
import BU.Spec.Taproot
import BU.Spec.CurveLaws
import BU.Model.Taproot
import BU.Properties.C02
import BU.Proofs.TaprootLemmas
/-!
# C08 — taproot addresses and control blocks commit to key and script tree per BIP341

M: `Model.merkleRoot`, `Model.traverse`/`merklePath` (with the global leaf counter), `Model.controlBlock`,
`Model.calculateTweak`, `Model.tweakPubkey`, `Model.toTaproot`; Spec: `Spec.STree.root`,
`Spec.taprootOutput`, `Spec.scriptPathCommitment` (BIP341 verifier).
-/
namespace C08
open Py Spec Model Secp TaprootLemmas

/-- leaves left to right -/
def leavesOf : Tree → List (List Tok)
  | .leaf s => [s]
  | .one t => leavesOf t
  | .two l r => leavesOf l ++ leavesOf r

/-- depth of the deepest leaf (length of the longest merkle path) -/
def depth : Tree → Nat
  | .leaf _ => 0
  | .one t => depth t
  | .two l r => max (depth l) (depth r) + 1

/-- the Spec's view of a tree: leaf scripts assembled to bytes (C02) -/
def assembleTree : Tree → Option STree
  | .leaf s => (encToks s).map STree.leaf
  | .one t => (assembleTree t).map STree.one
  | .two l r => do let a ← assembleTree l; let b ← assembleTree r; pure (STree.two a b)

def WFTree (T : Tables) (t : Tree) : Prop := ∀ s ∈ leavesOf t, ∀ tok ∈ s, C02.WFTok T tok = true

theorem WFTree.one {T : Tables} {t : Tree} (h : WFTree T (.one t)) : WFTree T t := h

theorem WFTree.two {T : Tables} {l r : Tree} (h : WFTree T (.two l r)) : WFTree T l ∧ WFTree T r :=
  ⟨fun s hs => h s (by simp [leavesOf, hs]), fun s hs => h s (by simp [leavesOf, hs])⟩

/-- the merkle root is BIP341's: TapLeaf hashes (leaf version 0xc0, CompactSize-prefixed script) joined by
TapBranch hashes of the lexicographically sorted children -/
theorem root_eq_spec (sha256 : Bytes → Bytes) (T : Tables) (hT : C02.TablesOK T = true) (t : Tree) (h : WFTree T t) :
    ∃ st, assembleTree t = some st ∧ merkleRoot sha256 T t = .ok (st.root sha256) := by
  induction t with
  | leaf s =>
    obtain ⟨bs, h1, h2⟩ := C02.assemble T hT s (fun tok ht => h s (by simp [leavesOf]) tok ht)
    refine ⟨.leaf bs, by simp [assembleTree, h2], ?_⟩
    simp only [merkleRoot, tapleafHash, h1, bind, Except.bind, pure, Except.pure, STree.root, tapLeafHash]
  | one t ih =>
    obtain ⟨st, h1, h2⟩ := ih (WFTree.one h)
    exact ⟨.one st, by simp [assembleTree, h1], by simpa [merkleRoot, STree.root] using h2⟩
  | two l r ihl ihr =>
    obtain ⟨sl, hl1, hl2⟩ := ihl (WFTree.two h).1
    obtain ⟨sr, hr1, hr2⟩ := ihr (WFTree.two h).2
    refine ⟨.two sl sr, by simp [assembleTree, hl1, hr1], ?_⟩
    simp only [merkleRoot, hl2, hr2, bind, Except.bind, pure, Except.pure, STree.root, tapbranchHash_eq]

/-! ### the merkle path: invariant of `traverse`, generalised over the starting counter -/

theorem merkleRoot_ok (sha256 : Bytes → Bytes) (T : Tables) (hT : C02.TablesOK T = true) (t : Tree) (h : WFTree T t) :
    ∃ r, merkleRoot sha256 T t = .ok r := by
  obtain ⟨st, _, h2⟩ := root_eq_spec sha256 T hT t h
  exact ⟨_, h2⟩

theorem merkleRoot_length (sha256 : Bytes → Bytes) (hlen : ∀ b, (sha256 b).length = 32) (T : Tables) (t : Tree)
    (r : Bytes) (h : merkleRoot sha256 T t = .ok r) : r.length = 32 := by
  induction t generalizing r with
  | leaf s =>
    simp only [merkleRoot, tapleafHash, bind, Except.bind, pure, Except.pure] at h
    split at h
    · cases h
    · cases h
      exact taggedHash_length sha256 hlen _ _
  | one t ih => exact ih r (by simpa [merkleRoot] using h)
  | two l r' ihl ihr =>
    simp only [merkleRoot, bind, Except.bind, pure, Except.pure] at h
    split at h
    · cases h
    · split at h
      · cases h
      · cases h
        exact tapBranchHash_length sha256 hlen _ _

/-- a subtree that does not contain the target leaf contributes its merkle root -/
theorem traverse_miss (sha256 : Bytes → Bytes) (T : Tables) (hT : C02.TablesOK T = true) (target : Nat)
    (t : Tree) (hw : WFTree T t) (c : Nat) (h : target < c ∨ c + (leavesOf t).length ≤ target) :
    ∃ r, merkleRoot sha256 T t = .ok r ∧
      traverse sha256 T target t c = .ok ((r, false), c + (leavesOf t).length) := by
  induction t generalizing c with
  | leaf s =>
    obtain ⟨r, hr⟩ := merkleRoot_ok sha256 T hT _ hw
    refine ⟨r, hr, ?_⟩
    simp only [leavesOf, List.length_singleton] at h
    have hne : ¬ c = target := by omega
    simp only [merkleRoot] at hr
    simp only [traverse, hne, if_false, hr, bind, Except.bind, pure, Except.pure, leavesOf, List.length_singleton]
  | one t ih =>
    obtain ⟨r, h1, h2⟩ := ih (WFTree.one hw) c (by simpa [leavesOf] using h)
    exact ⟨r, by simpa [merkleRoot] using h1, by simpa [traverse, leavesOf] using h2⟩
  | two l r ihl ihr =>
    simp only [leavesOf, List.length_append] at h
    obtain ⟨a, ha1, ha2⟩ := ihl (WFTree.two hw).1 c (by omega)
    obtain ⟨b, hb1, hb2⟩ := ihr (WFTree.two hw).2 (c + (leavesOf l).length) (by omega)
    refine ⟨tapbranchHash sha256 a b, ?_, ?_⟩
    · simp only [merkleRoot, ha1, hb1, bind, Except.bind, pure, Except.pure]
    · simp only [traverse, ha2, hb2, bind, Except.bind, pure, Except.pure, leavesOf, List.length_append,
        Nat.add_assoc]
      rfl

/-- the subtree that contains the target leaf contributes the concatenated sibling hashes, deepest first -/
theorem traverse_hit (sha256 : Bytes → Bytes) (hlen : ∀ b, (sha256 b).length = 32)
    (T : Tables) (hT : C02.TablesOK T = true) (target : Nat)
    (t : Tree) (hw : WFTree T t) (c : Nat) (h : c ≤ target ∧ target < c + (leavesOf t).length) :
    ∃ path leafBytes root m, traverse sha256 T target t c = .ok ((path, true), c + (leavesOf t).length) ∧
      scriptBytes T ((leavesOf t).getD (target - c) []) = .ok leafBytes ∧ merkleRoot sha256 T t = .ok root ∧
      path.length = 32 * m ∧ m ≤ depth t ∧
      (chunks32 m path).foldl (tapBranchHash sha256) (tapLeafHash sha256 0xc0 leafBytes) = root := by
  induction t generalizing c with
  | leaf s =>
    simp only [leavesOf, List.length_singleton] at h
    have hc : c = target := by omega
    subst hc
    obtain ⟨bs, h1, _⟩ := C02.assemble T hT s (fun tok ht => hw s (by simp [leavesOf]) tok ht)
    refine ⟨[], bs, tapLeafHash sha256 0xc0 bs, 0, ?_, ?_, ?_, rfl, Nat.le_refl _, rfl⟩
    · simp only [traverse, if_true, pure, Except.pure, leavesOf, List.length_singleton]
    · simpa [leavesOf] using h1
    · simp only [merkleRoot, tapleafHash, h1, bind, Except.bind, pure, Except.pure, tapLeafHash]
  | one t ih =>
    obtain ⟨path, lb, root, m, h1, h2, h3, h4, h5, h6⟩ := ih (WFTree.one hw) c (by simpa [leavesOf] using h)
    exact ⟨path, lb, root, m, by simpa [traverse, leavesOf] using h1, by simpa [leavesOf] using h2,
      by simpa [merkleRoot] using h3, h4, by simpa [depth] using h5, h6⟩
  | two l r ihl ihr =>
    simp only [leavesOf, List.length_append] at h
    by_cases hl : target < c + (leavesOf l).length
    · obtain ⟨path, lb, root, m, h1, h2, h3, h4, h5, h6⟩ := ihl (WFTree.two hw).1 c ⟨h.1, hl⟩
      obtain ⟨b, hb1, hb2⟩ := traverse_miss sha256 T hT target r (WFTree.two hw).2 (c + (leavesOf l).length)
        (Or.inl hl)
      have hbl := merkleRoot_length sha256 hlen T r b hb1
      refine ⟨path ++ b, lb, tapBranchHash sha256 root b, m + 1, ?_, ?_, ?_, ?_, ?_, ?_⟩
      · simp only [traverse, h1, hb2, bind, Except.bind, pure, Except.pure, leavesOf, List.length_append,
          Nat.add_assoc]
        rfl
      · have : target - c < (leavesOf l).length := by omega
        simpa [leavesOf, List.getD_eq_getElem?_getD, List.getElem?_append_left this] using h2
      · simp only [merkleRoot, h3, hb1, bind, Except.bind, pure, Except.pure, tapbranchHash_eq]
      · rw [List.length_append, h4, hbl]; omega
      · simp only [depth]; omega
      · rw [chunks32_snoc m path b h4 hbl, List.foldl_append, h6]
        rfl
    · obtain ⟨path, lb, root, m, h1, h2, h3, h4, h5, h6⟩ :=
        ihr (WFTree.two hw).2 (c + (leavesOf l).length) (by omega)
      obtain ⟨a, ha1, ha2⟩ := traverse_miss sha256 T hT target l (WFTree.two hw).1 c (Or.inr (by omega))
      have hal := merkleRoot_length sha256 hlen T l a ha1
      refine ⟨path ++ a, lb, tapBranchHash sha256 a root, m + 1, ?_, ?_, ?_, ?_, ?_, ?_⟩
      · simp only [traverse, h1, ha2, bind, Except.bind, pure, Except.pure, leavesOf, List.length_append,
          Nat.add_assoc]
        rfl
      · have hge : (leavesOf l).length ≤ target - c := by omega
        have e : target - c - (leavesOf l).length = target - (c + (leavesOf l).length) := by omega
        simpa [leavesOf, List.getD_eq_getElem?_getD, List.getElem?_append_right hge, e] using h2
      · simp only [merkleRoot, h3, ha1, bind, Except.bind, pure, Except.pure, tapbranchHash_eq]
      · rw [List.length_append, h4, hal]; omega
      · simp only [depth]; omega
      · rw [chunks32_snoc m path a h4 hal, List.foldl_append, h6]
        exact tapBranchHash_comm sha256 root a

/-- **for every shape, depth and leaf index**: folding TapBranch over the generated path, starting from the
target leaf's TapLeaf hash, gives the merkle root (duplicated leaves allowed) -/
theorem path_folds_to_root (sha256 : Bytes → Bytes) (hlen : ∀ b, (sha256 b).length = 32)
    (T : Tables) (hT : C02.TablesOK T = true) (t : Tree) (h : WFTree T t)
    (k : Nat) (hk : k < (leavesOf t).length) :
    ∃ path leafBytes root, merklePath sha256 T t k = .ok path ∧
      scriptBytes T ((leavesOf t).getD k []) = .ok leafBytes ∧ merkleRoot sha256 T t = .ok root ∧
      path.length % 32 = 0 ∧ path.length / 32 ≤ depth t ∧
      (chunks32 (path.length / 32) path).foldl (tapBranchHash sha256) (tapLeafHash sha256 0xc0 leafBytes) = root := by
  obtain ⟨path, lb, root, m, h1, h2, h3, h4, h5, h6⟩ :=
    traverse_hit sha256 hlen T hT k t h 0 ⟨Nat.zero_le _, by omega⟩
  have e : path.length / 32 = m := by omega
  refine ⟨path, lb, root, ?_, by simpa using h2, h3, by omega, by omega, by rw [e]; exact h6⟩
  simp only [merklePath, h1, bind, Except.bind, pure, Except.pure]

/-- the address commits to `lift_x(P) + H_TapTweak(P ‖ root)·G`: program and parity flag are the BIP341 ones
(`hl`: the internal key is on the curve, i.e. `lift_x` finds it — supplied by `CurveLaws.liftX_mulG` for every
key `d·G`; `ht`: the tweak is below the group order, which fails with probability ≈ 2^-128) -/
theorem address_commits (sha256 : Bytes → Bytes) (T : Tables) (pub : Bytes) (x y : Nat) (hx : x < 2 ^ 256) (hy : y < 2 ^ 256)
    (hpub : pub = beBytes 32 x ++ beBytes 32 y)
    (hl : liftX x = some (x, if y % 2 = 0 then y else p - y))
    (s : Scripts) (q : Bytes) (odd : Bool) (root : Bytes)
    (hr : match s with
          | .none => root = []
          | .root b => root = b
          | .tree t => merkleRoot sha256 T t = .ok root)
    (ht : ofBE (taggedHash sha256 "TapTweak" (beBytes 32 x ++ root)) < n)
    (hq : toTaproot sha256 T pub s = .ok (q, odd)) :
    taprootOutput sha256 (beBytes 32 x) root = some (q, odd) := by
  have htw : calculateTweak sha256 T pub s = .ok (ofBE (taggedHash sha256 "TapTweak" (beBytes 32 x ++ root))) := by
    subst hpub
    cases s with
    | none =>
      simp only at hr
      subst hr
      simp only [calculateTweak, pub_take, List.append_nil, pure, Except.pure]
    | root b =>
      simp only at hr
      subst hr
      simp only [calculateTweak, pub_take, pure, Except.pure]
    | tree t =>
      simp only at hr
      simp only [calculateTweak, hr, pub_take, bind, Except.bind, pure, Except.pure]
  simp only [toTaproot, htw, bind, Except.bind, pure, Except.pure] at hq
  split at hq
  · cases hq
  · rename_i v hv
    obtain ⟨q', odd'⟩ := v
    simp only [Except.ok.injEq, Prod.mk.injEq] at hq
    obtain ⟨qx, qy, hadd, hq1, hq2⟩ := tweakPubkey_ok pub x y hx hy hpub _ q' odd' hv
    have hnt : ¬ ofBE (taggedHash sha256 "TapTweak" (beBytes 32 x ++ root)) ≥ n := by omega
    simp only [taprootOutput, hnt, if_false, ofBE_beBytes 32 x (by rw [pow_eq]; exact hx), hl, hadd]
    rw [← hq.1, ← hq.2, hq1, hq2]

/-- **for every leaf position**: the generated control block lets a BIP341 verifier recompute exactly the
address's witness program and parity from the leaf script -/
theorem control_block_verifies (sha256 : Bytes → Bytes) (hlen : ∀ b, (sha256 b).length = 32)
    (T : Tables) (hT : C02.TablesOK T = true) (pub : Bytes) (x y : Nat) (hx : x < 2 ^ 256) (hy : y < 2 ^ 256)
    (hpub : pub = beBytes 32 x ++ beBytes 32 y)
    (hl : liftX x = some (x, if y % 2 = 0 then y else p - y))
    (t : Tree) (h : WFTree T t) (hd : depth t ≤ 128) (k : Nat) (hk : k < (leavesOf t).length)
    (q : Bytes) (odd : Bool) (root : Bytes) (hroot : merkleRoot sha256 T t = .ok root)
    (ht : ofBE (taggedHash sha256 "TapTweak" (beBytes 32 x ++ root)) < n)
    (hq : toTaproot sha256 T pub (.tree t) = .ok (q, odd)) :
    ∃ cb leafBytes, controlBlock sha256 T pub t k odd = .ok cb ∧
      scriptBytes T ((leavesOf t).getD k []) = .ok leafBytes ∧
      scriptPathCommitment sha256 cb leafBytes = some (q, odd) := by
  obtain ⟨path, lb, root', h1, h2, h3, h4, h5, h6⟩ := path_folds_to_root sha256 hlen T hT t h k hk
  rw [hroot] at h3
  simp only [Except.ok.injEq] at h3
  subst h3
  have hout := address_commits sha256 T pub x y hx hy hpub hl (.tree t) q odd root hroot ht hq
  refine ⟨(if odd then 0xc1 else 0xc0) :: (beBytes 32 x ++ path), lb, ?_, h2, ?_⟩
  · subst hpub
    simp only [controlBlock, h1, pub_take, bind, Except.bind, pure, Except.pure, List.cons_append,
      List.nil_append]
  · rw [scriptPathCommitment_cons sha256 _ (beBytes 32 x) path lb (by simp) (path.length / 32) (by omega) (by omega)]
    cases odd with
    | false =>
      have ev : UInt8.ofNat ((if false = true then (0xc1 : UInt8) else 0xc0).toNat / 2 * 2) = 0xc0 := by decide
      rw [ev, h6, hout]
      rfl
    | true =>
      have ev : UInt8.ofNat ((if true = true then (0xc1 : UInt8) else 0xc0).toNat / 2 * 2) = 0xc0 := by decide
      rw [ev, h6, hout]
      rfl

end C08
