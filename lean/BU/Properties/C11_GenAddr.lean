import BU.Properties.C11_GenTop
import BU.Properties.C11
/-!
# C11, continuation — `SegwitAddress._address_to_hash` and `to_string` as *generated* code (tier T)

The two methods every P2WPKH / P2WSH / P2TR object goes through — from an address string to the witness program, and back — are
re-translated from the working tree on every run: `bitcoinutils.bech32.decode / encode` are the translated functions of bech32.py
(C11_GenTop), the configured network's prefix is a parameter, the object's numeric witness version and its program are the fields
the methods read (`bytes(list)` and `memoryview(b).tolist()` convert between the program and bech32.py's lists of ints).
-/
namespace C11GenAddr
open Py Model Model.Bech32 C11GenTop

theorem ints_of_bytes (prog : Bytes) : Py.intsOfBytes prog = (prog.map (·.toNat)).map Int.ofNat := by
  unfold Py.intsOfBytes; rw [List.map_map]; rfl

/-- `to_string`: the BIP173 / BIP350 encoding of the object's version and program under the network prefix -/
theorem gen_segwit_to_string (hrp : String) (ver : Nat) (hv : ver < 32) (prog : Bytes) :
    Gen.segwit_to_string hrp.toList (ver : Int) prog = .ok ((segwitToString specConsts hrp ver prog).map String.toList) := by
  unfold Gen.segwit_to_string segwitToString
  simp only []
  rw [ints_of_bytes, gen_segwit_encode hrp.toList ver (prog.map (·.toNat)) hv (by
    intro b hb
    rw [List.mem_map] at hb
    obtain ⟨x, _, rfl⟩ := hb
    exact UInt8.toNat_lt x)]
  cases encode specConsts hrp.toList ver (prog.map (·.toNat)) <;> simp [Option.map]

theorem bytesOfInts_nat (p : List Nat) (h : ∀ b ∈ p, b < 256) : Py.bytesOfInts (p.map Int.ofNat) = .ok (p.map UInt8.ofNat) := by
  unfold Py.bytesOfInts
  induction p with
  | nil => rfl
  | cons a t ih =>
    have ha : a < 256 := h a (by simp)
    have c : (0 ≤ Int.ofNat a ∧ Int.ofNat a < 256) := by constructor <;> (simp; try omega)
    rw [List.map_cons, List.mapM_cons, if_pos c, ok_bind, ih (fun b hb => h b (by simp [hb])), ok_bind]
    rfl

/-- `_address_to_hash`: exactly bech32.py's `decode` under the network prefix, the object's version demanded -/
theorem gen_segwit_address_to_hash (hrp addr : List Char) (ver : Nat) :
    Gen.segwit_address_to_hash hrp (ver : Int) addr =
      (match decode specConsts hrp addr with
       | none => .error .valueError
       | some (v, prog) => if v ≠ ver then .error .typeError else Py.bytesOfInts (prog.map Int.ofNat)) := by
  unfold Gen.segwit_address_to_hash
  rw [gen_segwit_decode, ok_bind]
  cases decode specConsts hrp addr with
  | none => rfl
  | some r =>
    obtain ⟨v, p⟩ := r
    simp only [pairOf, Option.isNone, Bool.false_eq_true, if_false, Option.isSome, Bool.not_true, Py.unwrap, ok_bind_p]
    by_cases hv : v = ver
    · subst hv
      simp only [bne_self_eq_false, Bool.false_eq_true, if_false, ne_eq, not_true_eq_false]
    · have c : ((some (v : Int)) != (some (ver : Int))) = true := by
        rw [bne_iff_ne]; intro h; apply hv; exact Int.ofNat.inj (Option.some.inj h)
      simp only [c, if_true, ne_eq, hv, not_false_eq_true]
      rfl

/-- **round trip of the translated methods**: for every valid witness program (v0 with 20 or 32 bytes, v1 with 32 bytes) and every
network prefix of the generated table, the string the translated `to_string` renders is mapped back by the translated
`_address_to_hash` to the identical program -/
theorem gen_segwit_roundtrip (hrp : String) (hh : hrp ∈ Gen.NETWORK_SEGWIT_PREFIXES.map (·.2)) (ver : Nat) (prog : Bytes)
    (hv : C11.validProgram ver prog) :
    ∃ s, Gen.segwit_to_string hrp.toList (ver : Int) prog = .ok (some s) ∧
      Gen.segwit_address_to_hash hrp.toList (ver : Int) s = .ok prog := by
  obtain ⟨l, he, hd⟩ := C11.core hrp hh ver prog hv
  have hver : ver < 32 := by rcases hv with ⟨h, _⟩ | ⟨h, _⟩ <;> omega
  refine ⟨l, ?_, ?_⟩
  · rw [gen_segwit_to_string hrp ver hver prog]
    unfold segwitToString
    rw [he]; simp [Option.map]
  · rw [gen_segwit_address_to_hash, hd]
    simp only [ne_eq, not_true_eq_false, if_false]
    rw [bytesOfInts_nat _ (by
      intro b hb
      rw [List.mem_map] at hb
      obtain ⟨x, _, rfl⟩ := hb
      exact UInt8.toNat_lt x)]
    rw [SegwitLemmas.map_ofNat_toNat]

/-- whatever the translated `_address_to_hash` accepts is a string that bech32.py's `decode` maps to the object's own version: it has
the network prefix, one case, the checksum variant of that version, and a 2..40-byte program -/
theorem gen_segwit_accept_sound (hrp addr : List Char) (ver : Nat) (b : Bytes)
    (h : Gen.segwit_address_to_hash hrp (ver : Int) addr = .ok b) :
    ∃ prog, decode specConsts hrp addr = some (ver, prog) ∧ Py.bytesOfInts (prog.map Int.ofNat) = .ok b ∧
      ∃ data spec, bech32Decode specConsts addr = some (hrp, data, spec) ∧ data.head? = some ver ∧
        (ver = 0 → spec = .bech32) ∧ (ver ≠ 0 → spec = .bech32m) ∧ 2 ≤ prog.length ∧ prog.length ≤ 40 ∧
        ¬ (addr.map lowerC ≠ addr ∧ addr.map upperC ≠ addr) := by
  rw [gen_segwit_address_to_hash] at h
  cases hd : decode specConsts hrp addr with
  | none => rw [hd] at h; cases h
  | some r =>
    obtain ⟨v, p⟩ := r
    rw [hd] at h
    simp only [] at h
    by_cases hv : v = ver
    · subst hv
      simp only [ne_eq, not_true_eq_false, if_false] at h
      obtain ⟨hrpgot, data, spec, hbd, rfl, hhd, _, h0, h1, hl2, hl40, _, hcase⟩ := Bech32Lemmas.decode_sound _ _ _ _ hd
      exact ⟨p, rfl, h, data, spec, hbd, hhd, h0, h1, hl2, hl40, hcase⟩
    · simp only [ne_eq, hv, not_false_eq_true, if_true] at h
      cases h

end C11GenAddr
