import BU.Gen.Codec
import BU.Model.Tx
import BU.Properties.C02_Gen
import BU.Properties.C17
import BU.Properties.C01
/-!
# C01, continuation — the transaction serialisers as *generated* code (tier T)

`TxWitnessInput.to_bytes`, `TxOutput.to_bytes`, `TxInput.to_bytes` and `Transaction.to_bytes` of `bitcoinutils/transactions.py`
are re-translated from the working tree on every run (objects are records of the fields the methods read; a txid is the bytes
its hex string denotes).  Whenever every length that gets a CompactSize prefix is below 2^64 — always, for Python objects — the
generated functions return exactly what the hand model `Model.Tx.toBytes` returns (results and exceptions), the model about
which `C01.encode_eq_wire`, `parse_encode`, `reencode`, `txid_wtxid` and `C16.size / vsize` are proved.
-/
namespace C01Gen
open Py Spec Model Loop C02Gen

def inPy (i : TxIn) : Py.PyTxIn := ⟨i.txid, i.index, i.scriptSig.map toPy, i.sequence⟩
def outPy (o : TxOut) : Py.PyTxOut := ⟨o.amount, o.script.map toPy⟩

/-! ### witness stacks -/

theorem gen_witness (stack : List Bytes) (h : ∀ x ∈ stack, x.length < 2 ^ 64) :
    Gen.txwitness_to_bytes stack = .ok (witnessBytes stack) := by
  unfold Gen.txwitness_to_bytes
  simp only []
  have key := forIn_ok_foldl (fun (s : Bytes × Bytes) => s) (fun (s : Bytes × Bytes) (item : Bytes) => (withLen item, s.2 ++ withLen item))
    (fun item (__s : Bytes × Bytes) => do
      let t1 ← Gen.prepend_compact_size item
      pure (ForInStep.yield (t1, __s.snd ++ t1))) stack
    (by intro a ha s
        rw [C17.prepend_eq_spec a (h a ha)]
        rfl) ([], [])
  rw [key, ok_bind]
  show Except.ok _ = _
  congr 1
  have : ∀ (xs : List Bytes) (a acc : Bytes),
      (xs.foldl (fun (s : Bytes × Bytes) (item : Bytes) => (withLen item, s.2 ++ withLen item)) (a, acc)).2 = acc ++ witnessBytes xs := by
    intro xs
    induction xs with
    | nil => intro a acc; simp [witnessBytes]
    | cons x xs ih => intro a acc; rw [List.foldl_cons, ih]; simp [witnessBytes, List.append_assoc]
  rw [this]
  simp

/-! ### outputs and inputs -/

theorem len_cast (b : Bytes) : Py.len b = ((b.length : Nat) : Int) := rfl

theorem gen_txout (T : Tables) (o : TxOut) (h : ∀ b, scriptBytes T o.script = .ok b → b.length < 2 ^ 64) :
    Gen.txoutput_to_bytes T.opCodes (outPy o).amount (outPy o).script_pubkey = TxOut.toBytes T o := by
  unfold Gen.txoutput_to_bytes TxOut.toBytes outPy
  simp only []
  cases hp : Py.pack "<q" o.amount with
  | error e => rw [error_bind, error_bind]
  | ok am =>
    conv => lhs; rw [ok_bind]
    conv => rhs; rw [ok_bind]
    rw [gen_script_to_bytes]
    cases hs : scriptBytes T o.script with
    | error e => rw [error_bind, error_bind]
    | ok sb =>
      conv => lhs; rw [ok_bind]
      conv => rhs; rw [ok_bind]
      rw [len_cast, C17.encode_varint_eq_spec _ (h sb hs), ok_bind]

/-- the script part of an input: the raw first element for a coinbase input, the assembled scriptSig otherwise -/
def inScript (T : Tables) (i : TxIn) : Except PyErr Bytes :=
  if i.txid = zero32 then
    match i.scriptSig with
    | .data d :: _ => pure d
    | .op _ :: _ => throw PyErr.valueError
    | .int _ :: _ => throw PyErr.typeError
    | [] => throw PyErr.indexError
  else scriptBytes T i.scriptSig

theorem tokIndex_cons_zero (x : Py.PyTok) (xs : List Py.PyTok) : Py.tokIndex (x :: xs) 0 = .ok x := rfl

theorem zero_rep : Py.bytesRepeat [0x00] (32 : Int) = zero32 := by decide

theorem gen_txin (T : Tables) (i : TxIn) (h : ∀ b, inScript T i = .ok b → b.length < 2 ^ 64) :
    Gen.txinput_to_bytes T.opCodes (inPy i).txid (inPy i).txout_index (inPy i).script_sig (inPy i).sequence = TxIn.toBytes T i := by
  unfold Gen.txinput_to_bytes TxIn.toBytes inPy
  simp only []
  cases hp : Py.pack "<L" i.index with
  | error e => rw [error_bind, error_bind]
  | ok ix =>
    conv => lhs; rw [ok_bind]
    conv => rhs; rw [ok_bind]
    rw [zero_rep]
    by_cases hz : i.txid = zero32
    · have hb : (i.txid == zero32) = true := by simp [hz]
      rw [if_pos hb, if_pos hz]
      cases hl : i.scriptSig with
      | nil => rfl
      | cons t ts =>
        cases t with
        | op name => rfl
        | int n => rfl
        | data d =>
          have hd : d.length < 2 ^ 64 := h d (by unfold inScript; rw [if_pos hz, hl]; rfl)
          rw [List.map_cons, tokIndex_cons_zero, ok_bind, show toPy (Spec.Tok.data d) = Py.PyTok.data d from rfl,
            show Py.tokData (Py.PyTok.data d) = Except.ok d from rfl, ok_bind, len_cast, C17.encode_varint_eq_spec _ hd, ok_bind]
          rfl
    · have hb : ¬ ((i.txid == zero32) = true) := by simp [hz]
      rw [if_neg hb, if_neg hz, gen_script_to_bytes]
      cases hs : scriptBytes T i.scriptSig with
      | error e => rw [error_bind, error_bind]
      | ok sb =>
        have hd : sb.length < 2 ^ 64 := h sb (by unfold inScript; rw [if_neg hz, hs])
        conv => lhs; rw [ok_bind]
        conv => rhs; rw [ok_bind]
        rw [len_cast, C17.encode_varint_eq_spec _ hd, ok_bind]

/-! ### the whole transaction -/

/-- every length that receives a CompactSize prefix is below 2^64 -/
def Small (T : Tables) (t : Tx) : Prop :=
  (∀ i ∈ t.inputs, ∀ b, inScript T i = .ok b → b.length < 2 ^ 64) ∧
  (∀ o ∈ t.outputs, ∀ b, scriptBytes T o.script = .ok b → b.length < 2 ^ 64) ∧
  (∀ w ∈ t.witnesses, w.length < 2 ^ 64 ∧ ∀ x ∈ w, x.length < 2 ^ 64) ∧
  t.inputs.length < 2 ^ 64 ∧ t.outputs.length < 2 ^ 64

theorem forIn_congr_mem {α β : Type} (xs : List α) (init : β) (f f' : α → β → Except PyErr (ForInStep β))
    (h : ∀ a ∈ xs, ∀ b, f a b = f' a b) : forIn xs init f = forIn xs init f' := by
  induction xs generalizing init with
  | nil => rfl
  | cons x xs ih =>
    rw [List.forIn_cons, List.forIn_cons, h x (by simp) init]
    congr 1
    funext r
    cases r with
    | done b => rfl
    | yield b => exact ih b (fun a ha b => h a (by simp [ha]) b)

theorem accum_eq_concatM {α : Type} (g : α → Except PyErr Bytes) (xs : List α) : accum g xs = concatM (xs.map g) := by
  induction xs with
  | nil => rfl
  | cons x xs ih => rw [accum, List.map_cons, concatM, ih]

/-- the loop over the inputs (any accumulator) -/
theorem loop_inputs (T : Tables) (ins : List TxIn) (acc : Bytes)
    (hi : ∀ i ∈ ins, ∀ b, inScript T i = .ok b → b.length < 2 ^ 64) :
    (forIn (ins.map inPy) acc fun txin __s => do
        let t3 ← Gen.txinput_to_bytes T.opCodes txin.txid txin.txout_index txin.script_sig txin.sequence
        (pure (ForInStep.yield (__s ++ t3)) : Except PyErr (ForInStep Bytes))) =
      (concatM (ins.map (TxIn.toBytes T))).map (acc ++ ·) := by
  rw [List.forIn_map, ← accum_eq_concatM, ← forIn_append]
  apply forIn_congr_mem
  intro i hmem b
  rw [gen_txin T i (hi i hmem)]

theorem loop_outputs (T : Tables) (outs : List TxOut) (acc : Bytes)
    (ho : ∀ o ∈ outs, ∀ b, scriptBytes T o.script = .ok b → b.length < 2 ^ 64) :
    (forIn (outs.map outPy) acc fun txout __s => do
        let t4 ← Gen.txoutput_to_bytes T.opCodes txout.amount txout.script_pubkey
        (pure (ForInStep.yield (__s ++ t4)) : Except PyErr (ForInStep Bytes))) =
      (concatM (outs.map (TxOut.toBytes T))).map (acc ++ ·) := by
  rw [List.forIn_map, ← accum_eq_concatM, ← forIn_append]
  apply forIn_congr_mem
  intro o hmem b
  rw [gen_txout T o (ho o hmem)]

/-- the body of the witness loop -/
def witBody (witness : Py.PyWit) (__s : Bytes × Bytes) : Except PyErr (ForInStep (Bytes × Bytes)) := do
  let t5 ← Gen.encode_varint ((List.length witness.stack : Nat) : Int)
  let t6 ← Gen.txwitness_to_bytes witness.stack
  pure (ForInStep.yield (t5, __s.snd ++ t5 ++ t6))

theorem witBody_ok (w : List Bytes) (s : Bytes × Bytes) (hl : w.length < 2 ^ 64) (hx : ∀ x ∈ w, x.length < 2 ^ 64) :
    witBody ⟨w⟩ s = .ok (.yield (compactSize w.length, s.2 ++ compactSize w.length ++ witnessBytes w)) := by
  unfold witBody
  rw [C17.encode_varint_eq_spec _ hl, ok_bind, gen_witness w hx, ok_bind]
  rfl

theorem loop_witnesses (ws : List (List Bytes)) (c acc : Bytes)
    (hw : ∀ w ∈ ws, w.length < 2 ^ 64 ∧ ∀ x ∈ w, x.length < 2 ^ 64) :
    ∃ c', forIn (ws.map Py.PyWit.mk) (c, acc) witBody =
      .ok (c', acc ++ ws.flatMap (fun (w : List Bytes) => compactSize w.length ++ witnessBytes w)) := by
  induction ws generalizing c acc with
  | nil => exact ⟨c, by simp [pure, Except.pure]⟩
  | cons w ws ih =>
    obtain ⟨hl, hx⟩ := hw w (by simp)
    obtain ⟨c', hc'⟩ := ih (compactSize w.length) (acc ++ compactSize w.length ++ witnessBytes w)
      (fun w' hw' => hw w' (by simp [hw']))
    refine ⟨c', ?_⟩
    rw [List.map_cons, List.forIn_cons, witBody_ok w (c, acc) hl hx, ok_bind]
    show forIn (ws.map Py.PyWit.mk) (compactSize w.length, acc ++ compactSize w.length ++ witnessBytes w) witBody = _
    rw [hc']
    simp [List.append_assoc]

theorem gen_transaction_to_bytes (T : Tables) (t : Tx) (seg : Bool) (h : Small T t) :
    Gen.transaction_to_bytes T.opCodes t.version (t.inputs.map inPy) (t.outputs.map outPy) (t.witnesses.map Py.PyWit.mk)
      t.locktime seg = Tx.toBytes T t seg := by
  obtain ⟨hi, ho, hw, hni, hno⟩ := h
  unfold Gen.transaction_to_bytes Tx.toBytes
  cases seg with
  | false =>
    simp only [Bool.false_eq_true, if_false, List.length_map]
    rw [C17.encode_varint_eq_spec _ hni, ok_bind, C17.encode_varint_eq_spec _ hno, ok_bind, loop_inputs T t.inputs _ hi]
    cases concatM (t.inputs.map (TxIn.toBytes T)) with
    | error e => rfl
    | ok a =>
      simp only [Except.map, ok_bind]
      rw [loop_outputs T t.outputs _ ho]
      cases concatM (t.outputs.map (TxOut.toBytes T)) with
      | error e => rfl
      | ok b => simp [Except.map, ok_bind, pure, Except.pure, List.append_assoc]
  | true =>
    simp only [if_true, List.length_map]
    rw [C17.encode_varint_eq_spec _ hni, ok_bind, C17.encode_varint_eq_spec _ hno, ok_bind, loop_inputs T t.inputs _ hi]
    cases concatM (t.inputs.map (TxIn.toBytes T)) with
    | error e => rfl
    | ok a =>
      simp only [Except.map, ok_bind]
      rw [loop_outputs T t.outputs _ ho]
      cases concatM (t.outputs.map (TxOut.toBytes T)) with
      | error e => rfl
      | ok b =>
        simp only [Except.map, ok_bind]
        obtain ⟨c', hc'⟩ := loop_witnesses t.witnesses [] (t.version ++ [0] ++ [1] ++ compactSize t.inputs.length ++ a ++ compactSize t.outputs.length ++ b) hw
        show (forIn (t.witnesses.map Py.PyWit.mk) ([], _) witBody >>= _) = _
        rw [hc', ok_bind]
        simp [pure, Except.pure, List.append_assoc]

/-- **wire format, end to end**: for a well-formed transaction whose prefixed lengths are below 2^64 the translated
`Transaction.to_bytes`, run with the generated opcode dictionary, returns the consensus wire encoding (legacy, or BIP144 with
marker, flag and one witness stack per input) -/
theorem gen_encode_eq_wire (t : Tx) (h : C01.WFTx C02.genTables t = true) (hs : Small C02.genTables t) (seg : Bool) :
    ∃ r, C01.assembleTx t = some r ∧
      Gen.transaction_to_bytes Gen.OP_CODES t.version (t.inputs.map inPy) (t.outputs.map outPy) (t.witnesses.map Py.PyWit.mk)
        t.locktime seg = .ok (encodeTx r seg) := by
  obtain ⟨r, h1, h2⟩ := C01.encode_eq_wire C02.genTables C02.tables_ok t h seg
  exact ⟨r, h1, by rw [← h2]; exact gen_transaction_to_bytes C02.genTables t seg hs⟩

end C01Gen
