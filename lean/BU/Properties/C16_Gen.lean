import BU.Gen.Codec
import BU.Properties.C01_Gen
import BU.Properties.C16
/-!
# C16, continuation — `get_size` / `get_vsize` as *generated* code (tier T)

Both methods are re-translated from the working tree on every run.  `get_vsize` re-serialises the witnesses in a loop of its own,
subtracts marker and witness bytes from `get_size()`, adds them back divided by four — a *true* division, which Python computes in
binary64 — and takes `math.ceil`.  The translator keeps `a + b / 4` as the exact fraction `(4a + b) / 4` (`Py.ceilDiv`), which is
what binary64 yields for sizes below 2^51 (C16's recorded assumption, exercised by the correspondence run).  For every
transaction whose prefixed lengths are below 2^64 the generated functions return what the hand model `Model.Tx.size` / `vsize`
returns — the model about which `C16.size_eq`, `vsize_eq` (= BIP141's ceil((3·stripped + full) / 4)) are proved.
-/
set_option linter.unusedSimpArgs false
namespace C16Gen
open Py Spec Model Loop C02Gen C01Gen

theorem gen_get_size (T : Tables) (t : Tx) (h : Small T t) :
    Gen.transaction_get_size T.opCodes t.version (t.inputs.map inPy) (t.outputs.map outPy) (t.witnesses.map Py.PyWit.mk)
      t.locktime t.hasSegwit = (Tx.size T t).map fun n => (n : Int) := by
  unfold Gen.transaction_get_size Tx.size
  rw [gen_transaction_to_bytes T t t.hasSegwit h]
  cases Tx.toBytes T t t.hasSegwit <;> rfl

theorem ceil_quarter (s m : Int) (hm : 0 ≤ m) : Py.ceilDiv (s * 4 + m) 4 = s + (m + 3) / 4 := by
  unfold Py.ceilDiv
  omega

/-- with the segwit flag the full serialisation contains the marker and the witness bytes -/
theorem size_ge (T : Tables) (t : Tx) (n : Nat) (hseg : t.hasSegwit = true) (h : Tx.size T t = .ok n) :
    2 + (t.witnesses.flatMap (fun w => compactSize w.length ++ witnessBytes w)).length ≤ n := by
  unfold Tx.size Tx.toBytes at h
  rw [hseg] at h
  cases hi : concatM (t.inputs.map (TxIn.toBytes T)) with
  | error e => simp [hi, bind, Except.bind] at h
  | ok ins =>
    cases ho : concatM (t.outputs.map (TxOut.toBytes T)) with
    | error e => simp [hi, ho, bind, Except.bind] at h
    | ok outs =>
      simp only [hi, ho, bind, Except.bind, pure, Except.pure, if_true] at h
      have := Except.ok.inj h
      simp only [List.length_append, List.length_cons, List.length_nil] at this
      omega

theorem gen_get_vsize (T : Tables) (t : Tx) (h : Small T t) :
    Gen.transaction_get_vsize T.opCodes t.version (t.inputs.map inPy) (t.outputs.map outPy) (t.witnesses.map Py.PyWit.mk)
      t.locktime t.hasSegwit = (Tx.vsize T t).map fun n => (n : Int) := by
  unfold Gen.transaction_get_vsize
  simp only []
  cases hseg : t.hasSegwit with
  | false =>
    simp only [Bool.not_false, if_true]
    have := gen_get_size T t h
    rw [hseg] at this
    rw [this, C16.vsize_legacy T t hseg]
  | true =>
    simp only [Bool.not_true, Bool.false_eq_true, if_false]
    obtain ⟨c', hc'⟩ := loop_witnesses t.witnesses [] [] h.2.2.1
    unfold witBody at hc'
    rw [hc', ok_bind]
    simp only []
    have hs := gen_get_size T t h
    rw [hseg] at hs
    rw [hs]
    unfold Tx.vsize
    cases hsz : Tx.size T t with
    | error e => rfl
    | ok n =>
      have hge := size_ge T t n hseg hsz
      generalize (List.flatMap (fun (w : List Bytes) => compactSize w.length ++ witnessBytes w) t.witnesses) = W at hge ⊢
      simp only [Except.map, pure, Except.pure, hseg, Bool.not_true, Bool.false_eq_true, if_false, List.nil_append, Py.len, bind,
        Except.bind]
      refine congrArg Except.ok ?_
      rw [ceil_quarter _ _ (by omega)]
      omega

/-- **BIP141, end to end**: for every transaction whose serialisations succeed, the translated `get_vsize` returns
ceil((3 · stripped size + full size) / 4) and the translated `get_size` the length of the full serialisation -/
theorem gen_vsize_bip141 (T : Tables) (t : Tx) (h : Small T t) (s f : Bytes)
    (hs : t.toBytes T false = .ok s) (hf : t.toBytes T t.hasSegwit = .ok f) :
    Gen.transaction_get_size T.opCodes t.version (t.inputs.map inPy) (t.outputs.map outPy) (t.witnesses.map Py.PyWit.mk)
      t.locktime t.hasSegwit = .ok (f.length : Int) ∧
    Gen.transaction_get_vsize T.opCodes t.version (t.inputs.map inPy) (t.outputs.map outPy) (t.witnesses.map Py.PyWit.mk)
      t.locktime t.hasSegwit = .ok (((3 * s.length + f.length + 3) / 4 : Nat) : Int) := by
  rw [gen_get_size T t h, gen_get_vsize T t h, C16.size_eq T t f hf, C16.vsize_eq T t s f hs hf]
  exact ⟨rfl, rfl⟩

end C16Gen
