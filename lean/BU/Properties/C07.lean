import BU.Py
import BU.Spec.Bip340
import BU.Spec.Taproot
import BU.Spec.CurveLaws
import BU.Model.Taproot
import BU.Proofs.SchnorrLemmas
import BU.Proofs.CurveLawsFinal
/-!
# C07 — taproot Schnorr signatures verify for the committed output key or leaf key

M: `Model.signTaproot` (`_sign_taproot_input`), `Model.tweakPrivkey`, `Model.tweakPubkey`, `Model.calculateTweak`.
The group-theoretic content rests on the explicit hypothesis `CurveLaws`.
-/
namespace C07
open Py Spec Model Secp SchnorrLemmas
set_option linter.unusedVariables false

/-! ### helper lemmas -/

theorem take32_append (a b : Bytes) (h : a.length = 32) : (a ++ b).take 32 = a := List.take_left' h
theorem drop32_append (a b : Bytes) (h : a.length = 32) : (a ++ b).drop 32 = b := List.drop_left' h

/-- what a successful `tweak_taproot_pubkey` computed -/
theorem tweakPubkey_inv (x y t : Nat) (hx : x < 2 ^ 256) (hy : y < 2 ^ 256) (q : Bytes) (odd : Bool)
    (hq : tweakPubkey (beBytes 32 x ++ beBytes 32 y) t = .ok (q, odd)) :
    ∃ qx qy, add (some (x, if y % 2 ≠ 0 then p - y else y)) (mul G t) = some (qx, qy) ∧
      odd = decide (qy % 2 ≠ 0) ∧ q.take 32 = beBytes 32 qx := by
  unfold tweakPubkey at hq
  rw [take32_append _ _ (beBytes_length 32 x), drop32_append _ _ (beBytes_length 32 x),
    ofBE_beBytes32 x hx, ofBE_beBytes32 y hy] at hq
  simp only [bind, Except.bind, pure, Except.pure, throw, throwThe, MonadExceptOf.throw] at hq
  split at hq
  · cases hq
  rename_i qx qy hA
  split at hq
  · cases hq
  rename_i a ha
  split at hq
  · cases hq
  rename_i b hb
  obtain ⟨_, rfl⟩ := toBytes32_eq_ok _ _ ha
  injection hq with hq
  injection hq with hq1 hq2
  refine ⟨qx, qy, hA, hq2.symm, ?_⟩
  rw [← hq1, take32_append _ _ (beBytes_length 32 qx)]

theorem fullPubkeyGen_ok (d x y : Nat) (hd : 1 ≤ d ∧ d < n) (hP : mul G d = some (x, y))
    (hx : x < 2 ^ 256) (hy : y < 2 ^ 256) :
    fullPubkeyGen (beBytes 32 d) = .ok (beBytes 32 x ++ beBytes 32 y) := by
  have hn := n_lt
  unfold fullPubkeyGen
  rw [ofBE_beBytes32 d (by omega)]
  simp only [bind, Except.bind, pure, Except.pure, throw, throwThe, MonadExceptOf.throw]
  have c : ¬ (!decide (1 ≤ d ∧ d ≤ n - 1)) = true := by simp; omega
  rw [if_neg c]
  simp only [hP]
  rw [bytesFromInt_ok x hx, bytesFromInt_ok y hy]

theorem tweakPrivkey_ok (d x y t : Nat) (hd : 1 ≤ d ∧ d < n) (hP : mul G d = some (x, y))
    (hx : x < 2 ^ 256) (hy : y < 2 ^ 256) :
    tweakPrivkey (beBytes 32 d) t = .ok (beBytes 32 ((dOf d y + t) % n)) := by
  have hn := n_lt
  unfold tweakPrivkey
  rw [fullPubkeyGen_ok d x y hd hP hx hy]
  simp only [bind, Except.bind]
  rw [drop32_append _ _ (beBytes_length 32 x), ofBE_beBytes32 y hy, ofBE_beBytes32 d (by omega)]
  have e : (if y % 2 = 0 then d else n - d) = dOf d y := by
    unfold dOf; by_cases h : y % 2 = 0 <;> simp [h]
  rw [e]
  exact toBytes32_ok _ (Nat.lt_trans (Nat.mod_lt _ n_pos) n_lt)

/-- whatever the y-parity of the internal key `d·G` or of the tweaked key: the secret that the signer
derives (`tweak_taproot_privkey`) is the discrete log of the point whose x coordinate the address commits
to (`tweak_taproot_pubkey`) — negate-then-add on scalars agrees with lift-then-add on points -/
theorem keypath_key_matches (laws : CurveLaws) (d : Nat) (hd : 1 ≤ d ∧ d < n) (t : Nat) (ht : t < 2 ^ 256)
    (x y : Nat) (hP : mul G d = some (x, y))
    (q : Bytes) (odd : Bool) (hq : tweakPubkey (beBytes 32 x ++ beBytes 32 y) t = .ok (q, odd)) :
    ∃ d', tweakPrivkey (beBytes 32 d) t = .ok (beBytes 32 d') ∧ d' < n ∧
      ∃ qx qy, mul G d' = some (qx, qy) ∧ q.take 32 = beBytes 32 qx ∧ odd = (qy % 2 ≠ 0) := by
  have hp := p_lt
  obtain ⟨hxp, hy0, hyp⟩ := laws.coords d x y hP
  have hx : x < 2 ^ 256 := by omega
  have hy : y < 2 ^ 256 := by omega
  obtain ⟨qx, qy, hA, hodd, hqx⟩ := tweakPubkey_inv x y t hx hy q odd hq
  obtain ⟨_, hdn, hdG, _, _⟩ := evenize laws d (by omega) hd.2 x y hP
  refine ⟨(dOf d y + t) % n, tweakPrivkey_ok d x y t hd hP hx hy, Nat.mod_lt _ n_pos, qx, qy, ?_, hqx, by rw [hodd]; simp⟩
  have e : (if y % 2 ≠ 0 then p - y else y) = (if y % 2 = 0 then y else p - y) := by
    by_cases h : y % 2 = 0 <;> simp [h]
  rw [e, ← hdG, laws.mulG_mod t ht, laws.add_mulG _ _ hdn (Nat.mod_lt _ n_pos), Nat.add_mod_mod] at hA
  exact hA

theorem calculateTweak_lt (sha256 : Bytes → Bytes) (hlen : ∀ b, (sha256 b).length = 32) (T : Tables)
    (pub : Bytes) (s : Scripts) (tw : Nat) (h : calculateTweak sha256 T pub s = .ok tw) : tw < 2 ^ 256 := by
  have key : ∀ tag d, ofBE (taggedHash sha256 tag d) < 2 ^ 256 := fun tag d =>
    ofBE_lt32 _ (by unfold taggedHash; exact hlen _)
  cases s with
  | none =>
    simp only [calculateTweak, pure, Except.pure] at h
    injection h with h; rw [← h]; exact key _ _
  | root b =>
    simp only [calculateTweak, pure, Except.pure] at h
    injection h with h; rw [← h]; exact key _ _
  | tree t =>
    simp only [calculateTweak, bind, Except.bind, pure, Except.pure] at h
    split at h
    · cases h
    injection h with h; rw [← h]; exact key _ _

/-- what a successful `_sign_taproot_input` went through -/
theorem signTaproot_inv (sha256 : Bytes → Bytes) (T : Tables) (priv pub digest : Bytes) (ht : Nat)
    (s : Scripts) (tw : Bool) (sig : Bytes)
    (hs : signTaproot sha256 T priv pub digest ht s tw = .ok sig) :
    ∃ key sig0, (if tw then (calculateTweak sha256 T pub s >>= fun t => tweakPrivkey priv t) else pure priv) = .ok key ∧
      schnorrSign sha256 digest key (sha256 (digest ++ key)) = .ok sig0 ∧ sig0.length = 64 ∧
      ((ht = 0 ∧ sig = sig0) ∨ (ht ≠ 0 ∧ ht < 256 ∧ sig = sig0 ++ [UInt8.ofNat ht])) := by
  have e : signTaproot sha256 T priv pub digest ht s tw =
      ((if tw then (calculateTweak sha256 T pub s >>= fun t => tweakPrivkey priv t) else pure priv) >>= fun key =>
        schnorrSign sha256 digest key (sha256 (digest ++ key)) >>= fun sig0 =>
          if ht ≠ 0 then (Py.toBytes ht 1 .big >>= fun b => pure (sig0 ++ b)) else pure sig0) := by
    cases tw <;> rfl
  rw [e] at hs
  cases hkey : (if tw then (calculateTweak sha256 T pub s >>= fun t => tweakPrivkey priv t) else pure priv) with
  | error err => rw [hkey] at hs; cases hs
  | ok key =>
  rw [hkey] at hs
  simp only [bind, Except.bind, pure, Except.pure] at hs
  split at hs
  · cases hs
  rename_i sig0 hsig0
  refine ⟨key, sig0, rfl, hsig0, ?_, ?_⟩
  · obtain ⟨_, _, _, _, _, _, _, _, _, _, _, _, _, h, _⟩ := sign_ok_inv _ _ _ _ _ hsig0
    rw [h]; exact sigOf_length ..
  · by_cases h0 : ht = 0
    · left
      rw [if_neg (by simpa using h0)] at hs
      injection hs with hs
      exact ⟨h0, hs.symm⟩
    · right
      rw [if_pos h0] at hs
      split at hs
      · cases hs
      rename_i b hb
      injection hs with hs
      unfold Py.toBytes at hb
      split at hb
      · cases hb
      split at hb
      · cases hb
      rename_i hlt
      have hlt' : ht < 256 := by
        have e : (256 : Nat) ^ (1 : Int).toNat = 256 := rfl
        rw [e] at hlt
        simp at hlt; exact hlt
      injection hb with hb
      refine ⟨h0, hlt', ?_⟩
      rw [← hs, ← hb]
      have e : (1 : Int).toNat = 1 := rfl
      simp [e, beBytes, leBytes, Nat.mod_eq_of_lt hlt']

theorem take64 (a b : Bytes) (h : a.length = 64) : (a ++ b).take 64 = a := List.take_left' h

/-- a key-path signature (tweak = true) for any script tree / raw root / nothing is a valid BIP340
signature under the digest for exactly the output key the address commits to -/
theorem keypath_sig_verifies (laws : CurveLaws) (sha256 : Bytes → Bytes) (hlen : ∀ b, (sha256 b).length = 32)
    (T : Tables) (d : Nat) (hd : 1 ≤ d ∧ d < n) (x y : Nat) (hP : mul G d = some (x, y))
    (s : Scripts) (digest : Bytes) (ht : Nat) (sig : Bytes) (q : Bytes) (odd : Bool)
    (hq : toTaproot sha256 T (beBytes 32 x ++ beBytes 32 y) s = .ok (q, odd))
    (hs : signTaproot sha256 T (beBytes 32 d) (beBytes 32 x ++ beBytes 32 y) digest ht s true = .ok sig) :
    bip340Verify sha256 digest q (sig.take 64) = true := by
  have hn := n_lt
  obtain ⟨key, sig0, hkey, hsign, hl, hsig⟩ := signTaproot_inv sha256 T _ _ digest ht s true sig hs
  have hsig0 : sig.take 64 = sig0 := by
    rcases hsig with ⟨_, h⟩ | ⟨_, _, h⟩
    · rw [h]; exact List.take_of_length_le (by omega)
    · rw [h]; exact take64 _ _ hl
  rw [hsig0]
  unfold toTaproot at hq
  simp only [if_true, bind, Except.bind, pure, Except.pure] at hkey hq
  split at hq
  · cases hq
  rename_i tw htw
  rw [htw] at hkey
  simp only [] at hkey
  split at hq
  · cases hq
  rename_i qo hqo
  have hq1 : qo.1.take 32 = q := (Prod.mk.inj (Except.ok.inj hq)).1
  have htw2 := calculateTweak_lt sha256 hlen T _ s tw htw
  obtain ⟨d', hd', hd'n, qx, qy, hG, hqx, _⟩ := keypath_key_matches laws d hd tw htw2 x y hP qo.1 qo.2 hqo
  rw [hd'] at hkey
  replace hkey := Except.ok.inj hkey
  obtain ⟨x', y', hG', hv⟩ := sign_ok_verifies sha256 hlen digest key _ sig0 hsign
  rw [← hkey, ofBE_beBytes32 d' (by omega), hG] at hG'
  have hx' : qx = x' := (Prod.mk.inj (Option.some.inj hG')).1
  rw [← hq1, hqx, hx']
  exact hv

/-- a script-path signature (no tweak) verifies under the signer's x-only key -/
theorem scriptpath_sig_verifies (sha256 : Bytes → Bytes) (hlen : ∀ b, (sha256 b).length = 32)
    (T : Tables) (priv pub : Bytes) (s : Scripts) (digest : Bytes) (ht : Nat) (sig : Bytes)
    (hs : signTaproot sha256 T priv pub digest ht s false = .ok sig) :
    ∃ x y, mul G (ofBE priv) = some (x, y) ∧ bip340Verify sha256 digest (beBytes 32 x) (sig.take 64) = true := by
  obtain ⟨key, sig0, hkey, hsign, hl, hsig⟩ := signTaproot_inv sha256 T _ _ digest ht s false sig hs
  have hsig0 : sig.take 64 = sig0 := by
    rcases hsig with ⟨_, h⟩ | ⟨_, _, h⟩
    · rw [h]; exact List.take_of_length_le (by omega)
    · rw [h]; exact take64 _ _ hl
  rw [hsig0]
  simp only [Bool.false_eq_true, if_false, pure, Except.pure] at hkey
  injection hkey with hkey
  subst hkey
  exact sign_ok_verifies sha256 hlen digest priv _ sig0 hsign

/-- 64 bytes for the default hash type, 65 bytes ending in the hash type otherwise -/
theorem sig_length (sha256 : Bytes → Bytes) (hlen : ∀ b, (sha256 b).length = 32)
    (T : Tables) (priv pub : Bytes) (s : Scripts) (digest : Bytes) (ht : Nat) (tw : Bool) (sig : Bytes)
    (hs : signTaproot sha256 T priv pub digest ht s tw = .ok sig) :
    (ht = 0 → sig.length = 64) ∧ (ht ≠ 0 → sig.length = 65 ∧ ht < 256 ∧ sig.getLast? = some (UInt8.ofNat ht)) := by
  obtain ⟨key, sig0, _, _, hl, hsig⟩ := signTaproot_inv sha256 T _ _ digest ht s tw sig hs
  rcases hsig with ⟨h0, h⟩ | ⟨h0, hlt, h⟩
  · exact ⟨fun _ => by rw [h]; exact hl, fun h1 => absurd h0 h1⟩
  · refine ⟨fun h1 => absurd h1 h0, fun _ => ⟨?_, hlt, ?_⟩⟩
    · rw [h]; simp [hl]
    · rw [h]; simp

/-! ### without hypotheses: `CurveLaws` is proved (`BU/Proofs/CurveLawsFinal.lean`) -/

theorem keypath_key_matches_unconditional (d : Nat) (hd : 1 ≤ d ∧ d < n) (t : Nat) (ht : t < 2 ^ 256)
    (x y : Nat) (hP : mul G d = some (x, y))
    (q : Bytes) (odd : Bool) (hq : tweakPubkey (beBytes 32 x ++ beBytes 32 y) t = .ok (q, odd)) :
    ∃ d', tweakPrivkey (beBytes 32 d) t = .ok (beBytes 32 d') ∧ d' < n ∧
      ∃ qx qy, mul G d' = some (qx, qy) ∧ q.take 32 = beBytes 32 qx ∧ odd = (qy % 2 ≠ 0) :=
  keypath_key_matches CurveLawsFinal.curveLaws d hd t ht x y hP q odd hq

theorem keypath_sig_verifies_unconditional (sha256 : Bytes → Bytes) (hlen : ∀ b, (sha256 b).length = 32)
    (T : Tables) (d : Nat) (hd : 1 ≤ d ∧ d < n) (x y : Nat) (hP : mul G d = some (x, y))
    (s : Scripts) (digest : Bytes) (ht : Nat) (sig : Bytes) (q : Bytes) (odd : Bool)
    (hq : toTaproot sha256 T (beBytes 32 x ++ beBytes 32 y) s = .ok (q, odd))
    (hs : signTaproot sha256 T (beBytes 32 d) (beBytes 32 x ++ beBytes 32 y) digest ht s true = .ok sig) :
    bip340Verify sha256 digest q (sig.take 64) = true :=
  keypath_sig_verifies CurveLawsFinal.curveLaws sha256 hlen T d hd x y hP s digest ht sig q odd hq hs

end C07
