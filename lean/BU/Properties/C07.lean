import BU.Py
import BU.Spec.Bip340
import BU.Spec.Taproot
import BU.Spec.CurveLaws
import BU.Model.Taproot
import BU.Properties.C20
/-!
# C07 — taproot Schnorr signatures verify for the committed output key or leaf key

M: `Model.signTaproot` (`_sign_taproot_input`), `Model.tweakPrivkey`, `Model.tweakPubkey`, `Model.calculateTweak`.
The group-theoretic content rests on the explicit hypothesis `CurveLaws`.
-/
namespace C07
open Py Spec Model Secp

/-- whatever the y-parity of the internal key `d·G` or of the tweaked key: the secret that the signer
derives (`tweak_taproot_privkey`) is the discrete log of the point whose x coordinate the address commits
to (`tweak_taproot_pubkey`) — negate-then-add on scalars agrees with lift-then-add on points -/
theorem keypath_key_matches (laws : CurveLaws) (d : Nat) (hd : 1 ≤ d ∧ d < n) (t : Nat) (ht : t < 2 ^ 256)
    (x y : Nat) (hP : mul G d = some (x, y))
    (q : Bytes) (odd : Bool) (hq : tweakPubkey (beBytes 32 x ++ beBytes 32 y) t = .ok (q, odd)) :
    ∃ d', tweakPrivkey (beBytes 32 d) t = .ok (beBytes 32 d') ∧ d' < n ∧
      ∃ qx qy, mul G d' = some (qx, qy) ∧ q.take 32 = beBytes 32 qx ∧ odd = (qy % 2 ≠ 0) := by
  sorry

/-- a key-path signature (tweak = true) for any script tree / raw root / nothing is a valid BIP340
signature under the digest for exactly the output key the address commits to -/
theorem keypath_sig_verifies (laws : CurveLaws) (sha256 : Bytes → Bytes) (hlen : ∀ b, (sha256 b).length = 32)
    (T : Tables) (d : Nat) (hd : 1 ≤ d ∧ d < n) (x y : Nat) (hP : mul G d = some (x, y))
    (s : Scripts) (digest : Bytes) (ht : Nat) (sig : Bytes) (q : Bytes) (odd : Bool)
    (hq : toTaproot sha256 T (beBytes 32 x ++ beBytes 32 y) s = .ok (q, odd))
    (hs : signTaproot sha256 T (beBytes 32 d) (beBytes 32 x ++ beBytes 32 y) digest ht s true = .ok sig) :
    bip340Verify sha256 digest q (sig.take 64) = true := by
  sorry

/-- a script-path signature (no tweak) verifies under the signer's x-only key -/
theorem scriptpath_sig_verifies (sha256 : Bytes → Bytes) (hlen : ∀ b, (sha256 b).length = 32)
    (T : Tables) (priv pub : Bytes) (s : Scripts) (digest : Bytes) (ht : Nat) (sig : Bytes)
    (hs : signTaproot sha256 T priv pub digest ht s false = .ok sig) :
    ∃ x y, mul G (ofBE priv) = some (x, y) ∧ bip340Verify sha256 digest (beBytes 32 x) (sig.take 64) = true := by
  sorry

/-- 64 bytes for the default hash type, 65 bytes ending in the hash type otherwise -/
theorem sig_length (sha256 : Bytes → Bytes) (hlen : ∀ b, (sha256 b).length = 32)
    (T : Tables) (priv pub : Bytes) (s : Scripts) (digest : Bytes) (ht : Nat) (tw : Bool) (sig : Bytes)
    (hs : signTaproot sha256 T priv pub digest ht s tw = .ok sig) :
    (ht = 0 → sig.length = 64) ∧ (ht ≠ 0 → sig.length = 65 ∧ ht < 256 ∧ sig.getLast? = some (UInt8.ofNat ht)) := by
  sorry

end C07
