import BU.Py
import BU.Gen.Tables
import BU.Spec.Ripemd160
import BU.Spec.Bip340
import BU.Spec.CurveLaws
import BU.Model.Ripemd
import BU.Model.Schnorr
import BU.Proofs.SchnorrLemmas
import BU.Proofs.RipemdLemmas
import BU.Proofs.CurveLawsFinal
/-!
# C20 — bundled RIPEMD-160, tagged-hash and BIP340 primitives equal their specifications

T: the six RIPEMD-160 tables and the curve constants of `schnorr.py`/`utils.py` are regenerated from /repo on
every run.  M: `Model.Rmd.*` (ripemd160.py over 32-bit words), `Model.schnorrSign/schnorrVerify`
(schnorr.py), tied to the code by the correspondence run.
-/
namespace C20
open Py Spec Model Secp

/-- the tables of the working tree -/
def genTabs : Rmd.Tabs := ⟨Gen.RMD_ML, Gen.RMD_MR, Gen.RMD_RL, Gen.RMD_RR, Gen.RMD_KL, Gen.RMD_KR⟩

/-- **T-tie**: message-word selection, rotation amounts and added constants are those of the specification -/
theorem ripemd_tables : genTabs = Rmd.specTabs := by
  rfl

/-- **T-tie**: the curve constants used by `schnorr.py` and `utils.Secp256k1Params` are secp256k1's -/
theorem curve_constants :
    Gen.SCHNORR_p = Secp.p ∧ Gen.SCHNORR_n = Secp.n ∧ Gen.SCHNORR_Gx = Secp.Gx ∧ Gen.SCHNORR_Gy = Secp.Gy ∧
    Gen.SECP_p = Secp.p ∧ Gen.SECP_field = Secp.p ∧ Gen.SECP_order = Secp.n ∧ Gen.SECP_Gx = Secp.Gx ∧
    Gen.SECP_Gy = Secp.Gy ∧ Gen.SECP_a = 0 ∧ Gen.SECP_b = 7 := by
  decide

def stOf (s : Spec.Rmd.State) : Rmd.St := (s.a, s.b, s.c, s.d, s.e)

/-- the compression function (80 rounds, two lines, final mix) is the specification's -/
theorem compress_eq_spec (h : Spec.Rmd.State) (block : Bytes) :
    Rmd.compress Rmd.specTabs (stOf h) block = stOf (Spec.Rmd.compress h block) :=
  RipemdLemmas.compress_eq h block

/-- **for messages of every length**: the code's `(119 - len) & 63` padding, `len & ~63` tail slice and two block
loops equal Merkle–Damgård padding followed by a fold of the compression function -/
theorem ripemd_eq_spec (m : Bytes) : Rmd.ripemd160 genTabs m = Spec.Rmd.ripemd160 m := by
  rw [ripemd_tables]
  exact RipemdLemmas.ripemd_eq m

/-- tagged hashes are SHA256(SHA256(tag) ‖ SHA256(tag) ‖ data) -/
theorem tagged_hash_def (sha256 : Bytes → Bytes) (tag : String) (d : Bytes) :
    taggedHash sha256 tag d = sha256 (sha256 tag.toUTF8.toList ++ sha256 tag.toUTF8.toList ++ d) := by
  rfl

/-- verification is BIP340's on all inputs of the right lengths … -/
theorem verify_eq_spec (sha256 : Bytes → Bytes) (msg pk sig : Bytes)
    (h1 : msg.length = 32) (h2 : pk.length = 32) (h3 : sig.length = 64) :
    schnorrVerify sha256 msg pk sig = .ok (bip340Verify sha256 msg pk sig) := by
  exact SchnorrLemmas.verify_eq_spec sha256 msg pk sig h1 h2 h3

/-- … wrong lengths are refused by an exception … -/
theorem verify_rejects_lengths (sha256 : Bytes → Bytes) (msg pk sig : Bytes)
    (h : msg.length ≠ 32 ∨ pk.length ≠ 32 ∨ sig.length ≠ 64) :
    ∃ e, schnorrVerify sha256 msg pk sig = .error e := by
  exact SchnorrLemmas.verify_rejects_lengths sha256 msg pk sig h

/-- … and out-of-range r or s, or an x-only key not on the curve, are rejected -/
theorem verify_rejects (sha256 : Bytes → Bytes) (msg pk sig : Bytes)
    (h : ofBE (sig.take 32) ≥ p ∨ ofBE ((sig.drop 32).take 32) ≥ n ∨ liftX (ofBE pk) = none) :
    bip340Verify sha256 msg pk sig = false := by
  exact SchnorrLemmas.verify_rejects sha256 msg pk sig h

/-- signing yields exactly the specified deterministic signature for (key, message, aux) -/
theorem sign_eq_spec (sha256 : Bytes → Bytes) (msg sk aux sig : Bytes)
    (h : schnorrSign sha256 msg sk aux = .ok sig) : bip340Sign sha256 msg sk aux = some sig := by
  exact SchnorrLemmas.sign_eq_spec sha256 msg sk aux sig h

/-- a signature that `schnorr_sign` returns passes BIP340 verification under the signer's x-only key
(the code verifies before returning) -/
theorem sign_ok_verifies (sha256 : Bytes → Bytes) (hlen : ∀ b, (sha256 b).length = 32) (msg sk aux sig : Bytes)
    (h : schnorrSign sha256 msg sk aux = .ok sig) :
    ∃ x y, mul G (ofBE sk) = some (x, y) ∧ bip340Verify sha256 msg (beBytes 32 x) sig = true := by
  exact SchnorrLemmas.sign_ok_verifies sha256 hlen msg sk aux sig h

/-- under the group laws the self-check never fires: for every valid key, message and aux (and a non-zero
nonce, which fails with probability 2^-256) signing succeeds -/
theorem sign_never_fails (laws : CurveLaws) (sha256 : Bytes → Bytes) (hlen : ∀ b, (sha256 b).length = 32)
    (msg sk aux : Bytes) (h1 : msg.length = 32) (h2 : sk.length = 32) (h3 : aux.length = 32)
    (hd : 1 ≤ ofBE sk ∧ ofBE sk < n)
    (hk : ∀ x y, mul G (ofBE sk) = some (x, y) →
      ofBE (taggedHash sha256 "BIP0340/nonce"
        (schnorrXor (beBytes 32 (if y % 2 == 0 then ofBE sk else n - ofBE sk)) (taggedHash sha256 "BIP0340/aux" aux)
          ++ beBytes 32 x ++ msg)) % n ≠ 0) :
    ∃ sig, schnorrSign sha256 msg sk aux = .ok sig ∧ sig.length = 64 := by
  exact SchnorrLemmas.sign_never_fails laws sha256 hlen msg sk aux h1 h2 h3 hd hk

/-! ### without hypotheses: `CurveLaws` is proved (`BU/Proofs/CurveLawsFinal.lean`) -/

theorem sign_never_fails_unconditional (sha256 : Bytes → Bytes) (hlen : ∀ b, (sha256 b).length = 32)
    (msg sk aux : Bytes) (h1 : msg.length = 32) (h2 : sk.length = 32) (h3 : aux.length = 32)
    (hd : 1 ≤ ofBE sk ∧ ofBE sk < n)
    (hk : ∀ x y, mul G (ofBE sk) = some (x, y) →
      ofBE (taggedHash sha256 "BIP0340/nonce"
        (schnorrXor (beBytes 32 (if y % 2 == 0 then ofBE sk else n - ofBE sk)) (taggedHash sha256 "BIP0340/aux" aux)
          ++ beBytes 32 x ++ msg)) % n ≠ 0) :
    ∃ sig, schnorrSign sha256 msg sk aux = .ok sig ∧ sig.length = 64 :=
  sign_never_fails CurveLawsFinal.curveLaws sha256 hlen msg sk aux h1 h2 h3 hd hk

end C20
