import BU.Proofs.GenPub
import BU.Properties.C10_Gen
/-!
# C10, continuation — addresses derived from a public key, as *generated* code (tier T)

`PublicKey.get_address(compressed)` → `P2pkhAddress(hash160=…)` → `Address.__init__` → `_is_hash160_valid` are re-translated from
the working tree on every run.  The address object is the hex string it stores (a real string: the validity check measures its
length and runs `int(·, 16)` under `try … except ValueError`).  `P2pkhAddress.__init__` is checked to do nothing but forward its
parameters to the base constructor; the base constructor is translated as "what `self.hash160` is set to when called with `hash160`
only" (the `elif address` / `elif script` branches test parameters that are `None`).  For every point and both encodings the
translated chain stores exactly the hex of HASH160(SEC encoding) — RIPEMD-160 being the translated one — and the translated
`to_string` renders it as Base58Check(version ‖ that hash): the last sentence of C10 for the translated code.
-/
namespace C10GenPub
open Py Model Spec GenHexStr GenPub

theorem rmd_length (tb : Model.Rmd.Tabs) (data : Bytes) : (Model.Rmd.ripemd160 tb data).length = 20 := by
  unfold Model.Rmd.ripemd160
  simp only []
  generalize Model.Rmd.processBlocks tb _ _ = st
  obtain ⟨a, b, c, d, e⟩ := st
  simp

/-- the validity check accepts the hex string of every 20-byte hash -/
theorem gen_is_hash160_valid (b : Bytes) (h : b.length = 20) : Gen.is_hash160_valid (hexOf b) = .ok true := by
  unfold Gen.is_hash160_valid
  have hl : (hexOf b).length = 40 := by rw [hexOf_length, h]
  have c : ((((hexOf b).length : Nat) : Int) != (40 : Int)) = false := by rw [hl]; rfl
  have hne : b ≠ [] := by intro e; subst e; simp at h
  simp only [c, Bool.false_eq_true, if_false, intBase16_hexOf b hne]
  rfl

/-- … and rejects every string that is not 40 characters long -/
theorem gen_is_hash160_valid_len (s : List Char) (h : s.length ≠ 40) : Gen.is_hash160_valid s = .ok false := by
  unfold Gen.is_hash160_valid
  have c : (((s.length : Nat) : Int) != (40 : Int)) = true := by
    have : ¬ ((s.length : Int) = 40) := by omega
    simpa using this
  simp only [c, if_true]
  rfl

/-- the constructor called with the hex string of a 20-byte hash stores that string -/
theorem gen_address_init_hash160 (b : Bytes) (h : b.length = 20) : Gen.address_init_hash160 (hexOf b) = .ok (hexOf b) := by
  unfold Gen.address_init_hash160
  have hne : (!(hexOf b).isEmpty) = true := by
    have : (hexOf b).length = 40 := by rw [hexOf_length, h]
    cases hb : hexOf b with
    | nil => rw [hb] at this; cases this
    | cons c r => rfl
  simp only [hne, if_true, gen_is_hash160_valid b h, okb]
  rfl

/-- `PublicKey.get_address(compressed)`: the address object stores the hex of HASH160 of the chosen SEC encoding -/
theorem gen_pubkey_get_address (sha256 : Bytes → Bytes) (hlen : ∀ b, (sha256 b).length < 2 ^ 61) (x y : Nat) (c : Bool) :
    Gen.pubkey_get_address sha256 (beBytes 32 x ++ beBytes 32 y) c = .ok (hexOf (pubHash160 sha256 C20Gen.genTabs (x, y) c)) := by
  unfold Gen.pubkey_get_address
  simp only [gen_pubkey_to_hash160 sha256 hlen x y c, okb]
  rw [gen_address_init_hash160 _ (by unfold pubHash160 hash160; exact rmd_length _ _)]

/-- **addresses derived from a public key commit to HASH160 of the chosen SEC encoding** (translated code, end to end): the stored
string denotes exactly that hash (`bytes.fromhex` of it), and the translated `to_string` renders Base58Check(version ‖ hash) -/
theorem gen_pubkey_address_commits (sha256 : Bytes → Bytes) (hlen : ∀ b, (sha256 b).length < 2 ^ 61) (x y : Nat) (c : Bool) (pk ps : Bytes) :
    ∃ stored, Gen.pubkey_get_address sha256 (beBytes 32 x ++ beBytes 32 y) c = .ok stored ∧
      Py.bytesFromhex stored = .ok (hash160 sha256 C20Gen.genTabs (pubToBytes (x, y) c)) ∧
      Gen.address_to_string sha256 B58.encode "p2pkh" pk ps (hash160 sha256 C20Gen.genTabs (pubToBytes (x, y) c)) =
        .ok (addrToString (fun b => sha256 (sha256 b)) pk (hash160 sha256 C20Gen.genTabs (pubToBytes (x, y) c))) := by
  refine ⟨_, gen_pubkey_get_address sha256 hlen x y c, bytesFromhex_hexOf _, ?_⟩
  have := C10Gen.gen_address_to_string sha256 "p2pkh" (Or.inl rfl) pk ps (hash160 sha256 C20Gen.genTabs (pubToBytes (x, y) c))
  simpa using this

end C10GenPub

namespace C10GenPub
open Py Model Spec C10Gen C09Gen

/-- `Address.__init__(address=…)`, translated from the constructor itself (the `if hash160:` arm tests a parameter that is None): it is
the composition `C10Gen.genAccept` was written as by hand — so `gen_accept_sound` and `gen_roundtrip` are statements about the
translated constructor branch -/
theorem gen_address_init_address (sha256 : Bytes → Bytes) (ty : String) (pk ps : Bytes) (s : String) :
    Gen.address_init_address sha256 decP ty pk ps s = genAccept sha256 ty pk ps s := by
  unfold Gen.address_init_address genAccept
  by_cases he : s.isEmpty = true
  · simp only [he, Bool.not_true, Bool.false_eq_true, if_false, if_true]
    rfl
  · have he' : s.isEmpty = false := by simpa using he
    simp only [he', Bool.not_false, if_true, Bool.false_eq_true, if_false]
    cases hv : Gen.is_address_valid sha256 decP ty pk ps s with
    | error e => rfl
    | ok v =>
      cases v with
      | true =>
        simp only [ok_bind, if_true, Bool.not_true, Bool.false_eq_true, if_false]
      | false => rfl

/-- acceptance soundness for the translated constructor branch -/
theorem gen_ctor_accept_sound (sha256 : Bytes → Bytes) (ty : String) (hty : ty = "p2pkh" ∨ ty = "p2sh") (pk ps : Bytes)
    (hp : (if ty = "p2pkh" then pk else ps).length = 1) (s : String) (h : Bytes)
    (ha : Gen.address_init_address sha256 decP ty pk ps s = .ok h) :
    h.length = 20 ∧ B58.uncheck (fun b => sha256 (sha256 b)) s = some ((if ty = "p2pkh" then pk else ps) ++ h) := by
  rw [gen_address_init_address] at ha
  exact gen_accept_sound sha256 ty hty pk ps hp s h ha

end C10GenPub
