import BU.Gen.Codec
import BU.Model.Keys
import BU.Proofs.SchnorrLemmas
import BU.Proofs.LoopLemmas
import BU.Properties.C09
/-!
# C09, continuation — WIF import / export as *generated* code (tier T)

`PrivateKey._from_wif` and `to_wif` are re-translated from the working tree on every run: the slices `[:-4]`, `[-4:]`, `[:1]`,
`[1:]`, `[:-1]`, the double-SHA256 checksum comparison, the network-prefix test, the compressed flag.  Third-party code enters as
parameters — `base58check.b58decode / b58encode` as the Spec's Base58, `SigningKey.from_string` as its range check — and so does the
prefix of the configured network.  `self.key = …` (the method's effect) is the value returned.  For every string and prefix the
generated functions return what the hand model `Model.fromWif` / `toWif` returns, so the round trip and the rejections of C09 are
about the translated code.
-/
set_option linter.unusedSimpArgs false
namespace C09Gen
open Py Model Spec Loop

def decP (x : String) : Except PyErr Bytes := match B58.decode x with | some d => .ok d | none => .error .valueError
def sfsP (b : Bytes) : Except PyErr Int := (signingKeyFromString b).map (fun (n : Nat) => (n : Int))

theorem sliceL_dropLast {α : Type} (l : List α) (k : Nat) (hk : 0 < k) : Py.sliceL l (0 : Int) (-(k : Int)) = l.take (l.length - k) := by
  unfold Py.sliceL
  have hneg : (-(k : Int)) < 0 := by omega
  simp only [show ¬ ((0 : Int) < 0) by omega, if_false, show ¬ ((0 : Int) > (l.length : Int)) by omega, Int.toNat_zero,
    List.drop_zero, Nat.sub_zero, hneg, if_true]
  by_cases h : -(k : Int) + (l.length : Int) < 0
  · simp only [h, if_true, Int.toNat_zero, List.take_zero]
    rw [show l.length - k = 0 by omega, List.take_zero]
  · simp only [h, if_false]
    congr 1; omega

theorem sliceFromL_last {α : Type} (l : List α) (k : Nat) (hk : 0 < k) : Py.sliceFromL l (-(k : Int)) = l.drop (l.length - k) := by
  unfold Py.sliceFromL
  have hneg : (-(k : Int)) < 0 := by omega
  simp only [hneg, if_true]
  by_cases h : -(k : Int) + (l.length : Int) < 0
  · simp only [h, if_true, Int.toNat_zero, List.drop_zero]
    rw [show l.length - k = 0 by omega, List.drop_zero]
  · simp only [h, if_false]
    congr 1; omega

theorem slice_take (b : Bytes) (k : Nat) : Py.slice b (0 : Int) (k : Int) = b.take k := by
  unfold Py.slice
  simp

theorem slice_from1 (b : Bytes) (hl : b.length < 2 ^ 62) : Py.slice b (1 : Int) Py.slEnd = b.drop 1 := by
  unfold Py.slice Py.slEnd
  apply List.take_of_length_le
  rw [List.length_drop]
  have : (0x7fffffffffffffff : Int).toNat = 0x7fffffffffffffff := rfl
  have e1 : (1 : Int).toNat = 1 := rfl
  omega

theorem gen_from_wif (sha256 : Bytes → Bytes) (pfx : Bytes) (wif : String)
    (hl : ∀ d, B58.decode wif = some d → d.length < 2 ^ 62) :
    Gen.from_wif sha256 decP sfsP pfx wif = (fromWif (fun b => sha256 (sha256 b)) pfx wif).map (fun (n : Nat) => (n : Int)) := by
  unfold Gen.from_wif fromWif decP
  simp only []
  cases hd : B58.decode wif with
  | none => rfl
  | some data =>
    have hdl := hl data hd
    rw [ok_bind]
    simp -zeta only [throw_eq_error, error_bind]
    rw [show (-(4 : Int)) = (-((4 : Nat) : Int)) from rfl, sliceL_dropLast data 4 (by decide), sliceFromL_last data 4 (by decide),
      show (4 : Int) = ((4 : Nat) : Int) from rfl, slice_take]
    show _ = (if (!(last4 data == List.take 4 (sha256 (sha256 (dropLast4 data))))) = true then _ else _ : Except PyErr Nat).map _
    unfold dropLast4 last4
    by_cases hc : (data.drop (data.length - 4) == List.take 4 (sha256 (sha256 (data.take (data.length - 4))))) = true
    · simp only [hc, Bool.not_true, Bool.false_eq_true, if_false]
      rw [show (1 : Int) = ((1 : Nat) : Int) from rfl, slice_take]
      by_cases hp : (pfx != List.take 1 (data.take (data.length - 4))) = true
      · simp only [hp, if_true]; rfl
      · have hp' : (pfx != List.take 1 (data.take (data.length - 4))) = false := by simpa using hp
        simp only [hp', Bool.false_eq_true, if_false]
        rw [show ((1 : Nat) : Int) = (1 : Int) from rfl, slice_from1 _ (by rw [List.length_take]; omega)]
        generalize (data.take (data.length - 4)).drop 1 = kb
        have hlen : (decide (Py.len kb > (32 : Int))) = decide (kb.length > 32) := by
          unfold Py.len
          by_cases h : kb.length > 32
          · have : (kb.length : Int) > 32 := by omega
            simp [h, this]
          · have : ¬ ((kb.length : Int) > 32) := by omega
            simp [h, this]
        rw [hlen]
        by_cases h32 : kb.length > 32
        · simp only [h32, decide_true, if_true]
          rw [show (-(1 : Int)) = (-((1 : Nat) : Int)) from rfl, sliceL_dropLast kb 1 (by decide)]
          unfold sfsP
          cases signingKeyFromString (kb.take (kb.length - 1)) <;> rfl
        · simp only [h32, decide_false, Bool.false_eq_true, if_false]
          unfold sfsP
          cases signingKeyFromString kb <;> rfl
    · have hc' : (data.drop (data.length - 4) == List.take 4 (sha256 (sha256 (data.take (data.length - 4))))) = false := by simpa using hc
      simp only [hc', Bool.not_false, if_true]
      rfl

theorem gen_to_wif (sha256 : Bytes → Bytes) (pfx : Bytes) (d : Nat) (c : Bool) :
    Gen.to_wif sha256 B58.encode pfx (beBytes 32 d) c = .ok (toWif (fun b => sha256 (sha256 b)) pfx d c) := by
  unfold Gen.to_wif toWif
  simp only []
  rw [show (4 : Int) = ((4 : Nat) : Int) from rfl]
  cases c with
  | false =>
    simp only [Bool.false_eq_true, if_false, show (false == true) = false from rfl, slice_take, List.append_nil]
    rfl
  | true =>
    simp only [if_true, show (true == true) = true from rfl, slice_take]
    rfl

/-- **WIF round trip, end to end** (translated exporter and importer): every secret in [1, n−1], every one-byte prefix, both forms -/
theorem gen_wif_roundtrip (sha256 : Bytes → Bytes) (hd : ∀ x, (sha256 x).length = 32) (pfx : Bytes) (hp : pfx.length = 1)
    (d : Nat) (h1 : 1 ≤ d) (h2 : d < Secp.n) (c : Bool)
    (hl : ∀ dd, B58.decode (toWif (fun b => sha256 (sha256 b)) pfx d c) = some dd → dd.length < 2 ^ 62) :
    ∃ w, Gen.to_wif sha256 B58.encode pfx (beBytes 32 d) c = .ok w ∧ Gen.from_wif sha256 decP sfsP pfx w = .ok (d : Int) := by
  refine ⟨_, gen_to_wif sha256 pfx d c, ?_⟩
  rw [gen_from_wif sha256 pfx _ hl, C09.wif_roundtrip (fun b => sha256 (sha256 b)) (fun x => hd _) pfx hp d h1 h2 c]
  rfl

/-- a wrong checksum, another network's version byte or a character outside the alphabet: the translated importer raises -/
theorem gen_wif_rejects (sha256 : Bytes → Bytes) (pfx : Bytes) (w : String)
    (hl : ∀ d, B58.decode w = some d → d.length < 2 ^ 62)
    (h : B58.decode w = none ∨
         (∃ data, B58.decode w = some data ∧
            (last4 data ≠ (sha256 (sha256 (dropLast4 data))).take 4 ∨ (dropLast4 data).take 1 ≠ pfx))) :
    ∃ e, Gen.from_wif sha256 decP sfsP pfx w = .error e := by
  obtain ⟨e, he⟩ := C09.wif_rejects (fun b => sha256 (sha256 b)) pfx w h
  exact ⟨e, by rw [gen_from_wif sha256 pfx w hl, he]; rfl⟩

end C09Gen
