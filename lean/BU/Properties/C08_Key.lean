import BU.Properties.C08
import BU.Proofs.CurveLawsFinal
/-! C08, continued: corollaries that use the proved `CurveLaws` (kept in a separate module because importing the
Mathlib-based proof brings names that clash with the model's in C08.lean). -/
namespace C08
open Py Spec Model Secp

/-! ### for every key `d·G`: the `lift_x` hypothesis is a theorem (`CurveLaws` is proved in `BU/Proofs/CurveLawsFinal.lean`) -/

theorem control_block_verifies_for_key (sha256 : Bytes → Bytes) (hlen : ∀ b, (sha256 b).length = 32)
    (T : Tables) (hT : C02.TablesOK T = true) (d : Nat) (x y : Nat) (hP : mul G d = some (x, y))
    (t : Tree) (h : WFTree T t) (hd : depth t ≤ 128) (k : Nat) (hk : k < (leavesOf t).length)
    (q : Bytes) (odd : Bool) (root : Bytes) (hroot : merkleRoot sha256 T t = .ok root)
    (ht : ofBE (taggedHash sha256 "TapTweak" (beBytes 32 x ++ root)) < n)
    (hq : toTaproot sha256 T (beBytes 32 x ++ beBytes 32 y) (.tree t) = .ok (q, odd)) :
    ∃ cb leafBytes, controlBlock sha256 T (beBytes 32 x ++ beBytes 32 y) t k odd = .ok cb ∧
      scriptBytes T ((leavesOf t).getD k []) = .ok leafBytes ∧
      scriptPathCommitment sha256 cb leafBytes = some (q, odd) := by
  have hc := CurveLawsFinal.curveLaws.coords d x y hP
  have hp : Secp.p < 2 ^ 256 := by decide
  exact control_block_verifies sha256 hlen T hT _ x y (by omega) (by omega) rfl
    (CurveLawsFinal.curveLaws.liftX_mulG d x y hP) t h hd k hk q odd root hroot ht hq

end C08
