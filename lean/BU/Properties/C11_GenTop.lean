import BU.Gen.Codec
import BU.Proofs.GenBech32
import BU.Proofs.Bech32Lemmas
/-!
# C11, continuation — the rest of `bech32.py` as *generated* code (tier T)

`bech32_decode`, `bech32_encode`, `decode` and `encode` are re-translated from the working tree on every run: strings are lists of
characters (`str.lower()` / `upper()` only on ASCII — anything else is `unsupported`, and is proved unreachable behind the
printable-range test), a value that may be `None` is an `Option` whose *use* raises `TypeError`, the tuples of possibly-`None`
values Python returns are tuples of `Option`s.  On every input the generated functions return what the hand model
(`Model.Bech32.bech32Decode`, `decode`, …) returns, the model about which C11's round-trip, rejection and error-detection theorems
are proved.
-/
set_option linter.unusedSimpArgs false
namespace C11GenTop
open Py Model Model.Bech32 Loop

def encI : Enc → Int
  | .bech32 => 1
  | .bech32m => 2

/-- the result triple of `bech32_decode` -/
def triple (r : Option (List Char × List Nat × Enc)) : Option (List Char) × Option (List Int) × Option Int :=
  match r with
  | none => (none, none, none)
  | some (h, d, e) => (some h, some (d.map Int.ofNat), some (encI e))

theorem lowerA_eq : Py.lowerA = lowerC := rfl
theorem upperA_eq : Py.upperA = upperC := rfl

theorem any_eq (bech : List Char) :
    (bech.any fun x => decide (Py.ord x < 33) || decide (Py.ord x > 126)) =
      bech.any (fun x => decide (x.toNat < 33 ∨ x.toNat > 126)) := by
  congr 1
  funext x
  unfold Py.ord
  by_cases h1 : x.toNat < 33 <;> by_cases h2 : x.toNat > 126 <;> simp [h1, h2] <;> omega

theorem printable_ascii (bech : List Char) (h : (bech.any fun x => decide (x.toNat < 33 ∨ x.toNat > 126)) = false) :
    (bech.any fun c => decide (c.toNat ≥ 128)) = false := by
  rw [List.any_eq_false] at h ⊢
  intro x hx
  have := h x hx
  simp only [decide_eq_true_eq] at this ⊢
  omega

theorem sliceL_drop {α : Type} (l : List α) (a : Nat) (hl : l.length < 2 ^ 62) :
    Py.sliceL l (a : Int) Py.slEnd = l.drop a := by
  unfold Py.sliceL Py.slEnd
  simp only [show ¬ ((a : Int) < 0) by omega, if_false, show ¬ ((0x7fffffffffffffff : Int) < 0) by decide,
    show ((0x7fffffffffffffff : Int) > (l.length : Int)) by omega, if_true]
  by_cases h : (a : Int) > (l.length : Int)
  · simp only [h, if_true, Int.toNat_natCast, Nat.sub_self, List.take_zero]
    rw [List.drop_eq_nil_of_le (by omega)]
  · simp only [h, if_false, Int.toNat_natCast]
    apply List.take_of_length_le
    rw [List.length_drop]; omega

theorem sliceL_take {α : Type} (l : List α) (a : Nat) (ha : a ≤ l.length) : Py.sliceL l (0 : Int) (a : Int) = l.take a := by
  unfold Py.sliceL
  simp only [show ¬ ((0 : Int) < 0) by omega, if_false, show ¬ ((0 : Int) > (l.length : Int)) by omega,
    show ¬ ((a : Int) < 0) by omega, show ¬ ((a : Int) > (l.length : Int)) by omega, Int.toNat_zero, List.drop_zero,
    Int.toNat_natCast, Nat.sub_zero]

theorem sliceL_drop_last6 {α : Type} (l : List α) : Py.sliceL l (0 : Int) (-6 : Int) = l.take (l.length - 6) := by
  unfold Py.sliceL
  simp only [show ¬ ((0 : Int) < 0) by omega, if_false, show ¬ ((0 : Int) > (l.length : Int)) by omega,
    show ((-6 : Int) < 0) by omega, if_true, Int.toNat_zero, List.drop_zero, Nat.sub_zero]
  by_cases h : (-6 : Int) + (l.length : Int) < 0
  · simp only [h, if_true, Int.toNat_zero, List.take_zero]
    rw [show l.length - 6 = 0 by omega, List.take_zero]
  · simp only [h, if_false]
    congr 1; omega

/-! ## decoding -/

theorem gen_bech32_decode (bech : List Char) :
    Gen.bech32_decode bech = .ok (triple (bech32Decode specConsts bech)) := by
  unfold Gen.bech32_decode bech32Decode
  simp only []
  rw [any_eq]
  by_cases hany : (bech.any fun x => decide (x.toNat < 33 ∨ x.toNat > 126)) = true
  · simp only [hany, if_true, pure_bind, true_or]
    rfl
  · have hany' : (bech.any fun x => decide (x.toNat < 33 ∨ x.toNat > 126)) = false := by simpa using hany
    have hasc := printable_ascii bech hany'
    have hlow : Py.strLower bech = .ok (bech.map lowerC) := by unfold Py.strLower; rw [hasc]; rfl
    have hup : Py.strUpper bech = .ok (bech.map upperC) := by unfold Py.strUpper; rw [hasc]; rfl
    simp only [hany', Bool.false_eq_true, if_false, hlow, hup, ok_bind, false_or]
    generalize List.map lowerC bech = b
    by_cases hmix : b ≠ bech ∧ List.map upperC bech ≠ bech
    · have c1 : (b != bech) = true := by simpa using hmix.1
      have c2 : (List.map upperC bech != bech) = true := by simpa using hmix.2
      simp only [c1, c2, if_true, pure_bind, if_pos hmix]
      rfl
    · have c : (if (b != bech) = true then (pure (List.map upperC bech != bech) : Except PyErr Bool) else pure false) = pure false := by
        by_cases h1 : b = bech
        · simp [h1]
        · have h2 : List.map upperC bech = bech := by
            by_cases h2 : List.map upperC bech = bech
            · exact h2
            · exact absurd ⟨h1, h2⟩ hmix
          have c1 : (b != bech) = true := by simpa using h1
          simp [c1, h2]
      rw [c, pure_bind, if_neg hmix]
      simp only [Bool.false_eq_true, if_false]
      unfold Py.strRfind
      show _ = Except.ok (triple (match rfind1 b with | none => none | some pos => _))
      unfold rfind1
      cases hr : ((List.range b.length).filter (fun i => b.getD i ' ' == '1')).getLast? with
      | none =>
        simp only []
        rfl
      | some pos =>
        simp only []
        by_cases hP : pos < 1 ∨ pos + 7 > b.length ∨ b.length > 90
        · have cP : (decide ((pos : Int) < 1) || decide ((pos : Int) + 7 > (b.length : Int)) || decide ((b.length : Int) > 90)) = true := by
            simp only [Bool.or_eq_true, decide_eq_true_eq]
            omega
          simp only [cP, if_true, if_pos hP]
          rfl
        · have cP : (decide ((pos : Int) < 1) || decide ((pos : Int) + 7 > (b.length : Int)) || decide ((b.length : Int) > 90)) = false := by
            simp only [Bool.or_eq_false_iff, decide_eq_false_iff_not]
            omega
          simp only [cP, Bool.false_eq_true, if_false, if_neg hP]
          rw [show ((pos : Int) + 1) = ((pos + 1 : Nat) : Int) by omega, sliceL_drop b (pos + 1) (by omega),
            sliceL_take b pos (by omega)]
          generalize List.drop (pos + 1) b = dpart
          generalize List.take pos b = hrp
          show _ = Except.ok (triple (if (!dpart.all fun x => "qpzry9x8gf2tvdw0s3jn54khce6mua7l".toList.contains x) = true then none else _))
          by_cases hall : (dpart.all fun x => "qpzry9x8gf2tvdw0s3jn54khce6mua7l".toList.contains x) = true
          · simp only [hall, Bool.not_true, Bool.false_eq_true, if_false]
            have hm : List.mapM (fun x => (pure (Py.strFind "qpzry9x8gf2tvdw0s3jn54khce6mua7l".toList x) : Except PyErr Int)) dpart =
                .ok ((dpart.map fun x => List.idxOf x specConsts.charset).map Int.ofNat) := by
              rw [mapM_ok _ (fun x => ((List.idxOf x specConsts.charset : Nat) : Int)) dpart (by
                intro a ha
                have hc := (List.all_eq_true.mp hall) a ha
                unfold Py.strFind
                rw [if_pos hc]
                rfl), List.map_map]
              rfl
            rw [hm, ok_bind, GenBech32.gen_verify_checksum, ok_bind]
            cases verifyChecksum specConsts hrp (dpart.map fun x => List.idxOf x specConsts.charset) with
            | none => rfl
            | some e =>
              simp only [Option.map, Option.isNone, Bool.false_eq_true, if_false, sliceL_drop_last6, List.length_map, triple,
                List.map_take, pure, Except.pure]
              cases e <;> rfl
          · have hall' : (dpart.all fun x => "qpzry9x8gf2tvdw0s3jn54khce6mua7l".toList.contains x) = false := by simpa using hall
            simp only [hall', Bool.not_false, if_true]
            rfl

theorem decode_len (c : Consts) (addr h : List Char) (d : List Nat) (e : Enc) (hd : bech32Decode c addr = some (h, d, e)) :
    d.length ≤ 90 := by
  unfold bech32Decode at hd
  split at hd
  · cases hd
  · simp only [] at hd
    split at hd
    · cases hd
    · split at hd
      · cases hd
      · rename_i hP
        split at hd
        · cases hd
        · split at hd
          · cases hd
          · have := Option.some.inj hd
            simp only [Prod.mk.injEq] at this
            obtain ⟨_, h2, _⟩ := this
            subst h2
            simp only [List.length_take, List.length_map, List.length_drop] at hP ⊢
            omega

def pairOf (r : Option (Nat × List Nat)) : Option Int × Option (List Int) :=
  match r with
  | none => (none, none)
  | some (v, p) => (some (v : Int), some (p.map Int.ofNat))

theorem ok_bind_p {α β : Type} (a : α) (f : α → Except PyErr β) : (Except.ok a >>= f) = f a := by rw [ok_bind]

theorem gen_segwit_decode (hrp addr : List Char) :
    Gen.segwit_decode hrp addr = .ok (pairOf (decode specConsts hrp addr)) := by
  unfold Gen.segwit_decode decode
  simp only []
  rw [gen_bech32_decode, ok_bind]
  cases hbd : bech32Decode specConsts addr with
  | none => simp only [triple, show ((none : Option (List Char)) != some hrp) = true from rfl, if_true, pairOf, pure, Except.pure]
  | some r =>
    obtain ⟨h, d, e⟩ := r
    have hdl := decode_len specConsts addr h d e hbd
    simp only [triple]
    by_cases hh : h = hrp
    · subst hh
      simp only [bne_self_eq_false, Bool.false_eq_true, if_false, ne_eq, not_true_eq_false, Py.unwrap, ok_bind_p]
      have hs : Py.sliceL (List.map Int.ofNat d) 1 Py.slEnd = (d.drop 1).map Int.ofNat := by
        rw [show (1 : Int) = ((1 : Nat) : Int) from rfl, sliceL_drop _ 1 (by rw [List.length_map]; omega), List.map_drop]
      rw [hs, show (5 : Int) = ((5 : Nat) : Int) from rfl, show (8 : Int) = ((8 : Nat) : Int) from rfl,
        GenBech32.gen_convertbits (d.drop 1) 5 8 false (by decide), ok_bind]
      cases hcv : convertbits (List.drop 1 d) 5 8 false with
      | none => rfl
      | some dec =>
        simp only [Option.map, Option.isNone, Bool.false_eq_true, if_false, Py.unwrap, ok_bind_p, List.length_map, pure_bind]
        by_cases hlen : dec.length < 2 ∨ dec.length > 40
        · have c7 : (if decide ((dec.length : Int) < 2) = true then (pure true : Except PyErr Bool) else pure (decide ((dec.length : Int) > 40))) = pure true := by
            by_cases h2 : dec.length < 2
            · have : ((dec.length : Int) < 2) := by omega
              simp [this]
            · have h40 : dec.length > 40 := by omega
              have a : ¬ ((dec.length : Int) < 2) := by omega
              have b : ((dec.length : Int) > 40) := by omega
              simp [a, b]
          rw [c7, pure_bind, if_pos hlen]
          rfl
        · have c7 : (if decide ((dec.length : Int) < 2) = true then (pure true : Except PyErr Bool) else pure (decide ((dec.length : Int) > 40))) = pure false := by
            have a : ¬ ((dec.length : Int) < 2) := by omega
            have b : ¬ ((dec.length : Int) > 40) := by omega
            simp [a, b]
          rw [c7, pure_bind, if_neg hlen]
          simp only [Bool.false_eq_true, if_false]
          cases d with
          | nil =>
            have : convertbits ([] : List Nat) 5 8 false = some [] := by decide
            rw [List.drop_nil, this] at hcv
            have := Option.some.inj hcv
            subst this
            simp at hlen
          | cons v rest =>
            have hi : Py.indexL (List.map Int.ofNat (v :: rest)) 0 = .ok (v : Int) := rfl
            simp only [hi, ok_bind_p, List.head?_cons]
            generalize dec.length = L
            have k2 : ∀ (n m : Nat), (((n : Int) == (m : Int))) = (n == m) := by
              intro n m; by_cases hnm : n = m
              · subst hnm; rw [beq_self_eq_true, beq_self_eq_true]
              · rw [beq_eq_false_iff_ne.mpr hnm, beq_eq_false_iff_ne.mpr (by omega)]
            have k1 : ∀ (n m : Nat), (((n : Int) != (m : Int))) = (n != m) := by
              intro n m; unfold bne; rw [k2]
            have k3 : decide ((v : Int) > 16) = decide (v > 16) := by
              by_cases h : v > 16
              · have : (v : Int) > 16 := by omega
                simp [h, this]
              · have : ¬ ((v : Int) > 16) := by omega
                simp [h, this]
            rw [k3]
            simp only [show (0 : Int) = ((0 : Nat) : Int) from rfl, show (20 : Int) = ((20 : Nat) : Int) from rfl,
              show (32 : Int) = ((32 : Nat) : Int) from rfl, k1, k2]
            by_cases h16 : v > 16
            · simp [h16, pairOf, pure, Except.pure]
            · by_cases h0 : v = 0
              · subst h0
                by_cases l20 : L = 20 <;> by_cases l32 : L = 32 <;> cases e <;>
                  simp [l20, l32, pairOf, encI, pure, Except.pure, bind, Except.bind]
              · cases e <;> simp [h16, h0, pairOf, encI, pure, Except.pure, bind, Except.bind]
    · have c : (some h != some hrp) = true := by simpa using hh
      simp only [c, if_true, ne_eq, hh, not_false_eq_true]
      rfl

/-! ## encoding -/

theorem checksum_lt (hrp : List Char) (data : List Nat) (spec : Enc) : ∀ d ∈ createChecksum specConsts hrp data spec, d < 32 := by
  intro d hd
  unfold createChecksum at hd
  simp only [List.mem_map] at hd
  obtain ⟨i, _, rfl⟩ := hd
  exact Nat.lt_of_le_of_lt Nat.and_le_right (by decide)

theorem listGet_nat {α : Type} (l : List α) (d : Nat) (h : d < l.length) : Py.listGet l (d : Int) = .ok l[d] := by
  unfold Py.listGet
  simp only [show ¬ ((d : Int) < 0) by omega, if_false, Int.toNat_natCast]
  rw [List.getElem?_eq_getElem h]

theorem charset_get (d : Nat) (hd : d < 32) :
    Py.listGet "qpzry9x8gf2tvdw0s3jn54khce6mua7l".toList (d : Int) = .ok (specConsts.charset.getD d '?') := by
  have hl : specConsts.charset.length = 32 := by decide
  show Py.listGet specConsts.charset (d : Int) = _
  rw [listGet_nat specConsts.charset d (by omega), List.getD_eq_getElem?_getD, List.getElem?_eq_getElem (by omega)]
  rfl

theorem gen_bech32_encode (hrp : List Char) (data : List Nat) (spec : Enc) (hd : ∀ d ∈ data, d < 32) :
    Gen.bech32_encode hrp (data.map Int.ofNat) (encI spec) = .ok (bech32Encode specConsts hrp data spec) := by
  unfold Gen.bech32_encode bech32Encode
  simp only []
  have hc : Gen.bech32_create_checksum hrp (data.map Int.ofNat) (encI spec) =
      .ok ((createChecksum specConsts hrp data spec).map Int.ofNat) := GenBech32.gen_create_checksum hrp data spec
  rw [hc, ok_bind, ← List.map_append,
    mapM_ok _ (fun (d : Int) => specConsts.charset.getD d.toNat '?') _ (by
      intro a ha
      obtain ⟨d, hdm, rfl⟩ := List.mem_map.mp ha
      have hlt : d < 32 := by
        rcases List.mem_append.mp hdm with h | h
        · exact hd d h
        · exact checksum_lt hrp data spec d h
      show Py.listGet _ ((d : Nat) : Int) = _
      rw [charset_get d hlt]
      rfl), ok_bind, List.map_map]
  rfl

theorem gen_segwit_encode (hrp : List Char) (v : Nat) (prog : List Nat) (hv : v < 32) (hp : ∀ b ∈ prog, b < 256) :
    Gen.segwit_encode hrp (v : Int) (prog.map Int.ofNat) =
      .ok (encode specConsts hrp v prog) := by
  unfold Gen.segwit_encode encode
  simp only []
  obtain ⟨five, h5, hlt, _⟩ := Bech32Lemmas.fwd_spec prog hp
  rw [show (8 : Int) = ((8 : Nat) : Int) from rfl, show (5 : Int) = ((5 : Nat) : Int) from rfl,
    GenBech32.gen_convertbits prog 8 5 true (by decide), ok_bind, h5]
  simp only [Option.map, Py.unwrap, ok_bind_p]
  have henc : (if ((v : Int) == 0) = true then (1 : Int) else 2) = encI (if v = 0 then Enc.bech32 else Enc.bech32m) := by
    by_cases h0 : v = 0
    · subst h0; rfl
    · have : ((v : Int) == 0) = false := by
        rw [beq_eq_false_iff_ne]; omega
      simp [this, h0, encI]
  rw [henc, show ([(v : Int)] ++ List.map Int.ofNat five) = List.map Int.ofNat ([v] ++ five) by simp,
    gen_bech32_encode hrp ([v] ++ five) _ (by
      intro d hd
      rcases List.mem_append.mp hd with h | h
      · rw [List.mem_singleton] at h; omega
      · exact hlt d h), ok_bind, gen_segwit_decode, ok_bind]
  cases decode specConsts hrp (bech32Encode specConsts hrp ([v] ++ five) (if v = 0 then Enc.bech32 else Enc.bech32m)) with
  | none => rfl
  | some r => obtain ⟨a, b⟩ := r; rfl

/-- **round trip, end to end**: for the three network prefixes, witness version 0 with a 20- or 32-byte program and version 1 with a
32-byte program, the translated `encode` returns an address that the translated `decode` maps back to the same version and program -/
theorem gen_decode_encode (hrp : List Char) (hh : hrp = "bc".toList ∨ hrp = "tb".toList ∨ hrp = "bcrt".toList)
    (v : Nat) (prog : List Nat) (hb : ∀ b ∈ prog, b < 256)
    (hv : (v = 0 ∧ (prog.length = 20 ∨ prog.length = 32)) ∨ (v = 1 ∧ prog.length = 32)) :
    ∃ s, Gen.segwit_encode hrp (v : Int) (prog.map Int.ofNat) = .ok (some s) ∧
      Gen.segwit_decode hrp s = .ok (some (v : Int), some (prog.map Int.ofNat)) := by
  obtain ⟨s, h1, h2⟩ := Bech32Lemmas.decode_encode hrp hh v prog hb hv
  refine ⟨s, ?_, ?_⟩
  · rw [gen_segwit_encode hrp v prog (by omega) hb, h1]
  · rw [gen_segwit_decode, h2]; rfl

/-- whatever the translated `decode` accepts has the expected prefix, a version ≤ 16 and the checksum variant of that version -/
theorem gen_decode_sound (hrp addr : List Char) (v : Int) (prog : List Int)
    (h : Gen.segwit_decode hrp addr = .ok (some v, some prog)) :
    ∃ (v' : Nat) (prog' : List Nat), v = (v' : Int) ∧ prog = prog'.map Int.ofNat ∧ decode specConsts hrp addr = some (v', prog') := by
  rw [gen_segwit_decode] at h
  cases hd : decode specConsts hrp addr with
  | none => rw [hd] at h; cases h
  | some r =>
    obtain ⟨v', p'⟩ := r
    rw [hd] at h
    have := Except.ok.inj h
    simp only [pairOf, Prod.mk.injEq, Option.some.injEq] at this
    exact ⟨v', p', this.1.symm, this.2.symm, rfl⟩

end C11GenTop
