import BU.Properties.C08_GenTree
import BU.Properties.C08_GenTweak
import BU.Properties.C11_GenInit
/-!
# C08, continuation — `PublicKey.to_taproot_hex` as *generated* code (tier T)

What a taproot address object is built from: `to_taproot_hex(scripts)` — `calculate_tweak`, `tweak_taproot_pubkey`, the first 32
bytes, the parity flag — is re-translated from the working tree on every run and proved equal to the hand model `Model.toTaproot`
(results and exceptions) for every 64-byte key with y < p and every script argument (none / a merkle root given as bytes / a tree).
Hence `C08.address_commits` — program and parity are BIP341's `lift_x(P) + H_TapTweak(P ‖ root)·G` — is a statement about the
translated method.
-/
namespace C08GenAddr
open Py Secp Model Spec GenTapSign

theorem gen_to_taproot_hex (sha256 : Bytes → Bytes) (T : Tables) (pub : Bytes) (s : Model.Scripts) (hs : SmallScripts T s)
    (hlen : pub.length = 64) (hy0 : ofBE (pub.drop 32) < p) :
    Gen.pubkey_to_taproot_hex sha256 T.opCodes pub (toPyScripts s) = toTaproot sha256 T pub s := by
  unfold Gen.pubkey_to_taproot_hex toTaproot
  rw [C08GenTree.gen_calculate_tweak sha256 T pub s hs]
  cases calculateTweak sha256 T pub s with
  | error e => rfl
  | ok tw =>
    simp only [Except.map, ok_bind]
    rw [C08GenTweak.gen_tweak_taproot_pubkey pub tw hlen hy0]
    cases tweakPubkey pub tw with
    | error e => rfl
    | ok r =>
      obtain ⟨q, odd⟩ := r
      simp only [ok_bind]
      rw [GenTweak.slice_0_32']

/-- **the address commits to key and scripts**: whatever the translated `to_taproot_hex` returns for the key `(x, y)` is the BIP341
output key and parity for that internal key and merkle root -/
theorem gen_address_commits (sha256 : Bytes → Bytes) (T : Tables) (x y : Nat) (hx : x < 2 ^ 256) (hy : y < p)
    (hl : liftX x = some (x, if y % 2 = 0 then y else p - y))
    (s : Scripts) (q : Bytes) (odd : Bool) (root : Bytes)
    (hr : match s with
          | .none => root = []
          | .root b => root = b
          | .tree t => merkleRoot sha256 T t = .ok root)
    (hs : SmallScripts T s)
    (ht : ofBE (taggedHash sha256 "TapTweak" (beBytes 32 x ++ root)) < n)
    (hq : Gen.pubkey_to_taproot_hex sha256 T.opCodes (beBytes 32 x ++ beBytes 32 y) (toPyScripts s) = .ok (q, odd)) :
    taprootOutput sha256 (beBytes 32 x) root = some (q, odd) := by
  have hy' : y < 2 ^ 256 := Nat.lt_trans hy (by decide)
  have hlen : (beBytes 32 x ++ beBytes 32 y).length = 64 := by simp
  have hd : (beBytes 32 x ++ beBytes 32 y).drop 32 = beBytes 32 y := by
    rw [List.drop_append, GenTweak.be32_length, List.drop_of_length_le (by simp [GenTweak.be32_length])]
    try simp
  have hy0 : ofBE ((beBytes 32 x ++ beBytes 32 y).drop 32) < p := by
    rw [hd, SchnorrLemmas.ofBE_beBytes32 y hy']; exact hy
  rw [gen_to_taproot_hex sha256 T _ s hs hlen hy0] at hq
  exact C08.address_commits sha256 T _ x y hx hy' rfl hl s q odd root hr ht hq

end C08GenAddr

namespace C08GenAddr
open Py Secp Model Spec GenTapSign

/-- `PublicKey.get_taproot_address(scripts)`: the P2TR object holds witness version 1, the x coordinate the translated `to_taproot_hex`
returns, and its parity flag (`P2trAddress.__init__` is checked to store `is_odd` and forward the rest with the class constant) -/
theorem gen_get_taproot_address (hrp : List Char) (sha256 : Bytes → Bytes) (T : Tables) (pub : Bytes) (s : Model.Scripts)
    (hs : SmallScripts T s) (hlen : pub.length = 64) (hy0 : ofBE (pub.drop 32) < p) (q : Bytes) (odd : Bool)
    (hq : toTaproot sha256 T pub s = .ok (q, odd)) (hne : q ≠ []) :
    Gen.pubkey_get_taproot_address hrp sha256 T.opCodes pub (toPyScripts s) = .ok (((1 : Int), q), odd) := by
  unfold Gen.pubkey_get_taproot_address
  rw [gen_to_taproot_hex sha256 T pub s hs hlen hy0, hq, ok_bind]
  simp only []
  rw [C11GenInit.gen_segwit_init_program hrp none q hne "p2trv1" 1 (by decide), ok_bind]
  rfl

end C08GenAddr
