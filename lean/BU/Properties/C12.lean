import BU.Py
import BU.Model.Address
import BU.Properties.C02
import BU.Properties.C20
/-!
# C12 — locking scripts and script-hash addresses commit to the intended key/script

The template bytes are evaluated through the *generated* opcode dictionaries and the push-form tie (C02), so a
wrong template token or table entry breaks a proof.
-/
namespace C12
open Py Spec Model

/-! ### lookups in the generated opcode dictionary and the direct-push form -/

theorem lk_dup : C02.genTables.opCodes.lookup "OP_DUP" = some [0x76] := by decide +kernel
theorem lk_hash160 : C02.genTables.opCodes.lookup "OP_HASH160" = some [0xa9] := by decide +kernel
theorem lk_equalverify : C02.genTables.opCodes.lookup "OP_EQUALVERIFY" = some [0x88] := by decide +kernel
theorem lk_checksig : C02.genTables.opCodes.lookup "OP_CHECKSIG" = some [0xac] := by decide +kernel
theorem lk_equal : C02.genTables.opCodes.lookup "OP_EQUAL" = some [0x87] := by decide +kernel
theorem lk_0 : C02.genTables.opCodes.lookup "OP_0" = some [0x00] := by decide +kernel
theorem lk_1 : C02.genTables.opCodes.lookup "OP_1" = some [0x51] := by decide +kernel

theorem push_direct (h : Bytes) (n : Nat) (hh : h.length = n) (hn : n ≤ 75) :
    opPushData h = .ok (UInt8.ofNat n :: h) := by
  subst hh
  have h1 : h.length < 2 ^ 32 := by omega
  unfold opPushData minimalPush
  simp only [h1, hn, if_true]

/-- DUP HASH160 <h> EQUALVERIFY CHECKSIG -/
theorem p2pkh_bytes (h : Bytes) (hh : h.length = 20) :
    scriptBytes C02.genTables (spkP2pkh h) = .ok ([0x76, 0xa9, 0x14] ++ h ++ [0x88, 0xac]) := by
  simp only [spkP2pkh, scriptBytes, tokBytes, lk_dup, lk_hash160, lk_equalverify, lk_checksig, push_direct h 20 hh (by omega), bind, Except.bind,
    pure, Except.pure, List.append_nil]
  rfl
/-- HASH160 <h> EQUAL -/
theorem p2sh_bytes (h : Bytes) (hh : h.length = 20) :
    scriptBytes C02.genTables (spkP2sh h) = .ok ([0xa9, 0x14] ++ h ++ [0x87]) := by
  simp only [spkP2sh, scriptBytes, tokBytes, lk_hash160, lk_equal, push_direct h 20 hh (by omega), bind, Except.bind,
    pure, Except.pure, List.append_nil]
  rfl
/-- 0 <20-byte program> -/
theorem p2wpkh_bytes (h : Bytes) (hh : h.length = 20) :
    scriptBytes C02.genTables (spkP2wpkh h) = .ok ([0x00, 0x14] ++ h) := by
  simp only [spkP2wpkh, scriptBytes, tokBytes, lk_0, push_direct h 20 hh (by omega), bind, Except.bind,
    pure, Except.pure, List.append_nil]
  rfl
/-- 0 <32-byte program> -/
theorem p2wsh_bytes (h : Bytes) (hh : h.length = 32) :
    scriptBytes C02.genTables (spkP2wsh h) = .ok ([0x00, 0x20] ++ h) := by
  simp only [spkP2wsh, scriptBytes, tokBytes, lk_0, push_direct h 32 hh (by omega), bind, Except.bind,
    pure, Except.pure, List.append_nil]
  rfl
/-- 1 <32-byte key> -/
theorem p2tr_bytes (h : Bytes) (hh : h.length = 32) :
    scriptBytes C02.genTables (spkP2tr h) = .ok ([0x51, 0x20] ++ h) := by
  simp only [spkP2tr, scriptBytes, tokBytes, lk_1, push_direct h 32 hh (by omega), bind, Except.bind,
    pure, Except.pure, List.append_nil]
  rfl

/-- script-hash addresses commit to RIPEMD160(SHA256(bytes)) of the script's exact byte encoding … -/
theorem p2sh_commits (sha256 : Bytes → Bytes) (T : Tables) (s : List Tok) (h : Bytes)
    (hs : scriptToHash160 sha256 C20.genTabs T s = .ok h) :
    ∃ b, scriptBytes T s = .ok b ∧ h = Spec.Rmd.ripemd160 (sha256 b) := by
  unfold scriptToHash160 hash160 at hs
  cases hb : scriptBytes T s with
  | error e => simp [hb, bind, Except.bind] at hs
  | ok b =>
    simp only [hb, bind, Except.bind, pure, Except.pure, Except.ok.injEq] at hs
    exact ⟨b, rfl, by rw [← hs, C20.ripemd_eq_spec]⟩
/-- … respectively SHA256(bytes) -/
theorem p2wsh_commits (sha256 : Bytes → Bytes) (T : Tables) (s : List Tok) (h : Bytes)
    (hs : scriptToSha256 sha256 T s = .ok h) :
    ∃ b, scriptBytes T s = .ok b ∧ h = sha256 b := by
  unfold scriptToSha256 at hs
  cases hb : scriptBytes T s with
  | error e => simp [hb, bind, Except.bind] at hs
  | ok b =>
    simp only [hb, bind, Except.bind, pure, Except.pure, Except.ok.injEq] at hs
    exact ⟨b, rfl, hs.symm⟩

/-- the helpers' output equals the locking script of the address created from the same script -/
theorem helpers_eq_address_script (sha256 : Bytes → Bytes) (tb : Rmd.Tabs) (T : Tables) (s : List Tok) :
    toP2shSpk sha256 tb T s = (scriptToHash160 sha256 tb T s).map spkP2sh ∧
    toP2wshSpk sha256 T s = (scriptToSha256 sha256 T s).map spkP2wsh := by
  constructor
  · unfold toP2shSpk
    cases scriptToHash160 sha256 tb T s <;> rfl
  · unfold toP2wshSpk
    cases scriptToSha256 sha256 T s <;> rfl

end C12
