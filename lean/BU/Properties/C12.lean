import BU.Model.Address
namespace C12
end C12
