import BU.Py
import BU.Gen.Codec
import BU.Gen.Tables
import BU.Spec.Timelock
import BU.Spec.Script
import BU.Proofs.PyLemmas
/-!
# C18 — timelock helpers encode BIP68/BIP112/BIP65 consistently in inputs and scripts

All T: `Gen.sequence_init`, `Gen.sequence_for_input`, `Gen.sequence_for_script`,
`Gen.locktime_for_transaction`, `Gen.push_integer` are re-translated from /repo on every run.
-/
namespace C18
open Py Spec

/-! ## helper lemmas -/

theorem lor_flag (v : Nat) (h : v < 2 ^ 22) : lor 4194304 (v : Int) = ((v + 4194304 : Nat) : Int) := by
  have eor : 2 ^ 22 ||| v = v + 2 ^ 22 := two_pow_or_of_lt h
  show lor ((4194304 : Nat) : Int) (v : Int) = _
  rw [lor_natCast]
  simp only [Nat.reducePow] at eor
  rw [eor]

theorem lor_flag' (v : Nat) (h : v < 2 ^ 22) : lor (v : Int) 4194304 = ((v + 4194304 : Nat) : Int) := by
  have eor : 2 ^ 22 ||| v = v + 2 ^ 22 := two_pow_or_of_lt h
  show lor (v : Int) ((4194304 : Nat) : Int) = _
  rw [lor_natCast, Nat.or_comm]
  simp only [Nat.reducePow] at eor
  rw [eor]

theorem lor_zero_flag : lor 0 4194304 = 4194304 := by decide

/-- a relative timelock in range is accepted and produces the BIP68 value, identically as the
4-byte little-endian input sequence and as the number for the script -/
theorem relative_ok (v : Nat) (h1 : 1 ≤ v) (h2 : v ≤ 65535) (blocks : Bool) :
    Gen.sequence_init Gen.TYPE_RELATIVE_TIMELOCK v blocks = .ok () ∧
    Gen.sequence_for_input Gen.TYPE_RELATIVE_TIMELOCK v blocks = .ok (some (leBytes 4 (relativeSequence v blocks))) ∧
    Gen.sequence_for_script Gen.TYPE_RELATIVE_TIMELOCK v blocks = .ok (relativeSequence v blocks : Nat) := by
  have a1 : ¬ ((v:Int) < 1) := by omega
  have a2 : ¬ ((v:Int) > 65535) := by omega
  have e22 : shl 1 22 = .ok (((2 ^ 22 : Nat)) : Int) := shl_one_natCast 22
  refine ⟨?_, ?_, ?_⟩
  · simp [Gen.sequence_init, Gen.TYPE_RELATIVE_TIMELOCK, a1, a2]
    rfl
  · cases blocks
    · have tb := toBytes_little_of_nonneg ((v:Int) + 4194304) 4 (by omega) (by omega) (by simp; omega)
      have e : ((v:Int) + 4194304).toNat = v + 4194304 := by omega
      simp [Gen.sequence_for_input, Gen.TYPE_RELATIVE_TIMELOCK, e22, ok_bind, lor_zero_flag,
        lor_flag v (by omega), tb, e, relativeSequence, SEQUENCE_LOCKTIME_TYPE_FLAG, map_ok]
    · have tb := toBytes_little_natCast v 4 (by omega)
      simp only [Int.cast_ofNat_Int] at tb
      simp [Gen.sequence_for_input, Gen.TYPE_RELATIVE_TIMELOCK, lor_zero_left,
        tb, relativeSequence, map_ok]
  · cases blocks
    · simp [Gen.sequence_for_script, Gen.TYPE_RELATIVE_TIMELOCK, e22, ok_bind,
        lor_flag' v (by omega), relativeSequence, SEQUENCE_LOCKTIME_TYPE_FLAG, pure_eq_ok]
    · simp [Gen.sequence_for_script, Gen.TYPE_RELATIVE_TIMELOCK, relativeSequence, pure_eq_ok]

/-- the value sits in the low 16 bits, bit 22 is set exactly for 512-second units, bit 31 is clear -/
theorem relative_bits (v : Nat) (h1 : 1 ≤ v) (h2 : v ≤ 65535) (blocks : Bool) :
    relativeSequence v blocks % 2 ^ 16 = v ∧
    (relativeSequence v blocks / 2 ^ 22 % 2 = if blocks then 0 else 1) ∧
    relativeSequence v blocks / 2 ^ 31 % 2 = 0 ∧ relativeSequence v blocks < 2 ^ 32 := by
  cases blocks <;> simp [relativeSequence, SEQUENCE_LOCKTIME_TYPE_FLAG] <;> omega

/-- values outside 1..65535 are rejected -/
theorem relative_rejects (v : Int) (h : v < 1 ∨ 65535 < v) (blocks : Bool) :
    ∃ e, Gen.sequence_init Gen.TYPE_RELATIVE_TIMELOCK v blocks = .error e := by
  refine ⟨.valueError, ?_⟩
  simp [Gen.sequence_init, Gen.TYPE_RELATIVE_TIMELOCK, h, throw_eq_error]

/-- BIP112 accepts any non-negative stack value against an input carrying the same value (version ≥ 2) -/
theorem csv_self (r : Nat) : checkSequenceVerify 2 r (r : Int) = true := by
  have a : ¬ ((r : Int) < 0) := by omega
  simp only [checkSequenceVerify, a, if_false, Int.toNat_natCast]
  split
  · rfl
  · simp only [if_false, Nat.lt_irrefl]
    cases hc : decide ((r &&& (SEQUENCE_LOCKTIME_TYPE_FLAG ||| SEQUENCE_LOCKTIME_MASK)) < SEQUENCE_LOCKTIME_TYPE_FLAG)
      <;> simp_all

/-- a CHECKSEQUENCEVERIFY script and an input built from the same helper satisfy each other
under BIP112 in a version-2 transaction -/
theorem bip112_satisfied (v : Nat) (h1 : 1 ≤ v) (h2 : v ≤ 65535) (blocks : Bool) (seq : Bytes) (n : Int)
    (hs : Gen.sequence_for_input Gen.TYPE_RELATIVE_TIMELOCK v blocks = .ok (some seq))
    (hn : Gen.sequence_for_script Gen.TYPE_RELATIVE_TIMELOCK v blocks = .ok n) :
    checkSequenceVerify 2 (ofLE seq) n = true := by
  obtain ⟨_, e1, e2⟩ := relative_ok v h1 h2 blocks
  rw [e1] at hs
  rw [e2] at hn
  injection hs with hs
  injection hs with hs
  injection hn with hn
  subst hs hn
  have hb := (relative_bits v h1 h2 blocks).2.2.2
  rw [ofLE_leBytes 4 _ (by omega)]
  exact csv_self _

/-- the absolute-timelock and replace-by-fee sequences are non-final, so locktime is enforced -/
theorem nonfinal_sequences :
    Gen.sequence_for_input Gen.TYPE_ABSOLUTE_TIMELOCK 0 true = .ok (some Gen.ABSOLUTE_TIMELOCK_SEQUENCE) ∧
    Gen.sequence_for_input Gen.TYPE_REPLACE_BY_FEE 0 true = .ok (some Gen.REPLACE_BY_FEE_SEQUENCE) ∧
    Gen.ABSOLUTE_TIMELOCK_SEQUENCE.length = 4 ∧ Gen.REPLACE_BY_FEE_SEQUENCE.length = 4 ∧
    nonFinal (ofLE Gen.ABSOLUTE_TIMELOCK_SEQUENCE) = true ∧ nonFinal (ofLE Gen.REPLACE_BY_FEE_SEQUENCE) = true := by
  refine ⟨rfl, rfl, rfl, rfl, by decide, by decide⟩

/-- the locktime helper emits the 32-bit little-endian value -/
theorem locktime_le32 (v : Nat) (h : v < 2 ^ 32) : Gen.locktime_for_transaction v = .ok (leBytes 4 v) := by
  have tb := toBytes_little_natCast v 4 (by omega)
  simp only [Int.cast_ofNat_Int] at tb
  simp [Gen.locktime_for_transaction, tb, ok_bind, pure_eq_ok]

theorem locktime_rejects (v : Int) (h : v < 0 ∨ 2 ^ 32 ≤ v) : ∃ e, Gen.locktime_for_transaction v = .error e := by
  refine ⟨.overflowError, ?_⟩
  unfold Gen.locktime_for_transaction
  rcases h with h | h
  · rw [toBytes_error_of_neg _ _ _ h]; rfl
  · rw [toBytes_error_of_ge _ _ _ (by simp; omega)]; rfl

theorem byteLen_pos {k : Nat} (hk : 0 < k) : 0 < byteLen k := by
  have := natBits_pos hk
  unfold byteLen; omega

/-- numbers pushed into scripts are the script-number encoding of the number … -/
theorem push_integer_scriptnum (k : Nat) (hk : 0 < k) :
    Gen.push_integer k = Gen.op_push_data (scriptNum k) := by
  have hb := byteLen_pos hk
  have a : ¬ ((k : Int) < 0) := by omega
  have enb : (bitLength (k : Int) + 7) / 8 = ((byteLen k : Nat) : Int) := by
    rw [bitLength_natCast]; unfold byteLen; omega
  have tb : toBytes (k : Int) (byteLen k : Int) .little = .ok (leBytes (byteLen k) k) :=
    toBytes_little_natCast k (byteLen k) (lt_pow_byteLen k)
  have esh : ((byteLen k : Nat) : Int) * 8 - 1 = ((8 * byteLen k - 1 : Nat) : Int) := by omega
  have hk0 : k ≠ 0 := by omega
  unfold Gen.push_integer
  simp only [enb, tb, esh, shl_one_natCast, ok_bind, land_natCast]
  unfold scriptNum
  simp only [hk0, if_false]
  by_cases hbit : k / 2 ^ (8 * byteLen k - 1) % 2 = 1
  · have := (and_two_pow_ne_zero_iff k (8 * byteLen k - 1)).2 hbit
    simp [a, hbit, this]
  · have : k &&& 2 ^ (8 * byteLen k - 1) = 0 := by
      apply Decidable.byContradiction
      intro hne
      exact hbit ((and_two_pow_ne_zero_iff _ _).1 hne)
    simp [a, hbit, this]

/-- `_push_integer(0)` raises (`1 << -1`); `Script.to_bytes` never calls it for 0..16 -/
theorem push_integer_zero : ∃ e, Gen.push_integer 0 = .error e := by
  refine ⟨.valueError, ?_⟩
  have e : shl 1 (-1) = .error .valueError := shl_of_neg 1 (-1) (by omega)
  have tb : toBytes 0 0 .little = .ok [] := by
    have := toBytes_little_natCast 0 0 (by omega)
    simpa [leBytes] using this
  have nb : (bitLength 0 + 7) / 8 = 0 := by simp [bitLength, natBits]
  unfold Gen.push_integer
  simp [nb, tb, e, ok_bind, error_bind]

/-- … which decodes back to the number and is minimally encoded (every `k`, not only 0..2^40) -/
theorem scriptnum_roundtrip (k : Nat) :
    scriptNumDecode (scriptNum k) = k ∧ scriptNumMinimal (scriptNum k) = true := by
  by_cases hk0 : k = 0
  · subst hk0; simp [scriptNum, scriptNumDecode, scriptNumMinimal]
  have hk : 0 < k := by omega
  have hb := byteLen_pos hk
  obtain ⟨m, hm⟩ : ∃ m, byteLen k = m + 1 := ⟨byteLen k - 1, by omega⟩
  have hlt : k < 256 ^ (m + 1) := hm ▸ lt_pow_byteLen k
  have hge : 256 ^ m ≤ k := by
    have := pow_byteLen_le k hk
    unfold byteLen at hm
    rw [hm] at this
    simpa using this
  have hof : ofLE (leBytes (m + 1) k) = k := ofLE_leBytes _ _ hlt
  have hlast := getLast?_leBytes_succ m k
  -- the last byte
  have hpos : 0 < 256 ^ m := Nat.pow_pos (by omega)
  have hL1 : 1 ≤ k / 256 ^ m := (Nat.le_div_iff_mul_le hpos).2 (by omega)
  have hL2 : k / 256 ^ m < 256 := by
    rw [Nat.div_lt_iff_lt_mul hpos]; rw [Nat.pow_succ] at hlt; omega
  have hLmod : k / 256 ^ m % 256 = k / 256 ^ m := Nat.mod_eq_of_lt hL2
  have hLnat : (UInt8.ofNat (k / 256 ^ m % 256)).toNat = k / 256 ^ m := by
    simp [UInt8.toNat_ofNat']; omega
  have hpow : 2 ^ (8 * (m + 1) - 1) = 256 ^ m * 128 := by
    have : 8 * (m + 1) - 1 = 8 * m + 7 := by omega
    rw [this, Nat.pow_add, pow_256_eq]
  have hdiv : k / 2 ^ (8 * (m + 1) - 1) = k / 256 ^ m / 128 := by
    rw [hpow, Nat.div_div_eq_div_mul]
  unfold scriptNum
  simp only [hk0, if_false, hm, hdiv]
  by_cases hbit : k / 256 ^ m / 128 % 2 = 1
  · have hL128 : ¬ (k / 256 ^ m < 128) := by omega
    rw [if_pos hbit]
    constructor
    · simp [scriptNumDecode, ofLE_append_zero, hof]
    · simp [scriptNumMinimal, hlast, hLnat]
      omega
  · have hL128 : k / 256 ^ m < 128 := by omega
    have hmod : k / 256 ^ m % 128 ≠ 0 := by omega
    rw [if_neg hbit]
    constructor
    · simp only [scriptNumDecode, hlast, hLnat, hof]
      have : ¬ (k / 256 ^ m ≥ 128) := by omega
      simp only [this, if_false]
    · simp only [scriptNumMinimal, hlast, hLnat, hmod, if_false]

end C18
