import BU.Py
import BU.Gen.Codec
import BU.Gen.Tables
import BU.Spec.Timelock
import BU.Spec.Script
/-!
# C18 — timelock helpers encode BIP68/BIP112/BIP65 consistently in inputs and scripts

All T: `Gen.sequence_init`, `Gen.sequence_for_input`, `Gen.sequence_for_script`,
`Gen.locktime_for_transaction`, `Gen.push_integer` are re-translated from /repo on every run.
-/
namespace C18
open Py Spec

/-- a relative timelock in range is accepted and produces the BIP68 value, identically as the
4-byte little-endian input sequence and as the number for the script -/
theorem relative_ok (v : Nat) (h1 : 1 ≤ v) (h2 : v ≤ 65535) (blocks : Bool) :
    Gen.sequence_init Gen.TYPE_RELATIVE_TIMELOCK v blocks = .ok () ∧
    Gen.sequence_for_input Gen.TYPE_RELATIVE_TIMELOCK v blocks = .ok (some (leBytes 4 (relativeSequence v blocks))) ∧
    Gen.sequence_for_script Gen.TYPE_RELATIVE_TIMELOCK v blocks = .ok (relativeSequence v blocks : Nat) := by
  sorry

/-- the value sits in the low 16 bits, bit 22 is set exactly for 512-second units, bit 31 is clear -/
theorem relative_bits (v : Nat) (h1 : 1 ≤ v) (h2 : v ≤ 65535) (blocks : Bool) :
    relativeSequence v blocks % 2 ^ 16 = v ∧
    (relativeSequence v blocks / 2 ^ 22 % 2 = if blocks then 0 else 1) ∧
    relativeSequence v blocks / 2 ^ 31 % 2 = 0 ∧ relativeSequence v blocks < 2 ^ 32 := by
  sorry

/-- values outside 1..65535 are rejected -/
theorem relative_rejects (v : Int) (h : v < 1 ∨ 65535 < v) (blocks : Bool) :
    ∃ e, Gen.sequence_init Gen.TYPE_RELATIVE_TIMELOCK v blocks = .error e := by
  sorry

/-- a CHECKSEQUENCEVERIFY script and an input built from the same helper satisfy each other
under BIP112 in a version-2 transaction -/
theorem bip112_satisfied (v : Nat) (h1 : 1 ≤ v) (h2 : v ≤ 65535) (blocks : Bool) (seq : Bytes) (n : Int)
    (hs : Gen.sequence_for_input Gen.TYPE_RELATIVE_TIMELOCK v blocks = .ok (some seq))
    (hn : Gen.sequence_for_script Gen.TYPE_RELATIVE_TIMELOCK v blocks = .ok n) :
    checkSequenceVerify 2 (ofLE seq) n = true := by
  sorry

/-- the absolute-timelock and replace-by-fee sequences are non-final, so locktime is enforced -/
theorem nonfinal_sequences :
    Gen.sequence_for_input Gen.TYPE_ABSOLUTE_TIMELOCK 0 true = .ok (some Gen.ABSOLUTE_TIMELOCK_SEQUENCE) ∧
    Gen.sequence_for_input Gen.TYPE_REPLACE_BY_FEE 0 true = .ok (some Gen.REPLACE_BY_FEE_SEQUENCE) ∧
    Gen.ABSOLUTE_TIMELOCK_SEQUENCE.length = 4 ∧ Gen.REPLACE_BY_FEE_SEQUENCE.length = 4 ∧
    nonFinal (ofLE Gen.ABSOLUTE_TIMELOCK_SEQUENCE) = true ∧ nonFinal (ofLE Gen.REPLACE_BY_FEE_SEQUENCE) = true := by
  sorry

/-- the locktime helper emits the 32-bit little-endian value -/
theorem locktime_le32 (v : Nat) (h : v < 2 ^ 32) : Gen.locktime_for_transaction v = .ok (leBytes 4 v) := by
  sorry

theorem locktime_rejects (v : Int) (h : v < 0 ∨ 2 ^ 32 ≤ v) : ∃ e, Gen.locktime_for_transaction v = .error e := by
  sorry

/-- numbers pushed into scripts are the script-number encoding of the number … -/
theorem push_integer_scriptnum (k : Nat) :
    Gen.push_integer k = Gen.op_push_data (scriptNum k) := by
  sorry

/-- … which decodes back to the number and is minimally encoded (every `k`, not only 0..2^40) -/
theorem scriptnum_roundtrip (k : Nat) :
    scriptNumDecode (scriptNum k) = k ∧ scriptNumMinimal (scriptNum k) = true := by
  sorry

end C18
