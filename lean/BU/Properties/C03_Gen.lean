import BU.Gen.Codec
import BU.Model.Digest
import BU.Properties.C05_Gen
import BU.Properties.C03
/-!
# C03, continuation — the original SignatureHash as *generated* code (tier T)

`Transaction.get_transaction_digest` is re-translated from the working tree on every run.  The function works on
`tmp_tx = Transaction.copy(self)` and *mutates* it: it blanks every scriptSig, installs the script code, drops or pads the
outputs, zeroes the other sequences, keeps one input.  The translator turns the two record lists of the copy into mutable
*values* (`for txin in tmp.inputs: txin.f = e` is a `map`, `tmp.inputs[i].f = e` is `listGet` + `listSet`, `append`, `= []`,
`= [tmp.inputs[i]]`), which is what a deep copy none of whose objects escapes denotes; that `Transaction.copy` *is* such a copy
is checked structurally by the translator (constructor stores, element-wise `copy`) and is the subject of C13's heap theorems.
For every transaction, input index, script code and hash type the generated function returns — result *and* exception — what
the hand model `Model.legacyDigest` returns, the model about which `C03.legacy_eq` (= Bitcoin Core's `SignatureHash`) is proved.
-/
set_option linter.unusedSimpArgs false
namespace C03Gen
open Py Spec Model Loop C02Gen C01Gen C04Gen C05Gen

/-! ## lists of records as values -/

theorem listSet_map {α β : Type} (f : α → β) (l : List α) (i : Nat) (a : α) :
    Py.listSet (l.map f) (i : Int) (f a) = (l.set i a).map f := by
  unfold Py.listSet
  simp only [show ¬ ((i : Int) < 0) by omega, if_false, Int.toNat_natCast, List.map_set]

theorem blank_map (ins : List TxIn) :
    List.map (fun (txin : Py.PyTxIn) =>
        ({ txid := txin.txid, txout_index := txin.txout_index, script_sig := [], sequence := txin.sequence } : Py.PyTxIn))
      (List.map inPy ins) = (ins.map fun x => { x with scriptSig := [] }).map inPy := by
  rw [List.map_map, List.map_map]; rfl

theorem set_code (l : List TxIn) (i : Nat) (x : TxIn) (code : List Spec.Tok) :
    Py.listSet (l.map inPy) (i : Int)
      ({ txid := (inPy x).txid, txout_index := (inPy x).txout_index, script_sig := code.map toPy, sequence := (inPy x).sequence } : Py.PyTxIn) =
      (l.set i { x with scriptSig := code }).map inPy :=
  listSet_map inPy l i { x with scriptSig := code }

/-- zeroing the sequence of every input but one, as a fold of single updates -/
def zeroStep (i : Nat) (s : List TxIn) (k : Nat) : List TxIn :=
  if k ≠ i then s.modify k (fun x => { x with sequence := [0, 0, 0, 0] }) else s

theorem zero_fold_get (i : Nat) (l : List TxIn) (n j : Nat) :
    ((List.range n).foldl (zeroStep i) l)[j]? =
      (l[j]?).map fun x => if j < n ∧ j ≠ i then { x with sequence := [0, 0, 0, 0] } else x := by
  induction n with
  | zero => simp
  | succ n ih =>
    rw [List.range_succ, List.foldl_append, List.foldl_cons, List.foldl_nil]
    generalize (List.range n).foldl (zeroStep i) l = s at ih ⊢
    unfold zeroStep
    by_cases hn : n = i
    · subst hn
      simp only [ne_eq, not_true_eq_false, if_false]
      rw [ih]
      cases l[j]? with
      | none => rfl
      | some x =>
        simp only [Option.map]
        by_cases hj : j = n
        · subst hj; simp
        · have : (j < n + 1 ∧ j ≠ n) ↔ (j < n ∧ j ≠ n) := by omega
          simp only [this]
    · simp only [ne_eq, hn, not_false_eq_true, if_true, List.getElem?_modify, ih]
      cases l[j]? with
      | none => simp
      | some x =>
        by_cases hj : n = j
        · subst hj; simp [hn]
        · have : (j < n + 1 ∧ j ≠ i) ↔ (j < n ∧ j ≠ i) := by omega
          simp [hj, this]

theorem zero_fold (i : Nat) (l : List TxIn) : (List.range l.length).foldl (zeroStep i) l = zeroOtherSequences l i := by
  apply List.ext_getElem?
  intro j
  rw [zero_fold_get]
  unfold zeroOtherSequences
  rw [List.getElem?_mapIdx]
  cases h : l[j]? with
  | none => rfl
  | some x =>
    have hj : j < l.length := by
      rcases Nat.lt_or_ge j l.length with h' | h'
      · exact h'
      · rw [List.getElem?_eq_none h'] at h; cases h
    simp [hj]

theorem zero_fold_length (i : Nat) (l : List TxIn) (n : Nat) : ((List.range n).foldl (zeroStep i) l).length = l.length := by
  induction n with
  | zero => rfl
  | succ n ih =>
    rw [List.range_succ, List.foldl_append, List.foldl_cons, List.foldl_nil]
    generalize (List.range n).foldl (zeroStep i) l = s at ih ⊢
    unfold zeroStep
    split <;> simp [ih]

theorem set_eq_modify {α : Type} (s : List α) (k : Nat) (x : α) (f : α → α) (h : s[k]? = some x) :
    s.set k (f x) = s.modify k f := by
  apply List.ext_getElem?
  intro j
  rw [List.getElem?_set, List.getElem?_modify]
  by_cases hj : k = j
  · subst hj
    have hk : k < s.length := by
      rcases Nat.lt_or_ge k s.length with h' | h'
      · exact h'
      · rw [List.getElem?_eq_none h'] at h; cases h
    have hx : s[k] = x := by rw [List.getElem?_eq_getElem hk] at h; exact Option.some.inj h
    simp [hk, hx]
  · simp [hj]

def zeroSeq (x : TxIn) : TxIn := { x with sequence := [0, 0, 0, 0] }

/-- the loop that zeroes the other sequences, whatever follows it -/
theorem zero_loop (l : List TxIn) (i : Nat) (K : List Py.PyTxIn → Except PyErr Bytes) :
    ((forIn [:(((l.map inPy).length : Nat) : Int).toNat] (l.map inPy) fun (i_ : Nat) (__s : List Py.PyTxIn) =>
        if (Int.ofNat i_ != (i : Int)) = true then do
          let t2 ← Py.listGet __s (Int.ofNat i_)
          (pure (ForInStep.yield (Py.listSet __s (Int.ofNat i_)
            ({ txid := t2.txid, txout_index := t2.txout_index, script_sig := t2.script_sig, sequence := [0x00, 0x00, 0x00, 0x00] } : Py.PyTxIn))) :
            Except PyErr (ForInStep (List Py.PyTxIn)))
        else pure (ForInStep.yield __s)) >>= K) = K ((zeroOtherSequences l i).map inPy) := by
  rw [List.length_map, Int.toNat_natCast]
  obtain ⟨b, hb, hR⟩ := forIn_range_rel (fun (b : List Py.PyTxIn) (s : List TxIn) => b = s.map inPy ∧ s.length = l.length)
    (zeroStep i) (fun (i_ : Nat) (__s : List Py.PyTxIn) =>
        if (Int.ofNat i_ != (i : Int)) = true then do
          let t2 ← Py.listGet __s (Int.ofNat i_)
          (pure (ForInStep.yield (Py.listSet __s (Int.ofNat i_)
            ({ txid := t2.txid, txout_index := t2.txout_index, script_sig := t2.script_sig, sequence := [0x00, 0x00, 0x00, 0x00] } : Py.PyTxIn))) :
            Except PyErr (ForInStep (List Py.PyTxIn)))
        else pure (ForInStep.yield __s)) l.length
    (by
      intro k hk b s ⟨hbs, hlen⟩
      subst hbs
      unfold zeroStep
      by_cases hki : k = i
      · subst hki
        refine ⟨s.map inPy, ?_, ?_⟩
        · simp [pure, Except.pure]
        · simp [hlen]
      · have c : (Int.ofNat k != (i : Int)) = true := by simp; omega
        have hk' : k < s.length := by omega
        have hg : s[k]? = some s[k] := List.getElem?_eq_getElem hk'
        refine ⟨(s.modify k zeroSeq).map inPy, ?_, ?_⟩
        · simp only [c, if_true]
          rw [show Int.ofNat k = ((k : Nat) : Int) from rfl, listGet_map, hg]
          simp only []
          rw [ok_bind]
          have e : (⟨(inPy s[k]).txid, (inPy s[k]).txout_index, (inPy s[k]).script_sig, [0x00, 0x00, 0x00, 0x00]⟩ : Py.PyTxIn) =
              inPy (zeroSeq s[k]) := rfl
          show pure (ForInStep.yield (Py.listSet (List.map inPy s) (k : Int)
            (⟨(inPy s[k]).txid, (inPy s[k]).txout_index, (inPy s[k]).script_sig, [0x00, 0x00, 0x00, 0x00]⟩ : Py.PyTxIn))) = _
          rw [e, listSet_map, set_eq_modify s k s[k] zeroSeq hg]
          rfl
        · exact ⟨by rw [if_pos hki]; rfl, by rw [if_pos hki, List.length_modify]; exact hlen⟩)
    (l.map inPy) l ⟨rfl, rfl⟩
  rw [hb, ok_bind, hR.1, zero_fold]

def padOut : TxOut := { amount := -1, script := [] }

/-- the SINGLE padding loop, whatever follows it -/
theorem pad_loop (i : Nat) (K : List Py.PyTxOut → Except PyErr Bytes) :
    ((forIn [:((i : Nat) : Int).toNat] ([] : List Py.PyTxOut) fun (i_ : Nat) (__s : List Py.PyTxOut) =>
        (pure (ForInStep.yield (__s ++ [(⟨(-1 : Int), ([] : List Py.PyTok)⟩ : Py.PyTxOut)])) :
          Except PyErr (ForInStep (List Py.PyTxOut)))) >>= K) = K ((List.replicate i padOut).map outPy) := by
  rw [Int.toNat_natCast]
  obtain ⟨b, hb, hR⟩ := forIn_range_rel (fun (b s : List Py.PyTxOut) => b = s)
    (fun s _ => s ++ [outPy padOut]) (fun (i_ : Nat) (__s : List Py.PyTxOut) =>
        (pure (ForInStep.yield (__s ++ [(⟨(-1 : Int), ([] : List Py.PyTok)⟩ : Py.PyTxOut)])) :
          Except PyErr (ForInStep (List Py.PyTxOut)))) i
    (by intro k _ b s hbs; subst hbs; exact ⟨_, rfl, rfl⟩) [] [] rfl
  rw [hb, ok_bind, hR]
  congr 1
  have : ∀ (n : Nat) (acc : List Py.PyTxOut),
      (List.range n).foldl (fun s _ => s ++ [outPy padOut]) acc = acc ++ (List.replicate n padOut).map outPy := by
    intro n
    induction n with
    | zero => intro acc; simp
    | succ n ih =>
      intro acc
      rw [List.range_succ, List.foldl_append, ih, List.replicate_succ', List.map_append]
      simp [List.append_assoc]
  rw [this]; simp

/-- `Transaction.to_bytes(False)`: the witnesses are not looked at -/
theorem gen_transaction_to_bytes_false (T : Tables) (t : Tx) (ws : List Py.PyWit)
    (hi : ∀ i ∈ t.inputs, ∀ b, inScript T i = .ok b → b.length < 2 ^ 64)
    (ho : ∀ o ∈ t.outputs, ∀ b, scriptBytes T o.script = .ok b → b.length < 2 ^ 64)
    (hni : t.inputs.length < 2 ^ 64) (hno : t.outputs.length < 2 ^ 64) :
    Gen.transaction_to_bytes T.opCodes t.version (t.inputs.map inPy) (t.outputs.map outPy) ws t.locktime false =
      Tx.toBytes T t false := by
  unfold Gen.transaction_to_bytes Tx.toBytes
  simp only [Bool.false_eq_true, if_false, List.length_map]
  rw [C17.encode_varint_eq_spec _ hni, ok_bind, C17.encode_varint_eq_spec _ hno, ok_bind, loop_inputs T t.inputs _ hi]
  cases concatM (t.inputs.map (TxIn.toBytes T)) with
  | error e => rfl
  | ok a =>
    simp only [Except.map, ok_bind]
    rw [C01Gen.loop_outputs T t.outputs _ ho]
    cases concatM (t.outputs.map (TxOut.toBytes T)) with
    | error e => rfl
    | ok b => simp [Except.map, ok_bind, pure, Except.pure, List.append_assoc]

/-! ## the temporary transaction is small when the original and the script code are -/

/-- every input of the temporary transaction has an empty scriptSig or the script code -/
def Blankish (code : List Spec.Tok) (y : TxIn) : Prop := y.scriptSig = [] ∨ y.scriptSig = code

theorem inScript_small (T : Tables) (code : List Spec.Tok)
    (hcode : ∀ (y : TxIn) b, inScript T { y with scriptSig := code } = .ok b → b.length < 2 ^ 64)
    (y : TxIn) (hy : Blankish code y) : ∀ b, inScript T y = .ok b → b.length < 2 ^ 64 := by
  intro b hb
  rcases hy with h | h
  · unfold inScript at hb
    rw [h] at hb
    split at hb
    · cases hb
    · have : b = [] := by
        have e : scriptBytes T [] = .ok [] := rfl
        rw [e] at hb; exact (Except.ok.inj hb).symm
      subst this; decide
  · have e : y = { y with scriptSig := code } := by cases y; simp only [] at h; subst h; rfl
    rw [e] at hb
    exact hcode y b hb

theorem blankish_zero (code : List Spec.Tok) (l : List TxIn) (i : Nat) (h : ∀ y ∈ l, Blankish code y) :
    ∀ y ∈ zeroOtherSequences l i, Blankish code y := by
  intro y hy
  obtain ⟨k, hk⟩ := List.mem_iff_getElem?.mp hy
  unfold zeroOtherSequences at hk
  rw [List.getElem?_mapIdx] at hk
  cases hz : l[k]? with
  | none => rw [hz] at hk; cases hk
  | some z =>
    rw [hz] at hk
    have hzl : z ∈ l := List.mem_of_getElem? hz
    have := h z hzl
    simp only [Option.map] at hk
    have e := Option.some.inj hk
    subst e
    unfold Blankish at this ⊢
    split <;> exact this

theorem zero_length (l : List TxIn) (i : Nat) : (zeroOtherSequences l i).length = l.length := by
  unfold zeroOtherSequences; simp

/-- serialising the temporary transaction -/
theorem ser_eq (T : Tables) (t : Tx) (code : List Spec.Tok) (ws : List Py.PyWit)
    (hcode : ∀ (y : TxIn) b, inScript T { y with scriptSig := code } = .ok b → b.length < 2 ^ 64)
    (ho : ∀ o ∈ t.outputs, ∀ b, scriptBytes T o.script = .ok b → b.length < 2 ^ 64)
    (hni : t.inputs.length < 2 ^ 64) (hno : t.outputs.length < 2 ^ 64)
    (X : List TxIn) (Y : List TxOut) (hX : ∀ y ∈ X, Blankish code y) (hY : ∀ o ∈ Y, o ∈ t.outputs ∨ o = padOut)
    (hlx : X.length ≤ t.inputs.length) (hly : Y.length ≤ t.outputs.length) :
    Gen.transaction_to_bytes T.opCodes t.version (X.map inPy) (Y.map outPy) ws t.locktime false =
      Tx.toBytes T { t with inputs := X, outputs := Y } false :=
  gen_transaction_to_bytes_false T { t with inputs := X, outputs := Y } ws
    (fun y hy => inScript_small T code hcode y (hX y hy))
    (fun o ho' b hb => by
      rcases hY o ho' with h | h
      · exact ho o h b hb
      · subst h
        have : b = [] := by
          have e : scriptBytes T padOut.script = .ok [] := rfl
          rw [e] at hb; exact (Except.ok.inj hb).symm
        subst this; decide)
    (by show X.length < 2 ^ 64; omega) (by show Y.length < 2 ^ 64; omega)

/-! ## the digest -/

theorem bne_cast0 (n : Nat) : (((n : Int) != 0)) = (n != 0) := bne_cast n 0

/-- **original SignatureHash**: the translated `get_transaction_digest` is the model's, for every transaction, index, script
code and hash type, whatever the witnesses (counts and scripts below 2^64) -/
theorem gen_legacy_digest (sha256 : Bytes → Bytes) (T : Tables) (t : Tx) (i : Nat) (code : List Spec.Tok) (ht : Nat)
    (ws : List Py.PyWit)
    (hcode : ∀ (y : TxIn) b, inScript T { y with scriptSig := code } = .ok b → b.length < 2 ^ 64)
    (ho : ∀ o ∈ t.outputs, ∀ b, scriptBytes T o.script = .ok b → b.length < 2 ^ 64)
    (hni : t.inputs.length < 2 ^ 64) (hno : t.outputs.length < 2 ^ 64) :
    Gen.legacy_digest sha256 T.opCodes t.version (t.inputs.map inPy) (t.outputs.map outPy) ws t.locktime (i : Int)
      (code.map toPy) (ht : Int) = legacyDigest sha256 T t i code ht := by
  unfold Gen.legacy_digest
  simp only []
  simp only [blank_map]
  rw [listGet_map]
  unfold legacyDigest
  simp only []
  cases h0 : (t.inputs.map fun x => { x with scriptSig := [] })[i]? with
  | none => rfl
  | some x =>
    simp only []
    rw [ok_bind]
    simp only [set_code, zero_loop, pad_loop, land31, C05Gen.land128]
    simp only [show ∀ n : Nat, ((n : Int) == 3) = (n == 3) from fun n => beq_cast n 3,
      show ∀ n : Nat, ((n : Int) == 2) = (n == 2) from fun n => beq_cast n 2, bne_cast0, List.length_map]
    have hi : i < t.inputs.length := by
      rcases Nat.lt_or_ge i t.inputs.length with h' | h'
      · exact h'
      · rw [List.getElem?_eq_none (by simpa using h')] at h0; cases h0
    generalize hins1 : (List.map (fun (x : TxIn) => ({ x with scriptSig := [] } : TxIn)) t.inputs).set i { x with scriptSig := code } = ins1
    have hlen1 : ins1.length = t.inputs.length := by subst hins1; simp
    have hB1 : ∀ y ∈ ins1, Blankish code y := by
      intro y hy
      subst hins1
      rcases List.mem_or_eq_of_mem_set hy with h | h
      · obtain ⟨z, _, hz⟩ := List.mem_map.mp h
        subst hz; exact Or.inl rfl
      · subst h; exact Or.inr rfl
    have hBz := blankish_zero code ins1 i hB1
    have hlenz := zero_length ins1 i
    have ser := ser_eq T t code ws hcode ho hni hno
    -- the kept input under ANYONECANPAY
    have keep : ∀ (l : List TxIn), l.length = t.inputs.length → ∃ y, l[i]? = some y ∧ y ∈ l := fun l hl =>
      ⟨l[i]'(by omega), List.getElem?_eq_getElem (by omega), List.getElem_mem _⟩
    -- the outputs kept under SINGLE
    have souts : ∀ o, t.outputs[i]? = some o →
        (∀ o' ∈ List.replicate i padOut ++ [o], o' ∈ t.outputs ∨ o' = padOut) ∧
        (List.replicate i padOut ++ [o]).length ≤ t.outputs.length := by
      intro o hso
      have hio : i < t.outputs.length := by
        rcases Nat.lt_or_ge i t.outputs.length with h' | h'
        · exact h'
        · rw [List.getElem?_eq_none h'] at hso; cases hso
      refine ⟨?_, by simp; omega⟩
      intro o' ho'
      rcases List.mem_append.mp ho' with h | h
      · exact Or.inr (List.eq_of_mem_replicate h)
      · rw [List.mem_singleton] at h; subst h; exact Or.inl (List.mem_of_getElem? hso)
    by_cases hA : ht &&& 128 = 0
    · have cA : (ht &&& 128 != 0) = false := by simp [hA]
      simp only [cA, Bool.false_eq_true, if_false]
      simp only [hA, ne_eq, not_true_eq_false, if_false]
      by_cases h2 : ht &&& 31 = 2
      · simp only [h2, beq_self_eq_true, if_true, pure_bind]
        rw [show ([] : List Py.PyTxOut) = List.map outPy [] from rfl,
          ser (zeroOtherSequences ins1 i) [] hBz (by simp) (by omega) (by simp)]
      · have c2 : (ht &&& 31 == 2) = false := by simpa using h2
        simp only [c2, h2, Bool.false_eq_true, if_false]
        by_cases h3 : ht &&& 31 = 3
        · simp only [h3, beq_self_eq_true, if_true]
          rw [listGet_map]
          cases hso : t.outputs[i]? with
          | none =>
            have : t.outputs.length ≤ i := by
              rcases Nat.lt_or_ge i t.outputs.length with h' | h'
              · rw [List.getElem?_eq_getElem h'] at hso; cases hso
              · exact h'
            have cd : decide ((i : Int) ≥ (t.outputs.length : Int)) = true := by simp; omega
            simp only [cd, if_true, throw_eq_error, error_bind]
          | some o =>
            obtain ⟨hY, hly⟩ := souts o hso
            have hio : i < t.outputs.length := by simp at hly; omega
            have cd : decide ((i : Int) ≥ (t.outputs.length : Int)) = false := by simp; omega
            simp only [cd, Bool.false_eq_true, if_false, pure_bind]
            rw [ok_bind, show List.map outPy (List.replicate i padOut) ++ [outPy o] = List.map outPy (List.replicate i padOut ++ [o]) by simp,
              ser (zeroOtherSequences ins1 i) _ hBz hY (by omega) hly]
            rfl
        · have c3 : (ht &&& 31 == 3) = false := by simpa using h3
          simp only [c3, h3, Bool.false_eq_true, if_false, pure_bind]
          rw [ser ins1 t.outputs hB1 (fun o h => Or.inl h) (by omega) (Nat.le_refl _)]
    · have cA : (ht &&& 128 != 0) = true := by simpa using hA
      simp only [cA, if_true]
      simp only [hA, ne_eq, not_false_eq_true, if_true]
      obtain ⟨y1, hy1, hm1⟩ := keep ins1 hlen1
      obtain ⟨yz, hyz, hmz⟩ := keep (zeroOtherSequences ins1 i) (by omega)
      by_cases h2 : ht &&& 31 = 2
      · simp only [h2, beq_self_eq_true, if_true, pure_bind, hyz]
        rw [listGet_map, hyz]
        simp only []
        rw [ok_bind, show [inPy yz] = List.map inPy [yz] from rfl, show ([] : List Py.PyTxOut) = List.map outPy [] from rfl,
          ser [yz] [] (by intro y hy; rw [List.mem_singleton] at hy; subst hy; exact hBz _ hmz) (by simp) (by simp; omega) (by simp)]
      · have c2 : (ht &&& 31 == 2) = false := by simpa using h2
        simp only [c2, h2, Bool.false_eq_true, if_false]
        by_cases h3 : ht &&& 31 = 3
        · simp only [h3, beq_self_eq_true, if_true]
          rw [listGet_map]
          cases hso : t.outputs[i]? with
          | none =>
            have : t.outputs.length ≤ i := by
              rcases Nat.lt_or_ge i t.outputs.length with h' | h'
              · rw [List.getElem?_eq_getElem h'] at hso; cases hso
              · exact h'
            have cd : decide ((i : Int) ≥ (t.outputs.length : Int)) = true := by simp; omega
            simp only [cd, if_true, throw_eq_error, error_bind]
          | some o =>
            obtain ⟨hY, hly⟩ := souts o hso
            have hio : i < t.outputs.length := by simp at hly; omega
            have cd : decide ((i : Int) ≥ (t.outputs.length : Int)) = false := by simp; omega
            simp only [cd, Bool.false_eq_true, if_false, pure_bind, hyz]
            rw [ok_bind, listGet_map, hyz]
            simp only []
            rw [ok_bind, show [inPy yz] = List.map inPy [yz] from rfl,
              show List.map outPy (List.replicate i padOut) ++ [outPy o] = List.map outPy (List.replicate i padOut ++ [o]) by simp,
              ser [yz] _ (by intro y hy; rw [List.mem_singleton] at hy; subst hy; exact hBz _ hmz) hY (by simp; omega) hly]
            rfl
        · have c3 : (ht &&& 31 == 3) = false := by simpa using h3
          simp only [c3, h3, Bool.false_eq_true, if_false, pure_bind, hy1]
          rw [listGet_map, hy1]
          simp only []
          rw [ok_bind, show [inPy y1] = List.map inPy [y1] from rfl,
            ser [y1] t.outputs (by intro y hy; rw [List.mem_singleton] at hy; subst hy; exact hB1 _ hm1) (fun o h => Or.inl h)
              (by simp; omega) (Nat.le_refl _)]

/-- **SignatureHash, end to end**: for a well-formed transaction without null-outpoint inputs, a well-formed script code and every
one-byte hash type, the translated digest function run with the generated opcode dictionary returns the double-SHA256 of Bitcoin
Core's `SignatureHash` pre-image -/
theorem gen_legacy_digest_eq_core (sha256 : Bytes → Bytes) (t : Tx)
    (h : C01.WFTx C02.genTables t = true) (hn : C03.noNullInputs t = true) (i : Nat) (hi : i < t.inputs.length)
    (code : List Spec.Tok) (hc : C01.WFScript C02.genTables code = true) (ht : Nat) (hht : ht < 256)
    (hs : ht &&& 0x1f = 3 → i < t.outputs.length) (ws : List Py.PyWit)
    (hcode : ∀ (y : TxIn) b, inScript C02.genTables { y with scriptSig := code } = .ok b → b.length < 2 ^ 64)
    (ho : ∀ o ∈ t.outputs, ∀ b, scriptBytes C02.genTables o.script = .ok b → b.length < 2 ^ 64)
    (hni : t.inputs.length < 2 ^ 64) (hno : t.outputs.length < 2 ^ 64) :
    ∃ r c, C01.assembleTx t = some r ∧ encToks code = some c ∧
      Gen.legacy_digest sha256 Gen.OP_CODES t.version (t.inputs.map inPy) (t.outputs.map outPy) ws t.locktime (i : Int)
          (code.map toPy) (ht : Int) = .ok (sha256 (sha256 (legacyPreimage r i c ht))) := by
  obtain ⟨r, c, h1, h2, h3⟩ := C03.legacy_eq sha256 C02.genTables C02.tables_ok t h hn i hi code hc ht hht hs
  exact ⟨r, c, h1, h2, by rw [← h3]; exact gen_legacy_digest sha256 C02.genTables t i code ht ws hcode ho hni hno⟩

/-- SINGLE without a matching output is refused by the translated code too -/
theorem gen_single_refuses (sha256 : Bytes → Bytes) (T : Tables) (t : Tx) (i : Nat) (code : List Spec.Tok) (ht : Nat)
    (ws : List Py.PyWit)
    (hcode : ∀ (y : TxIn) b, inScript T { y with scriptSig := code } = .ok b → b.length < 2 ^ 64)
    (ho : ∀ o ∈ t.outputs, ∀ b, scriptBytes T o.script = .ok b → b.length < 2 ^ 64)
    (hni : t.inputs.length < 2 ^ 64) (hno : t.outputs.length < 2 ^ 64)
    (hs : ht &&& 0x1f = 3) (hout : t.outputs.length ≤ i) :
    ∃ e, Gen.legacy_digest sha256 T.opCodes t.version (t.inputs.map inPy) (t.outputs.map outPy) ws t.locktime (i : Int)
      (code.map toPy) (ht : Int) = .error e := by
  rw [gen_legacy_digest sha256 T t i code ht ws hcode ho hni hno]
  exact C03.single_refuses sha256 T t i code ht hs hout

end C03Gen
