import BU.Properties.C14_Gen
import BU.Properties.C09_Gen
/-!
# C14, continuation — `PublicKey.verify` and the recovery branch of `PublicKey.__init__` as *generated* code (tier T)

`PublicKey(message=…, signature=…)` — the constructor called without a hex string: empty-message and length checks, the header
window 27..34, recovery id `(header − 27) % 4`, the digest, the pick among the recovered keys — and `PublicKey.verify` are
re-translated from the working tree on every run.  python-ecdsa's `from_public_key_recovery_with_digest`, `verify_digest` and
base64 are parameters; the message is the bytes of its UTF-8 encoding.  The digest handed to python-ecdsa is proved to be
double-SHA256 of Bitcoin Core's magic prefix ‖ CompactSize(byte length) ‖ message (through the tier-T `add_magic_prefix`), for the
signature with its header byte removed; every header outside 27..34 and every signature that is not 65 bytes long is refused.
-/
namespace C14GenMsg
open Py Model Spec C14Gen

theorem okb {α β : Type} (a : α) (f : α → Except PyErr β) : (Except.ok a >>= f) = f a := by rw [ok_bind]
theorem thb {α β : Type} (e : PyErr) (f : α → Except PyErr β) : ((throw e : Except PyErr α) >>= f) = throw e := by
  cases e <;> rfl

/-- `PublicKey.verify(signature, message)`: python-ecdsa's `verify_digest` on the base64-decoded signature without its header byte and
the standard message digest -/
theorem gen_pubkey_verify (sha256 : Bytes → Bytes) (b64 : Bytes → Except PyErr Bytes) (vd : Bytes → Bytes → Except PyErr Bool)
    (sig msg : Bytes) (hml : msg.length < 2 ^ 64) (hb : ∀ y, b64 sig = .ok y → y.length < 2 ^ 62) :
    Gen.pubkey_verify sha256 b64 vd sig msg =
      (b64 sig >>= fun s => vd (s.drop 1) (msgDigest sha256 Gen.MAGIC_PREFIX msg)) := by
  unfold Gen.pubkey_verify
  rw [gen_add_magic_prefix msg hml, ok_bind]
  simp only []
  cases hs : b64 sig with
  | error e => rfl
  | ok s =>
    simp only [okb]
    rw [C09Gen.slice_from1 s (hb s hs)]
    unfold msgDigest
    cases vd (s.drop 1) (sha256 (sha256 (addMagicPrefix Gen.MAGIC_PREFIX msg))) <;> rfl

/-- the recovery branch on a well-formed request: header `h` in 27..34 selects candidate `(h − 27) % 4` among the keys python-ecdsa
recovers from the 64 signature bytes and the standard message digest -/
theorem gen_pubkey_recover (sha256 : Bytes → Bytes) (rk : Bytes → Bytes → Except PyErr (List (Nat × Nat))) (msg : Bytes) (h : UInt8)
    (rs : Bytes) (hm : msg ≠ []) (hml : msg.length < 2 ^ 64) (hrs : rs.length = 64) (hh : 27 ≤ h.toNat ∧ h.toNat ≤ 34) :
    Gen.pubkey_recover sha256 rk msg (h :: rs) =
      (rk rs (msgDigest sha256 Gen.MAGIC_PREFIX msg) >>= fun ks => Py.listGet ks (((h.toNat : Int) - 27) % 4)) := by
  unfold Gen.pubkey_recover
  have c1 : ((!msg.isEmpty) || (!(h :: rs).isEmpty)) = true := by
    cases msg with
    | nil => exact absurd rfl hm
    | cons a t => rfl
  have c2 : (!(!msg.isEmpty)) = false := by
    cases msg with
    | nil => exact absurd rfl hm
    | cons a t => rfl
  have c3 : (Py.len (h :: rs) != (65 : Int)) = false := by unfold Py.len; rw [List.length_cons, hrs]; rfl
  have i0 : Py.index (h :: rs) 0 = .ok (h.toNat : Int) := rfl
  have c4 : (!(decide ((27 : Int) ≤ (h.toNat : Int)) && decide ((h.toNat : Int) ≤ (34 : Int)))) = false := by
    have a : ((27 : Int) ≤ (h.toNat : Int)) := by omega
    have b : ((h.toNat : Int) ≤ (34 : Int)) := by omega
    simp [a, b]
  simp only [c1, if_true, c2, Bool.false_eq_true, if_false, c3, i0, okb, c4, gen_add_magic_prefix msg hml]
  rw [C09Gen.slice_from1 (h :: rs) (by rw [List.length_cons, hrs]; decide)]
  rfl

/-- refusals of the recovery branch: an empty message, a signature that is not 65 bytes long, a header outside 27..34, and (neither
message nor signature) the constructor's TypeError -/
theorem gen_pubkey_recover_rejects (sha256 : Bytes → Bytes) (rk : Bytes → Bytes → Except PyErr (List (Nat × Nat))) (msg sig : Bytes) :
    (msg = [] → sig ≠ [] → Gen.pubkey_recover sha256 rk msg sig = .error .valueError) ∧
    (msg ≠ [] → sig.length ≠ 65 → Gen.pubkey_recover sha256 rk msg sig = .error .valueError) ∧
    (msg = [] → sig = [] → Gen.pubkey_recover sha256 rk msg sig = .error .typeError) ∧
    (∀ (h : UInt8) (rs : Bytes), msg ≠ [] → sig = h :: rs → rs.length = 64 → (h.toNat < 27 ∨ 34 < h.toNat) →
      Gen.pubkey_recover sha256 rk msg sig = .error .valueError) := by
  refine ⟨?_, ?_, ?_, ?_⟩
  · intro hm hs
    subst hm
    cases sig with
    | nil => exact absurd rfl hs
    | cons a t => rfl
  · intro hm hs
    unfold Gen.pubkey_recover
    cases msg with
    | nil => exact absurd rfl hm
    | cons a t =>
      have c3 : (Py.len sig != (65 : Int)) = true := by
        unfold Py.len
        have : ¬ ((sig.length : Int) = 65) := by omega
        simpa using this
      simp only [List.isEmpty_cons, Bool.not_false, Bool.true_or, if_true, Bool.not_true, Bool.false_eq_true, if_false, c3, thb]
      rfl
  · intro hm hs; subst hm; subst hs; rfl
  · intro h rs hm hs hrs hh
    subst hs
    unfold Gen.pubkey_recover
    cases msg with
    | nil => exact absurd rfl hm
    | cons a t =>
      have c3 : (Py.len (h :: rs) != (65 : Int)) = false := by unfold Py.len; rw [List.length_cons, hrs]; rfl
      have i0 : Py.index (h :: rs) 0 = .ok (h.toNat : Int) := rfl
      have c4 : (!(decide ((27 : Int) ≤ (h.toNat : Int)) && decide ((h.toNat : Int) ≤ (34 : Int)))) = true := by
        rcases hh with hh | hh
        · have a : ¬ ((27 : Int) ≤ (h.toNat : Int)) := by omega
          simp [a]
        · have b : ¬ ((h.toNat : Int) ≤ (34 : Int)) := by omega
          simp [b]
      simp only [List.isEmpty_cons, Bool.not_false, Bool.true_or, if_true, Bool.not_true, Bool.false_eq_true, if_false, c3, i0, okb, c4, thb]
      rfl

/-- what python-ecdsa's `from_public_key_recovery_with_digest` is assumed to return, as far as the constructor uses it: the candidate
picked at index `k` is the Spec's ECDSA public-key recovery with recovery id `k` -/
def RecoverSpec (rk : Bytes → Bytes → Except PyErr (List (Nat × Nat))) : Prop :=
  ∀ (rs dg : Bytes) (ks : List (Nat × Nat)) (k : Nat) (q : Nat × Nat), rk rs dg = .ok ks → ks[k]? = some q →
    ecdsaRecover (ofBE dg) (ofBE (rs.take 32)) (ofBE ((rs.drop 32).take 32)) k = some q

/-- **the recovered key is the Spec's**: under that assumption, whatever key the translated constructor holds is the one the hand
model `Model.recoverPub` (Spec recovery from the standard digest) returns -/
theorem gen_recover_sound (sha256 : Bytes → Bytes) (rk : Bytes → Bytes → Except PyErr (List (Nat × Nat))) (hrk : RecoverSpec rk)
    (msg : Bytes) (h : UInt8) (rs : Bytes) (hm : msg ≠ []) (hml : msg.length < 2 ^ 64) (hrs : rs.length = 64)
    (hh : 27 ≤ h.toNat ∧ h.toNat ≤ 34) (q : Nat × Nat)
    (hq : Gen.pubkey_recover sha256 rk msg (h :: rs) = .ok q) :
    recoverPub sha256 Gen.MAGIC_PREFIX msg (h :: rs) = .ok q := by
  rw [gen_pubkey_recover sha256 rk msg h rs hm hml hrs hh] at hq
  cases hks : rk rs (msgDigest sha256 Gen.MAGIC_PREFIX msg) with
  | error e => rw [hks] at hq; cases hq
  | ok ks =>
    rw [hks, okb] at hq
    have hk : (((h.toNat : Int) - 27) % 4) = (((h.toNat - 27) % 4 : Nat) : Int) := by omega
    rw [hk] at hq
    have hget : ks[(h.toNat - 27) % 4]? = some q := by
      unfold Py.listGet at hq
      simp only [show ¬ ((((h.toNat - 27) % 4 : Nat) : Int) < 0) by omega, if_false, Int.toNat_natCast] at hq
      cases hx : ks[(h.toNat - 27) % 4]? with
      | none => rw [hx] at hq; cases hq
      | some y => rw [hx] at hq; cases hq; rfl
    have hspec := hrk rs _ ks _ q hks hget
    unfold recoverPub
    have e1 : msg.isEmpty = false := by
      cases msg with
      | nil => exact absurd rfl hm
      | cons a t => rfl
    have e2 : ¬ ((h :: rs).length ≠ 65) := by rw [List.length_cons, hrs]; decide
    have e3 : (!(decide (27 ≤ h.toNat ∧ h.toNat ≤ 34))) = false := by simp [hh.1, hh.2]
    simp only [e1, Bool.false_eq_true, if_false, e2, List.getD_cons_zero, e3, List.drop_one, List.tail_cons]
    have hd : List.drop 33 (h :: rs) = rs.drop 32 := rfl
    rw [hd, hspec]
    rfl

end C14GenMsg
