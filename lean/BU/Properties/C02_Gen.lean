import BU.Gen.Codec
import BU.Properties.C02
import BU.Proofs.LoopLemmas
/-!
# C02, continuation — `Script.to_bytes` as *generated* code (tier T)

The assembly loop of `bitcoinutils/script.py` is re-translated from the working tree on every run (`Gen.script_to_bytes`: the
`for token in self.script` loop, the `token in OP_CODES` / `isinstance(token, int)` dispatch, the `OP_0..OP_16` shortcut, the
calls to `_push_integer` / `_op_push_data`).  A token is an opcode name, a hex string (modelled by the bytes it denotes) or an
int.  On every token list and every opcode table the generated function returns — result *and* exception or not — what the
hand model `Model.scriptBytes` returns, about which `C02.assemble`, `disasm_assemble`, `reassemble` are proved.
-/
namespace C02Gen
open Py Spec Model Loop

/-- a token of the model as the Python value it stands for -/
def toPy : Spec.Tok → Py.PyTok
  | .op name => .name name
  | .int n => .int n
  | .data d => .data d

/-- the accumulation loop `acc += g(x)` with a body that may raise -/
def accum {α : Type} (g : α → Except PyErr Bytes) : List α → Except PyErr Bytes
  | [] => .ok []
  | x :: xs => do
    let a ← g x
    let b ← accum g xs
    pure (a ++ b)

theorem forIn_append {α : Type} (g : α → Except PyErr Bytes) (xs : List α) (acc : Bytes) :
    forIn (m := Except PyErr) xs acc (fun t a => g t >>= fun b => (pure (ForInStep.yield (a ++ b)) : Except PyErr (ForInStep Bytes))) =
      (accum g xs).map (acc ++ ·) := by
  induction xs generalizing acc with
  | nil => simp [accum, Except.map, pure, Except.pure]
  | cons x xs ih =>
    rw [List.forIn_cons, accum]
    cases g x with
    | error e => rfl
    | ok a =>
      rw [ok_bind, ok_bind]
      show (forIn xs (acc ++ a) fun t a => g t >>= fun b => (pure (ForInStep.yield (a ++ b)) : Except PyErr (ForInStep Bytes))) = _
      rw [ih]
      cases accum g xs with
      | error e => rfl
      | ok b => simp [Except.map, pure, Except.pure, bind, Except.bind]

theorem accum_eq_scriptBytes (T : Tables) (toks : List Spec.Tok) : accum (tokBytes T) toks = scriptBytes T toks := by
  induction toks with
  | nil => rfl
  | cons t ts ih => rw [accum, scriptBytes, ih]

/-- one iteration of the generated loop is `tokBytes` followed by the append -/
theorem body_eq (T : Tables) (t : Spec.Tok) (acc : Bytes) :
    (if Py.tokInTable T.opCodes (toPy t) = true then do
        let t1 ← Py.tokLookup T.opCodes (toPy t)
        pure (ForInStep.yield (acc ++ t1))
      else
        if (Py.tokIsInt (toPy t) && decide (Py.tokInt (toPy t) ≥ 0) && decide (Py.tokInt (toPy t) ≤ 16)) = true then do
          let t2 ← Py.lookupS T.opCodes ("OP_" ++ Py.strInt (Py.tokInt (toPy t)))
          pure (ForInStep.yield (acc ++ t2))
        else
          if Py.tokIsInt (toPy t) = true then do
            let t3 ← Gen.push_integer (Py.tokInt (toPy t))
            pure (ForInStep.yield (acc ++ t3))
          else do
            let t4 ← Py.tokData (toPy t)
            let t5 ← Gen.op_push_data t4
            pure (ForInStep.yield (acc ++ t5)) : Except PyErr (ForInStep Bytes)) =
      tokBytes T t >>= fun b => pure (ForInStep.yield (acc ++ b)) := by
  cases t with
  | op name =>
    simp only [toPy, Py.tokInTable, tokBytes, Py.tokLookup, Py.lookupS, Py.tokIsInt, Py.tokData]
    by_cases hs : (T.opCodes.lookup name).isSome = true
    · obtain ⟨b, hb⟩ := Option.isSome_iff_exists.mp hs
      simp only [hb, Option.isSome_some, if_true]
    · have hn : T.opCodes.lookup name = none := by
        cases h : T.opCodes.lookup name with
        | none => rfl
        | some b => rw [h] at hs; simp at hs
      simp only [hn, Option.isSome_none, Bool.false_eq_true, if_false, Bool.false_and, error_bind]
  | int n =>
    simp only [toPy, Py.tokInTable, Py.tokIsInt, Py.tokInt, tokBytes, Bool.false_eq_true, if_false, Bool.true_and, if_true]
    by_cases hr : 0 ≤ n ∧ n ≤ 16
    · rw [if_pos hr]
      split
      · unfold Py.lookupS Py.strInt
        cases T.opCodes.lookup ("OP_" ++ toString n) <;> rfl
      · rename_i hc
        exact absurd (by simp [hr.1, hr.2]) hc
    · rw [if_neg hr]
      split
      · rename_i hc
        simp only [Bool.and_eq_true] at hc
        exact absurd ⟨of_decide_eq_true hc.1, of_decide_eq_true hc.2⟩ hr
      · rw [C02.push_integer_eq_spec n (by omega)]
  | data d =>
    simp only [toPy, Py.tokInTable, Py.tokIsInt, Py.tokData, tokBytes, Bool.false_eq_true, if_false, Bool.false_and, ok_bind]
    rw [C02.op_push_data_eq_spec]

/-- **assembly**: the translated `Script.to_bytes` is the model's, on every token list and opcode table -/
theorem gen_script_to_bytes (T : Tables) (toks : List Spec.Tok) :
    Gen.script_to_bytes T.opCodes (toks.map toPy) = scriptBytes T toks := by
  unfold Gen.script_to_bytes
  simp only []
  rw [List.forIn_map]
  have hb : (fun (t : Spec.Tok) (acc : Bytes) => tokBytes T t >>= fun b => (pure (ForInStep.yield (acc ++ b)) : Except PyErr (ForInStep Bytes))) = _ :=
    funext fun t => funext fun acc => (body_eq T t acc).symm
  rw [← hb, forIn_append, accum_eq_scriptBytes]
  cases scriptBytes T toks <;> rfl

/-- **assembly, end to end**: for well-formed tokens the translated `Script.to_bytes`, run with the generated opcode dictionary,
returns the consensus byte encoding of the script (one byte per opcode, OP_0..OP_16 for 0..16, the minimal script-number push for
larger integers, the smallest push form for data) -/
theorem gen_assemble (toks : List Spec.Tok) (h : ∀ t ∈ toks, C02.WFTok C02.genTables t = true) :
    ∃ bs, Gen.script_to_bytes Gen.OP_CODES (toks.map toPy) = .ok bs ∧ encToks toks = some bs := by
  obtain ⟨bs, h1, h2⟩ := C02.assemble C02.genTables C02.tables_ok toks h
  exact ⟨bs, by rw [← h1]; exact gen_script_to_bytes C02.genTables toks, h2⟩

end C02Gen
