import BU.Gen.Codec
import BU.Properties.C02
import BU.Proofs.LoopLemmas
/-!
# C02, continuation — `Script.to_bytes` as *generated* code (tier T)

The assembly loop of `bitcoinutils/script.py` is re-translated from the working tree on every run (`Gen.script_to_bytes`: the
`for token in self.script` loop, the `token in OP_CODES` / `isinstance(token, int)` dispatch, the `OP_0..OP_16` shortcut, the
calls to `_push_integer` / `_op_push_data`).  A token is an opcode name, a hex string (modelled by the bytes it denotes) or an
int.  On every token list and every opcode table the generated function returns — result *and* exception or not — what the
hand model `Model.scriptBytes` returns, about which `C02.assemble`, `disasm_assemble`, `reassemble` are proved.
-/
namespace C02Gen
open Py Spec Model Loop

/-- a token of the model as the Python value it stands for -/
def toPy : Spec.Tok → Py.PyTok
  | .op name => .name name
  | .int n => .int n
  | .data d => .data d

/-- the accumulation loop `acc += g(x)` with a body that may raise -/
def accum {α : Type} (g : α → Except PyErr Bytes) : List α → Except PyErr Bytes
  | [] => .ok []
  | x :: xs => do
    let a ← g x
    let b ← accum g xs
    pure (a ++ b)

theorem forIn_append {α : Type} (g : α → Except PyErr Bytes) (xs : List α) (acc : Bytes) :
    forIn (m := Except PyErr) xs acc (fun t a => g t >>= fun b => (pure (ForInStep.yield (a ++ b)) : Except PyErr (ForInStep Bytes))) =
      (accum g xs).map (acc ++ ·) := by
  induction xs generalizing acc with
  | nil => simp [accum, Except.map, pure, Except.pure]
  | cons x xs ih =>
    rw [List.forIn_cons, accum]
    cases g x with
    | error e => rfl
    | ok a =>
      rw [ok_bind, ok_bind]
      show (forIn xs (acc ++ a) fun t a => g t >>= fun b => (pure (ForInStep.yield (a ++ b)) : Except PyErr (ForInStep Bytes))) = _
      rw [ih]
      cases accum g xs with
      | error e => rfl
      | ok b => simp [Except.map, pure, Except.pure, bind, Except.bind]

theorem accum_eq_scriptBytes (T : Tables) (toks : List Spec.Tok) : accum (tokBytes T) toks = scriptBytes T toks := by
  induction toks with
  | nil => rfl
  | cons t ts ih => rw [accum, scriptBytes, ih]

/-- one iteration of the generated loop is `tokBytes` followed by the append -/
theorem body_eq (T : Tables) (t : Spec.Tok) (acc : Bytes) :
    (if Py.tokInTable T.opCodes (toPy t) = true then do
        let t1 ← Py.tokLookup T.opCodes (toPy t)
        pure (ForInStep.yield (acc ++ t1))
      else
        if (Py.tokIsInt (toPy t) && decide (Py.tokInt (toPy t) ≥ 0) && decide (Py.tokInt (toPy t) ≤ 16)) = true then do
          let t2 ← Py.lookupS T.opCodes ("OP_" ++ Py.strInt (Py.tokInt (toPy t)))
          pure (ForInStep.yield (acc ++ t2))
        else
          if Py.tokIsInt (toPy t) = true then do
            let t3 ← Gen.push_integer (Py.tokInt (toPy t))
            pure (ForInStep.yield (acc ++ t3))
          else do
            let t4 ← Py.tokData (toPy t)
            let t5 ← Gen.op_push_data t4
            pure (ForInStep.yield (acc ++ t5)) : Except PyErr (ForInStep Bytes)) =
      tokBytes T t >>= fun b => pure (ForInStep.yield (acc ++ b)) := by
  cases t with
  | op name =>
    simp only [toPy, Py.tokInTable, tokBytes, Py.tokLookup, Py.lookupS, Py.tokIsInt, Py.tokData]
    by_cases hs : (T.opCodes.lookup name).isSome = true
    · obtain ⟨b, hb⟩ := Option.isSome_iff_exists.mp hs
      simp only [hb, Option.isSome_some, if_true]
    · have hn : T.opCodes.lookup name = none := by
        cases h : T.opCodes.lookup name with
        | none => rfl
        | some b => rw [h] at hs; simp at hs
      simp only [hn, Option.isSome_none, Bool.false_eq_true, if_false, Bool.false_and, error_bind]
  | int n =>
    simp only [toPy, Py.tokInTable, Py.tokIsInt, Py.tokInt, tokBytes, Bool.false_eq_true, if_false, Bool.true_and, if_true]
    by_cases hr : 0 ≤ n ∧ n ≤ 16
    · rw [if_pos hr]
      split
      · unfold Py.lookupS Py.strInt
        cases T.opCodes.lookup ("OP_" ++ toString n) <;> rfl
      · rename_i hc
        exact absurd (by simp [hr.1, hr.2]) hc
    · rw [if_neg hr]
      split
      · rename_i hc
        simp only [Bool.and_eq_true] at hc
        exact absurd ⟨of_decide_eq_true hc.1, of_decide_eq_true hc.2⟩ hr
      · rw [C02.push_integer_eq_spec n (by omega)]
  | data d =>
    simp only [toPy, Py.tokInTable, Py.tokIsInt, Py.tokData, tokBytes, Bool.false_eq_true, if_false, Bool.false_and, ok_bind]
    rw [C02.op_push_data_eq_spec]

/-- **assembly**: the translated `Script.to_bytes` is the model's, on every token list and opcode table -/
theorem gen_script_to_bytes (T : Tables) (toks : List Spec.Tok) :
    Gen.script_to_bytes T.opCodes (toks.map toPy) = scriptBytes T toks := by
  unfold Gen.script_to_bytes
  simp only []
  rw [List.forIn_map]
  have hb : (fun (t : Spec.Tok) (acc : Bytes) => tokBytes T t >>= fun b => (pure (ForInStep.yield (acc ++ b)) : Except PyErr (ForInStep Bytes))) = _ :=
    funext fun t => funext fun acc => (body_eq T t acc).symm
  rw [← hb, forIn_append, accum_eq_scriptBytes]
  cases scriptBytes T toks <;> rfl

/-- **assembly, end to end**: for well-formed tokens the translated `Script.to_bytes`, run with the generated opcode dictionary,
returns the consensus byte encoding of the script (one byte per opcode, OP_0..OP_16 for 0..16, the minimal script-number push for
larger integers, the smallest push form for data) -/
theorem gen_assemble (toks : List Spec.Tok) (h : ∀ t ∈ toks, C02.WFTok C02.genTables t = true) :
    ∃ bs, Gen.script_to_bytes Gen.OP_CODES (toks.map toPy) = .ok bs ∧ encToks toks = some bs := by
  obtain ⟨bs, h1, h2⟩ := C02.assemble C02.genTables C02.tables_ok toks h
  exact ⟨bs, by rw [← h1]; exact gen_script_to_bytes C02.genTables toks, h2⟩

/-! ### `Script.from_raw` as generated code

The disassembly loop (`while index < len(scriptraw)`, translated with the iteration bound `len + 1`: every iteration advances
the index by at least one byte) never exhausts its bound, never raises, and returns exactly the token list of the model's
structural recursion `Model.scriptFromRaw`. -/

/-- `vi_to_int` on a non-empty window is the model's `viToInt` -/
theorem vi_to_int_eq (b : UInt8) (rest : Bytes) :
    Gen.vi_to_int (b :: rest) = .ok (((viToInt (b :: rest)).1 : Int), ((viToInt (b :: rest)).2 : Int)) := by
  unfold Gen.vi_to_int viToInt
  have hb := b.toNat_lt
  rw [index_cons_zero]
  simp only [Bool.not_true, Bool.false_eq_true, ↓reduceIte]
  rw [ok_bind]
  by_cases h1 : b.toNat < 253
  · have a : decide ((b.toNat : Int) < 253) = true := by simp only [decide_eq_true_eq]; omega
    simp [a, h1, pure_eq_ok]
  · have a : decide ((b.toNat : Int) < 253) = false := by simp only [decide_eq_false_iff_not]; omega
    simp only [a, Bool.false_eq_true, if_false, h1]
    by_cases h2 : b.toNat = 253
    · simp [h2, slice, fromBytes, ofBE, pure_eq_ok]
    · by_cases h3 : b.toNat = 254
      · simp [h3, slice, fromBytes, ofBE, pure_eq_ok]
      · have e2 : ((b.toNat : Int) == 253) = false := by simp only [beq_eq_false_iff_ne, ne_eq]; omega
        have e3 : ((b.toNat : Int) == 254) = false := by simp only [beq_eq_false_iff_ne, ne_eq]; omega
        simp [h2, h3, e2, e3, slice, fromBytes, ofBE, pure_eq_ok]

abbrev S6 := Int × Int × Int × Int × List Py.PyTok × Int
abbrev M6 := Int × Int × Int × Int × List Py.PyTok × Nat
abbrev enc6 (s : M6) : S6 := (s.1, s.2.1, s.2.2.1, s.2.2.2.1, s.2.2.2.2.1, (s.2.2.2.2.2 : Int))

/-- one iteration of the disassembly loop on (byte, data_size, size, bytes_to_read, commands, index) -/
def stepRaw (T : Tables) (bs : Bytes) (s : M6) : M6 :=
  let i := s.2.2.2.2.2
  let cmds := s.2.2.2.2.1
  let b := bs.getD i 0
  match T.codeOps.lookup [b] with
  | some name =>
    let cmds1 := if b ≠ 0x4c ∧ b ≠ 0x4d ∧ b ≠ 0x4e then cmds ++ [Py.PyTok.name name] else cmds
    if b = 0x4c then
      let n := ofLE ((bs.drop (i + 1)).take 1)
      ((b.toNat : Int), s.2.1, s.2.2.1, (n : Int), cmds1 ++ [Py.PyTok.data ((bs.drop (i + 1 + 1)).take n)], i + 1 + 1 + n)
    else if b = 0x4d then
      let n := ofLE ((bs.drop (i + 1)).take 2)
      ((b.toNat : Int), s.2.1, s.2.2.1, (n : Int), cmds1 ++ [Py.PyTok.data ((bs.drop (i + 1 + 2)).take n)], i + 1 + 2 + n)
    else if b = 0x4e then
      let n := ofLE ((bs.drop (i + 1)).take 4)
      ((b.toNat : Int), s.2.1, s.2.2.1, (n : Int), cmds1 ++ [Py.PyTok.data ((bs.drop (i + 1 + 4)).take n)], i + 1 + 4 + n)
    else ((b.toNat : Int), s.2.1, s.2.2.1, s.2.2.2.1, cmds1, i + 1)
  | none =>
    let r := viToInt ((bs.drop i).take 8)
    ((b.toNat : Int), (r.1 : Int), (r.2 : Int), s.2.2.2.1, cmds ++ [Py.PyTok.data ((bs.drop (i + r.2)).take r.1)], i + r.1 + r.2)

theorem slice_nat (bs : Bytes) (a k : Nat) : slice bs (a : Int) ((a : Int) + (k : Int)) = (bs.drop a).take k := by
  unfold slice
  have e1 : ((a : Int)).toNat = a := Int.toNat_natCast a
  have e2 : ((a : Int) + (k : Int)).toNat - ((a : Int)).toNat = k := by omega
  rw [e2, e1]

theorem index_nat (bs : Bytes) (i : Nat) (h : i < bs.length) : Py.index bs (i : Int) = .ok (((bs.getD i 0).toNat : Nat) : Int) := by
  unfold Py.index
  rw [if_neg (by omega), Int.toNat_natCast]
  simp [List.getD, h]

theorem drop_getD (bs : Bytes) (i : Nat) (h : i < bs.length) : bs.drop i = bs.getD i 0 :: bs.drop (i + 1) := by
  rw [List.drop_eq_getElem_cons h]
  simp [List.getD, h]

theorem boi (b : UInt8) : Py.bytesOfInts [((b.toNat : Nat) : Int)] = .ok [b] := by
  unfold Py.bytesOfInts
  have hb := b.toNat_lt
  have hc : (0 ≤ ((b.toNat : Nat) : Int) ∧ ((b.toNat : Nat) : Int) < 256) := by omega
  simp only [List.mapM_cons, List.mapM_nil, if_pos hc, Int.toNat_natCast]
  show Except.ok [UInt8.ofNat b.toNat] = _
  simp

theorem gen_from_raw_loop (T : Tables) (bs : Bytes) (seg : Bool) :
    Gen.script_from_raw T.codeOps bs seg =
      .ok (whileFuel (fun (s : M6) => decide (s.2.2.2.2.2 < bs.length)) (stepRaw T bs) (bs.length + 1) (0, 0, 0, 0, [], 0)).2.2.2.2.1 := by
  unfold Gen.script_from_raw
  simp only []
  refine Eq.trans (congrArg (· >>= _) (forIn_range_while enc6 (fun (s : M6) => decide (s.2.2.2.2.2 < bs.length)) (stepRaw T bs) _
    (bs.length + 1) (fun s => bs.length - s.2.2.2.2.2) ?hstop ?hgo ?hdec (0, 0, 0, 0, [], 0) ?hN)) ?fin
  case hN => show bs.length - 0 < bs.length + 1; omega
  case fin => rfl
  case hdec =>
    intro s hc
    have hlt : s.2.2.2.2.2 < bs.length := by simpa using hc
    have hstep : s.2.2.2.2.2 + 1 ≤ (stepRaw T bs s).2.2.2.2.2 := by
      unfold stepRaw
      simp only []
      split
      · split
        · simp only []; omega
        · split
          · simp only []; omega
          · split
            · simp only []; omega
            · simp only []; omega
      · have := viToInt_snd_pos ((bs.drop s.2.2.2.2.2).take 8)
        simp only []; omega
    show bs.length - (stepRaw T bs s).2.2.2.2.2 < bs.length - s.2.2.2.2.2
    omega
  case hstop =>
    intro i s hc
    have hlt : ¬ (s.2.2.2.2.2 < bs.length) := by simpa using hc
    have hh : (!decide (((s.2.2.2.2.2 : Nat) : Int) < Py.len bs)) = true := by
      unfold Py.len
      simp only [Bool.not_eq_true', decide_eq_false_iff_not]; omega
    simp only [enc6]
    rw [if_pos hh]
    rfl
  case hgo =>
    intro i s hi hc
    have hlt : s.2.2.2.2.2 < bs.length := by simpa using hc
    simp only [enc6]
    split
    · rename_i hn
      exfalso
      unfold Py.len at hn
      simp only [Bool.not_eq_true', decide_eq_false_iff_not] at hn; omega
    · split
      · rename_i h2; simp only [beq_iff_eq] at h2; omega
      · rw [index_nat bs _ hlt, ok_bind, boi, ok_bind]
        have hdrop := drop_getD bs _ hlt
        unfold stepRaw
        simp only []
        generalize bs.getD s.2.2.2.2.2 0 = b at *
        cases hl : T.codeOps.lookup [b] with
        | none =>
          have hin : inTableB T.codeOps [b] = false := by simp [inTableB, hl]
          simp only [hin, Bool.false_eq_true, if_false]
          rw [show (8 : Int) = ((8 : Nat) : Int) from rfl, slice_nat, hdrop]
          rw [show (b :: bs.drop (s.2.2.2.2.2 + 1)).take 8 = b :: (bs.drop (s.2.2.2.2.2 + 1)).take 7 from rfl, vi_to_int_eq, ok_bind]
          simp only []
          rw [← Int.natCast_add, slice_nat]
          have e : ((s.2.2.2.2.2 : Int) + ((viToInt (b :: List.take 7 (List.drop (s.2.2.2.2.2 + 1) bs))).1 : Int)
              + ((viToInt (b :: List.take 7 (List.drop (s.2.2.2.2.2 + 1) bs))).2 : Int)) =
              ((s.2.2.2.2.2 + (viToInt (b :: List.take 7 (List.drop (s.2.2.2.2.2 + 1) bs))).1
                + (viToInt (b :: List.take 7 (List.drop (s.2.2.2.2.2 + 1) bs))).2 : Nat) : Int) := by omega
          rw [e]
          rfl
        | some name =>
          have hin : inTableB T.codeOps [b] = true := by simp [inTableB, hl]
          have hlk : lookupB T.codeOps [b] = .ok name := by simp [lookupB, hl]
          simp only [hin, if_true, ok_bind]
          have e1 : ((1 : Int)) = ((1 : Nat) : Int) := rfl
          have e2 : ((2 : Int)) = ((2 : Nat) : Int) := rfl
          have e4 : ((4 : Int)) = ((4 : Nat) : Int) := rfl
          by_cases h4c : b = 0x4c
          · subst h4c
            simp only [show (([0x4c] : Bytes) != [76]) = false from rfl, Bool.false_eq_true, if_false, pure, Except.pure, ok_bind,
              show (([0x4c] : Bytes) == [76]) = true from rfl, if_true]
            rw [e1, ← Int.natCast_add, slice_nat, fromBytes]
            rw [← Int.natCast_add, slice_nat, ← Int.natCast_add]
            simp
          · by_cases h4d : b = 0x4d
            · subst h4d
              simp only [show (([0x4d] : Bytes) != [76]) = true from rfl, show (([0x4d] : Bytes) != [77]) = false from rfl,
                Bool.false_eq_true, if_false, if_true, pure, Except.pure, ok_bind,
                show (([0x4d] : Bytes) == [76]) = false from rfl, show (([0x4d] : Bytes) == [77]) = true from rfl]
              rw [e1, e2, ← Int.natCast_add, slice_nat, fromBytes]
              rw [← Int.natCast_add, slice_nat, ← Int.natCast_add]
              simp
            · by_cases h4e : b = 0x4e
              · subst h4e
                simp only [show (([0x4e] : Bytes) != [76]) = true from rfl, show (([0x4e] : Bytes) != [77]) = true from rfl,
                  show (([0x4e] : Bytes) != [78]) = false from rfl,
                  Bool.false_eq_true, if_false, if_true, pure, Except.pure, ok_bind,
                  show (([0x4e] : Bytes) == [76]) = false from rfl, show (([0x4e] : Bytes) == [77]) = false from rfl,
                  show (([0x4e] : Bytes) == [78]) = true from rfl]
                rw [e1, e4, ← Int.natCast_add, slice_nat, fromBytes]
                rw [← Int.natCast_add, slice_nat, ← Int.natCast_add]
                simp
              · have n1 : (([b] : Bytes) != [76]) = true := by simp [h4c]
                have n2 : (([b] : Bytes) != [77]) = true := by simp [h4d]
                have n3 : (([b] : Bytes) != [78]) = true := by simp [h4e]
                have m1 : (([b] : Bytes) == [76]) = false := by simp [h4c]
                have m2 : (([b] : Bytes) == [77]) = false := by simp [h4d]
                have m3 : (([b] : Bytes) == [78]) = false := by simp [h4e]
                simp only [n1, n2, n3, m1, m2, m3, if_true, Bool.false_eq_true, if_false, pure, Except.pure, ok_bind, hlk]
                simp [h4c, h4d, h4e]

theorem stepRaw_adv (T : Tables) (bs : Bytes) (s : M6) : s.2.2.2.2.2 + 1 ≤ (stepRaw T bs s).2.2.2.2.2 := by
  unfold stepRaw
  simp only []
  split
  · split
    · simp only []; omega
    · split
      · simp only []; omega
      · split
        · simp only []; omega
        · simp only []; omega
  · have := viToInt_snd_pos ((bs.drop s.2.2.2.2.2).take 8)
    simp only []; omega

/-- one step of the loop consumes exactly the tokens the model's recursion produces first -/
theorem stepRaw_model (T : Tables) (bs : Bytes) (seg : Bool) (s : M6) (hlt : s.2.2.2.2.2 < bs.length) :
    (stepRaw T bs s).2.2.2.2.1 ++ (scriptFromRaw T seg (bs.drop (stepRaw T bs s).2.2.2.2.2)).map toPy =
      s.2.2.2.2.1 ++ (scriptFromRaw T seg (bs.drop s.2.2.2.2.2)).map toPy := by
  have hdrop := drop_getD bs _ hlt
  rw [hdrop]
  conv => rhs; rw [scriptFromRaw]
  unfold stepRaw
  simp only []
  generalize bs.getD s.2.2.2.2.2 0 = b at *
  cases hl : T.codeOps.lookup [b] with
  | none =>
    simp only [← hdrop, List.drop_drop, List.map_cons, toPy]
    simp [List.append_assoc, Nat.add_comm, Nat.add_left_comm, Nat.add_assoc]
  | some name =>
    simp only []
    by_cases h4c : b = 0x4c
    · subst h4c
      simp [List.drop_drop, toPy, Nat.add_comm, Nat.add_left_comm, Nat.add_assoc]
      congr 3; omega
    · by_cases h4d : b = 0x4d
      · subst h4d
        simp [List.drop_drop, toPy, Nat.add_comm, Nat.add_left_comm, Nat.add_assoc]
        congr 3; omega
      · by_cases h4e : b = 0x4e
        · subst h4e
          simp [List.drop_drop, toPy, Nat.add_comm, Nat.add_left_comm, Nat.add_assoc]
          congr 3; omega
        · simp [h4c, h4d, h4e, toPy]

theorem whileFuel_raw (T : Tables) (bs : Bytes) (seg : Bool) (fuel : Nat) (s : M6) (hf : bs.length - s.2.2.2.2.2 < fuel) :
    (whileFuel (fun (s : M6) => decide (s.2.2.2.2.2 < bs.length)) (stepRaw T bs) fuel s).2.2.2.2.1 =
      s.2.2.2.2.1 ++ (scriptFromRaw T seg (bs.drop s.2.2.2.2.2)).map toPy := by
  induction fuel generalizing s with
  | zero => omega
  | succ f ih =>
    rw [whileFuel]
    by_cases hlt : s.2.2.2.2.2 < bs.length
    · simp only [hlt, decide_true, if_true]
      have hadv := stepRaw_adv T bs s
      rw [ih (stepRaw T bs s) (by omega), stepRaw_model T bs seg s hlt]
    · simp only [hlt, decide_false, Bool.false_eq_true, if_false]
      rw [List.drop_eq_nil_of_le (by omega), scriptFromRaw]
      simp

/-- **disassembly**: the translated `Script.from_raw` is the model's, on every byte string and table (never raises) -/
theorem gen_script_from_raw (T : Tables) (bs : Bytes) (seg : Bool) :
    Gen.script_from_raw T.codeOps bs seg = .ok ((scriptFromRaw T seg bs).map toPy) := by
  rw [gen_from_raw_loop, whileFuel_raw T bs seg (bs.length + 1) (0, 0, 0, 0, [], 0) (by show bs.length - 0 < bs.length + 1; omega)]
  simp

/-- **round trip, end to end**: for well-formed tokens, disassembling (translated `from_raw`) what the translated `to_bytes`
assembled renders every token (opcodes by name, every push as exactly its data), and assembling that again gives the same bytes -/
theorem gen_roundtrip (toks : List Spec.Tok) (h : ∀ t ∈ toks, C02.WFTok C02.genTables t = true) (seg : Bool) :
    ∃ bs out, Gen.script_to_bytes Gen.OP_CODES (toks.map toPy) = .ok bs ∧
      Gen.script_from_raw Gen.CODE_OPS bs seg = .ok (out.map toPy) ∧
      renders toks out = true ∧
      Gen.script_to_bytes Gen.OP_CODES (out.map toPy) = .ok bs := by
  obtain ⟨bs, h1, _, h3, h4⟩ := C02.assemble_disasm_reassemble_gen toks h seg
  refine ⟨bs, scriptFromRaw C02.genTables seg bs, ?_, ?_, h3, ?_⟩
  · rw [← h1]; exact gen_script_to_bytes C02.genTables toks
  · exact gen_script_from_raw C02.genTables bs seg
  · rw [← h4]; exact gen_script_to_bytes C02.genTables _

end C02Gen
