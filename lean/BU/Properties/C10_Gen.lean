import BU.Properties.C09_Gen
import BU.Model.Address
import BU.Properties.C10
/-!
# C10, continuation — Base58Check address validation and rendering as *generated* code (tier T)

`Address._is_address_valid` (the regular expression for characters outside the Base58 alphabet, the 26..35 length window, the decoded
length, the version byte of the address class on the configured network, the double-SHA256 checksum), `_address_to_hash160` and
`to_string` are re-translated from the working tree on every run.  `base58check.b58decode / b58encode` are parameters (the Spec's
Base58), so are the two version bytes of the network and the class name `get_type()` returns.  On every string the generated functions
return what `Model.isAddressValid`, `addressToHash160`, `addrToString` return, so C10's soundness-of-acceptance and round-trip
theorems are about the translated code.
-/
set_option linter.unusedSimpArgs false
namespace C10Gen
open Py Model Spec Loop C09Gen

theorem any_not_all (cs : List Char) :
    (cs.any fun c => !(List.contains "123456789ABCDEFGHJKLMNPQRSTUVWXYZabcdefghijkmnopqrstuvwxyz".toList c)) =
      !(cs.all fun c => B58.alphabet.contains c) := by
  show (cs.any fun c => !(B58.alphabet.contains c)) = _
  induction cs with
  | nil => rfl
  | cons x xs ih => simp only [List.any_cons, List.all_cons, ih, Bool.not_and]

theorem slice1 (b : Bytes) : Py.slice b (0 : Int) (1 : Int) = b.take 1 := slice_take b 1
theorem slice4 (b : Bytes) : Py.slice b (0 : Int) (4 : Int) = b.take 4 := slice_take b 4

theorem gen_is_address_valid (sha256 : Bytes → Bytes) (ty : String) (hty : ty = "p2pkh" ∨ ty = "p2sh") (pk ps : Bytes) (s : String) :
    Gen.is_address_valid sha256 decP ty pk ps s =
      isAddressValid (fun b => sha256 (sha256 b)) (if ty = "p2pkh" then pk else ps) s := by
  unfold Gen.is_address_valid isAddressValid decP
  simp only []
  rw [any_not_all]
  by_cases hall : (s.toList.all fun c => B58.alphabet.contains c) = true
  · simp only [hall, Bool.not_true, Bool.false_eq_true, if_false]
    have hlen : (decide (((s.toList.length : Nat) : Int) < 26) || decide (((s.toList.length : Nat) : Int) > 35)) =
        decide (s.toList.length < 26 ∨ s.toList.length > 35) := by
      by_cases h : s.toList.length < 26 ∨ s.toList.length > 35
      · have : ((s.toList.length : Int) < 26 ∨ (s.toList.length : Int) > 35) := by omega
        simp only [h, decide_true]; rcases this with h1 | h1 <;> simp [h1]
      · have h1 : ¬ ((s.toList.length : Int) < 26) := by omega
        have h2 : ¬ ((s.toList.length : Int) > 35) := by omega
        simp [h, h1, h2]
    rw [hlen]
    by_cases hl : s.toList.length < 26 ∨ s.toList.length > 35
    · simp only [hl, decide_true, if_true]; rfl
    · simp only [hl, decide_false, Bool.false_eq_true, if_false]
      cases hd : B58.decode s with
      | none => rfl
      | some dc =>
        simp only []
        rw [ok_bind]
        rw [slice1, slice4, show (-(4 : Int)) = (-((4 : Nat) : Int)) from rfl, sliceL_dropLast dc 4 (by decide),
          sliceFromL_last dc 4 (by decide)]
        have hne : (Py.len dc != (25 : Int)) = decide (dc.length ≠ 25) := by
          unfold Py.len
          by_cases h : dc.length = 25
          · rw [h]; simp
          · have : ¬ ((dc.length : Int) = 25) := by omega
            simp [h, this]
        rw [hne]
        by_cases h25 : dc.length = 25
        · simp only [h25, ne_eq, not_true_eq_false, decide_false, Bool.false_eq_true, if_false]
          rcases hty with rfl | rfl
          · simp only [beq_self_eq_true, if_true, pure, Except.pure]
          · simp only [show ("p2sh" == "p2pkh") = false from by decide, Bool.false_eq_true, if_false, beq_self_eq_true, if_true,
              show ¬ ("p2sh" = "p2pkh") by decide, pure, Except.pure]
        · simp only [h25, ne_eq, not_false_eq_true, decide_true, if_true]
          rfl
  · have hall' : (s.toList.all fun c => B58.alphabet.contains c) = false := by simpa using hall
    simp only [hall', Bool.not_false, if_true]
    rfl

theorem sliceL_1_m4 (l : Bytes) : Py.sliceL l (1 : Int) (-(4 : Int)) = (l.take (l.length - 4)).drop 1 := by
  unfold Py.sliceL
  simp only [show ¬ ((1 : Int) < 0) by decide, if_false, show ((-(4 : Int)) < 0) by decide, if_true]
  by_cases h1 : (1 : Int) > (l.length : Int)
  · have hl : l.length = 0 := by omega
    have : l = [] := List.length_eq_zero_iff.mp hl
    subst this; rfl
  · simp only [h1, if_false]
    by_cases h4 : -(4 : Int) + (l.length : Int) < 0
    · simp only [h4, if_true, Int.toNat_zero, show (1 : Int).toNat = 1 from rfl, Nat.zero_sub, List.take_zero]
      rw [show l.length - 4 = 0 by omega, List.take_zero]; rfl
    · simp only [h4, if_false, show (1 : Int).toNat = 1 from rfl]
      rw [show (-(4 : Int) + (l.length : Int)).toNat = l.length - 4 by omega]
      rw [List.drop_take]

theorem gen_address_to_hash160 (s : String) : Gen.address_to_hash160 decP s = addressToHash160 s := by
  unfold Gen.address_to_hash160 addressToHash160 decP
  simp only []
  cases B58.decode s with
  | none => rfl
  | some dc =>
    simp only []
    rw [ok_bind, sliceL_1_m4]
    rfl

theorem gen_address_to_string (sha256 : Bytes → Bytes) (ty : String) (hty : ty = "p2pkh" ∨ ty = "p2sh") (pk ps h : Bytes) :
    Gen.address_to_string sha256 B58.encode ty pk ps h =
      .ok (addrToString (fun b => sha256 (sha256 b)) (if ty = "p2pkh" then pk else ps) h) := by
  unfold Gen.address_to_string addrToString
  simp only []
  rcases hty with rfl | rfl
  · simp only [beq_self_eq_true, if_true, slice4]
    rfl
  · simp only [show ("p2sh" == "p2pkh") = false from by decide, Bool.false_eq_true, if_false, beq_self_eq_true, if_true,
      show ¬ ("p2sh" = "p2pkh") by decide, slice4]
    rfl

/-- `Address.__init__(address=s)` on the translated functions: validate, then decode -/
def genAccept (sha256 : Bytes → Bytes) (ty : String) (pk ps : Bytes) (s : String) : Except PyErr Bytes := do
  if s.isEmpty then throw PyErr.typeError
  let ok ← Gen.is_address_valid sha256 decP ty pk ps s
  if !ok then throw PyErr.valueError
  Gen.address_to_hash160 decP s

theorem genAccept_eq (sha256 : Bytes → Bytes) (ty : String) (hty : ty = "p2pkh" ∨ ty = "p2sh") (pk ps : Bytes) (s : String) :
    genAccept sha256 ty pk ps s = addrFromString (fun b => sha256 (sha256 b)) (if ty = "p2pkh" then pk else ps) s := by
  unfold genAccept addrFromString
  rw [gen_is_address_valid sha256 ty hty pk ps s, gen_address_to_hash160]

/-- **acceptance is sound, end to end**: whatever the translated validator and decoder accept is Base58Check with a valid checksum, the
version byte of the class on the configured network and a 20-byte payload, and that payload is what is held -/
theorem gen_accept_sound (sha256 : Bytes → Bytes) (ty : String) (hty : ty = "p2pkh" ∨ ty = "p2sh") (pk ps : Bytes)
    (hp : (if ty = "p2pkh" then pk else ps).length = 1) (s : String) (h : Bytes) (ha : genAccept sha256 ty pk ps s = .ok h) :
    h.length = 20 ∧ B58.uncheck (fun b => sha256 (sha256 b)) s = some ((if ty = "p2pkh" then pk else ps) ++ h) := by
  rw [genAccept_eq sha256 ty hty] at ha
  exact C10.accept_sound _ _ hp s h ha

/-- **round trip, end to end**: the string the translated `to_string` renders is accepted by the translated validator and decodes to
the same hash (the 26..35-character window as in C10.roundtrip) -/
theorem gen_roundtrip (sha256 : Bytes → Bytes) (hd : ∀ x, (sha256 x).length = 32) (ty : String) (hty : ty = "p2pkh" ∨ ty = "p2sh")
    (pk ps : Bytes) (hp : (if ty = "p2pkh" then pk else ps).length = 1) (h : Bytes) (hh : h.length = 20)
    (hw : 26 ≤ (addrToString (fun b => sha256 (sha256 b)) (if ty = "p2pkh" then pk else ps) h).toList.length ∧
      (addrToString (fun b => sha256 (sha256 b)) (if ty = "p2pkh" then pk else ps) h).toList.length ≤ 35) :
    ∃ s, Gen.address_to_string sha256 B58.encode ty pk ps h = .ok s ∧ genAccept sha256 ty pk ps s = .ok h := by
  refine ⟨_, gen_address_to_string sha256 ty hty pk ps h, ?_⟩
  rw [genAccept_eq sha256 ty hty]
  exact C10.roundtrip _ (fun x => hd _) _ hp h hh hw

end C10Gen
