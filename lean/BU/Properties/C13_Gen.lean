import BU.Properties.C13
import BU.Properties.C03_Gen
import BU.Properties.C04_Gen
import BU.Properties.C05_Gen
import BU.Properties.C06_GenWrap
/-!
# C13, continuation — the *translated* digest functions depend on the transaction skeleton only (tier T)

`get_transaction_digest`, `get_transaction_segwit_digest` and `get_transaction_taproot_digest`, as re-translated from the working
tree on every run, are functions of values (C03_Gen, C04_Gen, C05_Gen).  Two transactions with the same skeleton — version,
locktime, outputs, and per input outpoint and sequence; scriptSigs and witnesses free — get the same three digests from the
translated code.  With `C13.order_independent` (any interleaving of sign-and-attach operations on distinct slots yields the same
transaction) this is the order-independence half of C13 about the translated code; the no-shared-state half stays on the heap model
and the object-history correspondence.
-/
namespace C13Gen
open Py Spec Model Model.Order C02Gen C01Gen

theorem gen_digests_depend_on_skeleton (sha256 : Bytes → Bytes) (T : Tables) (t t' : Tx) (hsk : skeleton t = skeleton t')
    (i : Nat) (code : List Spec.Tok) (ht : Nat) (amount : Int) (spks : List (List Spec.Tok)) (amounts : List Int) (ext : Nat)
    (leaf : List Spec.Tok) (lv : Int) (ws ws' : List Py.PyWit)
    (hcode : ∀ (y : TxIn) b, inScript T { y with scriptSig := code } = .ok b → b.length < 2 ^ 64)
    (hc : ∀ b, scriptBytes T code = .ok b → b.length < 2 ^ 64)
    (ho : ∀ o ∈ t.outputs, ∀ b, scriptBytes T o.script = .ok b → b.length < 2 ^ 64)
    (hs : ∀ s ∈ spks, ∀ b, scriptBytes T s = .ok b → b.length < 2 ^ 64)
    (hl : ∀ b, scriptBytes T leaf = .ok b → b.length < 2 ^ 64)
    (hni : t.inputs.length < 2 ^ 64) (hno : t.outputs.length < 2 ^ 64) :
    Gen.legacy_digest sha256 T.opCodes t.version (t.inputs.map inPy) (t.outputs.map outPy) ws t.locktime (i : Int) (code.map toPy) (ht : Int) =
      Gen.legacy_digest sha256 T.opCodes t'.version (t'.inputs.map inPy) (t'.outputs.map outPy) ws' t'.locktime (i : Int) (code.map toPy) (ht : Int) ∧
    Gen.segwit_digest sha256 T.opCodes t.version (t.inputs.map inPy) (t.outputs.map outPy) t.locktime (i : Int) (code.map toPy) amount (ht : Int) =
      Gen.segwit_digest sha256 T.opCodes t'.version (t'.inputs.map inPy) (t'.outputs.map outPy) t'.locktime (i : Int) (code.map toPy) amount (ht : Int) ∧
    Gen.taproot_digest sha256 T.opCodes t.version (t.inputs.map inPy) (t.outputs.map outPy) t.locktime (i : Int)
        (spks.map (·.map toPy)) amounts (ext : Int) (leaf.map toPy) lv (ht : Int) =
      Gen.taproot_digest sha256 T.opCodes t'.version (t'.inputs.map inPy) (t'.outputs.map outPy) t'.locktime (i : Int)
        (spks.map (·.map toPy)) amounts (ext : Int) (leaf.map toPy) lv (ht : Int) := by
  obtain ⟨h1, h2, h3⟩ := C13.digests_depend_on_skeleton sha256 T t t' hsk i code ht amount spks amounts ext leaf
  have hout : t'.outputs = t.outputs := by
    have := congrArg (fun x => x.2.2.1) hsk; exact this.symm
  have hin : t'.inputs.length = t.inputs.length := by
    have := congrArg (fun x => x.2.2.2.length) hsk
    simp only [skeleton, List.length_map] at this
    exact this.symm
  have ho' : ∀ o ∈ t'.outputs, ∀ b, scriptBytes T o.script = .ok b → b.length < 2 ^ 64 := by rw [hout]; exact ho
  refine ⟨?_, ?_, ?_⟩
  · rw [C03Gen.gen_legacy_digest sha256 T t i code ht ws hcode ho hni hno,
      C03Gen.gen_legacy_digest sha256 T t' i code ht ws' hcode ho' (by omega) (by rw [hout]; exact hno), h1]
  · rw [C04Gen.gen_segwit_digest sha256 T t i code amount ht ho hc, C04Gen.gen_segwit_digest sha256 T t' i code amount ht ho' hc, h2]
  · rw [C05Gen.gen_taproot_digest sha256 T t i spks amounts ext leaf lv ht hs ho hl,
      C05Gen.gen_taproot_digest sha256 T t' i spks amounts ext leaf lv ht hs ho' hl, h3]

end C13Gen

namespace C13Gen
open Py Spec Model Model.Order C02Gen C01Gen

/-- **the translated public signing methods read the skeleton only**: `sign_input` and `sign_segwit_input`, as re-translated on this run,
return the same signature for two transactions with equal skeletons — whatever scriptSigs and witnesses the other inputs carry at that
moment.  With `C13.order_independent` this is the order-independence of multi-input signing for the translated API methods. -/
theorem gen_sign_depends_on_skeleton (sha256 : Bytes → Bytes) (T : Tables) (signer : Bytes → Option Bytes → Bytes)
    (dec : Bytes → Int → Except PyErr (Int × Int)) (enc : Int → Int → Int → Bytes) (N : Nat)
    (t t' : Tx) (hsk : skeleton t = skeleton t') (i : Nat) (code : List Spec.Tok) (amount : Int) (ht : Nat) (ws ws' : List Py.PyWit)
    (hcode : ∀ (y : TxIn) b, inScript T { y with scriptSig := code } = .ok b → b.length < 2 ^ 64)
    (hc : ∀ b, scriptBytes T code = .ok b → b.length < 2 ^ 64)
    (ho : ∀ o ∈ t.outputs, ∀ b, scriptBytes T o.script = .ok b → b.length < 2 ^ 64)
    (hni : t.inputs.length < 2 ^ 64) (hno : t.outputs.length < 2 ^ 64) :
    Gen.pk_sign_input sha256 T.opCodes signer dec enc N t.version (t.inputs.map inPy) (t.outputs.map outPy) ws t.locktime (i : Int)
        (code.map toPy) (ht : Int) =
      Gen.pk_sign_input sha256 T.opCodes signer dec enc N t'.version (t'.inputs.map inPy) (t'.outputs.map outPy) ws' t'.locktime (i : Int)
        (code.map toPy) (ht : Int) ∧
    Gen.pk_sign_segwit_input sha256 T.opCodes signer dec enc N t.version (t.inputs.map inPy) (t.outputs.map outPy) t.locktime (i : Int)
        (code.map toPy) amount (ht : Int) =
      Gen.pk_sign_segwit_input sha256 T.opCodes signer dec enc N t'.version (t'.inputs.map inPy) (t'.outputs.map outPy) t'.locktime (i : Int)
        (code.map toPy) amount (ht : Int) := by
  obtain ⟨h1, h2, _⟩ := C13.digests_depend_on_skeleton sha256 T t t' hsk i code ht amount [] [] 0 []
  have hout : t'.outputs = t.outputs := by
    have := congrArg (fun x => x.2.2.1) hsk; exact this.symm
  have hin : t'.inputs.length = t.inputs.length := by
    have := congrArg (fun x => x.2.2.2.length) hsk
    simp only [skeleton, List.length_map] at this
    exact this.symm
  have ho' : ∀ o ∈ t'.outputs, ∀ b, scriptBytes T o.script = .ok b → b.length < 2 ^ 64 := by rw [hout]; exact ho
  constructor
  · rw [C06GenWrap.gen_pk_sign_input sha256 T signer dec enc N t i code ht ws hcode ho hni hno,
      C06GenWrap.gen_pk_sign_input sha256 T signer dec enc N t' i code ht ws' hcode ho' (by omega) (by rw [hout]; exact hno), h1]
  · rw [C06GenWrap.gen_pk_sign_segwit_input sha256 T signer dec enc N t i code amount ht ho hc,
      C06GenWrap.gen_pk_sign_segwit_input sha256 T signer dec enc N t' i code amount ht ho' hc, h2]

end C13Gen

namespace C13Gen
open Py Spec Model Model.Order C02Gen C01Gen GenTapSign

/-- … and so does the translated `sign_taproot_input` (key path and script path): the BIP341 digest of an input does not read the
other inputs' scriptSigs or any witness, so the Schnorr signature over it is the same for two transactions with equal skeletons -/
theorem gen_sign_taproot_depends_on_skeleton (sha256 : Bytes → Bytes) (T : Tables) (priv pub : Bytes)
    (t t' : Tx) (hsk : skeleton t = skeleton t') (i : Nat) (spks : List (List Spec.Tok)) (amounts : List Int) (scriptPath : Bool)
    (leaf : List Spec.Tok) (s : Model.Scripts) (ht : Nat) (tweak : Bool)
    (hs : ∀ s ∈ spks, ∀ b, scriptBytes T s = .ok b → b.length < 2 ^ 64)
    (ho : ∀ o ∈ t.outputs, ∀ b, scriptBytes T o.script = .ok b → b.length < 2 ^ 64)
    (hl : ∀ b, scriptBytes T leaf = .ok b → b.length < 2 ^ 64) (hsm : SmallScripts T s) :
    Gen.pk_sign_taproot_input sha256 T.opCodes priv pub t.version (t.inputs.map inPy) (t.outputs.map outPy) t.locktime (i : Int)
        (spks.map (·.map toPy)) amounts scriptPath (leaf.map toPy) (toPyScripts s) (ht : Int) tweak =
      Gen.pk_sign_taproot_input sha256 T.opCodes priv pub t'.version (t'.inputs.map inPy) (t'.outputs.map outPy) t'.locktime (i : Int)
        (spks.map (·.map toPy)) amounts scriptPath (leaf.map toPy) (toPyScripts s) (ht : Int) tweak := by
  have hout : t'.outputs = t.outputs := by
    have := congrArg (fun x => x.2.2.1) hsk; exact this.symm
  have ho' : ∀ o ∈ t'.outputs, ∀ b, scriptBytes T o.script = .ok b → b.length < 2 ^ 64 := by rw [hout]; exact ho
  rw [C06GenWrap.gen_pk_sign_taproot_input sha256 T priv pub t i spks amounts scriptPath leaf s ht tweak hs ho hl hsm,
    C06GenWrap.gen_pk_sign_taproot_input sha256 T priv pub t' i spks amounts scriptPath leaf s ht tweak hs ho' hl hsm]
  obtain ⟨_, _, h1⟩ := C13.digests_depend_on_skeleton sha256 T t t' hsk i [] ht 0 spks amounts 1 leaf
  obtain ⟨_, _, h0⟩ := C13.digests_depend_on_skeleton sha256 T t t' hsk i [] ht 0 spks amounts 0 []
  rw [h1, h0]

end C13Gen
