import BU.Gen.Codec
import BU.Model.Sign
import BU.Proofs.LoopLemmas
import BU.Proofs.SchnorrLemmas
import BU.Properties.C06
/-!
# C06, continuation — `PrivateKey._sign_input` as *generated* code (tier T)

The repository's own logic around python-ecdsa — the low-R grinding loop on byte 3 of the DER signature with `extra_entropy =
i_to_b32(attempt)`, decoding, the low-S rule, re-encoding, the hash-type byte — is re-translated from the working tree on every
run.  python-ecdsa enters as parameters: the deterministic signer as a function of the extra entropy (`None` for the first attempt),
`sigdecode_der` / `sigencode_der` as the Spec's DER codec.  The `while` loop has no bound in the source (each retry clears the
test with probability 1/2); the translation carries one as a parameter `N` and raises when it is exhausted.  For every signer, bound
and hash type the generated function returns a signature exactly when the hand model `Model.signInput`, run on the `N + 1` answers of
the signer, does — the same one — so `C06.sign_input_spec` (strict DER, low S, low R, hash-type byte) is about the translated code.
-/
set_option linter.unusedSimpArgs false
namespace C06Gen
open Py Model Loop Spec

/-- what python-ecdsa's signer returns for attempt `j` (attempt 0: no extra entropy; attempt j ≥ 1: entropy `i_to_b32(j)`) -/
def att (sign : Option Bytes → Bytes) (j : Nat) : Bytes := if j = 0 then sign none else sign (some (beBytes 32 j))

def body (sign : Option Bytes → Bytes) (N : Nat) (fuel_ : Nat) (__s : Bytes × Int × Int) : Except PyErr (ForInStep (Bytes × Int × Int)) :=
  if (!__s.snd.snd == 33) = true then pure (ForInStep.done (__s.fst, __s.snd.fst, __s.snd.snd))
  else
    if (fuel_ == N) = true then do
      throw PyErr.fellThrough
      let t3 ← Gen.i_to_b32 __s.snd.fst
      let t4 ← Py.index (sign (some t3)) 3
      pure (ForInStep.yield (sign (some t3), __s.snd.fst + 1, t4))
    else do
      let t3 ← Gen.i_to_b32 __s.snd.fst
      let t4 ← Py.index (sign (some t3)) 3
      pure (ForInStep.yield (sign (some t3), __s.snd.fst + 1, t4))

theorem index3 (b : Bytes) (l : Int) (h : Py.index b 3 = .ok l) : ∃ x : UInt8, b[3]? = some x ∧ l = (x.toNat : Int) := by
  unfold Py.index at h
  simp only [show ¬ ((3 : Int) < 0) by decide, if_false, show (3 : Int).toNat = 3 from rfl] at h
  cases hb : b[3]? with
  | none => rw [hb] at h; cases h
  | some x => rw [hb] at h; exact ⟨x, rfl, (Except.ok.inj h).symm⟩

theorem i_to_b32_nat (k : Nat) (h : k < 2 ^ 256) : Gen.i_to_b32 (k : Int) = .ok (beBytes 32 k) := by
  unfold Gen.i_to_b32
  have := SchnorrLemmas.toBytes32_ok k h
  rw [this]

theorem grind_loop (sign : Option Bytes → Bytes) (N : Nat) (hN : N < 2 ^ 255) (m : Nat) :
    ∀ (j : Nat) (l : Int), Py.index (att sign j) 3 = .ok l → j + (m + 1) = N + 1 →
      ((forIn (List.range' j (m + 1)) (att sign j, ((j + 1 : Nat) : Int), l) (body sign N)).toOption).map (·.1) =
        ((grind ((List.range' j (m + 1)).map (att sign)) j).toOption).map (·.1) := by
  induction m with
  | zero =>
    intro j l hl hj
    obtain ⟨x, hx, rfl⟩ := index3 _ _ hl
    have hjN : j = N := by omega
    subst hjN
    simp only [Nat.zero_add, List.range'_one, List.forIn_cons, List.forIn_nil, List.map_cons, List.map_nil, grind, hx, body]
    by_cases h33 : x.toNat = 33
    · have c : (!((x.toNat : Int) == 33)) = false := by simp [h33]
      simp only [c, Bool.false_eq_true, if_false, beq_self_eq_true, if_true, throw_eq_error, error_bind]
      simp only [h33, if_true]
      rfl
    · have c : (!((x.toNat : Int) == 33)) = true := by
        have : ¬ ((x.toNat : Int) = 33) := by omega
        simp [this]
      simp only [c, if_true, pure_bind]
      simp only [h33, if_false]
      rfl
  | succ m ih =>
    intro j l hl hj
    obtain ⟨x, hx, rfl⟩ := index3 _ _ hl
    have hjN : j < N := by omega
    rw [List.range'_succ, List.forIn_cons, List.map_cons, grind, hx]
    simp only [body]
    by_cases h33 : x.toNat = 33
    · have c : (!((x.toNat : Int) == 33)) = false := by simp [h33]
      have c2 : (j == N) = false := by rw [beq_eq_false_iff_ne]; omega
      simp only [c, c2, Bool.false_eq_true, if_false]
      simp only [h33, if_true]
      rw [i_to_b32_nat (j + 1) (by omega), ok_bind]
      have ha : sign (some (beBytes 32 (j + 1))) = att sign (j + 1) := by unfold att; simp
      rw [ha]
      cases hi : Py.index (att sign (j + 1)) 3 with
      | error e =>
        rw [error_bind, error_bind]
        -- the model fails on the same attempt
        have : (att sign (j + 1))[3]? = none := by
          unfold Py.index at hi
          simp only [show ¬ ((3 : Int) < 0) by decide, if_false, show (3 : Int).toNat = 3 from rfl] at hi
          cases hb : (att sign (j + 1))[3]? with
          | none => rfl
          | some y => rw [hb] at hi; cases hi
        rw [List.range'_succ, List.map_cons, grind, this]
        rfl
      | ok l' =>
        rw [ok_bind, pure_bind]
        simp only []
        have := ih (j + 1) l' hi (by omega)
        rw [show (((j + 1 : Nat) : Int) + 1) = ((j + 1 + 1 : Nat) : Int) by omega]
        exact this
    · have c : (!((x.toNat : Int) == 33)) = true := by
        have : ¬ ((x.toNat : Int) = 33) := by omega
        simp [this]
      simp only [c, if_true, pure_bind]
      simp only [h33, if_false]
      rfl

/-- python-ecdsa's DER codec as the Spec's -/
def decP (b : Bytes) (_ : Int) : Except PyErr (Int × Int) :=
  match derDecode b with
  | some (r, s) => .ok ((r : Int), (s : Int))
  | none => .error .valueError
def encP (r s _n : Int) : Bytes := derEncode r.toNat s.toNat

def attempts (sign : Option Bytes → Bytes) (N : Nat) : List Bytes := (List.range' 0 (N + 1)).map (att sign)

theorem gen_sign_input (signer : Bytes → Option Bytes → Bytes) (N : Nat) (hN : N < 2 ^ 255) (dg : Bytes) (ht : Nat) :
    (Gen.sign_input signer decP encP N dg (ht : Int)).toOption = ((signInput (attempts (signer dg) N) ht).toOption).map (·.1) := by
  generalize hsg : signer dg = sign
  have hs0 : ∀ e, signer dg e = sign e := fun e => by rw [hsg]
  unfold Gen.sign_input signInput
  simp only [hs0]
  show ((Py.index (att sign 0) 3 >>= fun t1 => (forIn [:N + 1] (att sign 0, ((0 + 1 : Nat) : Int), t1) (body sign N) >>= _)).toOption) = _
  cases h0 : Py.index (att sign 0) 3 with
  | error e =>
    -- the first signature is shorter than four bytes: both fail
    have : (att sign 0)[3]? = none := by
      unfold Py.index at h0
      simp only [show ¬ ((3 : Int) < 0) by decide, if_false, show (3 : Int).toNat = 3 from rfl] at h0
      cases hb : (att sign 0)[3]? with
      | none => rfl
      | some y => rw [hb] at h0; cases h0
    rw [error_bind]
    unfold attempts
    rw [List.range'_succ, List.map_cons, grind, this]
    rfl
  | ok l =>
    rw [ok_bind, Std.Legacy.Range.forIn_eq_forIn_range']
    have e : List.range' (0 : Nat) (([:N + 1] : Std.Legacy.Range)).size 1 = List.range' 0 (N + 1) := by
      simp [Std.Legacy.Range.size]
    rw [e]
    have hg := grind_loop sign N hN N 0 l h0 (by omega)
    unfold attempts
    -- the tail after the loop depends on the final signature only
    have tail : ∀ (sig : Bytes),
        (do
          let t5 ← decP sig 115792089237316195423570985008687907852837564279074904382605163141518161494337
          if decide (t5.snd > 115792089237316195423570985008687907852837564279074904382605163141518161494337 / 2) = true then do
              let t6 ← Py.pack "B" (ht : Int)
              (pure (encP t5.fst (115792089237316195423570985008687907852837564279074904382605163141518161494337 - t5.snd)
                  115792089237316195423570985008687907852837564279074904382605163141518161494337 ++ t6) : Except PyErr Bytes)
            else do
              let t6 ← Py.pack "B" (ht : Int)
              pure (encP t5.fst t5.snd 115792089237316195423570985008687907852837564279074904382605163141518161494337 ++ t6)) =
          normalise sig ht := by
      intro sig
      unfold normalise decP
      cases derDecode sig with
      | none => rfl
      | some rs =>
        obtain ⟨r, s⟩ := rs
        simp only [ok_bind]
        have hn2 : ((115792089237316195423570985008687907852837564279074904382605163141518161494337 : Int) / 2) = ((Secp.n / 2 : Nat) : Int) := by decide
        have hnI : (115792089237316195423570985008687907852837564279074904382605163141518161494337 : Int) = ((Secp.n : Nat) : Int) := rfl
        by_cases hs : s > Secp.n / 2
        · have c : decide ((s : Int) > 115792089237316195423570985008687907852837564279074904382605163141518161494337 / 2) = true := by
            rw [hn2]; simp; omega
          simp only [c, if_true, hs]
          have hle : s ≤ Secp.n ∨ Secp.n < s := by omega
          unfold encP
          rw [hnI, show (((Secp.n : Nat) : Int) - (s : Int)).toNat = Secp.n - s by omega, Int.toNat_natCast]
        · have c : decide ((s : Int) > 115792089237316195423570985008687907852837564279074904382605163141518161494337 / 2) = false := by
            rw [hn2]; simp; omega
          simp only [c, Bool.false_eq_true, if_false, hs]
          unfold encP
          rw [Int.toNat_natCast, Int.toNat_natCast]
    simp only [tail]
    cases hf : forIn (List.range' 0 (N + 1)) (att sign 0, ((0 + 1 : Nat) : Int), l) (body sign N) with
    | error e1 =>
      rw [hf] at hg
      cases hgr : grind (List.map (att sign) (List.range' 0 (N + 1))) 0 with
      | error e2 => rfl
      | ok r => rw [hgr] at hg; cases hg
    | ok st =>
      rw [hf] at hg
      cases hgr : grind (List.map (att sign) (List.range' 0 (N + 1))) 0 with
      | error e2 => rw [hgr] at hg; cases hg
      | ok r =>
        rw [hgr] at hg
        have hsig : st.1 = r.1 := by simpa [Except.toOption] using hg
        rw [ok_bind, ok_bind, hsig]
        cases normalise r.1 ht <;> rfl

/-- **strict DER, low S, low R, hash type — end to end**: if the signer's answers for attempts 0..N are DER encodings of pairs in
range, whatever the translated `_sign_input` returns is strictly DER encoded, ends in the hash-type byte, has r < 2^255 and the low
representative of s of the first attempt with a low r -/
theorem gen_sign_input_spec (signer : Bytes → Option Bytes → Bytes) (N : Nat) (hN : N < 2 ^ 255) (dg : Bytes) (ht : Nat) (hht : ht < 256)
    (atts : List (Nat × Nat)) (hw : ∀ a ∈ atts, 0 < a.1 ∧ a.1 < Secp.n ∧ 0 < a.2 ∧ a.2 < Secp.n)
    (hatts : attempts (signer dg) N = atts.map fun a => derEncode a.1 a.2)
    (out : Bytes) (h : Gen.sign_input signer decP encP N dg (ht : Int) = .ok out) :
    ∃ (k r s s' : Nat), atts[k]? = some (r, s) ∧ isStrictDer out = true ∧ out.getLast? = some (UInt8.ofNat ht) ∧
      derDecode out.dropLast = some (r, s') ∧ r < 2 ^ 255 ∧ lowS s' = true ∧ (s' = s ∨ s' = Secp.n - s) := by
  have hg := gen_sign_input signer N hN dg ht
  rw [h, hatts] at hg
  cases hm : signInput (atts.map fun a => derEncode a.1 a.2) ht with
  | error e => rw [hm] at hg; cases hg
  | ok p =>
    obtain ⟨out', k⟩ := p
    rw [hm] at hg
    have : out = out' := by simpa [Except.toOption] using hg
    subst this
    obtain ⟨r, s, s', h1, h2, h3, h4, h5, h6, h7⟩ := C06.sign_input_spec atts hw ht hht out k hm
    exact ⟨k, r, s, s', h1, h2, h3, h4, h5, h6, h7⟩

end C06Gen
