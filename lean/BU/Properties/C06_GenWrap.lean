import BU.Properties.C06_Gen
import BU.Properties.C03_Gen
import BU.Properties.C04_Gen
import BU.Properties.C05_Gen
import BU.Properties.C07_GenSign
/-!
# C06 / C07, continuation — the public signing methods as *generated* code (tier T)

`PrivateKey.sign_input`, `sign_segwit_input` and `sign_taproot_input` — the API entry points: compute the digest of the transaction
object for this input, hand it to the private signer — are re-translated from the working tree on every run, with the transaction
object as the fields the digest methods read and python-ecdsa's signer as a function of *the digest* and the extra entropy.  Each
is proved to be the composition of the model digest (C03 / C04 / C05, through the tier-T digest theorems) with the translated
private signer: which digest is signed, with which hash type, for which input, script code, amount and spent outputs is a statement
about the translated wrappers.  The defaults of the digest methods that the wrappers rely on (`ext_flag`, the empty leaf script,
leaf version 0xc0) are read from the callee's definition at generation time.
-/
namespace C06GenWrap
open Py Spec Model C02Gen C01Gen GenTapSign

theorem gen_pk_sign_input (sha256 : Bytes → Bytes) (T : Tables) (signer : Bytes → Option Bytes → Bytes)
    (dec : Bytes → Int → Except PyErr (Int × Int)) (enc : Int → Int → Int → Bytes) (N : Nat)
    (t : Tx) (i : Nat) (code : List Spec.Tok) (ht : Nat) (ws : List Py.PyWit)
    (hcode : ∀ (y : TxIn) b, inScript T { y with scriptSig := code } = .ok b → b.length < 2 ^ 64)
    (ho : ∀ o ∈ t.outputs, ∀ b, scriptBytes T o.script = .ok b → b.length < 2 ^ 64)
    (hni : t.inputs.length < 2 ^ 64) (hno : t.outputs.length < 2 ^ 64) :
    Gen.pk_sign_input sha256 T.opCodes signer dec enc N t.version (t.inputs.map inPy) (t.outputs.map outPy) ws t.locktime (i : Int)
        (code.map toPy) (ht : Int) =
      (legacyDigest sha256 T t i code ht >>= fun d => Gen.sign_input signer dec enc N d (ht : Int)) := by
  unfold Gen.pk_sign_input
  rw [C03Gen.gen_legacy_digest sha256 T t i code ht ws hcode ho hni hno]

theorem gen_pk_sign_segwit_input (sha256 : Bytes → Bytes) (T : Tables) (signer : Bytes → Option Bytes → Bytes)
    (dec : Bytes → Int → Except PyErr (Int × Int)) (enc : Int → Int → Int → Bytes) (N : Nat)
    (t : Tx) (i : Nat) (code : List Spec.Tok) (amount : Int) (ht : Nat)
    (ho : ∀ o ∈ t.outputs, ∀ b, scriptBytes T o.script = .ok b → b.length < 2 ^ 64)
    (hc : ∀ b, scriptBytes T code = .ok b → b.length < 2 ^ 64) :
    Gen.pk_sign_segwit_input sha256 T.opCodes signer dec enc N t.version (t.inputs.map inPy) (t.outputs.map outPy) t.locktime (i : Int)
        (code.map toPy) amount (ht : Int) =
      (segwitDigest sha256 T t i code amount ht >>= fun d => Gen.sign_input signer dec enc N d (ht : Int)) := by
  unfold Gen.pk_sign_segwit_input
  rw [C04Gen.gen_segwit_digest sha256 T t i code amount ht ho hc]

/-- `sign_taproot_input`: key path (`script_path = False`: extension 0, no leaf) or script path (extension 1, the given leaf, leaf
version 0xc0), then the translated `_sign_taproot_input` = `Model.signTaproot` on that digest -/
theorem gen_pk_sign_taproot_input (sha256 : Bytes → Bytes) (T : Tables) (priv pub : Bytes)
    (t : Tx) (i : Nat) (spks : List (List Spec.Tok)) (amounts : List Int) (scriptPath : Bool) (leaf : List Spec.Tok)
    (s : Model.Scripts) (ht : Nat) (tweak : Bool)
    (hs : ∀ s ∈ spks, ∀ b, scriptBytes T s = .ok b → b.length < 2 ^ 64)
    (ho : ∀ o ∈ t.outputs, ∀ b, scriptBytes T o.script = .ok b → b.length < 2 ^ 64)
    (hl : ∀ b, scriptBytes T leaf = .ok b → b.length < 2 ^ 64) (hsm : SmallScripts T s) :
    Gen.pk_sign_taproot_input sha256 T.opCodes priv pub t.version (t.inputs.map inPy) (t.outputs.map outPy) t.locktime (i : Int)
        (spks.map (·.map toPy)) amounts scriptPath (leaf.map toPy) (toPyScripts s) (ht : Int) tweak =
      ((if scriptPath then taprootDigest sha256 T t i spks amounts 1 leaf ht else taprootDigest sha256 T t i spks amounts 0 [] ht) >>=
        fun d => signTaproot sha256 T priv pub d ht s tweak) := by
  unfold Gen.pk_sign_taproot_input
  have hnil : ∀ b, scriptBytes T [] = .ok b → b.length < 2 ^ 64 := by
    intro b hb; cases hb; decide
  cases scriptPath with
  | true =>
    simp only [if_true]
    rw [show (1 : Int) = ((1 : Nat) : Int) from rfl, C05Gen.gen_taproot_digest sha256 T t i spks amounts 1 leaf 192 ht hs ho hl]
    cases taprootDigest sha256 T t i spks amounts 1 leaf ht with
    | error e => rfl
    | ok d =>
      simp only [ok_bind]
      rw [C07GenSign.gen_sign_taproot_input sha256 T priv pub d ht s tweak hsm]
  | false =>
    simp only [Bool.false_eq_true, if_false]
    rw [show (0 : Int) = ((0 : Nat) : Int) from rfl, show ([] : List Py.PyTok) = ([] : List Spec.Tok).map toPy from rfl,
      C05Gen.gen_taproot_digest sha256 T t i spks amounts 0 [] 192 ht hs ho hnil]
    cases taprootDigest sha256 T t i spks amounts 0 [] ht with
    | error e => rfl
    | ok d =>
      simp only [ok_bind]
      rw [C07GenSign.gen_sign_taproot_input sha256 T priv pub d ht s tweak hsm]

/-- **legacy input signatures, end to end**: whatever the translated `sign_input` returns is a strictly DER-encoded, low-S, low-R
signature with the hash-type byte, made by the signer for exactly the C03 digest of that input, script code and hash type -/
theorem gen_pk_sign_input_spec (sha256 : Bytes → Bytes) (T : Tables) (signer : Bytes → Option Bytes → Bytes) (N : Nat) (hN : N < 2 ^ 255)
    (t : Tx) (i : Nat) (code : List Spec.Tok) (ht : Nat) (hht : ht < 256) (ws : List Py.PyWit)
    (hcode : ∀ (y : TxIn) b, inScript T { y with scriptSig := code } = .ok b → b.length < 2 ^ 64)
    (ho : ∀ o ∈ t.outputs, ∀ b, scriptBytes T o.script = .ok b → b.length < 2 ^ 64)
    (hni : t.inputs.length < 2 ^ 64) (hno : t.outputs.length < 2 ^ 64)
    (out : Bytes)
    (h : Gen.pk_sign_input sha256 T.opCodes signer C06Gen.decP C06Gen.encP N t.version (t.inputs.map inPy) (t.outputs.map outPy) ws
      t.locktime (i : Int) (code.map toPy) (ht : Int) = .ok out) :
    ∃ d, legacyDigest sha256 T t i code ht = .ok d ∧
      ∀ (atts : List (Nat × Nat)), (∀ a ∈ atts, 0 < a.1 ∧ a.1 < Secp.n ∧ 0 < a.2 ∧ a.2 < Secp.n) →
        C06Gen.attempts (signer d) N = atts.map (fun a => derEncode a.1 a.2) →
        ∃ (k r s s' : Nat), atts[k]? = some (r, s) ∧ isStrictDer out = true ∧ out.getLast? = some (UInt8.ofNat ht) ∧
          derDecode out.dropLast = some (r, s') ∧ r < 2 ^ 255 ∧ lowS s' = true ∧ (s' = s ∨ s' = Secp.n - s) := by
  rw [gen_pk_sign_input sha256 T signer _ _ N t i code ht ws hcode ho hni hno] at h
  cases hd : legacyDigest sha256 T t i code ht with
  | error e => rw [hd] at h; cases h
  | ok d =>
    rw [hd, ok_bind] at h
    exact ⟨d, rfl, fun atts hw hatts => C06Gen.gen_sign_input_spec signer N hN d ht hht atts hw hatts out h⟩

end C06GenWrap
