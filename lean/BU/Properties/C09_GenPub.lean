import BU.Proofs.GenPub
import BU.Properties.C09
/-!
# C09, continuation — SEC public-key parsing and rendering as *generated* code (tier T)

`PublicKey.__init__` (called with a hex string), `to_hex`, `to_x_only_hex`, `is_y_even` and `_to_hash160` are re-translated from the
working tree on every run.  The key object is what python-ecdsa holds: a curve point, rendered by `to_string()` as 64 bytes x ‖ y.
`sympy.sqrt_mod` and `VerifyingKey.from_string` are parameters of the translated constructor (instantiated with the model's
`sqrtAll` — all square roots, sorted — and the on-curve check); the hex string is a real string (`hexOf b` is `b.hex()`).
For every byte string the translated constructor accepts `b.hex()` exactly when the model accepts `b`, with the same point; the
renderings are the SEC standard forms; hence the C09 round trip and the off-curve rejection are statements about the translated code.
-/
namespace C09GenPub
open Py Model Secp GenPub GenHexStr

/-- `sympy.sqrt_mod(a, p, True)` as the constructor's parameter -/
abbrev sqrtP := GenPub.sqrtP

/-- renderings: the SEC standard forms of the point held -/
theorem gen_to_hex (x y : Nat) (c : Bool) :
    Gen.pubkey_to_hex (beBytes 32 x ++ beBytes 32 y) c = .ok (pubToBytes (x, y) c) := gen_pubkey_to_hex x y c
theorem gen_to_x_only_hex (x y : Nat) :
    Gen.pubkey_to_x_only_hex (beBytes 32 x ++ beBytes 32 y) = .ok (pubXOnly (x, y)) := gen_pubkey_to_x_only_hex x y
theorem gen_is_y_even (x y : Nat) (hy : y < 2 ^ 256) :
    Gen.pubkey_is_y_even (beBytes 32 x ++ beBytes 32 y) = .ok (y % 2 == 0) := gen_pubkey_is_y_even x y hy
/-- `_to_hash160`: RIPEMD-160 (the translated one) of SHA-256 of the SEC encoding — what P2PKH / P2WPKH addresses commit to -/
theorem gen_to_hash160 (sha256 : Bytes → Bytes) (hlen : ∀ b, (sha256 b).length < 2 ^ 61) (x y : Nat) (c : Bool) :
    Gen.pubkey_to_hash160 sha256 (beBytes 32 x ++ beBytes 32 y) c = .ok (pubHash160 sha256 C20Gen.genTabs (x, y) c) :=
  gen_pubkey_to_hash160 sha256 hlen x y c

/-- parsing: the translated constructor on `b.hex()` succeeds exactly when the model does on `b`, with the same point -/
theorem gen_from_hex (b : Bytes) (hl : b.length < 2 ^ 61) :
    (Gen.pubkey_from_hex sqrtP verifyingKeyFromString (hexOf b)).toOption = (pubFromBytes b).toOption :=
  gen_pubkey_from_hex b hl

theorem gen_from_hex_ok (b : Bytes) (hl : b.length < 2 ^ 61) (P : Nat × Nat) (h : pubFromBytes b = .ok P) :
    Gen.pubkey_from_hex sqrtP verifyingKeyFromString (hexOf b) = .ok P := by
  have := gen_from_hex b hl
  rw [h] at this
  cases hg : Gen.pubkey_from_hex sqrtP verifyingKeyFromString (hexOf b) with
  | error e => rw [hg] at this; cases this
  | ok Q => rw [hg] at this; cases this; rfl

theorem gen_from_hex_rejects (b : Bytes) (hl : b.length < 2 ^ 61) (e : PyErr) (h : pubFromBytes b = .error e) :
    ∃ e', Gen.pubkey_from_hex sqrtP verifyingKeyFromString (hexOf b) = .error e' := by
  have := gen_from_hex b hl
  rw [h] at this
  cases hg : Gen.pubkey_from_hex sqrtP verifyingKeyFromString (hexOf b) with
  | error e' => exact ⟨e', rfl⟩
  | ok Q => rw [hg] at this; cases this

theorem pubToBytes_len (P : Nat × Nat) (c : Bool) : (pubToBytes P c).length < 2 ^ 61 := by
  unfold pubToBytes
  cases c <;> simp [GenTweak.be32_length]

/-- **round trip of the translated code**: for every secret `d` in range with public point `d·G = (x, y)`, what the translated
`to_hex` renders (compressed or not) the translated constructor parses back to the identical point; the x-only rendering parses to the
even-y representative -/
theorem gen_sec_roundtrip (d : Nat) (hd : 1 ≤ d ∧ d < n) (x y : Nat) (hP : mul G d = some (x, y)) :
    (∀ c, ∃ enc, Gen.pubkey_to_hex (beBytes 32 x ++ beBytes 32 y) c = .ok enc ∧
      Gen.pubkey_from_hex sqrtP verifyingKeyFromString (hexOf enc) = .ok (x, y)) ∧
    (∃ enc, Gen.pubkey_to_x_only_hex (beBytes 32 x ++ beBytes 32 y) = .ok enc ∧
      Gen.pubkey_from_hex sqrtP verifyingKeyFromString (hexOf enc) = .ok (x, if y % 2 = 0 then y else p - y)) := by
  obtain ⟨h1, h2, h3⟩ := C09.sec_roundtrip_unconditional d hd x y hP
  constructor
  · intro c
    refine ⟨pubToBytes (x, y) c, gen_to_hex x y c, ?_⟩
    cases c with
    | true => exact gen_from_hex_ok _ (pubToBytes_len _ _) _ h1
    | false => exact gen_from_hex_ok _ (pubToBytes_len _ _) _ h2
  · refine ⟨pubXOnly (x, y), gen_to_x_only_hex x y, ?_⟩
    exact gen_from_hex_ok _ (by unfold pubXOnly; simp [GenTweak.be32_length]) _ h3

/-- encodings of x values that are not on the curve are rejected by the translated constructor, whatever the prefix byte -/
theorem gen_offcurve_rejected (x : Nat) (hx : x < 2 ^ 256) (h : sqrtAll ((x ^ 3 + 7) % p) = []) (pre : UInt8) :
    (∃ e, Gen.pubkey_from_hex sqrtP verifyingKeyFromString (hexOf (pre :: beBytes 32 x)) = .error e) ∧
    (∃ e, Gen.pubkey_from_hex sqrtP verifyingKeyFromString (hexOf (beBytes 32 x)) = .error e) := by
  obtain ⟨⟨e1, h1⟩, ⟨e2, h2⟩⟩ := C09.offcurve_rejected x hx h pre
  exact ⟨gen_from_hex_rejects _ (by simp [GenTweak.be32_length]) _ h1, gen_from_hex_rejects _ (by simp [GenTweak.be32_length]) _ h2⟩

/-- non-vacuity: the generator point itself -/
example : (1 ≤ 1 ∧ 1 < n) ∧ mul G 1 = some (Gx, Gy) := ⟨by decide, by decide +kernel⟩

end C09GenPub
