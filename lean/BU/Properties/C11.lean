import BU.Model.Address
namespace C11
end C11
