import BU.Py
import BU.Gen.Tables
import BU.Model.Address
import BU.Model.Bech32
import BU.Proofs.Bech32Lemmas
import BU.Proofs.SegwitLemmas
/-!
# C11 — segwit addresses (bech32/bech32m) round-trip and are validated, per network

M: `Model.Bech32.*` (bech32.py), `Model.segwitToString`, `segwitFromString`, `segwitInit`, `isAddressBech32`.
-/
namespace C11
open Py Spec Model Model.Bech32 SegwitLemmas

/-- **T-tie**: charset, generator and bech32m constant of the working tree are BIP173 / BIP350's -/
theorem consts_tie :
    ({ charset := Gen.BECH32_CHARSET.toList, generator := Gen.BECH32_GENERATOR, m := Gen.BECH32M_CONST } : Consts) = specConsts := by
  rfl

/-- **T-tie**: the human-readable parts per network -/
theorem segwit_prefixes :
    Gen.NETWORK_SEGWIT_PREFIXES = [("mainnet", "bc"), ("signet", "tb"), ("testnet", "tb"), ("regtest", "bcrt")] := by
  rfl

def validProgram (ver : Nat) (prog : Bytes) : Prop :=
  (ver = 0 ∧ (prog.length = 20 ∨ prog.length = 32)) ∨ (ver = 1 ∧ prog.length = 32)

/-- helper: the network prefixes as character lists -/
theorem hrp_cases (hrp : String) (hh : hrp ∈ Gen.NETWORK_SEGWIT_PREFIXES.map (·.2)) :
    hrp.toList = "bc".toList ∨ hrp.toList = "tb".toList ∨ hrp.toList = "bcrt".toList := by
  rw [segwit_prefixes] at hh
  simp only [List.map_cons, List.map_nil, List.mem_cons, List.not_mem_nil, or_false] at hh
  rcases hh with rfl | rfl | rfl | rfl
  · exact Or.inl rfl
  · exact Or.inr (Or.inl rfl)
  · exact Or.inr (Or.inl rfl)
  · exact Or.inr (Or.inr rfl)

/-- helper: `Bech32Lemmas.decode_encode` instantiated at the byte list of a valid program -/
theorem core (hrp : String) (hh : hrp ∈ Gen.NETWORK_SEGWIT_PREFIXES.map (·.2)) (ver : Nat) (prog : Bytes)
    (hv : validProgram ver prog) :
    ∃ l, encode specConsts hrp.toList ver (prog.map (·.toNat)) = some l ∧
      decode specConsts hrp.toList l = some (ver, prog.map (·.toNat)) := by
  apply Bech32Lemmas.decode_encode _ (hrp_cases hrp hh)
  · intro b hb
    rw [List.mem_map] at hb
    obtain ⟨x, _, rfl⟩ := hb
    exact UInt8.toNat_lt x
  · simpa [validProgram] using hv

/-- for every witness program (v0/20, v0/32, v1/32) and every network prefix: the address string decodes back to
exactly that program under the same version -/
theorem roundtrip (hrp : String) (hh : hrp ∈ Gen.NETWORK_SEGWIT_PREFIXES.map (·.2)) (ver : Nat) (prog : Bytes)
    (hv : validProgram ver prog) :
    ∃ s, segwitToString specConsts hrp ver prog = some s ∧ segwitFromString specConsts hrp ver s = .ok prog := by
  obtain ⟨l, he, hd⟩ := core hrp hh ver prog hv
  refine ⟨String.ofList l, ?_, ?_⟩
  · unfold segwitToString
    rw [he]; rfl
  · unfold segwitFromString
    rw [String.toList_ofList, hd]
    simp only [ne_eq, not_true_eq_false, if_false, map_ofNat_toNat]

/-- P2WPKH / P2WSH / P2TR objects re-created from their own address string or from their witness program hold an
identical program -/
theorem recreate (sha256 : Bytes → Bytes) (T : Tables) (hrp : String) (hh : hrp ∈ Gen.NETWORK_SEGWIT_PREFIXES.map (·.2))
    (ver : Nat) (prog : Bytes) (hv : validProgram ver prog) :
    segwitInit sha256 specConsts T hrp ver (some prog) none none = .ok prog ∧
    ∃ s, segwitToString specConsts hrp ver prog = some s ∧
      segwitInit sha256 specConsts T hrp ver none (some s) none = .ok prog := by
  constructor
  · have hne : prog.isEmpty = false := by
      cases prog with
      | nil => rcases hv with ⟨_, h | h⟩ | ⟨_, h⟩ <;> simp at h
      | cons a t => rfl
    simp only [segwitInit, hne, Bool.false_eq_true, if_false]
  · obtain ⟨l, he, hd⟩ := core hrp hh ver prog hv
    obtain ⟨s, hs, hf⟩ := roundtrip hrp hh ver prog hv
    refine ⟨s, hs, ?_⟩
    have hsl : s = String.ofList l := by
      unfold segwitToString at hs
      rw [he] at hs
      simpa using hs.symm
    have hne : s.isEmpty = false := by
      apply isEmpty_false_of_decode specConsts hrp.toList s (ver, prog.map (·.toNat))
      rw [hsl, String.toList_ofList]; exact hd
    simp only [segwitInit, hne, Bool.false_eq_true, if_false, hf]

/-- whatever string an address object accepts has the network's prefix, a single case, only charset characters in
its data part, the object's witness version and the checksum variant of that version (bech32 for v0, bech32m for
v1) — anything else is rejected -/
theorem accept_sound (hrp : String) (ver : Nat) (s : String) (prog : Bytes)
    (h : segwitFromString specConsts hrp ver s = .ok prog) :
    ∃ data spec, bech32Decode specConsts s.toList = some (hrp.toList, data, spec) ∧ data.head? = some ver ∧
      (ver = 0 → spec = .bech32) ∧ (ver ≠ 0 → spec = .bech32m) ∧
      ¬ (s.toList.map lowerC ≠ s.toList ∧ s.toList.map upperC ≠ s.toList) ∧
      2 ≤ prog.length ∧ prog.length ≤ 40 := by
  unfold segwitFromString at h
  split at h
  · cases h
  · rename_i v p hd
    split at h
    · cases h
    · rename_i hv
      have hv' : v = ver := Decidable.byContradiction hv
      subst hv'
      have hp : prog = p.map UInt8.ofNat := by
        injection h with h; exact h.symm
      obtain ⟨hrpgot, data, spec, hbd, rfl, hhd, _, h0, h1, hl2, hl40, _, hcase⟩ :=
        Bech32Lemmas.decode_sound _ _ _ _ hd
      refine ⟨data, spec, hbd, hhd, h0, h1, hcase, ?_, ?_⟩
      · rw [hp, List.length_map]; exact hl2
      · rw [hp, List.length_map]; exact hl40

/-- the predicate helper answers yes for every valid segwit address … -/
theorem predicate_valid (hrp : String) (hh : hrp ∈ Gen.NETWORK_SEGWIT_PREFIXES.map (·.2)) (ver : Nat) (prog : Bytes)
    (hv : validProgram ver prog) (s : String) (hs : segwitToString specConsts hrp ver prog = some s) :
    isAddressBech32 specConsts s = true := by
  obtain ⟨l, he, hd⟩ := core hrp hh ver prog hv
  have hsl : s = String.ofList l := by
    unfold segwitToString at hs
    rw [he] at hs
    simpa using hs.symm
  have hd' : decode specConsts hrp.toList s.toList = some (ver, prog.map (·.toNat)) := by
    rw [hsl, String.toList_ofList]; exact hd
  unfold isAddressBech32
  rw [isEmpty_false_of_decode _ _ _ _ hd']
  simp only [Bool.false_eq_true, if_false]
  exact isSome_of_decode _ _ _ _ hd'

/-- … and no for mixed-case strings (as Base58 addresses almost always are) and for strings without a valid
bech32/bech32m checksum -/
theorem predicate_rejects (s : String)
    (h : (s.toList.map lowerC ≠ s.toList ∧ s.toList.map upperC ≠ s.toList) ∨ bech32Decode specConsts s.toList = none) :
    isAddressBech32 specConsts s = false := by
  unfold isAddressBech32
  split
  · rfl
  · rcases h with h | h
    · unfold bech32Decode
      rw [if_pos (Or.inr h)]; rfl
    · rw [h]; rfl

end C11
