import BU.Proofs.GenTweak
import BU.Properties.C08
/-!
# C08, continuation — `tweak_taproot_pubkey` as *generated* code (tier T)

The function that turns the internal key and the tweak into the output key of a taproot address (even-y lift of the internal key,
`+ tweak·G` with the translated curve arithmetic of schnorr.py, parity bit, `bytes.fromhex(f"{Q[0]:064x}{Q[1]:064x}")`) is
re-translated from the working tree on every run and proved equal to the hand model `Model.tweakPubkey` — result and exception —
for every 64-byte public key with y < p and every tweak.
-/
namespace C08GenTweak
open Py Secp Model

theorem gen_tweak_taproot_pubkey (pub : Bytes) (tweak : Nat) (hlen : pub.length = 64) (hy0 : ofBE (pub.drop 32) < p) :
    Gen.tweak_taproot_pubkey pub (tweak : Int) = tweakPubkey pub tweak := GenTweak.gen_tweak_taproot_pubkey pub tweak hlen hy0

end C08GenTweak
