import BU.Py
import BU.Spec.Sighash
import BU.Model.Digest
import BU.Properties.C01
/-!
# C05 — the taproot signature hash equals BIP341 (key path) and BIP342 (script path)

M: `Model.taprootDigest` transcribes `get_transaction_taproot_digest`; Spec: `Spec.bip341Digest` from the BIP texts.
-/
namespace C05
open Py Spec Model

def validHashType (ht : Nat) : Bool := [0x00, 0x01, 0x02, 0x03, 0x81, 0x82, 0x83].contains ht

/-- the spent outputs as the Spec sees them -/
def assembleSpent (spks : List (List Tok)) (amounts : List Int) : Option (List Spent) :=
  (spks.zip amounts).mapM fun p => do
    let s ← encToks p.1
    pure { amount := p.2.toNat, spk := s }

/-- key path (`ext = 0`) and script path (`ext = 1`), all seven valid hash types, every index valid for
the hash type, scripts of any length (every length prefix is CompactSize) -/
theorem taproot_digest_eq_bip341 (sha256 : Bytes → Bytes) (T : Tables) (hT : C02.TablesOK T = true) (t : Tx)
    (h : C01.WFTx T t = true) (i : Nat) (hi : i < t.inputs.length)
    (spks : List (List Tok)) (amounts : List Int)
    (hl1 : spks.length = t.inputs.length) (hl2 : amounts.length = t.inputs.length)
    (hsp : ∀ s ∈ spks, C01.WFScript T s = true) (ham : ∀ a ∈ amounts, 0 ≤ a ∧ a < 2 ^ 63)
    (ext : Nat) (he : ext ≤ 1) (leaf : List Tok) (hleaf : C01.WFScript T leaf = true)
    (ht : Nat) (hht : validHashType ht = true) (hs : ht &&& 3 = 3 → i < t.outputs.length) :
    ∃ r sp lf, C01.assembleTx t = some r ∧ assembleSpent spks amounts = some sp ∧ encToks leaf = some lf ∧
      taprootDigest sha256 T t i spks amounts ext leaf ht = .ok (bip341Digest sha256 r i sp ext lf ht) := by
  sorry

/-- the digest does not depend on scriptSigs or witnesses -/
theorem ignores_scriptsigs_witnesses (sha256 : Bytes → Bytes) (T : Tables) (t t' : Tx) (i : Nat)
    (spks : List (List Tok)) (amounts : List Int) (ext : Nat) (leaf : List Tok) (ht : Nat)
    (hv : t'.version = t.version) (hl : t'.locktime = t.locktime) (ho : t'.outputs = t.outputs)
    (hi : t'.inputs.map (fun x => (x.txid, x.index, x.sequence)) = t.inputs.map (fun x => (x.txid, x.index, x.sequence))) :
    taprootDigest sha256 T t' i spks amounts ext leaf ht = taprootDigest sha256 T t i spks amounts ext leaf ht := by
  sorry

end C05
