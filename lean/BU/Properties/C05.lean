import BU.Py
import BU.Spec.Sighash
import BU.Model.Digest
import BU.Properties.C01
import BU.Proofs.Digest05
/-!
# C05 — the taproot signature hash equals BIP341 (key path) and BIP342 (script path)

M: `Model.taprootDigest` transcribes `get_transaction_taproot_digest`; Spec: `Spec.bip341Digest` from the BIP texts.
-/
namespace C05
open Py Spec Model

def validHashType (ht : Nat) : Bool := [0x00, 0x01, 0x02, 0x03, 0x81, 0x82, 0x83].contains ht

/-- the spent outputs as the Spec sees them -/
def assembleSpent (spks : List (List Tok)) (amounts : List Int) : Option (List Spent) :=
  (spks.zip amounts).mapM fun p => do
    let s ← encToks p.1
    pure { amount := p.2.toNat, spk := s }

section helpers
open Digest05

theorem assembleSpent_eq (T : Tables) (hT : C02.TablesOK T = true) (spks : List (List Tok)) (amounts : List Int)
    (hsp : ∀ s ∈ spks, C01.WFScript T s = true) :
    assembleSpent spks amounts = some (spentList T spks amounts) := by
  unfold assembleSpent spentList
  apply TxLemmas.mapM_some
  intro p hp
  have := (script_spec T hT p.1 (hsp p.1 (List.of_mem_zip hp).1)).2
  simp [this, spentOf]

end helpers

open Digest05 in
/-- key path (`ext = 0`) and script path (`ext = 1`), all seven valid hash types, every index valid for
the hash type, scripts of any length (every length prefix is CompactSize) -/
theorem taproot_digest_eq_bip341 (sha256 : Bytes → Bytes) (T : Tables) (hT : C02.TablesOK T = true) (t : Tx)
    (h : C01.WFTx T t = true) (i : Nat) (hi : i < t.inputs.length)
    (spks : List (List Tok)) (amounts : List Int)
    (hl1 : spks.length = t.inputs.length) (hl2 : amounts.length = t.inputs.length)
    (hsp : ∀ s ∈ spks, C01.WFScript T s = true) (ham : ∀ a ∈ amounts, 0 ≤ a ∧ a < 2 ^ 63)
    (ext : Nat) (he : ext ≤ 1) (leaf : List Tok) (hleaf : C01.WFScript T leaf = true)
    (ht : Nat) (hht : validHashType ht = true) (hs : ht &&& 3 = 3 → i < t.outputs.length) :
    ∃ r sp lf, C01.assembleTx t = some r ∧ assembleSpent spks amounts = some sp ∧ encToks leaf = some lf ∧
      taprootDigest sha256 T t i spks amounts ext leaf ht = .ok (bip341Digest sha256 r i sp ext lf ht) := by
  obtain ⟨hv, hlk, hn1, hn, hm, hins, houts, hw⟩ := C01.wfTx_elim T t h
  obtain ⟨hlf1, hlf2⟩ := script_spec T hT leaf hleaf
  refine ⟨C01.rawTx T t, spentList T spks amounts, rawScript T leaf, (C01.tx_spec T hT t h).1,
    assembleSpent_eq T hT spks amounts hsp, hlf2, ?_⟩
  have e1 := prevouts_spec T t.inputs hins
  have e2 := amounts_spec amounts ham
  have e3 := spks_spec T hT spks hsp
  have e4 := outs_spec T hT t.outputs houts
  have hx : t.inputs[i]? = some t.inputs[i] := List.getElem?_eq_getElem hi
  have ha : amounts[i]? = some (amounts[i]'(by omega)) := List.getElem?_eq_getElem (by omega)
  have hsk : spks[i]? = some (spks[i]'(by omega)) := List.getElem?_eq_getElem (by omega)
  have e5 := outpoint_spec T _ (hins _ (List.getElem_mem hi))
  have e6 := le8_spec _ (ham _ (List.getElem_mem (show i < amounts.length by omega))).1
    (ham _ (List.getElem_mem (show i < amounts.length by omega))).2
  have e7 := spk_spec T hT _ (hsp _ (List.getElem_mem (show i < spks.length by omega)))
  have e8 := toBytes4 i (by omega)
  have e9' := spent_getD T spks amounts i _ _ hsk ha
  rw [List.getD_eq_getElem?_getD] at e9'
  have e16 : ∀ x : TxIn, (C01.rawIn T x).sequence = x.sequence := fun _ => rfl
  have e11 := spent_amounts T spks amounts (by omega)
  have e12 := spent_spks T spks amounts (by omega)
  have e13 := seqs_spec T t.inputs
  have e14 : ∀ hh : i < t.outputs.length, t.outputs[i]? = some t.outputs[i] ∧
      tapOutBytes T t.outputs[i] = .ok (encOut ((C01.rawTx T t).outs.getD i default)) := by
    intro hh
    have := tapOut_spec T hT _ (houts _ (List.getElem_mem hh))
    refine ⟨List.getElem?_eq_getElem hh, ?_⟩
    rw [this]
    simp [C01.rawTx, List.getD_eq_getElem?_getD, List.getElem?_map, List.getElem?_eq_getElem hh]
  have hext : ext = 0 ∨ ext = 1 := by omega
  simp only [validHashType, List.contains_eq_mem, List.mem_cons, List.not_mem_nil, or_false,
    decide_eq_true_eq] at hht
  unfold taprootDigest
  rcases hht with rfl | rfl | rfl | rfl | rfl | rfl | rfl <;> rcases hext with rfl | rfl
  all_goals
    first
    | (have e15 := e14 (hs (by decide))
       simp [bytesOfInts, e1, e2, e3, hx, ha, hsk, e5, e6, e7, e8, e11, e12, e15.1, e15.2, hlf1,
         bip341Digest, bip341SigMsg, bind, Except.bind, pure, Except.pure] <;>
       simp [C01.rawTx, e13, hx, e9', e15.1, e16])
    | simp [bytesOfInts, e1, e2, e3, e4, hx, ha, hsk, e5, e6, e7, e8, e11, e12, hlf1,
        bip341Digest, bip341SigMsg, bind, Except.bind, pure, Except.pure] <;>
      simp [C01.rawTx, e13, hx, e9', e16]

/-- the digest does not depend on scriptSigs or witnesses -/
theorem ignores_scriptsigs_witnesses (sha256 : Bytes → Bytes) (T : Tables) (t t' : Tx) (i : Nat)
    (spks : List (List Tok)) (amounts : List Int) (ext : Nat) (leaf : List Tok) (ht : Nat)
    (hv : t'.version = t.version) (hl : t'.locktime = t.locktime) (ho : t'.outputs = t.outputs)
    (hi : t'.inputs.map (fun x => (x.txid, x.index, x.sequence)) = t.inputs.map (fun x => (x.txid, x.index, x.sequence))) :
    taprootDigest sha256 T t' i spks amounts ext leaf ht = taprootDigest sha256 T t i spks amounts ext leaf ht := by
  have h1 : t'.inputs.map outpointBytes = t.inputs.map outpointBytes := by
    have e : outpointBytes = (fun p : Bytes × Int × Bytes => do
        let ix ← Py.pack "<I" p.2.1
        pure (p.1.reverse ++ ix)) ∘ (fun x : TxIn => (x.txid, x.index, x.sequence)) := rfl
    rw [e, ← List.map_map, hi, List.map_map]
  have h2 : t'.inputs.flatMap (·.sequence) = t.inputs.flatMap (·.sequence) := by
    have := congrArg (fun l : List (Bytes × Int × Bytes) => l.flatMap (fun p => p.2.2)) hi
    simpa only [List.flatMap_map] using this
  have h3 : (t'.inputs[i]?).map (fun x => (x.txid, x.index, x.sequence)) =
      (t.inputs[i]?).map (fun x => (x.txid, x.index, x.sequence)) := by
    rw [← List.getElem?_map, hi, List.getElem?_map]
  unfold taprootDigest
  rw [hv, hl, ho, h1, h2]
  cases h4 : t'.inputs[i]? with
  | none =>
    cases h5 : t.inputs[i]? with
    | none => rfl
    | some x => rw [h4, h5] at h3; simp at h3
  | some x' =>
    cases h5 : t.inputs[i]? with
    | none => rw [h4, h5] at h3; simp at h3
    | some x =>
      rw [h4, h5] at h3
      simp only [Option.map_some, Option.some.injEq, Prod.mk.injEq] at h3
      obtain ⟨a, b, c⟩ := h3
      simp only [outpointBytes, a, b, c]

end C05
